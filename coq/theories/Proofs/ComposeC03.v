(* Composition for C03 (the part C03_generic_partial left to per-run evaluation): the bytes Preset.build produces are
   read back by the strict parser of Model/ParrotSpec.v as exactly the hello "header fields + the extensions as their
   reference layouts encode them", so the oracle theorem about that abstract hello (PresetP.apply_preset_matches) is a
   theorem about the parsed bytes.  Uses Proofs/ComposeP.marshal_shape (C02's layout theorem with the extension block
   characterised exactly) and nothing of C12/C13. No axioms. *)
From UV Require Import Base.Common Model.Wire Model.Varint Model.Ext Model.ExtSpec Model.Strict.
From UV Require Import Proofs.WireP Proofs.ExtP Proofs.StrictP.
From UV Require Import Model.Padding Model.Marshal Model.ChMarshal Proofs.MarshalP Proofs.ChMarshalP.
From UV Require Import Proofs.ComposeP.
From UV Require Model.Preset Model.ParrotSpec Proofs.PresetP.
From Coq Require Import ZifyBool ZifyNat ZifyN.

Lemma wlist_is_wire_of es : wlist es = ParrotSpec.wire_of es.
Proof. reflexivity. Qed.
Lemma setpad_is_set_pad l w e : setpad l w e = ParrotSpec.set_pad l w e.
Proof. reflexivity. Qed.

(* ---- ParrotSpec's parser is complete on layouts ---- *)
Lemma parse_exts_flat (l : list (N * bytes)) : forall fuel, Forall present_ok l ->
  (length (flat_map enc_ext l) <= fuel)%nat -> ParrotSpec.parse_exts fuel (flat_map enc_ext l) = Some l.
Proof.
  induction l as [|x l IH]; intros fuel Hall Hfuel.
  - destruct fuel; reflexivity.
  - inversion Hall as [|? ? [Hid Hlen] Hl]; subst. cbn [flat_map] in *. rewrite app_length in Hfuel.
    assert (Hpos : (4 <= length (enc_ext x))%nat) by (unfold enc_ext, enc_u16lp, enc_u16; rewrite !app_length; cbn [length]; lia).
    destruct fuel as [|fuel]; [lia|].
    remember (enc_ext x ++ flat_map enc_ext l) as s eqn:Hs. destruct s as [|s0 s'].
    { exfalso. apply (f_equal (@length N)) in Hs. rewrite app_length in Hs. cbn [length] in Hs. lia. }
    cbn [ParrotSpec.parse_exts]. rewrite Hs. unfold enc_ext at 1. rewrite <- app_assoc.
    rewrite read_enc_u16 by exact Hid. rewrite read_enc_u16lp by exact Hlen.
    rewrite IH; [destruct x; reflexivity | exact Hl | lia].
Qed.

Definition to_ast (a : ch_ast) : ParrotSpec.ast :=
  {| ParrotSpec.a_vers := c_vers a; ParrotSpec.a_random := c_random a; ParrotSpec.a_sid := c_sid a;
     ParrotSpec.a_suites := c_suites a; ParrotSpec.a_comp := c_comp a; ParrotSpec.a_exts := c_exts a |}.

Lemma parse_hello_layout a : ast_ok a -> ParrotSpec.parse_hello (hello_layout a) = Some (to_ast a).
Proof.
  intros (Hv & Hr & Hsid & Hsne & Hsu & Hslen & Hcne & Hclen & Hx).
  destruct a as [vers random sid suites comp has exts]. cbn [c_vers c_random c_sid c_suites c_comp c_has_exts c_exts] in *.
  unfold hello_layout, to_ast. cbn [c_vers c_random c_sid c_suites c_comp c_has_exts c_exts].
  set (tailb := if has then enc_u16lp (flat_map enc_ext exts) else []).
  assert (Htail : blen tailb < 65536 + 2).
  { unfold tailb. destruct has; [rewrite blen_enc_u16lp; lia | rewrite blen_nil; lia]. }
  set (body := enc_u16 vers ++ random ++ enc_u8lp sid ++ enc_u16lp (flat_map enc_u16 suites) ++ enc_u8lp comp ++ tailb).
  assert (Hbody : blen body < 16777216).
  { unfold body. rewrite !blen_app, blen_enc_u16, !blen_enc_u8lp, blen_enc_u16lp, blen_flat_u16. lia. }
  unfold ParrotSpec.parse_hello. cbn [app read_u8 obind]. change (1 =? 1) with true. cbn [negb].
  rewrite read_enc_u24lp_nil by exact Hbody. cbn [obind empty negb].
  unfold body. rewrite read_enc_u16 by exact Hv. cbn [obind].
  match goal with |- context [read_bytes 32 (random ++ ?x)] => pose proof (read_bytes_app random x) as Hrb end.
  rewrite Hr in Hrb. rewrite Hrb. cbn [obind].
  rewrite read_enc_u8lp by lia. cbn [obind].
  rewrite read_enc_u16lp by (rewrite blen_flat_u16; lia). cbn [obind].
  rewrite read_u16s_flat by exact Hsu. cbn [obind].
  rewrite read_enc_u8lp by exact Hclen. cbn [obind].
  unfold tailb. destruct has.
  - destruct Hx as (Hall & Hok & Hlen).
    assert (Hne : empty (enc_u16lp (flat_map enc_ext exts)) = false) by reflexivity.
    rewrite Hne. rewrite read_enc_u16lp_nil by exact Hlen. cbn [obind empty negb].
    rewrite parse_exts_flat; [reflexivity | exact Hall | apply le_n].
  - subst exts. reflexivity.
Qed.

(* ---- Preset.build is the (fixed) marshaller of C02 when the totals fit ---- *)
Lemma to_aext_same padto e : Preset.pad_other e = false -> Preset.to_aext e = to_aext padto e.
Proof. destruct e; try reflexivity. destruct policy; try reflexivity. discriminate. Qed.

Lemma map_to_aext_same padto es : existsb Preset.pad_other es = false -> map Preset.to_aext es = map (to_aext padto) es.
Proof.
  induction es as [|e es IH]; [reflexivity|]. cbn [existsb map]. intros H. apply orb_false_iff in H. destruct H as [He Hes].
  rewrite (to_aext_same padto e He), (IH Hes). reflexivity.
Qed.

Lemma build_is_marshal_hello sp c fr h es raw :
  Preset.apply_preset sp c fr = Ok (h, es) -> Preset.build sp c fr = Ok raw -> spec_fitsb 0%Z h es = true ->
  marshal_hello Preset.bbs512 0%Z h es = Ok raw.
Proof.
  intros Ha Hb Hfit. unfold Preset.build in Hb. rewrite Ha in Hb. cbn [bind fst snd] in Hb.
  destruct (existsb Preset.pad_other es) eqn:Ep; [discriminate|].
  rewrite (map_to_aext_same 0%Z es Ep) in Hb.
  unfold spec_fitsb in Hfit. unfold marshal_hello.
  destruct (marshal_prepare h (map (to_aext 0%Z) es)) as [p|c0|c0]; try discriminate. cbn [bind]. rewrite Hfit. cbn [negb]. exact Hb.
Qed.

(* (a) of notes/C03.md "Partial": parse (build ..) = the abstract hello of the model's values *)
Theorem build_parses sp c fr h es raw :
  Preset.apply_preset sp c fr = Ok (h, es) -> Preset.build sp c fr = Ok raw ->
  wf_specb h es = true -> spec_fitsb 0%Z h es = true ->
  exists pl pw, ParrotSpec.parse_hello raw = Some (ParrotSpec.ast_of h (map (ParrotSpec.set_pad pl pw) es)).
Proof.
  intros Ha Hb Hwf Hfit. pose proof (build_is_marshal_hello sp c fr h es raw Ha Hb Hfit) as Hm.
  destruct (marshal_shape Preset.bbs512 0%Z h es raw Hwf Hm) as (present & -> & Hok & _ & _ & _ & (pl & pw & Hex)).
  exists pl, pw. rewrite (parse_hello_layout _ Hok). subst present. reflexivity.
Qed.

(* C03_generic, full: the PARSED bytes of the hello built for a spec satisfy the property oracle against that spec *)
Theorem build_matches sp c fr h es raw name :
  Preset.apply_preset sp c fr = Ok (h, es) -> Preset.build sp c fr = Ok raw ->
  wf_specb h es = true -> spec_fitsb 0%Z h es = true -> Preset.sp_comp sp = [0] ->
  exists a, ParrotSpec.parse_hello raw = Some a
            /\ ParrotSpec.ast_matches_specb a {| Preset.p_name := name; Preset.p_spec := sp; Preset.p_shuffles := false |} c = true.
Proof.
  intros Ha Hb Hwf Hfit Hcomp. destruct (build_parses sp c fr h es raw Ha Hb Hwf Hfit) as (pl & pw & Hp).
  eexists; split; [exact Hp|]. apply (PresetP.apply_preset_matches sp c fr h es name pl pw Ha); [|exact Hcomp].
  destruct (wf_spec_parts h es Hwf) as (_ & _ & _ & _ & _ & _ & Hall & _).
  apply forallb_forall. intros e He. rewrite Forall_forall in Hall. apply (Hall e He).
Qed.

(* (1) The shape of the private keys ApplyPreset retains (KeyShare.v, repaired code) is ParrotNeg.static_shape of the share
       list - for EVERY crypto instance, stream and cursor (no law needed).
   (2) Everything Model/ParrotNeg.v reads off a spec is invariant under the rearrangements the Chrome shuffle can produce,
       provided each consulted extension type occurs at most once.
   (3) The sweeps over the regenerated table Gen/Parrots.v (finite: by computation), naming the exception classes.
   No axioms. *)
From Coq Require Import Permutation.
From UV Require Import Base.Common Model.Wire Model.Ext.
From UV Require Model.Grease Model.Negotiate Model.KeyShare Model.Complete Model.ParrotSpec Model.Shuffle.
From UV Require Proofs.KeyShareP Proofs.PresetP Gen.Parrots.
From UV Require Import Model.Preset Model.PresetOk Model.ParrotNeg Proofs.PresetOkS.
From Coq Require Import ZifyBool ZifyNat ZifyN.

(* ------------------------------------------------------------------ *)
(* 1. retained keys *)
Section Shape.
  Variables (priv dkey : Type) (rnd : N -> N) (ecdh_gen : N -> N -> priv * N) (pub : N -> priv -> bytes)
            (kem_new : bytes -> dkey) (kem_ek : dkey -> bytes).
  Notation stepK := (KeyShare.step priv dkey rnd ecdh_gen pub kem_new kem_ek).
  Notation loopK := (KeyShare.loop priv dkey rnd ecdh_gen pub kem_new kem_ek).

  Definition pair_of (k : KeyShare.kshare) : N * bytes := (KeyShare.ks_group k, KeyShare.ks_data k).

  (* the retained keys have the shape sh; a present Ecdhe key has a non-zero curve *)
  Definition shape_inv (s : KeyShare.st priv dkey) (t : shst) : Prop :=
    KeyShare.shape_of (KeyShare.s_keys s) = ss_shape t /\ KeyShare.s_pref s = ss_pref t
    /\ (KeyShare.k_ecdhe (KeyShare.s_keys s) = None <-> KeyShare.sh_ecdhe (ss_shape t) = 0).

  Lemma step_shape gv i k s k' s1 t : stepK true gv i k s = Ok (k', s1) -> shape_inv s t -> shape_inv s1 (shape_step t (pair_of k)).
  Proof.
    intros H (I1 & I2 & I3). apply KeyShareP.step_inv in H. unfold shape_step, pair_of. cbn [fst snd].
    inversion H as [Hg|Hg Hd|xk n d Hgen Hhy Heg Hd|ck n Hgen Hhy Hcl Heg]; try subst k'; try subst s1.
    - rewrite Hg. repeat split; tauto.
    - rewrite Hg. change (blen (KeyShare.ks_data k)) with (KeyShare.lenN (KeyShare.ks_data k)). rewrite Hd. repeat split; tauto.
    - unfold KeyShare.generated in Hgen. apply andb_true_iff in Hgen. destruct Hgen as [G1 G2]. apply negb_true_iff in G1, G2.
      rewrite G1. change (blen (KeyShare.ks_data k)) with (KeyShare.lenN (KeyShare.ks_data k)). rewrite G2, Hhy.
      unfold shape_inv, KeyShare.shape_of in *. cbn [KeyShare.s_keys KeyShare.s_pref KeyShare.k_ecdhe KeyShare.k_mlkem KeyShare.k_mlkem_ecdhe KeyShare.k_extra ss_shape ss_pref
        KeyShare.sh_ecdhe KeyShare.sh_extra KeyShare.sh_mlkem KeyShare.sh_mlkem_ecdhe KeyShare.curve_of KeyShare.ek_curve] in *.
      rewrite <- I1. cbn [KeyShare.sh_ecdhe KeyShare.sh_extra]. destruct (KeyShare.k_ecdhe (KeyShare.s_keys s)) as [e0|] eqn:Ee.
      + assert (Hnz : KeyShare.ek_curve e0 <> 0).
        { intros Hz. destruct I3 as [_ I3]. rewrite <- I1 in I3. cbn [KeyShare.sh_ecdhe KeyShare.curve_of] in I3. specialize (I3 Hz). discriminate. }
        cbn [KeyShare.curve_of]. destruct (KeyShare.ek_curve e0 =? 0) eqn:E0; [lia|]. repeat split; try reflexivity; try assumption.
        * discriminate.
        * cbn [KeyShare.sh_ecdhe]. intros Hz. lia.
      + cbn [KeyShare.curve_of KeyShare.ek_curve]. repeat split; try reflexivity; try assumption; [discriminate|]. cbn [KeyShare.sh_ecdhe]. intros Hz; discriminate.
    - unfold KeyShare.generated in Hgen. apply andb_true_iff in Hgen. destruct Hgen as [G1 G2]. apply negb_true_iff in G1, G2.
      rewrite G1. change (blen (KeyShare.ks_data k)) with (KeyShare.lenN (KeyShare.ks_data k)). rewrite G2, Hhy, <- I2.
      assert (Hgz : KeyShare.ks_group k <> 0) by (intros Hz; rewrite Hz in Hcl; discriminate).
      unfold shape_inv, KeyShare.shape_of in *. destruct (KeyShare.s_pref s); cbn [negb];
      cbn [KeyShare.s_keys KeyShare.s_pref KeyShare.k_ecdhe KeyShare.k_mlkem KeyShare.k_mlkem_ecdhe KeyShare.k_extra ss_shape ss_pref
        KeyShare.sh_ecdhe KeyShare.sh_extra KeyShare.sh_mlkem KeyShare.sh_mlkem_ecdhe KeyShare.curve_of KeyShare.ek_curve] in *;
      rewrite <- I1; cbn [KeyShare.sh_ecdhe KeyShare.sh_extra KeyShare.sh_mlkem KeyShare.sh_mlkem_ecdhe].
      + rewrite map_app. cbn [map KeyShare.ek_curve]. repeat split; try reflexivity; rewrite <- I1 in I3; cbn [KeyShare.sh_ecdhe] in I3; tauto.
      + repeat split; try reflexivity; [discriminate | intros Hz; contradiction].
  Qed.

  Lemma loop_shape gv : forall l i s out s' t, loopK true gv i l s = Ok (out, s') -> shape_inv s t ->
    shape_inv s' (fold_left shape_step (map pair_of l) t).
  Proof.
    induction l as [|k tl IH]; intros i s out s' t H Hi.
    - cbn in H. inversion H; subst. exact Hi.
    - apply KeyShareP.loop_cons in H. destruct H as (k' & s1 & tl' & Hs & Hl & _). cbn [map fold_left].
      eapply IH; [exact Hl | eapply step_shape; eassumption].
  Qed.

  (* for every crypto instance: the retained keys of the repaired ApplyPreset have the static shape *)
  Theorem retained_shape quic gv shares p0 a :
    KeyShare.apply_preset priv dkey rnd ecdh_gen pub kem_new kem_ek true quic gv shares p0 = Ok a ->
    KeyShare.shape_of (KeyShare.a_keys a) = static_shape (map pair_of shares).
  Proof.
    intros H. apply KeyShareP.apply_inv in H. destruct H as (s0 & s & Hl & K0 & P0 & KA & _).
    assert (Hi : shape_inv s0 (mkShSt (KeyShare.mkShape 0 [] false 0) false)).
    { unfold shape_inv. rewrite K0, P0. repeat split; reflexivity. }
    destruct (loop_shape gv _ _ _ _ _ _ Hl Hi) as (A & _). rewrite KA. exact A.
  Qed.
End Shape.

Lemma pair_of_kshares sp : map pair_of (kshares_of sp) = lastS s_shares (sp_exts sp) [].
Proof. unfold kshares_of. rewrite map_map. rewrite <- (map_id (lastS s_shares (sp_exts sp) [])) at 2. apply map_ext. intros [g d]. reflexivity. Qed.

(* ------------------------------------------------------------------ *)
(* 2. invariance under rearrangement *)
Definition vals {A} (get : sext -> option A) (l : list sext) : list A :=
  flat_map (fun s => match get s with Some a => [a] | None => [] end) l.

Lemma vals_length {A} (get : sext -> option A) l : length (vals get l) = writers get l.
Proof.
  unfold vals, writers. induction l as [|s r IH]; [reflexivity|]. cbn [flat_map filter]. destruct (get s); cbn [app length]; rewrite IH; reflexivity.
Qed.

Lemma lastS_char {A} (get : sext -> option A) l : forall init, (writers get l <= 1)%nat ->
  lastS get l init = match vals get l with [] => init | a :: _ => a end.
Proof.
  unfold lastS. induction l as [|s r IH]; intros init H; [reflexivity|].
  unfold writers in *. cbn [filter fold_left] in *. unfold vals. cbn [flat_map]. fold (vals get r).
  destruct (get s) as [a|] eqn:E; cbn [length app] in *.
  - rewrite IH by lia. pose proof (vals_length get r) as Hl. unfold writers in Hl. destruct (vals get r); [reflexivity|cbn [length] in Hl; lia].
  - apply IH. exact H.
Qed.

Lemma perm_short {A} (a b : list A) : Permutation a b -> (length a <= 1)%nat -> a = b.
Proof.
  intros P H. destruct a as [|x [|y a]]; cbn [length] in H; try lia.
  - symmetry. apply Permutation_nil. exact P.
  - symmetry. apply Permutation_length_1_inv. exact P.
Qed.

Lemma vals_perm {A} (get : sext -> option A) l l' : Permutation l l' -> Permutation (vals get l) (vals get l').
Proof.
  induction 1 as [|x l l' _ IH|x y l|l1 l2 l3 _ IH1 _ IH2]; unfold vals in *; cbn [flat_map].
  - constructor.
  - apply Permutation_app_head. exact IH.
  - rewrite !app_assoc. apply Permutation_app_tail. apply Permutation_app_comm.
  - eapply Permutation_trans; eassumption.
Qed.

Lemma writers_perm {A} (get : sext -> option A) l l' : Permutation l l' -> writers get l = writers get l'.
Proof. intros P. rewrite <- !vals_length. apply Permutation_length. apply vals_perm. exact P. Qed.

Lemma lastS_perm {A} (get : sext -> option A) l l' init : Permutation l l' -> (writers get l <= 1)%nat ->
  lastS get l init = lastS get l' init.
Proof.
  intros P H. rewrite (lastS_char get l init H). rewrite (lastS_char get l' init) by (rewrite <- (writers_perm get l l' P); exact H).
  rewrite (perm_short _ _ (vals_perm get l l' P)) by (rewrite vals_length; exact H). reflexivity.
Qed.

Lemma forallb_ext {A} (f g : A -> bool) l : (forall x, f x = g x) -> forallb f l = forallb g l.
Proof. intros H. induction l as [|x l IH]; [reflexivity|]. cbn [forallb]. rewrite H, IH. reflexivity. Qed.

Lemma existsb_perm {A} (f : A -> bool) l l' : Permutation l l' -> existsb f l = existsb f l'.
Proof.
  induction 1 as [|x l l' _ IH|x y l|l1 l2 l3 _ IH1 _ IH2]; cbn [existsb]; try reflexivity.
  - rewrite IH. reflexivity.
  - destruct (f x), (f y); reflexivity.
  - congruence.
Qed.

(* SetTLSVers' scan sees the (at most one) supported_versions extension wherever it is *)
Lemma scan_char l : forall cnt a b, (writers s_versions l <= 1)%nat ->
  scan_versions l (cnt, a, b) =
  match vals s_versions l with
  | [] => Ok (cnt, a, b)
  | vs :: _ => let '(mn, mx) := find_versions vs in if (mn =? 0) && (mx =? 0) then Err E_VERS_EXT else Ok (S cnt, mn, mx)
  end.
Proof.
  induction l as [|s r IH]; intros cnt a b H; [reflexivity|].
  unfold writers in H. cbn [filter] in H. unfold vals. cbn [flat_map scan_versions]. fold (vals s_versions r).
  destruct s as [e|]; [|cbn [s_versions app] in *; apply IH; exact H].
  destruct e; cbn [s_versions app length] in *; try (apply IH; exact H).
  destruct (find_versions versions) as [m1 m2]. destruct ((m1 =? 0) && (m2 =? 0)); [reflexivity|].
  rewrite IH by (unfold writers; lia). pose proof (vals_length s_versions r) as Hl. unfold writers in Hl.
  destruct (vals s_versions r); [reflexivity|cbn [length] in Hl; lia].
Qed.

Lemma set_tls_vers_perm sp exts' : Permutation (sp_exts sp) exts' -> (writers s_versions (sp_exts sp) <= 1)%nat ->
  set_tls_vers (with_exts sp exts') = set_tls_vers sp.
Proof.
  intros P H. unfold set_tls_vers. cbn [with_exts sp_min sp_max sp_exts].
  rewrite (scan_char (sp_exts sp) O 0 0 H). rewrite (scan_char exts' O 0 0) by (rewrite <- (writers_perm s_versions _ _ P); exact H).
  rewrite (perm_short _ _ (vals_perm s_versions _ _ P)) by (rewrite vals_length; exact H). reflexivity.
Qed.

Theorem neg_static_shuffle sp swaps exts' :
  neg_static sp = true -> Shuffle.shuffle ParrotSpec.fixedb swaps (sp_exts sp) = Ok exts' ->
  neg_static (with_exts sp exts') = true /\ hybrid_static (with_exts sp exts') = hybrid_static sp
  /\ set_tls_vers (with_exts sp exts') = set_tls_vers sp
  /\ lastS s_shares exts' [] = lastS s_shares (sp_exts sp) [].
Proof.
  intros Hn Hs. destruct (PresetP.shuffle_ok _ _ _ _ Hs) as [P _].
  unfold neg_static in Hn. destruct (set_tls_vers sp) as [[mn mx]|?|?] eqn:Ev; try discriminate.
  rewrite !andb_true_iff in Hn. destruct Hn as [[[[[H0 H1] H2] H3] H4] H5].
  apply Nat.leb_le in H1, H2, H3, H4.
  assert (E1 : lastS s_curves exts' [] = lastS s_curves (sp_exts sp) []) by (symmetry; apply lastS_perm; assumption).
  assert (E2 : lastS s_shares exts' [] = lastS s_shares (sp_exts sp) []) by (symmetry; apply lastS_perm; assumption).
  assert (E4 : lastS s_ccalgs exts' [] = lastS s_ccalgs (sp_exts sp) []) by (symmetry; apply lastS_perm; assumption).
  assert (E3 : opt_versions (with_exts sp exts') = opt_versions sp).
  { unfold opt_versions. cbn [with_exts sp_exts]. symmetry. apply lastS_perm; [exact P|].
    assert (W : writers (fun s => option_map Some (s_versions s)) (sp_exts sp) = writers s_versions (sp_exts sp)).
    { unfold writers. f_equal. apply filter_ext. intros s. destruct (s_versions s); reflexivity. }
    rewrite W. exact H3. }
  assert (E5 : has_sccert (with_exts sp exts') = has_sccert sp) by (unfold has_sccert; cbn [with_exts sp_exts]; symmetry; apply existsb_perm; exact P).
  assert (Ev' : set_tls_vers (with_exts sp exts') = set_tls_vers sp) by (apply set_tls_vers_perm; assumption).
  assert (Ec : forall gg, abs_curves (with_exts sp exts') gg = abs_curves sp gg) by (intros; unfold abs_curves; cbn [with_exts sp_exts]; rewrite E1; reflexivity).
  assert (Es : forall gg, abs_shares (with_exts sp exts') gg = abs_shares sp gg) by (intros; unfold abs_shares; cbn [with_exts sp_exts]; rewrite E2; reflexivity).
  split; [|split; [|split; [congruence|exact E2]]].
  - unfold neg_static. rewrite Ev', Ev. cbn [with_exts sp_exts].
    rewrite <- (writers_perm s_curves _ _ P), <- (writers_perm s_shares _ _ P), <- (writers_perm s_versions _ _ P), <- (writers_perm s_ccalgs _ _ P).
    rewrite !andb_true_iff. repeat split; try (apply Nat.leb_le; assumption); try assumption.
    rewrite E2. erewrite forallb_ext; [exact H5|]. intros gg. apply forallb_ext. intros gv.
    unfold abs_view, abs_wire, abs_sv. rewrite Ec, Es, E3, E5. cbn [with_exts sp_exts]. rewrite E4. reflexivity.
  - unfold hybrid_static. apply forallb_ext. intros gg. rewrite Ec, Es. reflexivity.
Qed.

(* ------------------------------------------------------------------ *)
(* 3. the regenerated table *)
(* every shipped parrot: spec-dependent part of Complete.spec_ok, for all 16 x 16 GREASE (group, version) values *)
Theorem parrots_neg_static : forallb (fun p => neg_static (p_spec p)) Parrots.all = true.
Proof. vm_compute. reflexivity. Qed.

(* exception class hrr-hybrid (a hybrid group listed in supported_groups without its key share): no shipped parrot *)
Definition hrr_hybrid_exceptions : list parrot := filter (fun p => negb (hybrid_static (p_spec p))) Parrots.all.
Theorem parrots_hrr_hybrid_exceptions : map p_name hrr_hybrid_exceptions = [].
Proof. vm_compute. reflexivity. Qed.

(* exception class psk-hrr (a hello carrying pre_shared_key identities cannot answer a HelloRetryRequest): only reachable when a
   session is offered; the parrots that CAN offer one are those with a pre_shared_key extension *)
Definition psk_hrr_class : list parrot := filter has_psk Parrots.all.
Theorem parrots_psk_hrr_class :
  map p_name psk_hrr_class = map p_name [Parrots.p_Chrome_100_PSK; Parrots.p_Chrome_112_PSK_Shuf; Parrots.p_Chrome_114_Padding_PSK_Shuf; Parrots.p_Chrome_115_PQ_PSK].
Proof. vm_compute. reflexivity. Qed.

(* the premise of C18_keys_retained: one share per classical group, at most one hybrid share - no exception *)
Definition keyshares_ok (p : parrot) : bool := KeyShareP.wf_shares (kshares_of (p_spec p)).
Theorem parrots_keyshares_ok : forallb keyshares_ok Parrots.all = true.
Proof. vm_compute. reflexivity. Qed.
Theorem parrots_two_hybrid_exceptions : map p_name (filter (fun p => negb (keyshares_ok p)) Parrots.all) = [].
Proof. vm_compute. reflexivity. Qed.

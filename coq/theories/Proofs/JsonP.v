(* Proofs about Model/Json.v: with the nil-receiver guards the JSON importer
   never panics, for any dictionary tables; without them every document that
   leaves one of the three members out (or sets it to null) is a nil dereference. *)
From Coq Require Import String.
From UV Require Import Base.Common Model.Wire Model.Varint Model.Ext Model.FromRaw Model.Import Model.Json
  Proofs.FromRawP.
Open Scope N_scope.

Lemma jfold_np {A} (dec : jval -> A -> res A) field m : (forall v a, np (dec v a)) -> forall acc, np (jfold dec field m acc).
Proof.
  intros Hd. induction m as [|[k v] r IH]; intros acc; cbn [jfold]; [reflexivity|].
  destruct (key_match field k); [|apply IH].
  apply np_bind; [apply Hd | intros; apply IH].
Qed.

Lemma dec_list_np {A} (dec : jval -> res A) l : (forall v, np (dec v)) -> np (dec_list dec l).
Proof.
  intros Hd. induction l as [|v r IH]; cbn [dec_list]; [reflexivity|].
  apply np_bind; [apply Hd|]. intros a _. apply np_bind; [exact IH|]. intros; reflexivity.
Qed.

Lemma res_map_np {A B} (f : A -> res B) l : (forall x, np (f x)) -> np (res_map f l).
Proof.
  intros Hf. induction l as [|x r IH]; cbn [res_map]; [reflexivity|].
  apply np_bind; [apply Hf|]. intros a _. apply np_bind; [exact IH|]. intros; reflexivity.
Qed.

Lemma jobj_np v : np (jobj v). Proof. destruct v; reflexivity. Qed.
Lemma dec_string_np v old : np (dec_string v old). Proof. destruct v; reflexivity. Qed.
Lemma dec_bool_np v old : np (dec_bool v old). Proof. destruct v; reflexivity. Qed.
Lemma dec_uint_np bits v old : np (dec_uint bits v old).
Proof. destruct v as [| |[n|]| | |]; cbn [dec_uint]; try reflexivity. destruct (n <? 2 ^ bits); reflexivity. Qed.
Lemma dec_strings_np v old : np (dec_strings v old).
Proof. destruct v; cbn [dec_strings]; try reflexivity. apply dec_list_np. intros; apply dec_string_np. Qed.
Lemma dec_bytes_np v old : np (dec_bytes v old).
Proof.
  destruct v as [| | |s [b|]|l|]; cbn [dec_bytes]; try reflexivity.
  apply dec_list_np. intros; apply dec_uint_np.
Qed.
Lemma field_strings_np f m : np (field_strings f m).
Proof. unfold field_strings. apply jfold_np. apply dec_strings_np. Qed.

Section Dict.
Variable d_suite d_comp d_ext d_group d_point d_sig d_certcomp d_pskmode : string -> option N.

Lemma names_grease_np d l : np (names_grease d l).
Proof.
  induction l as [|n r IH]; cbn [names_grease]; [reflexivity|].
  apply np_bind; [destruct (String.eqb n "GREASE"); [reflexivity | apply np_of_opt]|].
  intros a _. apply np_bind; [exact IH|]. intros; reflexivity.
Qed.
Lemma names_plain_np d l : np (names_plain d l).
Proof.
  induction l as [|n r IH]; cbn [names_plain]; [reflexivity|].
  apply np_bind; [apply np_of_opt|]. intros a _. apply np_bind; [exact IH|]. intros; reflexivity.
Qed.
Lemma version_of_name_np n : np (version_of_name n).
Proof. unfold version_of_name. np_auto. Qed.
Lemma tb_param_of_name_np n : np (tb_param_of_name n).
Proof. unfold tb_param_of_name. np_auto. Qed.

Ltac js_step :=
  match goal with
  | |- np (jobj _) => apply jobj_np
  | |- np (jfold _ _ _ _) => apply jfold_np; intros
  | |- np (dec_list _ _) => apply dec_list_np; intros
  | |- np (res_map _ _) => apply res_map_np; intros
  | |- np (dec_string _ _) => apply dec_string_np
  | |- np (dec_bool _ _) => apply dec_bool_np
  | |- np (dec_uint _ _ _) => apply dec_uint_np
  | |- np (dec_strings _ _) => apply dec_strings_np
  | |- np (dec_bytes _ _) => apply dec_bytes_np
  | |- np (field_strings _ _) => apply field_strings_np
  | |- np (names_grease _ _) => apply names_grease_np
  | |- np (names_plain _ _) => apply names_plain_np
  | |- np (version_of_name _) => apply version_of_name_np
  | |- np (tb_param_of_name _) => apply tb_param_of_name_np
  | _ => np_step
  end.
Ltac js := repeat js_step.

Lemma dec_share_np v : np (dec_share v).
Proof. unfold dec_share. js. Qed.
Lemma dec_shares_np v old : np (dec_shares v old).
Proof. destruct v; cbn [dec_shares]; try reflexivity. apply dec_list_np. apply dec_share_np. Qed.
Lemma shares_of_np l : np (shares_of d_group l).
Proof.
  induction l as [|[g k] r IH]; cbn [shares_of]; [reflexivity|].
  apply np_bind; [destruct (String.eqb g "GREASE"); [reflexivity | apply np_of_opt]|].
  intros a _. apply np_bind; [exact IH|]. intros; reflexivity.
Qed.
Lemma dec_identity_np v : np (dec_identity v).
Proof. unfold dec_identity. js. Qed.
Lemma dec_identities_np v old : np (dec_identities v old).
Proof. destruct v; cbn [dec_identities]; try reflexivity. apply dec_list_np. apply dec_identity_np. Qed.
Lemma dec_binders_np v old : np (dec_binders v old).
Proof. destruct v; cbn [dec_binders]; try reflexivity. apply dec_list_np. intros; apply dec_bytes_np. Qed.
Lemma dec_tb_version_np v old : np (dec_tb_version v old).
Proof. unfold dec_tb_version. js. Qed.

Lemma pick_kind_np au rp name : np (pick_kind d_ext au rp name).
Proof. unfold pick_kind. np_auto. Qed.

Lemma json_ext_np k v : np (json_ext d_ext d_group d_point d_sig d_certcomp d_pskmode k v).
Proof.
  unfold json_ext.
  repeat match goal with
  | |- np (dec_shares _ _) => apply dec_shares_np
  | |- np (shares_of _ _) => apply shares_of_np
  | |- np (dec_identities _ _) => apply dec_identities_np
  | |- np (dec_binders _ _) => apply dec_binders_np
  | |- np (dec_tb_version _ _) => apply dec_tb_version_np
  | _ => js_step
  end.
Qed.

Lemma accepter_name_np v : np (accepter_name v).
Proof. unfold accepter_name. js. Qed.

Lemma json_extensions_np au rp v :
  np (json_extensions d_ext d_group d_point d_sig d_certcomp d_pskmode au rp v).
Proof.
  unfold json_extensions. destruct v; try reflexivity.
  apply np_bind; [apply res_map_np; apply accepter_name_np|]. intros names _.
  apply np_bind; [apply res_map_np; apply pick_kind_np|]. intros kinds _.
  apply res_map_np. intros; apply json_ext_np.
Qed.

Lemma json_suites_np v : np (json_suites d_suite v).
Proof. unfold json_suites. js. Qed.
Lemma json_comp_np v : np (json_comp d_comp v).
Proof. unfold json_comp. js. Qed.

Lemma dec_ptr_append_np f v old : (forall x, np (f x)) -> np (dec_ptr_append f v old).
Proof. intros Hf. destruct v; cbn [dec_ptr_append]; try reflexivity; (apply np_bind; [apply Hf | intros; reflexivity]). Qed.
Lemma dec_ptr_exts_np v old : np (dec_ptr_exts d_ext d_group d_point d_sig d_certcomp d_pskmode v old).
Proof.
  destruct v; cbn [dec_ptr_exts]; try reflexivity;
    (apply np_bind; [apply json_extensions_np | intros; reflexivity]).
Qed.

Lemma json_chsju_np v :
  np (json_chsju d_suite d_comp d_ext d_group d_point d_sig d_certcomp d_pskmode v).
Proof.
  unfold json_chsju. destruct v; try reflexivity.
  repeat match goal with
  | |- np (dec_ptr_append _ _ _) => apply dec_ptr_append_np; intros
  | |- np (dec_ptr_exts _ _ _ _ _ _ _ _) => apply dec_ptr_exts_np
  | |- np (json_suites _ _) => apply json_suites_np
  | |- np (json_comp _ _) => apply json_comp_np
  | _ => js_step
  end.
Qed.

Lemma deref_fixed_np {A} (o : option (list A)) : np (deref true o).
Proof. destruct o; reflexivity. Qed.

Lemma chsju_spec_np u : np (chsju_spec true u).
Proof.
  unfold chsju_spec.
  repeat match goal with
  | |- np (deref true _) => apply deref_fixed_np
  | _ => np_step
  end.
Qed.

Lemma json_spec_np v :
  np (json_spec d_suite d_comp d_ext d_group d_point d_sig d_certcomp d_pskmode true v).
Proof. unfold json_spec. apply np_bind; [apply json_chsju_np | intros; apply chsju_spec_np]. Qed.

Lemma json_fingerprint_np ap v :
  np (json_fingerprint d_suite d_comp d_ext d_group d_point d_sig d_certcomp d_pskmode true ap v).
Proof.
  unfold json_fingerprint. apply np_bind; [apply json_spec_np|]. intros s _.
  destruct ap; [|reflexivity]. apply np_bind; [apply always_add_padding_np | intros; reflexivity].
Qed.

(* ---- the code as shipped: F-07b. The panic does not depend on the tables. ---- *)
Definition json_spec_unfixed := json_spec d_suite d_comp d_ext d_group d_point d_sig d_certcomp d_pskmode false.

Lemma unfixed_null_panics : json_spec_unfixed JNull = Panic P_NIL.
Proof. reflexivity. Qed.
Lemma unfixed_empty_object_panics : json_spec_unfixed (JObj []) = Panic P_NIL.
Proof. reflexivity. Qed.
(* {"cipher_suites": [], "compression_methods": []}: no "extensions" *)
Lemma unfixed_missing_extensions_panics :
  json_spec_unfixed (JObj [("cipher_suites", JArr []); ("compression_methods", JArr [])]) = Panic P_NIL.
Proof. reflexivity. Qed.
(* {"cipher_suites": [], "compression_methods": null, "extensions": []} *)
Lemma unfixed_null_member_panics :
  json_spec_unfixed (JObj [("cipher_suites", JArr []); ("compression_methods", JNull); ("extensions", JArr [])])
  = Panic P_NIL.
Proof. reflexivity. Qed.

(* the strongest true statement about the unfixed accessor calls *)
Lemma unfixed_chsju_spec_np u :
  ju_suites u <> None -> ju_comp u <> None -> ju_exts u <> None -> np (chsju_spec false u).
Proof.
  destruct u as [[s|] [c|] [e|] vmin vmax]; cbn; intros H1 H2 H3; try reflexivity; congruence.
Qed.
End Dict.

(* Proofs about Model/Forge.v: the two connections forged from the same secrets hold matching
   write/read states in both directions (forge_dir), hence exchange data (forge_interop, via
   Proofs/RecordStream.v), and a suite outside the table yields nil. *)
From UV Require Import Base.Common Model.Record Model.Forge Gen.Suites Proofs.RecordP Proofs.RecordRT Proofs.RecordStream.
From Coq Require Import ZifyBool ZifyNat ZifyN.
Open Scope N_scope.

(* what every row of the generated tables satisfies (checked by computation in Props/C27.v) *)
Definition row_okb (r : suite_row) : bool :=
  ((s_kind r =? 1) && (0 <? s_macSize r)%nat && (s_macSize r <=? 48)%nat) ||
  (((s_kind r =? 2) || (s_kind r =? 3)) && ((s_bs r =? 8)%nat || (s_bs r =? 16)%nat)) ||
  ((s_kind r =? 4) && (s_ivLen r =? 4)%nat) ||
  ((s_kind r =? 5) && (s_ivLen r =? 12)%nat).

Definition v12_ok (v : N) : Prop := v = V10 \/ v = V11 \/ v = V12.

Lemma suite_by_id_none tbl id : (forall r, In r tbl -> s_id r <> id) -> suite_by_id tbl id = None.
Proof.
  intros H. unfold suite_by_id. induction tbl as [|r t IH]; [reflexivity|].
  cbn [find]. destruct (s_id r =? id) eqn:E.
  - exfalso. apply (H r); [left; reflexivity|lia].
  - apply IH. intros r' Hr'. apply H. right. exact Hr'.
Qed.

Lemma suite_by_id_some tbl id : In id (map s_id tbl) -> exists r, suite_by_id tbl id = Some r /\ In r tbl /\ s_id r = id.
Proof.
  unfold suite_by_id. induction tbl as [|r t IH]; cbn [map In find]; [tauto|].
  intros [H|H].
  - exists r. rewrite H, N.eqb_refl. auto.
  - destruct (s_id r =? id) eqn:E.
    + exists r. split; [reflexivity|]. split; [left; reflexivity|lia].
    + destruct (IH H) as (r' & A & B & C). exists r'. auto.
Qed.

Section Forge.
Variable P : prims.
Hypothesis HP : prims_ok P.

Theorem forge_unsupported tbl version suite ms cr sr is_client :
  (forall r, In r tbl -> s_id r <> suite) -> forge P tbl version suite ms cr sr is_client = Ok None.
Proof. intros H. unfold forge. rewrite (suite_by_id_none tbl suite H). reflexivity. Qed.

Lemma iv_lengths version cs ms cr sr :
  let k := keys_from_master_secret P version cs ms cr sr in
  length (k_civ k) = s_ivLen cs /\ length (k_siv k) = s_ivLen cs.
Proof.
  cbn zeta. unfold keys_from_master_secret. cbn [k_civ k_siv].
  rewrite !firstn_length, !skipn_length, (prf_len P HP). lia.
Qed.

(* forge_dir: what the client writes with is what the server reads with, and vice versa:
   equal keys, IVs, MAC keys, sequence numbers; CBC writer is an encrypter and reader a decrypter *)
Theorem forge_dir tbl version suite ms cr sr cs :
  v12_ok version -> suite_by_id tbl suite = Some cs -> row_okb cs = true ->
  exists c s,
    forge P tbl version suite ms cr sr true = Ok (Some c) /\
    forge P tbl version suite ms cr sr false = Ok (Some s) /\
    synced (cn_out c) (cn_in s) /\ synced (cn_out s) (cn_in c) /\
    wconn_ok c /\ wconn_ok s /\ cn_vers c = version /\ cn_vers s = version /\
    h_seq (cn_out c) = 1 /\ h_seq (cn_out s) = 1 /\ h_seq (cn_in c) = 1 /\ h_seq (cn_in s) = 1.
Proof.
  intros Hv Hs Hrow. unfold forge. rewrite Hs.
  pose proof (iv_lengths version cs ms cr sr) as [Lc Ls]. cbn zeta in Lc, Ls.
  set (k := keys_from_master_secret P version cs ms cr sr) in *.
  assert (Hvp : version_has_prf version = true) by (destruct Hv as [ -> | [ -> | -> ] ]; reflexivity).
  rewrite Hvp. cbn [negb].
  assert (Hv13 : version <> V13) by (destruct Hv as [ -> | [ -> | -> ] ]; discriminate).
  assert (Hvok : vers_ok version) by (unfold vers_ok; destruct Hv as [ -> | [ -> | -> ] ]; auto).
  unfold build_ciphers, is_aead_row, row_okb in *.
  assert (Hfin : forall ci mi co mo,
    finish_forge version suite (prepare_cipher_spec half0 version (Some ci) mi) (prepare_cipher_spec half0 version (Some co) mo)
    = Ok (Some (forged_conn version suite (mkHalf version (Some ci) mi 1 None None [])
                                          (mkHalf version (Some co) mo 1 None None [])))).
  { intros. unfold finish_forge, change_cipher_spec, prepare_cipher_spec. cbn [h_next_cipher h_vers h_next_mac h_secret].
    replace (version =? V13) with false by lia. reflexivity. }
  destruct (s_kind cs =? 4) eqn:E4; [|destruct (s_kind cs =? 5) eqn:E5].
  - (* AES-GCM *)
    assert (Hiv : (s_ivLen cs =? 4)%nat = true).
    { destruct (s_kind cs =? 1) eqn:E1; [lia|]. destruct (s_kind cs =? 2) eqn:E2; [lia|]. destruct (s_kind cs =? 3) eqn:E3; [lia|].
      destruct (s_kind cs =? 5) eqn:E5; [lia|]. cbn in Hrow. lia. }
    cbn [orb]. unfold mk_aead. rewrite E4, Lc, Ls, Hiv. cbn [bind]. rewrite !Hfin.
    eexists. eexists. split; [reflexivity|]. split; [reflexivity|].
    unfold synced, half_wf, cipher_match, wconn_ok, forged_conn; cbn.
    repeat split; auto; try discriminate.
  - (* ChaCha20-Poly1305 *)
    assert (Hiv : (s_ivLen cs =? 12)%nat = true).
    { destruct (s_kind cs =? 1) eqn:E1; [lia|]. destruct (s_kind cs =? 2) eqn:E2; [lia|]. destruct (s_kind cs =? 3) eqn:E3; [lia|].
      cbn in Hrow. lia. }
    cbn [orb]. unfold mk_aead. rewrite E4, Lc, Ls, Hiv. cbn [bind]. rewrite !Hfin.
    eexists. eexists. split; [reflexivity|]. split; [reflexivity|].
    unfold synced, half_wf, cipher_match, wconn_ok, forged_conn; cbn.
    repeat split; auto; try discriminate.
  - (* RC4 / CBC with HMAC *)
    cbn [orb bind negb]. rewrite !Hfin.
    eexists. eexists. split; [reflexivity|]. split; [reflexivity|].
    unfold mk_cipher.
    destruct (s_kind cs =? 1) eqn:E1; [|destruct (s_kind cs =? 2) eqn:E2].
    + unfold synced, half_wf, cipher_match, wconn_ok, forged_conn; cbn.
      repeat split; eauto; try discriminate.
    + assert (Hbs : (s_bs cs = 8 \/ s_bs cs = 16)%nat) by (cbn in Hrow; lia).
      unfold synced, half_wf, cipher_match, wconn_ok, forged_conn; cbn.
      repeat split; eauto; try discriminate.
    + assert (Hbs : (s_bs cs = 8 \/ s_bs cs = 16)%nat).
      { destruct (s_kind cs =? 3) eqn:E3; cbn in Hrow; lia. }
      unfold synced, half_wf, cipher_match, wconn_ok, forged_conn; cbn.
      repeat split; eauto; try discriminate.
Qed.

(* forge_interop: whatever one side writes, the peer's read state decrypts record by record to the
   same bytes, in order; afterwards the two are matched again (so this iterates over any number of writes) *)
Theorem forge_interop tbl version suite ms cr sr cs :
  v12_ok version -> suite_by_id tbl suite = Some cs -> row_okb cs = true ->
  exists c s,
    forge P tbl version suite ms cr sr true = Ok (Some c) /\
    forge P tbl version suite ms cr sr false = Ok (Some s) /\
    (forall (w r : conn) (rnd : N -> bytes) (b : bytes),
        (w = c /\ r = s) \/ (w = s /\ r = c) ->
        rnd_ok rnd -> len b < 9223372036854775808 ->
        exists recs w' rx_end,
          conn_write P w b rnd = Ok (concat (map snd recs), len b, w') /\
          rchain P version rtAppData (cn_in r) recs rx_end /\
          concat (map fst recs) = b /\
          synced (cn_out w') rx_end /\ wconn_ok w').
Proof.
  intros Hv Hs Hrow.
  destruct (forge_dir tbl version suite ms cr sr cs Hv Hs Hrow)
    as (c & s & Hc & Hss & Hcs & Hsc & Hwc & Hws & Hvc & Hvs & Hq1 & Hq2 & _).
  exists c, s. split; [exact Hc|]. split; [exact Hss|].
  intros w r rnd b [[-> ->]|[-> ->]] Hrnd Hlen.
  - destruct (conn_write_ok P HP c b rnd (cn_in s) Hwc Hcs Hrnd ltac:(rewrite Hq1; lia))
      as (recs & w' & rx_end & A & B & C & D & E & _).
    exists recs, w', rx_end. rewrite <- Hvc. auto.
  - destruct (conn_write_ok P HP s b rnd (cn_in c) Hws Hsc Hrnd ltac:(rewrite Hq2; lia))
      as (recs & w' & rx_end & A & B & C & D & E & _).
    exists recs, w', rx_end. rewrite <- Hvs. auto.
Qed.

End Forge.

(* Proofs for C03: the Chrome shuffle (Model/Shuffle.v) and ApplyPreset
   (Model/Preset.v) against the property oracle of Model/ParrotSpec.v. *)
From Coq Require Import Permutation FinFun.
From Coq Require Import ZifyBool ZifyNat ZifyN.
From UV Require Import Base.Common Model.Wire.
From UV Require Model.Grease Model.Padding Model.Marshal.
From UV Require Import Model.Ext Model.ExtSpec Model.Shuffle Model.Preset Model.ParrotSpec.
From UV Require Import Proofs.WireP Proofs.ExtP Proofs.GreaseP.

(* ================================================================== *)
(* Shuffle *)
Section ShuffleP.
  Context {A : Type} (fixed : A -> bool).

  Lemma upd_length i (x : A) l : (i < length l)%nat -> length (upd i x l) = length l.
  Proof.
    intros H. unfold upd. rewrite app_length. cbn [length]. rewrite firstn_length, skipn_length. lia.
  Qed.

  Lemma upd_same i (x : A) l : (i < length l)%nat -> nth_error (upd i x l) i = Some x.
  Proof.
    intros H. unfold upd. rewrite nth_error_app2 by (rewrite firstn_length; lia).
    rewrite firstn_length. replace (i - Nat.min i (length l))%nat with 0%nat by lia. reflexivity.
  Qed.

  Lemma upd_other i k (x : A) l : (i < length l)%nat -> k <> i -> nth_error (upd i x l) k = nth_error l k.
  Proof.
    intros H Hk. unfold upd. destruct (Nat.ltb_spec k i) as [Hlt|Hge].
    - rewrite nth_error_app1 by (rewrite firstn_length; lia). apply nth_error_firstn_lt; exact Hlt.
    - rewrite nth_error_app2 by (rewrite firstn_length; lia). rewrite firstn_length.
      replace (Nat.min i (length l)) with i by lia.
      destruct (k - i)%nat as [|m] eqn:E; [lia|]. cbn [nth_error].
      rewrite nth_error_skipn. f_equal. lia.
  Qed.
End ShuffleP.

(* Proofs for C03: the Chrome shuffle (Model/Shuffle.v) and ApplyPreset
   (Model/Preset.v) against the property oracle of Model/ParrotSpec.v. *)
From Coq Require Import Permutation FinFun.
From Coq Require Import ZifyBool ZifyNat ZifyN.
From UV Require Import Base.Common Model.Wire.
From UV Require Model.Grease Model.Padding Model.Marshal.
From UV Require Import Model.Ext Model.ExtSpec Model.Shuffle Model.Preset Model.ParrotSpec.
From UV Require Import Proofs.WireP Proofs.ExtP Proofs.GreaseP.

(* ================================================================== *)
(* Shuffle *)
Section ShuffleP.
  Context {A : Type} (fixed : A -> bool).

  Lemma nth_error_firstn_lt (l : list A) : forall i k, (k < i)%nat -> nth_error (firstn i l) k = nth_error l k.
  Proof.
    induction l as [|x l IH]; intros [|i] [|k] H; cbn; try reflexivity; try lia. apply IH. lia.
  Qed.
  Lemma nth_error_skipn (l : list A) : forall n k, nth_error (skipn n l) k = nth_error l (n + k).
  Proof.
    induction l as [|x l IH]; intros [|n] k; cbn; try reflexivity.
    - destruct k; reflexivity.
    - apply IH.
  Qed.

  Lemma upd_length i (x : A) l : (i < length l)%nat -> length (upd i x l) = length l.
  Proof.
    intros H. unfold upd. rewrite app_length. cbn [length]. rewrite firstn_length, skipn_length. lia.
  Qed.

  Lemma upd_same i (x : A) l : (i < length l)%nat -> nth_error (upd i x l) i = Some x.
  Proof.
    intros H. unfold upd. rewrite nth_error_app2 by (rewrite firstn_length; lia).
    rewrite firstn_length. replace (i - Nat.min i (length l))%nat with 0%nat by lia. reflexivity.
  Qed.

  Lemma upd_other i k (x : A) l : (i < length l)%nat -> k <> i -> nth_error (upd i x l) k = nth_error l k.
  Proof.
    intros H Hk. unfold upd. destruct (Nat.ltb_spec k i) as [Hlt|Hge].
    - rewrite nth_error_app1 by (rewrite firstn_length; lia). apply nth_error_firstn_lt; exact Hlt.
    - rewrite nth_error_app2 by (rewrite firstn_length; lia). rewrite firstn_length.
      replace (Nat.min i (length l)) with i by lia.
      destruct (k - i)%nat as [|m] eqn:E; [lia|]. cbn [nth_error].
      rewrite nth_error_skipn. f_equal. lia.
  Qed.

  (* one swap is a permutation *)
  Lemma swap_perm l i j (a b : A) : nth_error l i = Some a -> nth_error l j = Some b ->
    Permutation l (upd i b (upd j a l)).
  Proof.
    intros Hi Hj.
    assert (Li : (i < length l)%nat) by (apply nth_error_Some; congruence).
    assert (Lj : (j < length l)%nat) by (apply nth_error_Some; congruence).
    apply Permutation_nth_error. split.
    - rewrite upd_length; rewrite upd_length; lia.
    - exists (fun n => if Nat.eqb n i then j else if Nat.eqb n j then i else n). split.
      + intros x y. destruct (Nat.eqb_spec x i), (Nat.eqb_spec y i), (Nat.eqb_spec x j), (Nat.eqb_spec y j); lia.
      + intros n. destruct (Nat.eqb_spec n i) as [->|Hni].
        * rewrite upd_same by (rewrite upd_length; lia). symmetry; exact Hj.
        * rewrite upd_other by (rewrite ?upd_length; lia).
          destruct (Nat.eqb_spec n j) as [->|Hnj].
          -- rewrite upd_same by lia. symmetry; exact Hi.
          -- apply upd_other; lia.
  Qed.

  (* fixed entries of l stay where they are, and no fixed entry appears elsewhere *)
  Definition fixed_kept (l l' : list A) : Prop :=
    and (forall k x, nth_error l k = Some x -> fixed x = true -> nth_error l' k = Some x)
        (forall k y, nth_error l' k = Some y -> fixed y = true -> nth_error l k = Some y).

  Lemma fixed_kept_refl l : fixed_kept l l.
  Proof. split; auto. Qed.
  Lemma fixed_kept_trans l1 l2 l3 : fixed_kept l1 l2 -> fixed_kept l2 l3 -> fixed_kept l1 l3.
  Proof. intros [A1 B1] [A2 B2]. split; intros k x H F; [apply A2; auto | apply B1; auto]. Qed.

  Lemma shuf_step_ok l ij l' : shuf_step fixed l ij = Ok l' -> Permutation l l' /\ fixed_kept l l'.
  Proof.
    destruct ij as [i j]. unfold shuf_step.
    destruct (nth_error l i) as [a|] eqn:Hi; [|discriminate].
    destruct (fixed a) eqn:Fa; [intros H; inversion H; subst; split; [reflexivity|apply fixed_kept_refl]|].
    destruct (nth_error l j) as [b|] eqn:Hj; [|discriminate].
    destruct (fixed b) eqn:Fb; [intros H; inversion H; subst; split; [reflexivity|apply fixed_kept_refl]|].
    intros H; inversion H; subst l'; clear H.
    assert (Li : (i < length l)%nat) by (apply nth_error_Some; congruence).
    assert (Lj : (j < length l)%nat) by (apply nth_error_Some; congruence).
    split; [apply swap_perm; assumption|]. split.
    - intros k x Hk Fx.
      assert (k <> i) by (intros ->; congruence). assert (k <> j) by (intros ->; congruence).
      rewrite upd_other by (rewrite ?upd_length; lia). rewrite upd_other by lia. exact Hk.
    - intros k y Hk Fy.
      destruct (Nat.eq_dec k i) as [->|Hki].
      { rewrite upd_same in Hk by (rewrite upd_length; lia). congruence. }
      rewrite upd_other in Hk by (rewrite ?upd_length; lia).
      destruct (Nat.eq_dec k j) as [->|Hkj].
      { rewrite upd_same in Hk by lia. congruence. }
      rewrite upd_other in Hk by lia. exact Hk.
  Qed.

  Lemma shuffle_ok swaps : forall l l', shuffle fixed swaps l = Ok l' -> Permutation l l' /\ fixed_kept l l'.
  Proof.
    induction swaps as [|s r IH]; intros l l' H; cbn [shuffle] in H.
    - inversion H; subst. split; [reflexivity|apply fixed_kept_refl].
    - destruct (shuf_step fixed l s) as [l1| |] eqn:E; cbn [bind] in H; try discriminate.
      destruct (shuf_step_ok _ _ _ E) as [P1 K1]. destruct (IH _ _ H) as [P2 K2].
      split; [eapply Permutation_trans; eassumption | eapply fixed_kept_trans; eassumption].
  Qed.

  (* the function fails only by indexing outside the slice, which rand.Shuffle(len(exts), ..) never does *)
  Lemma shuffle_total swaps : forall l, Forall (fun ij => (fst ij < length l)%nat /\ (snd ij < length l)%nat) swaps ->
    exists l', shuffle fixed swaps l = Ok l'.
  Proof.
    induction swaps as [|[i j] r IH]; intros l H; cbn [shuffle]; [eexists; reflexivity|].
    inversion H as [|? ? [Hi Hj] Hr]; subst. cbn [fst snd] in *.
    assert (exists l1, shuf_step fixed l (i, j) = Ok l1 /\ length l1 = length l) as (l1 & E & L).
    { unfold shuf_step. destruct (nth_error l i) as [a|] eqn:Ei; [|apply nth_error_None in Ei; lia].
      destruct (fixed a); [eexists; split; reflexivity|].
      destruct (nth_error l j) as [b|] eqn:Ej; [|apply nth_error_None in Ej; lia].
      destruct (fixed b); [eexists; split; reflexivity|].
      eexists; split; [reflexivity|]. rewrite upd_length; rewrite upd_length; lia. }
    rewrite E. cbn [bind]. apply IH. rewrite L. exact Hr.
  Qed.
End ShuffleP.

(* ================================================================== *)
(* what an extension list puts on the wire, by the codecs of Model/Ext.v *)

(* wire_pair / wire_of / set_pad / ast_of are defined in Model/ParrotSpec.v *)

(* wire_pair is what Read emits (C08 layout theorem) *)
Lemma wire_pair_read e : wf_ext e = true ->
  ext_read e (ext_len e) =
    Ok (match wire_pair e with Some (id, b) => enc_u16 id ++ enc_u16lp b | None => [] end).
Proof.
  intros H. pose proof (read_layout e H) as L. unfold wire_pair.
  destruct (ext_absent e); [apply L | apply L].
Qed.

Lemma wire_of_cons e es : wire_of (e :: es) = wire_of [e] ++ wire_of es.
Proof. unfold wire_of. cbn [flat_map]. rewrite app_nil_r. reflexivity. Qed.

Lemma bytes_eqb_refl b : bytes_eqb b b = true.
Proof. apply bytes_eqb_eq. reflexivity. Qed.

(* one step of the sequence matcher *)
Lemma seq_step c s ss e ws :
  match presence_of c s with
  | Must => ext_absent e = false /\ ext_matches c s (ext_id e, ext_body e) = true
  | MustNot => ext_absent e = true
  | May => ext_absent e = true \/ (ext_absent e = false /\ ext_matches c s (ext_id e, ext_body e) = true)
  end ->
  seq_match c ss ws = true ->
  seq_match c (s :: ss) (wire_of [e] ++ ws) = true.
Proof.
  intros Hp Hr. cbn [seq_match]. unfold wire_of, wire_pair. cbn [flat_map].
  destruct (presence_of c s).
  - destruct Hp as [Ha Hm]. rewrite Ha. cbn [app]. rewrite Hm, Hr. reflexivity.
  - rewrite Hp. cbn [app]. exact Hr.
  - destruct Hp as [Ha|[Ha Hm]]; rewrite Ha; cbn [app].
    + destruct ws; [exact Hr|]. rewrite Hr. apply orb_true_r.
    + rewrite Hm, Hr. reflexivity.
Qed.

(* ---- GREASE facts in the vocabulary of this file ---- *)
Lemma boring_u16 sd idx v : Grease.boring_grease sd idx = Ok v -> Grease.is_grease v = true.
Proof. apply boring_is_grease. Qed.

Lemma regrease_match sd idx l l' : Grease.map_res (Grease.regrease sd idx) l = Ok l' -> list_match gmatch l l' = true.
Proof.
  intros H. pose proof (regreased_reserved _ _ _ (map_regrease _ _ _ _ H) (boring_is_grease sd idx)) as F.
  clear H. induction F as [|a b l l' Hab _ IH]; [reflexivity|].
  cbn [list_match]. unfold gmatch at 1. destruct (Grease.is_grease a).
  - rewrite Hab. exact IH.
  - subst b. rewrite N.eqb_refl. exact IH.
Qed.

(* ---- per-extension: the preset image of a spec extension matches the spec extension ---- *)

Lemma curves_match c cs cs' : list_match gmatch cs cs' = true -> wf_ext (ESupportedCurves cs') = true ->
  ext_matches c (SExt (ESupportedCurves cs)) (ext_id (ESupportedCurves cs'), ext_body (ESupportedCurves cs')) = true.
Proof.
  intros Hm Hwf. destruct (wf_parts _ Hwf) as (_ & Hf & Hl). cbn [fields_ok ext_len] in Hf, Hl.
  cbn [ext_matches ext_id ext_body]. rewrite N.eqb_refl. cbn [andb].
  unfold u16_list_of, u16s_body. rewrite read_enc_u16lp_nil by (rewrite blen_flat_u16; lia).
  rewrite read_u16s_flat by exact Hf. exact Hm.
Qed.

Lemma versions_match c vs vs' : list_match gmatch vs vs' = true -> wf_ext (ESupportedVersions vs') = true ->
  ext_matches c (SExt (ESupportedVersions vs)) (ext_id (ESupportedVersions vs'), ext_body (ESupportedVersions vs')) = true.
Proof.
  intros Hm Hwf. destruct (wf_parts _ Hwf) as (_ & Hf & Hl). cbn [fields_ok ext_len] in Hf, Hl.
  apply andb_true_iff in Hf. destruct Hf as [Hf1 Hf2].
  cbn [ext_matches ext_id ext_body]. rewrite N.eqb_refl. cbn [andb].
  unfold u16_list8_of. rewrite read_enc_u8lp_nil by (rewrite blen_flat_u16; lia).
  rewrite read_u16s_flat by exact Hf1. exact Hm.
Qed.

Lemma parse_shares_flat (ks : list (N * bytes)) : forall fuel,
  forallb (fun k => (fst k <? 65536) && (blen (snd k) <? 65536)) ks = true ->
  (length ks <= fuel)%nat ->
  parse_shares fuel (flat_map (fun k => enc_u16 (fst k) ++ enc_u16lp (snd k)) ks) = Some ks.
Proof.
  induction ks as [|[g d] ks IH]; intros fuel H Hf; [destruct fuel; reflexivity|].
  cbn [forallb fst snd] in H. rewrite !andb_true_iff in H. destruct H as [[Hg Hd] Hr].
  destruct fuel as [|fuel]; [cbn in Hf; lia|].
  cbn [flat_map fst snd]. rewrite <- !app_assoc.
  change (parse_shares (S fuel) (enc_u16 g ++ enc_u16lp d ++ flat_map (fun k => enc_u16 (fst k) ++ enc_u16lp (snd k)) ks))
    with (match read_u16 (enc_u16 g ++ enc_u16lp d ++ flat_map (fun k => enc_u16 (fst k) ++ enc_u16lp (snd k)) ks) with
          | None => None
          | Some (g0, s1) => match read_u16lp s1 with
                             | None => None
                             | Some (d0, s2) => match parse_shares fuel s2 with Some l => Some ((g0, d0) :: l) | None => None end
                             end
          end).
  rewrite read_enc_u16 by lia. rewrite read_enc_u16lp by lia. rewrite IH by (try exact Hr; cbn in Hf; lia). reflexivity.
Qed.

Lemma group_share_len_key_size g : group_share_len g = key_size g.
Proof. reflexivity. Qed.

Lemma preset_shares_match sd : forall ks keys ks' keys',
  preset_shares sd keys ks = Ok (ks', keys') -> list_match share_match ks ks' = true.
Proof.
  induction ks as [|[g d] ks IH]; intros keys ks' keys' H; cbn [preset_shares] in H.
  - inversion H; subst. reflexivity.
  - destruct (Grease.is_grease g) eqn:Gg.
    + destruct (Grease.boring_grease sd Grease.ssl_grease_group) as [g'| |] eqn:Bg; cbn [bind] in H; try discriminate.
      destruct (preset_shares sd keys ks) as [[r k]| |] eqn:Er; cbn [bind fst snd] in H; try discriminate.
      inversion H; subst. cbn [list_match share_match]. rewrite Gg, (boring_is_grease _ _ _ Bg), bytes_eqb_refl.
      cbn [andb]. eapply IH; eassumption.
    + destruct (1 <? blen d) eqn:Ed.
      * destruct (preset_shares sd keys ks) as [[r k]| |] eqn:Er; cbn [bind fst snd] in H; try discriminate.
        inversion H; subst. cbn [list_match share_match]. rewrite Gg, N.eqb_refl, Ed, bytes_eqb_refl.
        cbn [andb]. eapply IH; eassumption.
      * destruct (key_size g) as [n|] eqn:Ek; [|discriminate].
        destruct keys as [|k0 keys0]; [discriminate|].
        destruct (blen k0 =? n) eqn:En; cbn [negb] in H; [|discriminate].
        destruct (preset_shares sd keys0 ks) as [[r k]| |] eqn:Er; cbn [bind fst snd] in H; try discriminate.
        inversion H; subst. cbn [list_match share_match]. rewrite Gg, N.eqb_refl, Ed, group_share_len_key_size, Ek, En.
        cbn [andb]. eapply IH; eassumption.
Qed.

Lemma sum_map_bound {A} (f : A -> N) (l : list A) x : In x l -> f x <= sum_map f l.
Proof.
  induction l as [|y l IH]; [intros []|]. intros [->|H]; cbn [sum_map]; [lia|]. specialize (IH H). lia.
Qed.

Lemma sum_map_count {A} (f : A -> N) (l : list A) : (forall x, In x l -> 1 <= f x) -> N.of_nat (length l) <= sum_map f l.
Proof.
  induction l as [|y l IH]; intros H; cbn [sum_map length]; [lia|].
  pose proof (H y (or_introl eq_refl)). assert (N.of_nat (length l) <= sum_map f l) by (apply IH; intros; apply H; right; assumption). lia.
Qed.

Lemma keyshare_match c ks ks' : list_match share_match ks ks' = true -> wf_ext (EKeyShare ks') = true ->
  ext_matches c (SExt (EKeyShare ks)) (ext_id (EKeyShare ks'), ext_body (EKeyShare ks')) = true.
Proof.
  intros Hm Hwf. destruct (wf_parts _ Hwf) as (_ & Hf & Hl). cbn [fields_ok ext_len] in Hf, Hl.
  cbn [ext_matches ext_id ext_body]. rewrite N.eqb_refl. cbn [andb].
  set (X := flat_map (fun k : N * bytes => enc_u16 (fst k) ++ enc_u16lp (snd k)) ks').
  assert (HX : blen X = key_shares_len ks').
  { unfold X. rewrite <- key_shares_bytes_spec. apply blen_key_shares_bytes. }
  unfold shares_of. rewrite read_enc_u16lp_nil by lia.
  assert (HL : (length ks' <= length X)%nat).
  { assert (N.of_nat (length ks') <= key_shares_len ks') by (apply sum_map_count; intros; lia).
    unfold blen in HX. lia. }
  subst X. rewrite parse_shares_flat; [exact Hm| |exact HL].
  - apply forallb_forall. intros k Hk. rewrite forallb_forall in Hf. specialize (Hf k Hk).
    pose proof (sum_map_bound (fun k => 4 + blen (snd k)) ks' k Hk) as Hb. unfold key_shares_len in Hl.
    cbn beta in Hb. apply andb_true_iff. split; [exact Hf|lia].
Qed.

Lemma nth_error_mem (l : list N) i x : nth_error l i = Some x -> mem_N x l = true.
Proof.
  intros H. apply nth_error_In in H. unfold mem_N. apply existsb_exists. exists x. split; [exact H|apply N.eqb_refl].
Qed.

Lemma ech_match c su ci en pl d e : ech_init su ci en pl d = Ok e -> wf_ext e = true ->
  ext_absent e = false /\ ext_matches c (SGreaseECH su ci en pl) (ext_id e, ext_body e) = true.
Proof.
  unfold ech_init. intros H Hwf.
  destruct (match ci with [] => Ok (ed_cfg_byte d) | _ => of_opt E_FRESH (nth_error ci (ed_cfg_idx d)) end) as [cfgid| |] eqn:Ec;
    cbn [bind] in H; try discriminate.
  destruct (match su with [] => Ok (1, 1) | _ => of_opt E_FRESH (nth_error su (ed_suite_idx d)) end) as [[kdf aead]| |] eqn:Es;
    cbn [bind] in H; try discriminate.
  destruct (match pl with [] => Ok 128 | _ => of_opt E_FRESH (nth_error pl (ed_plen_idx d)) end) as [plen| |] eqn:Ep;
    cbn [bind] in H; try discriminate.
  destruct (ech_aead_ok aead) eqn:Ea; cbn [negb] in H; [|discriminate].
  destruct (blen (ed_payload d) =? plen + ECH_TAG_LEN) eqn:El; cbn [negb] in H; [|discriminate].
  destruct (empty en && negb (blen (ed_enc d) =? 32)) eqn:Ee; [discriminate|].
  inversion H; subst e; clear H.
  destruct (wf_parts _ Hwf) as (_ & Hf & Hl). cbn [fields_ok ext_len] in Hf, Hl.
  apply andb_true_iff in Hf. destruct Hf as [Hk Ha].
  split; [reflexivity|].
  cbn [ext_matches ext_id ext_body]. rewrite N.eqb_refl. cbn [andb].
  unfold ech_body_ok. cbn [app].
  rewrite read_enc_u16 by lia. cbn [obind]. rewrite read_enc_u16 by lia. cbn [obind].
  cbn [app read_u8 obind]. rewrite read_enc_u16lp by lia. cbn [obind]. rewrite read_enc_u16lp_nil by lia. cbn [obind empty andb].
  apply N.eqb_eq in El. unfold ECH_TAG_LEN in El.
  repeat (apply andb_true_iff; split).
  - destruct su as [|s0 su']; [inversion Es; reflexivity|].
    unfold of_opt in Es. destruct (nth_error (s0 :: su') (ed_suite_idx d)) as [[k a]|] eqn:En; inversion Es; subst.
    apply existsb_exists. exists (kdf, aead). split; [eapply nth_error_In; exact En|]. cbn [fst snd]. rewrite !N.eqb_refl. reflexivity.
  - destruct ci as [|c0 ci']; [reflexivity|].
    unfold of_opt in Ec. destruct (nth_error (c0 :: ci') (ed_cfg_idx d)) as [x|] eqn:En; inversion Ec; subst.
    eapply nth_error_mem; exact En.
  - destruct (empty en) eqn:E0; cbn [andb] in Ee.
    + apply negb_false_iff in Ee. exact Ee.
    + apply bytes_eqb_refl.
  - lia.
  - replace (blen (ed_payload d) - 16) with plen by lia.
    destruct pl as [|p0 pl']; [inversion Ep; reflexivity|].
    unfold of_opt in Ep. destruct (nth_error (p0 :: pl') (ed_plen_idx d)) as [x|] eqn:En; inversion Ep; subst.
    eapply nth_error_mem; exact En.
Qed.

Lemma ech_init_nopad su ci en pl d e l w : ech_init su ci en pl d = Ok e -> set_pad l w e = e.
Proof.
  unfold ech_init. intros H.
  destruct (match ci with [] => Ok (ed_cfg_byte d) | _ => of_opt E_FRESH (nth_error ci (ed_cfg_idx d)) end) as [cfgid| |];
    cbn [bind] in H; try discriminate.
  destruct (match su with [] => Ok (1, 1) | _ => of_opt E_FRESH (nth_error su (ed_suite_idx d)) end) as [[kdf aead]| |];
    cbn [bind] in H; try discriminate.
  destruct (match pl with [] => Ok 128 | _ => of_opt E_FRESH (nth_error pl (ed_plen_idx d)) end) as [plen| |];
    cbn [bind] in H; try discriminate.
  destruct (negb (ech_aead_ok aead)); [discriminate|].
  destruct (negb (blen (ed_payload d) =? plen + ECH_TAG_LEN)); [discriminate|].
  destruct (empty en && negb (blen (ed_enc d) =? 32)); [discriminate|].
  inversion H; subst e. reflexivity.
Qed.

Lemma forallb_zbytes n : forallb (N.eqb 0) (zbytes n) = true.
Proof. induction n; [reflexivity|]. cbn [zbytes forallb]. rewrite IHn. reflexivity. Qed.

Ltac split_wf Hwf Hw1 Hw2 :=
  cbn [forallb] in Hwf; apply andb_true_iff in Hwf; destruct Hwf as [Hw1 Hw2].

(* ApplyPreset's extension loop: whatever the seed, the keys, the ECH draws and the later padding
   decision are, the extensions it leaves - encoded by their codecs - match the spec's, one by one
   and in order, in the sense of the property oracle. *)
Lemma preset_exts_match sd c pl pw : forall es seen keys echs es',
  preset_exts sd c seen keys echs es = Ok es' ->
  forallb wf_ext es' = true ->
  seq_match c (expect_exts seen es) (wire_of (map (set_pad pl pw) es')) = true.
Proof.
  induction es as [|s es IH]; intros seen keys echs es' H Hwf.
  - cbn in H. inversion H; subst. reflexivity.
  - destruct s as [e|su ci en pl0].
    2:{ (* GREASE ECH *)
      cbn [preset_exts] in H. destruct echs as [|d echs']; [discriminate|].
      destruct (ech_init su ci en pl0 d) as [e| |] eqn:Ee; cbn [bind] in H; try discriminate.
      destruct (preset_exts sd c seen keys echs' es) as [r'| |] eqn:Er; cbn [bind] in H; try discriminate.
      inversion H; subst es'; clear H. split_wf Hwf Hw1 Hw2.
      destruct (ech_match c _ _ _ _ _ _ Ee Hw1) as [Ha Hm].
      pose proof (ech_init_nopad _ _ _ _ _ _ pl pw Ee) as Hp.
      cbn [expect_exts map]. rewrite Hp, wire_of_cons. apply seq_step; [cbn [presence_of]; split; assumption|].
      eapply IH; eassumption. }
    destruct e; cbn [preset_exts] in H;
    (* the constructors ApplyPreset leaves alone and the oracle compares verbatim *)
    try (destruct (preset_exts sd c seen keys echs es) as [r'| |] eqn:Er; cbn [bind] in H; try discriminate;
         inversion H; subst es'; clear H; split_wf Hwf Hw1 Hw2;
         cbn [expect_exts map set_pad]; rewrite wire_of_cons;
         apply seq_step; [|eapply IH; eassumption];
         cbn [presence_of]; split; [reflexivity|];
         cbn [ext_matches ext_id]; rewrite N.eqb_refl, bytes_eqb_refl; reflexivity).
    + (* SNI *)
      destruct (preset_exts sd c seen keys echs es) as [r'| |] eqn:Er; cbn [bind] in H; try discriminate.
      inversion H; subst es'; clear H. split_wf Hwf Hw1 Hw2.
      cbn [expect_exts map]. rewrite wire_of_cons. apply seq_step; [|eapply IH; eassumption].
      cbn [presence_of]. destruct (empty host) eqn:Eh; cbn [andb set_pad ext_absent ext_matches ext_id]; rewrite ?Eh.
      * destruct (empty (c_sni c)) eqn:Ec.
        -- apply empty_true_iff in Ec. rewrite Ec. reflexivity.
        -- apply empty_false_iff in Ec. split; [apply N.eqb_neq; exact Ec|]. rewrite N.eqb_refl, bytes_eqb_refl. reflexivity.
      * apply empty_false_iff in Eh. split; [apply N.eqb_neq; exact Eh|]. rewrite N.eqb_refl, bytes_eqb_refl. reflexivity.
    + (* supported_groups *)
      destruct (Grease.map_res (Grease.regrease sd Grease.ssl_grease_group) curves) as [cs'| |] eqn:Ec; cbn [bind] in H; try discriminate.
      destruct (preset_exts sd c seen keys echs es) as [r'| |] eqn:Er; cbn [bind] in H; try discriminate.
      inversion H; subst es'; clear H. split_wf Hwf Hw1 Hw2.
      cbn [expect_exts map set_pad]. rewrite wire_of_cons. apply seq_step; [|eapply IH; eassumption].
      cbn [presence_of]. split; [reflexivity|]. apply curves_match; [eapply regrease_match; exact Ec|exact Hw1].
    + (* GREASE *)
      destruct seen as [|[|seen]]; [| |discriminate].
      * destruct (Grease.boring_grease sd Grease.ssl_grease_extension1) as [x| |] eqn:Ex; cbn [bind] in H; try discriminate.
        destruct (preset_exts sd c 1 keys echs es) as [r'| |] eqn:Er; cbn [bind] in H; try discriminate.
        inversion H; subst es'; clear H. split_wf Hwf Hw1 Hw2.
        cbn [expect_exts map set_pad]. rewrite wire_of_cons. apply seq_step; [|eapply IH; eassumption].
        cbn [presence_of]. split; [reflexivity|]. cbn [ext_matches ext_id ext_body].
        rewrite (boring_is_grease _ _ _ Ex), bytes_eqb_refl. reflexivity.
      * destruct (Grease.boring_grease sd Grease.ssl_grease_extension2) as [x| |] eqn:Ex; cbn [bind] in H; try discriminate.
        destruct (preset_exts sd c 2 keys echs es) as [r'| |] eqn:Er; cbn [bind] in H; try discriminate.
        inversion H; subst es'; clear H. split_wf Hwf Hw1 Hw2.
        cbn [expect_exts map set_pad]. rewrite wire_of_cons. apply seq_step; [|eapply IH; eassumption].
        cbn [presence_of]. split; [reflexivity|]. cbn [ext_matches ext_id ext_body].
        rewrite (boring_is_grease _ _ _ Ex), bytes_eqb_refl. reflexivity.
    + (* padding *)
      destruct (preset_exts sd c seen keys echs es) as [r'| |] eqn:Er; cbn [bind] in H; try discriminate.
      inversion H; subst es'; clear H. split_wf Hwf Hw1 Hw2.
      cbn [expect_exts map set_pad]. rewrite wire_of_cons. apply seq_step; [|eapply IH; eassumption].
      cbn [presence_of ext_absent ext_matches ext_id ext_body]. destruct pw; cbn [negb]; [right|left; reflexivity].
      split; [reflexivity|]. rewrite N.eqb_refl, forallb_zbytes. reflexivity.
    + (* key_share *)
      destruct (preset_shares sd keys shares) as [[ks' keys']| |] eqn:Ek; cbn [bind fst snd] in H; try discriminate.
      destruct (preset_exts sd c seen keys' echs es) as [r'| |] eqn:Er; cbn [bind] in H; try discriminate.
      inversion H; subst es'; clear H. split_wf Hwf Hw1 Hw2.
      cbn [expect_exts map set_pad]. rewrite wire_of_cons. apply seq_step; [|eapply IH; eassumption].
      cbn [presence_of]. split; [reflexivity|]. apply keyshare_match; [eapply preset_shares_match; exact Ek|exact Hw1].
    + (* supported_versions *)
      destruct (Grease.map_res (Grease.regrease sd Grease.ssl_grease_version) versions) as [vs'| |] eqn:Ec; cbn [bind] in H; try discriminate.
      destruct (preset_exts sd c seen keys echs es) as [r'| |] eqn:Er; cbn [bind] in H; try discriminate.
      inversion H; subst es'; clear H. split_wf Hwf Hw1 Hw2.
      cbn [expect_exts map set_pad]. rewrite wire_of_cons. apply seq_step; [|eapply IH; eassumption].
      cbn [presence_of]. split; [reflexivity|]. apply versions_match; [eapply regrease_match; exact Ec|exact Hw1].
    + (* pre_shared_key (uTLS) *)
      destruct (preset_exts sd c seen keys echs es) as [r'| |] eqn:Er; cbn [bind] in H; try discriminate.
      inversion H; subst es'; clear H. split_wf Hwf Hw1 Hw2.
      cbn [expect_exts map set_pad]. rewrite wire_of_cons. apply seq_step; [|eapply IH; eassumption].
      cbn [presence_of]. destruct (ext_absent (EUtlsPreSharedKey has_session cached (c_omit_psk c) ids binders)); [left; reflexivity|right; split; reflexivity].
    + (* pre_shared_key (fake) *)
      destruct (preset_exts sd c seen keys echs es) as [r'| |] eqn:Er; cbn [bind] in H; try discriminate.
      inversion H; subst es'; clear H. split_wf Hwf Hw1 Hw2.
      cbn [expect_exts map set_pad]. rewrite wire_of_cons. apply seq_step; [|eapply IH; eassumption].
      cbn [presence_of]. destruct (ext_absent (EFakePreSharedKey (c_omit_psk c) ids binders)); [left; reflexivity|right; split; reflexivity].
Qed.

(* ---- header fields ---- *)

Lemma find_versions_max vs : forall mn mx,
  snd (fold_left (fun '(mn, mx) v =>
         if Grease.is_grease v then (mn, mx) else
         ((if (v <? mn) || (mn =? 0) then v else mn), (if (mx <? v) || (mx =? 0) then v else mx))) vs (mn, mx))
  = N.max mx (fold_right N.max 0 (filter (fun v => negb (Grease.is_grease v)) vs)).
Proof.
  induction vs as [|v vs IH]; intros mn mx; cbn [fold_left filter fold_right snd]; [lia|].
  destruct (Grease.is_grease v); cbn [negb]; [apply IH|].
  rewrite IH. cbn [fold_right]. destruct ((mx <? v) || (mx =? 0)) eqn:E; lia.
Qed.

Definition is_versions (s : sext) : bool := match s with SExt (ESupportedVersions _) => true | _ => false end.
Definition nver (es : list sext) : nat := length (filter is_versions es).

Lemma scan_versions_spec : forall es c0 m0 x0 c1 m1 x1,
  scan_versions es (c0, m0, x0) = Ok (c1, m1, x1) ->
  c1 = (c0 + nver es)%nat /\
  (nver es = 0%nat -> spec_versions es = None /\ m1 = m0 /\ x1 = x0) /\
  (nver es = 1%nat -> exists vs, spec_versions es = Some vs /\ x1 = snd (find_versions vs)).
Proof.
  induction es as [|s es IH]; intros c0 m0 x0 c1 m1 x1 H.
  - cbn in H. inversion H; subst. unfold nver. cbn. repeat split; try lia; intros; try reflexivity; lia.
  - destruct (is_versions s) eqn:Ev.
    + destruct s as [e|]; [|discriminate]. destruct e; try discriminate. clear Ev.
      cbn [scan_versions] in H. destruct (find_versions versions) as [mn mx] eqn:Ef.
      destruct ((mn =? 0) && (mx =? 0)); [discriminate|].
      destruct (IH _ _ _ _ _ _ H) as (Hc & H0 & H1).
      unfold nver in *. cbn [filter is_versions length]. split; [lia|]. split; [intros; lia|].
      intros Hn. assert (Hz : length (filter is_versions es) = 0%nat) by lia.
      destruct (H0 Hz) as (_ & _ & Hx). exists versions. split; [reflexivity|]. rewrite Ef. exact Hx.
    + assert (Hs : scan_versions (s :: es) (c0, m0, x0) = scan_versions es (c0, m0, x0)).
      { destruct s as [e|]; [destruct e; try reflexivity; discriminate|reflexivity]. }
      rewrite Hs in H. destruct (IH _ _ _ _ _ _ H) as (Hc & H0 & H1).
      assert (Hn : nver (s :: es) = nver es) by (unfold nver; cbn [filter]; rewrite Ev; reflexivity).
      assert (Hf : spec_versions (s :: es) = spec_versions es).
      { unfold spec_versions. cbn [find]. fold (is_versions s). rewrite Ev. reflexivity. }
      rewrite Hn, Hf. auto.
Qed.

Lemma legacy_version sp mn mx v : set_tls_vers sp = Ok (mn, mx) -> hello_vers mn mx = Ok v ->
  v = N.min (spec_max sp) 771.
Proof.
  unfold set_tls_vers, hello_vers, spec_max. intros Hs Hv.
  destruct (mx <? mn); [discriminate|]. inversion Hv; subst v; clear Hv.
  assert (Hmx : mx = if (sp_min sp =? 0) && (sp_max sp =? 0)
                      then match spec_versions (sp_exts sp) with
                           | Some vs => fold_right N.max 0 (filter (fun v => negb (Grease.is_grease v)) vs)
                           | None => 771 end
                      else sp_max sp).
  { destruct ((sp_min sp =? 0) && (sp_max sp =? 0)).
    - destruct (scan_versions (sp_exts sp) (0%nat, 0, 0)) as [[[cnt m1] x1]| |] eqn:Esc; cbn [bind] in Hs; try discriminate.
      destruct (scan_versions_spec _ _ _ _ _ _ _ Esc) as (Hc & H0 & H1). cbn in Hc.
      destruct cnt as [|[|cnt]]; cbn [bind] in Hs; try discriminate.
      + destruct (H0 (eq_sym Hc)) as (Hn & _ & _). rewrite Hn.
        cbv [VersionTLS10 VersionTLS12 VersionTLS13] in Hs. cbn in Hs. inversion Hs. reflexivity.
      + destruct (H1 (eq_sym Hc)) as (vs & Hsv & Hx). rewrite Hsv.
        destruct ((m1 <? VersionTLS10) || (VersionTLS13 <? m1)); [discriminate|].
        destruct ((x1 <? VersionTLS10) || (VersionTLS13 <? x1)); [discriminate|].
        inversion Hs; subst. unfold find_versions. rewrite find_versions_max. lia.
    - cbn [bind] in Hs.
      destruct ((sp_min sp <? VersionTLS10) || (VersionTLS13 <? sp_min sp)); [discriminate|].
      destruct ((sp_max sp <? VersionTLS10) || (VersionTLS13 <? sp_max sp)); [discriminate|].
      inversion Hs; reflexivity. }
  rewrite <- Hmx. unfold VersionTLS12. destruct (771 <? mx) eqn:E; lia.
Qed.

(* ---- ApplyPreset as a whole against the oracle ---- *)


Lemma apply_preset_matches sp c fr h es name pl pw :
  apply_preset sp c fr = Ok (h, es) ->
  forallb wf_ext es = true ->
  sp_comp sp = [0] ->
  ast_matches_specb (ast_of h (map (set_pad pl pw) es)) {| p_name := name; p_spec := sp; p_shuffles := false |} c = true.
Proof.
  unfold apply_preset. intros H Hwf Hcomp.
  destruct (set_tls_vers sp) as [[mn mx]| |] eqn:Ev; cbn [bind fst snd] in H; try discriminate.
  destruct (hello_vers mn mx) as [v| |] eqn:Eh; cbn [bind] in H; try discriminate.
  destruct (blen (f_random fr) =? 32) eqn:Er; cbn [negb] in H; [|discriminate].
  destruct (Grease.grease_seed (f_grease fr)) as [sd| |] eqn:Eg; cbn [bind] in H; try discriminate.
  destruct (Grease.map_res (Grease.regrease sd Grease.ssl_grease_cipher) (sp_suites sp)) as [su| |] eqn:Es; cbn [bind] in H; try discriminate.
  destruct (blen (f_sid fr) =? 32) eqn:Ei; cbn [negb] in H; [|discriminate].
  destruct (preset_exts sd c 0 (f_keys fr) (f_ech fr) (sp_exts sp)) as [es0| |] eqn:Ee; cbn [bind] in H; try discriminate.
  destruct (sync_session_exts es0) as [u| |]; cbn [bind] in H; try discriminate.
  inversion H; subst h es; clear H.
  unfold ast_matches_specb, ast_of.
  cbn [a_vers a_random a_sid a_suites a_comp a_exts p_spec p_shuffles
       Marshal.h_vers Marshal.h_random Marshal.h_sid Marshal.h_suites Marshal.h_comp].
  rewrite (legacy_version _ _ _ _ Ev Eh), N.eqb_refl, Er, Ei, (regrease_match _ _ _ _ Es), Hcomp, bytes_eqb_refl.
  cbn [andb]. eapply preset_exts_match; eassumption.
Qed.

(* The premise "sp_comp sp = [0]" cannot be dropped: ApplyPreset never reads p.CompressionMethods. *)
Lemma compression_not_copied sp c fr h es : apply_preset sp c fr = Ok (h, es) -> Marshal.h_comp h = [0].
Proof.
  unfold apply_preset. intros H.
  repeat (match type of H with
          | context [bind ?x _] => destruct x as [?| |]; cbn [bind] in H; try discriminate
          | context [if ?b then _ else _] => destruct b; try discriminate
          end).
  inversion H; subst. reflexivity.
Qed.

(* ---- the hello does not depend on the caller's Config.MinVersion / MaxVersion / NextProtos ---- *)
Lemma preset_exts_cfg sd c c' : c_sni c = c_sni c' -> c_omit_psk c = c_omit_psk c' ->
  forall es seen keys echs, preset_exts sd c seen keys echs es = preset_exts sd c' seen keys echs es.
Proof.
  intros H1 H2. induction es as [|s es IH]; intros seen keys echs; [reflexivity|].
  destruct s as [e|su ci en pl].
  - destruct e; cbn [preset_exts]; rewrite ?H1, ?H2;
      try (destruct seen as [|[|seen]]); rewrite ?IH; try reflexivity;
      repeat (match goal with |- bind ?x _ = bind ?x _ => destruct x; cbn [bind]; try reflexivity end); rewrite ?IH; reflexivity.
  - cbn [preset_exts]. destruct echs; [reflexivity|]. destruct (ech_init su ci en pl e); cbn [bind]; try reflexivity.
    rewrite IH. reflexivity.
Qed.

Lemma apply_preset_cfg sp c c' fr : c_sni c = c_sni c' -> c_omit_psk c = c_omit_psk c' ->
  apply_preset sp c fr = apply_preset sp c' fr.
Proof.
  intros H1 H2. unfold apply_preset.
  destruct (set_tls_vers sp); cbn [bind]; try reflexivity.
  destruct (hello_vers (fst a) (snd a)); cbn [bind]; try reflexivity.
  destruct (negb (blen (f_random fr) =? 32)); [reflexivity|].
  destruct (Grease.grease_seed (f_grease fr)); cbn [bind]; try reflexivity.
  destruct (Grease.map_res (Grease.regrease a1 Grease.ssl_grease_cipher) (sp_suites sp)); cbn [bind]; try reflexivity.
  destruct (negb (blen (f_sid fr) =? 32)); [reflexivity|].
  rewrite (preset_exts_cfg _ c c' H1 H2). reflexivity.
Qed.

(* Proofs for C03: the Chrome shuffle (Model/Shuffle.v) and ApplyPreset
   (Model/Preset.v) against the property oracle of Model/ParrotSpec.v. *)
From Coq Require Import Permutation FinFun.
From Coq Require Import ZifyBool ZifyNat ZifyN.
From UV Require Import Base.Common Model.Wire.
From UV Require Model.Grease Model.Padding Model.Marshal.
From UV Require Import Model.Ext Model.ExtSpec Model.Shuffle Model.Preset Model.ParrotSpec.
From UV Require Import Proofs.WireP Proofs.ExtP Proofs.GreaseP.

(* ================================================================== *)
(* Shuffle *)
Section ShuffleP.
  Context {A : Type} (fixed : A -> bool).

  Lemma nth_error_firstn_lt (l : list A) : forall i k, (k < i)%nat -> nth_error (firstn i l) k = nth_error l k.
  Proof.
    induction l as [|x l IH]; intros [|i] [|k] H; cbn; try reflexivity; try lia. apply IH. lia.
  Qed.
  Lemma nth_error_skipn (l : list A) : forall n k, nth_error (skipn n l) k = nth_error l (n + k).
  Proof.
    induction l as [|x l IH]; intros [|n] k; cbn; try reflexivity.
    - destruct k; reflexivity.
    - apply IH.
  Qed.

  Lemma upd_length i (x : A) l : (i < length l)%nat -> length (upd i x l) = length l.
  Proof.
    intros H. unfold upd. rewrite app_length. cbn [length]. rewrite firstn_length, skipn_length. lia.
  Qed.

  Lemma upd_same i (x : A) l : (i < length l)%nat -> nth_error (upd i x l) i = Some x.
  Proof.
    intros H. unfold upd. rewrite nth_error_app2 by (rewrite firstn_length; lia).
    rewrite firstn_length. replace (i - Nat.min i (length l))%nat with 0%nat by lia. reflexivity.
  Qed.

  Lemma upd_other i k (x : A) l : (i < length l)%nat -> k <> i -> nth_error (upd i x l) k = nth_error l k.
  Proof.
    intros H Hk. unfold upd. destruct (Nat.ltb_spec k i) as [Hlt|Hge].
    - rewrite nth_error_app1 by (rewrite firstn_length; lia). apply nth_error_firstn_lt; exact Hlt.
    - rewrite nth_error_app2 by (rewrite firstn_length; lia). rewrite firstn_length.
      replace (Nat.min i (length l)) with i by lia.
      destruct (k - i)%nat as [|m] eqn:E; [lia|]. cbn [nth_error].
      rewrite nth_error_skipn. f_equal. lia.
  Qed.

  (* one swap is a permutation *)
  Lemma swap_perm l i j (a b : A) : nth_error l i = Some a -> nth_error l j = Some b ->
    Permutation l (upd i b (upd j a l)).
  Proof.
    intros Hi Hj.
    assert (Li : (i < length l)%nat) by (apply nth_error_Some; congruence).
    assert (Lj : (j < length l)%nat) by (apply nth_error_Some; congruence).
    apply Permutation_nth_error. split.
    - rewrite upd_length; rewrite upd_length; lia.
    - exists (fun n => if Nat.eqb n i then j else if Nat.eqb n j then i else n). split.
      + intros x y. destruct (Nat.eqb_spec x i), (Nat.eqb_spec y i), (Nat.eqb_spec x j), (Nat.eqb_spec y j); lia.
      + intros n. destruct (Nat.eqb_spec n i) as [->|Hni].
        * rewrite upd_same by (rewrite upd_length; lia). symmetry; exact Hj.
        * rewrite upd_other by (rewrite ?upd_length; lia).
          destruct (Nat.eqb_spec n j) as [->|Hnj].
          -- rewrite upd_same by lia. symmetry; exact Hi.
          -- apply upd_other; lia.
  Qed.

  (* fixed entries of l stay where they are, and no fixed entry appears elsewhere *)
  Definition fixed_kept (l l' : list A) : Prop :=
    and (forall k x, nth_error l k = Some x -> fixed x = true -> nth_error l' k = Some x)
        (forall k y, nth_error l' k = Some y -> fixed y = true -> nth_error l k = Some y).

  Lemma fixed_kept_refl l : fixed_kept l l.
  Proof. split; auto. Qed.
  Lemma fixed_kept_trans l1 l2 l3 : fixed_kept l1 l2 -> fixed_kept l2 l3 -> fixed_kept l1 l3.
  Proof. intros [A1 B1] [A2 B2]. split; intros k x H F; [apply A2; auto | apply B1; auto]. Qed.

  Lemma shuf_step_ok l ij l' : shuf_step fixed l ij = Ok l' -> Permutation l l' /\ fixed_kept l l'.
  Proof.
    destruct ij as [i j]. unfold shuf_step.
    destruct (nth_error l i) as [a|] eqn:Hi; [|discriminate].
    destruct (fixed a) eqn:Fa; [intros H; inversion H; subst; split; [reflexivity|apply fixed_kept_refl]|].
    destruct (nth_error l j) as [b|] eqn:Hj; [|discriminate].
    destruct (fixed b) eqn:Fb; [intros H; inversion H; subst; split; [reflexivity|apply fixed_kept_refl]|].
    intros H; inversion H; subst l'; clear H.
    assert (Li : (i < length l)%nat) by (apply nth_error_Some; congruence).
    assert (Lj : (j < length l)%nat) by (apply nth_error_Some; congruence).
    split; [apply swap_perm; assumption|]. split.
    - intros k x Hk Fx.
      assert (k <> i) by (intros ->; congruence). assert (k <> j) by (intros ->; congruence).
      rewrite upd_other by (rewrite ?upd_length; lia). rewrite upd_other by lia. exact Hk.
    - intros k y Hk Fy.
      destruct (Nat.eq_dec k i) as [->|Hki].
      { rewrite upd_same in Hk by (rewrite upd_length; lia). congruence. }
      rewrite upd_other in Hk by (rewrite ?upd_length; lia).
      destruct (Nat.eq_dec k j) as [->|Hkj].
      { rewrite upd_same in Hk by lia. congruence. }
      rewrite upd_other in Hk by lia. exact Hk.
  Qed.

  Lemma shuffle_ok swaps : forall l l', shuffle fixed swaps l = Ok l' -> Permutation l l' /\ fixed_kept l l'.
  Proof.
    induction swaps as [|s r IH]; intros l l' H; cbn [shuffle] in H.
    - inversion H; subst. split; [reflexivity|apply fixed_kept_refl].
    - destruct (shuf_step fixed l s) as [l1| |] eqn:E; cbn [bind] in H; try discriminate.
      destruct (shuf_step_ok _ _ _ E) as [P1 K1]. destruct (IH _ _ H) as [P2 K2].
      split; [eapply Permutation_trans; eassumption | eapply fixed_kept_trans; eassumption].
  Qed.

  (* the function fails only by indexing outside the slice, which rand.Shuffle(len(exts), ..) never does *)
  Lemma shuffle_total swaps : forall l, Forall (fun ij => (fst ij < length l)%nat /\ (snd ij < length l)%nat) swaps ->
    exists l', shuffle fixed swaps l = Ok l'.
  Proof.
    induction swaps as [|[i j] r IH]; intros l H; cbn [shuffle]; [eexists; reflexivity|].
    inversion H as [|? ? [Hi Hj] Hr]; subst. cbn [fst snd] in *.
    assert (exists l1, shuf_step fixed l (i, j) = Ok l1 /\ length l1 = length l) as (l1 & E & L).
    { unfold shuf_step. destruct (nth_error l i) as [a|] eqn:Ei; [|apply nth_error_None in Ei; lia].
      destruct (fixed a); [eexists; split; reflexivity|].
      destruct (nth_error l j) as [b|] eqn:Ej; [|apply nth_error_None in Ej; lia].
      destruct (fixed b); [eexists; split; reflexivity|].
      eexists; split; [reflexivity|]. rewrite upd_length; rewrite upd_length; lia. }
    rewrite E. cbn [bind]. apply IH. rewrite L. exact Hr.
  Qed.
End ShuffleP.

(* For every spec, Config and randomness: the extension values ApplyPreset produces are the spec's with the documented
   substitutions (preset_exts_rel), hence the lists the negotiation consults - as UConn.ApplyConfig stores them in the
   client's view - are the spec's lists with the connection's GREASE group / version value in the GREASE slots
   (view_fields).  Model/ParrotNeg.v's abs_view / abs_wire agree with the real view and wire on everything
   Complete.spec_ok looks at besides [synced].  No axioms. *)
From UV Require Import Base.Common Model.Wire Model.Varint Model.Ext Model.ExtSpec Model.Strict.
From UV Require Import Model.Padding Model.Marshal Model.ChMarshal Model.WriteToUConn Proofs.ComposeP.
From UV Require Model.Grease Proofs.GreaseP Model.Negotiate Model.KeyShare Model.Complete.
From UV Require Import Model.Preset Model.PresetOk Model.ParrotNeg.
From UV Require Proofs.ComposeW.
From Coq Require Import ZifyBool ZifyNat ZifyN.

(* ---- what ApplyPreset does to one extension of the spec ---- *)
Definition erel (sd : list N) (c : cfg) (s : sext) (e : ext) : Prop :=
  match s with
  | SGreaseECH su ci en pl => exists d, ech_init su ci en pl d = Ok e
  | SExt (ESNI host) => e = ESNI (if empty host then c_sni c else host)
  | SExt (EGREASE _ _) => exists x b, e = EGREASE x b
  | SExt (ESupportedCurves cs) => exists cs', Grease.map_res (Grease.regrease sd Grease.ssl_grease_group) cs = Ok cs' /\ e = ESupportedCurves cs'
  | SExt (EKeyShare ks) => exists keys ks' keys', preset_shares sd keys ks = Ok (ks', keys') /\ e = EKeyShare ks'
  | SExt (ESupportedVersions vs) => exists vs', Grease.map_res (Grease.regrease sd Grease.ssl_grease_version) vs = Ok vs' /\ e = ESupportedVersions vs'
  | SExt (EUtlsPreSharedKey se cl _ ids bs) => e = EUtlsPreSharedKey se cl (c_omit_psk c) ids bs
  | SExt (EFakePreSharedKey _ ids bs) => e = EFakePreSharedKey (c_omit_psk c) ids bs
  | SExt e0 => e = e0
  end.

Lemma preset_exts_rel sd c : forall ss seen keys echs es, preset_exts sd c seen keys echs ss = Ok es -> Forall2 (erel sd c) ss es.
Proof.
  induction ss as [|s r IH]; intros seen keys echs es H; cbn [preset_exts] in H.
  - inversion H. constructor.
  - assert (Hstep : forall seen' keys' echs' e', (do r' <- preset_exts sd c seen' keys' echs' r; Ok (e' :: r')) = Ok es ->
                     erel sd c s e' -> Forall2 (erel sd c) (s :: r) es).
    { intros seen' keys' echs' e' H' He. destruct (preset_exts sd c seen' keys' echs' r) as [r'|?|?] eqn:Er; cbn [bind] in H'; try discriminate.
      inversion H'; subst es. constructor; [exact He | exact (IH _ _ _ _ Er)]. }
    destruct s as [e|su ci en pl].
    + destruct e; try (eapply Hstep; [exact H | reflexivity]).
      * (* SNI *) eapply Hstep; [exact H|]. cbn [erel]. destruct (empty host) eqn:E; [reflexivity|]. destruct host; [discriminate|reflexivity].
      * (* curves *) destruct (Grease.map_res _ curves) as [cs'|?|?] eqn:Ec; cbn [bind] in H; try discriminate.
        eapply Hstep; [exact H|]. cbn [erel]. eauto.
      * (* GREASE *) destruct seen as [|[|seen]]; [| |discriminate].
        -- destruct (Grease.boring_grease sd Grease.ssl_grease_extension1) as [x|?|?]; cbn [bind] in H; try discriminate.
           eapply Hstep; [exact H|]. cbn [erel]. eauto.
        -- destruct (Grease.boring_grease sd Grease.ssl_grease_extension2) as [x|?|?]; cbn [bind] in H; try discriminate.
           eapply Hstep; [exact H|]. cbn [erel]. eauto.
      * (* key_share *) destruct (preset_shares sd keys shares) as [[ks' keys']|?|?] eqn:Ek; cbn [bind fst snd] in H; try discriminate.
        eapply Hstep; [exact H|]. cbn [erel]. eauto.
      * (* versions *) destruct (Grease.map_res _ versions) as [vs'|?|?] eqn:Ec; cbn [bind] in H; try discriminate.
        eapply Hstep; [exact H|]. cbn [erel]. eauto.
    + destruct echs as [|d echs']; [discriminate|]. destruct (ech_init su ci en pl d) as [e|?|?] eqn:Ee; cbn [bind] in H; try discriminate.
      eapply Hstep; [exact H|]. cbn [erel]. eauto.
Qed.

(* ---- re-GREASEing is the substitution of the slot value ---- *)
Lemma regrease_sub sd idx x : Grease.boring_grease sd idx = Ok x ->
  forall l l', Grease.map_res (Grease.regrease sd idx) l = Ok l' -> l' = map (sub x) l.
Proof.
  intros Hx. induction l as [|a l IH]; intros l' H; cbn [Grease.map_res] in H; [inversion H; reflexivity|].
  destruct (Grease.regrease sd idx a) as [y|?|?] eqn:Ey; cbn [bind] in H; try discriminate.
  destruct (Grease.map_res (Grease.regrease sd idx) l) as [r|?|?] eqn:Er; cbn [bind] in H; try discriminate.
  inversion H; subst l'. cbn [map]. rewrite <- (IH r eq_refl). f_equal.
  unfold Grease.regrease in Ey. unfold sub. destruct (Grease.is_grease a); [rewrite Hx in Ey|]; inversion Ey; reflexivity.
Qed.

Lemma shares_sub sd x : Grease.boring_grease sd Grease.ssl_grease_group = Ok x ->
  forall ks keys ks' keys', preset_shares sd keys ks = Ok (ks', keys') -> map fst ks' = map (sub x) (map fst ks).
Proof.
  intros Hx. induction ks as [|[g d] ks IH]; intros keys ks' keys' H; cbn [preset_shares] in H; [inversion H; reflexivity|].
  cbn [map fst]. unfold sub at 1. destruct (Grease.is_grease g).
  - rewrite Hx in H. cbn [bind] in H. destruct (preset_shares sd keys ks) as [[r k2]|?|?] eqn:Er; cbn [bind fst snd] in H; try discriminate.
    inversion H; subst. cbn [map fst]. rewrite (IH _ _ _ Er). reflexivity.
  - destruct (1 <? blen d).
    + destruct (preset_shares sd keys ks) as [[r k2]|?|?] eqn:Er; cbn [bind fst snd] in H; try discriminate.
      inversion H; subst. cbn [map fst]. rewrite (IH _ _ _ Er). reflexivity.
    + destruct (key_size g); [|discriminate]. destruct keys as [|k keys1]; [discriminate|].
      destruct (negb (blen k =? n)); [discriminate|].
      destruct (preset_shares sd keys1 ks) as [[r k2]|?|?] eqn:Er; cbn [bind fst snd] in H; try discriminate.
      inversion H; subst. cbn [map fst]. rewrite (IH _ _ _ Er). reflexivity.
Qed.

Lemma ech_init_form su ci en pl d e : ech_init su ci en pl d = Ok e -> exists a b c' x y, e = EGREASEECH a b c' x y.
Proof.
  unfold ech_init. intros H.
  destruct (match ci with [] => Ok (ed_cfg_byte d) | _ => of_opt E_FRESH (nth_error ci (ed_cfg_idx d)) end) as [cfgid|c0|c0]; cbn [bind] in H; try discriminate.
  destruct (match su with [] => Ok (1, 1) | _ => of_opt E_FRESH (nth_error su (ed_suite_idx d)) end) as [[kdf aead]|c0|c0]; cbn [bind] in H; try discriminate.
  destruct (match pl with [] => Ok 128 | _ => of_opt E_FRESH (nth_error pl (ed_plen_idx d)) end) as [plen|c0|c0]; cbn [bind] in H; try discriminate.
  destruct (negb (ech_aead_ok aead)); [discriminate|].
  destruct (negb (blen (ed_payload d) =? plen + ECH_TAG_LEN)); [discriminate|].
  destruct (empty en && negb (blen (ed_enc d) =? 32)); [discriminate|].
  inversion H. repeat eexists.
Qed.

(* ---- the four consulted lists, extension by extension ---- *)
Section Getters.
  Variables (sd : list N) (c : cfg) (gg gv : N).
  Hypothesis Hgg : Grease.boring_grease sd Grease.ssl_grease_group = Ok gg.
  Hypothesis Hgv : Grease.boring_grease sd Grease.ssl_grease_version = Ok gv.

  Lemma erel_getters s e : erel sd c s e ->
    get_curves e = option_map (map (sub gg)) (s_curves s)
    /\ option_map (map fst) (get_shares e) = option_map (fun l => map (sub gg) (map fst l)) (s_shares s)
    /\ get_versions e = option_map (map (sub gv)) (s_versions s)
    /\ get_ccalgs e = s_ccalgs s
    /\ is_versions_ext e = (match s_versions s with Some _ => true | None => false end)
    /\ is_ccert_ext e = (match s_ccalgs s with Some _ => true | None => false end).
  Proof.
    intros H. destruct s as [e0|su ci en pl].
    - destruct e0; cbn [erel] in H;
      try (subst e; repeat split; reflexivity).
      + destruct H as (cs' & Hm & ->). rewrite (regrease_sub _ _ _ Hgg _ _ Hm). repeat split; reflexivity.
      + destruct H as (x & b & ->). repeat split; reflexivity.
      + destruct H as (keys & ks' & keys' & Hp & ->). cbn [get_shares option_map s_shares]. rewrite (shares_sub _ _ Hgg _ _ _ _ Hp). repeat split; reflexivity.
      + destruct H as (vs' & Hm & ->). rewrite (regrease_sub _ _ _ Hgv _ _ Hm). repeat split; reflexivity.
    - cbn [erel] in H. destruct H as (d & Hd). destruct (ech_init_form _ _ _ _ _ _ Hd) as (a & b & c' & x & y & ->). repeat split; reflexivity.
  Qed.

  (* last-writer folds over the spec and over ApplyPreset's output agree *)
  Lemma fold_rel {A B} (getS : sext -> option A) (getE : ext -> option B) (f : A -> B) :
    (forall s e, erel sd c s e -> getE e = option_map f (getS s)) ->
    forall ss es, Forall2 (erel sd c) ss es -> forall a, last_of getE es (f a) = f (lastS getS ss a).
  Proof.
    intros Hg ss es H. induction H as [|s e ss es Hse _ IH]; intros a; [reflexivity|].
    unfold last_of, lastS in *. cbn [fold_left]. rewrite (Hg s e Hse). destruct (getS s) as [a1|]; cbn [option_map]; apply IH.
  Qed.

  Lemma existsb_rel (pS : sext -> bool) (pE : ext -> bool) :
    (forall s e, erel sd c s e -> pE e = pS s) -> forall ss es, Forall2 (erel sd c) ss es -> existsb pE es = existsb pS ss.
  Proof.
    intros Hp ss es H. induction H as [|s e ss es Hse _ IH]; [reflexivity|]. cbn [existsb]. rewrite (Hp s e Hse), IH. reflexivity.
  Qed.
End Getters.

(* ---- optional folds ---- *)
Lemma lastS_opt {A} (get : sext -> option A) ss : forall init,
  lastS get ss init = match lastS (fun s => option_map Some (get s)) ss None with Some a => a | None => init end.
Proof.
  unfold lastS. assert (G : forall (o : option A) init,
    fold_left (fun acc s => match get s with Some a => a | None => acc end) ss (match o with Some a => a | None => init end)
    = match fold_left (fun acc s => match option_map Some (get s) with Some a => a | None => acc end) ss o with Some a => a | None => init end).
  { induction ss as [|s r IH]; intros o init; [reflexivity|]. cbn [fold_left]. destruct (get s) as [a|] eqn:E; cbn [option_map].
    - apply (IH (Some a) init).
    - apply (IH o init). }
  intros init. exact (G None init).
Qed.

Lemma lastS_opt_some {A} (get : sext -> option A) ss :
  (match lastS (fun s => option_map Some (get s)) ss None with Some _ => true | None => false end)
  = existsb (fun s => match get s with Some _ => true | None => false end) ss.
Proof.
  unfold lastS. assert (G : forall o : option A,
    (match fold_left (fun acc s => match option_map Some (get s) with Some a => a | None => acc end) ss o with Some _ => true | None => false end)
    = (match o with Some _ => true | None => false end) || existsb (fun s => match get s with Some _ => true | None => false end) ss).
  { induction ss as [|s r IH]; intros o; cbn [fold_left existsb]; [rewrite orb_false_r; reflexivity|].
    rewrite IH. destruct (get s); cbn [option_map]; destruct o; reflexivity. }
  rewrite (G None). reflexivity.
Qed.

Lemma last_of_opt {A} (get : ext -> option A) es : forall init,
  last_of get es init = match last_of (fun e => option_map Some (get e)) es None with Some a => a | None => init end.
Proof.
  unfold last_of. assert (G : forall (o : option A) init,
    fold_left (fun acc e => match get e with Some a => a | None => acc end) es (match o with Some a => a | None => init end)
    = match fold_left (fun acc e => match option_map Some (get e) with Some a => a | None => acc end) es o with Some a => a | None => init end).
  { induction es as [|e r IH]; intros o init; [reflexivity|]. cbn [fold_left]. destruct (get e) as [a|] eqn:E; cbn [option_map].
    - apply (IH (Some a) init).
    - apply (IH o init). }
  intros init. exact (G None init).
Qed.

(* ---- what ApplyPreset returns, taken apart ---- *)
Lemma in_grease16 sd idx x : Grease.boring_grease sd idx = Ok x -> In x grease16.
Proof.
  intros H. destruct (GreaseP.boring_grease_form sd idx x H) as (_ & w & Hw & ->). unfold grease16. apply in_map. apply nrange_In. exact Hw.
Qed.

Lemma apply_preset_inv sp c fr h es : apply_preset sp c fr = Ok (h, es) ->
  exists mn mx sd gg gv, set_tls_vers sp = Ok (mn, mx) /\ mn <= mx /\ h_vers h = legacy_of mx /\ h_comp h = [0]
    /\ Grease.boring_grease sd Grease.ssl_grease_group = Ok gg /\ Grease.boring_grease sd Grease.ssl_grease_version = Ok gv
    /\ In gg grease16 /\ In gv grease16 /\ Forall2 (erel sd c) (sp_exts sp) es.
Proof.
  unfold apply_preset. intros H.
  destruct (set_tls_vers sp) as [[mn mx]| |] eqn:Ev; cbn [bind fst snd] in H; try discriminate.
  destruct (hello_vers mn mx) as [v| |] eqn:Eh; cbn [bind] in H; try discriminate.
  destruct (blen (f_random fr) =? 32); cbn [negb] in H; [|discriminate].
  destruct (Grease.grease_seed (f_grease fr)) as [sd| |] eqn:Eg; cbn [bind] in H; try discriminate.
  destruct (Grease.map_res (Grease.regrease sd Grease.ssl_grease_cipher) (sp_suites sp)) as [su| |]; cbn [bind] in H; try discriminate.
  destruct (blen (f_sid fr) =? 32); cbn [negb] in H; [|discriminate].
  destruct (preset_exts sd c 0 (f_keys fr) (f_ech fr) (sp_exts sp)) as [es0| |] eqn:Ee; cbn [bind] in H; try discriminate.
  destruct (sync_session_exts es0) as [u| |]; cbn [bind] in H; try discriminate.
  inversion H; subst h es; clear H.
  destruct (GreaseP.grease_seed_shape _ _ Eg) as (c0 & g0 & e1 & e2 & v0 & -> & _).
  unfold hello_vers in Eh. destruct (mx <? mn) eqn:Em; [discriminate|]. inversion Eh; subst v.
  exists mn, mx, [c0; g0; e1; e2; v0], (Grease.grease_word g0), (Grease.grease_word v0).
  assert (G1 : Grease.boring_grease [c0; g0; e1; e2; v0] Grease.ssl_grease_group = Ok (Grease.grease_word g0)) by reflexivity.
  assert (G2 : Grease.boring_grease [c0; g0; e1; e2; v0] Grease.ssl_grease_version = Ok (Grease.grease_word v0)) by reflexivity.
  repeat split; try reflexivity; try assumption.
  - lia.
  - exact (in_grease16 _ _ _ G1).
  - exact (in_grease16 _ _ _ G2).
  - exact (preset_exts_rel _ _ _ _ _ _ _ Ee).
Qed.

(* ---- spec_rest looks at these fields only ---- *)
Lemma spec_rest_ext fixed e ks m v v' w w' :
  Negotiate.cv_shares v = Negotiate.cv_shares v' -> Negotiate.cv_vmin v = Negotiate.cv_vmin v' ->
  Negotiate.cv_vmax v = Negotiate.cv_vmax v' -> Negotiate.cv_ech v = Negotiate.cv_ech v' ->
  Negotiate.cv_sv v = Negotiate.cv_sv v' -> Negotiate.cv_mlkem v = Negotiate.cv_mlkem v' ->
  Negotiate.w_has_sv w = Negotiate.w_has_sv w' -> (Negotiate.w_has_sv w' = true -> Negotiate.w_sv w = Negotiate.w_sv w') ->
  Negotiate.w_legacy w = Negotiate.w_legacy w' ->
  spec_rest fixed e v ks m w = spec_rest fixed e v' ks m w'.
Proof.
  intros H1 H2 H3 H4 H5 H6 H7 H8 H9.
  unfold spec_rest, Complete.versions_ok, Complete.keys_ok, Negotiate.advertised, Negotiate.offers13, Negotiate.version_offered,
    Negotiate.offered_max, Negotiate.max_version, Negotiate.client_versions.
  rewrite H1, H2, H3, H4, H5, H6, H7, H9. destruct (Negotiate.w_has_sv w'); [rewrite (H8 eq_refl); reflexivity | reflexivity].
Qed.

(* ---- the real view of a hello built from a spec (no session in play) ---- *)
Section Real.
  Variables (sp : spec) (c : cfg) (fr : fresh) (h : hello_hdr) (es : list ext).
  Hypothesis Ha : apply_preset sp c fr = Ok (h, es).
  Variables (mn mx : N) (env : wenv) (marsh : res bytes) (s' : uconn_state) (ks : KeyShare.kshape).
  Hypothesis Hv : set_tls_vers sp = Ok (mn, mx).
  Hypothesis Hcfg : apply_config env marsh (ComposeW.preset_state h mn mx) es = Ok s'.
  Hypothesis Hcache : we_cache_session env = false.

  Let v := view_of (finish false es s') es (KeyShare.sh_ecdhe ks) (KeyShare.sh_mlkem ks) 0.

  Lemma view_fields : exists gg gv, In gg grease16 /\ In gv grease16
    /\ Negotiate.cv_curves v = abs_curves sp gg /\ Negotiate.cv_shares v = abs_shares sp gg
    /\ Negotiate.cv_sv v = abs_sv sp mn mx gv
    /\ Negotiate.cv_vmin v = mn /\ Negotiate.cv_vmax v = mx /\ Negotiate.cv_ech v = false
    /\ Negotiate.cv_mlkem v = KeyShare.sh_mlkem ks /\ Negotiate.cv_psk v = 0
    /\ Negotiate.cv_ccext v = has_sccert sp /\ h_vers h = legacy_of mx /\ mn <= mx
    /\ existsb is_versions_ext es = (match opt_versions sp with Some _ => true | None => false end)
    /\ (forall vs, opt_versions sp = Some vs -> Negotiate.cv_sv v = map (sub gv) vs).
  Proof.
    destruct (apply_preset_inv _ _ _ _ _ Ha) as (mn' & mx' & sd & gg & gv & Hv' & Hle & Hvers & _ & Hgg & Hgv & Ig & Iv & Hrel).
    rewrite Hv in Hv'. inversion Hv'; subst mn' mx'. exists gg, gv.
    destruct (apply_config_fields _ _ _ _ _ Hcfg) as (C & A1 & A2 & _ & _ & A5 & A6).
    destruct C as [Ch Cmin Cmax Cech].
    assert (Hex : existsb is_versions_ext es = (match opt_versions sp with Some _ => true | None => false end)).
    { unfold opt_versions. rewrite lastS_opt_some. apply (existsb_rel sd c); [|exact Hrel]. intros s e He. apply (erel_getters sd c gg gv Hgg Hgv s e He). }
    assert (Hsv : Negotiate.cv_sv v = abs_sv sp mn mx gv).
    { unfold v, view_of, finish. cbn [Negotiate.cv_sv]. unfold abs_sv. rewrite Hex in A5.
      destruct (opt_versions sp) as [vs|] eqn:Eo.
      - rewrite A5, last_of_opt.
        pose proof (fold_rel sd c (fun s => option_map Some (s_versions s)) (fun e => option_map Some (get_versions e)) (option_map (map (sub gv)))) as F.
        specialize (F ltac:(intros s e He; destruct (erel_getters sd c gg gv Hgg Hgv s e He) as (_ & _ & G & _); rewrite G; destruct (s_versions s); reflexivity)).
        specialize (F _ _ Hrel None). cbn [option_map] in F. rewrite F. unfold opt_versions in Eo. rewrite Eo. reflexivity.
      - destruct A5 as [A5 _]. rewrite A5. cbn [ComposeW.preset_state us_hdr us_cfg_min us_cfg_max us_cfg_ech]. rewrite Hvers. reflexivity. }
    assert (F1 : Negotiate.cv_curves v = abs_curves sp gg).
    { unfold v, view_of, finish. cbn [Negotiate.cv_curves]. rewrite A1.
      exact (fold_rel sd c s_curves get_curves (map (sub gg)) ltac:(intros s e He; apply (erel_getters sd c gg gv Hgg Hgv s e He)) _ _ Hrel []). }
    assert (F2 : Negotiate.cv_shares v = abs_shares sp gg).
    { unfold v, view_of, finish. cbn [Negotiate.cv_shares]. rewrite A2. rewrite <- (last_of_map (map fst) get_shares es []).
      exact (fold_rel sd c s_shares (fun e => option_map (map fst) (get_shares e)) (fun l => map (sub gg) (map fst l))
               ltac:(intros s e He; apply (erel_getters sd c gg gv Hgg Hgv s e He)) _ _ Hrel []). }
    assert (F3 : Negotiate.cv_vmin v = mn) by (unfold v, view_of, finish; cbn [Negotiate.cv_vmin]; rewrite Cmin; reflexivity).
    assert (F4 : Negotiate.cv_vmax v = mx) by (unfold v, view_of, finish; cbn [Negotiate.cv_vmax]; rewrite Cmax; reflexivity).
    assert (F5 : Negotiate.cv_ech v = false) by (unfold v, view_of, finish; cbn [Negotiate.cv_ech]; rewrite Cech; reflexivity).
    assert (F6 : Negotiate.cv_mlkem v = KeyShare.sh_mlkem ks) by reflexivity.
    assert (F7 : Negotiate.cv_psk v = 0) by (unfold v, view_of, finish; cbn [Negotiate.cv_psk]; rewrite (A6 Hcache); reflexivity).
    assert (F8 : Negotiate.cv_ccext v = has_sccert sp).
    { unfold v, view_of, finish. cbn [Negotiate.cv_ccext]. unfold has_sccert.
      apply (existsb_rel sd c); [|exact Hrel]. intros s e He. apply (erel_getters sd c gg gv Hgg Hgv s e He). }
    assert (F9 : forall vs, opt_versions sp = Some vs -> Negotiate.cv_sv v = map (sub gv) vs).
    { intros vs Hvs. rewrite Hsv. unfold abs_sv. rewrite Hvs. reflexivity. }
    repeat split; assumption.
  Qed.
End Real.

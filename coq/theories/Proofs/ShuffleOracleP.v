(* C03 item (c): the shuffle-aware oracle of Model/ParrotSpec.v (shuffle_match: re-ARRANGE the table entry's extension list
   after the wire order, then compare in sequence) accepts every hello built from a rearrangement the Chrome shuffle can
   produce - soundness, i.e. the oracle raises no false alarm on a shuffling parrot.
   Needs of the table entry [l]: its non-fixed entries form one contiguous block between the fixed ones (GREASE at the
   front, GREASE / padding / pre_shared_key at the back: [contigb], true for all 38 parrots by computation), types of the
   non-GREASE entries pairwise distinct and none a GREASE value (part of PresetOk.preset_ok).  No axioms. *)
From Coq Require Import Permutation.
From UV Require Import Base.Common Model.Wire Model.Ext Model.ExtSpec.
From UV Require Model.Grease.
From UV Require Import Model.Preset Model.ParrotSpec.
From Coq Require Import ZifyBool ZifyNat ZifyN.

Definition must (c : cfg) (s : sext) : bool := match presence_of c s with Must => true | _ => false end.
Definition mustnot (c : cfg) (s : sext) : bool := match presence_of c s with MustNot => true | _ => false end.
Definition nonfixed (s : sext) : bool := negb (fixedb s).

Lemma nonfixed_presence c s : fixedb s = false -> must c s = negb (mustnot c s).
Proof. unfold must, mustnot. destruct s as [e|]; [|reflexivity]. destruct e; cbn; intros H; try discriminate; try reflexivity. destruct (empty host && empty (c_sni c)); reflexivity. Qed.

Lemma fixed_not_mustnot c s : fixedb s = true -> mustnot c s = false.
Proof. unfold mustnot. destruct s as [e|]; [|discriminate]. destruct e; cbn; intros H; try discriminate; reflexivity. Qed.

Lemma ext_matches_id c s w : fixedb s = false -> ext_matches c s w = true -> fst w = sext_id s.
Proof.
  destruct w as [id body]. destruct s as [e|su ci en pl]; cbn [ext_matches sext_id fst].
  - destruct e; cbn [fixedb ext_id]; intros Hf H; try discriminate; apply andb_true_iff in H; destruct H as [H _]; apply N.eqb_eq in H; exact H.
  - intros _ H. apply andb_true_iff in H. destruct H as [H _]. apply N.eqb_eq in H. exact H.
Qed.

Definition fixed_id (i : N) : bool := Grease.is_grease i || (i =? ID_PADDING) || (i =? ID_PSK).

Lemma ext_matches_fixed c s w : fixedb s = true -> ext_matches c s w = true -> fixed_id (fst w) = true.
Proof.
  destruct w as [id body]. destruct s as [e|]; [|discriminate]. unfold fixed_id. cbn [fst].
  destruct e; cbn [fixedb ext_matches]; intros Hf H; try discriminate.
  - apply andb_true_iff in H. destruct H as [H _]. rewrite H. reflexivity.
  - apply andb_true_iff in H. destruct H as [H _]. rewrite H. rewrite orb_true_r. reflexivity.
  - rewrite H. rewrite !orb_true_r. reflexivity.
  - rewrite H. rewrite !orb_true_r. reflexivity.
Qed.

(* entries that must not be on the wire play no role in the comparison *)
Lemma seq_match_drop c L : forall ws, seq_match c L ws = seq_match c (filter (fun s => negb (mustnot c s)) L) ws.
Proof.
  induction L as [|s L IH]; intros ws; [reflexivity|]. cbn [filter]. unfold mustnot at 1. cbn [seq_match].
  destruct (presence_of c s) eqn:E; cbn [negb seq_match]; rewrite ?E.
  - destruct ws; [reflexivity|]. rewrite IH. reflexivity.
  - apply IH.
  - destruct ws; rewrite !IH; reflexivity.
Qed.

(* ---- what the wire order says about the non-fixed entries ---- *)
Lemma filter_none {A} (f : A -> bool) l : (forall x, In x l -> f x = false) -> filter f l = [].
Proof. induction l as [|x r IH]; intros H; [reflexivity|]. cbn [filter]. rewrite (H x (or_introl eq_refl)). apply IH. intros y Hy. apply H. right. exact Hy. Qed.

Lemma pick_in nf s : NoDup (map sext_id nf) -> In s nf -> filter (fun x => sext_id x =? sext_id s) nf = [s].
Proof.
  induction nf as [|x r IH]; intros Hnd Hin; [destruct Hin|]. cbn [map] in Hnd. inversion Hnd as [|? ? Hn Hnd']; subst. cbn [filter].
  destruct Hin as [->|Hin].
  - rewrite N.eqb_refl. f_equal. apply filter_none. intros y Hy. apply N.eqb_neq. intros E. apply Hn. rewrite <- E. apply in_map. exact Hy.
  - destruct (sext_id x =? sext_id s) eqn:E; [|apply IH; assumption].
    exfalso. apply Hn. apply N.eqb_eq in E. rewrite E. apply in_map. exact Hin.
Qed.

Lemma pick_fixed nf i : (forall s, In s nf -> fixed_id (sext_id s) = false) -> fixed_id i = true -> filter (fun x => sext_id x =? i) nf = [].
Proof.
  intros H Hi. apply filter_none. intros x Hx. apply N.eqb_neq. intros E. rewrite <- E in Hi. rewrite (H x Hx) in Hi. discriminate.
Qed.

Lemma may_is_fixed c s : presence_of c s = May -> fixedb s = true.
Proof. destruct s as [e|]; [|discriminate]. destruct e; cbn; intros H; try discriminate; try reflexivity. destruct (empty host && empty (c_sni c)); discriminate. Qed.

Lemma seen_of_match c nf : NoDup (map sext_id nf) -> (forall s, In s nf -> fixed_id (sext_id s) = false) ->
  forall L ws, (forall s, In s L -> fixedb s = false -> In s nf) -> seq_match c L ws = true ->
    flat_map (fun w => filter (fun x => sext_id x =? fst w) nf) ws = filter (fun s => nonfixed s && must c s) L
    /\ (forall w, In w ws -> fixed_id (fst w) = true \/ exists s, In s L /\ nonfixed s = true /\ must c s = true /\ fst w = sext_id s)
    /\ (forall s, In s L -> nonfixed s = true -> must c s = true -> In (sext_id s) (map fst ws)).
Proof.
  intros Hnd Hids. induction L as [|s L IH]; intros ws Hsub H; cbn [seq_match] in H.
  - destruct ws; [|discriminate]. repeat split; [intros w []|intros s []].
  - assert (Hsub' : forall x, In x L -> fixedb x = false -> In x nf) by (intros x Hx; apply Hsub; right; exact Hx).
    assert (Lift : forall ws' : list (N * bytes), (forall w, In w ws' -> fixed_id (fst w) = true \/ exists x, In x L /\ nonfixed x = true /\ must c x = true /\ fst w = sext_id x) ->
                   forall w, In w ws' -> fixed_id (fst w) = true \/ exists x, In x (s :: L) /\ nonfixed x = true /\ must c x = true /\ fst w = sext_id x).
    { intros ws' G w Hw. destruct (G w Hw) as [G1|(x & X1 & X2)]; [left; exact G1|right; exists x; split; [right; exact X1|exact X2]]. }
    cbn [filter]. unfold must at 1. destruct (presence_of c s) eqn:Ep.
    + (* Must *) destruct ws as [|w ws']; [discriminate|]. apply andb_true_iff in H. destruct H as [Hm Hr].
      destruct (IH ws' Hsub' Hr) as (I1 & I2 & I3). cbn [flat_map map]. rewrite andb_true_r. unfold nonfixed at 1.
      destruct (fixedb s) eqn:Ef; cbn [negb].
      * rewrite (pick_fixed nf (fst w) Hids (ext_matches_fixed c s w Ef Hm)). cbn [app]. split; [exact I1|]. split.
        -- intros w' [<-|Hw']; [left; exact (ext_matches_fixed c s w Ef Hm) | apply (Lift ws' I2); exact Hw'].
        -- intros x [<-|Hx] Hn; [unfold nonfixed in Hn; rewrite Ef in Hn; discriminate|]. intros Hmx. right. apply I3; assumption.
      * pose proof (ext_matches_id c s w Ef Hm) as Hid. rewrite Hid. rewrite (pick_in nf s Hnd (Hsub s (or_introl eq_refl) Ef)).
        cbn [app]. rewrite I1. split; [reflexivity|]. split.
        -- intros w' [<-|Hw']; [|apply (Lift ws' I2); exact Hw'].
           right. exists s. split; [left; reflexivity|]. unfold nonfixed, must. rewrite Ef, Ep. auto.
        -- intros x [<-|Hx] Hn Hmx; [left; reflexivity | right; apply I3; assumption].
    + (* MustNot *) rewrite andb_false_r. destruct (IH ws Hsub' H) as (I1 & I2 & I3). split; [exact I1|]. split.
      * apply Lift. exact I2.
      * intros x [<-|Hx] Hn Hmx; [unfold must in Hmx; rewrite Ep in Hmx; discriminate | apply I3; assumption].
    + (* May: a fixed entry *) rewrite andb_false_r. pose proof (may_is_fixed c s Ep) as Ef.
      assert (Hskip : forall ws0 : list (N * bytes), seq_match c L ws0 = true ->
                flat_map (fun w => filter (fun x => sext_id x =? fst w) nf) ws0 = filter (fun s => nonfixed s && must c s) L
                /\ (forall w, In w ws0 -> fixed_id (fst w) = true \/ exists x, In x (s :: L) /\ nonfixed x = true /\ must c x = true /\ fst w = sext_id x)
                /\ (forall x, In x (s :: L) -> nonfixed x = true -> must c x = true -> In (sext_id x) (map fst ws0))).
      { intros ws0 H0. destruct (IH ws0 Hsub' H0) as (I1 & I2 & I3). split; [exact I1|]. split; [apply Lift; exact I2|].
        intros x [<-|Hx] Hn Hmx; [unfold must in Hmx; rewrite Ep in Hmx; discriminate | apply I3; assumption]. }
      destruct ws as [|w ws']; [apply Hskip; exact H|]. apply orb_true_iff in H. destruct H as [H|H]; [|apply Hskip; exact H].
      apply andb_true_iff in H. destruct H as [Hm Hr]. destruct (IH ws' Hsub' Hr) as (I1 & I2 & I3).
      cbn [flat_map map]. rewrite (pick_fixed nf (fst w) Hids (ext_matches_fixed c s w Ef Hm)). cbn [app]. split; [exact I1|]. split.
      * intros w' [<-|Hw']; [left; exact (ext_matches_fixed c s w Ef Hm) | apply (Lift ws' I2); exact Hw'].
      * intros x [<-|Hx] Hn Hmx; [unfold must in Hmx; rewrite Ep in Hmx; discriminate | right; apply I3; assumption].
Qed.

(* ---- expect_exts only touches GREASE entries ---- *)
Definition is_sg (s : sext) : bool := match s with SExt (EGREASE _ _) => true | _ => false end.

Lemma expect_nog k X : forallb (fun s => negb (is_sg s)) X = true -> expect_exts k X = X.
Proof.
  revert k. induction X as [|s X IH]; intros k H; [reflexivity|]. cbn [forallb] in H. apply andb_true_iff in H. destruct H as [Hs HX].
  destruct s as [e|]; [|cbn [expect_exts]; rewrite IH; [reflexivity|exact HX]].
  destruct e; cbn [expect_exts]; try (rewrite IH; [reflexivity|exact HX]). discriminate.
Qed.

Definition ng (l : list sext) : nat := length (filter is_sg l).

Lemma expect_app A : forall k B, expect_exts k (A ++ B) = expect_exts k A ++ expect_exts (k + ng A) B.
Proof.
  induction A as [|s A IH]; intros k B; [cbn; rewrite Nat.add_0_r; reflexivity|]. unfold ng. cbn [app filter].
  destruct s as [e|]; [|cbn [expect_exts is_sg app]; rewrite IH; reflexivity].
  destruct e; cbn [expect_exts is_sg app length]; rewrite IH; unfold ng; try reflexivity.
  f_equal. f_equal. f_equal. lia.
Qed.

Lemma nonfixed_nog X : forallb nonfixed X = true -> forallb (fun s => negb (is_sg s)) X = true /\ ng X = O.
Proof.
  induction X as [|s X IH]; intros H; [split; reflexivity|]. cbn [forallb] in H. apply andb_true_iff in H. destruct H as [Hs HX].
  destruct (IH HX) as [I1 I2]. unfold ng in *. cbn [forallb filter].
  assert (G : is_sg s = false) by (destruct s as [e|]; [|reflexivity]; destruct e; try reflexivity; discriminate).
  rewrite G, I1. cbn. split; [reflexivity|exact I2].
Qed.

Lemma expect_fixed k A : forallb fixedb A = true -> forallb fixedb (expect_exts k A) = true.
Proof.
  revert k. induction A as [|s A IH]; intros k H; [reflexivity|]. cbn [forallb] in H. apply andb_true_iff in H. destruct H as [Hs HA].
  destruct s as [e|]; [|discriminate]. destruct e; cbn [expect_exts forallb]; try discriminate; cbn [fixedb]; rewrite IH; try reflexivity; exact HA.
Qed.

(* ---- refill over a contiguous block ---- *)
Lemma refill_fixed A pool : forallb fixedb A = true -> refill A pool = A.
Proof.
  induction A as [|s A IH]; intros H; [reflexivity|]. cbn [forallb] in H. apply andb_true_iff in H. destruct H as [Hs HA].
  cbn [refill]. rewrite Hs, (IH HA). reflexivity.
Qed.

Lemma refill_contig F1 NF F2 pool : forallb fixedb F1 = true -> forallb nonfixed NF = true -> forallb fixedb F2 = true ->
  length pool = length NF -> refill (F1 ++ NF ++ F2) pool = F1 ++ pool ++ F2.
Proof.
  intros H1 H2 H3. revert pool. induction F1 as [|s F1 IH]; intros pool Hl.
  - cbn [app]. revert pool Hl. induction NF as [|x NF IHN]; intros pool Hl.
    + destruct pool; [|discriminate]. cbn [app]. apply refill_fixed. exact H3.
    + cbn [forallb] in H2. apply andb_true_iff in H2. destruct H2 as [Hx HN]. destruct pool as [|y pool]; [discriminate|].
      cbn [app refill]. unfold nonfixed in Hx. apply negb_true_iff in Hx. rewrite Hx. f_equal. apply IHN; [exact HN|]. cbn [length] in Hl. lia.
  - cbn [forallb] in H1. apply andb_true_iff in H1. destruct H1 as [Hs HF]. cbn [app refill]. rewrite Hs. f_equal. apply IH; assumption.
Qed.

(* ---- a rearrangement that keeps the fixed entries in place, over a contiguous non-fixed block ---- *)
Definition kept (l l' : list sext) : Prop :=
  (forall k x, nth_error l k = Some x -> fixedb x = true -> nth_error l' k = Some x)
  /\ (forall k y, nth_error l' k = Some y -> fixedb y = true -> nth_error l k = Some y).

Lemma kept_tail x l y l' : kept (x :: l) (y :: l') -> kept l l'.
Proof. intros [K1 K2]. split; intros k z H F; [apply (K1 (S k) z H F) | apply (K2 (S k) z H F)]. Qed.

Lemma kept_prefix F1 : forall R l', kept (F1 ++ R) l' -> forallb fixedb F1 = true -> exists R', l' = F1 ++ R' /\ kept R R'.
Proof.
  induction F1 as [|x F1 IH]; intros R l' K H; [exists l'; split; [reflexivity|exact K]|].
  cbn [forallb] in H. apply andb_true_iff in H. destruct H as [Hx HF]. cbn [app] in K.
  destruct K as [K1 K2]. pose proof (K1 0%nat x eq_refl Hx) as H0. destruct l' as [|y l']; [discriminate|]. cbn in H0. inversion H0; subst y.
  destruct (IH R l' (kept_tail x _ x _ (conj K1 K2)) HF) as (R' & -> & KR). exists R'. split; [reflexivity|exact KR].
Qed.

Lemma kept_suffix NF : forall F2 M', kept (NF ++ F2) M' -> length M' = length (NF ++ F2) -> forallb fixedb F2 = true ->
  exists NF', M' = NF' ++ F2 /\ length NF' = length NF.
Proof.
  induction NF as [|x NF IH]; intros F2 M' K Hl HF.
  - cbn [app] in *. destruct (kept_prefix F2 [] M') as (R' & HM & _); [rewrite app_nil_r; exact K | exact HF|].
    subst M'. rewrite app_length in Hl. destruct R'; [|cbn [length] in Hl; lia]. rewrite app_nil_r. exists []. split; reflexivity.
  - cbn [app length] in Hl. destruct M' as [|y M']; [discriminate|]. cbn [app] in K.
    destruct (IH F2 M' (kept_tail _ _ _ _ K) ltac:(cbn [length] in Hl; lia) HF) as (NF' & -> & Hn).
    exists (y :: NF'). split; [reflexivity|cbn [length]; lia].
Qed.

Fixpoint takew {A} (f : A -> bool) (l : list A) : list A := match l with x :: r => if f x then x :: takew f r else [] | [] => [] end.
Fixpoint dropw {A} (f : A -> bool) (l : list A) : list A := match l with x :: r => if f x then dropw f r else l | [] => [] end.
Lemma takew_dropw {A} (f : A -> bool) l : l = takew f l ++ dropw f l /\ forallb f (takew f l) = true.
Proof. induction l as [|x r [IH1 IH2]]; [split; reflexivity|]. cbn [takew dropw]. destruct (f x) eqn:E; [|split; reflexivity]. cbn [app forallb]. rewrite E, IH2. split; [f_equal; exact IH1|reflexivity]. Qed.

(* the non-fixed entries form one block *)
Definition contigb (l : list sext) : bool := forallb fixedb (dropw nonfixed (dropw fixedb l)).

Lemma contig_split l : contigb l = true -> exists F1 NF F2, l = F1 ++ NF ++ F2
  /\ forallb fixedb F1 = true /\ forallb nonfixed NF = true /\ forallb fixedb F2 = true.
Proof.
  intros H. destruct (takew_dropw fixedb l) as [E1 H1]. destruct (takew_dropw nonfixed (dropw fixedb l)) as [E2 H2].
  exists (takew fixedb l), (takew nonfixed (dropw fixedb l)), (dropw nonfixed (dropw fixedb l)).
  split; [rewrite <- E2; exact E1|]. auto.
Qed.

Lemma filter_all {A} (f : A -> bool) l : forallb f l = true -> filter f l = l.
Proof. induction l as [|x r IH]; [reflexivity|]. cbn [forallb filter]. intros H. apply andb_true_iff in H. destruct H as [Hx Hr]. rewrite Hx, (IH Hr). reflexivity. Qed.
Lemma filter_nonfixed_fixed l : forallb fixedb l = true -> filter nonfixed l = [].
Proof. intros H. apply filter_none. intros x Hx. rewrite forallb_forall in H. unfold nonfixed. rewrite (H x Hx). reflexivity. Qed.

Lemma filter_perm_len {A} (f : A -> bool) l l' : Permutation l l' -> length (filter f l) = length (filter f l').
Proof.
  induction 1 as [|x l l' _ IH|x y l|l1 l2 l3 _ IH1 _ IH2]; cbn [filter]; try reflexivity.
  - destruct (f x); cbn [length]; rewrite IH; reflexivity.
  - destruct (f x), (f y); reflexivity.
  - congruence.
Qed.

Lemma partition_len {A} (f g : A -> bool) l : (forall x, In x l -> f x = negb (g x)) -> (length (filter f l) + length (filter g l) = length l)%nat.
Proof.
  induction l as [|x r IH]; intros H; [reflexivity|]. cbn [filter]. rewrite (H x (or_introl eq_refl)).
  specialize (IH (fun y Hy => H y (or_intror Hy))). destruct (g x); cbn [negb length]; lia.
Qed.

Lemma mem_N_In x l : mem_N x l = true <-> In x l.
Proof. unfold mem_N. rewrite existsb_exists. split; [intros (y & Hy & E); apply N.eqb_eq in E; subst; exact Hy | intros H; exists x; split; [exact H|apply N.eqb_refl]]. Qed.

Lemma NoDup_inj_sid (l : list sext) a b : NoDup (map sext_id l) -> In a l -> In b l -> sext_id a = sext_id b -> a = b.
Proof.
  induction l as [|x l IH]; intros Hnd Ha Hb Hf; [destruct Ha|]. cbn [map] in Hnd. inversion Hnd as [|? ? Hn Hnd']; subst.
  destruct Ha as [->|Ha], Hb as [->|Hb]; [reflexivity | | | apply IH; assumption].
  - exfalso. apply Hn. rewrite Hf. apply in_map. exact Hb.
  - exfalso. apply Hn. rewrite <- Hf. apply in_map. exact Ha.
Qed.

(* SOUNDNESS of the shuffle-aware oracle *)
Theorem shuffle_match_sound c l l' ws :
  contigb l = true -> NoDup (map sext_id (filter nonfixed l)) ->
  (forall s, In s (filter nonfixed l) -> fixed_id (sext_id s) = false) ->
  Permutation l l' -> kept l l' ->
  nodup_N (filter (fun i => negb (Grease.is_grease i)) (map fst ws)) = true ->
  nodup_N (map sext_id (filter nonfixed l)) = true ->
  seq_match c (expect_exts 0 l') ws = true -> shuffle_match c l ws = true.
Proof.
  intros Hcon Hnd Hids P K Hwn Hndb Hm.
  destruct (contig_split l Hcon) as (F1 & NF & F2 & -> & HF1 & HNF & HF2).
  destruct (kept_prefix F1 (NF ++ F2) l' K HF1) as (M' & -> & KM).
  apply Permutation_app_inv_l in P.
  destruct (kept_suffix NF F2 M' KM (eq_sym (Permutation_length P)) HF2) as (NF' & -> & HlenN).
  apply Permutation_app_inv_r in P.
  assert (HNF' : forallb nonfixed NF' = true).
  { apply forallb_forall. intros x Hx. rewrite forallb_forall in HNF. apply HNF. eapply Permutation_in; [apply Permutation_sym; exact P|exact Hx]. }
  assert (Enf : filter nonfixed (F1 ++ NF ++ F2) = NF).
  { rewrite !filter_app, (filter_nonfixed_fixed F1 HF1), (filter_nonfixed_fixed F2 HF2), (filter_all nonfixed NF HNF), app_nil_r. reflexivity. }
  rewrite Enf in *.
  destruct (nonfixed_nog NF' HNF') as [Gn' Gz'].
  set (E1 := expect_exts 0 F1). set (E2 := expect_exts (0 + ng F1 + 0) F2).
  assert (EE : expect_exts 0 (F1 ++ NF' ++ F2) = E1 ++ NF' ++ E2).
  { rewrite expect_app, expect_app, (expect_nog _ NF' Gn'), Gz'. reflexivity. }
  rewrite EE in Hm.
  assert (HE1 : forallb fixedb E1 = true) by (apply expect_fixed; exact HF1).
  assert (HE2 : forallb fixedb E2 = true) by (apply expect_fixed; exact HF2).
  assert (Hsub : forall s, In s (E1 ++ NF' ++ E2) -> fixedb s = false -> In s NF).
  { intros s Hs Hf. apply in_app_or in Hs. destruct Hs as [Hs|Hs]; [rewrite forallb_forall in HE1; rewrite (HE1 s Hs) in Hf; discriminate|].
    apply in_app_or in Hs. destruct Hs as [Hs|Hs]; [eapply Permutation_in; [apply Permutation_sym; exact P|exact Hs]|].
    rewrite forallb_forall in HE2. rewrite (HE2 s Hs) in Hf. discriminate. }
  destruct (seen_of_match c NF Hnd Hids _ ws Hsub Hm) as (S1 & S2 & S3).
  assert (Hseen : filter (fun s => nonfixed s && must c s) (E1 ++ NF' ++ E2) = filter (must c) NF').
  { rewrite !filter_app.
    rewrite (filter_none _ E1) by (intros x Hx; rewrite forallb_forall in HE1; unfold nonfixed; rewrite (HE1 x Hx); reflexivity).
    rewrite (filter_none _ E2) by (intros x Hx; rewrite forallb_forall in HE2; unfold nonfixed; rewrite (HE2 x Hx); reflexivity).
    rewrite app_nil_r. cbn [app]. apply filter_ext_in. intros x Hx. rewrite forallb_forall in HNF'. rewrite (HNF' x Hx). reflexivity. }
  assert (Hmiss : filter (fun s => negb (mem_N (sext_id s) (map fst ws))) NF = filter (mustnot c) NF).
  { apply filter_ext_in. intros s Hs. rewrite forallb_forall in HNF. pose proof (HNF s Hs) as Hns. unfold nonfixed in Hns. apply negb_true_iff in Hns.
    pose proof (nonfixed_presence c s Hns) as Hp. destruct (mustnot c s) eqn:Emn; cbn [negb] in Hp.
    - apply negb_true_iff. rewrite <- not_true_iff_false. intros Hmem. apply mem_N_In in Hmem. apply in_map_iff in Hmem. destruct Hmem as (w & Hw & Hwin).
      destruct (S2 w Hwin) as [Hfx|(s' & Hs' & Hn' & Hm' & Hid')].
      + rewrite Hw in Hfx. rewrite (Hids s Hs) in Hfx. discriminate.
      + assert (Hs'nf : In s' NF) by (apply Hsub; [exact Hs'|unfold nonfixed in Hn'; apply negb_true_iff in Hn'; exact Hn']).
        assert (s' = s) by (apply (NoDup_inj_sid NF); [exact Hnd|exact Hs'nf|exact Hs|congruence]). subst s'. congruence.
    - apply negb_false_iff. apply mem_N_In. apply S3; [|unfold nonfixed; rewrite Hns; reflexivity|exact Hp].
      apply in_or_app. right. apply in_or_app. left. eapply Permutation_in; [exact P|exact Hs]. }
  unfold shuffle_match, arrange. change (fun s : sext => negb (fixedb s)) with nonfixed. rewrite Enf. rewrite Hndb, Hwn. cbn [andb].
  fold (flat_map (fun w : N * bytes => filter (fun s : sext => sext_id s =? fst w) NF) ws). rewrite S1, Hseen, Hmiss.
  set (pool := filter (must c) NF' ++ filter (mustnot c) NF).
  assert (Hpl : length pool = length NF).
  { unfold pool. rewrite app_length. rewrite <- (filter_perm_len (must c) _ _ P).
    apply partition_len. intros x Hx. rewrite forallb_forall in HNF. specialize (HNF x Hx). unfold nonfixed in HNF. apply negb_true_iff in HNF.
    apply nonfixed_presence. exact HNF. }
  rewrite (refill_contig F1 NF F2 pool HF1 HNF HF2 Hpl).
  assert (Hpnf : forallb nonfixed pool = true).
  { unfold pool. rewrite forallb_app. apply andb_true_iff. split; apply forallb_forall; intros x Hx; apply filter_In in Hx; destruct Hx as [Hx _].
    - rewrite forallb_forall in HNF'. exact (HNF' x Hx).
    - rewrite forallb_forall in HNF. exact (HNF x Hx). }
  destruct (nonfixed_nog pool Hpnf) as [Gp Gpz].
  rewrite expect_app, expect_app, (expect_nog _ pool Gp). rewrite Gpz. fold E1 E2.
  rewrite seq_match_drop. rewrite seq_match_drop in Hm. rewrite <- Hm. f_equal.
  rewrite !filter_app. f_equal. f_equal.
  unfold pool. rewrite filter_app.
  rewrite (filter_none _ (filter (mustnot c) NF)) by (intros x Hx; apply filter_In in Hx; destruct Hx as [_ Hx]; rewrite Hx; reflexivity).
  rewrite app_nil_r.
  transitivity (filter (must c) NF').
  - apply filter_all. apply forallb_forall. intros x Hx. apply filter_In in Hx. destruct Hx as [Hx Hmx].
    rewrite forallb_forall in HNF'. specialize (HNF' x Hx). unfold nonfixed in HNF'. apply negb_true_iff in HNF'.
    rewrite (nonfixed_presence c x HNF') in Hmx. exact Hmx.
  - apply filter_ext_in. intros x Hx. rewrite forallb_forall in HNF'. specialize (HNF' x Hx). unfold nonfixed in HNF'. apply negb_true_iff in HNF'.
    apply nonfixed_presence. exact HNF'.
Qed.

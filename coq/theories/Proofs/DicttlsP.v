(* Proofs for C32: soundness of the boolean table check, the exhaustive check of
   the regenerated tables (finite domain = all entries of Gen/Dict.v), and the
   render/import round trip of the JSON name lists. *)
From Coq Require Import String.
From UV Require Import Base.Common Model.Dicttls Gen.Dict.
Open Scope string_scope.

Lemma entry_ok_spec ni p : entry_ok ni p = true <-> lookup_name (snd p) ni = Some (fst p).
Proof.
  unfold entry_ok. destruct (lookup_name (snd p) ni) as [v|]; split; intros H; try discriminate.
  - apply N.eqb_eq in H. subst. reflexivity.
  - inversion H. apply N.eqb_refl.
Qed.

Lemma table_ok_sound t : table_ok t = true ->
  forall v n, In (v, n) (fst t) -> lookup_name n (snd t) = Some v.
Proof.
  unfold table_ok. intros H v n Hin. rewrite forallb_forall in H.
  specialize (H (v, n) Hin). apply entry_ok_spec in H. exact H.
Qed.

Lemma table_ok_complete t : (forall v n, In (v, n) (fst t) -> lookup_name n (snd t) = Some v) -> table_ok t = true.
Proof.
  intros H. unfold table_ok. apply forallb_forall. intros [v n] Hin. apply entry_ok_spec. apply H. exact Hin.
Qed.

Lemma asym_nil t : asym t = [] <-> table_ok t = true.
Proof.
  unfold asym, table_ok. induction (fst t) as [|p l IH]; cbn; [tauto|].
  destruct (entry_ok (snd t) p); cbn; [exact IH | split; discriminate].
Qed.

(* The exhaustive sweep over the regenerated finite domain: every paired table of Gen/Dict.v. *)
Lemma all_tables_ok : forallb (fun t => table_ok (snd t)) dict_tables = true.
Proof. vm_compute. reflexivity. Qed.

Lemma dict_consistent name t : In (name, t) dict_tables ->
  forall v n, In (v, n) (fst t) -> lookup_name n (snd t) = Some v.
Proof.
  intros Hin. pose proof all_tables_ok as H. rewrite forallb_forall in H.
  specialize (H (name, t) Hin). cbn in H. apply table_ok_sound. exact H.
Qed.

Lemma no_asym : all_asym dict_tables = [].
Proof. vm_compute. reflexivity. Qed.

(* ---- lookups ---- *)

Lemma lookup_value_In v vi n : lookup_value v vi = Some n -> In (v, n) vi.
Proof.
  induction vi as [|[k m] r IH]; cbn; [discriminate|].
  destruct (N.eqb_spec k v) as [->|NE].
  - intros H; inversion H. left. reflexivity.
  - intros H. right. apply IH. exact H.
Qed.

(* ---- JSON name lists: render with the value-indexed table, import with the name-indexed one ---- *)

Lemma import_render_grease is_g vi ni : table_ok (vi, ni) = true -> no_name_is_grease vi = true ->
  forall vs names, render_names is_g vi vs = Some names ->
  import_names_grease ni names = Some (map (ungrease is_g) vs).
Proof.
  intros Hok Hng. induction vs as [|v r IH]; intros names H; cbn in H.
  - inversion H. reflexivity.
  - destruct (render_names is_g vi r) as [ns|] eqn:Er.
    2: { destruct (if is_g v then Some "GREASE" else lookup_value v vi); discriminate. }
    specialize (IH ns eq_refl). cbn [map]. unfold ungrease at 1.
    destruct (is_g v) eqn:Eg.
    + inversion H; subst. cbn [import_names_grease]. rewrite String.eqb_refl, IH. reflexivity.
    + destruct (lookup_value v vi) as [n|] eqn:El; [|discriminate]. inversion H; subst.
      pose proof (lookup_value_In _ _ _ El) as Hin.
      cbn [import_names_grease].
      unfold no_name_is_grease in Hng. rewrite forallb_forall in Hng. specialize (Hng (v, n) Hin). cbn [snd] in Hng.
      apply negb_true_iff in Hng. rewrite Hng.
      pose proof (table_ok_sound (vi, ni) Hok v n Hin) as Hs. cbn [snd] in Hs. rewrite Hs, IH. reflexivity.
Qed.

Lemma import_render vi ni : table_ok (vi, ni) = true ->
  forall vs names, render_names (fun _ => false) vi vs = Some names -> import_names ni names = Some vs.
Proof.
  intros Hok. induction vs as [|v r IH]; intros names H; cbn in H.
  - inversion H. reflexivity.
  - destruct (lookup_value v vi) as [n|] eqn:El; [|discriminate].
    destruct (render_names (fun _ => false) vi r) as [ns|] eqn:Er; [|discriminate].
    inversion H; subst. cbn [import_names].
    pose proof (table_ok_sound (vi, ni) Hok v n (lookup_value_In _ _ _ El)) as Hs. cbn [snd] in Hs.
    rewrite Hs, (IH ns eq_refl). reflexivity.
Qed.

(* an unknown name is refused (never mapped to some code point) *)
Lemma import_unknown ni names n : In n names -> n <> "GREASE" -> lookup_name n ni = None ->
  import_names_grease ni names = None.
Proof.
  induction names as [|m r IH]; intros Hin Hng Hl; [destruct Hin|].
  cbn. destruct Hin as [->|Hin].
  - apply String.eqb_neq in Hng. rewrite Hng, Hl. reflexivity.
  - rewrite (IH Hin Hng Hl). destruct (if String.eqb m "GREASE" then _ else _); reflexivity.
Qed.

(* the tables the JSON importer uses: membership in dict_tables (so dict_consistent applies) and no name "GREASE" *)
Definition json_tables : list (string * (vtable * ntable)) :=
  [("CipherSuite", (CipherSuite_value_indexed, CipherSuite_name_indexed));
   ("SupportedGroups", (SupportedGroups_value_indexed, SupportedGroups_name_indexed));
   ("SignatureScheme", (SignatureScheme_value_indexed, SignatureScheme_name_indexed));
   ("ExtType", (ExtType_value_indexed, ExtType_name_indexed));
   ("CompMeth", (CompMeth_value_indexed, CompMeth_name_indexed));
   ("ECPointFormat", (ECPointFormat_value_indexed, ECPointFormat_name_indexed));
   ("CertificateCompressionAlgorithm", (CertificateCompressionAlgorithm_value_indexed, CertificateCompressionAlgorithm_name_indexed));
   ("PSKKeyExchangeMode", (PSKKeyExchangeMode_value_indexed, PSKKeyExchangeMode_name_indexed))].

Lemma json_tables_ok : forallb (fun t => table_ok (snd t) && no_name_is_grease (fst (snd t))) json_tables = true.
Proof. vm_compute. reflexivity. Qed.

Lemma json_table_facts name vi ni : In (name, (vi, ni)) json_tables ->
  table_ok (vi, ni) = true /\ no_name_is_grease vi = true.
Proof.
  intros Hin. pose proof json_tables_ok as H. rewrite forallb_forall in H.
  specialize (H _ Hin). cbn in H. apply andb_true_iff in H. exact H.
Qed.

(* membership of the importer's tables in dict_tables / json_tables (robust to added tables: tries every position) *)
Ltac in_tables := unfold dict_tables, json_tables; cbn [In]; repeat (first [left; reflexivity | right]).

Lemma cipher_suites_consistent : forall v n, In (v, n) CipherSuite_value_indexed -> lookup_name n CipherSuite_name_indexed = Some v.
Proof. apply (dict_consistent "CipherSuite" (CipherSuite_value_indexed, CipherSuite_name_indexed)). in_tables. Qed.
Lemma supported_groups_consistent : forall v n, In (v, n) SupportedGroups_value_indexed -> lookup_name n SupportedGroups_name_indexed = Some v.
Proof. apply (dict_consistent "SupportedGroups" (SupportedGroups_value_indexed, SupportedGroups_name_indexed)). in_tables. Qed.
Lemma signature_schemes_consistent : forall v n, In (v, n) SignatureScheme_value_indexed -> lookup_name n SignatureScheme_name_indexed = Some v.
Proof. apply (dict_consistent "SignatureScheme" (SignatureScheme_value_indexed, SignatureScheme_name_indexed)). in_tables. Qed.
Lemma extension_types_consistent : forall v n, In (v, n) ExtType_value_indexed -> lookup_name n ExtType_name_indexed = Some v.
Proof. apply (dict_consistent "ExtType" (ExtType_value_indexed, ExtType_name_indexed)). in_tables. Qed.
Lemma cipher_suites_in_tables : In ("CipherSuite", (CipherSuite_value_indexed, CipherSuite_name_indexed)) dict_tables.
Proof. in_tables. Qed.
Lemma json_tables_in_dict_tables : forall x, In x json_tables -> In x dict_tables.
Proof.
  intros x Hin. unfold json_tables in Hin. cbn [In] in Hin.
  repeat (destruct Hin as [<-|Hin]; [in_tables|]). destruct Hin.
Qed.

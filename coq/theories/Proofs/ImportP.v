(* Proofs about Model/Import.v: ImportTLSClientHello with the key_share length
   check never panics; without it the 4-byte stepping runs off the slice. *)
From UV Require Import Base.Common Model.Wire Model.Varint Model.Ext Model.FromRaw Model.Import
  Proofs.WireP Proofs.FromRawP.
From Coq Require Import ZifyBool ZifyNat ZifyN.

(* Go's slice invariant for the one input whose capacity matters *)
Definition imap_ok (m : imap) : Prop :=
  match im_key_share m with Some d => blen d <= im_key_share_cap m | None => True end.

Lemma uint8to16_np b : np (uint8to16 b).
Proof. unfold uint8to16. apply np_of_opt. Qed.

Lemma mod4_step (i l : N) : i mod 4 = 0 -> l mod 4 = 0 -> i < l -> i + 4 <= l /\ (i + 4) mod 4 = 0.
Proof.
  intros Hi Hl Hlt.
  pose proof (N.div_mod i 4 ltac:(lia)) as Ei. pose proof (N.div_mod l 4 ltac:(lia)) as El.
  rewrite Hi in Ei. rewrite Hl in El. split.
  - lia.
  - replace (i + 4) with (i + 1 * 4) by lia. rewrite N.mod_add by lia. exact Hi.
Qed.

(* the loop stays inside the slice when its length is a multiple of 4 *)
Lemma key_share_loop_np fuel d cap : blen d mod 4 = 0 -> blen d <= cap ->
  forall i acc, i mod 4 = 0 -> np (key_share_loop fuel d cap i acc).
Proof.
  intros Hl Hcap. induction fuel as [|k IH]; intros i acc Hi; cbn [key_share_loop].
  - destruct (blen d <=? i); reflexivity.
  - destruct (N.leb_spec (blen d) i) as [Hge|Hlt]; [reflexivity|].
    destruct (mod4_step i (blen d) Hi Hl Hlt) as [Hle Hi'].
    destruct (N.ltb_spec cap (i + 4)) as [Hc|Hc]; [lia|].
    destruct (nth_error d (N.to_nat (i + 3))) eqn:Hn.
    + apply IH. exact Hi'.
    + apply nth_error_None in Hn. unfold blen in *. lia.
Qed.

Lemma key_share_fixed_data_np d cap : blen d <= cap -> np (key_share_fixed_data true d cap).
Proof.
  intros Hcap. unfold key_share_fixed_data. cbn [andb].
  destruct (N.eqb_spec (blen d mod 4) 0) as [Hm|Hm]; cbn [negb]; [|reflexivity].
  apply np_bind; [|intros; reflexivity].
  apply key_share_loop_np; auto.
Qed.

Lemma req_np o : np (req o). Proof. apply np_of_opt. Qed.

Lemma import_ext_np m id : imap_ok m -> np (import_ext true m id).
Proof.
  intros Hok. unfold import_ext.
  repeat match goal with
  | |- np (req _) => apply req_np
  | |- np (ext_write _ _) => apply ext_write_np
  | |- np (key_share_fixed_data true _ _) =>
      apply key_share_fixed_data_np; unfold imap_ok, req, of_opt in *;
      destruct (im_key_share m); [congruence | discriminate]
  | _ => np_step
  end.
Qed.

Lemma import_exts_np m ids : imap_ok m -> np (import_exts true m ids).
Proof.
  intros Hok. induction ids as [|id r IH]; cbn [import_exts]; [reflexivity|].
  apply np_bind; [apply import_ext_np; exact Hok|]. intros e _.
  apply np_bind; [exact IH|]. intros; reflexivity.
Qed.

Lemma import_hello_np vmin vmax m : imap_ok m -> np (import_hello true vmin vmax m).
Proof.
  intros Hok. unfold import_hello.
  repeat match goal with
  | |- np (uint8to16 _) => apply uint8to16_np
  | |- np (import_exts true _ _) => apply import_exts_np; exact Hok
  | _ => np_step
  end.
Qed.

(* ---- the code as shipped: F-07a ---- *)
Definition f07a_map (ks : bytes) (cap : N) : imap :=
  {| im_cipher_suites := Some [19; 1]; im_compression_methods := Some [0];
     im_extensions := Some [0; 51];
     im_pt_fmts := None; im_sig_algs := None; im_supported_versions := None; im_curves := None;
     im_alpn := None; im_key_share := Some ks; im_key_share_cap := cap;
     im_psk_key_exchange_modes := None; im_cert_compression_algs := None; im_record_size_limit := None |}.

Lemma unfixed_import_panics_slice : import_hello false 0 0 (f07a_map [0; 29; 0] 3) = Panic P_SLICE.
Proof. vm_compute. reflexivity. Qed.
(* a larger backing array only moves the panic to the index expression *)
Lemma unfixed_import_panics_index : import_hello false 0 0 (f07a_map [0; 29; 0] 8) = Panic P_INDEX.
Proof. vm_compute. reflexivity. Qed.
Lemma fixed_import_refuses : import_hello true 0 0 (f07a_map [0; 29; 0] 3) = Err E_KEY_SHARE_LEN.
Proof. vm_compute. reflexivity. Qed.

(* strongest true statement about the unfixed loop: no panic iff the length is a multiple of 4 *)
Lemma unfixed_key_share_np d cap : blen d <= cap -> blen d mod 4 = 0 -> np (key_share_fixed_data false d cap).
Proof.
  intros Hcap Hm. unfold key_share_fixed_data. cbn [andb].
  apply np_bind; [|intros; reflexivity]. apply key_share_loop_np; auto.
Qed.

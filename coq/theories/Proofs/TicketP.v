(* Proofs about Model/Ticket.v (property C35). *)
From UV Require Import Base.Common Model.Ticket.
From Coq Require Import ZifyBool ZifyNat ZifyN.
Ltac Zify.zify_post_hook ::= Z.div_mod_to_equations.

Arguments N.modulo : simpl never.
Arguments N.div : simpl never.
Arguments N.mul : simpl never.
Arguments N.add : simpl never.
Arguments N.of_nat : simpl never.
Arguments N.to_nat : simpl never.

(* ---------- monad inversion ---------- *)
Lemma bind_ok {A B} (r : res A) (f : A -> res B) b :
  bind r f = Ok b -> exists a, r = Ok a /\ f a = Ok b.
Proof. destruct r; cbn; intros H; try discriminate. eauto. Qed.

(* ---------- integers ---------- *)
Lemma rd_be16 x r : x < 65536 -> rd_u16 (be16 x ++ r) = Some (x, r).
Proof. intros H. unfold be16, rd_u16, u8. cbn [app]. do 2 f_equal. lia. Qed.
Lemma rd_be24 x r : x < 16777216 -> rd_u24 (be24 x ++ r) = Some (x, r).
Proof. intros H. unfold be24, rd_u24, u8. cbn [app]. do 2 f_equal. lia. Qed.
Lemma rd_be32 x r : x < 4294967296 -> rd_u32 (be32 x ++ r) = Some (x, r).
Proof. intros H. unfold be32, rd_u32, u8. cbn [app]. do 2 f_equal. lia. Qed.
Lemma rd_be64 x r : x < 18446744073709551616 -> rd_u64 (be64 x ++ r) = Some (x, r).
Proof.
  intros H. unfold be64, rd_u64. rewrite <- app_assoc.
  rewrite rd_be32 by (unfold u32; lia). rewrite rd_be32 by (unfold u32; lia).
  do 2 f_equal. unfold u32. lia.
Qed.

Lemma blen_app a b : blen (a ++ b) = blen a + blen b.
Proof. unfold blen. rewrite app_length. lia. Qed.

Lemma rd_n_app b r : rd_n (blen b) (b ++ r) = Some (b, r).
Proof.
  unfold rd_n. rewrite blen_app.
  replace (blen b <=? blen b + blen r) with true by lia.
  unfold blen. rewrite Nat2N.id.
  rewrite firstn_app, Nat.sub_diag, firstn_all, firstn_O, app_nil_r.
  rewrite skipn_app, Nat.sub_diag, skipn_all. reflexivity.
Qed.

(* ---------- length-prefixed items ---------- *)
Lemma lp8_ok body out : lp8 body = Ok out ->
  exists b, body = Ok b /\ blen b < 256 /\ out = blen b :: b.
Proof.
  unfold lp8. intros H. apply bind_ok in H. destruct H as (b & Hb & H).
  destruct (blen b <? 256) eqn:E; [|discriminate]. inversion H; subst.
  exists b. repeat split; auto; try lia. unfold u8. f_equal. lia.
Qed.
Lemma lp16_ok body out : lp16 body = Ok out ->
  exists b, body = Ok b /\ blen b < 65536 /\ out = be16 (blen b) ++ b.
Proof.
  unfold lp16. intros H. apply bind_ok in H. destruct H as (b & Hb & H).
  destruct (blen b <? 65536) eqn:E; [|discriminate]. inversion H; subst.
  exists b. repeat split; auto; lia.
Qed.
Lemma lp24_ok body out : lp24 body = Ok out ->
  exists b, body = Ok b /\ blen b < 16777216 /\ out = be24 (blen b) ++ b.
Proof.
  unfold lp24. intros H. apply bind_ok in H. destruct H as (b & Hb & H).
  destruct (blen b <? 16777216) eqn:E; [|discriminate]. inversion H; subst.
  exists b. repeat split; auto; lia.
Qed.

Lemma rd_lp8_app b r : blen b < 256 -> rd_lp8 ((blen b :: b) ++ r) = Some (b, r).
Proof. intros H. unfold rd_lp8. cbn [app rd_u8]. apply rd_n_app. Qed.
Lemma rd_lp16_app b r : blen b < 65536 -> rd_lp16 ((be16 (blen b) ++ b) ++ r) = Some (b, r).
Proof. intros H. unfold rd_lp16. rewrite <- app_assoc, rd_be16 by assumption. apply rd_n_app. Qed.
Lemma rd_lp24_app b r : blen b < 16777216 -> rd_lp24 ((be24 (blen b) ++ b) ++ r) = Some (b, r).
Proof. intros H. unfold rd_lp24. rewrite <- app_assoc, rd_be24 by assumption. apply rd_n_app. Qed.

(* item-level forms: encoder succeeded => reader recovers the item *)
Lemma rd_lp24_item b out r : lp24 (Ok b) = Ok out -> rd_lp24 (out ++ r) = Some (b, r) /\ out <> [].
Proof.
  intros H. apply lp24_ok in H. destruct H as (b' & Hb & Hl & ->). inversion Hb; subst b'.
  split; [apply rd_lp24_app; assumption | unfold be24; discriminate].
Qed.
Lemma rd_lp16_item b out r : lp16 (Ok b) = Ok out -> rd_lp16 (out ++ r) = Some (b, r) /\ out <> [].
Proof.
  intros H. apply lp16_ok in H. destruct H as (b' & Hb & Hl & ->). inversion Hb; subst b'.
  split; [apply rd_lp16_app; assumption | unfold be16; discriminate].
Qed.

(* ---------- lists of items ---------- *)
Lemma rd_many_cat {A} (enc : A -> res bytes) (rd : bytes -> option (A * bytes)) (P : A -> Prop) :
  (forall a b r, P a -> enc a = Ok b -> rd (b ++ r) = Some (a, r) /\ b <> []) ->
  forall l bs, Forall P l -> cat_map enc l = Ok bs ->
  forall fuel, (length l <= fuel)%nat -> rd_many rd fuel bs = Some l.
Proof.
  intros Hitem. induction l as [|x l IH]; intros bs HP H fuel Hf.
  - cbn in H. inversion H. destruct fuel; reflexivity.
  - cbn [cat_map] in H. apply bind_ok in H. destruct H as (a & Ha & H).
    apply bind_ok in H. destruct H as (b & Hb & H). inversion H; subst bs.
    inversion HP as [|? ? Px Pl]; subst.
    destruct (Hitem x a b Px Ha) as [Hr Hne].
    destruct fuel as [|f]; [cbn in Hf; lia|].
    destruct a as [|a0 a']; [congruence|].
    cbn [rd_many app]. change (a0 :: a' ++ b) with ((a0 :: a') ++ b). rewrite Hr.
    rewrite (IH b Pl Hb f) by (cbn in Hf; lia). reflexivity.
Qed.

Lemma cat_map_len {A} (enc : A -> res bytes) :
  (forall a b, enc a = Ok b -> b <> []) ->
  forall l bs, cat_map enc l = Ok bs -> (length l <= length bs)%nat.
Proof.
  intros Hne. induction l as [|x l IH]; intros bs H.
  - cbn. lia.
  - cbn [cat_map] in H. apply bind_ok in H. destruct H as (a & Ha & H).
    apply bind_ok in H. destruct H as (b & Hb & H). inversion H; subst bs.
    specialize (IH b Hb). specialize (Hne x a Ha). rewrite app_length. cbn [length].
    destruct a; [congruence|]. cbn [length]. lia.
Qed.

Lemma lp24_ne b out : lp24 (Ok b) = Ok out -> out <> [].
Proof. intros H. apply (rd_lp24_item b out []) in H. tauto. Qed.
Lemma lp16_ne b out : lp16 (Ok b) = Ok out -> out <> [].
Proof. intros H. apply (rd_lp16_item b out []) in H. tauto. Qed.

(* Extra / chain tails: a list of uint24-prefixed strings *)
Lemma rd_list24 l bs : cat_map (fun e => lp24 (Ok e)) l = Ok bs ->
  rd_many rd_lp24 (length bs) bs = Some l.
Proof.
  intros H. eapply rd_many_cat with (P := fun _ => True) (enc := fun e => lp24 (Ok e)); eauto.
  - intros a b r _ Hb. apply rd_lp24_item. exact Hb.
  - apply Forall_forall. auto.
  - eapply cat_map_len; [|exact H]. intros a b. apply lp24_ne.
Qed.

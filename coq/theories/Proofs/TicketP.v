(* Proofs about Model/Ticket.v (property C35). *)
From UV Require Import Base.Common Model.Ticket.
From Coq Require Import ZifyBool ZifyNat ZifyN.
Ltac Zify.zify_post_hook ::= Z.div_mod_to_equations.

Arguments N.modulo : simpl never.
Arguments N.div : simpl never.
Arguments N.mul : simpl never.
Arguments N.add : simpl never.
Arguments N.of_nat : simpl never.
Arguments N.to_nat : simpl never.

(* ---------- monad inversion ---------- *)
Lemma bind_ok {A B} (r : res A) (f : A -> res B) b :
  bind r f = Ok b -> exists a, r = Ok a /\ f a = Ok b.
Proof. destruct r; cbn; intros H; try discriminate. eauto. Qed.

(* ---------- integers ---------- *)
Lemma rd_be16 x r : x < 65536 -> rd_u16 (be16 x ++ r) = Some (x, r).
Proof. intros H. unfold be16, rd_u16, u8. cbn [app]. do 2 f_equal. lia. Qed.
Lemma rd_be24 x r : x < 16777216 -> rd_u24 (be24 x ++ r) = Some (x, r).
Proof. intros H. unfold be24, rd_u24, u8. cbn [app]. do 2 f_equal. lia. Qed.
Lemma rd_be32 x r : x < 4294967296 -> rd_u32 (be32 x ++ r) = Some (x, r).
Proof. intros H. unfold be32, rd_u32, u8. cbn [app]. do 2 f_equal. lia. Qed.
Lemma rd_be64 x r : x < 18446744073709551616 -> rd_u64 (be64 x ++ r) = Some (x, r).
Proof.
  intros H. unfold be64, rd_u64. rewrite <- app_assoc.
  rewrite rd_be32 by (unfold u32; lia). rewrite rd_be32 by (unfold u32; lia).
  do 2 f_equal. unfold u32. lia.
Qed.

Lemma blen_app a b : blen (a ++ b) = blen a + blen b.
Proof. unfold blen. rewrite app_length. lia. Qed.

Lemma rd_n_app b r : rd_n (blen b) (b ++ r) = Some (b, r).
Proof.
  unfold rd_n. rewrite blen_app.
  replace (blen b <=? blen b + blen r) with true by lia.
  unfold blen. rewrite Nat2N.id.
  rewrite firstn_app, Nat.sub_diag, firstn_all, firstn_O, app_nil_r.
  rewrite skipn_app, Nat.sub_diag, skipn_all. reflexivity.
Qed.

(* ---------- length-prefixed items ---------- *)
Lemma lp8_ok body out : lp8 body = Ok out ->
  exists b, body = Ok b /\ blen b < 256 /\ out = blen b :: b.
Proof.
  unfold lp8. intros H. apply bind_ok in H. destruct H as (b & Hb & H).
  destruct (blen b <? 256) eqn:E; [|discriminate]. inversion H; subst.
  exists b. repeat split; auto; try lia. unfold u8. f_equal. lia.
Qed.
Lemma lp16_ok body out : lp16 body = Ok out ->
  exists b, body = Ok b /\ blen b < 65536 /\ out = be16 (blen b) ++ b.
Proof.
  unfold lp16. intros H. apply bind_ok in H. destruct H as (b & Hb & H).
  destruct (blen b <? 65536) eqn:E; [|discriminate]. inversion H; subst.
  exists b. repeat split; auto; lia.
Qed.
Lemma lp24_ok body out : lp24 body = Ok out ->
  exists b, body = Ok b /\ blen b < 16777216 /\ out = be24 (blen b) ++ b.
Proof.
  unfold lp24. intros H. apply bind_ok in H. destruct H as (b & Hb & H).
  destruct (blen b <? 16777216) eqn:E; [|discriminate]. inversion H; subst.
  exists b. repeat split; auto; lia.
Qed.

Lemma rd_lp8_app b r : blen b < 256 -> rd_lp8 ((blen b :: b) ++ r) = Some (b, r).
Proof. intros H. unfold rd_lp8. cbn [app rd_u8]. apply rd_n_app. Qed.
Lemma rd_lp16_app b r : blen b < 65536 -> rd_lp16 ((be16 (blen b) ++ b) ++ r) = Some (b, r).
Proof. intros H. unfold rd_lp16. rewrite <- app_assoc, rd_be16 by assumption. apply rd_n_app. Qed.
Lemma rd_lp24_app b r : blen b < 16777216 -> rd_lp24 ((be24 (blen b) ++ b) ++ r) = Some (b, r).
Proof. intros H. unfold rd_lp24. rewrite <- app_assoc, rd_be24 by assumption. apply rd_n_app. Qed.

(* item-level forms: encoder succeeded => reader recovers the item *)
Lemma rd_lp24_item b out r : lp24 (Ok b) = Ok out -> rd_lp24 (out ++ r) = Some (b, r) /\ out <> [].
Proof.
  intros H. apply lp24_ok in H. destruct H as (b' & Hb & Hl & ->). inversion Hb; subst b'.
  split; [apply rd_lp24_app; assumption | unfold be24; discriminate].
Qed.
Lemma rd_lp16_item b out r : lp16 (Ok b) = Ok out -> rd_lp16 (out ++ r) = Some (b, r) /\ out <> [].
Proof.
  intros H. apply lp16_ok in H. destruct H as (b' & Hb & Hl & ->). inversion Hb; subst b'.
  split; [apply rd_lp16_app; assumption | unfold be16; discriminate].
Qed.

(* ---------- lists of items ---------- *)
Lemma rd_many_cat {A} (enc : A -> res bytes) (rd : bytes -> option (A * bytes)) (P : A -> Prop) :
  (forall a b r, P a -> enc a = Ok b -> rd (b ++ r) = Some (a, r) /\ b <> []) ->
  forall l bs, Forall P l -> cat_map enc l = Ok bs ->
  forall fuel, (length l <= fuel)%nat -> rd_many rd fuel bs = Some l.
Proof.
  intros Hitem. induction l as [|x l IH]; intros bs HP H fuel Hf.
  - cbn in H. inversion H. destruct fuel; reflexivity.
  - cbn [cat_map] in H. apply bind_ok in H. destruct H as (a & Ha & H).
    apply bind_ok in H. destruct H as (b & Hb & H). inversion H; subst bs.
    inversion HP as [|? ? Px Pl]; subst.
    destruct (Hitem x a b Px Ha) as [Hr Hne].
    destruct fuel as [|f]; [cbn in Hf; lia|].
    destruct a as [|a0 a']; [congruence|].
    cbn [rd_many app]. change (a0 :: a' ++ b) with ((a0 :: a') ++ b). rewrite Hr.
    rewrite (IH b Pl Hb f) by (cbn in Hf; lia). reflexivity.
Qed.

Lemma cat_map_len {A} (enc : A -> res bytes) :
  (forall a b, enc a = Ok b -> b <> []) ->
  forall l bs, cat_map enc l = Ok bs -> (length l <= length bs)%nat.
Proof.
  intros Hne. induction l as [|x l IH]; intros bs H.
  - cbn. lia.
  - cbn [cat_map] in H. apply bind_ok in H. destruct H as (a & Ha & H).
    apply bind_ok in H. destruct H as (b & Hb & H). inversion H; subst bs.
    specialize (IH b Hb). specialize (Hne x a Ha). rewrite app_length. cbn [length].
    destruct a; [congruence|]. cbn [length]. lia.
Qed.

Lemma lp24_ne b out : lp24 (Ok b) = Ok out -> out <> [].
Proof. intros H. apply (rd_lp24_item b out []) in H. tauto. Qed.
Lemma lp16_ne b out : lp16 (Ok b) = Ok out -> out <> [].
Proof. intros H. apply (rd_lp16_item b out []) in H. tauto. Qed.

(* Extra / chain tails: a list of uint24-prefixed strings *)
Lemma rd_list24 l bs : cat_map (fun e => lp24 (Ok e)) l = Ok bs ->
  rd_many rd_lp24 (length bs) bs = Some l.
Proof.
  intros H. eapply rd_many_cat with (P := fun _ => True) (enc := fun e => lp24 (Ok e)); eauto.
  - intros a b r _ Hb. apply rd_lp24_item. exact Hb.
  - apply Forall_forall. auto.
  - eapply cat_map_len; [|exact H]. intros a b. apply lp24_ne.
Qed.

(* ---------- marshalCertificate / unmarshalCertificate ---------- *)
Definition nonnil {A} (l : list A) : Prop := l <> [].

Lemma is_nil_false {A} (l : list A) : l <> [] -> is_nil l = false.
Proof. destruct l; [congruence | reflexivity]. Qed.
Lemma is_nil_true_iff {A} (l : list A) : is_nil l = true <-> l = [].
Proof. destruct l; cbn; split; congruence. Qed.

Lemma rd_scts l bs : Forall nonnil l -> cat_map (fun sct => lp16 (Ok sct)) l = Ok bs ->
  rd_many rd_sct (length bs) bs = Some l.
Proof.
  intros Hl H. eapply rd_many_cat with (P := nonnil) (enc := fun e => lp16 (Ok e)); eauto.
  - intros a b r Pa Hb. destruct (rd_lp16_item a b r Hb) as [Hr Hne]. split; [|exact Hne].
    unfold rd_sct. rewrite Hr. rewrite is_nil_false by exact Pa. reflexivity.
  - eapply cat_map_len; [|exact H]. intros a b. apply lp16_ne.
Qed.

Lemma rd_exts_nil fuel leaf o sc : rd_exts fuel leaf [] o sc = Some (o, sc).
Proof. destruct fuel; reflexivity. Qed.

Definition rd_exts_body (f : nat) (leaf : bool) (s : bytes) (ocsp : option bytes) (scts : option (list bytes)) :=
      match rd_u16 s with
      | None => None
      | Some (ext, s1) =>
        match rd_lp16 s1 with
        | None => None
        | Some (data, s2) =>
          if negb leaf then rd_exts f leaf s2 ocsp scts
          else if ext =? extensionStatusRequest then
            match rd_u8 data with
            | None => None
            | Some (st, d1) =>
              if negb (st =? statusTypeOCSP) then None else
              match rd_lp24 d1 with
              | None => None
              | Some (o, d2) =>
                if is_nil o then None
                else if is_nil d2 then rd_exts f leaf s2 (Some o) scts else None
              end
            end
          else if ext =? extensionSCT then
            match rd_lp16 data with
            | None => None
            | Some (lst, d1) =>
              if is_nil lst then None else
              match rd_many rd_sct (length lst) lst with
              | None => None
              | Some l =>
                if is_nil d1
                then rd_exts f leaf s2 ocsp (Some (match scts with Some l0 => l0 ++ l | None => l end))
                else None
              end
            end
          else rd_exts f leaf s2 ocsp scts
        end
      end.
Lemma rd_exts_unfold f leaf s oc sc : s <> [] -> rd_exts (S f) leaf s oc sc = rd_exts_body f leaf s oc sc.
Proof. destruct s; [congruence | reflexivity]. Qed.

Lemma be16_app_ne x r : be16 x ++ r <> [].
Proof. unfold be16. discriminate. Qed.
Lemma be24_app_ne x r : be24 x ++ r <> [].
Proof. unfold be24. discriminate. Qed.

Lemma rd_exts_ocsp_step f o st body rest oc0 sc :
  o <> [] -> lp24 (Ok o) = Ok st -> lp16 (Ok (statusTypeOCSP :: st)) = Ok body ->
  rd_exts (S f) true ((be16 extensionStatusRequest ++ body) ++ rest) oc0 sc = rd_exts f true rest (Some o) sc.
Proof.
  intros Ho Hst Hbody.
  apply lp24_ok in Hst. destruct Hst as (o' & Eo & Lo & ->). injection Eo as <-.
  apply lp16_ok in Hbody. destruct Hbody as (d & Ed & Ld & ->). injection Ed as <-.
  rewrite <- app_assoc. rewrite rd_exts_unfold by apply be16_app_ne. unfold rd_exts_body.
  rewrite rd_be16 by (unfold extensionStatusRequest; lia).
  rewrite rd_lp16_app by exact Ld.
  cbn [negb rd_u8]. replace (extensionStatusRequest =? extensionStatusRequest) with true by (symmetry; apply N.eqb_refl).
  replace (statusTypeOCSP =? statusTypeOCSP) with true by (symmetry; apply N.eqb_refl). cbn [negb].
  Show. rewrite <- (app_nil_r (be24 (blen o) ++ o)). rewrite rd_lp24_app by exact Lo.
  rewrite is_nil_false by exact Ho. reflexivity.
Qed.

Lemma rd_exts_sct_step f l body rest oc sc0 :
  l <> [] -> Forall nonnil l ->
  lp16 (lp16 (cat_map (fun sct => lp16 (Ok sct)) l)) = Ok body ->
  rd_exts (S f) true ((be16 extensionSCT ++ body) ++ rest) oc sc0
  = rd_exts f true rest oc (Some (match sc0 with Some l0 => l0 ++ l | None => l end)).
Proof.
  intros Hl Hne Hbody.
  apply lp16_ok in Hbody. destruct Hbody as (d & Ed & Ld & ->).
  apply lp16_ok in Ed. destruct Ed as (lst & El & Ll & ->).
  rewrite <- app_assoc. rewrite rd_exts_unfold by apply be16_app_ne. unfold rd_exts_body.
  rewrite rd_be16 by (unfold extensionSCT; lia).
  rewrite rd_lp16_app by exact Ld.
  cbn [negb]. replace (extensionSCT =? extensionStatusRequest) with false by reflexivity.
  replace (extensionSCT =? extensionSCT) with true by reflexivity.
  rewrite <- (app_nil_r (be16 (blen lst) ++ lst)). rewrite rd_lp16_app by exact Ll.
  assert (Hlst : lst <> []).
  { destruct l as [|x l']; [congruence|]. cbn [cat_map] in El.
    apply bind_ok in El. destruct El as (a & Ha & El). apply bind_ok in El. destruct El as (b & Hb & El).
    inversion El. apply lp16_ne in Ha. destruct a; [congruence | discriminate]. }
  rewrite is_nil_false by exact Hlst.
  rewrite (rd_scts l lst Hne El). reflexivity.
Qed.

Lemma leaf_exts_rd ocsp scts e :
  match ocsp with Some o => o <> [] | None => True end ->
  match scts with Some l => l <> [] /\ Forall nonnil l | None => True end ->
  leaf_exts ocsp scts = Ok e ->
  forall fuel, (2 <= fuel)%nat -> rd_exts fuel true e None None = Some (ocsp, scts).
Proof.
  intros Ho Hs H fuel Hf. unfold leaf_exts in H.
  apply bind_ok in H. destruct H as (a & Ha & H). apply bind_ok in H. destruct H as (b & Hb & H).
  inversion H; subst e. clear H.
  destruct fuel as [|[|f]]; try lia.
  destruct ocsp as [o|]; destruct scts as [l|].
  - apply bind_ok in Ha. destruct Ha as (st & Hst & Ha). apply bind_ok in Ha. destruct Ha as (body & Hbody & Ha).
    inversion Ha; subst a. apply bind_ok in Hb. destruct Hb as (body2 & Hbody2 & Hb). inversion Hb; subst b.
    rewrite (rd_exts_ocsp_step _ o st body _ None None Ho Hst Hbody).
    rewrite <- (app_nil_r (be16 extensionSCT ++ body2)).
    destruct Hs as [Hs1 Hs2].
    rewrite (rd_exts_sct_step _ l body2 [] (Some o) None Hs1 Hs2 Hbody2). apply rd_exts_nil.
  - apply bind_ok in Ha. destruct Ha as (st & Hst & Ha). apply bind_ok in Ha. destruct Ha as (body & Hbody & Ha).
    inversion Ha; subst a. inversion Hb; subst b.
    rewrite (rd_exts_ocsp_step _ o st body _ None None Ho Hst Hbody). apply rd_exts_nil.
  - inversion Ha; subst a. apply bind_ok in Hb. destruct Hb as (body2 & Hbody2 & Hb). inversion Hb; subst b.
    cbn [app]. rewrite <- (app_nil_r (be16 extensionSCT ++ body2)).
    destruct Hs as [Hs1 Hs2].
    rewrite (rd_exts_sct_step _ l body2 [] None None Hs1 Hs2 Hbody2). apply rd_exts_nil.
  - inversion Ha; inversion Hb; subst. apply rd_exts_nil.
Qed.

(* Proofs about Model/Ticket.v (property C35). *)
From UV Require Import Base.Common Model.Ticket.
From Coq Require Import ZifyBool ZifyNat ZifyN.
Ltac Zify.zify_post_hook ::= Z.div_mod_to_equations.

Arguments N.modulo : simpl never.
Arguments N.div : simpl never.
Arguments N.mul : simpl never.
Arguments N.add : simpl never.
Arguments N.of_nat : simpl never.
Arguments N.to_nat : simpl never.

(* ---------- monad inversion ---------- *)
Lemma bind_ok {A B} (r : res A) (f : A -> res B) b :
  bind r f = Ok b -> exists a, r = Ok a /\ f a = Ok b.
Proof. destruct r; cbn; intros H; try discriminate. eauto. Qed.

Lemma ok_inj {A} (a b : A) : Ok a = Ok b -> a = b.
Proof. congruence. Qed.

(* ---------- integers ---------- *)
Lemma rd_be16 x r : x < 65536 -> rd_u16 (be16 x ++ r) = Some (x, r).
Proof. intros H. unfold be16, rd_u16, u8. cbn [app]. do 2 f_equal. lia. Qed.
Lemma rd_be24 x r : x < 16777216 -> rd_u24 (be24 x ++ r) = Some (x, r).
Proof. intros H. unfold be24, rd_u24, u8. cbn [app]. do 2 f_equal. lia. Qed.
Lemma rd_be32 x r : x < 4294967296 -> rd_u32 (be32 x ++ r) = Some (x, r).
Proof. intros H. unfold be32, rd_u32, u8. cbn [app]. do 2 f_equal. lia. Qed.
Lemma rd_be64 x r : x < 18446744073709551616 -> rd_u64 (be64 x ++ r) = Some (x, r).
Proof.
  intros H. unfold be64, rd_u64. rewrite <- app_assoc.
  rewrite rd_be32 by (unfold u32; lia). rewrite rd_be32 by (unfold u32; lia).
  do 2 f_equal. unfold u32. lia.
Qed.

Lemma blen_app a b : blen (a ++ b) = blen a + blen b.
Proof. unfold blen. rewrite app_length. lia. Qed.

Lemma rd_n_app b r : rd_n (blen b) (b ++ r) = Some (b, r).
Proof.
  unfold rd_n. rewrite blen_app.
  replace (blen b <=? blen b + blen r) with true by lia.
  unfold blen. rewrite Nat2N.id.
  rewrite firstn_app, Nat.sub_diag, firstn_all, firstn_O, app_nil_r.
  rewrite skipn_app, Nat.sub_diag, skipn_all. reflexivity.
Qed.

(* ---------- length-prefixed items ---------- *)
Lemma lp8_ok body out : lp8 body = Ok out ->
  exists b, body = Ok b /\ blen b < 256 /\ out = blen b :: b.
Proof.
  unfold lp8. intros H. apply bind_ok in H. destruct H as (b & Hb & H).
  destruct (blen b <? 256) eqn:E; [|discriminate]. inversion H; subst.
  exists b. repeat split; auto; try lia. unfold u8. f_equal. lia.
Qed.
Lemma lp16_ok body out : lp16 body = Ok out ->
  exists b, body = Ok b /\ blen b < 65536 /\ out = be16 (blen b) ++ b.
Proof.
  unfold lp16. intros H. apply bind_ok in H. destruct H as (b & Hb & H).
  destruct (blen b <? 65536) eqn:E; [|discriminate]. inversion H; subst.
  exists b. repeat split; auto; lia.
Qed.
Lemma lp24_ok body out : lp24 body = Ok out ->
  exists b, body = Ok b /\ blen b < 16777216 /\ out = be24 (blen b) ++ b.
Proof.
  unfold lp24. intros H. apply bind_ok in H. destruct H as (b & Hb & H).
  destruct (blen b <? 16777216) eqn:E; [|discriminate]. inversion H; subst.
  exists b. repeat split; auto; lia.
Qed.

Lemma rd_lp8_app b r : blen b < 256 -> rd_lp8 ((blen b :: b) ++ r) = Some (b, r).
Proof. intros H. unfold rd_lp8. cbn [app rd_u8]. apply rd_n_app. Qed.
Lemma rd_lp16_app b r : blen b < 65536 -> rd_lp16 ((be16 (blen b) ++ b) ++ r) = Some (b, r).
Proof. intros H. unfold rd_lp16. rewrite <- app_assoc, rd_be16 by assumption. apply rd_n_app. Qed.
Lemma rd_lp24_app b r : blen b < 16777216 -> rd_lp24 ((be24 (blen b) ++ b) ++ r) = Some (b, r).
Proof. intros H. unfold rd_lp24. rewrite <- app_assoc, rd_be24 by assumption. apply rd_n_app. Qed.

(* item-level forms: encoder succeeded => reader recovers the item *)
Lemma rd_lp24_item b out r : lp24 (Ok b) = Ok out -> rd_lp24 (out ++ r) = Some (b, r) /\ out <> [].
Proof.
  intros H. apply lp24_ok in H. destruct H as (b' & Hb & Hl & ->). inversion Hb; subst b'.
  split; [apply rd_lp24_app; assumption | unfold be24; discriminate].
Qed.
Lemma rd_lp16_item b out r : lp16 (Ok b) = Ok out -> rd_lp16 (out ++ r) = Some (b, r) /\ out <> [].
Proof.
  intros H. apply lp16_ok in H. destruct H as (b' & Hb & Hl & ->). inversion Hb; subst b'.
  split; [apply rd_lp16_app; assumption | unfold be16; discriminate].
Qed.

(* ---------- lists of items ---------- *)
Lemma rd_many_cat {A} (enc : A -> res bytes) (rd : bytes -> option (A * bytes)) (P : A -> Prop) :
  (forall a b r, P a -> enc a = Ok b -> rd (b ++ r) = Some (a, r) /\ b <> []) ->
  forall l bs, Forall P l -> cat_map enc l = Ok bs ->
  forall fuel, (length l <= fuel)%nat -> rd_many rd fuel bs = Some l.
Proof.
  intros Hitem. induction l as [|x l IH]; intros bs HP H fuel Hf.
  - cbn in H. inversion H. destruct fuel; reflexivity.
  - cbn [cat_map] in H. apply bind_ok in H. destruct H as (a & Ha & H).
    apply bind_ok in H. destruct H as (b & Hb & H). inversion H; subst bs.
    inversion HP as [|? ? Px Pl]; subst.
    destruct (Hitem x a b Px Ha) as [Hr Hne].
    destruct fuel as [|f]; [cbn in Hf; lia|].
    destruct a as [|a0 a']; [congruence|].
    cbn [rd_many app]. change (a0 :: a' ++ b) with ((a0 :: a') ++ b). rewrite Hr.
    rewrite (IH b Pl Hb f) by (cbn in Hf; lia). reflexivity.
Qed.

Lemma cat_map_len {A} (enc : A -> res bytes) :
  (forall a b, enc a = Ok b -> b <> []) ->
  forall l bs, cat_map enc l = Ok bs -> (length l <= length bs)%nat.
Proof.
  intros Hne. induction l as [|x l IH]; intros bs H.
  - cbn. lia.
  - cbn [cat_map] in H. apply bind_ok in H. destruct H as (a & Ha & H).
    apply bind_ok in H. destruct H as (b & Hb & H). inversion H; subst bs.
    specialize (IH b Hb). specialize (Hne x a Ha). rewrite app_length. cbn [length].
    destruct a; [congruence|]. cbn [length]. lia.
Qed.

Lemma lp24_ne b out : lp24 (Ok b) = Ok out -> out <> [].
Proof. intros H. apply (rd_lp24_item b out []) in H. tauto. Qed.
Lemma lp16_ne b out : lp16 (Ok b) = Ok out -> out <> [].
Proof. intros H. apply (rd_lp16_item b out []) in H. tauto. Qed.

(* Extra / chain tails: a list of uint24-prefixed strings *)
Lemma rd_list24 l bs : cat_map (fun e => lp24 (Ok e)) l = Ok bs ->
  rd_many rd_lp24 (length bs) bs = Some l.
Proof.
  intros H. eapply rd_many_cat with (P := fun _ => True) (enc := fun e => lp24 (Ok e)); eauto.
  - intros a b r _ Hb. apply rd_lp24_item. exact Hb.
  - apply Forall_forall. auto.
  - eapply cat_map_len; [|exact H]. intros a b. apply lp24_ne.
Qed.

(* ---------- marshalCertificate / unmarshalCertificate ---------- *)
Definition nonnil {A} (l : list A) : Prop := l <> [].

Lemma is_nil_false {A} (l : list A) : l <> [] -> is_nil l = false.
Proof. destruct l; [congruence | reflexivity]. Qed.
Lemma is_nil_true_iff {A} (l : list A) : is_nil l = true <-> l = [].
Proof. destruct l; cbn; split; congruence. Qed.

Lemma rd_scts l bs : Forall nonnil l -> cat_map (fun sct => lp16 (Ok sct)) l = Ok bs ->
  rd_many rd_sct (length bs) bs = Some l.
Proof.
  intros Hl H. eapply rd_many_cat with (P := nonnil) (enc := fun e => lp16 (Ok e)); eauto.
  - intros a b r Pa Hb. destruct (rd_lp16_item a b r Hb) as [Hr Hne]. split; [|exact Hne].
    unfold rd_sct. rewrite Hr. rewrite is_nil_false by exact Pa. reflexivity.
  - eapply cat_map_len; [|exact H]. intros a b. apply lp16_ne.
Qed.

Lemma rd_exts_nil fuel leaf o sc : rd_exts fuel leaf [] o sc = Some (o, sc).
Proof. destruct fuel; reflexivity. Qed.

Definition rd_exts_body (f : nat) (leaf : bool) (s : bytes) (ocsp : option bytes) (scts : option (list bytes)) :=
      match rd_u16 s with
      | None => None
      | Some (ext, s1) =>
        match rd_lp16 s1 with
        | None => None
        | Some (data, s2) =>
          if negb leaf then rd_exts f leaf s2 ocsp scts
          else if ext =? extensionStatusRequest then
            match rd_u8 data with
            | None => None
            | Some (st, d1) =>
              if negb (st =? statusTypeOCSP) then None else
              match rd_lp24 d1 with
              | None => None
              | Some (o, d2) =>
                if is_nil o then None
                else if is_nil d2 then rd_exts f leaf s2 (Some o) scts else None
              end
            end
          else if ext =? extensionSCT then
            match rd_lp16 data with
            | None => None
            | Some (lst, d1) =>
              if is_nil lst then None else
              match rd_many rd_sct (length lst) lst with
              | None => None
              | Some l =>
                if is_nil d1
                then rd_exts f leaf s2 ocsp (Some (match scts with Some l0 => l0 ++ l | None => l end))
                else None
              end
            end
          else rd_exts f leaf s2 ocsp scts
        end
      end.
Lemma rd_exts_unfold f leaf s oc sc : s <> [] -> rd_exts (S f) leaf s oc sc = rd_exts_body f leaf s oc sc.
Proof. destruct s; [congruence | reflexivity]. Qed.

Lemma be16_app_ne x r : be16 x ++ r <> [].
Proof. unfold be16. discriminate. Qed.
Lemma be24_app_ne x r : be24 x ++ r <> [].
Proof. unfold be24. discriminate. Qed.

Lemma rd_exts_ocsp_step f o st body rest oc0 sc :
  o <> [] -> lp24 (Ok o) = Ok st -> lp16 (Ok (statusTypeOCSP :: st)) = Ok body ->
  rd_exts (S f) true ((be16 extensionStatusRequest ++ body) ++ rest) oc0 sc = rd_exts f true rest (Some o) sc.
Proof.
  intros Ho Hst Hbody.
  apply lp24_ok in Hst. destruct Hst as (o' & Eo & Lo & ->). assert (o' = o) by congruence; subst o'.
  apply lp16_ok in Hbody. destruct Hbody as (d & Ed & Ld & ->).
  assert (d = statusTypeOCSP :: be24 (blen o) ++ o) by congruence; subst d.
  rewrite <- app_assoc. rewrite rd_exts_unfold by apply be16_app_ne. unfold rd_exts_body.
  rewrite rd_be16 by (unfold extensionStatusRequest; lia).
  rewrite rd_lp16_app by exact Ld.
  cbn [negb rd_u8]. replace (extensionStatusRequest =? extensionStatusRequest) with true by (symmetry; apply N.eqb_refl).
  replace (statusTypeOCSP =? statusTypeOCSP) with true by (symmetry; apply N.eqb_refl). cbn [negb].
  rewrite <- (app_nil_r (be24 (blen o) ++ o)). rewrite rd_lp24_app by exact Lo.
  rewrite is_nil_false by exact Ho. reflexivity.
Qed.

Lemma rd_exts_sct_step f l body rest oc sc0 :
  l <> [] -> Forall nonnil l ->
  lp16 (lp16 (cat_map (fun sct => lp16 (Ok sct)) l)) = Ok body ->
  rd_exts (S f) true ((be16 extensionSCT ++ body) ++ rest) oc sc0
  = rd_exts f true rest oc (Some (match sc0 with Some l0 => l0 ++ l | None => l end)).
Proof.
  intros Hl Hne Hbody.
  apply lp16_ok in Hbody. destruct Hbody as (d & Ed & Ld & ->).
  apply lp16_ok in Ed. destruct Ed as (lst & El & Ll & ->).
  rewrite <- app_assoc. rewrite rd_exts_unfold by apply be16_app_ne. unfold rd_exts_body.
  rewrite rd_be16 by (unfold extensionSCT; lia).
  rewrite rd_lp16_app by exact Ld.
  cbn [negb]. replace (extensionSCT =? extensionStatusRequest) with false by reflexivity.
  replace (extensionSCT =? extensionSCT) with true by reflexivity.
  rewrite <- (app_nil_r (be16 (blen lst) ++ lst)). rewrite rd_lp16_app by exact Ll.
  assert (Hlst : lst <> []).
  { destruct l as [|x l']; [congruence|]. cbn [cat_map] in El.
    apply bind_ok in El. destruct El as (a & Ha & El). apply bind_ok in El. destruct El as (b & Hb & El).
    inversion El. apply lp16_ne in Ha. destruct a; [congruence | discriminate]. }
  rewrite is_nil_false by exact Hlst.
  rewrite (rd_scts l lst Hne El). reflexivity.
Qed.

Lemma leaf_exts_rd ocsp scts e :
  match ocsp with Some o => o <> [] | None => True end ->
  match scts with Some l => l <> [] /\ Forall nonnil l | None => True end ->
  leaf_exts ocsp scts = Ok e ->
  forall fuel, (2 <= fuel)%nat -> rd_exts fuel true e None None = Some (ocsp, scts).
Proof.
  intros Ho Hs H fuel Hf. unfold leaf_exts in H.
  apply bind_ok in H. destruct H as (a & Ha & H). apply bind_ok in H. destruct H as (b & Hb & H).
  apply ok_inj in H; subst e.
  destruct fuel as [|[|f]]; try lia.
  destruct ocsp as [o|]; destruct scts as [l|].
  - apply bind_ok in Ha. destruct Ha as (st & Hst & Ha). apply bind_ok in Ha. destruct Ha as (body & Hbody & Ha).
    apply ok_inj in Ha; subst a. apply bind_ok in Hb. destruct Hb as (body2 & Hbody2 & Hb). apply ok_inj in Hb; subst b.
    rewrite (rd_exts_ocsp_step _ o st body _ None None Ho Hst Hbody).
    rewrite <- (app_nil_r (be16 extensionSCT ++ body2)).
    destruct Hs as [Hs1 Hs2].
    rewrite (rd_exts_sct_step _ l body2 [] (Some o) None Hs1 Hs2 Hbody2). apply rd_exts_nil.
  - apply bind_ok in Ha. destruct Ha as (st & Hst & Ha). apply bind_ok in Ha. destruct Ha as (body & Hbody & Ha).
    apply ok_inj in Ha; subst a. apply ok_inj in Hb; subst b.
    rewrite (rd_exts_ocsp_step _ o st body _ None None Ho Hst Hbody). apply rd_exts_nil.
  - apply ok_inj in Ha; subst a. apply bind_ok in Hb. destruct Hb as (body2 & Hbody2 & Hb). apply ok_inj in Hb; subst b.
    cbn [app]. rewrite <- (app_nil_r (be16 extensionSCT ++ body2)).
    destruct Hs as [Hs1 Hs2].
    rewrite (rd_exts_sct_step _ l body2 [] None None Hs1 Hs2 Hbody2). apply rd_exts_nil.
  - apply ok_inj in Ha; apply ok_inj in Hb; subst a b. apply rd_exts_nil.
Qed.

Definition rd_entries_body (f : nat) (s : bytes) (certs : list bytes) (ocsp : option bytes) (scts : option (list bytes)) :=
      match rd_lp24 s with
      | None => None
      | Some (cert, s1) =>
        match rd_lp16 s1 with
        | None => None
        | Some (exts, s2) =>
          let certs' := certs ++ [cert] in
          match rd_exts (length exts) (Nat.leb (length certs') 1) exts ocsp scts with
          | None => None
          | Some (ocsp', scts') => rd_entries f s2 certs' ocsp' scts'
          end
        end
      end.
Lemma rd_entries_unfold f s certs oc sc : s <> [] -> rd_entries (S f) s certs oc sc = rd_entries_body f s certs oc sc.
Proof. destruct s; [congruence | reflexivity]. Qed.
Lemma rd_entries_nil fuel certs oc sc : rd_entries fuel [] certs oc sc = Some (certs, oc, sc).
Proof. destruct fuel; reflexivity. Qed.

Lemma cert_entry_ok c exts out : cert_entry c exts = Ok out ->
  exists e, exts = Ok e /\ blen c < 16777216 /\ blen e < 65536 /\
            out = (be24 (blen c) ++ c) ++ (be16 (blen e) ++ e).
Proof.
  unfold cert_entry. intros H. apply bind_ok in H. destruct H as (a & Ha & H).
  apply bind_ok in H. destruct H as (b & Hb & H). apply ok_inj in H. subst out.
  apply lp24_ok in Ha. destruct Ha as (c' & Ec & Lc & ->). assert (c' = c) by congruence; subst c'.
  apply lp16_ok in Hb. destruct Hb as (e & Ee & Le & ->). exists e. auto.
Qed.

Lemma rd_entries_rest rest : forall bs, cat_map (fun c => cert_entry c (Ok [])) rest = Ok bs ->
  forall fuel acc oc sc, (length rest <= fuel)%nat ->
  rd_entries fuel bs acc oc sc = Some (acc ++ rest, oc, sc).
Proof.
  induction rest as [|c rest IH]; intros bs H fuel acc oc sc Hf.
  - cbn in H. apply ok_inj in H. subst bs. rewrite app_nil_r. apply rd_entries_nil.
  - cbn [cat_map] in H. apply bind_ok in H. destruct H as (a & Ha & H).
    apply bind_ok in H. destruct H as (b & Hb & H). apply ok_inj in H. subst bs.
    apply cert_entry_ok in Ha. destruct Ha as (e & Ee & Lc & Le & ->).
    assert (e = []) by congruence; subst e.
    destruct fuel as [|f]; [cbn in Hf; lia|].
    rewrite <- !app_assoc. rewrite rd_entries_unfold by apply be24_app_ne. unfold rd_entries_body.
    rewrite (app_assoc (be24 (blen c)) c), rd_lp24_app by exact Lc.
    rewrite (app_assoc (be16 (blen [])) []), rd_lp16_app by exact Le.
    cbn zeta. rewrite rd_exts_nil.
    rewrite (IH b Hb f (acc ++ [c]) oc sc) by (cbn in Hf; lia).
    rewrite <- app_assoc. reflexivity.
Qed.

Definition cert_wf (certs : list bytes) (ocsp : option bytes) (scts : option (list bytes)) : Prop :=
  match ocsp with Some o => o <> [] | None => True end /\
  match scts with Some l => l <> [] /\ Forall nonnil l | None => True end /\
  (certs = [] -> ocsp = None /\ scts = None).

Lemma leaf_exts_len ocsp scts e : leaf_exts ocsp scts = Ok e -> e = [] \/ (2 <= length e)%nat.
Proof.
  unfold leaf_exts. intros H.
  apply bind_ok in H. destruct H as (a & Ha & H). apply bind_ok in H. destruct H as (b & Hb & H).
  apply ok_inj in H. subst e.
  destruct ocsp as [o|].
  - apply bind_ok in Ha. destruct Ha as (st & _ & Ha). apply bind_ok in Ha. destruct Ha as (body & _ & Ha).
    apply ok_inj in Ha. subst a. right. rewrite !app_length. unfold be16. cbn [length]. lia.
  - apply ok_inj in Ha. subst a. destruct scts as [l|].
    + apply bind_ok in Hb. destruct Hb as (body & _ & Hb). apply ok_inj in Hb. subst b.
      right. rewrite !app_length. unfold be16. cbn [length]. lia.
    + apply ok_inj in Hb. subst b. left. reflexivity.
Qed.

Lemma unmarshal_marshal certs ocsp scts out r :
  cert_wf certs ocsp scts -> marshal_certificate certs ocsp scts = Ok out ->
  unmarshal_certificate (out ++ r) = Some ((certs, ocsp, scts), r).
Proof.
  intros (Ho & Hs & Hnil) H. unfold marshal_certificate in H.
  apply lp24_ok in H. destruct H as (lst & El & Ll & ->).
  unfold unmarshal_certificate. rewrite rd_lp24_app by exact Ll.
  destruct certs as [|c0 rest].
  - apply ok_inj in El. subst lst. destruct (Hnil eq_refl) as [-> ->]. reflexivity.
  - apply bind_ok in El. destruct El as (a & Ha & El). apply bind_ok in El. destruct El as (b & Hb & El).
    apply ok_inj in El. subst lst.
    apply cert_entry_ok in Ha. destruct Ha as (e & Ee & Lc & Le & ->).
    assert (Hfuel : (S (length rest) <= length (((be24 (blen c0) ++ c0) ++ be16 (blen e) ++ e) ++ b))%nat).
    { pose proof (cat_map_len (fun c => cert_entry c (Ok [])) (fun a b H => ltac:(apply cert_entry_ok in H; destruct H as (? & _ & _ & _ & ->); rewrite <- app_assoc; apply be24_app_ne)) rest b Hb).
      rewrite !app_length. unfold be24. cbn [length]. lia. }
    destruct (length (((be24 (blen c0) ++ c0) ++ be16 (blen e) ++ e) ++ b)) as [|f] eqn:Ef; [lia|].
    rewrite <- !app_assoc. rewrite rd_entries_unfold by apply be24_app_ne. unfold rd_entries_body.
    rewrite (app_assoc (be24 (blen c0)) c0), rd_lp24_app by exact Lc.
    rewrite (app_assoc (be16 (blen e)) e), rd_lp16_app by exact Le.
    cbn zeta. cbn [app length Nat.leb].
    destruct (leaf_exts_len _ _ _ Ee) as [-> | He2].
    + (* no extensions emitted: both must be None *)
      assert (ocsp = None /\ scts = None) as [-> ->].
      { unfold leaf_exts in Ee. destruct ocsp as [o|].
        - apply bind_ok in Ee. destruct Ee as (a & Ha & Ee). apply bind_ok in Ha. destruct Ha as (st & _ & Ha).
          apply bind_ok in Ha. destruct Ha as (body & _ & Ha). apply ok_inj in Ha. subst a.
          apply bind_ok in Ee. destruct Ee as (b' & _ & Ee). apply ok_inj in Ee. unfold be16 in Ee. discriminate.
        - destruct scts as [l|]; [|auto].
          apply bind_ok in Ee. destruct Ee as (a & Ha & Ee). apply ok_inj in Ha. subst a.
          apply bind_ok in Ee. destruct Ee as (b' & Hb' & Ee). apply bind_ok in Hb'. destruct Hb' as (body & _ & Hb').
          apply ok_inj in Hb'. subst b'. apply ok_inj in Ee. unfold be16 in Ee. discriminate. }
      rewrite rd_exts_nil. rewrite (rd_entries_rest rest b Hb f [c0] None None) by lia. reflexivity.
    + rewrite (leaf_exts_rd ocsp scts e Ho Hs Ee _ He2).
      rewrite (rd_entries_rest rest b Hb f [c0] ocsp scts) by lia. reflexivity.
Qed.

(* ---------- verified chains ---------- *)
Section Parse.
Variable x509ok : bytes -> bool.

Lemma chain_tail_nil fuel : chain_tail x509ok fuel [] = Ok [].
Proof. destruct fuel; reflexivity. Qed.

Lemma chain_tail_ok tl : forall bs, forallb x509ok tl = true ->
  cat_map (fun c => lp24 (Ok c)) tl = Ok bs ->
  forall fuel, (length tl <= fuel)%nat -> chain_tail x509ok fuel bs = Ok tl.
Proof.
  induction tl as [|c tl IH]; intros bs Hx H fuel Hf.
  - cbn in H. apply ok_inj in H. subst bs. apply chain_tail_nil.
  - cbn [cat_map] in H. apply bind_ok in H. destruct H as (a & Ha & H).
    apply bind_ok in H. destruct H as (b & Hb & H). apply ok_inj in H. subst bs.
    cbn [forallb] in Hx. apply andb_true_iff in Hx. destruct Hx as [Hc Hx].
    destruct (rd_lp24_item c a b Ha) as [Hr Hne].
    destruct fuel as [|f]; [cbn in Hf; lia|].
    destruct a as [|a0 a']; [congruence|].
    cbn [chain_tail app]. change (a0 :: a' ++ b) with ((a0 :: a') ++ b). rewrite Hr, Hc.
    rewrite (IH b Hx Hb f) by (cbn in Hf; lia). reflexivity.
Qed.

Lemma rd_chains_nil fuel certs : rd_chains x509ok fuel certs [] = Ok [].
Proof. destruct fuel; reflexivity. Qed.

Lemma chain_okb_inv certs ch : chain_okb x509ok certs ch = true ->
  exists leaf rest tl, certs = leaf :: rest /\ ch = leaf :: tl /\ forallb x509ok tl = true.
Proof.
  unfold chain_okb. destruct certs as [|leaf rest]; [discriminate|]. destruct ch as [|c0 tl]; [discriminate|].
  intros H. apply andb_true_iff in H. destruct H as [E Hx]. apply bytes_eqb_eq in E. subst c0.
  exists leaf, rest, tl. auto.
Qed.

Lemma rd_chains_ok certs chains : forall bs, forallb (chain_okb x509ok certs) chains = true ->
  cat_map chain_bytes chains = Ok bs ->
  forall fuel, (length chains <= fuel)%nat -> rd_chains x509ok fuel certs bs = Ok chains.
Proof.
  induction chains as [|ch chains IH]; intros bs Hw H fuel Hf.
  - cbn in H. apply ok_inj in H. subst bs. apply rd_chains_nil.
  - cbn [cat_map] in H. apply bind_ok in H. destruct H as (a & Ha & H).
    apply bind_ok in H. destruct H as (b & Hb & H). apply ok_inj in H. subst bs.
    cbn [forallb] in Hw. apply andb_true_iff in Hw. destruct Hw as [Hc Hw].
    destruct (chain_okb_inv _ _ Hc) as (leaf & rest & tl & -> & -> & Hx).
    unfold chain_bytes in Ha. apply lp24_ok in Ha. destruct Ha as (cl & Ecl & Lcl & ->).
    destruct fuel as [|f]; [cbn in Hf; lia|].
    pose proof (be24_app_ne (blen cl) (cl ++ b)) as Hne. rewrite app_assoc in Hne.
    destruct ((be24 (blen cl) ++ cl) ++ b) as [|x0 xs] eqn:Ex; [congruence|].
    cbn [rd_chains]. rewrite <- Ex. rewrite rd_lp24_app by exact Lcl.
    assert (Hlen : (length tl <= length cl)%nat).
    { eapply cat_map_len; [|exact Ecl]. intros a0 b0. apply lp24_ne. }
    rewrite (chain_tail_ok tl cl Hx Ecl _ Hlen). cbn [bind].
    rewrite (IH b Hw Hb f) by (cbn in Hf; lia). reflexivity.
Qed.

Lemma chain_bytes_ne ch out : chain_bytes ch = Ok out -> out <> [].
Proof.
  unfold chain_bytes. intros H. apply lp24_ok in H. destruct H as (b & _ & _ & ->). apply be24_app_ne.
Qed.
End Parse.

(* ---------- SessionState.Bytes / ParseSessionState ---------- *)
Lemma forallb_nonnil (l : list bytes) : forallb (fun x => negb (is_nil x)) l = true -> Forall nonnil l.
Proof.
  intros H. apply Forall_forall. intros x Hx. rewrite forallb_forall in H. specialize (H x Hx).
  destruct x; [discriminate | unfold nonnil; discriminate].
Qed.
Lemma negb_is_nil {A} (l : list A) : negb (is_nil l) = true -> l <> [].
Proof. destruct l; [discriminate | discriminate]. Qed.

Lemma rd_u8_app x r : rd_u8 ([x] ++ r) = Some (x, r).
Proof. reflexivity. Qed.

Theorem state_codec_roundtrip (x509ok : bytes -> bool) (s : state) (b : bytes) :
  wf_state x509ok s -> state_bytes s = Ok b -> parse_state x509ok b = Ok s.
Proof.
  intros Hwf H. destruct s as [version isClient suite createdAt secret extra ems early certs ocsp scts chains alpn useBy ageAdd].
  unfold wf_state, wf_stateb in Hwf. cbn [s_version s_isClient s_suite s_createdAt s_secret s_extra s_ems s_early s_certs s_ocsp s_scts s_chains s_alpn s_useBy s_ageAdd] in Hwf.
  rewrite !andb_true_iff in Hwf.
  destruct Hwf as [[[[[[[[[[[Wv Wsu] Wcr] Wsec] Wocsp] Wscts] Wnil] Wx] Wch] Walpn] Wcl] Wtail].
  unfold state_bytes in H. cbn [s_version s_isClient s_suite s_createdAt s_secret s_extra s_ems s_early s_certs s_ocsp s_scts s_chains s_alpn s_useBy s_ageAdd] in H.
  apply bind_ok in H. destruct H as (secE & Hsec & H).
  apply bind_ok in H. destruct H as (extE & Hext & H).
  apply bind_ok in H. destruct H as (certE & Hcert & H).
  apply bind_ok in H. destruct H as (chE & Hch & H).
  apply bind_ok in H. destruct H as (alpnE & Halpn & H).
  apply ok_inj in H. subst b.
  apply lp8_ok in Hsec. destruct Hsec as (sec' & Es & Ls & ->). assert (sec' = secret) by congruence; subst sec'.
  apply lp24_ok in Hext. destruct Hext as (eb & Eeb & Leb & ->).
  apply lp24_ok in Hch. destruct Hch as (cb & Ecb & Lcb & ->).
  assert (Hcw : cert_wf certs ocsp scts).
  { unfold cert_wf. split; [|split].
    - destruct ocsp; [apply negb_is_nil; exact Wocsp | exact I].
    - destruct scts as [l|]; [|exact I]. apply andb_true_iff in Wscts. destruct Wscts as [A B].
      split; [apply negb_is_nil; exact A | apply forallb_nonnil; exact B].
    - intros ->. cbn in Wnil. destruct ocsp, scts; try discriminate. auto. }
  assert (Hchlen : (length chains <= length cb)%nat).
  { eapply cat_map_len; [|exact Ecb]. apply chain_bytes_ne. }
  unfold parse_state.
  rewrite rd_be16 by lia. cbn [opt_res bind]. rewrite rd_u8_app. cbn [opt_res bind].
  assert (Htyp : ((if isClient then 2 else 1) =? 1) || ((if isClient then 2 else 1) =? 2) = true) by (destruct isClient; reflexivity).
  rewrite Htyp. cbn [guard bind].
  rewrite rd_be16 by lia. cbn [opt_res bind].
  rewrite rd_be64 by lia. cbn [opt_res bind].
  rewrite rd_lp8_app by exact Ls. cbn [opt_res bind].
  rewrite rd_lp24_app by exact Leb. cbn [opt_res bind]. rewrite rd_u8_app. cbn [opt_res bind]. rewrite rd_u8_app. cbn [opt_res bind].
  rewrite Wsec. cbn [guard bind].
  rewrite (unmarshal_marshal certs ocsp scts certE _ Hcw Hcert). cbn [opt_res bind].
  rewrite (rd_list24 extra eb Eeb). cbn [opt_res bind].
  assert (Hems : (b2n ems =? 0) || (b2n ems =? 1) = true) by (destruct ems; reflexivity).
  assert (Hearly : (b2n early =? 0) || (b2n early =? 1) = true) by (destruct early; reflexivity).
  rewrite Hems, Hearly. cbn [guard bind]. rewrite Wx. cbn [guard bind].
  rewrite rd_lp24_app by exact Lcb. cbn [opt_res bind].
  rewrite (rd_chains_ok x509ok certs chains cb Wch Ecb _ Hchlen). cbn [bind].
  assert (Hems1 : (b2n ems =? 1) = ems) by (destruct ems; reflexivity).
  assert (Hearly1 : (b2n early =? 1) = early) by (destruct early; reflexivity).
  rewrite Hems1, Hearly1.
  assert (Halp : exists al, (if early then opt_res (rd_lp8 (alpnE ++ (if isClient && (VersionTLS13 <=? version) then be64 useBy ++ be32 ageAdd else [])))
                 else Ok (al, alpnE ++ (if isClient && (VersionTLS13 <=? version) then be64 useBy ++ be32 ageAdd else [])))
                = Ok (alpn, if isClient && (VersionTLS13 <=? version) then be64 useBy ++ be32 ageAdd else []) /\ al = []).
  { exists []. split; [|reflexivity]. destruct early.
    - apply lp8_ok in Halpn. destruct Halpn as (a' & Ea & La & ->). assert (a' = alpn) by congruence; subst a'.
      rewrite rd_lp8_app by exact La. reflexivity.
    - apply ok_inj in Halpn. subst alpnE. cbn in Walpn. apply is_nil_true_iff in Walpn. subst alpn. reflexivity. }
  destruct Halp as (al & Halp & ->).
  match goal with |- bind ?X _ = _ => replace X with (Ok (alpn, if isClient && (VersionTLS13 <=? version) then be64 useBy ++ be32 ageAdd else [])) end.
  cbn [bind].
  destruct isClient.
  - cbn [negb andb] in *. replace (2 =? 2) with true by reflexivity. cbn [negb].
    rewrite (is_nil_false certs) by (apply negb_is_nil; exact Wcl). cbn [negb guard bind].
    destruct (VersionTLS13 <=? version) eqn:Ev.
    + replace (version <? VersionTLS13) with false by lia.
      apply andb_true_iff in Wtail. destruct Wtail as [Wu Wa].
      rewrite rd_be64 by lia. cbn [opt_res bind].
      rewrite <- (app_nil_r (be32 ageAdd)). rewrite rd_be32 by lia. cbn [opt_res bind is_nil guard]. reflexivity.
    + replace (version <? VersionTLS13) with true by lia. cbn [is_nil guard bind].
      apply andb_true_iff in Wtail. destruct Wtail as [Wu Wa].
      apply N.eqb_eq in Wu, Wa. subst. reflexivity.
  - cbn [andb negb] in *. replace (1 =? 2) with false by reflexivity. cbn [negb is_nil guard bind].
    apply andb_true_iff in Wtail. destruct Wtail as [Wu Wa].
    apply N.eqb_eq in Wu, Wa. subst. reflexivity.
Qed.

(* ---------- ticket framing ---------- *)
Section Crypto.
Variable hmac : bytes -> bytes -> bytes.
Variable ctr : bytes -> bytes -> bytes -> bytes.
Variable sha512 : bytes -> bytes.
Variable x509ok : bytes -> bool.
Hypothesis ctr_inv : forall k iv x, ctr k iv (ctr k iv x) = x.
Hypothesis ctr_len : forall k iv x, length (ctr k iv x) = length x.
Hypothesis hmac_len : forall k m, length (hmac k m) = 32%nat.

Notation decrypt_ticket := (decrypt_ticket hmac ctr).
Notation encrypt_ticket := (encrypt_ticket hmac ctr).
Notation try_keys := (try_keys hmac ctr).
Notation DecryptTicket := (DecryptTicket hmac ctr x509ok).
Notation EncryptTicket := (EncryptTicket hmac ctr).

(* the pieces decryptTicket cuts a ticket into *)
Definition t_auth (t : bytes) : bytes := firstn (length t - macLen) t.
Definition t_tag (t : bytes) : bytes := skipn (length t - macLen) t.
Definition t_iv (t : bytes) : bytes := firstn ivLen t.
Definition t_ct (t : bytes) : bytes := skipn ivLen (t_auth t).

Lemma t_split t : t = t_auth t ++ t_tag t.
Proof. unfold t_auth, t_tag. symmetry. apply firstn_skipn. Qed.

Lemma decrypt_unfold keys t : (ivLen + macLen <= length t)%nat ->
  decrypt_ticket keys t = try_keys keys (t_iv t) (t_ct t) (t_auth t) (t_tag t).
Proof.
  intros H. unfold Ticket.decrypt_ticket.
  destruct (length t <? ivLen + macLen)%nat eqn:E; [apply Nat.ltb_lt in E; lia|]. reflexivity.
Qed.

(* framing of a sealed ticket: iv || CTR(state) || HMAC(iv || CTR(state)) *)
Lemma sealed_parts k rest iv st t : length iv = ivLen ->
  encrypt_ticket (k :: rest) iv st = Ok t ->
  t = iv ++ ctr (k_aes k) iv st ++ hmac (k_hmac k) (iv ++ ctr (k_aes k) iv st) /\
  t_iv t = iv /\ t_ct t = ctr (k_aes k) iv st /\ t_auth t = iv ++ ctr (k_aes k) iv st /\
  t_tag t = hmac (k_hmac k) (iv ++ ctr (k_aes k) iv st) /\
  length t = (ivLen + length st + macLen)%nat.
Proof.
  intros Hiv H. cbn [Ticket.encrypt_ticket] in H. apply ok_inj in H. subst t.
  set (ct := ctr (k_aes k) iv st). set (tag := hmac (k_hmac k) (iv ++ ct)).
  assert (Lt : length tag = macLen) by apply hmac_len.
  assert (Lc : length ct = length st) by apply ctr_len.
  assert (La : (length ((iv ++ ct) ++ tag) - macLen = length (iv ++ ct))%nat) by (rewrite !app_length; lia).
  assert (A : t_auth ((iv ++ ct) ++ tag) = iv ++ ct).
  { unfold t_auth. rewrite La. rewrite firstn_app, Nat.sub_diag, firstn_all, firstn_O, app_nil_r. reflexivity. }
  repeat split.
  - rewrite app_assoc. reflexivity.
  - unfold t_iv. rewrite <- app_assoc. rewrite firstn_app, <- Hiv, Nat.sub_diag, firstn_all, firstn_O, app_nil_r. reflexivity.
  - unfold t_ct. rewrite A. rewrite skipn_app, <- Hiv, Nat.sub_diag, skipn_all. reflexivity.
  - exact A.
  - unfold t_tag. rewrite La. rewrite skipn_app, Nat.sub_diag, skipn_all. reflexivity.
  - rewrite !app_length. lia.
Qed.

Lemma try_keys_in keys iv ct auth tag k :
  In k keys -> hmac (k_hmac k) auth = tag ->
  (forall k', In k' keys -> hmac (k_hmac k') auth = tag -> k_aes k' = k_aes k) ->
  try_keys keys iv ct auth tag = Some (ctr (k_aes k) iv ct).
Proof.
  induction keys as [|k0 keys IH]; intros Hin Hk Hconf; [destruct Hin|].
  cbn [Ticket.try_keys]. destruct (bytes_eqb tag (hmac (k_hmac k0) auth)) eqn:E.
  - apply bytes_eqb_eq in E. rewrite (Hconf k0 (or_introl eq_refl) (eq_sym E)). reflexivity.
  - destruct Hin as [-> | Hin].
    + rewrite Hk in E. assert (bytes_eqb tag tag = true) by (apply bytes_eqb_eq; reflexivity). congruence.
    + apply IH; auto. intros k' Hk'. apply Hconf. right. exact Hk'.
Qed.

Lemma try_keys_some keys iv ct auth tag pt :
  try_keys keys iv ct auth tag = Some pt ->
  exists k, In k keys /\ hmac (k_hmac k) auth = tag /\ pt = ctr (k_aes k) iv ct.
Proof.
  induction keys as [|k0 keys IH]; cbn [Ticket.try_keys]; [discriminate|].
  destruct (bytes_eqb tag (hmac (k_hmac k0) auth)) eqn:E; intros H.
  - apply bytes_eqb_eq in E. exists k0. split; [left; reflexivity|]. split; [auto | congruence].
  - destruct (IH H) as (k & Hin & Hm & Hp). exists k. split; [right; exact Hin | auto].
Qed.

Lemma try_keys_none keys iv ct auth tag :
  (forall k, In k keys -> hmac (k_hmac k) auth <> tag) -> try_keys keys iv ct auth tag = None.
Proof.
  induction keys as [|k0 keys IH]; intros H; [reflexivity|]. cbn [Ticket.try_keys].
  destruct (bytes_eqb tag (hmac (k_hmac k0) auth)) eqn:E.
  - apply bytes_eqb_eq in E. exfalso. apply (H k0 (or_introl eq_refl)). auto.
  - apply IH. intros k Hk. apply H. right. exact Hk.
Qed.

(* round trip: the sealing key is configured somewhere in the list used to decrypt, and no
   configured key that validates the same tag has a different AES key *)
Theorem ticket_roundtrip keysE restE keysD k iv s t :
  keysE = k :: restE -> In k keysD -> length iv = ivLen -> wf_state x509ok s ->
  (forall k', In k' keysD -> hmac (k_hmac k') (t_auth t) = t_tag t -> k_aes k' = k_aes k) ->
  EncryptTicket keysE iv s = Ok t -> DecryptTicket keysD t = Some s.
Proof.
  intros -> Hin Hiv Hwf Hconf H. unfold Ticket.EncryptTicket in H.
  apply bind_ok in H. destruct H as (st & Hst & H).
  destruct (sealed_parts k restE iv st t Hiv H) as (_ & Tiv & Tct & Tau & Ttag & Tlen).
  unfold Ticket.DecryptTicket. rewrite decrypt_unfold by lia.
  rewrite (try_keys_in keysD _ _ _ _ k Hin) ; [| rewrite Tau, Ttag; reflexivity | exact Hconf].
  rewrite Tiv, Tct, ctr_inv. rewrite (state_codec_roundtrip x509ok s st Hwf Hst). reflexivity.
Qed.

(* the sealing key is the first key of the decrypting list: no side condition *)
Theorem ticket_roundtrip_head k restE restD iv s t :
  length iv = ivLen -> wf_state x509ok s ->
  EncryptTicket (k :: restE) iv s = Ok t -> DecryptTicket (k :: restD) t = Some s.
Proof.
  intros Hiv Hwf H. unfold Ticket.EncryptTicket in H.
  apply bind_ok in H. destruct H as (st & Hst & H).
  destruct (sealed_parts k restE iv st t Hiv H) as (_ & Tiv & Tct & Tau & Ttag & Tlen).
  unfold Ticket.DecryptTicket. rewrite decrypt_unfold by lia. cbn [Ticket.try_keys].
  rewrite Tau, Ttag. replace (bytes_eqb _ _) with true by (symmetry; apply bytes_eqb_eq; reflexivity).
  rewrite Tiv, Tct, ctr_inv. rewrite (state_codec_roundtrip x509ok s st Hwf Hst). reflexivity.
Qed.

(* acceptance => a valid MAC under a configured key over every byte that is not the tag, and the
   state is the parse of the CTR decryption under that same key *)
Theorem ticket_mac_covers_all keys t s : DecryptTicket keys t = Some s ->
  (ivLen + macLen <= length t)%nat /\
  exists k, In k keys /\ hmac (k_hmac k) (t_auth t) = t_tag t /\
            parse_state x509ok (ctr (k_aes k) (t_iv t) (t_ct t)) = Ok s.
Proof.
  unfold Ticket.DecryptTicket. intros H.
  destruct (decrypt_ticket keys t) as [pt|] eqn:D; [|discriminate].
  assert (L : (ivLen + macLen <= length t)%nat).
  { unfold Ticket.decrypt_ticket in D. destruct (length t <? ivLen + macLen)%nat eqn:E; [discriminate|].
    apply Nat.ltb_ge in E. exact E. }
  split; [exact L|]. rewrite decrypt_unfold in D by exact L.
  destruct (try_keys_some _ _ _ _ _ _ D) as (k & Hin & Hm & ->).
  exists k. split; [exact Hin|]. split; [exact Hm|].
  destruct (parse_state x509ok _) as [s'| |]; congruence.
Qed.

Theorem ticket_short keys t : (length t < ivLen + macLen)%nat -> DecryptTicket keys t = None.
Proof.
  intros H. unfold Ticket.DecryptTicket, Ticket.decrypt_ticket.
  replace (length t <? ivLen + macLen)%nat with true by (symmetry; apply Nat.ltb_lt; exact H). reflexivity.
Qed.

(* no configured key validates the tag (e.g. the sealing key was rotated out) => no state *)
Theorem rotated_out keys t :
  (forall k, In k keys -> hmac (k_hmac k) (t_auth t) <> t_tag t) -> DecryptTicket keys t = None.
Proof.
  intros H. unfold Ticket.DecryptTicket.
  destruct (length t <? ivLen + macLen)%nat eqn:E.
  - unfold Ticket.decrypt_ticket. rewrite E. reflexivity.
  - apply Nat.ltb_ge in E. rewrite decrypt_unfold by exact E. rewrite try_keys_none by exact H. reflexivity.
Qed.

(* replacing the tag by a different 32-byte string that no other configured key produces => no state *)
Theorem ticket_tag_flip k others iv s t tag' :
  length iv = ivLen -> EncryptTicket (k :: others) iv s = Ok t ->
  length tag' = macLen -> tag' <> t_tag t ->
  (forall k', In k' others -> hmac (k_hmac k') (t_auth t) <> tag') ->
  DecryptTicket (k :: others) (t_auth t ++ tag') = None.
Proof.
  intros Hiv H Ltag Hne Hoth. unfold Ticket.EncryptTicket in H.
  apply bind_ok in H. destruct H as (st & Hst & H).
  destruct (sealed_parts k others iv st t Hiv H) as (_ & Tiv & Tct & Tau & Ttag & Tlen).
  assert (La : length (t_auth t) = (ivLen + length st)%nat) by (rewrite Tau, app_length, ctr_len; lia).
  assert (A : t_auth (t_auth t ++ tag') = t_auth t).
  { unfold t_auth at 1. rewrite app_length, Ltag. replace (length (t_auth t) + macLen - macLen)%nat with (length (t_auth t)) by lia.
    rewrite firstn_app, Nat.sub_diag, firstn_all, firstn_O, app_nil_r. reflexivity. }
  assert (T : t_tag (t_auth t ++ tag') = tag').
  { unfold t_tag. rewrite app_length, Ltag. replace (length (t_auth t) + macLen - macLen)%nat with (length (t_auth t)) by lia.
    rewrite skipn_app, Nat.sub_diag, skipn_all. reflexivity. }
  apply rotated_out. rewrite A, T. intros k' [<- | Hk'].
  - rewrite Tau in *. rewrite <- Ttag. congruence.
  - apply Hoth. exact Hk'.
Qed.

(* ---------- key derivation and installation ---------- *)
Hypothesis sha512_len : forall b, length (sha512 b) = 64%nat.
Notation ticket_key_from_bytes := (ticket_key_from_bytes sha512).
Notation TicketKeyFromBytes := (TicketKeyFromBytes sha512).
Notation set_session_ticket_keys := (set_session_ticket_keys sha512).
Notation ticket_keys := (ticket_keys sha512).
Notation rotate := (rotate sha512).

Lemma key_lengths b : length (k_aes (ticket_key_from_bytes b)) = 16%nat /\ length (k_hmac (ticket_key_from_bytes b)) = 16%nat.
Proof.
  unfold Ticket.ticket_key_from_bytes. cbn [k_aes k_hmac].
  rewrite !firstn_length, !skipn_length, sha512_len. split; reflexivity.
Qed.

(* the slices: hashed[16:32] and hashed[32:48] *)
Lemma key_slices b h : sha512 b = h ->
  ticket_key_from_bytes b = mkKey (firstn 16 (skipn 16 h)) (firstn 16 (skipn 32 h)).
Proof. intros <-. reflexivity. Qed.

Theorem keys_same_derivation c now b bs c' :
  set_session_ticket_keys c now (b :: bs) = Ok c' ->
  map fst (c_keys c') = map (fun x => to_private (TicketKeyFromBytes x)) (b :: bs) /\
  to_private (TicketKeyFromBytes b) = ticket_key_from_bytes b.
Proof.
  intros H. cbn [Ticket.set_session_ticket_keys] in H. apply ok_inj in H. subst c'.
  cbn [c_keys]. rewrite map_map. split.
  - apply map_ext. intros x. cbn [fst]. unfold Ticket.TicketKeyFromBytes, to_private, to_public.
    destruct (ticket_key_from_bytes x). reflexivity.
  - unfold Ticket.TicketKeyFromBytes, to_private, to_public. destruct (ticket_key_from_bytes b). reflexivity.
Qed.

Lemma deprecated_not_zero r : bytes_eqb (deprecated ++ r) zero32 = false.
Proof. reflexivity. Qed.

(* with explicitly installed keys, ticketKeys returns exactly those (and leaves them installed) *)
Lemma ticket_keys_explicit c now rnd :
  c_disabled c = false -> c_keys c <> [] -> (bytes_eqb (c_stk c) zero32 = false \/ (32 <= length rnd)%nat) ->
  exists c' rnd', ticket_keys c now rnd = Ok (map fst (c_keys c), c', rnd') /\
    c_keys c' = c_keys c /\ c_disabled c' = false /\ bytes_eqb (c_stk c') zero32 = false /\
    (bytes_eqb (c_stk c) zero32 = false -> rnd' = rnd).
Proof.
  intros Hd Hk Hr. unfold Ticket.ticket_keys. rewrite Hd. unfold init_legacy.
  rewrite (is_nil_false _ Hk). cbn [negb]. rewrite orb_true_r.
  destruct (bytes_eqb (c_stk c) zero32) eqn:Ez; cbn [negb andb].
  - destruct Hr as [Hr | Hr]; [discriminate|]. unfold take_rand.
    replace (32 <=? length rnd)%nat with true by (symmetry; apply Nat.leb_le; exact Hr).
    cbn [bind c_keys]. rewrite (is_nil_false _ Hk). cbn [negb].
    eexists _, _. split; [reflexivity|]. cbn [c_keys c_disabled c_stk].
    repeat split; auto. discriminate.
  - cbn [bind]. rewrite (is_nil_false _ Hk). cbn [negb].
    eexists _, _. split; [reflexivity|]. auto.
Qed.

(* SetSessionTicketKeys overrides every other key source: whatever the Config held before — a user-set
   SessionTicketKey field, automatically rotated keys, an earlier list — after the call ticketKeys returns exactly
   the new list, now and on every later call (any clock, any randomness), and leaves it installed. *)
Theorem set_keys_overrides c now b bs c1 :
  c_disabled c = false -> set_session_ticket_keys c now (b :: bs) = Ok c1 ->
  forall now1 rnd1, (bytes_eqb (c_stk c) zero32 = false \/ (32 <= length rnd1)%nat) ->
  exists c2 rnd2, ticket_keys c1 now1 rnd1 = Ok (map ticket_key_from_bytes (b :: bs), c2, rnd2) /\
    forall now2 rnd3, exists c3, ticket_keys c2 now2 rnd3 = Ok (map ticket_key_from_bytes (b :: bs), c3, rnd3).
Proof.
  intros Hd Hset now1 rnd1 Hr. cbn [Ticket.set_session_ticket_keys] in Hset. apply ok_inj in Hset.
  assert (K1 : c_keys c1 <> []) by (subst c1; cbn; discriminate).
  assert (D1 : c_disabled c1 = false) by (subst c1; exact Hd).
  assert (S1 : c_stk c1 = c_stk c) by (subst c1; reflexivity).
  assert (M1 : map fst (c_keys c1) = map ticket_key_from_bytes (b :: bs)) by (subst c1; cbn [c_keys]; rewrite map_map; reflexivity).
  rewrite <- S1 in Hr.
  destruct (ticket_keys_explicit c1 now1 rnd1 D1 K1 Hr) as (c2 & rnd2 & T1 & Kk & Kd & Kz & _).
  exists c2, rnd2. split; [rewrite T1, M1; reflexivity|].
  intros now2 rnd3. assert (K2 : c_keys c2 <> []) by (rewrite Kk; exact K1).
  destruct (ticket_keys_explicit c2 now2 rnd3 Kd K2 (or_introl Kz)) as (c3 & r3 & T2 & _ & _ & _ & Hr3).
  rewrite (Hr3 Kz) in T2. exists c3. rewrite T2, Kk, M1. reflexivity.
Qed.

(* key rotation by SetSessionTicketKeys: only the last call matters *)
Theorem rotate_last c now hist ks c' :
  Forall (fun l => l <> []) hist -> ks <> [] -> rotate c now (hist ++ [ks]) = Ok c' ->
  map fst (c_keys c') = map ticket_key_from_bytes ks /\ c_disabled c' = c_disabled c /\ c_stk c' = c_stk c.
Proof.
  revert c. induction hist as [|h hist IH]; intros c Hh Hks H.
  - cbn [app Ticket.rotate] in H. destruct ks as [|k0 ks]; [congruence|].
    cbn [Ticket.set_session_ticket_keys bind] in H. apply ok_inj in H. subst c'.
    cbn [c_keys c_disabled c_stk]. rewrite map_map. cbn [fst]. auto.
  - inversion Hh as [|? ? Hne Hrest]; subst. cbn [app Ticket.rotate] in H.
    destruct h as [|h0 h]; [congruence|]. cbn [Ticket.set_session_ticket_keys bind] in H.
    destruct (IH _ Hrest Hks H) as (A & B & C). cbn [c_disabled c_stk] in B, C. auto.
Qed.

(* public API level: after SetSessionTicketKeys, a ticket made by Config.EncryptTicket is
   opened by Config.DecryptTicket on the same Config *)
Theorem config_roundtrip c now now' rnd b bs c1 s t c2 rnd2 :
  c_disabled c = false -> wf_state x509ok s ->
  set_session_ticket_keys c now (b :: bs) = Ok c1 ->
  cfg_encrypt hmac ctr sha512 c1 now rnd s = Ok (Ok t, c2, rnd2) ->
  exists c3, cfg_decrypt hmac ctr sha512 x509ok c2 now' rnd2 t = Ok (Some s, c3, rnd2).
Proof.
  intros Hd Hwf Hset Henc.
  cbn [Ticket.set_session_ticket_keys] in Hset. apply ok_inj in Hset.
  assert (K1 : c_keys c1 <> []) by (subst c1; cbn; discriminate).
  assert (D1 : c_disabled c1 = false) by (subst c1; exact Hd).
  unfold cfg_encrypt in Henc.
  destruct (Ticket.ticket_keys sha512 c1 now rnd) as [[[keys cA] rA]| |] eqn:TK; cbn [bind] in Henc; try discriminate.
  destruct (state_bytes s) as [st| |] eqn:Hst; try discriminate.
  destruct keys as [|k0 keys]; [discriminate|].
  destruct (take_rand ivLen rA) as [[iv rB]|] eqn:TR; [|discriminate].
  assert (Ht : encrypt_ticket (k0 :: keys) iv st = Ok t) by congruence.
  assert (cA = c2 /\ rB = rnd2) as (-> & ->) by (split; congruence).
  assert (Hiv : length iv = ivLen).
  { unfold take_rand in TR. destruct (ivLen <=? length rA)%nat eqn:E; [|discriminate].
    apply Nat.leb_le in E. assert (Eiv : iv = firstn ivLen rA) by congruence. rewrite Eiv. apply firstn_length_le. exact E. }
  (* what ticket_keys returned the first time *)
  assert (Hcase : bytes_eqb (c_stk c1) zero32 = false \/ (32 <= length rnd)%nat).
  { destruct (bytes_eqb (c_stk c1) zero32) eqn:Ez; [right | left; reflexivity].
    unfold Ticket.ticket_keys in TK. rewrite D1 in TK. unfold init_legacy in TK. rewrite Ez in TK.
    cbn [negb andb] in TK. unfold take_rand in TK.
    destruct (32 <=? length rnd)%nat eqn:E; [apply Nat.leb_le in E; exact E | cbn [bind] in TK; discriminate]. }
  destruct (ticket_keys_explicit c1 now rnd D1 K1 Hcase) as (cA' & rA' & TK' & Kk & Kd & Kz & _).
  rewrite TK in TK'. injection TK' as Ekeys <- <-.
  assert (K2 : c_keys c2 <> []) by (rewrite Kk; exact K1).
  destruct (ticket_keys_explicit c2 now' rnd2 Kd K2 (or_introl Kz)) as (c3 & r3 & TK3 & _ & _ & _ & Hr3).
  specialize (Hr3 Kz). subst r3.
  unfold cfg_decrypt. rewrite TK3. cbn [bind]. exists c3.
  rewrite Kk, <- Ekeys.
  assert (Henc' : EncryptTicket (k0 :: keys) iv s = Ok t).
  { unfold Ticket.EncryptTicket. rewrite Hst. cbn [bind]. exact Ht. }
  rewrite (ticket_roundtrip_head k0 keys keys iv s t Hiv Hwf Henc'). reflexivity.
Qed.

(* ---------- a family of configs: clones are independent values ---------- *)
Notation sstep := (sstep sha512).
Notation srun := (srun sha512).

Lemma nth_upd_same {A} (l : list A) i x c : nth_error l i = Some c -> nth_error (upd l i x) i = Some x.
Proof. revert i. induction l as [|y l IH]; intros [|i] H; cbn in *; try discriminate; auto. Qed.
Lemma nth_upd_other {A} (l : list A) i j x : i <> j -> nth_error (upd l i x) j = nth_error l j.
Proof. revert i j. induction l as [|y l IH]; intros [|i] [|j] H; cbn; auto; try congruence. Qed.
Lemma upd_length {A} (l : list A) i x : length (upd l i x) = length l.
Proof. revert i. induction l as [|y l IH]; intros [|i]; cbn; auto. Qed.

Definition touches (j : nat) (op : sop) : Prop := match op with SSet i _ => i = j | SClone _ => False end.

(* one step: every other config keeps its value; a clone equals its source and changes nobody *)
Lemma sstep_frame now st op st' j c : sstep now st op = Ok st' -> ~ touches j op ->
  nth_error st j = Some c -> nth_error st' j = Some c.
Proof.
  intros H Ht Hj. destruct op as [i ks | i]; cbn [Ticket.sstep] in H.
  - destruct (nth_error st i) as [ci|] eqn:Ei; [|discriminate].
    apply bind_ok in H. destruct H as (c' & _ & H). apply ok_inj in H. subst st'.
    rewrite nth_upd_other; [exact Hj | cbn in Ht; congruence].
  - destruct (nth_error st i) as [ci|] eqn:Ei; [|discriminate]. apply ok_inj in H. subst st'.
    rewrite nth_error_app1; [exact Hj | apply nth_error_Some; congruence].
Qed.

Theorem clone_is_copy now st i st' : sstep now st (SClone i) = Ok st' ->
  nth_error st' (length st) = nth_error st i /\ forall j, (j < length st)%nat -> nth_error st' j = nth_error st j.
Proof.
  cbn [Ticket.sstep]. destruct (nth_error st i) as [ci|] eqn:Ei; [|discriminate]. intros H. apply ok_inj in H. subst st'.
  split.
  - rewrite nth_error_app2, Nat.sub_diag by lia. reflexivity.
  - intros j Hj. apply nth_error_app1. exact Hj.
Qed.

Lemma srun_frame now ops : forall st st' j c, srun now st ops = Ok st' ->
  Forall (fun op => ~ touches j op) ops -> nth_error st j = Some c -> nth_error st' j = Some c.
Proof.
  induction ops as [|op ops IH]; intros st st' j c H Hf Hj.
  - cbn in H. apply ok_inj in H. subst. exact Hj.
  - cbn [Ticket.srun] in H. apply bind_ok in H. destruct H as (st1 & H1 & H).
    inversion Hf as [|? ? Hop Hrest]; subst.
    eapply IH; [exact H | exact Hrest | eapply sstep_frame; eauto].
Qed.

Lemma srun_app now a b st st' : srun now st (a ++ b) = Ok st' ->
  exists st1, srun now st a = Ok st1 /\ srun now st1 b = Ok st'.
Proof.
  revert st. induction a as [|op a IH]; intros st H.
  - exists st. split; [reflexivity | exact H].
  - cbn [app Ticket.srun] in H. apply bind_ok in H. destruct H as (s1 & H1 & H).
    destruct (IH _ H) as (s2 & A & B). exists s2. split; [|exact B]. cbn [Ticket.srun]. rewrite H1. exact A.
Qed.

(* In any history over any family of configs (rotations of other configs, clones of anything in between),
   exactly the last list set on THIS config is in force on it. *)
Theorem family_last_set now st pre j ks suf st' :
  ks <> [] -> srun now st (pre ++ SSet j ks :: suf) = Ok st' ->
  Forall (fun op => ~ touches j op) suf ->
  exists c, nth_error st' j = Some c /\ map fst (c_keys c) = map ticket_key_from_bytes ks.
Proof.
  intros Hks H Hsuf. apply srun_app in H. destruct H as (s1 & _ & H).
  cbn [Ticket.srun] in H. apply bind_ok in H. destruct H as (s2 & Hstep & H).
  cbn [Ticket.sstep] in Hstep. destruct (nth_error s1 j) as [cj|] eqn:Ej; [|discriminate].
  apply bind_ok in Hstep. destruct Hstep as (c' & Hset & Hs2). apply ok_inj in Hs2. subst s2.
  destruct ks as [|k0 ks]; [congruence|]. cbn [Ticket.set_session_ticket_keys] in Hset. apply ok_inj in Hset.
  exists c'. split.
  - eapply srun_frame; [exact H | exact Hsuf | eapply nth_upd_same; exact Ej].
  - subst c'. cbn [c_keys]. rewrite map_map. reflexivity.
Qed.

(* a config that is never set after being cloned keeps the keys its source had at clone time *)
Theorem family_clone_inherits now st i st1 suf st' c :
  sstep now st (SClone i) = Ok st1 -> nth_error st i = Some c -> srun now st1 suf = Ok st' ->
  Forall (fun op => ~ touches (length st) op) suf ->
  nth_error st' (length st) = Some c.
Proof.
  intros Hc Hi H Hsuf. destruct (clone_is_copy _ _ _ _ Hc) as [Hnew _].
  eapply srun_frame; [exact H | exact Hsuf | rewrite Hnew; exact Hi].
Qed.

(* whole-input framing: an accepted ticket IS iv(16) || ct || HMAC_k(iv || ct) for a configured k — nothing may
   precede the iv or follow the tag *)
Theorem ticket_whole_input keys t s : DecryptTicket keys t = Some s ->
  exists k, In k keys /\ length (t_iv t) = ivLen /\
    t = t_iv t ++ t_ct t ++ hmac (k_hmac k) (t_iv t ++ t_ct t) /\
    parse_state x509ok (ctr (k_aes k) (t_iv t) (t_ct t)) = Ok s.
Proof.
  intros H. destruct (ticket_mac_covers_all keys t s H) as (L & k & Hin & Hm & Hp).
  assert (La : (ivLen <= length (t_auth t))%nat).
  { unfold t_auth. rewrite firstn_length. unfold ivLen, macLen in *. lia. }
  assert (Ha : t_auth t = t_iv t ++ t_ct t).
  { unfold t_ct. rewrite <- (firstn_skipn ivLen (t_auth t)) at 1. f_equal.
    unfold t_iv, t_auth. rewrite firstn_firstn. f_equal. unfold ivLen, macLen in *. lia. }
  exists k. split; [exact Hin|]. split.
  - unfold t_iv. apply firstn_length_le. unfold ivLen, macLen in *. lia.
  - split; [|exact Hp]. rewrite <- Ha, Hm, app_assoc. rewrite <- Ha. apply t_split.
Qed.

End Crypto.

(* ---------- forged ClientSessionState ---------- *)
Theorem forged_state_fields vers suite secret certs chains v' su' ms' :
  let s0 := make_client_session_state vers suite secret certs chains in
  s_version s0 = vers /\ s_suite s0 = suite /\ s_secret s0 = secret /\ s_certs s0 = certs /\ s_chains s0 = chains /\
  let s1 := set_master_secret (set_cipher_suite (set_vers s0 v') su') ms' in
  s_version s1 = v' /\ s_suite s1 = su' /\ s_secret s1 = ms' /\ s_certs s1 = certs /\ s_chains s1 = chains.
Proof. cbn. repeat split. Qed.

(* C12's statements over the decision function of the current tree (Complete.client_run10: key selection after the C18
   repair, or before it with fixed = false). Every statement of Proofs/NegotiateP.v / NegotiateSessP.v quantifies over ALL
   views, and client_run10 is client_run_gen on a view that differs in cv_ecdhe only - a field neither [synced] nor any
   offered set mentions - so each one transfers. *)
From UV Require Import Base.Common Model.Negotiate Model.NegotiateSess Model.NegotiateKeys Model.NegotiateReport Proofs.NegotiateP Proofs.NegotiateSessP Proofs.NegotiateReportP.
From UV Require Model.KeyShare Model.Complete.

Lemma run10_eff fixed e v ks fl :
  Complete.client_run10 fixed e v ks fl = client_run_gen e (eff_view fixed v ks fl) fl.
Proof. reflexivity. Qed.

Lemma synced_eff fixed v ks fl w : synced (eff_view fixed v ks fl) w = synced v w.
Proof. reflexivity. Qed.

Lemma sess10_none fixed e v ks ems fl :
  client_run_sess10 fixed e v ks None ems fl = Complete.client_run10 fixed e v ks fl.
Proof. reflexivity. Qed.

Section Keys.
  Variables (fixed : bool) (e : env) (v : client_view) (ks : KeyShare.kshape) (w : wire_view) (fl : flight) (st : conn_state).
  Hypothesis Hsync : synced v w = true.
  Hypothesis Hrun : Complete.client_run10 fixed e v ks fl = Complete st.

  Lemma wire10_suite13 :
    cs_vers st = V13 ->
    cs_suite st = h_suite (f_sh fl) /\ In (cs_suite st) (w_suites w) /\ In (cs_suite st) tls13_suites
    /\ (forall h, f_hrr fl = Some h -> h_suite h = cs_suite st).
  Proof. exact (wire_suite13 e (eff_view fixed v ks fl) w fl st Hsync Hrun). Qed.

  Lemma wire10_suite12 :
    cs_vers st <> V13 ->
    cs_suite st = h_suite (first_hello fl) /\ In (cs_suite st) (w_suites w) /\ In (cs_suite st) (e_impl12 e).
  Proof. exact (wire_suite12 e (eff_view fixed v ks fl) w fl st Hsync Hrun). Qed.

  Lemma wire10_group13 :
    cs_vers st = V13 ->
    cs_group st = h_share (f_sh fl)
    /\ match f_hrr fl with
       | None => In (cs_group st) (w_shares w)
       | Some h => (h_selgroup h = 0 /\ In (cs_group st) (w_shares w))
                   \/ (h_selgroup h <> 0 /\ cs_group st = h_selgroup h
                       /\ In (cs_group st) (w_groups w) /\ ~ In (cs_group st) (w_shares w))
       end.
  Proof. exact (wire_group13 e (eff_view fixed v ks fl) w fl st Hsync Hrun). Qed.

  Lemma wire10_alpn : cs_alpn st = [] \/ In (cs_alpn st) (w_alpn w).
  Proof. exact (wire_alpn e (eff_view fixed v ks fl) w fl st Hsync Hrun). Qed.

  Lemma wire10_compression :
    forall h, (f_hrr fl = Some h \/ (cs_vers st = V13 /\ h = f_sh fl) \/ (cs_vers st <> V13 /\ h = first_hello fl)) ->
              h_comp h = 0 /\ In (h_comp h) (w_comps w).
  Proof. exact (wire_compression e (eff_view fixed v ks fl) w fl st Hsync Hrun). Qed.

  Lemma wire10_psk : cs_vers st = V13 -> forall i, h_psk (f_sh fl) = Some i -> i < w_psk w.
  Proof. exact (wire_psk e (eff_view fixed v ks fl) w fl st Hsync Hrun). Qed.

  Lemma wire10_certcomp : cs_vers st = V13 -> cs_psk st = false -> forall a, f_ccert fl = Some a -> In a (w_ccalgs w).
  Proof. exact (wire_certcomp e (eff_view fixed v ks fl) w fl st Hsync Hrun). Qed.

  Lemma wire10_sessionid :
    cs_vers st = V13 -> h_sid (f_sh fl) = w_sid w /\ (forall h, f_hrr fl = Some h -> h_sid h = w_sid w).
  Proof. exact (wire_sessionid e (eff_view fixed v ks fl) w fl st Hsync Hrun). Qed.

  Lemma wire10_curve12 :
    e_fix_curve12 e = true -> cs_vers st <> V13 ->
    forall c, f_skx fl = Some c -> cs_group st = c /\ In c (w_groups w).
  Proof. exact (wire_curve12 e (eff_view fixed v ks fl) w fl st Hsync Hrun). Qed.
End Keys.

Lemma curve12_fixed10 fixed v ks w fl st c :
  synced v w = true -> Complete.client_run10 fixed env_fixed v ks fl = Complete st ->
  cs_vers st <> V13 -> f_skx fl = Some c -> In c (w_groups w).
Proof.
  intros Hs Hr Hv Hc. exact (proj2 (wire10_curve12 fixed env_fixed v ks w fl st Hs Hr eq_refl Hv c Hc)).
Qed.

Lemma wire10_suite_sess fixed e v ks w sess ems fl st :
  synced v w = true -> client_run_sess10 fixed e v ks sess ems fl = Complete st -> In (cs_suite st) (w_suites w).
Proof. intros Hs Hr. exact (wire_suite_sess e (eff_view fixed v ks fl) w sess ems fl st Hs Hr). Qed.

(* the second key share is usable exactly with the repair: Firefox-type hello, shares [X25519; P-256], the server
   selects P-256 *)
Definition ff_view : client_view :=
  mkView [4865; 49195] [29; 23; 24] [29; 23] [] [1; 2; 3] 0 [] false 771 772 false 29 false [772; 771] 0.
Definition ff_flight : flight :=
  mkFlight None (mkHello 771 772 0 [1; 2; 3] 4865 0 23 0 false None []) [] None None true.

Lemma second_share_after_c18 :
  Complete.client_run10 true env_fixed ff_view (KeyShare.mkShape 29 [23] false 0) ff_flight
  = Complete (mkState 772 4865 23 [] false false)
  /\ Complete.client_run10 false env_fixed ff_view (KeyShare.mkShape 29 [] false 0) ff_flight = Abort a_illegal_parameter
  /\ client_run ff_view ff_flight = Abort a_illegal_parameter.
Proof. vm_compute. repeat split; reflexivity. Qed.

(* what the connection reports when the handshake stops (Model/NegotiateReport.v), on the tree's decision function *)
Lemma report10_offered_wire fixed e v ks w fl :
  e_fix_curve12 e = true -> synced v w = true ->
  let r := report_gen e (eff_view fixed v ks fl) fl in
  (cs_suite r = 0 \/ In (cs_suite r) (w_suites w))
  /\ (cs_group r = 0 \/ In (cs_group r) (w_shares w) \/ In (cs_group r) (w_groups w))
  /\ (cs_alpn r = [] \/ In (cs_alpn r) (w_alpn w)).
Proof. intros Hf Hs. exact (report_offered_wire e (eff_view fixed v ks fl) w fl Hf Hs). Qed.

Lemma report10_of_complete fixed e v ks fl st :
  Complete.client_run10 fixed e v ks fl = Complete st ->
  let r := report_gen e (eff_view fixed v ks fl) fl in
  cs_suite r = cs_suite st /\ cs_group r = cs_group st /\ cs_alpn r = cs_alpn st.
Proof. intros H. exact (report_of_complete e (eff_view fixed v ks fl) fl st H). Qed.

(* Read side: Conn.Read / UConn.Read reassemble what a matched writer sent (stream_integrity).
   Scope of the proof: application data records (any sizes, any interleaving of writes and reads, any
   read-buffer sizes). KeyUpdate handling is modelled in Model/Record.v and exercised by the runner but
   is not covered by these theorems. *)
From UV Require Import Base.Common Model.Record Proofs.RecordP Proofs.RecordRT Proofs.RecordStream.
From Coq Require Import ZifyBool ZifyNat ZifyN.
Open Scope N_scope.

Definition rconn_ok (c : conn) : Prop :=
  vers_ok (cn_vers c) /\ cn_hand c = [] /\ h_cipher (cn_in c) <> None.

Lemma vers_bytes v : vers_ok v ->
  vb1 v * 256 + vb2 v = (if v =? V13 then V12 else v).
Proof. intros [-> | [-> | [-> | ->]]]; reflexivity. Qed.

Lemma len16 n : n < 65536 -> (n / 256) mod 256 * 256 + n mod 256 = n.
Proof.
  intros H. rewrite (N.mod_small (n / 256)) by (apply N.div_lt_upper_bound; lia).
  pose proof (N.div_mod n 256). lia.
Qed.

Section Read.
Variable P : prims.
Hypothesis HP : prims_ok P.

Lemma decrypt_keeps_cipher hc r p t hc' :
  decrypt P hc r = Ok (p, t, hc') -> h_cipher hc <> None -> h_cipher hc' <> None.
Proof.
  intros H Hn. unfold decrypt in H.
  destruct (length r <? recordHeaderLen)%nat; [discriminate|].
  destruct ((h_vers hc =? V13) && (nth 0 r 0 =? rtCCS)); [inversion H; subst; exact Hn|].
  destruct (h_cipher hc) as [c|] eqn:E; [|contradiction].
  destruct (dec_cipher P hc c r) as [[[[[pt pay] pl] good] c1]| |]; cbn [bind] in H; try discriminate.
  destruct (dec_inner13 hc (nth 0 r 0) pt) as [pt1| |]; cbn [bind] in H; try discriminate.
  destruct (dec_mac P hc r (fst pt1) pay pl good) as [pt2| |]; cbn [bind] in H; try discriminate.
  unfold inc_seq in H. destruct (_ =? _); [discriminate|]. inversion H. cbn. discriminate.
Qed.

(* conn.go:612 readRecordOrCCS on one well-formed application data record *)
Lemma read_record_data f c r rest p rx' :
  rconn_ok c -> rec_wf (cn_vers c) r ->
  decrypt P (cn_in c) r = Ok (p, rtAppData, rx') -> 0 < len p <= maxPlaintext ->
  read_record P (S f) c (r ++ rest) = @RDone (conn * bytes)%type (with_in c rx' p [] 0, rest).
Proof.
  intros (Hvo & Hhand & Hci) (t & body & -> & Hbody) Hdec Hp.
  assert (Hb16 : len body < 65536).
  { unfold maxCiphertextTLS13, maxCiphertext in Hbody. destruct (cn_vers c =? V13); lia. }
  set (r := hdr5 t (vb1 (cn_vers c)) (vb2 (cn_vers c)) (len body) ++ body) in *.
  assert (Hrx : h_cipher rx' <> None) by (eapply decrypt_keeps_cipher; eassumption).
  cbn [read_record].
  assert (Lr : length r = (5 + length body)%nat) by reflexivity.
  replace (length (r ++ rest) <? recordHeaderLen)%nat with false
    by (symmetry; apply Nat.ltb_ge; rewrite app_length, Lr; unfold recordHeaderLen; lia).
  change (nth 0 (r ++ rest) 0) with t.
  change (nth 1 (r ++ rest) 0) with (vb1 (cn_vers c)).
  change (nth 2 (r ++ rest) 0) with (vb2 (cn_vers c)).
  change (nth 3 (r ++ rest) 0) with ((len body / 256) mod 256).
  change (nth 4 (r ++ rest) 0) with (len body mod 256).
  rewrite (vers_bytes _ Hvo), N.eqb_refl, (len16 _ Hb16). cbn [negb].
  replace ((cn_vers c =? V13) && (maxCiphertextTLS13 <? len body) || (maxCiphertext <? len body)) with false.
  2:{ symmetry. unfold maxCiphertextTLS13, maxCiphertext in *. destruct (cn_vers c =? V13) eqn:E; cbn; lia. }
  replace (N.to_nat (len body)) with (length body) by (unfold len; lia).
  replace (length (r ++ rest) <? recordHeaderLen + length body)%nat with false
    by (symmetry; apply Nat.ltb_ge; rewrite app_length, Lr; unfold recordHeaderLen; lia).
  rewrite firstn_app_exact by (rewrite Lr; reflexivity).
  rewrite skipn_app_exact by (rewrite Lr; reflexivity).
  rewrite Hdec.
  replace (maxPlaintext <? len p) with false by lia.
  destruct (h_cipher rx') eqn:Erx; [|contradiction].
  cbn [andb].
  change (rtAppData =? rtAlert) with false. change (rtAppData =? rtCCS) with false.
  change (rtAppData =? rtHandshake) with false. change (rtAppData =? rtAppData) with true.
  rewrite Hhand. change (0 <? len []) with false. rewrite andb_false_r.
  replace (len p =? 0) with false by lia.
  replace (0 <? len p) with true by lia. cbn [negb andb]. reflexivity.
Qed.

(* Read when decrypted data is already buffered *)
Lemma conn_read_input c wire n rnd :
  cn_hand c = [] -> cn_input c <> [] -> (0 < n)%nat ->
  conn_read P c wire n rnd
  = Ok (Some (firstn n (cn_input c)), with_in c (cn_in c) (skipn n (cn_input c)) (cn_hand c) (cn_retry c), wire, []).
Proof.
  intros Hh Hi Hn. unfold conn_read.
  replace (n =? 0)%nat with false by (symmetry; apply Nat.eqb_neq; lia).
  change (2 + length wire + length (cn_hand c))%nat with (S (S (length wire + length (cn_hand c)))).
  cbn [read_loop]. rewrite Hh. cbn [length Nat.ltb Nat.leb].
  destruct (cn_input c) eqn:E; [contradiction|]. cbn [length Nat.ltb Nat.leb bind]. rewrite ?Hh, ?E. reflexivity.
Qed.

(* Read when the buffer is empty and a complete application data record is on the wire *)
Lemma conn_read_record c r rest p rx' n rnd :
  rconn_ok c -> cn_input c = [] -> rec_wf (cn_vers c) r ->
  decrypt P (cn_in c) r = Ok (p, rtAppData, rx') -> 0 < len p <= maxPlaintext -> (0 < n)%nat ->
  conn_read P c (r ++ rest) n rnd
  = Ok (Some (firstn n p), with_in c rx' (skipn n p) [] 0, rest, []).
Proof.
  intros Hr Hi Hw Hd Hp Hn. pose proof Hr as (_ & Hh & _). unfold conn_read.
  replace (n =? 0)%nat with false by (symmetry; apply Nat.eqb_neq; lia).
  change (2 + length (r ++ rest) + length (cn_hand c))%nat with (S (S (length (r ++ rest) + length (cn_hand c)))).
  cbn [read_loop]. rewrite Hh, Hi. cbn [length Nat.ltb Nat.leb].
  unfold read_record_fuel. rewrite (read_record_data _ c r rest p rx' Hr Hw Hd Hp).
  cbn [with_in cn_hand cn_input length Nat.ltb Nat.leb].
  destruct p as [|x p']; [unfold len in Hp; cbn in Hp; lia|].
  cbn [length Nat.ltb Nat.leb bind]. reflexivity.
Qed.

(* Read when nothing is buffered and nothing is on the wire: the call blocks, nothing changes *)
Lemma conn_read_block c n rnd :
  cn_hand c = [] -> cn_input c = [] -> (0 < n)%nat ->
  conn_read P c [] n rnd = Ok (None, c, [], []).
Proof.
  intros Hh Hi Hn. unfold conn_read.
  replace (n =? 0)%nat with false by (symmetry; apply Nat.eqb_neq; lia).
  cbn [length Nat.add read_loop]. rewrite Hh, Hi. cbn. reflexivity.
Qed.

(* ---------- any interleaving of writes and reads, one direction ---------- *)
Inductive op := Send (b : bytes) | Recv (n : nat).

Record world := mkWorld {
  w_tx : conn;        (* the writing connection *)
  w_rx : conn;        (* the reading connection *)
  w_wire : bytes;     (* bytes in flight (and in rawInput) *)
  w_sent : bytes;     (* everything handed to Write so far *)
  w_got : bytes       (* everything Read has returned so far *)
}.

Definition step (rnd : N -> bytes) (w : world) (o : op) : res world :=
  match o with
  | Send b =>
    do r <- conn_write P (w_tx w) b rnd;
    let '(out, _, tx') := r in
    Ok (mkWorld tx' (w_rx w) (w_wire w ++ out) (w_sent w ++ b) (w_got w))
  | Recv n =>
    do r <- conn_read P (w_rx w) (w_wire w) n rnd;
    let '(d, rx', wire', _) := r in
    Ok (mkWorld (w_tx w) rx' wire' (w_sent w) (w_got w ++ match d with Some x => x | None => [] end))
  end.

Fixpoint run (rnd : N -> bytes) (w : world) (ops : list op) : res world :=
  match ops with
  | [] => Ok w
  | o :: r => do w' <- step rnd w o; run rnd w' r
  end.

Fixpoint send_total (ops : list op) : N :=
  match ops with [] => 0 | Send b :: r => len b + send_total r | Recv _ :: r => send_total r end.

(* writer and reader are matched up to the records still in flight, and
   sent = received ++ (buffered in the reader) ++ (payloads in flight) *)
Definition inv (w : world) : Prop :=
  exists recs rx_end,
    w_wire w = concat (map snd recs) /\
    rchain P (cn_vers (w_rx w)) rtAppData (cn_in (w_rx w)) recs rx_end /\
    synced (cn_out (w_tx w)) rx_end /\
    wconn_ok (w_tx w) /\ rconn_ok (w_rx w) /\ cn_vers (w_tx w) = cn_vers (w_rx w) /\
    w_sent w = w_got w ++ cn_input (w_rx w) ++ concat (map fst recs).

Lemma step_inv rnd w o :
  inv w -> rnd_ok rnd ->
  match o with Send b => h_seq (cn_out (w_tx w)) + len b < 18446744073709551616 | Recv n => (0 < n)%nat end ->
  exists w', step rnd w o = Ok w' /\ inv w' /\
             h_seq (cn_out (w_tx w')) <= h_seq (cn_out (w_tx w)) + (match o with Send b => len b | _ => 0 end) /\
             (* progress: a read with data pending returns at least one byte *)
             (match o with
              | Recv n => length (w_got w) < length (w_sent w) -> length (w_got w) < length (w_got w')
              | _ => True end)%nat.
Proof.
  intros (recs & rx_end & Hwire & Hch & Hs & Hwt & Hwr & Hv & Hsent) Hrnd Hpre.
  destruct o as [b | n].
  - (* Send *)
    destruct (conn_write_ok P HP (w_tx w) b rnd rx_end Hwt Hs Hrnd Hpre)
      as (recs2 & tx' & rx2 & Hcw & Hch2 & Hs2 & Hcat & Hwt' & Hsame & Hq).
    eexists. split; [|split; [|split]].
    + unfold step. rewrite Hcw. cbn [bind]. reflexivity.
    + exists (recs ++ recs2), rx2. cbn [w_wire w_rx w_tx w_sent w_got].
      split; [rewrite map_app, concat_app, Hwire; reflexivity|].
      split; [eapply rchain_app; [exact Hch|rewrite <- Hv; exact Hch2]|].
      split; [exact Hs2|]. split; [exact Hwt'|]. split; [exact Hwr|].
      split; [destruct Hsame as (E & _); congruence|].
      rewrite Hsent, map_app, concat_app, Hcat, <- !app_assoc. reflexivity.
    + cbn [w_tx]. exact Hq.
    + exact I.
  - (* Recv *)
    destruct Hwr as (Hvo & Hhand & Hci).
    destruct (cn_input (w_rx w)) as [|x inp] eqn:Ein.
    + destruct recs as [|[p r] recs'].
      * (* nothing to read: blocks *)
        cbn [map concat] in Hwire. eexists. split; [|split; [|split]].
        -- unfold step. rewrite Hwire, (conn_read_block (w_rx w) n rnd Hhand Ein Hpre). cbn [bind]. reflexivity.
        -- exists [], rx_end. cbn [w_wire w_rx w_tx w_sent w_got map concat].
           split; [reflexivity|]. split; [exact Hch|]. split; [exact Hs|]. split; [exact Hwt|].
           split; [exact (conj Hvo (conj Hhand Hci))|]. split; [exact Hv|].
           rewrite Hsent, ?Ein. cbn [map concat app]. rewrite !app_nil_r. reflexivity.
        -- cbn [w_tx]. lia.
        -- cbn [w_got]. rewrite Hsent, ?Ein. cbn [map concat app]. rewrite !app_nil_r. lia.
      * cbn [rchain] in Hch. destruct Hch as (Hrw & Hp & rx' & Hd & Hch').
        cbn [map snd concat] in Hwire.
        assert (Hr : rconn_ok (w_rx w)) by (unfold rconn_ok; auto).
        eexists. split; [|split; [|split]].
        -- unfold step. rewrite Hwire.
           rewrite (conn_read_record (w_rx w) r (concat (map snd recs')) p rx' n rnd Hr Ein Hrw Hd Hp Hpre).
           cbn [bind]. reflexivity.
        -- exists recs', rx_end. cbn [w_wire w_rx w_tx w_sent w_got with_in cn_vers cn_in cn_input cn_hand].
           split; [reflexivity|]. split; [exact Hch'|]. split; [exact Hs|]. split; [exact Hwt|].
           split; [unfold rconn_ok; cbn; repeat split; auto; eapply decrypt_keeps_cipher; eassumption|].
           split; [exact Hv|].
           rewrite Hsent, ?Ein. cbn [map fst concat app]. rewrite <- !app_assoc.
           f_equal. rewrite (app_assoc (firstn n p)), firstn_skipn. reflexivity.
        -- cbn [w_tx]. lia.
        -- cbn [w_got]. intros _. rewrite app_length.
           destruct p as [|y p']; [unfold len in Hp; cbn in Hp; lia|].
           destruct n; [lia|]. cbn [firstn length]. lia.
    + assert (Hne : cn_input (w_rx w) <> []) by (rewrite Ein; discriminate).
      rewrite <- Ein in Hsent.
      eexists. split; [|split; [|split]].
      * unfold step. rewrite (conn_read_input (w_rx w) (w_wire w) n rnd Hhand Hne Hpre). cbn [bind]. reflexivity.
      * exists recs, rx_end. cbn [w_wire w_rx w_tx w_sent w_got with_in cn_vers cn_in cn_input cn_hand].
        split; [exact Hwire|]. split; [exact Hch|]. split; [exact Hs|]. split; [exact Hwt|].
        split; [unfold rconn_ok; cbn; auto|]. split; [exact Hv|].
        rewrite Hsent, <- !app_assoc. f_equal. rewrite (app_assoc (firstn n _)), firstn_skipn. reflexivity.
      * cbn [w_tx]. lia.
      * cbn [w_got]. intros _. rewrite app_length, Ein. destruct n; [lia|]. cbn [firstn length]. lia.
Qed.

Definition recvs_positive (ops : list op) : Prop :=
  forall n, In (Recv n) ops -> (0 < n)%nat.

(* stream_integrity: for any sequence of writes (any sizes, including 0) and reads (any positive buffer
   sizes) in any interleaving, no call fails, and at every moment what has been read is exactly a
   prefix of what has been written: sent = got ++ (still buffered or in flight). *)
Theorem stream_integrity rnd : rnd_ok rnd -> forall ops w,
  inv w -> recvs_positive ops ->
  h_seq (cn_out (w_tx w)) + send_total ops < 18446744073709551616 ->
  exists w', run rnd w ops = Ok w' /\ inv w' /\
             exists pending, w_sent w' = w_got w' ++ pending.
Proof.
  intros Hrnd ops. induction ops as [|o ops IH]; intros w Hi Hpos Hbud.
  - exists w. split; [reflexivity|]. split; [exact Hi|].
    destruct Hi as (recs & rx_end & _ & _ & _ & _ & _ & _ & Hs). eexists. exact Hs.
  - assert (Hpre : match o with Send b => h_seq (cn_out (w_tx w)) + len b < 18446744073709551616 | Recv n => (0 < n)%nat end).
    { destruct o as [b | n]; [cbn [send_total] in Hbud; lia|apply Hpos; left; reflexivity]. }
    destruct (step_inv rnd w o Hi Hrnd Hpre) as (w1 & Hst & Hi1 & Hq & _).
    destruct (IH w1 Hi1) as (w' & Hrun & Hi' & Hpend).
    + intros n Hn. apply Hpos. right. exact Hn.
    + destruct o as [b | n]; cbn [send_total] in Hbud; lia.
    + exists w'. split; [cbn [run]; rewrite Hst; cbn [bind]; exact Hrun|]. split; assumption.
Qed.

(* and nothing is withheld: while something written has not been read yet, every Read returns at
   least one more byte *)
Theorem read_progress rnd w n :
  rnd_ok rnd -> inv w -> (0 < n)%nat -> (length (w_got w) < length (w_sent w))%nat ->
  exists w', step rnd w (Recv n) = Ok w' /\ inv w' /\ (length (w_got w) < length (w_got w'))%nat.
Proof.
  intros Hrnd Hi Hn Hlt. destruct (step_inv rnd w (Recv n) Hi Hrnd Hn) as (w' & A & B & _ & C).
  exists w'. auto.
Qed.

End Read.

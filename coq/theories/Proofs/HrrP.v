(* C17: lemmas about Model/Hrr.v. *)
From Coq Require Import ZifyBool ZifyNat ZifyN.
From UV Require Import Base.Common Model.Padding Model.Marshal Model.Prng Model.Hrr.
From UV Require Import Proofs.MarshalP Proofs.PrngP.
From UV Require Model.Negotiate Proofs.NegotiateP.
Open Scope N_scope.

(* ------------------------------------------------------------------ *)
(* views of an extension list *)

Definition no_cookie (es : list hext) : list hext := filter (fun e => negb (is_cookie e)) es.
Definition cookies (es : list hext) : list hext := filter is_cookie es.
Definition pads (es : list hext) : nat := length (filter is_hpad es).
(* everything that is neither key_share, cookie nor padding *)
Definition others (es : list hext) : list hext :=
  filter (fun e => negb (is_key_share e || is_cookie e || is_hpad e)) es.

Lemma no_cookie_set_ks ks es : no_cookie (map (set_key_shares ks) es) = map (set_key_shares ks) (no_cookie es).
Proof.
  induction es as [|e es IH]; [reflexivity|].
  unfold no_cookie in *. cbn [map filter]. destruct e; cbn [set_key_shares is_cookie negb]; cbn [map]; rewrite ?IH; reflexivity.
Qed.
Lemma cookies_set_ks ks es : cookies (map (set_key_shares ks) es) = cookies es.
Proof.
  induction es as [|e es IH]; [reflexivity|].
  unfold cookies in *. cbn [map filter]. destruct e; cbn [set_key_shares is_cookie]; rewrite ?IH; reflexivity.
Qed.
Lemma no_cookie_set_cookie c es : no_cookie (map (set_cookie c) es) = no_cookie es.
Proof.
  induction es as [|e es IH]; [reflexivity|].
  unfold no_cookie in *. cbn [map filter]. destruct e; cbn [set_cookie is_cookie negb]; rewrite ?IH; reflexivity.
Qed.
Lemma cookies_set_cookie c es : cookies (map (set_cookie c) es) = map (fun _ => HCookie c) (cookies es).
Proof.
  induction es as [|e es IH]; [reflexivity|].
  unfold cookies in *. cbn [map filter]. destruct e; cbn [set_cookie is_cookie]; cbn [map]; rewrite ?IH; reflexivity.
Qed.
Lemma cookies_nil es : existsb is_cookie es = false -> cookies es = [].
Proof.
  induction es as [|e es IH]; [reflexivity|]. cbn [existsb]. intros H. apply orb_false_iff in H.
  destruct H as [H1 H2]. unfold cookies in *. cbn [filter]. rewrite H1. apply IH, H2.
Qed.
Lemma cookies_not_nil es : existsb is_cookie es = true -> cookies es <> [].
Proof.
  induction es as [|e es IH]; [discriminate|]. cbn [existsb]. unfold cookies in *. cbn [filter].
  destruct (is_cookie e); [discriminate|]. exact IH.
Qed.

Lemma filter_insert {A} (f : A -> bool) (i : nat) (x : A) (l : list A) :
  filter f (firstn i l ++ x :: skipn i l) = if f x then filter f (firstn i l) ++ x :: filter f (skipn i l) else filter f l.
Proof.
  rewrite filter_app. cbn [filter]. destruct (f x); [reflexivity|].
  rewrite <- filter_app, firstn_skipn. reflexivity.
Qed.
Lemma filter_insert_in {A} (f : A -> bool) (i : nat) (x : A) (l : list A) :
  f x = true -> filter f l = [] -> filter f (firstn i l ++ x :: skipn i l) = [x].
Proof.
  intros Hx Hl. rewrite filter_insert, Hx.
  assert (H : filter f (firstn i l) ++ filter f (skipn i l) = []) by (rewrite <- filter_app, firstn_skipn; exact Hl).
  apply app_eq_nil in H. destruct H as [-> ->]. reflexivity.
Qed.

Lemma pads_set_ks ks es : pads (map (set_key_shares ks) es) = pads es.
Proof.
  induction es as [|e es IH]; [reflexivity|]. unfold pads in *. cbn [map filter].
  destruct e; cbn [set_key_shares is_hpad]; cbn [length]; rewrite ?IH; reflexivity.
Qed.
Lemma pads_set_cookie c es : pads (map (set_cookie c) es) = pads es.
Proof.
  induction es as [|e es IH]; [reflexivity|]. unfold pads in *. cbn [map filter].
  destruct e; cbn [set_cookie is_hpad]; cbn [length]; rewrite ?IH; reflexivity.
Qed.
Lemma pads_insert c i es : pads (firstn i es ++ HCookie c :: skipn i es) = pads es.
Proof. unfold pads. rewrite filter_insert. reflexivity. Qed.

Lemma ks_after_set ks es : Forall (fun e => is_key_share e = true -> e = HKeyShare ks) (map (set_key_shares ks) es).
Proof.
  induction es as [|e es IH]; [constructor|]. cbn [map]. constructor; [|exact IH].
  destruct e; cbn [set_key_shares is_key_share]; intros H; try discriminate; reflexivity.
Qed.
Lemma ks_keep_set_cookie ks c es :
  Forall (fun e => is_key_share e = true -> e = HKeyShare ks) es ->
  Forall (fun e => is_key_share e = true -> e = HKeyShare ks) (map (set_cookie c) es).
Proof.
  induction 1 as [|e es He _ IH]; [constructor|]. cbn [map]. constructor; [|exact IH].
  destruct e; cbn [set_cookie is_key_share] in *; try exact He; intros H; discriminate.
Qed.

Lemma others_no_cookie es : others (no_cookie es) = others es.
Proof.
  induction es as [|e es IH]; [reflexivity|]. unfold others, no_cookie in *. cbn [filter].
  destruct e; cbn [is_cookie is_key_share is_hpad negb orb]; cbn [filter is_cookie is_key_share is_hpad negb orb]; rewrite ?IH; reflexivity.
Qed.
Lemma others_set_ks ks es : others (map (set_key_shares ks) es) = others es.
Proof.
  induction es as [|e es IH]; [reflexivity|]. unfold others in *. cbn [map filter].
  destruct e; cbn [set_key_shares is_cookie is_key_share is_hpad negb orb]; rewrite ?IH; reflexivity.
Qed.
Lemma hemit_others u1 u2 es : map (hemit u1) (others es) = map (hemit u2) (others es).
Proof.
  induction es as [|e es IH]; [reflexivity|]. unfold others in *. cbn [filter].
  destruct e; cbn [is_cookie is_key_share is_hpad negb orb]; try exact IH.
  cbn [map hemit]. rewrite IH. reflexivity.
Qed.

(* ------------------------------------------------------------------ *)
(* the cookie insertion *)

(* what the index can be: 0 for lists of at most 2 extensions, else at most len-3 *)
Lemma cookie_index_range fuel s L i : (0 <= L)%Z -> cookie_index fuel s L = Some i ->
  (0 <= i)%Z /\ ((L <= 2)%Z -> i = 0%Z) /\ ((3 <= L)%Z -> (i <= L - 3)%Z).
Proof.
  intros HL H. unfold cookie_index in H.
  destruct (intn fuel (L - 2) s) as [[v r]|] eqn:E; [|discriminate]. inversion H; subst v; clear H.
  apply intn_spec in E. destruct E as [E0 E1].
  destruct (Z_le_gt_dec (L - 2) 0) as [Hn|Hn].
  - destruct (E0 Hn) as [-> _]. lia.
  - specialize (E1 ltac:(lia)). lia.
Qed.

Lemma insert_cookie_spec fuel s c es :
  match insert_cookie fuel s c es with
  | Ok es' => exists i : nat, (i < length es)%nat /\ ((length es <= 2)%nat -> i = 0%nat) /\
                ((3 <= length es)%nat -> (i + 3 <= length es)%nat) /\
                es' = firstn i es ++ HCookie c :: skipn i es
  | Err code => (code = E_PRNG /\ cookie_index fuel s (Z.of_nat (length es)) = None) \/ (code = E_COOKIE_INDEX /\ es = [])
  | Panic _ => False
  end.
Proof.
  unfold insert_cookie. set (L := Z.of_nat (length es)).
  destruct (cookie_index fuel s L) as [i|] eqn:E; [|left; split; reflexivity].
  destruct (cookie_index_range fuel s L i ltac:(lia) E) as (H0 & H1 & H2).
  destruct (i >=? L)%Z eqn:G.
  - right. split; [reflexivity|]. destruct es as [|e es]; [reflexivity|]. cbn [length] in L. lia.
  - unfold slice_ok. replace ((0 <=? i)%Z && (i <=? L)%Z) with true by lia. cbn [negb].
    exists (Z.to_nat i). repeat split; lia.
Qed.

Lemma last_app_ne {A} (a b : list A) d : b <> [] -> last (a ++ b) d = last b d.
Proof.
  intros Hb. induction a as [|x a IH]; [reflexivity|].
  cbn [app]. destruct (a ++ b) eqn:E.
  - apply app_eq_nil in E. destruct E as [_ E]. contradiction.
  - rewrite <- IH. reflexivity.
Qed.

Lemma last_insert {A} (i : nat) (x d : A) (l : list A) : (i < length l)%nat ->
  last (firstn i l ++ x :: skipn i l) d = last l d.
Proof.
  intros Hi. rewrite <- (firstn_skipn i l) at 3.
  assert (Hs : skipn i l <> []).
  { intros E. apply (f_equal (@length A)) in E. rewrite skipn_length in E. cbn in E. lia. }
  rewrite (last_app_ne _ _ d Hs). rewrite last_app_ne by discriminate.
  destruct (skipn i l) as [|y r] eqn:E; [contradiction|]. reflexivity.
Qed.

Lemma last_set_cookie c d l : is_cookie (last l d) = false -> last (map (set_cookie c) l) d = last l d.
Proof.
  induction l as [|e l IH]; [reflexivity|]. destruct l as [|e2 l].
  - cbn [map last]. intros H. destruct e; try reflexivity. discriminate H.
  - intros H. change (last (e :: e2 :: l) d) with (last (e2 :: l) d) in *.
    change (map (set_cookie c) (e :: e2 :: l)) with (set_cookie c e :: set_cookie c e2 :: map (set_cookie c) l).
    change (last (set_cookie c e :: set_cookie c e2 :: map (set_cookie c) l) d) with (last (map (set_cookie c) (e2 :: l)) d).
    apply IH, H.
Qed.

Lemma no_cookie_has_ks es : existsb is_key_share es = true -> no_cookie es <> [].
Proof.
  induction es as [|a l IH]; [discriminate|]. cbn [existsb]. unfold no_cookie in *. cbn [filter].
  destruct a; cbn [is_cookie negb is_key_share orb]; try discriminate. exact IH.
Qed.

(* ------------------------------------------------------------------ *)
(* C17_diff at the level of uconn.Extensions *)

Definition diff_spec (ks : list (N * bytes)) (cookie : bytes) (es es' : list hext) : Prop :=
  (* apart from cookie extensions the list is the old one, element by element, in the same order,
     every key_share extension holding exactly the new shares and nothing else touched *)
  no_cookie es' = map (set_key_shares ks) (no_cookie es) /\
  Forall (fun e => is_key_share e = true -> e = HKeyShare ks) es' /\
  (* the cookie extension(s): none added without a cookie; updated when present; else exactly one inserted *)
  cookies es' = match cookie with
                | [] => cookies es
                | _ => match cookies es with [] => [HCookie cookie] | cs => map (fun _ => HCookie cookie) cs end
                end /\
  (* the final extension (pre_shared_key must be last) is still the final one *)
  (forall d, is_cookie (last (map (set_key_shares ks) es) d) = false ->
             last es' d = last (map (set_key_shares ks) es) d) /\
  pads es' = pads es.

Lemma hrr_exts_diff fuel s ks cookie es :
  existsb is_key_share es = true ->
  cookie_index fuel s (Z.of_nat (length es)) <> None ->
  exists es', hrr_exts fuel s 0 ks cookie es = Ok es' /\ diff_spec ks cookie es es'.
Proof.
  intros Hks Hprng. unfold hrr_exts. replace (0 <? 0) with false by reflexivity. rewrite Hks. cbn [negb].
  set (es1 := map (set_key_shares ks) es).
  destruct cookie as [|c0 cookie'].
  - exists es1. split; [reflexivity|]. unfold diff_spec, es1.
    rewrite no_cookie_set_ks, cookies_set_ks, pads_set_ks. repeat split; auto using ks_after_set.
  - set (cookie := c0 :: cookie') in *.
    destruct (existsb is_cookie es1) eqn:Hc.
    + exists (map (set_cookie cookie) es1). split; [reflexivity|]. unfold diff_spec.
      rewrite no_cookie_set_cookie, cookies_set_cookie, pads_set_cookie. unfold es1.
      rewrite no_cookie_set_ks, cookies_set_ks, pads_set_ks.
      assert (Hne : cookies es <> []) by (rewrite <- (cookies_set_ks ks); apply cookies_not_nil, Hc).
      split; [reflexivity|]. split; [apply ks_keep_set_cookie, ks_after_set|].
      split; [destruct (cookies es); [congruence|reflexivity]|]. split; [|reflexivity].
      intros d. fold es1. apply last_set_cookie.
    + pose proof (insert_cookie_spec fuel s cookie es1) as Hi.
      assert (Hlen : length es1 = length es) by apply map_length.
      destruct (insert_cookie fuel s cookie es1) as [es'|code|p]; [|exfalso|contradiction].
      * destruct Hi as (i & Hlt & _ & _ & ->). exists (firstn i es1 ++ HCookie cookie :: skipn i es1).
        split; [reflexivity|]. unfold diff_spec.
        split; [unfold no_cookie; rewrite filter_insert; cbn [is_cookie negb]; fold (no_cookie es1); apply no_cookie_set_ks|].
        split.
        { pose proof (ks_after_set ks es) as F. fold es1 in F.
          rewrite <- (firstn_skipn i es1) in F. apply Forall_app in F. destruct F as [F1 F2].
          apply Forall_app. split; [exact F1|]. constructor; [discriminate|exact F2]. }
        split.
        { pose proof (cookies_nil _ Hc) as Hn. unfold cookies in *. rewrite (filter_insert_in is_cookie i (HCookie cookie) es1 eq_refl Hn).
          fold (cookies es1) in Hn. unfold es1 in Hn. rewrite cookies_set_ks in Hn. unfold cookies in Hn. rewrite Hn. reflexivity. }
        split; [intros d _; apply last_insert; exact Hlt|].
        rewrite pads_insert. apply pads_set_ks.
      * destruct Hi as [[_ Hn]|[_ Hn]].
        -- rewrite Hlen in Hn. contradiction.
        -- unfold es1 in Hn. destruct es; [discriminate Hks|discriminate Hn].
Qed.

(* ------------------------------------------------------------------ *)
(* the re-marshal *)

Definition frame (h : hello_hdr) (has_exts : bool) (eb : bytes) : bytes :=
  let body := u16be (h_vers h) ++ h_random h
              ++ [u8 (len (h_sid h))] ++ h_sid h
              ++ u16be (u16 (len (suites_bytes (h_suites h)))) ++ suites_bytes (h_suites h)
              ++ [u8 (len (h_comp h))] ++ h_comp h
              ++ (if has_exts then u16be (u16 (len eb)) ++ eb else []) in
  [typeClientHello] ++ u24be (len body) ++ body.

Definition npad (es : list aext) : nat := length (filter a_is_pad es).

Lemma find_padding_total es : forall found,
  (npad es + match found with Some _ => 1 | None => 0 end <= 1)%nat -> exists pe, find_padding es found = Ok pe.
Proof.
  induction es as [|e es IH]; intros found H; [eexists; reflexivity|].
  destruct e as [psk n rd|pol st]; cbn [find_padding].
  - apply IH. exact H.
  - unfold npad in H. cbn [filter a_is_pad length] in H. destruct found as [x|]; [lia|].
    apply IH. unfold npad. lia.
Qed.

Lemma npad_to_aext es : npad (map to_aext es) = pads es.
Proof.
  induction es as [|e es IH]; [reflexivity|]. unfold npad, pads in *. cbn [map filter].
  destruct e; cbn [to_aext fixed_ext a_is_pad is_hpad length]; rewrite ?IH; reflexivity.
Qed.

Lemma to_aext_ok es : Forall aext_ok (map to_aext es).
Proof.
  induction es as [|e es IH]; [constructor|]. cbn [map]. constructor; [|exact IH].
  destruct e; cbn [to_aext]; try apply fixed_ext_ok. exact I.
Qed.

Lemma update_to_aext u es : update_padding u (map to_aext es) = map to_aext (map (hupdate u) es).
Proof.
  unfold update_padding. rewrite !map_map. apply map_ext. intros e. destruct e; reflexivity.
Qed.

Lemma prepare_hexts h es : (pads es <= 1)%nat ->
  exists p, marshal_prepare h (map to_aext es) = Ok p /\
            pr_exts p = map to_aext (map (hupdate (hunpadded h es)) es).
Proof.
  intros Hp. unfold marshal_prepare.
  destruct (find_padding_total (map to_aext es) None) as (pe & Hf).
  { rewrite npad_to_aext. lia. }
  rewrite Hf. cbn [bind]. eexists. split; [reflexivity|]. cbn [pr_exts].
  destruct pe as [x|].
  - apply update_to_aext.
  - pose proof (find_padding_none _ _ Hf) as Hn. cbn in Hn.
    rewrite <- update_to_aext. symmetry. apply nopad_update. exact Hn.
Qed.

Lemma fixed_emits_inv psk body o : emits (fixed_ext psk body) o -> o = body.
Proof.
  unfold fixed_ext. cbn [emits]. intros [Hl H]. specialize (H body (N.le_refl _)).
  replace (len body <? len body) with false in H by lia. congruence.
Qed.

Lemma emits_hexts u es : forall outs, Forall2 emits (map to_aext (map (hupdate u) es)) outs -> outs = map (hemit u) es.
Proof.
  induction es as [|e es IH]; intros outs H.
  - inversion H. reflexivity.
  - cbn [map] in H. inversion H as [|a o l l' He Hr]; subst. cbn [map]. f_equal; [|apply IH; exact Hr].
    destruct e; cbn [hupdate to_aext hemit] in *; try (apply fixed_emits_inv in He; exact He). exact He.
Qed.

(* MarshalClientHelloNoECH on a list with at most one padding extension: succeeds, and the hello is
   the header followed by each extension's own bytes, the padding extension's being those of its policy
   applied to the length of THIS hello without padding *)
Lemma marshal_hexts_spec bbs h es : hdr_ok h -> (pads es <= 1)%nat ->
  marshal_hexts bbs h es =
    Ok (frame h (match es with [] => false | _ => true end) (concat (map (hemit (hunpadded h es)) es))).
Proof.
  intros Hh Hp. destruct (prepare_hexts h es Hp) as (p & Hprep & Hexts).
  destruct (marshal_framing bbs h (map to_aext es) p Hh (to_aext_ok es) Hprep) as (body & eb & outs & Hm & Hb & Heb & Hem & _).
  rewrite Hexts in Hem. apply emits_hexts in Hem. subst outs eb.
  unfold marshal_hexts. rewrite Hm, Hb. unfold frame. destruct es; reflexivity.
Qed.

(* two or more padding extensions: the error, no hello *)
Lemma multi_pad_fails bbs h es : (2 <= pads es)%nat -> marshal_hexts bbs h es = Err E_MULTI_PADDING.
Proof.
  intros Hp. unfold marshal_hexts, marshal_client_hello, marshal_prepare.
  assert (H : forall found, (2 <= pads es + match found with Some _ => 1 | None => 0 end)%nat ->
                            find_padding (map to_aext es) found = Err E_MULTI_PADDING).
  { clear Hp. induction es as [|e es IH]; intros found H.
    - unfold pads in H. cbn in H. destruct found; lia.
    - unfold pads in *. cbn [map filter] in *. destruct e; cbn [to_aext fixed_ext find_padding is_hpad] in *; try (apply IH; exact H).
      cbn [length] in H. destruct found; [reflexivity|]. apply IH. cbn. lia. }
  rewrite (H None) by lia. reflexivity.
Qed.

(* ------------------------------------------------------------------ *)
(* the second hello as a whole *)

Lemma second_hello_spec bbs fuel s h ks cookie es :
  hdr_ok h -> (pads es <= 1)%nat -> existsb is_key_share es = true ->
  cookie_index fuel s (Z.of_nat (length es)) <> None ->
  exists es' raw,
    hrr_second_hello bbs fuel s h 0 ks cookie es = Ok (map (hupdate (hunpadded h es')) es', raw) /\
    diff_spec ks cookie es es' /\
    raw = frame h true (concat (map (hemit (hunpadded h es')) es')) /\
    map (hemit (hunpadded h es')) (others es') = map (hemit (hunpadded h es)) (others es).
Proof.
  intros Hh Hp Hks Hprng. destruct (hrr_exts_diff fuel s ks cookie es Hks Hprng) as (es' & He & Hd).
  exists es'. eexists. unfold hrr_second_hello. rewrite He. cbn [bind].
  assert (Hp' : (pads es' <= 1)%nat) by (destruct Hd as (_ & _ & _ & _ & ->); exact Hp).
  rewrite (marshal_hexts_spec bbs h es' Hh Hp'). cbn [bind].
  assert (Hne : es' <> []).
  { destruct Hd as (Hnc & _). intros ->. cbn in Hnc. symmetry in Hnc. apply map_eq_nil in Hnc.
    exact (no_cookie_has_ks es Hks Hnc). }
  split; [destruct es'; [congruence|reflexivity]|]. split; [exact Hd|]. split; [destruct es'; [congruence|reflexivity]|].
  destruct Hd as (Hnc & _). rewrite <- (others_no_cookie es'), Hnc, others_set_ks, others_no_cookie.
  apply hemit_others.
Qed.

(* ------------------------------------------------------------------ *)
(* rejections (crypto/tls part, Negotiate.process_hrr) *)
Import Negotiate.

Lemma reject_nothing v m : h_selgroup m = 0 -> h_cookie m = false -> process_hrr v m = inl a_illegal_parameter.
Proof. intros H1 H2. unfold process_hrr. rewrite H1, H2. reflexivity. Qed.

Lemma reject_unoffered v m : h_selgroup m <> 0 -> h_share m = 0 -> memN (h_selgroup m) (cv_curves v) = false ->
  process_hrr v m = inl a_illegal_parameter.
Proof.
  intros H1 H2 H3. unfold process_hrr. rewrite H2, H3.
  replace (h_selgroup m =? 0) with false by lia. cbn [andb negb N.eqb]. reflexivity.
Qed.

Lemma reject_shared v m : h_selgroup m <> 0 -> h_share m = 0 -> memN (h_selgroup m) (cv_shares v) = true ->
  process_hrr v m = inl a_illegal_parameter.
Proof.
  intros H1 H2 H3. unfold process_hrr. rewrite H2, H3.
  replace (h_selgroup m =? 0) with false by lia. cbn [andb negb N.eqb].
  destruct (memN (h_selgroup m) (cv_curves v)); reflexivity.
Qed.

(* a hybrid / unimplemented group the client listed: internal_error ("CurvePreferences includes unsupported curve") *)
Lemma reject_nonclassical v m : h_selgroup m <> 0 -> h_share m = 0 -> classical_impl (h_selgroup m) = false ->
  exists a, process_hrr v m = inl a.
Proof.
  intros H1 H2 H3. unfold process_hrr. rewrite H2, H3.
  replace (h_selgroup m =? 0) with false by lia. cbn [andb negb N.eqb].
  destruct (memN (h_selgroup m) (cv_curves v)); cbn [negb]; [|eexists; reflexivity].
  destruct (memN (h_selgroup m) (cv_shares v)); eexists; reflexivity.
Qed.

Lemma run13_hrr_rejected v fl m a : f_hrr fl = Some m -> process_hrr v m = inl a -> exists a', run13 v fl = Abort a'.
Proof.
  intros Hf Hp. unfold run13. rewrite Hf, Hp.
  destruct ((cv_ecdhe v =? 0) || _); [eexists; reflexivity|].
  destruct (check_hello13 v None m); eexists; reflexivity.
Qed.

Lemma client_hrr_rejected bbs fuel s h v m cookie fresh old es :
  process_hrr v m = inl a_illegal_parameter ->
  client_hrr bbs fuel s h v m cookie fresh old es = HAlert a_illegal_parameter.
Proof. intros H. unfold client_hrr. rewrite H. reflexivity. Qed.

(* the accepted case: what process_hrr hands to the uTLS section *)
Lemma accept_classical v m : h_selgroup m <> 0 -> h_share m = 0 -> cv_psk v = 0 ->
  memN (h_selgroup m) (cv_curves v) = true -> memN (h_selgroup m) (cv_shares v) = false ->
  classical_impl (h_selgroup m) = true ->
  process_hrr v m = inr ([h_selgroup m], h_selgroup m).
Proof.
  intros H1 H2 H3 H4 H5 H6. unfold process_hrr. rewrite H2, H3, H4, H5, H6.
  replace (h_selgroup m =? 0) with false by lia. reflexivity.
Qed.

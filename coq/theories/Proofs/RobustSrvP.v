(* Proofs for Model/RobustSrv.v (C34). *)
From Coq Require Import ZifyBool ZifyNat ZifyN.
From UV Require Import Base.Common Model.RobustSrv.
Open Scope N_scope.

(* ---- cryptobyte readers never panic, and never grow the string ---- *)
Lemma cb_read_total s n : exists r, cb_read s n = Ok r /\
  forall v rest, r = Some (v, rest) -> (0 <= n)%Z /\ length v = Z.to_nat n /\ length s = (length v + length rest)%nat.
Proof.
  unfold cb_read, slice_to, slice_from.
  destruct (Z.ltb_spec (Z.of_nat (length s)) n) as [H1|H1], (Z.ltb_spec n 0) as [H2|H2]; cbn [orb bind];
    (eexists; split; [reflexivity|]); intros v rest E; try discriminate.
  injection E as <- <-. rewrite firstn_length, skipn_length. lia.
Qed.

Lemma idx_ok s i : (i < length s)%nat -> exists x, idx s i = Ok x.
Proof. intros H. unfold idx. destruct (nth_error s i) eqn:E; [eauto|]. apply nth_error_None in E. lia. Qed.

Lemma be_acc_total v : forall n i acc, (i + n <= length v)%nat -> exists x, be_acc v i n acc = Ok x.
Proof.
  induction n as [|n IH]; intros i acc H; cbn [be_acc]; [eauto|].
  destruct (idx_ok v i ltac:(lia)) as (x & ->). cbn [bind]. apply IH. lia.
Qed.

Lemma cb_uint_total k s : exists r, cb_uint k s = Ok r /\
  forall x rest, r = Some (x, rest) -> length s = (k + length rest)%nat.
Proof.
  unfold cb_uint. destruct (cb_read_total s (Z.of_nat k)) as (r & -> & Hr). cbn [bind].
  destruct r as [[v rest]|]; [|eexists; split; [reflexivity|intros; discriminate]].
  destruct (Hr v rest eq_refl) as (_ & Hv & Hs).
  destruct (be_acc_total v k 0%nat 0 ltac:(lia)) as (x & ->). cbn [bind].
  eexists; split; [reflexivity|]. intros x' rest' E. injection E as <- <-. lia.
Qed.

Lemma cb_lp_total k s : exists r, cb_lp k s = Ok r /\
  forall body rest, r = Some (body, rest) -> length s = (k + length body + length rest)%nat.
Proof.
  unfold cb_lp. destruct (cb_uint_total k s) as (r & -> & Hr). cbn [bind].
  destruct r as [[n rest]|]; [|eexists; split; [reflexivity|intros; discriminate]].
  pose proof (Hr n rest eq_refl) as Hs.
  destruct (cb_read_total rest (Z.of_N n)) as (r2 & -> & Hr2).
  eexists; split; [reflexivity|]. intros body rest' ->. destruct (Hr2 body rest' eq_refl) as (_ & _ & H). lia.
Qed.

Lemma cb_skip_total n s : exists r, cb_skip n s = Ok r.
Proof. unfold cb_skip. destruct (cb_read_total s n) as (r & -> & _). cbn [bind]. eauto. Qed.

(* ---- the two uTLS parsers ---- *)
Theorem cc_unmarshal_total data : exists r, cc_unmarshal data = Ok r.
Proof.
  unfold cc_unmarshal. destruct (cb_skip_total 4 data) as ([s|] & ->); cbn [bind]; [|eauto].
  destruct (cb_uint_total 2 s) as ([[a s1]|] & -> & _); cbn [bind]; [|eauto].
  destruct (cb_uint_total 3 s1) as ([[l s2]|] & -> & _); cbn [bind]; [|eauto].
  destruct (cb_lp_total 3 s2) as ([[c s3]|] & -> & _); cbn [bind]; eauto.
Qed.

Lemma cee_loop_total : forall fuel exts st, (length exts <= fuel)%nat -> exists r, cee_loop fuel exts st = Ok r.
Proof.
  induction fuel as [|fuel IH]; intros exts st H.
  - destruct exts; [cbn; eauto|cbn in H; lia].
  - cbn [cee_loop]. destruct (is_empty exts); [eauto|].
    destruct (cb_uint_total 2 exts) as ([[id e1]|] & -> & H1); cbn [bind]; [|eauto].
    pose proof (H1 id e1 eq_refl) as L1.
    destruct (cb_lp_total 2 e1) as ([[body e2]|] & -> & H2); cbn [bind]; [|eauto].
    pose proof (H2 body e2 eq_refl) as L2.
    destruct ((id =? ext_alps_old) || (id =? ext_alps_new)); [|eauto]. apply IH. lia.
Qed.

Theorem cee_unmarshal_total data : exists r, cee_unmarshal data = Ok r.
Proof.
  unfold cee_unmarshal. destruct (cb_skip_total 4 data) as ([s|] & ->); cbn [bind]; [|eauto].
  destruct (cb_lp_total 2 s) as ([[exts rest]|] & -> & _); cbn [bind]; [|eauto].
  destruct (negb (is_empty rest)); [eauto|]. apply cee_loop_total. lia.
Qed.

(* ---- readHandshake ---- *)
Lemma unmarshal_of_total std t d : exists b, unmarshal_of std t d = Ok b.
Proof.
  destruct t; cbn [unmarshal_of]; try (eexists; reflexivity).
  - destruct (cee_unmarshal_total d) as (r & ->). cbn [bind]. eauto.
  - destruct (cc_unmarshal_total d) as (r & ->). cbn [bind]. eauto.
Qed.

Theorem read_handshake_total std c hv vers hand : exists o, read_handshake std c hv vers hand = Ok o.
Proof.
  unfold read_handshake.
  destruct hand as [|h0 [|h1 [|h2 [|h3 hand]]]]; try (eexists; reflexivity).
  assert (L : (length (h0 :: h1 :: h2 :: h3 :: hand) <? 4)%nat = false) by reflexivity. rewrite L. clear L.
  destruct hv; cbn [idx nth_error bind].
  all: match goal with |- context [if ?b then Ok (RAlert _) else _] => destruct b end; [eexists; reflexivity|].
  all: match goal with |- context [if ?b then Ok NeedMore else _] => destruct b end; [eexists; reflexivity|].
  all: cbn [Nat.add firstn]; unfold unmarshal_handshake_message; cbn [idx nth_error bind].
  all: destruct (type_of_byte c vers h0) as [t|]; [|eexists; reflexivity].
  all: match goal with |- context [unmarshal_of ?s' ?t' ?d] => destruct (unmarshal_of_total s' t' d) as (b & ->) end.
  all: cbn [bind]; destruct b; eexists; reflexivity.
Qed.

Lemma read_handshake_inv std c hv vers hand o : read_handshake std c hv vers hand = Ok o ->
  match o with
  | NeedMore => True
  | RAlert a => a = alert_internal_error \/ a = alert_unexpected_message
  | RMsg t _ => exists d0, nth_error hand 0 = Some d0 /\ type_of_byte c vers d0 = Some t
  end.
Proof.
  unfold read_handshake.
  destruct hand as [|h0 [|h1 [|h2 [|h3 hand]]]]; try (intros E; injection E as <-; exact I).
  assert (L : (length (h0 :: h1 :: h2 :: h3 :: hand) <? 4)%nat = false) by reflexivity. rewrite L. clear L.
  destruct hv; cbn [idx nth_error bind].
  all: match goal with |- context [if ?b then Ok (RAlert _) else _] => destruct b end; [intros E; injection E as <-; left; reflexivity|].
  all: match goal with |- context [if ?b then Ok NeedMore else _] => destruct b end; [intros E; injection E as <-; exact I|].
  all: cbn [Nat.add firstn]; unfold unmarshal_handshake_message; cbn [idx nth_error bind].
  all: destruct (type_of_byte c vers h0) as [t|] eqn:Et; [|intros E; injection E as <-; right; reflexivity].
  all: match goal with |- context [unmarshal_of ?s' ?t' ?d] => destruct (unmarshal_of_total s' t' d) as (b & ->) end.
  all: cbn [bind]; destruct b; intros E; injection E as <-; [exists h0; split; [reflexivity|exact Et]|right; reflexivity].
Qed.

Theorem server_step_total std rp hv vers hand : exists o, server_step std rp hv vers hand = Ok o.
Proof. unfold server_step. destruct (read_handshake_total std false hv vers hand) as (o & ->). cbn [bind]. eauto. Qed.

(* the Go types allocated for the two uTLS type bytes on a server are accepted at no read point *)
Lemma dispatch_utls rp t : t = T_utlsClientEncryptedExtensions \/ t = T_utlsCompressedCertificate ->
  dispatch rp t = SAlert alert_unexpected_message.
Proof. intros [-> | ->]; destruct rp; reflexivity. Qed.

Theorem server_rejects_utls_types std rp hv vers hand o d0 :
  server_step std rp hv vers hand = Ok o -> nth_error hand 0 = Some d0 -> d0 = 8 \/ d0 = 25 ->
  o = SNeedMore \/ o = SAlert alert_internal_error \/ o = SAlert alert_unexpected_message.
Proof.
  unfold server_step. intros E H0 Hd. destruct (read_handshake std false hv vers hand) as [r| |] eqn:Er; try discriminate.
  cbn [bind] in E. injection E as <-. apply read_handshake_inv in Er. destruct r as [|a|t data].
  - left; reflexivity.
  - destruct Er as [-> | ->]; auto.
  - destruct Er as (d & Hd0 & Ht). rewrite H0 in Hd0. injection Hd0 as <-. right. right.
    apply dispatch_utls. destruct Hd as [-> | ->]; cbn in Ht; injection Ht as <-; auto.
Qed.

(* when the whole message is buffered and within the size limit it is exactly unexpected_message *)
Theorem server_rejects_complete_utls_message std rp hv vers d0 d1 d2 d3 rest :
  d0 = 8 \/ d0 = 25 -> d1 * 65536 + d2 * 256 + d3 <= maxHandshake ->
  (N.to_nat (d1 * 65536 + d2 * 256 + d3) <= length rest)%nat ->
  server_step std rp hv vers (d0 :: d1 :: d2 :: d3 :: rest) = Ok (SAlert alert_unexpected_message).
Proof.
  intros Hd Hn Hl. unfold server_step, read_handshake.
  assert (L : (length (d0 :: d1 :: d2 :: d3 :: rest) <? 4)%nat = false) by reflexivity. rewrite L.
  assert (Hc : (if hv then do d <- idx (d0 :: d1 :: d2 :: d3 :: rest) 0; Ok (d =? 11) else Ok false) = Ok false).
  { destruct hv; [|reflexivity]. cbn [idx nth_error bind]. destruct Hd as [-> | ->]; reflexivity. }
  rewrite Hc. cbn [bind idx nth_error].
  destruct (N.ltb_spec maxHandshake (d1 * 65536 + d2 * 256 + d3)) as [H|H]; [lia|].
  destruct (Nat.ltb_spec (length (d0 :: d1 :: d2 :: d3 :: rest)) (4 + N.to_nat (d1 * 65536 + d2 * 256 + d3))) as [H'|H'];
    [cbn [length] in H'; lia|].
  cbn [Nat.add firstn]. unfold unmarshal_handshake_message. cbn [idx nth_error bind].
  assert (Ht : exists t, type_of_byte false vers d0 = Some t /\ (t = T_utlsClientEncryptedExtensions \/ t = T_utlsCompressedCertificate)).
  { destruct Hd as [-> | ->]; cbn; eauto. }
  destruct Ht as (t & Ht & Htt). rewrite Ht.
  match goal with |- context [unmarshal_of ?s' ?t' ?d] => destruct (unmarshal_of_total s' t' d) as (b & ->) end.
  cbn [bind]. destruct b; cbn [bind]; [rewrite (dispatch_utls rp t Htt)|]; reflexivity.
Qed.

(* Proofs about the negotiation core: whatever the server sends, a completed
   handshake only ever carries selections the client's view contains (C12) and a
   version the client's configuration / hello lists (C13). *)
From UV Require Import Base.Common Model.Negotiate.
From Coq Require Import ZifyBool ZifyNat ZifyN.

Lemma memN_In x l : memN x l = true <-> In x l.
Proof.
  unfold memN. rewrite existsb_exists. split.
  - intros [y [Hy He]]. apply N.eqb_eq in He. subst. exact Hy.
  - intros H. exists x. split; [exact H | apply N.eqb_refl].
Qed.

Lemma memN_false x l : memN x l = false <-> ~ In x l.
Proof.
  rewrite <- memN_In. destruct (memN x l); split; intros H; congruence.
Qed.

Lemma memB_In x l : memB x l = true <-> In x l.
Proof.
  unfold memB. rewrite existsb_exists. split.
  - intros [y [Hy He]]. apply bytes_eqb_eq in He. subst. exact Hy.
  - intros H. exists x. split; [exact H | apply bytes_eqb_eq; reflexivity].
Qed.

Lemma list_eqN_eq a b : list_eqN a b = true -> a = b.
Proof. intros H. apply bytes_eqb_eq. exact H. Qed.

Lemma list_eqB_eq a b : list_eqB a b = true -> a = b.
Proof.
  unfold list_eqB. revert b. induction a as [|x a IH]; intros [|y b] H; simpl in H; try discriminate; auto.
  apply andb_true_iff in H. destruct H as [H1 H2]. apply bytes_eqb_eq in H1. apply IH in H2. subst. reflexivity.
Qed.

(* ---- versions ---- *)
Lemma client_versions_sub v x : In x (client_versions v) -> In x [V13; V12; V11; V10].
Proof. unfold client_versions. intros H. apply filter_In in H. tauto. Qed.

Lemma pick_version_in v h x : pick_version v h = Some x -> In x (client_versions v).
Proof.
  unfold pick_version. destruct (memN _ _) eqn:E; intros H; inversion H; subst.
  apply memN_In. exact E.
Qed.

Lemma pick_version_peer v h x : pick_version v h = Some x -> x = (if h_sv h =? 0 then h_vers h else h_sv h).
Proof. unfold pick_version. destruct (memN _ _); intros H; inversion H; reflexivity. Qed.

(* ---- TLS 1.3 pieces ---- *)
Lemma check_hello13_inv v prev h s :
  check_hello13 v prev h = inr s ->
  s = h_suite h /\ In s (cv_suites v) /\ In s tls13_suites /\ h_sid h = cv_sid v /\ h_comp h = 0
  /\ h_sv h = V13 /\ h_vers h = V12 /\ h_alpn h = [] /\ (forall p, prev = Some p -> s = p).
Proof.
  unfold check_hello13.
  destruct (h_sv h =? 0) eqn:E0; [discriminate|].
  destruct (h_sv h =? V13) eqn:E1; [|discriminate]. cbn [negb].
  destruct (h_vers h =? V12) eqn:E2; [|discriminate]. cbn [negb].
  destruct (h_alpn h) eqn:E3; [|discriminate]. cbn [negb].
  destruct (bytes_eqb (cv_sid v) (h_sid h)) eqn:E4; [|discriminate]. cbn [negb].
  destruct (h_comp h =? 0) eqn:E5; [|discriminate]. cbn [negb].
  apply bytes_eqb_eq in E4. apply N.eqb_eq in E1, E2, E5.
  assert (K : mutual13 (cv_suites v) (h_suite h) = true ->
              In (h_suite h) (cv_suites v) /\ In (h_suite h) tls13_suites).
  { unfold mutual13. intros M. apply andb_true_iff in M. destruct M as [M1 M2].
    split; apply memN_In; assumption. }
  destruct prev as [p|].
  - destruct (mutual13 _ _ && (h_suite h =? p)) eqn:M; [|discriminate].
    intros H; inversion H; subst s. apply andb_true_iff in M. destruct M as [M1 M2].
    apply N.eqb_eq in M2. destruct (K M1). repeat split; auto.
    intros q Hq. inversion Hq. congruence.
  - destruct (mutual13 _ _) eqn:M; [|discriminate].
    intros H; inversion H; subst s. destruct (K eq_refl). repeat split; auto.
    intros q Hq. discriminate.
Qed.

Lemma process_hrr_inv v h shares ecdhe :
  process_hrr v h = inr (shares, ecdhe) ->
  (h_selgroup h = 0 /\ shares = cv_shares v /\ ecdhe = cv_ecdhe v)
  \/ (h_selgroup h <> 0 /\ shares = [h_selgroup h] /\ ecdhe = h_selgroup h
      /\ In (h_selgroup h) (cv_curves v) /\ ~ In (h_selgroup h) (cv_shares v)
      /\ classical_impl (h_selgroup h) = true).
Proof.
  unfold process_hrr.
  destruct ((h_selgroup h =? 0) && negb (h_cookie h)); [discriminate|].
  destruct (h_share h =? 0); [|discriminate]. cbn [negb].
  destruct (h_selgroup h =? 0) eqn:E0.
  - destruct (0 <? cv_psk v); [discriminate|]. intros H; inversion H. left. apply N.eqb_eq in E0. auto.
  - destruct (memN (h_selgroup h) (cv_curves v)) eqn:E1; [|discriminate]. cbn [negb].
    destruct (memN (h_selgroup h) (cv_shares v)) eqn:E2; [discriminate|].
    destruct (classical_impl (h_selgroup h)) eqn:E3; [|discriminate]. cbn [negb].
    destruct (0 <? cv_psk v); [discriminate|]. intros H; inversion H. right.
    apply N.eqb_neq in E0. apply memN_In in E1. apply memN_false in E2. repeat split; auto.
Qed.

Lemma process_sh13_inv v shares suite h psk :
  process_sh13 v shares suite h = inr psk ->
  In (h_share h) shares /\ h_share h <> 0 /\ (forall i, h_psk h = Some i -> i < cv_psk v)
  /\ (psk = true -> exists i, h_psk h = Some i).
Proof.
  unfold process_sh13.
  destruct (h_cookie h); [discriminate|].
  destruct (h_selgroup h =? 0); [|discriminate]. cbn [negb].
  destruct (h_share h =? 0) eqn:E0; [discriminate|].
  destruct (memN (h_share h) shares) eqn:E1; [|discriminate]. cbn [negb].
  apply memN_In in E1. apply N.eqb_neq in E0.
  destruct (h_psk h) as [i|].
  - destruct (cv_psk v <=? i) eqn:E2; [discriminate|].
    intros H. repeat split; auto.
    + intros j Hj. inversion Hj; subst. apply N.leb_gt in E2. exact E2.
    + intros _. exists i. reflexivity.
  - intros H; inversion H. repeat split; auto; intros; discriminate.
Qed.

Lemma check_alpn_inv client server :
  check_alpn client server = true -> server = [] \/ In server client.
Proof.
  unfold check_alpn. destruct server as [|b s]; [auto|].
  destruct client as [|c cl]; [discriminate|]. intros H. right. apply memB_In. exact H.
Qed.

Lemma check_ccert_inv v cc :
  check_ccert v cc = None -> forall a, cc = Some a -> In a (cv_ccalgs v) /\ In a [1; 2; 3].
Proof.
  unfold check_ccert. destruct cc as [alg|]; [|intros _ a H; discriminate].
  destruct (cv_ccext v && _); [|discriminate].
  destruct (memN alg (cv_ccalgs v)) eqn:E1; [|discriminate]. cbn [negb].
  destruct (memN alg [1; 2; 3]) eqn:E2; [|discriminate].
  intros _ a H. inversion H; subst. split; apply memN_In; assumption.
Qed.

(* what a completed TLS 1.3 handshake implies, in terms of the client's view *)
Record accepted13 (v : client_view) (fl : flight) (st : conn_state) : Prop := {
  a13_vers : cs_vers st = V13;
  a13_suite : cs_suite st = h_suite (f_sh fl);
  a13_suite_offered : In (h_suite (f_sh fl)) (cv_suites v);
  a13_suite_tls13 : In (h_suite (f_sh fl)) tls13_suites;
  a13_sid : h_sid (f_sh fl) = cv_sid v;
  a13_comp : h_comp (f_sh fl) = 0;
  a13_group : cs_group st = h_share (f_sh fl);
  a13_group_offered :
    match f_hrr fl with
    | None => In (h_share (f_sh fl)) (cv_shares v)
    | Some h =>
        (h_selgroup h = 0 /\ In (h_share (f_sh fl)) (cv_shares v))
        \/ (h_selgroup h <> 0 /\ h_share (f_sh fl) = h_selgroup h
            /\ In (h_selgroup h) (cv_curves v) /\ ~ In (h_selgroup h) (cv_shares v))
    end;
  a13_hrr : forall h, f_hrr fl = Some h ->
            h_sid h = cv_sid v /\ h_comp h = 0 /\ h_suite h = h_suite (f_sh fl) /\ In (h_suite h) (cv_suites v);
  a13_alpn : cs_alpn st = f_ee_alpn fl;
  a13_alpn_offered : f_ee_alpn fl = [] \/ In (f_ee_alpn fl) (cv_alpn v);
  a13_psk : forall i, h_psk (f_sh fl) = Some i -> i < cv_psk v;
  a13_ccert : cs_psk st = false -> forall a, f_ccert fl = Some a -> In a (cv_ccalgs v)
}.

Lemma run13_inv v fl st : run13 v fl = Complete st -> accepted13 v fl st.
Proof.
  unfold run13.
  destruct ((cv_ecdhe v =? 0) || _); [discriminate|].
  destruct (f_hrr fl) as [hrr|] eqn:Ehrr.
  - destruct (check_hello13 v None hrr) as [a|suite0] eqn:E1; [discriminate|].
    destruct (process_hrr v hrr) as [a|[shares ecdhe]] eqn:E2; [discriminate|].
    destruct (check_hello13 v (Some suite0) (f_sh fl)) as [a|suite] eqn:E3; [discriminate|].
    destruct (process_sh13 v shares suite (f_sh fl)) as [a|psk] eqn:E4; [discriminate|].
    destruct (establish_keys _ _ _); [discriminate|].
    destruct (f_crypto_ok fl); [|discriminate]. cbn [negb].
    destruct (check_alpn (cv_alpn v) (f_ee_alpn fl)) eqn:E5; [|discriminate]. cbn [negb].
    destruct (if psk then None else check_ccert v (f_ccert fl)) eqn:E6; [discriminate|].
    intros H; inversion H; subst st; clear H.
    apply check_hello13_inv in E1. destruct E1 as (A1 & A2 & A3 & A4 & A5 & _).
    apply check_hello13_inv in E3. destruct E3 as (B1 & B2 & B3 & B4 & B5 & _ & _ & _ & B9).
    specialize (B9 suite0 eq_refl).
    apply process_sh13_inv in E4. destruct E4 as (C1 & C2 & C3 & C4).
    apply check_alpn_inv in E5.
    apply process_hrr_inv in E2.
    apply Build_accepted13; cbn [cs_vers cs_suite cs_group cs_alpn cs_psk].
    + reflexivity.
    + exact B1.
    + rewrite <- B1. exact B2.
    + rewrite <- B1. exact B3.
    + exact B4.
    + exact B5.
    + reflexivity.
    + rewrite Ehrr.
      destruct E2 as [(D1 & D2 & D3) | (D1 & D2 & D3 & D4 & D5 & D6)].
      * left. split; [exact D1|]. rewrite <- D2. exact C1.
      * right. rewrite D2 in C1. destruct C1 as [C1|[]]. repeat split; auto.
    + intros h Hh. rewrite Ehrr in Hh. inversion Hh; subst h.
      split; [exact A4|]. split; [exact A5|]. split.
      * rewrite <- A1, <- B1. symmetry. exact B9.
      * rewrite <- A1. exact A2.
    + reflexivity.
    + exact E5.
    + exact C3.
    + intros Hp a Ha. subst psk. exact (proj1 (check_ccert_inv _ _ E6 a Ha)).
  - destruct (check_hello13 v None (f_sh fl)) as [a|suite] eqn:E1; [discriminate|].
    destruct (process_sh13 v (cv_shares v) suite (f_sh fl)) as [a|psk] eqn:E4; [discriminate|].
    destruct (establish_keys _ _ _); [discriminate|].
    destruct (f_crypto_ok fl); [|discriminate]. cbn [negb].
    destruct (check_alpn (cv_alpn v) (f_ee_alpn fl)) eqn:E5; [|discriminate]. cbn [negb].
    destruct (if psk then None else check_ccert v (f_ccert fl)) eqn:E6; [discriminate|].
    intros H; inversion H; subst st; clear H.
    apply check_hello13_inv in E1. destruct E1 as (A1 & A2 & A3 & A4 & A5 & _).
    apply process_sh13_inv in E4. destruct E4 as (C1 & C2 & C3 & C4).
    apply check_alpn_inv in E5.
    apply Build_accepted13; cbn [cs_vers cs_suite cs_group cs_alpn cs_psk].
    + reflexivity.
    + exact A1.
    + rewrite <- A1. exact A2.
    + rewrite <- A1. exact A3.
    + exact A4.
    + exact A5.
    + reflexivity.
    + rewrite Ehrr. exact C1.
    + intros h Hh. rewrite Ehrr in Hh. discriminate.
    + reflexivity.
    + exact E5.
    + exact C3.
    + intros Hp a Ha. subst psk. exact (proj1 (check_ccert_inv _ _ E6 a Ha)).
Qed.

(* ---- TLS 1.0 - 1.2 ---- *)
Record accepted12 (e : env) (v : client_view) (vers : N) (h : hello_msg) (fl : flight) (st : conn_state) : Prop := {
  a12_vers : cs_vers st = vers;
  a12_suite : cs_suite st = h_suite h;
  a12_suite_offered : In (h_suite h) (cv_suites v);
  a12_suite_impl : In (h_suite h) (e_impl12 e);
  a12_comp : h_comp h = 0;
  a12_alpn : cs_alpn st = h_alpn h;
  a12_alpn_offered : h_alpn h = [] \/ In (h_alpn h) (cv_alpn v);
  a12_curve : forall c, f_skx fl = Some c -> cs_group st = c /\ classical_impl c = true
                                              /\ (e_fix_curve12 e = true -> In c (cv_curves v))
}.

Lemma run12_inv e v vers h fl st : run12 e v vers h fl = Complete st -> accepted12 e v vers h fl st.
Proof.
  unfold run12.
  destruct (memN (h_suite h) (cv_suites v) && memN (h_suite h) (e_impl12 e)) eqn:E1; [|discriminate]. cbn [negb].
  destruct (h_comp h =? 0) eqn:E2; [|discriminate]. cbn [negb].
  destruct (check_alpn (cv_alpn v) (h_alpn h)) eqn:E3; [|discriminate]. cbn [negb].
  destruct (process_skx e v (h_suite h) (f_skx fl)) eqn:E4; [discriminate|].
  destruct (f_crypto_ok fl); [|discriminate]. cbn [negb].
  intros H; inversion H; subst st; clear H.
  apply andb_true_iff in E1. destruct E1 as [E1 E1'].
  apply memN_In in E1, E1'. apply N.eqb_eq in E2. apply check_alpn_inv in E3.
  constructor; cbn [cs_vers cs_suite cs_group cs_alpn]; auto.
  intros c Hc. rewrite Hc in *. split; [reflexivity|].
  unfold process_skx in E4. destruct (memN (h_suite h) (e_ecdhe12 e)); [|discriminate].
  destruct (classical_impl c) eqn:E5; [|discriminate]. cbn [negb] in E4.
  split; [reflexivity|]. intros Hf. rewrite Hf in E4. cbn [andb] in E4.
  destruct (memN c (cv_curves v)) eqn:E6; [|discriminate]. apply memN_In. exact E6.
Qed.

(* ---- the whole decision ---- *)
Definition first_hello (fl : flight) : hello_msg := match f_hrr fl with Some h => h | None => f_sh fl end.

Lemma client_run_inv e v fl st :
  client_run_gen e v fl = Complete st ->
  exists vers, pick_version v (first_hello fl) = Some vers
    /\ version_offered e v vers = true
    /\ canary_abort e v vers (first_hello fl) = false
    /\ ((vers = V13 /\ accepted13 v fl st) \/ (vers <> V13 /\ accepted12 e v vers (first_hello fl) fl st)).
Proof.
  unfold client_run_gen. fold (first_hello fl).
  destruct (pick_version v (first_hello fl)) as [vers|] eqn:E1; [|discriminate].
  destruct (version_offered e v vers) eqn:E2; [|discriminate]. cbn [negb].
  destruct (canary_abort e v vers (first_hello fl)) eqn:E3; [discriminate|].
  destruct (vers =? V13) eqn:E4; intros H; exists vers; repeat split; auto.
  - left. apply N.eqb_eq in E4. split; [exact E4|]. apply run13_inv. exact H.
  - right. apply N.eqb_neq in E4. split; [exact E4|]. apply run12_inv. exact H.
Qed.

Lemma completed_version e v fl st :
  client_run_gen e v fl = Complete st ->
  In (cs_vers st) (client_versions v) /\ version_offered e v (cs_vers st) = true.
Proof.
  intros H. apply client_run_inv in H. destruct H as (vers & P & O & _ & [[E A]|[E A]]).
  - rewrite (a13_vers _ _ _ A). subst vers. split; [eapply pick_version_in; eauto | exact O].
  - rewrite (a12_vers _ _ _ _ _ _ A). split; [eapply pick_version_in; eauto | exact O].
Qed.

(* GREASE values are not protocol versions the client can settle on *)
Lemma real_version_not_grease x : In x [V13; V12; V11; V10] -> is_grease x = false.
Proof. intros [H|[H|[H|[H|[]]]]]; subst; reflexivity. Qed.

Lemma advertised_of_sv specmin w x :
  w_has_sv w = true -> In x (w_sv w) -> is_grease x = false -> In x (advertised specmin w).
Proof.
  intros Hs Hi Hg. unfold advertised. rewrite Hs. apply filter_In. split; [exact Hi|]. rewrite Hg. reflexivity.
Qed.

Lemma consistent_in v specmin w x :
  versions_consistent v specmin w = true -> In x (client_versions v) -> In x (advertised specmin w).
Proof.
  unfold versions_consistent. intros H Hx. rewrite forallb_forall in H. apply memN_In. apply H. exact Hx.
Qed.

Lemma version_in_advertised_fixed v specmin w vers :
  versions_synced v specmin w = true ->
  In vers (client_versions v) -> version_offered env_fixed v vers = true ->
  In vers (advertised specmin w).
Proof.
  unfold versions_synced. intros S Hc Ho. destruct (w_has_sv w) eqn:Hs.
  - apply andb_true_iff in S. destruct S as [S1 S2]. apply list_eqN_eq in S1.
    unfold version_offered in Ho. cbn [env_fixed e_fix_version] in Ho. rewrite S1 in Ho.
    destruct (w_sv w) as [|a l] eqn:El; [discriminate|].
    apply advertised_of_sv; [exact Hs | rewrite El; apply memN_In; exact Ho |].
    apply real_version_not_grease. eapply client_versions_sub; eauto.
  - eapply consistent_in; eauto.
Qed.

(* the canary: when the maximum the test uses is TLS 1.3, a sentinel blocks every completion below 1.3 *)
Lemma canary_blocks_gen e v fl st :
  offered_max e v = V13 ->
  h_tail (first_hello fl) = 1 \/ h_tail (first_hello fl) = 2 ->
  client_run_gen e v fl = Complete st -> cs_vers st = V13.
Proof.
  intros Hm Ht H. apply client_run_inv in H. destruct H as (vers & P & _ & Cn & [[E A]|[E A]]).
  - exact (a13_vers _ _ _ A).
  - exfalso. apply pick_version_in in P. apply client_versions_sub in P.
    unfold canary_abort in Cn. rewrite Hm in Cn.
    assert (Hle : (vers <=? V12) = true).
    { destruct P as [P|[P|[P|[P|[]]]]]; subst vers; try reflexivity. congruence. }
    rewrite Hle in Cn. cbn in Cn.
    destruct Ht as [Ht|Ht]; rewrite Ht in Cn; cbn in Cn; discriminate.
Qed.

Lemma max_version_le v : max_version v <= V13.
Proof.
  unfold max_version. destruct (client_versions v) as [|x l] eqn:E; cbn [hd]; [apply N.leb_le; reflexivity|].
  assert (H : In x (client_versions v)) by (rewrite E; left; reflexivity).
  apply client_versions_sub in H. destruct H as [H|[H|[H|[H|[]]]]]; subst x; apply N.leb_le; reflexivity.
Qed.

Lemma offered_max_of_config e v : max_version v = V13 -> offered_max e v = V13.
Proof.
  intros H. unfold offered_max. rewrite H. destruct (e_fix_version e); [|reflexivity].
  destruct (memN V13 (cv_sv v)); [reflexivity|]. destruct (memN V12 (cv_sv v)); reflexivity.
Qed.

Lemma offered_max_of_hello v : In V13 (cv_sv v) -> offered_max env_fixed v = V13.
Proof.
  intros H. unfold offered_max. cbn [env_fixed e_fix_version]. apply memN_In in H. rewrite H.
  pose proof (max_version_le v). apply N.max_r. exact H0.
Qed.

(* a client whose own maximum is TLS 1.3 never completes below 1.3 on a sentinel *)
Lemma canary_blocks e v fl st :
  max_version v = V13 ->
  h_tail (first_hello fl) = 1 \/ h_tail (first_hello fl) = 2 ->
  client_run_gen e v fl = Complete st -> cs_vers st = V13.
Proof. intros Hm. apply canary_blocks_gen. apply offered_max_of_config. exact Hm. Qed.

(* pre-repair reading: if the wire advertises 1.3 and the spec is canary-consistent, the client's max is 1.3 *)
Definition canary_consistent (v : client_view) (w : wire_view) : bool :=
  implb (offers13 w) (max_version v =? V13).

(* ---- completed handshakes, by protocol version ---- *)
Lemma completed_cases e v fl st :
  client_run_gen e v fl = Complete st ->
  (cs_vers st = V13 /\ accepted13 v fl st)
  \/ (cs_vers st <> V13 /\ accepted12 e v (cs_vers st) (first_hello fl) fl st).
Proof.
  intros H. apply client_run_inv in H. destruct H as (vers & _ & _ & _ & [[E A]|[E A]]).
  - left. split; [exact (a13_vers _ _ _ A) | exact A].
  - right. rewrite (a12_vers _ _ _ _ _ _ A). split; [exact E | exact A].
Qed.

Lemma synced_inv v w :
  synced v w = true ->
  cv_suites v = w_suites w /\ cv_curves v = w_groups w /\ cv_shares v = w_shares w
  /\ cv_alpn v = w_alpn w /\ cv_sid v = w_sid w /\ cv_psk v = w_psk w
  /\ cv_ccalgs v = w_ccalgs w /\ In 0 (w_comps w).
Proof.
  unfold synced. intros H.
  repeat (apply andb_true_iff in H; let H' := fresh "S" in destruct H as [H H']).
  apply list_eqN_eq in H. apply list_eqN_eq in S6. apply list_eqN_eq in S5. apply list_eqB_eq in S4.
  apply bytes_eqb_eq in S3. apply N.eqb_eq in S2. apply list_eqN_eq in S1. apply memN_In in S.
  repeat split; assumption.
Qed.

(* ---- C12, in terms of what the wire hello offered ---- *)
Section Wire.
  Variables (e : env) (v : client_view) (w : wire_view) (fl : flight) (st : conn_state).
  Hypothesis Hsync : synced v w = true.
  Hypothesis Hrun : client_run_gen e v fl = Complete st.

  Lemma wire_suite13 :
    cs_vers st = V13 ->
    cs_suite st = h_suite (f_sh fl) /\ In (cs_suite st) (w_suites w) /\ In (cs_suite st) tls13_suites
    /\ (forall h, f_hrr fl = Some h -> h_suite h = cs_suite st).
  Proof.
    intros Hv. destruct (synced_inv _ _ Hsync) as (S1 & _).
    destruct (completed_cases _ _ _ _ Hrun) as [[_ A]|[E _]]; [|congruence].
    rewrite (a13_suite _ _ _ A). rewrite <- S1. repeat split.
    - exact (a13_suite_offered _ _ _ A).
    - exact (a13_suite_tls13 _ _ _ A).
    - intros h Hh. destruct (a13_hrr _ _ _ A h Hh) as (_ & _ & K & _). exact K.
  Qed.

  Lemma wire_suite12 :
    cs_vers st <> V13 ->
    cs_suite st = h_suite (first_hello fl) /\ In (cs_suite st) (w_suites w) /\ In (cs_suite st) (e_impl12 e).
  Proof.
    intros Hv. destruct (synced_inv _ _ Hsync) as (S1 & _).
    destruct (completed_cases _ _ _ _ Hrun) as [[E _]|[_ A]]; [congruence|].
    rewrite (a12_suite _ _ _ _ _ _ A). rewrite <- S1. repeat split.
    - exact (a12_suite_offered _ _ _ _ _ _ A).
    - exact (a12_suite_impl _ _ _ _ _ _ A).
  Qed.

  Lemma wire_group13 :
    cs_vers st = V13 ->
    cs_group st = h_share (f_sh fl)
    /\ match f_hrr fl with
       | None => In (cs_group st) (w_shares w)
       | Some h => (h_selgroup h = 0 /\ In (cs_group st) (w_shares w))
                   \/ (h_selgroup h <> 0 /\ cs_group st = h_selgroup h
                       /\ In (cs_group st) (w_groups w) /\ ~ In (cs_group st) (w_shares w))
       end.
  Proof.
    intros Hv. destruct (synced_inv _ _ Hsync) as (_ & S2 & S3 & _).
    destruct (completed_cases _ _ _ _ Hrun) as [[_ A]|[E _]]; [|congruence].
    rewrite (a13_group _ _ _ A). split; [reflexivity|].
    pose proof (a13_group_offered _ _ _ A) as G. rewrite <- S2, <- S3.
    destruct (f_hrr fl) as [h|]; [|exact G].
    destruct G as [G|(G1 & G2 & G3 & G4)]; [left; exact G|].
    right. rewrite G2. auto.
  Qed.

  Lemma wire_alpn : cs_alpn st = [] \/ In (cs_alpn st) (w_alpn w).
  Proof.
    destruct (synced_inv _ _ Hsync) as (_ & _ & _ & S4 & _). rewrite <- S4.
    destruct (completed_cases _ _ _ _ Hrun) as [[_ A]|[_ A]].
    - rewrite (a13_alpn _ _ _ A). exact (a13_alpn_offered _ _ _ A).
    - rewrite (a12_alpn _ _ _ _ _ _ A). exact (a12_alpn_offered _ _ _ _ _ _ A).
  Qed.

  (* every hello the client acted on carries a compression method the wire hello listed (null) *)
  Lemma wire_compression :
    forall h, (f_hrr fl = Some h \/ (cs_vers st = V13 /\ h = f_sh fl) \/ (cs_vers st <> V13 /\ h = first_hello fl)) ->
              h_comp h = 0 /\ In (h_comp h) (w_comps w).
  Proof.
    destruct (synced_inv _ _ Hsync) as (_ & _ & _ & _ & _ & _ & _ & S8).
    assert (K : forall h, h_comp h = 0 -> h_comp h = 0 /\ In (h_comp h) (w_comps w)).
    { intros h Hh. rewrite Hh. auto. }
    intros h Hh. apply K.
    destruct (completed_cases _ _ _ _ Hrun) as [[E A]|[E A]].
    - destruct Hh as [Hh|[[_ Hh]|[Hh _]]]; [| |congruence].
      + destruct (a13_hrr _ _ _ A h Hh) as (_ & K2 & _). exact K2.
      + subst h. exact (a13_comp _ _ _ A).
    - destruct Hh as [Hh|[[Hh _]|[_ Hh]]]; [|congruence|].
      + pose proof (a12_comp _ _ _ _ _ _ A) as K2. unfold first_hello in K2. rewrite Hh in K2. exact K2.
      + subst h. exact (a12_comp _ _ _ _ _ _ A).
  Qed.

  Lemma wire_psk : cs_vers st = V13 -> forall i, h_psk (f_sh fl) = Some i -> i < w_psk w.
  Proof.
    intros Hv. destruct (synced_inv _ _ Hsync) as (_ & _ & _ & _ & _ & S6 & _). rewrite <- S6.
    destruct (completed_cases _ _ _ _ Hrun) as [[_ A]|[E _]]; [|congruence].
    exact (a13_psk _ _ _ A).
  Qed.

  Lemma wire_certcomp : cs_vers st = V13 -> cs_psk st = false -> forall a, f_ccert fl = Some a -> In a (w_ccalgs w).
  Proof.
    intros Hv. destruct (synced_inv _ _ Hsync) as (_ & _ & _ & _ & _ & _ & S7 & _). rewrite <- S7.
    destruct (completed_cases _ _ _ _ Hrun) as [[_ A]|[E _]]; [|congruence].
    exact (a13_ccert _ _ _ A).
  Qed.

  Lemma wire_sessionid :
    cs_vers st = V13 -> h_sid (f_sh fl) = w_sid w /\ (forall h, f_hrr fl = Some h -> h_sid h = w_sid w).
  Proof.
    intros Hv. destruct (synced_inv _ _ Hsync) as (_ & _ & _ & _ & S5 & _). rewrite <- S5.
    destruct (completed_cases _ _ _ _ Hrun) as [[_ A]|[E _]]; [|congruence].
    split; [exact (a13_sid _ _ _ A)|]. intros h Hh. destruct (a13_hrr _ _ _ A h Hh) as (K & _). exact K.
  Qed.

  Lemma wire_curve12 :
    e_fix_curve12 e = true -> cs_vers st <> V13 ->
    forall c, f_skx fl = Some c -> cs_group st = c /\ In c (w_groups w).
  Proof.
    intros Hf Hv c Hc. destruct (synced_inv _ _ Hsync) as (_ & S2 & _). rewrite <- S2.
    destruct (completed_cases _ _ _ _ Hrun) as [[E _]|[_ A]]; [congruence|].
    destruct (a12_curve _ _ _ _ _ _ A c Hc) as (K1 & _ & K3). split; [exact K1 | exact (K3 Hf)].
  Qed.
End Wire.

(* the implemented TLS <= 1.2 suites contain no TLS 1.3 id: a 1.3 suite in a 1.2 ServerHello is refused *)
Lemma impl12_no_tls13 : forall x, In x impl12_default -> ~ In x tls13_suites.
Proof.
  intros x Hx Hy. apply memN_In in Hx. destruct Hy as [H|[H|[H|[]]]]; subst x; vm_compute in Hx; discriminate.
Qed.

(* ---- before the repairs: the two witnesses ---- *)
(* F-12: Chrome-like hello offering X25519, P-256, P-384; TLS 1.2 server signs a P-521 ServerKeyExchange *)
Definition f12_view : client_view :=
  mkView [4865; 49195; 49199] [29; 23; 24] [29] [[104; 50]] [1; 2; 3] 0 [2] true 769 772 false 29 false [772; 771] 0.
Definition f12_wire : wire_view :=
  mkWire 771 [4865; 49195; 49199] [0] [29; 23; 24] [29] [[104; 50]] [1; 2; 3] 0 [2] true [772; 771].
Definition f12_flight : flight :=
  mkFlight None (mkHello 771 0 0 [9] 49199 0 0 0 false None []) [] None (Some 25) true.

Definition curve12_statement (e : env) : Prop :=
  forall v w fl st c, synced v w = true -> client_run_gen e v fl = Complete st ->
                      cs_vers st <> V13 -> f_skx fl = Some c -> In c (w_groups w).

Lemma curve12_unfixed_refuted : ~ curve12_statement env_unfixed.
Proof.
  intros H.
  specialize (H f12_view f12_wire f12_flight (mkState 771 49199 25 [] false false) 25).
  assert (K : In 25 (w_groups f12_wire)).
  { apply H; [vm_compute; reflexivity | vm_compute; reflexivity | vm_compute; discriminate | reflexivity]. }
  vm_compute in K. intuition discriminate.
Qed.

Lemma curve12_fixed : curve12_statement env_fixed.
Proof.
  intros v w fl st c Hs Hr Hv Hc.
  exact (proj2 (wire_curve12 env_fixed v w fl st Hs Hr eq_refl Hv c Hc)).
Qed.

(* ---- C13 ---- *)
Definition version_statement (e : env) : Prop :=
  forall v specmin w fl st, versions_synced v specmin w = true ->
    client_run_gen e v fl = Complete st -> In (cs_vers st) (advertised specmin w).

Lemma version_fixed : version_statement env_fixed.
Proof.
  intros v specmin w fl st Hs Hr. destruct (completed_version _ _ _ _ Hr) as [H1 H2].
  eapply version_in_advertised_fixed; eauto.
Qed.

(* F-13: Firefox_102: TLSVersMin 1.0 / TLSVersMax 1.3 copied into Config, supported_versions {1.3,1.2} on the
   wire; a legacy server answers TLS 1.0 with an offered CBC suite *)
Definition f13_view : client_view :=
  mkView [4865; 49171; 47] [29; 23] [29] [] [1; 2; 3] 0 [] false 769 772 false 29 false [772; 771] 0.
Definition f13_wire : wire_view :=
  mkWire 771 [4865; 49171; 47] [0] [29; 23] [29] [] [1; 2; 3] 0 [] true [772; 771].
Definition f13_flight : flight :=
  mkFlight None (mkHello 769 0 0 [9] 49171 0 0 0 false None []) [] None (Some 29) true.

Lemma version_unfixed_refuted : ~ version_statement env_unfixed.
Proof.
  intros H.
  specialize (H f13_view 769 f13_wire f13_flight (mkState 769 49171 29 [] false false)).
  assert (K : In 769 (advertised 769 f13_wire)).
  { apply H; vm_compute; reflexivity. }
  vm_compute in K. intuition discriminate.
Qed.

(* the pre-repair client is right exactly for consistent specs *)
Lemma version_unfixed_holds_if v specmin w fl st e :
  versions_consistent v specmin w = true ->
  client_run_gen e v fl = Complete st -> In (cs_vers st) (advertised specmin w).
Proof.
  intros Hc Hr. destruct (completed_version _ _ _ _ Hr) as [H1 _]. eapply consistent_in; eauto.
Qed.

(* canary, wire-level reading: whenever the WIRE hello offers TLS 1.3 *)
Definition canary_statement (e : env) : Prop :=
  forall v specmin w fl st, versions_synced v specmin w = true -> offers13 w = true ->
    (h_tail (first_hello fl) = 1 \/ h_tail (first_hello fl) = 2) ->
    client_run_gen e v fl = Complete st -> cs_vers st = V13.

(* a custom spec with TLSVersMax 1.2 whose extension still lists 1.3: before the repair the sentinel
   was compared with Config.MaxVersion only and not honoured *)
Definition canary_view : client_view :=
  mkView [4865; 49199] [29; 23] [29] [] [1; 2; 3] 0 [] false 771 771 false 29 false [772; 771] 0.
Definition canary_wire : wire_view :=
  mkWire 771 [4865; 49199] [0] [29; 23] [29] [] [1; 2; 3] 0 [] true [772; 771].
Definition canary_flight : flight :=
  mkFlight None (mkHello 771 0 1 [9] 49199 0 0 0 false None []) [] None (Some 29) true.

Lemma canary_unfixed_refuted : ~ canary_statement env_unfixed.
Proof.
  intros H.
  specialize (H canary_view 771 canary_wire canary_flight (mkState 771 49199 29 [] false false)).
  assert (K : 771 = V13).
  { apply H; [vm_compute; reflexivity | vm_compute; reflexivity | left; reflexivity | vm_compute; reflexivity]. }
  discriminate.
Qed.

Lemma canary_fixed : canary_statement env_fixed.
Proof.
  intros v specmin w fl st Hs Ho Ht Hr.
  unfold offers13 in Ho. apply andb_true_iff in Ho. destruct Ho as [Ho1 Ho2].
  unfold versions_synced in Hs. rewrite Ho1 in Hs. apply andb_true_iff in Hs. destruct Hs as [Hs _].
  apply list_eqN_eq in Hs. apply memN_In in Ho2. rewrite <- Hs in Ho2.
  eapply canary_blocks_gen; eauto. apply offered_max_of_hello. exact Ho2.
Qed.

Lemma canary_holds_if e v w fl st :
  canary_consistent v w = true -> offers13 w = true ->
  (h_tail (first_hello fl) = 1 \/ h_tail (first_hello fl) = 2) ->
  client_run_gen e v fl = Complete st -> cs_vers st = V13.
Proof.
  unfold canary_consistent. intros Hc Ho Ht Hr. rewrite Ho in Hc. cbn [implb] in Hc.
  apply N.eqb_eq in Hc. eapply canary_blocks; eauto.
Qed.

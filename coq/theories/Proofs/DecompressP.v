(* Proofs about Model/Decompress.v (property C21). *)
From UV Require Import Base.Common Model.Decompress.
From Coq Require Import ZifyBool ZifyNat ZifyN.
Ltac Zify.zify_post_hook ::= Z.div_mod_to_equations.

Arguments N.modulo : simpl never.
Arguments N.div : simpl never.
Arguments N.mul : simpl never.
Arguments N.add : simpl never.
Arguments N.of_nat : simpl never.
Arguments N.to_nat : simpl never.

(* ---------- CompressedCertificate message codec ---------- *)
Lemma cc_roundtrip m b : cc_alg m < 65536 -> cc_ulen m < 16777216 ->
  cc_marshal m = Ok b -> forall trailing, cc_unmarshal (b ++ trailing) = Some m.
Proof.
  intros Ha Hu H trailing. unfold cc_marshal in H.
  destruct (dlen (cc_data m) <? 16777216) eqn:E1; cbn [negb] in H; [|discriminate].
  destruct (dlen (dbe16 (cc_alg m) ++ dbe24 (cc_ulen m) ++ dbe24 (dlen (cc_data m)) ++ cc_data m) <? 16777216) eqn:E2;
    cbn [negb] in H; [|discriminate].
  assert (Hb : b = utlsTypeCompressedCertificate :: dbe24 (dlen (dbe16 (cc_alg m) ++ dbe24 (cc_ulen m) ++ dbe24 (dlen (cc_data m)) ++ cc_data m))
                   ++ dbe16 (cc_alg m) ++ dbe24 (cc_ulen m) ++ dbe24 (dlen (cc_data m)) ++ cc_data m) by congruence.
  subst b. destruct m as [alg ulen data]. cbn [cc_alg cc_ulen cc_data] in *.
  unfold dbe24 at 1. unfold dbe16, dbe24. cbn [app]. unfold cc_unmarshal.
  set (n := u8 (dlen data / 65536) * 65536 + u8 (dlen data / 256) * 256 + u8 (dlen data)).
  assert (Hn : n = dlen data) by (unfold n, u8; apply N.ltb_lt in E1; lia).
  assert (Hle : (n <=? dlen (data ++ trailing)) = true).
  { rewrite Hn. unfold dlen. rewrite app_length. lia. }
  rewrite Hle. f_equal. f_equal.
  - unfold u8. lia.
  - unfold u8. lia.
  - rewrite Hn. unfold dlen. rewrite Nat2N.id. rewrite firstn_app, Nat.sub_diag, firstn_all, firstn_O, app_nil_r. reflexivity.
Qed.

(* ---------- readers ---------- *)
Definition sum (l : list nat) : nat := fold_right Nat.add 0%nat l.
Definition wfr (r : reader) : Prop := Forall (fun c => (0 < c)%nat) (r_chunks r) /\ sum (r_chunks r) = length (r_out r).

Lemma firstn_add {A} (a b : nat) (l : list A) : firstn (a + b) l = firstn a l ++ firstn b (skipn a l).
Proof. revert l. induction a as [|a IH]; intros l; [reflexivity|]. destruct l as [|x l]; cbn; [destruct b; reflexivity|]. rewrite IH. reflexivity. Qed.
Lemma skipn_add {A} (a b : nat) (l : list A) : skipn (a + b) l = skipn b (skipn a l).
Proof. revert l. induction a as [|a IH]; intros l; [reflexivity|]. destruct l as [|x l]; cbn; [destruct b; reflexivity|]. apply IH. Qed.

(* enough bytes: ReadFull delivers exactly the first [want] bytes, whatever the chunking *)
Lemma read_full_enough ee : forall fuel r want, wfr r -> (want <= length (r_out r))%nat -> (length (r_chunks r) < fuel)%nat ->
  exists r', read_full ee fuel r want = (firstn want (r_out r), ENone, r') /\ wfr r' /\
             r_out r' = skipn want (r_out r) /\ r_end r' = r_end r.
Proof.
  induction fuel as [|f IH]; intros r want [Hpos Hsum] Hw Hf; [lia|].
  destruct want as [|w].
  - exists r. cbn. repeat split; auto.
  - cbn [read_full]. unfold read1. destruct r as [out chunks e]. cbn [r_out r_chunks r_end] in *.
    destruct chunks as [|c cs]; [cbn in Hsum; lia|].
    inversion Hpos as [|? ? Hc Hcs]; subst. cbn [sum fold_right] in Hsum. fold (sum cs) in Hsum.
    assert (Hlen : length (firstn (Nat.min c (S w)) out) = Nat.min c (S w)) by (apply firstn_length_le; lia).
    rewrite Hlen.
    destruct (S w <=? Nat.min c (S w))%nat eqn:Efull.
    + apply Nat.leb_le in Efull. assert (Hmin : Nat.min c (S w) = S w) by lia. rewrite Hmin.
      eexists. split; [reflexivity|]. unfold wfr. cbn [r_out r_chunks r_end].
      split; [split | split; reflexivity].
      * destruct (c <=? S w)%nat eqn:Ec; [exact Hcs|]. constructor; [apply Nat.leb_gt in Ec; lia | exact Hcs].
      * rewrite skipn_length. destruct (c <=? S w)%nat eqn:Ec.
        -- apply Nat.leb_le in Ec. lia.
        -- apply Nat.leb_gt in Ec. cbn [sum fold_right]. fold (sum cs). lia.
    + apply Nat.leb_gt in Efull. assert (Hmin : Nat.min c (S w) = c) by lia. rewrite Hmin.
      assert (Ec : (c <=? S w)%nat = true) by (apply Nat.leb_le; lia). rewrite Ec.
      assert (Hcsne : cs <> []) by (intros ->; cbn in Hsum; lia).
      assert (He : match cs, e with [], REof => if ee then EEOF else ENone | _, _ => ENone end = ENone)
        by (destruct cs; [congruence | reflexivity]).
      rewrite He.
      destruct (IH (mkR (skipn c out) cs e) (S w - c)%nat) as (r' & Hr & Hwf & Hout & Hend).
      * split; cbn [r_chunks r_out]; [exact Hcs | rewrite skipn_length; lia].
      * cbn [r_out]. rewrite skipn_length. lia.
      * cbn [r_chunks length] in *. lia.
      * rewrite Hr. cbn [r_out] in *. exists r'. split; [|split; [exact Hwf | split; [|exact Hend]]].
        -- f_equal. f_equal. replace (S w) with (c + (S w - c))%nat at 2 by lia. rewrite firstn_add. reflexivity.
        -- rewrite Hout. replace (S w) with (c + (S w - c))%nat at 2 by lia. rewrite skipn_add. reflexivity.
Qed.

(* not enough bytes: ReadFull reports an error, whatever the chunking and however the stream ends *)
Lemma read_full_short ee : forall fuel r want, wfr r -> (length (r_out r) < want)%nat ->
  forall d e r', read_full ee fuel r want = (d, e, r') -> e <> ENone.
Proof.
  induction fuel as [|f IH]; intros r want [Hpos Hsum] Hw d e r' H.
  - destruct want; [lia|]. cbn in H. inversion H. discriminate.
  - destruct want as [|w]; [lia|]. cbn [read_full] in H. unfold read1 in H.
    destruct r as [out chunks en]. cbn [r_out r_chunks r_end] in *.
    destruct chunks as [|c cs].
    + cbn [length] in H. cbn in H. destruct en; inversion H; discriminate.
    + inversion Hpos as [|? ? Hc Hcs]; subst. cbn [sum fold_right] in Hsum. fold (sum cs) in Hsum.
      assert (Hmin : Nat.min c (S w) = c) by lia. rewrite Hmin in H.
      assert (Hlen : length (firstn c out) = c) by (apply firstn_length_le; lia). rewrite Hlen in H.
      assert (Efull : (S w <=? c)%nat = false) by (apply Nat.leb_gt; lia). rewrite Efull in H.
      assert (Ec : (c <=? S w)%nat = true) by (apply Nat.leb_le; lia). rewrite Ec in H.
      destruct (match cs, en with [], REof => if ee then EEOF else ENone | _, _ => ENone end) eqn:He.
      * destruct (read_full ee f (mkR (skipn c out) cs en) (S w - c)) as [[d2 e2] r2] eqn:R.
        inversion H; subst. eapply (IH _ _ _ _ _ _ _ R). Unshelve.
        -- split; cbn [r_chunks r_out]; [exact Hcs | rewrite skipn_length; lia].
        -- cbn [r_out]. rewrite skipn_length. lia.
      * inversion H. destruct (0 <? c)%nat; discriminate.
      * inversion H. discriminate.
Qed.

Section Cert.
Variable C : Type.
Variable parse_cert : bytes -> option C.
Notation decompress_cert := (decompress_cert C parse_cert).
Notation decompress_cert_v0 := (decompress_cert_v0 C parse_cert).

Definition advertisedb (adv : list N) (alg : N) : bool := existsb (N.eqb alg) adv.

Lemma pre_ok adv alg : advertisedb adv alg = true -> known_alg alg = true -> pre_checks adv alg true = Ok tt.
Proof. unfold pre_checks, advertisedb. intros -> ->. reflexivity. Qed.

(* characterisation of the fixed decompressCert on a well-formed reader *)
Lemma decompress_spec ee adv alg declared r :
  advertisedb adv alg = true -> known_alg alg = true -> wfr r ->
  decompress_cert ee adv alg declared true r =
    if (declared <=? maxHandshakeCertificateMsg) && (N.to_nat declared =? length (r_out r))%nat
       && match r_end r with REof => true | RErr => false end
    then match parse_cert (header declared ++ r_out r) with Some c => Ok c | None => Err alertUnexpectedMessage end
    else Err alertBadCertificate.
Proof.
  intros Ha Hk Hwf. unfold Decompress.decompress_cert. rewrite (pre_ok _ _ Ha Hk). cbn [bind].
  destruct (maxHandshakeCertificateMsg <? declared) eqn:Ecap.
  - replace (declared <=? maxHandshakeCertificateMsg) with false by lia. reflexivity.
  - replace (declared <=? maxHandshakeCertificateMsg) with true by lia. cbn [andb].
    set (want := N.to_nat declared).
    destruct (Nat.le_gt_cases want (length (r_out r))) as [Hle | Hgt].
    + destruct (read_full_enough ee (S (length (r_chunks r))) r want Hwf Hle (Nat.lt_succ_diag_r _))
        as (r1 & Hr & Hwf1 & Hout1 & Hend1).
      rewrite Hr.
      destruct (want =? length (r_out r))%nat eqn:Eeq.
      * apply Nat.eqb_eq in Eeq. destruct Hwf1 as [Hpos1 Hsum1].
        assert (Hnil : r_out r1 = []) by (rewrite Hout1, Eeq; apply skipn_all).
        assert (Hch : r_chunks r1 = []).
        { rewrite Hnil in Hsum1. destruct (r_chunks r1) as [|c cs]; [reflexivity|].
          inversion Hpos1; subst. cbn in Hsum1. lia. }
        rewrite Hch. cbn [length read_full]. unfold read1. rewrite Hch. rewrite Hend1.
        rewrite Eeq, firstn_all. cbn [andb].
        destruct (r_end r); cbn; reflexivity.
      * apply Nat.eqb_neq in Eeq. cbn [andb].
        destruct Hwf1 as [Hpos1 Hsum1].
        assert (Hrem : (0 < length (r_out r1))%nat) by (rewrite Hout1, skipn_length; lia).
        destruct (r_chunks r1) as [|c cs] eqn:Hch; [cbn in Hsum1; lia|].
        inversion Hpos1 as [|? ? Hc Hcs]; subst.
        cbn [length read_full]. unfold read1. rewrite Hch.
        assert (Hmin : Nat.min c 1 = 1%nat) by lia. rewrite Hmin.
        destruct (r_out r1) as [|x xs] eqn:Ho; [cbn in Hrem; lia|].
        cbn [firstn length Nat.leb]. reflexivity.
    + replace (want =? length (r_out r))%nat with false by (symmetry; apply Nat.eqb_neq; lia). cbn [andb].
      destruct (read_full ee (S (length (r_chunks r))) r want) as [[d e] r1] eqn:R.
      pose proof (read_full_short ee _ r want Hwf Hgt d e r1 R) as Hne.
      destruct e; [congruence | reflexivity | reflexivity].
Qed.

Definition good_reader (out : bytes) (chunks : list nat) : Prop :=
  Forall (fun c => (0 < c)%nat) chunks /\ sum chunks = length out.

(* every valid encoding (any chunking that ends cleanly) is recovered exactly *)
Theorem cc_recover ee adv alg out chunks :
  advertisedb adv alg = true -> known_alg alg = true -> good_reader out chunks ->
  dlen out <= maxHandshakeCertificateMsg ->
  decompress_cert ee adv alg (dlen out) true (mkR out chunks REof) =
    match parse_cert (header (dlen out) ++ out) with Some c => Ok c | None => Err alertUnexpectedMessage end.
Proof.
  intros Ha Hk Hg Hcap. rewrite decompress_spec by assumption. cbn [r_out r_end].
  replace (dlen out <=? maxHandshakeCertificateMsg) with true by lia.
  unfold dlen. rewrite Nat2N.id, Nat.eqb_refl. reflexivity.
Qed.

Theorem cc_longer ee adv alg declared out chunks e :
  good_reader out chunks -> declared < dlen out ->
  decompress_cert ee adv alg declared true (mkR out chunks e) = Err alertBadCertificate.
Proof.
  intros Hg Hlt. destruct (advertisedb adv alg) eqn:Ha; [destruct (known_alg alg) eqn:Hk|].
  - rewrite decompress_spec by assumption. cbn [r_out r_end].
    replace (N.to_nat declared =? length out)%nat with false by (symmetry; apply Nat.eqb_neq; unfold dlen in Hlt; lia).
    rewrite andb_false_r. reflexivity.
  - unfold Decompress.decompress_cert, pre_checks. fold (advertisedb adv alg). rewrite Ha, Hk. reflexivity.
  - unfold Decompress.decompress_cert, pre_checks. fold (advertisedb adv alg). rewrite Ha. reflexivity.
Qed.

Theorem cc_shorter ee adv alg declared out chunks e :
  good_reader out chunks -> dlen out < declared ->
  decompress_cert ee adv alg declared true (mkR out chunks e) = Err alertBadCertificate.
Proof.
  intros Hg Hlt. destruct (advertisedb adv alg) eqn:Ha; [destruct (known_alg alg) eqn:Hk|].
  - rewrite decompress_spec by assumption. cbn [r_out r_end].
    replace (N.to_nat declared =? length out)%nat with false by (symmetry; apply Nat.eqb_neq; unfold dlen in Hlt; lia).
    rewrite andb_false_r. reflexivity.
  - unfold Decompress.decompress_cert, pre_checks. fold (advertisedb adv alg). rewrite Ha, Hk. reflexivity.
  - unfold Decompress.decompress_cert, pre_checks. fold (advertisedb adv alg). rewrite Ha. reflexivity.
Qed.

Theorem cc_unadvertised ee adv alg declared open_ok r :
  advertisedb adv alg = false -> decompress_cert ee adv alg declared open_ok r = Err alertBadCertificate.
Proof. intros Ha. unfold Decompress.decompress_cert, pre_checks. fold (advertisedb adv alg). rewrite Ha. reflexivity. Qed.

(* never another message: acceptance pins the declared length, the clean end and the parsed bytes *)
Theorem cc_only_the_compressed ee adv alg declared out chunks e c :
  good_reader out chunks ->
  decompress_cert ee adv alg declared true (mkR out chunks e) = Ok c ->
  advertisedb adv alg = true /\ declared = dlen out /\ e = REof /\ declared <= maxHandshakeCertificateMsg /\
  parse_cert (header declared ++ out) = Some c.
Proof.
  intros Hg H. destruct (advertisedb adv alg) eqn:Ha; [destruct (known_alg alg) eqn:Hk|].
  - rewrite decompress_spec in H by assumption. cbn [r_out r_end] in H.
    destruct (declared <=? maxHandshakeCertificateMsg) eqn:E1; cbn [andb] in H; [|discriminate].
    destruct (N.to_nat declared =? length out)%nat eqn:E2; cbn [andb] in H; [|discriminate].
    destruct e; [|discriminate]. apply Nat.eqb_eq in E2.
    destruct (parse_cert (header declared ++ out)) eqn:P; [|discriminate].
    repeat split; auto; try (unfold dlen; lia). congruence.
  - unfold Decompress.decompress_cert, pre_checks in H. fold (advertisedb adv alg) in H. rewrite Ha, Hk in H. discriminate.
  - unfold Decompress.decompress_cert, pre_checks in H. fold (advertisedb adv alg) in H. rewrite Ha in H. discriminate.
Qed.

(* the code as found is correct only when the decoder hands everything over in one Read *)
Theorem v0_holds_if ee adv alg out :
  advertisedb adv alg = true -> known_alg alg = true -> out <> [] ->
  decompress_cert_v0 ee adv alg (dlen out) true (mkR out [length out] REof) =
    match parse_cert (header (dlen out) ++ out) with Some c => Ok c | None => Err alertUnexpectedMessage end.
Proof.
  intros Ha Hk Hne. unfold Decompress.decompress_cert_v0. rewrite (pre_ok _ _ Ha Hk). cbn [bind].
  unfold dlen at 1 2. rewrite Nat2N.id. unfold read1. cbn [r_chunks r_out r_end].
  destruct (length out) as [|n] eqn:L; [destruct out; [congruence | discriminate]|].
  rewrite Nat.min_id, Nat.leb_refl. rewrite <- L, firstn_all.
  assert (Hlt : (length out <? length out)%nat = false) by apply Nat.ltb_irrefl.
  assert (Hd : N.to_nat (dlen out) = length out) by (unfold dlen; apply Nat2N.id).
  destruct ee; rewrite ?Hd, Hlt; reflexivity.
Qed.
End Cert.

(* ---------- zstd window cap ---------- *)
Lemma cut_chunks_good cs : forall off, Forall (fun c => (0 < c)%nat) cs ->
  Forall (fun c => (0 < c)%nat) (cut_chunks off cs) /\ sum (cut_chunks off cs) = Nat.min off (sum cs).
Proof.
  induction cs as [|c cs IH]; intros off Hp.
  - cbn. split; [constructor | lia].
  - inversion Hp as [|? ? Hc Hcs]; subst. cbn [cut_chunks]. destruct off as [|o].
    + cbn. split; [constructor | reflexivity].
    + cbn [sum fold_right]. fold (sum cs). destruct (c <=? S o)%nat eqn:E.
      * apply Nat.leb_le in E. destruct (IH (S o - c)%nat Hcs) as [A B]. split; [constructor; assumption|].
        cbn [sum fold_right]. fold (sum (cut_chunks (S o - c) cs)). rewrite B. lia.
      * apply Nat.leb_gt in E. split; [constructor; [lia | constructor]|]. unfold sum at 1. cbn [fold_right]. lia.
Qed.

Lemma truncated_wfr off out chunks : good_reader out chunks ->
  wfr (mkR (firstn off out) (cut_chunks off chunks) RErr).
Proof.
  intros [Hp Hs]. destruct (cut_chunks_good chunks off Hp) as [A B]. split; cbn [r_chunks r_out]; [exact A|].
  rewrite B, firstn_length, Hs. reflexivity.
Qed.

Section Top.
Variable C : Type.
Variable parse_cert : bytes -> option C.
Notation top := (decompress_cert_top C parse_cert).

Definition windows_ok (alg : N) (fs : zframes) : Prop :=
  alg = CertCompressionZstd -> Forall (fun f => fst f <= maxCompressedCertZstdWindow) fs.

Lemma first_over_none cap fs : Forall (fun f => fst f <= cap) fs -> forall acc, first_over cap fs acc = None.
Proof.
  induction fs as [|[w n] fs IH]; intros H acc; [reflexivity|]. inversion H as [|? ? Hw Hr]; subst. cbn [first_over fst] in *.
  replace (cap <? w) with false by lia. apply IH. exact Hr.
Qed.

Lemma first_over_some cap fs : Exists (fun f => cap < fst f) fs -> forall acc, exists off, first_over cap fs acc = Some off.
Proof.
  induction fs as [|[w n] fs IH]; intros H acc; [inversion H|]. cbn [first_over].
  destruct (cap <? w) eqn:E; [eauto|]. inversion H as [? ? Hw | ? ? Hr]; subst; [cbn in Hw; lia | apply IH; exact Hr].
Qed.

Lemma effective_id alg fs r : windows_ok alg fs -> effective alg fs r = r.
Proof.
  intros H. unfold effective. destruct (alg =? CertCompressionZstd) eqn:E; [|reflexivity].
  apply N.eqb_eq in E. unfold zstd_effective. rewrite first_over_none by (apply H; exact E). reflexivity.
Qed.

(* with every declared window within the cap (or brotli/zlib): any valid encoding is recovered exactly *)
Theorem top_recover ee adv alg out chunks fs :
  advertisedb adv alg = true -> known_alg alg = true -> good_reader out chunks ->
  dlen out <= maxHandshakeCertificateMsg -> windows_ok alg fs ->
  top ee adv alg (dlen out) true fs (mkR out chunks REof) =
    match parse_cert (header (dlen out) ++ out) with Some c => Ok c | None => Err alertUnexpectedMessage end.
Proof.
  intros Ha Hk Hg Hcap Hw. unfold decompress_cert_top. rewrite effective_id by exact Hw.
  apply cc_recover; assumption.
Qed.

(* a zstd frame declaring a window above the cap: bad_certificate, whatever else the stream holds *)
Theorem top_window_refused ee adv declared out chunks e fs :
  good_reader out chunks -> Exists (fun f => maxCompressedCertZstdWindow < fst f) fs ->
  top ee adv CertCompressionZstd declared true fs (mkR out chunks e) = Err alertBadCertificate.
Proof.
  intros Hg Hex. unfold decompress_cert_top, effective. rewrite N.eqb_refl. unfold zstd_effective.
  destruct (first_over_some _ _ Hex O) as (off & ->). cbn [r_out r_chunks].
  destruct (advertisedb adv CertCompressionZstd) eqn:Ha.
  - rewrite decompress_spec; [| exact Ha | reflexivity | apply truncated_wfr; exact Hg].
    cbn [r_end]. rewrite andb_false_r. reflexivity.
  - apply cc_unadvertised. exact Ha.
Qed.

Lemma effective_cases alg fs out chunks e : good_reader out chunks ->
  effective alg fs (mkR out chunks e) = mkR out chunks e \/
  exists off, effective alg fs (mkR out chunks e) = mkR (firstn off out) (cut_chunks off chunks) RErr.
Proof.
  intros _. unfold effective. destruct (alg =? CertCompressionZstd); [|left; reflexivity].
  unfold zstd_effective. destruct (first_over _ fs O); [right; eauto | left; reflexivity].
Qed.

Theorem top_mismatch ee adv alg declared out chunks e fs :
  good_reader out chunks -> declared <> dlen out ->
  top ee adv alg declared true fs (mkR out chunks e) = Err alertBadCertificate.
Proof.
  intros Hg Hne. unfold decompress_cert_top.
  destruct (effective_cases alg fs out chunks e Hg) as [-> | (off & ->)].
  - destruct (N.lt_trichotomy declared (dlen out)) as [L | [E | G]]; [apply cc_longer | congruence | apply cc_shorter]; assumption.
  - destruct (advertisedb adv alg) eqn:Ha; [destruct (known_alg alg) eqn:Hk|].
    + rewrite decompress_spec; [| exact Ha | exact Hk | apply truncated_wfr; exact Hg]. cbn [r_end]. rewrite andb_false_r. reflexivity.
    + unfold Decompress.decompress_cert, pre_checks. fold (advertisedb adv alg). rewrite Ha, Hk. reflexivity.
    + apply cc_unadvertised. exact Ha.
Qed.

Theorem top_unadvertised ee adv alg declared open_ok fs r :
  advertisedb adv alg = false -> top ee adv alg declared open_ok fs r = Err alertBadCertificate.
Proof. intros Ha. unfold decompress_cert_top. apply cc_unadvertised. exact Ha. Qed.

Theorem top_only_the_compressed ee adv alg declared out chunks e fs c :
  good_reader out chunks -> top ee adv alg declared true fs (mkR out chunks e) = Ok c ->
  advertisedb adv alg = true /\ declared = dlen out /\ e = REof /\ declared <= maxHandshakeCertificateMsg /\
  parse_cert (header declared ++ out) = Some c.
Proof.
  intros Hg H. unfold decompress_cert_top in H.
  destruct (effective_cases alg fs out chunks e Hg) as [E | (off & E)]; rewrite E in H.
  - eapply cc_only_the_compressed; eauto.
  - exfalso. destruct (advertisedb adv alg) eqn:Ha; [destruct (known_alg alg) eqn:Hk|].
    + rewrite decompress_spec in H; [| exact Ha | exact Hk | apply truncated_wfr; exact Hg]. cbn [r_end] in H.
      rewrite andb_false_r in H. discriminate.
    + unfold Decompress.decompress_cert, pre_checks in H. fold (advertisedb adv alg) in H. rewrite Ha, Hk in H. discriminate.
    + rewrite cc_unadvertised in H by exact Ha. discriminate.
Qed.
End Top.

(* ---------- transcript of the certificate flight ---------- *)
Definition valid_flight (f : list fmsg) : bool :=
  match f with
  | [FCert] | [FCompressed] | [FCertReq; FCert] | [FCertReq; FCompressed] => true
  | _ => false
  end.

(* every valid certificate flight enters the client's transcript exactly as the server sent (and hashed) it *)
Theorem flight_transcript_in_order f : valid_flight f = true -> client_cert_flight f true = Ok f.
Proof.
  destruct f as [|[| |] [|[| |] [|? ?]]]; cbn; intros H; try discriminate; reflexivity.
Qed.

Theorem flight_compressed_refused f : valid_flight f = true -> In FCompressed f ->
  client_cert_flight f false = Err alertBadCertificate.
Proof.
  destruct f as [|[| |] [|[| |] [|? ?]]]; cbn; intros H Hin; try discriminate; try reflexivity;
    repeat (destruct Hin as [Hin | Hin]; try discriminate); try contradiction.
Qed.

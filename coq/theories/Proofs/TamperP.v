(* tamper_detected for the AEAD suites, under an ideal-AEAD hypothesis (labelled ideal: integrity of
   ciphertexts — whatever Open accepts under a key was produced by Seal by a holder of that key).
   What the record layer contributes, and what is proved here, is that the nonce and additional data
   bind the sequence number, content type, version and length, so that an accepted record is the one
   the peer sealed for exactly this position of the stream. *)
From UV Require Import Base.Common Model.Record Proofs.RecordP Proofs.RecordRT.
From Coq Require Import ZifyBool ZifyNat ZifyN.
Open Scope N_scope.

Section Tamper.
Variable P : prims.
(* [sealed a k n ad c]: some holder of key k produced c = Seal(k, n, ad, _) *)
Variable sealed : N -> bytes -> bytes -> bytes -> bytes -> Prop.
Hypothesis ideal_aead_int_ctxt :
  forall a k n ad c p, aead_open P a k n ad c = Some p -> sealed a k n ad c.

(* what an AEAD read half authenticates when it accepts a record *)
Theorem aead_accept_inv (rx : half) (ci : cipher) (r p : bytes) (t : N) (rx' : half) :
  h_cipher rx = Some ci -> c_kind ci = KAeadPrefix \/ c_kind ci = KAeadXor ->
  (h_vers rx = V13 -> nth 0 r 0 <> rtCCS) ->
  decrypt P rx r = Ok (p, t, rx') ->
  let enl := explicit_nonce_len rx in
  let body := skipn enl (skipn recordHeaderLen r) in
  let nonce := match firstn enl (skipn recordHeaderLen r) with [] => seq8 (h_seq rx) | e => e end in
  let ad := if h_vers rx =? V13 then firstn recordHeaderLen r
            else seq8 (h_seq rx) ++ firstn 3 r ++ be16 (N.of_nat (length body - aead_overhead)) in
  sealed (c_alg ci) (c_key ci) (aead_nonce ci nonce) ad body.
Proof.
  intros Hc Hk Hccs Hd. cbv zeta. unfold decrypt in Hd.
  destruct (length r <? recordHeaderLen)%nat; [discriminate|].
  destruct ((h_vers rx =? V13) && (nth 0 r 0 =? rtCCS)) eqn:Eccs.
  { apply andb_true_iff in Eccs. destruct Eccs as [E1 E2]. exfalso. apply Hccs; lia. }
  rewrite Hc in Hd.
  destruct (dec_cipher P rx ci r) as [[[[[pt pay] pl] good] c1]| |] eqn:Edc; cbn [bind] in Hd; try discriminate.
  clear Hd. unfold dec_cipher in Edc.
  assert (Hopen : forall (X : res (bytes * bytes * nat * bool * cipher)),
     (if (length (skipn recordHeaderLen r) <? explicit_nonce_len rx)%nat then Err a_bad_record_mac
      else match aead_open P (c_alg ci) (c_key ci)
                   (aead_nonce ci match firstn (explicit_nonce_len rx) (skipn recordHeaderLen r) with
                                  | [] => seq8 (h_seq rx) | e => e end)
                   (if h_vers rx =? V13 then firstn recordHeaderLen r
                    else seq8 (h_seq rx) ++ firstn 3 r ++
                         be16 (N.of_nat (length (skipn (explicit_nonce_len rx) (skipn recordHeaderLen r)) - aead_overhead)))
                   (skipn (explicit_nonce_len rx) (skipn recordHeaderLen r)) with
           | Some pt0 => Ok (pt0, skipn (explicit_nonce_len rx) (skipn recordHeaderLen r), 0%nat, true, ci)
           | None => Err a_bad_record_mac end) = Ok (pt, pay, pl, good, c1) ->
     sealed (c_alg ci) (c_key ci)
       (aead_nonce ci match firstn (explicit_nonce_len rx) (skipn recordHeaderLen r) with
                      | [] => seq8 (h_seq rx) | e => e end)
       (if h_vers rx =? V13 then firstn recordHeaderLen r
        else seq8 (h_seq rx) ++ firstn 3 r ++
             be16 (N.of_nat (length (skipn (explicit_nonce_len rx) (skipn recordHeaderLen r)) - aead_overhead)))
       (skipn (explicit_nonce_len rx) (skipn recordHeaderLen r))).
  { intros _ H. destruct (length (skipn recordHeaderLen r) <? explicit_nonce_len rx)%nat; [discriminate|].
    destruct (aead_open P _ _ _ _ _) eqn:Eo; [|discriminate]. eapply ideal_aead_int_ctxt. exact Eo. }
  destruct Hk as [Hk | Hk]; rewrite Hk in Edc; apply (Hopen (Ok (pt, pay, pl, good, c1))); exact Edc.
Qed.

(* tamper_detected: the triple (nonce, additional data, ciphertext body) the receiver derives from a
   record at its current sequence number contains the sequence number (nonce resp. AD), the content type
   and version (AD; in TLS 1.3 the whole header), the length and every body byte. The honest peer seals
   exactly one such triple per sequence number, so a record with any byte flipped or missing yields a
   triple that was never sealed — and is rejected with an error, no plaintext. *)
Theorem tamper_detected (rx : half) (ci : cipher) (r : bytes) :
  h_cipher rx = Some ci -> c_kind ci = KAeadPrefix \/ c_kind ci = KAeadXor ->
  (h_vers rx = V13 -> nth 0 r 0 <> rtCCS) ->
  let enl := explicit_nonce_len rx in
  let body := skipn enl (skipn recordHeaderLen r) in
  let nonce := match firstn enl (skipn recordHeaderLen r) with [] => seq8 (h_seq rx) | e => e end in
  let ad := if h_vers rx =? V13 then firstn recordHeaderLen r
            else seq8 (h_seq rx) ++ firstn 3 r ++ be16 (N.of_nat (length body - aead_overhead)) in
  ~ sealed (c_alg ci) (c_key ci) (aead_nonce ci nonce) ad body ->
  forall p t rx', decrypt P rx r <> Ok (p, t, rx').
Proof.
  intros Hc Hk Hccs. cbv zeta. intros Hns p t rx' Hd. apply Hns.
  exact (aead_accept_inv rx ci r p t rx' Hc Hk Hccs Hd).
Qed.

(* TLS 1.3 change_cipher_spec records bypass decryption in halfConn.decrypt (conn.go:350); after the
   handshake readRecordOrCCS refuses them, so they cannot smuggle data either *)
Lemma ccs_never_delivers f c wire c' rest :
  read_record P (S f) c wire = @RDone (conn * bytes)%type (c', rest) ->
  forall r, r = firstn (recordHeaderLen + N.to_nat (nth 3 wire 0 * 256 + nth 4 wire 0)) wire ->
  forall p hin, decrypt P (cn_in c) r = Ok (p, rtCCS, hin) -> False.
Proof.
  intros H r -> p hin Hd. cbn [read_record] in H.
  destruct (length wire <? recordHeaderLen)%nat; [discriminate|].
  destruct (negb _); [discriminate|]. destruct (_ || _); [discriminate|].
  destruct (length wire <? _)%nat; [discriminate|].
  rewrite Hd in H.
  destruct (maxPlaintext <? len p); [discriminate|].
  destruct (_ && (rtCCS =? rtAppData)); [discriminate|].
  destruct ((cn_vers c =? V13) && negb (rtCCS =? rtHandshake) && (0 <? len (cn_hand c))); [discriminate|].
  change (rtCCS =? rtAlert) with false in H. change (rtCCS =? rtCCS) with true in H. cbv iota in H.
  destruct (negb (len p =? 1) || negb (nth 0 p 0 =? 1)); [discriminate|].
  destruct (0 <? len (cn_hand c)); discriminate.
Qed.

End Tamper.

(* Proofs about Model/Resume.v (C19). *)
From UV Require Import Base.Common Model.Resume.
From Coq Require Import ZifyBool ZifyNat ZifyN.

(* ---------- the cache map ---------- *)
Lemma lookup_put_same k s ca : lookup k (put k s ca) = Some s.
Proof. unfold lookup, put. cbn [find fst snd]. rewrite N.eqb_refl. reflexivity. Qed.

Lemma find_del_other k k' (ca : cache) : k' <> k ->
  find (fun e => fst e =? k') (del k ca) = find (fun e => fst e =? k') ca.
Proof.
  intros Hne. unfold del. induction ca as [|[a s] r IH]; [reflexivity|].
  cbn [filter find fst]. destruct (a =? k) eqn:Ea; cbn [negb].
  - apply N.eqb_eq in Ea. subst a. destruct (k =? k') eqn:E; [apply N.eqb_eq in E; congruence|]. exact IH.
  - cbn [find fst]. destruct (a =? k'); [reflexivity|exact IH].
Qed.

Lemma lookup_del_other k k' ca : k' <> k -> lookup k' (del k ca) = lookup k' ca.
Proof. intros H. unfold lookup. rewrite (find_del_other _ _ _ H). reflexivity. Qed.

Lemma lookup_put_other k k' s ca : k' <> k -> lookup k' (put k s ca) = lookup k' ca.
Proof.
  intros H. unfold lookup, put. cbn [find fst]. destruct (k =? k') eqn:E; [apply N.eqb_eq in E; congruence|].
  rewrite (find_del_other _ _ _ H). reflexivity.
Qed.

Lemma lookup_In k ca s : lookup k ca = Some s -> In (k, s) ca.
Proof.
  unfold lookup. destruct (find _ ca) as [[a s']|] eqn:F; [|discriminate]. intros H. inversion H; subst.
  apply find_some in F. destruct F as [Hin He]. cbn in He. apply N.eqb_eq in He. subst. exact Hin.
Qed.

(* ---------- names: every entry was stored under the name it was negotiated for ---------- *)
Definition names_ok (ca : cache) : Prop := Forall (fun e => s_name (snd e) = fst e) ca.

Lemma names_ok_del k ca : names_ok ca -> names_ok (del k ca).
Proof. unfold names_ok, del. intros H. apply Forall_forall. intros e He. apply filter_In in He. rewrite Forall_forall in H. apply H, He. Qed.

Lemma names_ok_put k s ca : s_name s = k -> names_ok ca -> names_ok (put k s ca).
Proof. intros Hs H. unfold put. constructor; [exact Hs|apply names_ok_del, H]. Qed.

Lemma names_ok_lookup k ca s : names_ok ca -> lookup k ca = Some s -> s_name s = k.
Proof. intros H L. apply lookup_In in L. unfold names_ok in H. rewrite Forall_forall in H. exact (H _ L). Qed.

(* ---------- loadSession ---------- *)
Lemma load_offer_lookup ca c e k s :
  l_sess (load_session ca c e) = Some (k, s) -> lookup (c_name c) ca = Some s.
Proof.
  unfold load_session. destruct (lookup (c_name c) ca) as [s0|]; [|discriminate].
  repeat match goal with |- context [if ?b then _ else _] => destruct b end; cbn [l_sess]; try discriminate;
  intros H; inversion H; reflexivity.
Qed.

Lemma load_cache ca c e : l_cache (load_session ca c e) = ca \/ l_cache (load_session ca c e) = del (c_name c) ca.
Proof.
  unfold load_session. destruct (lookup (c_name c) ca) as [s0|]; [|left; reflexivity].
  repeat match goal with |- context [if ?b then _ else _] => destruct b end; cbn [l_cache]; auto.
Qed.

(* the fix: an EMS session is offered through session_ticket only by a hello that carries EMS *)
Lemma load_ems ca c e s : l_sess (load_session ca c e) = Some (ViaTicket, s) -> s_ems s = true -> e = true.
Proof.
  unfold load_session. destruct (lookup (c_name c) ca) as [s0|]; [|discriminate].
  repeat match goal with |- context [if ?b then _ else _] => destruct b eqn:? end; cbn [l_sess]; try discriminate;
  intros H; inversion H; subst; intros Hs; rewrite Hs in *; destruct e; cbn in *; congruence.
Qed.

Lemma load_kind ca c e k s : l_sess (load_session ca c e) = Some (k, s) ->
  (k = ViaPsk /\ s_vers s = V13) \/ (k = ViaTicket /\ s_vers s <> V13).
Proof.
  unfold load_session. destruct (lookup (c_name c) ca) as [s0|]; [|discriminate].
  repeat match goal with |- context [if ?b then _ else _] => destruct b eqn:? end; cbn [l_sess]; try discriminate;
  intros H; inversion H; subst.
  - right. split; [reflexivity|]. intros E. rewrite E in *. cbn in *. discriminate.
  - left. split; [reflexivity|]. match goal with H : negb (s_vers s =? V13) = false |- _ => apply negb_false_iff, N.eqb_eq in H; exact H end.
Qed.

(* ---------- build ---------- *)
Lemma build_offer ca c ca' k s p : build ca c = BOk ca' (Some (k, s)) p ->
  lookup (c_name c) ca = Some s /\
  (k = ViaTicket -> s_ems s = true -> has_ems (c_spec c) = true).
Proof.
  unfold build, has_ems. destruct (sp_go (c_spec c)) eqn:G.
  - intros H. inversion H; subst. clear H. split.
    + eapply load_offer_lookup; eassumption.
    + reflexivity.
  - cbn [orb]. intros H.
    destruct (l_sess (load_session ca c (has XEms (sp_exts (c_spec c))))) as [[k0 s0]|] eqn:L;
    cbv beta iota zeta in H;
    repeat match type of H with context [if ?b then _ else _] => destruct b eqn:? end; try discriminate;
    inversion H; subst; clear H;
    (split; [eapply load_offer_lookup; exact L|]); intros Hk Hs; try discriminate;
    destruct (load_kind _ _ _ _ _ L) as [[-> Hv]|[-> Hv]];
    try (exfalso; match goal with H : (s_vers s =? V12) = true |- _ => apply N.eqb_eq in H; rewrite H in Hv; discriminate end);
    eapply load_ems; eassumption.
Qed.

Lemma build_cache ca c : forall ca',
  (exists o p, build ca c = BOk ca' o p) \/ (exists e, build ca c = BErr ca' e) \/ (exists p, build ca c = BPanic ca' p) ->
  ca' = ca \/ ca' = del (c_name c) ca.
Proof.
  intros ca' H. unfold build in H.
  destruct (sp_go (c_spec c)).
  - destruct H as [[o [p H]]|[[e H]|[p H]]]; try discriminate. inversion H. apply load_cache.
  - pose proof (load_cache ca c (has XEms (sp_exts (c_spec c)))) as LC.
    destruct (l_sess (load_session ca c (has XEms (sp_exts (c_spec c))))) as [[k0 s0]|];
    cbv beta iota zeta in H;
    repeat match type of H with context [if ?b then _ else _] => destruct b end;
    destruct H as [[o [p H]]|[[e H]|[p H]]]; try discriminate; inversion H; subst; auto.
Qed.

(* ---------- one connection ---------- *)
Ltac destr_goal := repeat match goal with |- context [match ?x with _ => _ end] => destruct x eqn:? end.

Lemma step_offer ca c k s : o_offer (snd (step ca c)) = Some (k, s) ->
  lookup (c_name c) ca = Some s /\ (k = ViaTicket -> s_ems s = true -> o_ems (snd (step ca c)) = true).
Proof.
  unfold step. destruct (build ca c) as [ca' off p|ca' e|ca' p] eqn:B.
  - assert (O : off = Some (k, s) -> lookup (c_name c) ca = Some s /\ (k = ViaTicket -> s_ems s = true -> has_ems (c_spec c) = true)).
    { intros ->. eapply build_offer; exact B. }
    destr_goal; cbn [snd o_offer o_ems]; exact O.
  - cbn. discriminate.
  - cbn. discriminate.
Qed.

Lemma stored_name c v su e r t : s_name (stored c v su e r t) = c_name c.
Proof. unfold stored. destruct r; reflexivity. Qed.

Lemma names_ok_fail ca c off : names_ok ca -> names_ok (fail ca c off).
Proof. intros H. unfold fail. destruct off; [apply names_ok_del|]; exact H. Qed.

Lemma step_names_ok ca c : names_ok ca -> names_ok (fst (step ca c)).
Proof.
  intros H. unfold step. destruct (build ca c) as [ca' off p|ca' e|ca' p] eqn:B.
  - assert (H' : names_ok ca').
    { destruct (build_cache ca c ca') as [->| ->]; [left; eauto|exact H|apply names_ok_del, H]. }
    destr_goal; cbn [fst]; try apply names_ok_fail; try apply names_ok_put; try apply stored_name; exact H'.
  - cbn [fst]. destruct (build_cache ca c ca') as [->| ->]; [right; left; eauto|exact H|apply names_ok_del, H].
  - cbn [fst]. destruct (build_cache ca c ca') as [->| ->]; [right; right; eauto|exact H|apply names_ok_del, H].
Qed.

(* a connection touches only its own cache key *)
Lemma step_other_keys ca c k : k <> c_name c -> lookup k (fst (step ca c)) = lookup k ca.
Proof.
  intros Hk. unfold step. destruct (build ca c) as [ca' off p|ca' e|ca' p] eqn:B.
  - assert (H' : lookup k ca' = lookup k ca).
    { destruct (build_cache ca c ca') as [->| ->]; [left; eauto|reflexivity|apply lookup_del_other, Hk]. }
    assert (F : forall o, lookup k (fail ca' c o) = lookup k ca).
    { intros o. unfold fail. destruct o; [rewrite lookup_del_other by exact Hk|]; exact H'. }
    destr_goal; cbn [fst]; try apply F; try (rewrite lookup_put_other by exact Hk); exact H'.
  - cbn [fst]. destruct (build_cache ca c ca') as [->| ->]; [right; left; eauto|reflexivity|apply lookup_del_other, Hk].
  - cbn [fst]. destruct (build_cache ca c ca') as [->| ->]; [right; right; eauto|reflexivity|apply lookup_del_other, Hk].
Qed.

(* ---------- histories ---------- *)
Definition offers_ok (P : conn -> obs -> Prop) (h : list conn) (os : list obs) : Prop :=
  Forall (fun co => P (fst co) (snd co)) (combine h os).

Lemma run_length ca h : length (run ca h) = length h.
Proof. revert ca. induction h as [|c r IH]; intros ca; cbn [run]; [reflexivity|]. destruct (step ca c). cbn. rewrite IH. reflexivity. Qed.

Lemma run_invariant (I : cache -> Prop) (P : conn -> obs -> Prop) :
  (forall ca c, I ca -> I (fst (step ca c)) /\ P c (snd (step ca c))) ->
  forall h ca, I ca -> offers_ok P h (run ca h) /\ I (final ca h).
Proof.
  intros S h. induction h as [|c r IH]; intros ca Hca; cbn [run final].
  - split; [constructor|exact Hca].
  - destruct (S ca c Hca) as [Hi Hp]. destruct (step ca c) as [ca' o] eqn:E. cbn [fst snd] in *.
    destruct (IH ca' Hi) as [A B]. split; [constructor; [exact Hp|exact A]|exact B].
Qed.

Definition same_name (c : conn) (o : obs) : Prop :=
  forall k s, o_offer o = Some (k, s) -> s_name s = c_name c.
Definition ems_safe (c : conn) (o : obs) : Prop :=
  forall s, o_offer o = Some (ViaTicket, s) -> s_ems s = true -> o_ems o = true.

Lemma no_cross_name_run h ca : names_ok ca -> offers_ok same_name h (run ca h) /\ names_ok (final ca h).
Proof.
  apply (run_invariant names_ok same_name). intros ca0 c H. split; [apply step_names_ok, H|].
  intros k s Ho. destruct (step_offer _ _ _ _ Ho) as [L _]. eapply names_ok_lookup; eassumption.
Qed.

Lemma ems_safe_run h ca : offers_ok ems_safe h (run ca h).
Proof.
  apply (run_invariant (fun _ => True) ems_safe); [|exact I]. intros ca0 c _. split; [exact I|].
  intros s Ho Hs. destruct (step_offer _ _ _ _ Ho) as [_ E]. apply E; [reflexivity|exact Hs].
Qed.

(* ---------- resumption of the next connection ---------- *)
Record good (sp : spec) (sv : server) (name : N) (skip : bool) (v suite : N) (s : session) : Prop := mkGood {
  g_vers : s_vers s = v;
  g_key : t_key (s_ticket s) = sv_key sv;
  g_tvers : t_vers (s_ticket s) = v;
  g_tsuite : t_suite (s_ticket s) = s_suite s;
  g_tems : t_ems (s_ticket s) = s_ems s;
  g_ver : skip = false -> s_verified s = true /\ name_ok name (s_certnames s) = true;
  g_12 : v <> V13 -> mem (s_suite s) (sp_suites sp) = true /\ mem (s_suite s) (sv_suites sv) = true /\ s_ems s = has_ems sp;
  g_13 : v = V13 -> hash_len (s_suite s) = hash_len suite /\ hash_len suite <> 0;
  g_ok : s_bad s = false
}.

Lemma negotiate_mem sv sp v : negotiate sv sp = Some v -> mem v (sp_vers sp) = true.
Proof. unfold negotiate. intros H. apply find_some in H. apply H. Qed.

Lemma mem_In x l : mem x l = true <-> In x l.
Proof. unfold mem. rewrite existsb_exists. split; [intros [y [Hy E]]; apply N.eqb_eq in E; subst; exact Hy|intros H; exists x; split; [exact H|apply N.eqb_refl]]. Qed.

Lemma ver_cond skip (s : session) name :
  (skip = false -> s_verified s = true /\ name_ok name (s_certnames s) = true) ->
  negb skip && (negb (s_verified s) || negb (name_ok name (s_certnames s))) = false.
Proof. destruct skip; [reflexivity|]. intros H. destruct (H eq_refl) as [-> ->]. reflexivity. Qed.

Lemma load13 sp sv sn ad skip suite s ca now omit tlen vnm st e :
  good sp sv (c_vn (mkConn sp sn ad sv now omit skip suite tlen vnm st)) skip V13 suite s -> lookup (c_name (mkConn sp sn ad sv now omit skip suite tlen vnm st)) ca = Some s ->
  mem V13 (sp_vers sp) = true -> mem suite (sp_suites sp) = true ->
  now <= s_notafter s -> now <= s_useby s ->
  load_session ca (mkConn sp sn ad sv now omit skip suite tlen vnm st) e = mkLoaded ca (Some (ViaPsk, s)).
Proof.
  intros G L Mv Ms T1 T2. destruct G as [gv gk gtv gts gte gver g12 g13 gbad]. destruct (g13 eq_refl) as [Hh Hn].
  unfold load_session. rewrite L. cbn [c_spec c_now c_skipverify c_skiptime]. rewrite gv, Mv. cbn [negb].
  replace (s_notafter s <? now) with false by (symmetry; apply N.ltb_ge; exact T1). rewrite andb_false_r.
  rewrite (ver_cond _ _ _ gver). rewrite N.eqb_refl. cbn [negb].
  replace (s_useby s <? now) with false by (symmetry; apply N.ltb_ge; exact T2).
  rewrite Hh. replace (hash_len suite =? 0) with false by (symmetry; apply N.eqb_neq; exact Hn).
  assert (X : existsb (fun o => negb (hash_len o =? 0) && (hash_len o =? hash_len suite)) (sp_suites sp) = true).
  { apply existsb_exists. exists suite. split; [apply mem_In, Ms|].
    rewrite N.eqb_refl. replace (hash_len suite =? 0) with false by (symmetry; apply N.eqb_neq; exact Hn). reflexivity. }
  rewrite X. reflexivity.
Qed.

Lemma good_resumes13 sp sv sn ad skip suite s ca now omit tlen vnm st :
  let c2 := mkConn sp sn ad sv now omit skip suite tlen vnm st in
  good sp sv (c_vn c2) skip V13 suite s ->
  lookup (c_name c2) ca = Some s ->
  negotiate sv sp = Some V13 ->
  has_psk sp = true -> has_modes sp = true ->
  (sp_go sp = false -> psk_positions_ok (sp_exts sp) = true /\ (count_ticket (sp_exts sp) <= 1)%nat) ->
  selected_group sv sp <> None ->
  (sp_go sp = true \/ needs_hrr sv sp = false) ->
  mem suite (sp_suites sp) = true ->
  now <= s_notafter s -> now <= s_useby s -> now <= t_created (s_ticket s) + LIFETIME ->
  resumed (snd (step ca c2)) = true /\ o_offer (snd (step ca c2)) = Some (ViaPsk, s).
Proof.
  intros c2 G L Ng Hp Hm Wf Sg Hr Ms T1 T2 T3.
  pose proof (negotiate_mem _ _ _ Ng) as Mv.
  assert (B : build ca c2 = BOk ca (Some (ViaPsk, s)) true).
  { unfold build, c2. cbn [c_spec c_omit].
    destruct (sp_go sp) eqn:Go.
    - rewrite (load13 sp sv sn ad skip suite s ca now omit tlen vnm st true G L Mv Ms T1 T2). reflexivity.
    - destruct (Wf eq_refl) as [W1 W2]. unfold has_psk in Hp. rewrite Go in Hp. cbn [orb] in Hp.
      replace (1 <? count_ticket (sp_exts sp))%nat with false by (symmetry; apply Nat.ltb_ge; exact W2).
      rewrite W1, Hp. cbn [negb andb]. rewrite andb_false_r.
      rewrite (load13 sp sv sn ad skip suite s ca now omit tlen vnm st _ G L Mv Ms T1 T2). cbn [l_sess l_cache].
      rewrite (g_vers _ _ _ _ _ _ _ G). cbn. reflexivity. }
  destruct G as [gv gk gtv gts gte gver g12 g13 gbad]. destruct (g13 eq_refl) as [Hh Hn].
  subst c2. unfold step. rewrite B. cbn [c_spec c_srv c_suite c_now]. rewrite Ng. rewrite N.eqb_refl.
  destruct (selected_group sv sp) as [g|] eqn:SG; [|congruence].
  assert (HR : needs_hrr sv sp && negb (sp_go sp) && true = false).
  { destruct Hr as [-> | ->]; [rewrite andb_false_r|]; reflexivity. }
  rewrite HR.
  replace (hash_len suite =? 0) with false by (symmetry; apply N.eqb_neq; exact Hn).
  unfold opens, fresh. rewrite Hm, gk, gtv, gts, Hh, !N.eqb_refl.
  replace (now <=? t_created (s_ticket s) + LIFETIME) with true by (symmetry; apply N.leb_le; exact T3).
  cbn. rewrite gbad. cbn. split; reflexivity.
Qed.

Lemma load12 sp sv sn ad skip suite s ca now omit tlen vnm st :
  good sp sv (c_vn (mkConn sp sn ad sv now omit skip suite tlen vnm st)) skip V12 suite s -> lookup (c_name (mkConn sp sn ad sv now omit skip suite tlen vnm st)) ca = Some s ->
  mem V12 (sp_vers sp) = true -> now <= s_notafter s ->
  load_session ca (mkConn sp sn ad sv now omit skip suite tlen vnm st) (has_ems sp) = mkLoaded ca (Some (ViaTicket, s)).
Proof.
  intros G L Mv T1. destruct G as [gv gk gtv gts gte gver g12 g13 gbad].
  destruct g12 as [M1 [M2 E]]; [discriminate|].
  unfold load_session. rewrite L. cbn [c_spec c_now c_skipverify c_skiptime]. rewrite gv, Mv. cbn [negb].
  replace (s_notafter s <? now) with false by (symmetry; apply N.ltb_ge; exact T1). rewrite andb_false_r.
  rewrite (ver_cond _ _ _ gver). cbn. rewrite M1, E. cbn [negb]. rewrite andb_negb_r. reflexivity.
Qed.

Lemma good_resumes12 sp sv sn ad skip suite s ca now omit tlen vnm st :
  let c2 := mkConn sp sn ad sv now omit skip suite tlen vnm st in
  good sp sv (c_vn c2) skip V12 suite s ->
  lookup (c_name c2) ca = Some s ->
  negotiate sv sp = Some V12 ->
  has_ticket sp = true ->
  (sp_go sp = false -> psk_positions_ok (sp_exts sp) = true /\ (count_ticket (sp_exts sp) <= 1)%nat /\
                       (has XPsk (sp_exts sp) = true -> omit = true)) ->
  now <= s_notafter s -> now <= t_created (s_ticket s) + LIFETIME ->
  resumed (snd (step ca c2)) = true /\ o_offer (snd (step ca c2)) = Some (ViaTicket, s).
Proof.
  intros c2 G L Ng Ht Wf T1 T3.
  pose proof (negotiate_mem _ _ _ Ng) as Mv.
  pose proof (load12 sp sv sn ad skip suite s ca now omit tlen vnm st G L Mv T1) as LD.
  assert (B : exists p, build ca c2 = BOk ca (Some (ViaTicket, s)) p).
  { unfold build, c2. cbn [c_spec c_omit].
    destruct (sp_go sp) eqn:Go.
    - unfold has_ems in LD. rewrite Go in LD. cbn [orb] in LD. rewrite LD. eexists. reflexivity.
    - destruct (Wf eq_refl) as [W1 [W2 W3]]. unfold has_ticket in Ht. rewrite Go in Ht. cbn [orb] in Ht.
      unfold has_ems in LD. rewrite Go in LD. cbn [orb] in LD.
      replace (1 <? count_ticket (sp_exts sp))%nat with false by (symmetry; apply Nat.ltb_ge; exact W2).
      rewrite W1, Ht. cbn [negb andb]. rewrite LD. cbn [l_sess l_cache].
      rewrite (g_vers _ _ _ _ _ _ _ G). rewrite N.eqb_refl.
      destruct (has XPsk (sp_exts sp)) eqn:P; [rewrite (W3 eq_refl)|]; cbn; eexists; reflexivity. }
  destruct B as [p B].
  destruct G as [gv gk gtv gts gte gver g12 g13 gbad]. destruct g12 as [M1 [M2 E]]; [discriminate|].
  subst c2. unfold step. rewrite B. cbn [c_spec c_srv c_suite c_now]. rewrite Ng.
  change (V12 =? V13) with false. cbv beta iota.
  unfold opens, fresh. rewrite gk, gtv, gts, gte, !N.eqb_refl, M1, M2, E.
  replace (now <=? t_created (s_ticket s) + LIFETIME) with true by (symmetry; apply N.leb_le; exact T3).
  cbn [negb]. rewrite andb_negb_l, andb_negb_r. cbn. rewrite gbad. cbn. split; reflexivity.
Qed.

Lemma load_checks ca c e k s : l_sess (load_session ca c e) = Some (k, s) ->
  (c_skipverify c = false -> s_verified s = true /\ name_ok (c_vn c) (s_certnames s) = true).
Proof.
  unfold load_session. destruct (lookup (c_name c) ca) as [s0|]; [|discriminate].
  destruct (negb (c_skipverify c) && (negb (s_verified s0) || negb (name_ok (c_vn c) (s_certnames s0)))) eqn:V.
  - repeat match goal with |- context [if ?b then _ else _] => destruct b end; cbn [l_sess]; discriminate.
  - repeat match goal with |- context [if ?b then _ else _] => destruct b end; cbn [l_sess]; try discriminate;
    intros H; inversion H; subst; intros Sk; rewrite Sk in V; cbn in V; apply orb_false_elim in V; destruct V as [V1 V2];
    apply negb_false_iff in V1, V2; auto.
Qed.

Lemma build_offer_checks ca c ca' k s p : build ca c = BOk ca' (Some (k, s)) p ->
  (c_skipverify c = false -> s_verified s = true /\ name_ok (c_vn c) (s_certnames s) = true).
Proof.
  unfold build. destruct (sp_go (c_spec c)) eqn:G.
  - intros H. inversion H; subst. clear H. eapply load_checks; eassumption.
  - intros H.
    destruct (l_sess (load_session ca c (has XEms (sp_exts (c_spec c))))) as [[k0 s0]|] eqn:L;
    cbv beta iota zeta in H;
    repeat match type of H with context [if ?b then _ else _] => destruct b eqn:? end; try discriminate;
    inversion H; subst; clear H; eapply load_checks; exact L.
Qed.

Ltac bool_hyps := repeat match goal with
  | H : _ && _ = true |- _ => apply andb_prop in H; destruct H
  | H : _ || _ = false |- _ => apply orb_false_elim in H; destruct H
  | H : negb _ = false |- _ => apply negb_false_iff in H
  | H : negb _ = true |- _ => apply negb_true_iff in H
  end.

Definition unexpired (s : session) (now : N) : Prop :=
  now <= s_notafter s /\ now <= s_useby s /\ now <= t_created (s_ticket s) + LIFETIME.

Lemma step_stores_good ca c v :
  completed (snd (step ca c)) = true ->
  negotiate (c_srv c) (c_spec c) = Some v ->
  (v = V13 -> has_modes (c_spec c) = true) ->
  (v <> V13 -> has_ticket (c_spec c) = true) ->
  exists s, lookup (c_name c) (fst (step ca c)) = Some s /\
            good (c_spec c) (c_srv c) (c_vn c) (c_skipverify c) v (c_suite c) s /\
            (resumed (snd (step ca c)) = false ->
               s_useby s = c_now c + LIFETIME /\ t_created (s_ticket s) = c_now c /\ s_notafter s = sv_notafter (c_srv c)).
Proof.
  intros Hc Ng Hm Ht. destruct (step ca c) as [ca1 o] eqn:S. cbn [fst snd] in *.
  unfold step in S. rewrite Ng in S.
  destruct (build ca c) as [ca' off p|ca' e|ca' p] eqn:B; [|inversion S; subst; discriminate Hc..].
  pose proof (fun k s (E : off = Some (k, s)) => build_offer_checks ca c ca' k s p (eq_trans B (f_equal (fun o => BOk ca' o p) E))) as CK.
  destruct (v =? V13) eqn:EV.
  - apply N.eqb_eq in EV. subst v. rewrite (Hm eq_refl) in S.
    repeat match type of S with context [match ?x with _ => _ end] => destruct x eqn:? end;
    inversion S; subst; clear S; try discriminate Hc;
    repeat match goal with
      | H : match ?x with _ => _ end = Some _ |- _ => destruct x eqn:?; try discriminate H
      | H : Some _ = Some _ |- _ => inversion H; subst; clear H
      end;
    (eexists; split; [apply lookup_put_same|]); (split; [|cbn; try discriminate; intros _; unfold stored; cbn; auto]);
    bool_hyps;
    (constructor; unfold stored; cbn [s_vers s_ticket t_key t_vers t_suite t_ems s_suite s_ems s_verified s_certnames s_bad];
     try reflexivity; try congruence;
     [ intros Sk; try (eapply CK; [reflexivity|exact Sk]);
       try (rewrite Sk; split; [reflexivity|]; unfold verify_ok in *; rewrite Sk in *; cbn in *; bool_hyps; assumption)
     | intros _; split; [reflexivity|]; apply N.eqb_neq; assumption ]).
  - apply N.eqb_neq in EV. unfold wire_ticket in S. rewrite (Ht EV) in S. cbn [orb] in S.
    repeat match type of S with context [match ?x with _ => _ end] => destruct x eqn:? end;
    inversion S; subst; clear S; try discriminate Hc;
    repeat match goal with
      | H : match ?x with _ => _ end = Some _ |- _ => destruct x eqn:?; try discriminate H
      | H : Some _ = Some _ |- _ => inversion H; subst; clear H
      end;
    (eexists; split; [apply lookup_put_same|]); (split; [|cbn; try discriminate; intros _; unfold stored; cbn; auto]);
    bool_hyps;
    (constructor; unfold stored; cbn [s_vers s_ticket t_key t_vers t_suite t_ems s_suite s_ems s_verified s_certnames s_bad];
     try reflexivity; try congruence;
     [ intros Sk; try (eapply CK; [reflexivity|exact Sk]);
       try (rewrite Sk; split; [reflexivity|]; unfold verify_ok in *; rewrite Sk in *; cbn in *; bool_hyps; assumption)
     | intros _; repeat split; try assumption; try reflexivity;
       repeat match goal with H : context [t_ems ?t] |- _ => revert H end;
       destruct (t_ems (s_ticket s)), (has_ems (c_spec c)); cbn; intros; congruence ]).
Qed.

(* ---------- the theorem about the next connection ---------- *)
Definition spec_wf (sp : spec) (omit : bool) : Prop :=
  sp_go sp = false ->
  psk_positions_ok (sp_exts sp) = true /\ (count_ticket (sp_exts sp) <= 1)%nat /\ (has XPsk (sp_exts sp) = true -> omit = true).

Definition can_resume (sp : spec) (sv : server) (v : N) : Prop :=
  (v = V12 /\ has_ticket sp = true) \/
  (v = V13 /\ has_psk sp = true /\ has_modes sp = true /\ selected_group sv sp <> None).

Definition same_config (c1 c2 : conn) : Prop :=
  c_spec c2 = c_spec c1 /\ c_name c2 = c_name c1 /\ c_srv c2 = c_srv c1 /\
  c_skipverify c2 = c_skipverify c1 /\ c_suite c2 = c_suite c1 /\
  c_vn c2 = c_vn c1 /\ c_skiptime c2 = c_skiptime c1.

Definition hrr_ok (c : conn) : Prop := sp_go (c_spec c) = true \/ needs_hrr (c_srv c) (c_spec c) = false.

Definition resume_next_stmt (hrr_side : conn -> Prop) : Prop :=
  forall ca c1 c2 v,
  completed (snd (step ca c1)) = true ->
  negotiate (c_srv c1) (c_spec c1) = Some v ->
  can_resume (c_spec c1) (c_srv c1) v ->
  same_config c1 c2 -> spec_wf (c_spec c2) (c_omit c2) ->
  mem (c_suite c1) (sp_suites (c_spec c1)) = true ->
  (v = V13 -> hrr_side c2) ->
  exists s, lookup (c_name c1) (fst (step ca c1)) = Some s /\
    (unexpired s (c_now c2) ->
      resumed (snd (step (fst (step ca c1)) c2)) = true /\
      exists k, o_offer (snd (step (fst (step ca c1)) c2)) = Some (k, s)).

Lemma resume_next : resume_next_stmt hrr_ok.
Proof.
  intros ca c1 c2 v Hc Ng Cr Sc Wf Ms Hr.
  assert (Hm : v = V13 -> has_modes (c_spec c1) = true).
  { intros ->. destruct Cr as [[E _]|[_ [_ [M _]]]]; [discriminate|exact M]. }
  assert (Ht : v <> V13 -> has_ticket (c_spec c1) = true).
  { intros N. destruct Cr as [[_ T]|[E _]]; [exact T|congruence]. }
  destruct (step_stores_good ca c1 v Hc Ng Hm Ht) as [s [L [G _]]].
  exists s. split; [exact L|]. intros [T1 [T2 T3]].
  destruct c2 as [sp2 sn2 ad2 sv2 now2 om2 sk2 su2 tl2 vm2 st2]. destruct Sc as [E1 [E2 [E3 [E4 [E5 [E6 E7]]]]]].
  cbn [c_spec c_srv c_skipverify c_suite c_now c_omit] in E1, E3, E4, E5, Wf, Hr, T1, T2, T3. subst sp2 sv2 sk2 su2.
  rewrite <- E2 in L. rewrite <- E6 in G.
  destruct Cr as [[-> T]|[-> [P [M Sg]]]].
  - destruct (good_resumes12 _ _ sn2 ad2 _ _ _ _ now2 om2 tl2 vm2 st2 G L Ng T Wf T1 T3) as [R O]. split; [exact R|eexists; exact O].
  - assert (W : sp_go (c_spec c1) = false -> psk_positions_ok (sp_exts (c_spec c1)) = true /\ (count_ticket (sp_exts (c_spec c1)) <= 1)%nat).
    { intros g. destruct (Wf g) as [A [B _]]. auto. }
    assert (Hr' : sp_go (c_spec c1) = true \/ needs_hrr (c_srv c1) (c_spec c1) = false) by exact (Hr eq_refl).
    destruct (good_resumes13 _ _ sn2 ad2 _ _ _ _ now2 om2 tl2 vm2 st2 G L Ng P M W Sg Hr' Ms T1 T2 T3) as [R O].
    split; [exact R|eexists; exact O].
Qed.

(* after a FULL handshake the stored session is unexpired for 7 days / until the certificate expires *)
Lemma full_unexpired ca c v s now :
  completed (snd (step ca c)) = true -> resumed (snd (step ca c)) = false ->
  negotiate (c_srv c) (c_spec c) = Some v ->
  (v = V13 -> has_modes (c_spec c) = true) -> (v <> V13 -> has_ticket (c_spec c) = true) ->
  lookup (c_name c) (fst (step ca c)) = Some s ->
  now <= c_now c + LIFETIME -> now <= sv_notafter (c_srv c) -> unexpired s now.
Proof.
  intros Hc Hr Ng Hm Ht L T1 T2.
  destruct (step_stores_good ca c v Hc Ng Hm Ht) as [s' [L' [_ F]]]. rewrite L in L'. inversion L'; subst s'.
  destruct (F Hr) as [A [B C]]. unfold unexpired. rewrite A, B, C. auto.
Qed.

(* ---------- pre_shared_key is the last extension ---------- *)
Lemma psk_positions_last l : psk_positions_ok l = true -> has XPsk l = true -> exists l', l = l' ++ [XPsk].
Proof.
  induction l as [|x r IH]; cbn [psk_positions_ok has existsb]; [discriminate|].
  destruct x; cbn [ext_eqb orb];
  try (intros P H; destruct (IH P H) as [l' ->]; eexists (_ :: l'); reflexivity).
  destruct r; [intros _ _; exists []; reflexivity|discriminate].
Qed.

Lemma build_psk_last ca c ca' off : build ca c = BOk ca' off true -> sp_go (c_spec c) = false ->
  exists l', sp_exts (c_spec c) = l' ++ [XPsk].
Proof.
  intros H G. unfold build in H. rewrite G in H.
  destruct (psk_positions_ok (sp_exts (c_spec c))) eqn:P; [|destruct (1 <? count_ticket (sp_exts (c_spec c)))%nat; discriminate].
  destruct (has XPsk (sp_exts (c_spec c))) eqn:X; [apply psk_positions_last; assumption|].
  exfalso.
  destruct (l_sess (load_session ca c (has XEms (sp_exts (c_spec c))))) as [[k0 s0]|];
  cbv beta iota zeta in H;
  repeat match type of H with context [if ?b then _ else _] => destruct b eqn:? end; try discriminate.
Qed.

(* ---------- binder patch ---------- *)
Lemma concat_binders_len bs : length (concat (map enc_binder bs)) = N.to_nat (binders_len bs).
Proof.
  induction bs as [|b r IH]; [reflexivity|]. cbn [map concat binders_len fold_right]. rewrite app_length, IH.
  unfold enc_binder. cbn [length]. fold (binders_len r). lia.
Qed.

Lemma enc_binders_len bs : length (enc_binders bs) = N.to_nat (2 + binders_len bs).
Proof. unfold enc_binders. rewrite app_length, concat_binders_len. cbn [be16 length]. lia. Qed.

Definition psk_head (ids : list ident) (blen : N) : bytes :=
  be16 41 ++ be16 (4 + 2 + idents_len ids + 2 + blen - 4) ++ be16 (idents_len ids) ++ concat (map enc_ident ids).

Lemma psk_ext_split ids bs : ids <> [] -> bs <> [] -> psk_ext ids bs = psk_head ids (binders_len bs) ++ enc_binders bs.
Proof.
  intros Hi Hb. unfold psk_ext, psk_ext_len, psk_head. destruct ids; [congruence|]. destruct bs; [congruence|].
  replace (4 + 2 + idents_len (i :: ids) + 2 + binders_len (b :: bs) =? 0) with false by (symmetry; apply N.eqb_neq; lia).
  rewrite <- !app_assoc. reflexivity.
Qed.

Lemma patch_ok prefix ids old new :
  ids <> [] -> old <> [] -> new <> [] -> binders_len old = binders_len new ->
  patch (prefix ++ psk_ext ids old) old new = Ok (prefix ++ psk_ext ids new) /\
  length (prefix ++ psk_ext ids new) = length (prefix ++ psk_ext ids old).
Proof.
  intros Hi Ho Hn E. rewrite (psk_ext_split ids old Hi Ho), (psk_ext_split ids new Hi Hn). rewrite E.
  set (P := psk_head ids (binders_len new)).
  assert (L : length (prefix ++ P ++ enc_binders new) = length (prefix ++ P ++ enc_binders old)).
  { rewrite !app_length, !enc_binders_len, E. reflexivity. }
  split; [|exact L]. unfold patch.
  assert (C : (length (prefix ++ P ++ enc_binders old) - N.to_nat (2 + binders_len old) = length (prefix ++ P))%nat).
  { rewrite !app_length, enc_binders_len. lia. }
  rewrite C. rewrite app_assoc. rewrite firstn_app, firstn_all, Nat.sub_diag. cbn [firstn]. rewrite app_nil_r.
  rewrite <- !app_assoc.
  replace (length (prefix ++ P ++ enc_binders new) =? length (prefix ++ P ++ enc_binders old))%nat
    with true by (symmetry; apply Nat.eqb_eq; exact L).
  reflexivity.
Qed.

Section Binder.
  (* cipherSuite.finishedHash(binderKey, transcript): HMAC of the suite's hash *)
  Variable mac : N -> bytes -> bytes -> bytes.
  Hypothesis mac_len : forall su k t, length (mac su k t) = N.to_nat (hash_len su).

  Lemma binder_len_invariant prefix ids su key :
    ids <> [] ->
    let old := [placeholder su] in
    let raw := prefix ++ psk_ext ids old in
    let new := [mac su key (firstn (length raw - N.to_nat (2 + binders_len old)) raw)] in
    patch raw old new = Ok (prefix ++ psk_ext ids new) /\ length (prefix ++ psk_ext ids new) = length raw.
  Proof.
    intros Hi old raw new. apply patch_ok; try exact Hi; try discriminate.
    unfold old, new, placeholder. cbn [binders_len fold_right]. rewrite mac_len, repeat_length. reflexivity.
  Qed.
End Binder.

Lemma resume_next_any_history : forall h c1 c2 v,
  let ca := final [] h in
  completed (snd (step ca c1)) = true ->
  negotiate (c_srv c1) (c_spec c1) = Some v ->
  can_resume (c_spec c1) (c_srv c1) v ->
  same_config c1 c2 -> spec_wf (c_spec c2) (c_omit c2) ->
  mem (c_suite c1) (sp_suites (c_spec c1)) = true ->
  (v = V13 -> hrr_ok c2) ->
  exists s, lookup (c_name c1) (fst (step ca c1)) = Some s /\
    (unexpired s (c_now c2) ->
      resumed (snd (step (fst (step ca c1)) c2)) = true /\
      exists k, o_offer (snd (step (fst (step ca c1)) c2)) = Some (k, s)).
Proof. intros h c1 c2 v ca. apply resume_next. Qed.

Lemma run_app ca h1 h2 : run ca (h1 ++ h2) = run ca h1 ++ run (final ca h1) h2.
Proof.
  revert ca. induction h1 as [|c r IH]; intros ca; cbn [app run final]; [reflexivity|].
  destruct (step ca c) as [ca' o] eqn:E. cbn [fst]. rewrite IH. reflexivity.
Qed.

(* ---------- the cache key function ---------- *)
Lemma key_separates_names c1 c2 : c_sname c1 <> 0 -> c_sname c2 <> 0 -> c_sname c1 <> c_sname c2 -> c_name c1 <> c_name c2.
Proof.
  unfold c_name. intros H1 H2 H3. apply N.eqb_neq in H1, H2. rewrite H1, H2. exact H3.
Qed.

Lemma key_same_iff c1 c2 : c_name c1 = c_name c2 <->
  (if c_sname c1 =? 0 then c_addr c1 else c_sname c1) = (if c_sname c2 =? 0 then c_addr c2 else c_sname c2).
Proof. unfold c_name. reflexivity. Qed.

(* ---------- locality: a connection sees and changes only the entry under its own cache key ---------- *)
Definition agree (k : N) (ca1 ca2 : cache) : Prop := lookup k ca1 = lookup k ca2.

Lemma lookup_del_same k ca : lookup k (del k ca) = None.
Proof.
  unfold lookup, del. induction ca as [|[a s] r IH]; [reflexivity|]. cbn [filter fst].
  destruct (a =? k) eqn:E; cbn [negb]; [exact IH|]. cbn [find fst]. rewrite E. exact IH.
Qed.

Lemma agree_del k ca1 ca2 : agree k (del k ca1) (del k ca2).
Proof. unfold agree. rewrite !lookup_del_same. reflexivity. Qed.
Lemma agree_put k s ca1 ca2 : agree k (put k s ca1) (put k s ca2).
Proof. unfold agree. rewrite !lookup_put_same. reflexivity. Qed.

Lemma load_local ca1 ca2 c e : agree (c_name c) ca1 ca2 ->
  l_sess (load_session ca1 c e) = l_sess (load_session ca2 c e) /\
  agree (c_name c) (l_cache (load_session ca1 c e)) (l_cache (load_session ca2 c e)).
Proof.
  intros A. unfold load_session. rewrite A. destruct (lookup (c_name c) ca2) as [s|]; [|split; [reflexivity|exact A]].
  repeat match goal with |- context [if ?b then _ else _] => destruct b end; cbn [l_sess l_cache];
  (split; [reflexivity|]); try exact A; apply agree_del.
Qed.

Definition built_agree (k : N) (b1 b2 : built) : Prop :=
  match b1, b2 with
  | BOk c1 o1 p1, BOk c2 o2 p2 => agree k c1 c2 /\ o1 = o2 /\ p1 = p2
  | BErr c1 e1, BErr c2 e2 => agree k c1 c2 /\ e1 = e2
  | BPanic c1 e1, BPanic c2 e2 => agree k c1 c2 /\ e1 = e2
  | _, _ => False
  end.

Lemma build_local ca1 ca2 c : agree (c_name c) ca1 ca2 -> built_agree (c_name c) (build ca1 c) (build ca2 c).
Proof.
  intros A. unfold build. destruct (sp_go (c_spec c)).
  - destruct (load_local ca1 ca2 c true A) as [S C]. rewrite S. cbn. auto.
  - destruct (load_local ca1 ca2 c (has XEms (sp_exts (c_spec c))) A) as [S C]. rewrite S.
    destruct (l_sess (load_session ca2 c (has XEms (sp_exts (c_spec c))))) as [[k0 s0]|];
    cbv beta iota zeta;
    repeat match goal with |- context [if ?b then _ else _] => destruct b end; cbn; auto.
Qed.

Lemma agree_fail k ca1 ca2 c off : k = c_name c -> agree k ca1 ca2 -> agree k (fail ca1 c off) (fail ca2 c off).
Proof. intros -> A. unfold fail. destruct off; [apply agree_del|exact A]. Qed.

Lemma step_local ca1 ca2 c : agree (c_name c) ca1 ca2 ->
  snd (step ca1 c) = snd (step ca2 c) /\ agree (c_name c) (fst (step ca1 c)) (fst (step ca2 c)).
Proof.
  intros A. pose proof (build_local ca1 ca2 c A) as B. unfold step.
  destruct (build ca1 c) as [c1 o1 p1|c1 e1|c1 e1], (build ca2 c) as [c2 o2 p2|c2 e2|c2 e2]; cbn in B; try contradiction.
  - destruct B as [Ag [-> ->]].
    pose proof (fun o => agree_fail _ _ _ c o eq_refl Ag) as F.
    repeat match goal with |- context [match ?x with _ => _ end] => destruct x end; cbn [fst snd];
    (split; [reflexivity|]); try apply F; try apply agree_put; exact Ag.
  - destruct B as [Ag ->]. cbn. auto.
  - destruct B as [Ag ->]. cbn. auto.
Qed.

(* observations of the connections whose cache key is k, in a history of arbitrary connections *)
Fixpoint run_key (k : N) (ca : cache) (h : list conn) : list obs :=
  match h with
  | [] => []
  | c :: r => let (ca', o) := step ca c in if c_name c =? k then o :: run_key k ca' r else run_key k ca' r
  end.

Lemma interleave_local h : forall ca1 ca2 k, agree k ca1 ca2 ->
  run_key k ca1 h = run ca2 (filter (fun c => c_name c =? k) h).
Proof.
  induction h as [|c r IH]; intros ca1 ca2 k A; cbn [run_key filter run]; [reflexivity|].
  destruct (c_name c =? k) eqn:E.
  - apply N.eqb_eq in E. subst k. destruct (step_local ca1 ca2 c A) as [So Sc].
    cbn [run]. destruct (step ca1 c) as [ca1' o1], (step ca2 c) as [ca2' o2]. cbn [fst snd] in *. subst o2.
    f_equal. apply IH. exact Sc.
  - apply N.eqb_neq in E. pose proof (step_other_keys ca1 c k (fun H => E (eq_sym H))) as K.
    destruct (step ca1 c) as [ca1' o1]. cbn [fst] in K. apply IH. unfold agree. rewrite K. exact A.
Qed.

(* ---------- every later connection of a same-configuration history resumes ---------- *)
Lemma step_resumed_expiry ca c v k s :
  resumed (snd (step ca c)) = true -> o_offer (snd (step ca c)) = Some (k, s) ->
  negotiate (c_srv c) (c_spec c) = Some v ->
  (v = V13 -> has_modes (c_spec c) = true) -> (v <> V13 -> has_ticket (c_spec c) = true) ->
  exists s', lookup (c_name c) (fst (step ca c)) = Some s' /\
    s_notafter s' = s_notafter s /\ s_useby s' = c_now c + LIFETIME /\
    (t_created (s_ticket s') = t_created (s_ticket s) \/ t_created (s_ticket s') = c_now c).
Proof.
  intros Hr Ho Ng Hm Ht. destruct (step ca c) as [ca1 o] eqn:S. cbn [fst snd] in *.
  unfold step in S. rewrite Ng in S.
  destruct (build ca c) as [ca' off p|ca' e|ca' p] eqn:B; [|inversion S; subst; discriminate Hr..].
  destruct (v =? V13) eqn:EV.
  - apply N.eqb_eq in EV. subst v. rewrite (Hm eq_refl) in S.
    repeat match type of S with context [match ?x with _ => _ end] => destruct x eqn:? end;
    inversion S; subst; clear S; try discriminate Hr;
    repeat match goal with
      | H : match ?x with _ => _ end = Some _ |- _ => destruct x eqn:?; try discriminate H
      | H : Some _ = Some _ |- _ => inversion H; subst; clear H
      end;
    cbn [o_offer] in Ho; inversion Ho; subst;
    (eexists; split; [apply lookup_put_same|]); unfold stored; cbn; auto.
  - apply N.eqb_neq in EV. unfold wire_ticket in S. rewrite (Ht EV) in S. cbn [orb] in S.
    repeat match type of S with context [match ?x with _ => _ end] => destruct x eqn:? end;
    inversion S; subst; clear S; try discriminate Hr;
    repeat match goal with
      | H : match ?x with _ => _ end = Some _ |- _ => destruct x eqn:?; try discriminate H
      | H : Some _ = Some _ |- _ => inversion H; subst; clear H
      end;
    cbn [o_offer] in Ho; inversion Ho; subst;
    (eexists; split; [apply lookup_put_same|]); unfold stored; cbn; auto.
Qed.

Definition chain_inv (c1 : conn) (v B : N) (ca : cache) : Prop :=
  exists s, lookup (c_name c1) ca = Some s /\
    good (c_spec c1) (c_srv c1) (c_vn c1) (c_skipverify c1) v (c_suite c1) s /\ unexpired s B.

(* c continues the history started by c1: same configuration, its clock within the window ending at B *)
Definition follows (c1 : conn) (v B : N) (c : conn) : Prop :=
  same_config c1 c /\ spec_wf (c_spec c) (c_omit c) /\ (v = V13 -> hrr_ok c) /\ c_now c <= B /\ B <= c_now c + LIFETIME.

Fixpoint chain_ok (key : N) (ca : cache) (h : list conn) : Prop :=
  match h with
  | [] => True
  | c :: r =>
    resumed (snd (step ca c)) = true /\
    (exists k s, lookup key ca = Some s /\ o_offer (snd (step ca c)) = Some (k, s)) /\
    chain_ok key (fst (step ca c)) r
  end.

Lemma chain_step c1 v B ca c :
  negotiate (c_srv c1) (c_spec c1) = Some v ->
  can_resume (c_spec c1) (c_srv c1) v ->
  mem (c_suite c1) (sp_suites (c_spec c1)) = true ->
  chain_inv c1 v B ca -> follows c1 v B c ->
  resumed (snd (step ca c)) = true /\
  (exists k s, lookup (c_name c1) ca = Some s /\ o_offer (snd (step ca c)) = Some (k, s)) /\
  chain_inv c1 v B (fst (step ca c)).
Proof.
  intros Ng Cr Ms [s [L [G [U1 [U2 U3]]]]] [Sc [Wf [Hr [T1 T2]]]].
  assert (Hm : v = V13 -> has_modes (c_spec c1) = true).
  { intros ->. destruct Cr as [[E _]|[_ [_ [M _]]]]; [discriminate|exact M]. }
  assert (Ht : v <> V13 -> has_ticket (c_spec c1) = true).
  { intros N. destruct Cr as [[_ T]|[E _]]; [exact T|congruence]. }
  assert (R : resumed (snd (step ca c)) = true /\ exists k, o_offer (snd (step ca c)) = Some (k, s)).
  { destruct c as [sp2 sn2 ad2 sv2 now2 om2 sk2 su2 tl2 vm2 st2]. destruct Sc as [E1 [E2 [E3 [E4 [E5 [E6 E7]]]]]].
    cbn [c_spec c_srv c_skipverify c_suite c_now c_omit] in E1, E3, E4, E5, Wf, Hr, T1, T2. subst sp2 sv2 sk2 su2.
    rewrite <- E2 in L. rewrite <- E6 in G.
    assert (A1 : now2 <= s_notafter s) by exact (N.le_trans _ _ _ T1 U1).
    assert (A2 : now2 <= s_useby s) by exact (N.le_trans _ _ _ T1 U2).
    assert (A3 : now2 <= t_created (s_ticket s) + LIFETIME) by exact (N.le_trans _ _ _ T1 U3).
    destruct Cr as [[-> T]|[-> [P [M Sg]]]].
    - destruct (good_resumes12 _ _ sn2 ad2 _ _ _ _ now2 om2 tl2 vm2 st2 G L Ng T Wf A1 A3) as [R O]. split; [exact R|eexists; exact O].
    - assert (W : sp_go (c_spec c1) = false -> psk_positions_ok (sp_exts (c_spec c1)) = true /\ (count_ticket (sp_exts (c_spec c1)) <= 1)%nat).
      { intros g. destruct (Wf g) as [A [B0 _]]. auto. }
      assert (Hr' : sp_go (c_spec c1) = true \/ needs_hrr (c_srv c1) (c_spec c1) = false) by exact (Hr eq_refl).
      destruct (good_resumes13 _ _ sn2 ad2 _ _ _ _ now2 om2 tl2 vm2 st2 G L Ng P M W Sg Hr' Ms A1 A2 A3) as [R O].
      split; [exact R|eexists; exact O]. }
  destruct R as [R [k O]]. split; [exact R|]. split; [exists k, s; auto|].
  destruct Sc as [E1 [E2 [E3 [E4 [E5 [E6 E7]]]]]].
  assert (Hc : completed (snd (step ca c)) = true).
  { unfold resumed in R. unfold completed. destruct (o_out (snd (step ca c))); try discriminate. reflexivity. }
  assert (Ng' : negotiate (c_srv c) (c_spec c) = Some v) by (rewrite E1, E3; exact Ng).
  assert (Hm' : v = V13 -> has_modes (c_spec c) = true) by (rewrite E1; exact Hm).
  assert (Ht' : v <> V13 -> has_ticket (c_spec c) = true) by (rewrite E1; exact Ht).
  destruct (step_stores_good ca c v Hc Ng' Hm' Ht') as [s' [L' [G' _]]].
  destruct (step_resumed_expiry ca c v k s R O Ng' Hm' Ht') as [s'' [L'' [X1 [X2 X3]]]].
  rewrite L' in L''. inversion L''; subst s''. clear L''.
  rewrite E1, E3, E4, E5, E6 in G'. rewrite E2 in L'.
  exists s'. split; [exact L'|]. split; [exact G'|]. unfold unexpired. rewrite X1, X2.
  split; [exact U1|]. split; [exact T2|]. destruct X3 as [-> | ->]; [exact U3|exact T2].
Qed.

Lemma resume_chain c1 v B :
  negotiate (c_srv c1) (c_spec c1) = Some v ->
  can_resume (c_spec c1) (c_srv c1) v ->
  mem (c_suite c1) (sp_suites (c_spec c1)) = true ->
  forall rest ca, chain_inv c1 v B ca -> Forall (follows c1 v B) rest -> chain_ok (c_name c1) ca rest.
Proof.
  intros Ng Cr Ms rest. induction rest as [|c r IH]; intros ca I F; cbn [chain_ok]; [exact Logic.I|].
  inversion F as [|c' r' Fc Fr]; subst.
  destruct (chain_step c1 v B ca c Ng Cr Ms I Fc) as [R [O I']].
  split; [exact R|]. split; [exact O|]. apply IH; assumption.
Qed.

(* the whole statement: first connection completes, the rest follow *)
Lemma resume_all ca c1 rest v B :
  completed (snd (step ca c1)) = true ->
  negotiate (c_srv c1) (c_spec c1) = Some v ->
  can_resume (c_spec c1) (c_srv c1) v ->
  mem (c_suite c1) (sp_suites (c_spec c1)) = true ->
  (forall s, lookup (c_name c1) (fst (step ca c1)) = Some s -> unexpired s B) ->
  Forall (follows c1 v B) rest ->
  chain_ok (c_name c1) (fst (step ca c1)) rest.
Proof.
  intros Hc Ng Cr Ms U F.
  assert (Hm : v = V13 -> has_modes (c_spec c1) = true).
  { intros ->. destruct Cr as [[E _]|[_ [_ [M _]]]]; [discriminate|exact M]. }
  assert (Ht : v <> V13 -> has_ticket (c_spec c1) = true).
  { intros N. destruct Cr as [[_ T]|[E _]]; [exact T|congruence]. }
  destruct (step_stores_good ca c1 v Hc Ng Hm Ht) as [s [L [G _]]].
  apply (resume_chain c1 v B Ng Cr Ms); [|exact F]. exists s. split; [exact L|]. split; [exact G|]. apply U, L.
Qed.

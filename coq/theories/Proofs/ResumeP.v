(* Proofs about Model/Resume.v (C19). *)
From UV Require Import Base.Common Model.Resume.
From Coq Require Import ZifyBool ZifyNat ZifyN.

(* ---------- the cache map ---------- *)
Lemma lookup_put_same k s ca : lookup k (put k s ca) = Some s.
Proof. unfold lookup, put. cbn [find fst snd]. rewrite N.eqb_refl. reflexivity. Qed.

Lemma find_del_other k k' (ca : cache) : k' <> k ->
  find (fun e => fst e =? k') (del k ca) = find (fun e => fst e =? k') ca.
Proof.
  intros Hne. unfold del. induction ca as [|[a s] r IH]; [reflexivity|].
  cbn [filter find fst]. destruct (a =? k) eqn:Ea; cbn [negb].
  - apply N.eqb_eq in Ea. subst a. destruct (k =? k') eqn:E; [apply N.eqb_eq in E; congruence|]. exact IH.
  - cbn [find fst]. destruct (a =? k'); [reflexivity|exact IH].
Qed.

Lemma lookup_del_other k k' ca : k' <> k -> lookup k' (del k ca) = lookup k' ca.
Proof. intros H. unfold lookup. rewrite (find_del_other _ _ _ H). reflexivity. Qed.

Lemma lookup_put_other k k' s ca : k' <> k -> lookup k' (put k s ca) = lookup k' ca.
Proof.
  intros H. unfold lookup, put. cbn [find fst]. destruct (k =? k') eqn:E; [apply N.eqb_eq in E; congruence|].
  rewrite (find_del_other _ _ _ H). reflexivity.
Qed.

Lemma lookup_In k ca s : lookup k ca = Some s -> In (k, s) ca.
Proof.
  unfold lookup. destruct (find _ ca) as [[a s']|] eqn:F; [|discriminate]. intros H. inversion H; subst.
  apply find_some in F. destruct F as [Hin He]. cbn in He. apply N.eqb_eq in He. subst. exact Hin.
Qed.

(* ---------- names: every entry was stored under the name it was negotiated for ---------- *)
Definition names_ok (ca : cache) : Prop := Forall (fun e => s_name (snd e) = fst e) ca.

Lemma names_ok_del k ca : names_ok ca -> names_ok (del k ca).
Proof. unfold names_ok, del. intros H. apply Forall_forall. intros e He. apply filter_In in He. rewrite Forall_forall in H. apply H, He. Qed.

Lemma names_ok_put k s ca : s_name s = k -> names_ok ca -> names_ok (put k s ca).
Proof. intros Hs H. unfold put. constructor; [exact Hs|apply names_ok_del, H]. Qed.

Lemma names_ok_lookup k ca s : names_ok ca -> lookup k ca = Some s -> s_name s = k.
Proof. intros H L. apply lookup_In in L. unfold names_ok in H. rewrite Forall_forall in H. exact (H _ L). Qed.

(* ---------- loadSession ---------- *)
Lemma load_offer_lookup ca c e k s :
  l_sess (load_session ca c e) = Some (k, s) -> lookup (c_name c) ca = Some s.
Proof.
  unfold load_session. destruct (lookup (c_name c) ca) as [s0|]; [|discriminate].
  repeat match goal with |- context [if ?b then _ else _] => destruct b end; cbn [l_sess]; try discriminate;
  intros H; inversion H; reflexivity.
Qed.

Lemma load_cache ca c e : l_cache (load_session ca c e) = ca \/ l_cache (load_session ca c e) = del (c_name c) ca.
Proof.
  unfold load_session. destruct (lookup (c_name c) ca) as [s0|]; [|left; reflexivity].
  repeat match goal with |- context [if ?b then _ else _] => destruct b end; cbn [l_cache]; auto.
Qed.

(* the fix: an EMS session is offered through session_ticket only by a hello that carries EMS *)
Lemma load_ems ca c e s : l_sess (load_session ca c e) = Some (ViaTicket, s) -> s_ems s = true -> e = true.
Proof.
  unfold load_session. destruct (lookup (c_name c) ca) as [s0|]; [|discriminate].
  repeat match goal with |- context [if ?b then _ else _] => destruct b eqn:? end; cbn [l_sess]; try discriminate;
  intros H; inversion H; subst; intros Hs; rewrite Hs in *; destruct e; cbn in *; congruence.
Qed.

Lemma load_kind ca c e k s : l_sess (load_session ca c e) = Some (k, s) ->
  (k = ViaPsk /\ s_vers s = V13) \/ (k = ViaTicket /\ s_vers s <> V13).
Proof.
  unfold load_session. destruct (lookup (c_name c) ca) as [s0|]; [|discriminate].
  repeat match goal with |- context [if ?b then _ else _] => destruct b eqn:? end; cbn [l_sess]; try discriminate;
  intros H; inversion H; subst.
  - right. split; [reflexivity|]. intros E. rewrite E in *. cbn in *. discriminate.
  - left. split; [reflexivity|]. match goal with H : negb (s_vers s =? V13) = false |- _ => apply negb_false_iff, N.eqb_eq in H; exact H end.
Qed.

(* ---------- build ---------- *)
Lemma build_offer ca c ca' k s p : build ca c = BOk ca' (Some (k, s)) p ->
  lookup (c_name c) ca = Some s /\
  (k = ViaTicket -> s_ems s = true -> has_ems (c_spec c) = true).
Proof.
  unfold build, has_ems. destruct (sp_go (c_spec c)) eqn:G.
  - intros H. inversion H; subst. clear H. split.
    + eapply load_offer_lookup; eassumption.
    + reflexivity.
  - cbn [orb]. intros H.
    destruct (l_sess (load_session ca c (has XEms (sp_exts (c_spec c))))) as [[k0 s0]|] eqn:L;
    cbv beta iota zeta in H;
    repeat match type of H with context [if ?b then _ else _] => destruct b eqn:? end; try discriminate;
    inversion H; subst; clear H;
    (split; [eapply load_offer_lookup; exact L|]); intros Hk Hs; try discriminate;
    destruct (load_kind _ _ _ _ _ L) as [[-> Hv]|[-> Hv]];
    try (exfalso; match goal with H : (s_vers s =? V12) = true |- _ => apply N.eqb_eq in H; rewrite H in Hv; discriminate end);
    eapply load_ems; eassumption.
Qed.

Lemma build_cache ca c : forall ca',
  (exists o p, build ca c = BOk ca' o p) \/ (exists e, build ca c = BErr ca' e) \/ (exists p, build ca c = BPanic ca' p) ->
  ca' = ca \/ ca' = del (c_name c) ca.
Proof.
  intros ca' H. unfold build in H.
  destruct (sp_go (c_spec c)).
  - destruct H as [[o [p H]]|[[e H]|[p H]]]; try discriminate. inversion H. apply load_cache.
  - pose proof (load_cache ca c (has XEms (sp_exts (c_spec c)))) as LC.
    destruct (l_sess (load_session ca c (has XEms (sp_exts (c_spec c))))) as [[k0 s0]|];
    cbv beta iota zeta in H;
    repeat match type of H with context [if ?b then _ else _] => destruct b end;
    destruct H as [[o [p H]]|[[e H]|[p H]]]; try discriminate; inversion H; subst; auto.
Qed.

(* ---------- one connection ---------- *)
Ltac destr_goal := repeat match goal with |- context [match ?x with _ => _ end] => destruct x eqn:? end.

Lemma step_offer ca c k s : o_offer (snd (step ca c)) = Some (k, s) ->
  lookup (c_name c) ca = Some s /\ (k = ViaTicket -> s_ems s = true -> o_ems (snd (step ca c)) = true).
Proof.
  unfold step. destruct (build ca c) as [ca' off p|ca' e|ca' p] eqn:B.
  - assert (O : off = Some (k, s) -> lookup (c_name c) ca = Some s /\ (k = ViaTicket -> s_ems s = true -> has_ems (c_spec c) = true)).
    { intros ->. eapply build_offer; exact B. }
    destr_goal; cbn [snd o_offer o_ems]; exact O.
  - cbn. discriminate.
  - cbn. discriminate.
Qed.

Lemma stored_name c v su e r t : s_name (stored c v su e r t) = c_name c.
Proof. unfold stored. destruct r; reflexivity. Qed.

Lemma names_ok_fail ca c off : names_ok ca -> names_ok (fail ca c off).
Proof. intros H. unfold fail. destruct off; [apply names_ok_del|]; exact H. Qed.

Lemma step_names_ok ca c : names_ok ca -> names_ok (fst (step ca c)).
Proof.
  intros H. unfold step. destruct (build ca c) as [ca' off p|ca' e|ca' p] eqn:B.
  - assert (H' : names_ok ca').
    { destruct (build_cache ca c ca') as [->| ->]; [left; eauto|exact H|apply names_ok_del, H]. }
    destr_goal; cbn [fst]; try apply names_ok_fail; try apply names_ok_put; try apply stored_name; exact H'.
  - cbn [fst]. destruct (build_cache ca c ca') as [->| ->]; [right; left; eauto|exact H|apply names_ok_del, H].
  - cbn [fst]. destruct (build_cache ca c ca') as [->| ->]; [right; right; eauto|exact H|apply names_ok_del, H].
Qed.

(* a connection touches only its own cache key *)
Lemma step_other_keys ca c k : k <> c_name c -> lookup k (fst (step ca c)) = lookup k ca.
Proof.
  intros Hk. unfold step. destruct (build ca c) as [ca' off p|ca' e|ca' p] eqn:B.
  - assert (H' : lookup k ca' = lookup k ca).
    { destruct (build_cache ca c ca') as [->| ->]; [left; eauto|reflexivity|apply lookup_del_other, Hk]. }
    assert (F : forall o, lookup k (fail ca' c o) = lookup k ca).
    { intros o. unfold fail. destruct o; [rewrite lookup_del_other by exact Hk|]; exact H'. }
    destr_goal; cbn [fst]; try apply F; try (rewrite lookup_put_other by exact Hk); exact H'.
  - cbn [fst]. destruct (build_cache ca c ca') as [->| ->]; [right; left; eauto|reflexivity|apply lookup_del_other, Hk].
  - cbn [fst]. destruct (build_cache ca c ca') as [->| ->]; [right; right; eauto|reflexivity|apply lookup_del_other, Hk].
Qed.

(* ---------- histories ---------- *)
Definition offers_ok (P : conn -> obs -> Prop) (h : list conn) (os : list obs) : Prop :=
  Forall (fun co => P (fst co) (snd co)) (combine h os).

Lemma run_length ca h : length (run ca h) = length h.
Proof. revert ca. induction h as [|c r IH]; intros ca; cbn [run]; [reflexivity|]. destruct (step ca c). cbn. rewrite IH. reflexivity. Qed.

Lemma run_invariant (I : cache -> Prop) (P : conn -> obs -> Prop) :
  (forall ca c, I ca -> I (fst (step ca c)) /\ P c (snd (step ca c))) ->
  forall h ca, I ca -> offers_ok P h (run ca h) /\ I (final ca h).
Proof.
  intros S h. induction h as [|c r IH]; intros ca Hca; cbn [run final].
  - split; [constructor|exact Hca].
  - destruct (S ca c Hca) as [Hi Hp]. destruct (step ca c) as [ca' o] eqn:E. cbn [fst snd] in *.
    destruct (IH ca' Hi) as [A B]. split; [constructor; [exact Hp|exact A]|exact B].
Qed.

Definition same_name (c : conn) (o : obs) : Prop :=
  forall k s, o_offer o = Some (k, s) -> s_name s = c_name c.
Definition ems_safe (c : conn) (o : obs) : Prop :=
  forall s, o_offer o = Some (ViaTicket, s) -> s_ems s = true -> o_ems o = true.

Lemma no_cross_name_run h ca : names_ok ca -> offers_ok same_name h (run ca h) /\ names_ok (final ca h).
Proof.
  apply (run_invariant names_ok same_name). intros ca0 c H. split; [apply step_names_ok, H|].
  intros k s Ho. destruct (step_offer _ _ _ _ Ho) as [L _]. eapply names_ok_lookup; eassumption.
Qed.

Lemma ems_safe_run h ca : offers_ok ems_safe h (run ca h).
Proof.
  apply (run_invariant (fun _ => True) ems_safe); [|exact I]. intros ca0 c _. split; [exact I|].
  intros s Ho Hs. destruct (step_offer _ _ _ _ Ho) as [_ E]. apply E; [reflexivity|exact Hs].
Qed.

(* ---------- resumption of the next connection ---------- *)
Record good (sp : spec) (sv : server) (name : N) (skip : bool) (v suite : N) (s : session) : Prop := mkGood {
  g_vers : s_vers s = v;
  g_key : t_key (s_ticket s) = sv_key sv;
  g_tvers : t_vers (s_ticket s) = v;
  g_tsuite : t_suite (s_ticket s) = s_suite s;
  g_tems : t_ems (s_ticket s) = s_ems s;
  g_ver : skip = false -> s_verified s = true /\ mem name (s_certnames s) = true;
  g_12 : v <> V13 -> mem (s_suite s) (sp_suites sp) = true /\ mem (s_suite s) (sv_suites sv) = true /\ s_ems s = has_ems sp;
  g_13 : v = V13 -> hash_len (s_suite s) = hash_len suite /\ hash_len suite <> 0
}.

Lemma negotiate_mem sv sp v : negotiate sv sp = Some v -> mem v (sp_vers sp) = true.
Proof. unfold negotiate. intros H. apply find_some in H. apply H. Qed.

Lemma mem_In x l : mem x l = true <-> In x l.
Proof. unfold mem. rewrite existsb_exists. split; [intros [y [Hy E]]; apply N.eqb_eq in E; subst; exact Hy|intros H; exists x; split; [exact H|apply N.eqb_refl]]. Qed.

Lemma ver_cond skip (s : session) name :
  (skip = false -> s_verified s = true /\ mem name (s_certnames s) = true) ->
  negb skip && (negb (s_verified s) || negb (mem name (s_certnames s))) = false.
Proof. destruct skip; [reflexivity|]. intros H. destruct (H eq_refl) as [-> ->]. reflexivity. Qed.

Lemma load13 sp sv name skip suite s ca now omit tlen e :
  good sp sv name skip V13 suite s -> lookup name ca = Some s ->
  mem V13 (sp_vers sp) = true -> mem suite (sp_suites sp) = true ->
  now <= s_notafter s -> now <= s_useby s ->
  load_session ca (mkConn sp name sv now omit skip suite tlen) e = mkLoaded ca (Some (ViaPsk, s)).
Proof.
  intros G L Mv Ms T1 T2. destruct G as [gv gk gtv gts gte gver g12 g13]. destruct (g13 eq_refl) as [Hh Hn].
  unfold load_session. cbn [c_name c_spec c_now c_skipverify]. rewrite L, gv, Mv. cbn [negb].
  replace (s_notafter s <? now) with false by (symmetry; apply N.ltb_ge; exact T1).
  rewrite (ver_cond _ _ _ gver). rewrite N.eqb_refl. cbn [negb].
  replace (s_useby s <? now) with false by (symmetry; apply N.ltb_ge; exact T2).
  rewrite Hh. replace (hash_len suite =? 0) with false by (symmetry; apply N.eqb_neq; exact Hn).
  assert (X : existsb (fun o => negb (hash_len o =? 0) && (hash_len o =? hash_len suite)) (sp_suites sp) = true).
  { apply existsb_exists. exists suite. split; [apply mem_In, Ms|].
    rewrite N.eqb_refl. replace (hash_len suite =? 0) with false by (symmetry; apply N.eqb_neq; exact Hn). reflexivity. }
  rewrite X. reflexivity.
Qed.

Lemma good_resumes13 sp sv name skip suite s ca now omit tlen :
  good sp sv name skip V13 suite s ->
  lookup name ca = Some s ->
  negotiate sv sp = Some V13 ->
  has_psk sp = true -> has_modes sp = true ->
  (sp_go sp = false -> psk_positions_ok (sp_exts sp) = true /\ (count_ticket (sp_exts sp) <= 1)%nat) ->
  selected_group sv sp <> None ->
  (sp_go sp = true \/ needs_hrr sv sp = false) ->
  mem suite (sp_suites sp) = true ->
  now <= s_notafter s -> now <= s_useby s -> now <= t_created (s_ticket s) + LIFETIME ->
  let c2 := mkConn sp name sv now omit skip suite tlen in
  resumed (snd (step ca c2)) = true /\ o_offer (snd (step ca c2)) = Some (ViaPsk, s).
Proof.
  intros G L Ng Hp Hm Wf Sg Hr Ms T1 T2 T3 c2.
  pose proof (negotiate_mem _ _ _ Ng) as Mv.
  assert (B : build ca c2 = BOk ca (Some (ViaPsk, s)) true).
  { unfold build, c2. cbn [c_spec c_omit].
    destruct (sp_go sp) eqn:Go.
    - rewrite (load13 sp sv name skip suite s ca now omit tlen true G L Mv Ms T1 T2). reflexivity.
    - destruct (Wf eq_refl) as [W1 W2]. unfold has_psk in Hp. rewrite Go in Hp. cbn [orb] in Hp.
      replace (1 <? count_ticket (sp_exts sp))%nat with false by (symmetry; apply Nat.ltb_ge; exact W2).
      rewrite W1, Hp. cbn [negb andb]. rewrite andb_false_r.
      rewrite (load13 sp sv name skip suite s ca now omit tlen _ G L Mv Ms T1 T2). cbn [l_sess l_cache].
      rewrite (g_vers _ _ _ _ _ _ _ G). cbn. reflexivity. }
  destruct G as [gv gk gtv gts gte gver g12 g13]. destruct (g13 eq_refl) as [Hh Hn].
  subst c2. unfold step. rewrite B. cbn [c_spec c_srv c_suite c_now c_name]. rewrite Ng. rewrite N.eqb_refl.
  destruct (selected_group sv sp) as [g|] eqn:SG; [|congruence].
  assert (HR : needs_hrr sv sp && negb (sp_go sp) && true = false).
  { destruct Hr as [-> | ->]; [rewrite andb_false_r|]; reflexivity. }
  rewrite HR.
  replace (hash_len suite =? 0) with false by (symmetry; apply N.eqb_neq; exact Hn).
  unfold opens, fresh. rewrite Hm, gk, gtv, gts, Hh, !N.eqb_refl.
  replace (now <=? t_created (s_ticket s) + LIFETIME) with true by (symmetry; apply N.leb_le; exact T3).
  cbn. split; reflexivity.
Qed.

Lemma load12 sp sv name skip suite s ca now omit tlen :
  good sp sv name skip V12 suite s -> lookup name ca = Some s ->
  mem V12 (sp_vers sp) = true -> now <= s_notafter s ->
  load_session ca (mkConn sp name sv now omit skip suite tlen) (has_ems sp) = mkLoaded ca (Some (ViaTicket, s)).
Proof.
  intros G L Mv T1. destruct G as [gv gk gtv gts gte gver g12 g13].
  destruct g12 as [M1 [M2 E]]; [discriminate|].
  unfold load_session. cbn [c_name c_spec c_now c_skipverify]. rewrite L, gv, Mv. cbn [negb].
  replace (s_notafter s <? now) with false by (symmetry; apply N.ltb_ge; exact T1).
  rewrite (ver_cond _ _ _ gver). cbn. rewrite M1, E. cbn [negb]. rewrite andb_negb_r. reflexivity.
Qed.

Lemma good_resumes12 sp sv name skip suite s ca now omit tlen :
  good sp sv name skip V12 suite s ->
  lookup name ca = Some s ->
  negotiate sv sp = Some V12 ->
  has_ticket sp = true ->
  (sp_go sp = false -> psk_positions_ok (sp_exts sp) = true /\ (count_ticket (sp_exts sp) <= 1)%nat /\
                       (has XPsk (sp_exts sp) = true -> omit = true)) ->
  now <= s_notafter s -> now <= t_created (s_ticket s) + LIFETIME ->
  let c2 := mkConn sp name sv now omit skip suite tlen in
  resumed (snd (step ca c2)) = true /\ o_offer (snd (step ca c2)) = Some (ViaTicket, s).
Proof.
  intros G L Ng Ht Wf T1 T3 c2.
  pose proof (negotiate_mem _ _ _ Ng) as Mv.
  pose proof (load12 sp sv name skip suite s ca now omit tlen G L Mv T1) as LD.
  assert (B : exists p, build ca c2 = BOk ca (Some (ViaTicket, s)) p).
  { unfold build, c2. cbn [c_spec c_omit].
    destruct (sp_go sp) eqn:Go.
    - unfold has_ems in LD. rewrite Go in LD. cbn [orb] in LD. rewrite LD. eexists. reflexivity.
    - destruct (Wf eq_refl) as [W1 [W2 W3]]. unfold has_ticket in Ht. rewrite Go in Ht. cbn [orb] in Ht.
      unfold has_ems in LD. rewrite Go in LD. cbn [orb] in LD.
      replace (1 <? count_ticket (sp_exts sp))%nat with false by (symmetry; apply Nat.ltb_ge; exact W2).
      rewrite W1, Ht. cbn [negb andb]. rewrite LD. cbn [l_sess l_cache].
      rewrite (g_vers _ _ _ _ _ _ _ G). rewrite N.eqb_refl.
      destruct (has XPsk (sp_exts sp)) eqn:P; [rewrite (W3 eq_refl)|]; cbn; eexists; reflexivity. }
  destruct B as [p B].
  destruct G as [gv gk gtv gts gte gver g12 g13]. destruct g12 as [M1 [M2 E]]; [discriminate|].
  subst c2. unfold step. rewrite B. cbn [c_spec c_srv c_suite c_now c_name]. rewrite Ng.
  change (V12 =? V13) with false. cbv beta iota.
  unfold opens, fresh. rewrite gk, gtv, gts, gte, !N.eqb_refl, M1, M2, E.
  replace (now <=? t_created (s_ticket s) + LIFETIME) with true by (symmetry; apply N.leb_le; exact T3).
  cbn [negb]. rewrite andb_negb_l, andb_negb_r. cbn. split; reflexivity.
Qed.

From UV Require Import Base.Common Model.Varint.
From Coq Require Import ZifyBool ZifyNat ZifyN.
Ltac Zify.zify_post_hook ::= Z.div_mod_to_equations.

Arguments N.shiftr : simpl never.
Arguments N.shiftl : simpl never.
Arguments N.lor : simpl never.
Arguments N.land : simpl never.
Arguments N.modulo : simpl never.
Arguments N.div : simpl never.
Arguments N.mul : simpl never.
Arguments N.add : simpl never.
Arguments N.pow : simpl never.

(* --- finite byte-level facts, by exhaustive sweep over 0..255 --- *)
Definition first_byte_ok (f : N) : bool :=
  (N.shiftl 1 (N.shiftr (N.land f 192) 6) =? (if f <? 64 then 1 else if f <? 128 then 2 else if f <? 192 then 4 else 8))
  && (N.land f 63 =? f mod 64).
Lemma first_byte_sweep : forallb first_byte_ok (nrange 256) = true.
Proof. vm_compute. reflexivity. Qed.
Lemma first_byte f : f < 256 ->
  N.shiftl 1 (N.shiftr (N.land f 192) 6) = (if f <? 64 then 1 else if f <? 128 then 2 else if f <? 192 then 4 else 8)
  /\ N.land f 63 = f mod 64.
Proof.
  intros H. pose proof (sweep_lift first_byte_ok 256 first_byte_sweep f H) as S.
  unfold first_byte_ok in S. apply andb_true_iff in S. destruct S as [A B].
  apply N.eqb_eq in A, B. split; assumption.
Qed.

Definition lor_ok (a : N) : bool :=
  (N.lor a 64 =? a + 64) && (N.lor a 128 =? a + 128) && (N.lor a 192 =? a + 192).
Lemma lor_sweep : forallb lor_ok (nrange 64) = true.
Proof. vm_compute. reflexivity. Qed.
Lemma lor_prefix a : a < 64 -> N.lor a 64 = a + 64 /\ N.lor a 128 = a + 128 /\ N.lor a 192 = a + 192.
Proof.
  intros H. pose proof (sweep_lift lor_ok 64 lor_sweep a H) as S.
  unfold lor_ok in S. rewrite !andb_true_iff in S. destruct S as [[A B] C].
  apply N.eqb_eq in A, B, C. auto.
Qed.

(* --- Read characterised arithmetically --- *)
Lemma read_spec f r1 : f < 256 ->
  read (f :: r1) =
  if f <? 64 then Some (f mod 64, r1)
  else match r1 with
  | [] => None
  | b2 :: r2 =>
    if f <? 128 then Some (b2 + (f mod 64) * 256, r2)
    else match r2 with
    | b3 :: b4 :: r4 =>
      if f <? 192 then Some (b4 + b3 * 256 + b2 * 65536 + (f mod 64) * 16777216, r4)
      else match r4 with
      | b5 :: b6 :: b7 :: b8 :: r8 =>
        Some (b8 + b7 * 256 + b6 * 65536 + b5 * 16777216 + b4 * 4294967296
              + b3 * 1099511627776 + b2 * 281474976710656 + (f mod 64) * 72057594037927936, r8)
      | _ => None end
    | _ => None end
  end.
Proof.
  intros Hf. destruct (first_byte f Hf) as [L B]. unfold read. rewrite L, B.
  destruct (f <? 64) eqn:E1; [reflexivity|].
  destruct (f <? 128) eqn:E2.
  { destruct r1 as [|b2 r2]; [reflexivity|]. rewrite !N.shiftl_mul_pow2. reflexivity. }
  destruct (f <? 192) eqn:E3.
  { destruct r1 as [|b2 [|b3 [|b4 r4]]]; try reflexivity. rewrite !N.shiftl_mul_pow2. reflexivity. }
  destruct r1 as [|b2 [|b3 [|b4 [|b5 [|b6 [|b7 [|b8 r8]]]]]]]; try reflexivity.
  rewrite !N.shiftl_mul_pow2. reflexivity.
Qed.

Lemma shr x k : N.shiftr x k = x / 2 ^ k. Proof. apply N.shiftr_div_pow2. Qed.

(* --- round trip --- *)
Lemma div_chain x :
  x / 65536 = x / 256 / 256 /\ x / 16777216 = x / 256 / 256 / 256 /\
  x / 4294967296 = x / 256 / 256 / 256 / 256 /\
  x / 1099511627776 = x / 256 / 256 / 256 / 256 / 256 /\
  x / 281474976710656 = x / 256 / 256 / 256 / 256 / 256 / 256 /\
  x / 72057594037927936 = x / 256 / 256 / 256 / 256 / 256 / 256 / 256.
Proof. rewrite !N.div_div by discriminate. repeat split; reflexivity. Qed.

Lemma dm256 x : exists q r, x / 256 = q /\ x mod 256 = r /\ x = 256 * q + r /\ r < 256.
Proof.
  exists (x / 256), (x mod 256). repeat split.
  - apply N.div_mod. discriminate.
  - apply N.mod_lt. discriminate.
Qed.

Ltac chain x q r H1 H2 :=
  let E1 := fresh in let E2 := fresh in
  destruct (dm256 x) as (q & r & E1 & E2 & H1 & H2); rewrite ?E1, ?E2; clear E1 E2.

Lemma append_read x r : x < 4611686018427387904 ->
  exists bs, append x = Ok bs /\ read (bs ++ r) = Some (x, r).
Proof.
  intros Hx. unfold append, maxVarInt1, maxVarInt2, maxVarInt4, maxVarInt8, u8.
  rewrite !shr.
  change (2 ^ 8) with 256. change (2 ^ 16) with 65536. change (2 ^ 24) with 16777216.
  change (2 ^ 32) with 4294967296. change (2 ^ 40) with 1099511627776.
  change (2 ^ 48) with 281474976710656. change (2 ^ 56) with 72057594037927936.
  destruct (div_chain x) as (D2 & D3 & D4 & D5 & D6 & D7). rewrite D2, D3, D4, D5, D6, D7.
  clear D2 D3 D4 D5 D6 D7.
  chain x q1 r0 X0 R0. chain q1 q2 r1 X1 R1. chain q2 q3 r2 X2 R2. chain q3 q4 r3 X3 R3.
  chain q4 q5 r4 X4 R4. chain q5 q6 r5 X5 R5. chain q6 q7 r6 X6 R6. chain q7 q8 r7 X7 R7.
  destruct (x <=? 63) eqn:E1.
  { eexists; split; [reflexivity|]. cbn [app]. rewrite read_spec by lia.
    replace (r0 <? 64) with true by lia. f_equal. f_equal.
    destruct (dm256 r0) as (a & b & _ & _ & _ & _). 
    rewrite N.mod_small by lia. lia. }
  destruct (x <=? 16383) eqn:E2.
  { eexists; split; [reflexivity|]. cbn [app].
    destruct (lor_prefix r1) as [A _]; [lia|]. rewrite A.
    rewrite read_spec by lia.
    replace (r1 + 64 <? 64) with false by lia.
    replace (r1 + 64 <? 128) with true by lia.
    f_equal. f_equal.
    replace ((r1 + 64) mod 64) with r1; [lia|].
    replace (r1 + 64) with (r1 + 1 * 64) by lia. rewrite N.mod_add by discriminate.
    symmetry; apply N.mod_small; lia. }
  destruct (x <=? 1073741823) eqn:E3.
  { eexists; split; [reflexivity|]. cbn [app].
    destruct (lor_prefix r3) as [_ [A _]]; [lia|]. rewrite A.
    rewrite read_spec by lia.
    replace (r3 + 128 <? 64) with false by lia.
    replace (r3 + 128 <? 128) with false by lia.
    replace (r3 + 128 <? 192) with true by lia.
    f_equal. f_equal.
    replace ((r3 + 128) mod 64) with r3; [lia|].
    replace (r3 + 128) with (r3 + 2 * 64) by lia. rewrite N.mod_add by discriminate.
    symmetry; apply N.mod_small; lia. }
  replace (x <=? 4611686018427387903) with true by lia.
  eexists; split; [reflexivity|]. cbn [app].
  destruct (lor_prefix r7) as [_ [_ A]]; [lia|]. rewrite A.
  rewrite read_spec by lia.
  replace (r7 + 192 <? 64) with false by lia.
  replace (r7 + 192 <? 128) with false by lia.
  replace (r7 + 192 <? 192) with false by lia.
  f_equal. f_equal.
  replace ((r7 + 192) mod 64) with r7; [lia|].
  replace (r7 + 192) with (r7 + 3 * 64) by lia. rewrite N.mod_add by discriminate.
  symmetry; apply N.mod_small; lia.
Qed.

(* --- Len / Append agreement and minimality --- *)
Lemma append_len x : x < 4611686018427387904 ->
  exists bs n, append x = Ok bs /\ vlen x = Ok n /\ N.of_nat (length bs) = n.
Proof.
  intros Hx. unfold append, vlen, maxVarInt1, maxVarInt2, maxVarInt4, maxVarInt8.
  destruct (x <=? 63); [do 2 eexists; repeat split|].
  destruct (x <=? 16383); [do 2 eexists; repeat split|].
  destruct (x <=? 1073741823); [do 2 eexists; repeat split|].
  replace (x <=? 4611686018427387903) with true by lia.
  do 2 eexists; repeat split.
Qed.

Definition fits (w x : N) : Prop := x < 2 ^ (8 * w - 2).

Lemma vlen_minimal x n : vlen x = Ok n ->
  fits n x /\ (n = 1 \/ n = 2 \/ n = 4 \/ n = 8) /\
  forall w, (w = 1 \/ w = 2 \/ w = 4 \/ w = 8) -> fits w x -> n <= w.
Proof.
  unfold vlen, fits, maxVarInt1, maxVarInt2, maxVarInt4, maxVarInt8.
  destruct (x <=? 63) eqn:E1; [intros [= <-]|
  destruct (x <=? 16383) eqn:E2; [intros [= <-]|
  destruct (x <=? 1073741823) eqn:E3; [intros [= <-]|
  destruct (x <=? 4611686018427387903) eqn:E4; [intros [= <-]|discriminate]]]].
  all: (split; [change (2 ^ (8 * 1 - 2)) with 64; change (2 ^ (8 * 2 - 2)) with 16384;
                change (2 ^ (8 * 4 - 2)) with 1073741824; change (2 ^ (8 * 8 - 2)) with 4611686018427387904; lia|]).
  all: (split; [tauto|]).
  all: intros w [-> | [-> | [-> | ->]]];
       change (2 ^ (8 * 1 - 2)) with 64; change (2 ^ (8 * 2 - 2)) with 16384;
       change (2 ^ (8 * 4 - 2)) with 1073741824; change (2 ^ (8 * 8 - 2)) with 4611686018427387904; lia.
Qed.

Lemma refuse x : 4611686018427387904 <= x ->
  append x = Panic P_NOFIT /\ vlen x = Panic P_NOFIT /\
  forall w, is_panic (append_with_len x w) = true.
Proof.
  intros Hx.
  assert (A : append x = Panic P_NOFIT).
  { unfold append, maxVarInt1, maxVarInt2, maxVarInt4, maxVarInt8.
    replace (x <=? 63) with false by lia. replace (x <=? 16383) with false by lia.
    replace (x <=? 1073741823) with false by lia. replace (x <=? 4611686018427387903) with false by lia.
    reflexivity. }
  assert (B : vlen x = Panic P_NOFIT).
  { unfold vlen, maxVarInt1, maxVarInt2, maxVarInt4, maxVarInt8.
    replace (x <=? 63) with false by lia. replace (x <=? 16383) with false by lia.
    replace (x <=? 1073741823) with false by lia. replace (x <=? 4611686018427387903) with false by lia.
    reflexivity. }
  repeat split; try assumption.
  intros w. unfold append_with_len. rewrite B.
  destruct (negb _); reflexivity.
Qed.

Lemma withlen_bad_width x w : w <> 1 -> w <> 2 -> w <> 4 -> w <> 8 ->
  append_with_len x w = Panic P_BADLEN.
Proof.
  intros. unfold append_with_len.
  replace (w =? 1) with false by lia. replace (w =? 2) with false by lia.
  replace (w =? 4) with false by lia. replace (w =? 8) with false by lia. reflexivity.
Qed.

Lemma withlen_too_small x l w : (w = 1 \/ w = 2 \/ w = 4 \/ w = 8) -> vlen x = Ok l -> w < l ->
  append_with_len x w = Panic P_TOOSMALL.
Proof.
  intros Hw Hl Hlt. unfold append_with_len. rewrite Hl. cbn [bind].
  replace (negb ((w =? 1) || (w =? 2) || (w =? 4) || (w =? 8))) with false by (destruct Hw as [-> | [-> | [-> | ->]]]; reflexivity).
  replace (l =? w) with false by lia. replace (w <? l) with true by lia. reflexivity.
Qed.

Lemma mod64_0 : 64 mod 64 = 0 /\ 128 mod 64 = 0 /\ 192 mod 64 = 0. Proof. repeat split. Qed.

(* AppendWithLen with a strictly wider width than needed: explicit bytes *)
Lemma awl_1_2 x : vlen x = Ok 1 -> append_with_len x 2 = Ok [64; u8 (N.shiftr x 0)].
Proof. intros H. unfold append_with_len. rewrite H. reflexivity. Qed.
Lemma awl_1_4 x : vlen x = Ok 1 -> append_with_len x 4 = Ok [128; 0; 0; u8 (N.shiftr x 0)].
Proof. intros H. unfold append_with_len. rewrite H. reflexivity. Qed.
Lemma awl_1_8 x : vlen x = Ok 1 -> append_with_len x 8 = Ok [192; 0; 0; 0; 0; 0; 0; u8 (N.shiftr x 0)].
Proof. intros H. unfold append_with_len. rewrite H. reflexivity. Qed.
Lemma awl_2_4 x : vlen x = Ok 2 -> append_with_len x 4 = Ok [128; 0; u8 (N.shiftr x 8); u8 (N.shiftr x 0)].
Proof. intros H. unfold append_with_len. rewrite H. reflexivity. Qed.
Lemma awl_2_8 x : vlen x = Ok 2 -> append_with_len x 8 = Ok [192; 0; 0; 0; 0; 0; u8 (N.shiftr x 8); u8 (N.shiftr x 0)].
Proof. intros H. unfold append_with_len. rewrite H. reflexivity. Qed.
Lemma awl_4_8 x : vlen x = Ok 4 -> append_with_len x 8 =
  Ok [192; 0; 0; 0; u8 (N.shiftr x 24); u8 (N.shiftr x 16); u8 (N.shiftr x 8); u8 (N.shiftr x 0)].
Proof. intros H. unfold append_with_len. rewrite H. reflexivity. Qed.

Lemma withlen_wider x l w r : vlen x = Ok l -> l < w -> (w = 2 \/ w = 4 \/ w = 8) ->
  exists bs, append_with_len x w = Ok bs /\ N.of_nat (length bs) = w /\ read (bs ++ r) = Some (x, r).
Proof.
  intros Hl Hlt Hw.
  destruct (vlen_minimal x l Hl) as (Hfit & Hl4 & _).
  unfold fits in Hfit.
  assert (S0 : N.shiftr x 0 = x) by apply N.shiftr_0_r.
  assert (S8 : N.shiftr x 8 = x / 256) by (rewrite shr; reflexivity).
  assert (S16 : N.shiftr x 16 = x / 256 / 256) by (rewrite shr, N.div_div by discriminate; reflexivity).
  assert (S24 : N.shiftr x 24 = x / 256 / 256 / 256) by (rewrite shr, !N.div_div by discriminate; reflexivity).
  destruct Hl4 as [-> | [-> | [-> | ->]]]; destruct Hw as [-> | [-> | ->]]; try lia.
  all: change (2 ^ (8 * 1 - 2)) with 64 in Hfit; change (2 ^ (8 * 2 - 2)) with 16384 in Hfit;
       change (2 ^ (8 * 4 - 2)) with 1073741824 in Hfit.
  all: first [rewrite (awl_1_2 x Hl) | rewrite (awl_1_4 x Hl) | rewrite (awl_1_8 x Hl)
             | rewrite (awl_2_4 x Hl) | rewrite (awl_2_8 x Hl) | rewrite (awl_4_8 x Hl)].
  all: eexists; split; [reflexivity|]; split; [reflexivity|].
  all: unfold u8; rewrite ?S0, ?S8, ?S16, ?S24; clear S0 S8 S16 S24.
  all: chain x q1 r0 X0 R0; chain q1 q2 r1 X1 R1; chain q2 q3 r2 X2 R2; chain q3 q4 r3 X3 R3.
  all: cbn [app]; rewrite read_spec by lia.
  all: cbn [N.ltb N.compare Pos.compare Pos.compare_cont].
  all: destruct mod64_0 as (M1 & M2 & M3); rewrite ?M1, ?M2, ?M3.
  all: f_equal; f_equal; lia.
Qed.

(* --- transport parameter list round trip --- *)
Lemma take_n_app {A} (v r : list A) : take_n (length v) (v ++ r) = Some (v, r).
Proof. induction v as [|a v IH]; cbn [take_n length app]; [reflexivity|]. rewrite IH. reflexivity. Qed.

Definition tp_ok (p : tparam) : Prop :=
  fst p < 4611686018427387904 /\ N.of_nat (length (snd p)) < 4611686018427387904.

Lemma parse_step k bs : bs <> [] ->
  parse_tps (S k) bs =
  match read bs with
  | None => None
  | Some (id, r1) =>
    match read r1 with
    | None => None
    | Some (n, r2) =>
      match take_n (N.to_nat n) r2 with
      | None => None
      | Some (v, r3) => match parse_tps k r3 with None => None | Some ps => Some ((id, v) :: ps) end
      end
    end
  end.
Proof. destruct bs; [congruence|reflexivity]. Qed.

Lemma marshal_parse tps : Forall tp_ok tps ->
  exists bs, marshal_tps tps = Ok bs /\
  forall fuel, (length tps <= fuel)%nat -> parse_tps fuel bs = Some tps.
Proof.
  induction tps as [|[id v] tps IH]; intros Hall.
  { exists []. split; [reflexivity|]. intros [|k] _; reflexivity. }
  inversion Hall as [|p ps [Hid Hv] Hrest]; subst. cbn [fst snd] in Hid, Hv.
  destruct (IH Hrest) as (rs & Hrs & Hparse).
  cbn [marshal_tps].
  destruct (append_read id (match append (N.of_nat (length v)) with Ok b => b | _ => [] end ++ v ++ rs) Hid)
    as (a & Ha & Ra).
  destruct (append_read (N.of_nat (length v)) (v ++ rs) Hv) as (b & Hb & Rb).
  rewrite Ha, Hb, Hrs. cbn [bind]. rewrite Hb in Ra.
  eexists; split; [reflexivity|].
  intros fuel Hf. destruct fuel as [|k]; [cbn [length] in Hf; lia|].
  assert (Hne : a ++ b ++ v ++ rs <> []).
  { destruct a as [|a0 a']; [|discriminate].
    unfold append in Ha. repeat destruct (_ <=? _) in Ha; discriminate. }
  rewrite parse_step by exact Hne. rewrite Ra, Rb, Nat2N.id, take_n_app.
  rewrite Hparse by (cbn [length] in Hf; lia). reflexivity.
Qed.

Lemma marshal_panics tps : Exists (fun p => 4611686018427387904 <= fst p) tps ->
  Forall (fun p => N.of_nat (length (snd p)) < 4611686018427387904) tps ->
  is_panic (marshal_tps tps) = true.
Proof.
  induction tps as [|[id v] tps IH]; intros Hex Hall; [inversion Hex|].
  inversion Hall as [|p ps Hv Hrest]; subst. cbn [snd] in Hv.
  cbn [marshal_tps].
  destruct (N.lt_ge_cases id 4611686018427387904) as [Hlt|Hge].
  - destruct (append_read id [] Hlt) as (a & Ha & _). rewrite Ha. cbn [bind].
    destruct (append_read _ [] Hv) as (b & Hb & _). rewrite Hb. cbn [bind].
    inversion Hex as [? ? Hh|? ? Ht]; subst; [cbn [fst] in Hh; lia|].
    specialize (IH Ht Hrest). destruct (marshal_tps tps); try discriminate. reflexivity.
  - destruct (refuse id Hge) as (A & _). rewrite A. reflexivity.
Qed.

(* GREASE id / version facts (QUIC half of C04; kept with the varint model) *)
Lemma grease_id_form k : k < GREASE_MAX_MULTIPLIER ->
  is_grease_id (grease_id k) = true /\ grease_id k < 4611686018427387904.
Proof.
  unfold GREASE_MAX_MULTIPLIER, is_grease_id, grease_id.
  change ((4611686018427387903 - 27) / 31) with 148764065110560899. intros Hk.
  replace (27 + k * 31 - 27) with (k * 31) by lia. rewrite N.mod_mul by discriminate.
  split; [|lia]. apply andb_true_iff. split; [lia|reflexivity].
Qed.

(* C02: the (fixed) marshaller over the concrete extension types emits a valid ClientHello
   or returns an error.  Glue between
     - the generic marshal theorems of Proofs/MarshalP.v (framing for well-behaved extensions),
     - the per-extension layout theorem of Proofs/ExtP.v (Read = id || u16 len || RFC body),
     - the grammar lemmas of Proofs/StrictP.v. *)
From UV Require Import Base.Common Model.Wire Model.Varint Model.Ext Model.ExtSpec Model.Strict.
From UV Require Import Proofs.WireP Proofs.ExtP Proofs.StrictP.
From UV Require Import Model.Padding Model.Marshal Model.ChMarshal Proofs.MarshalP.
From Coq Require Import ZifyBool ZifyNat ZifyN.

Lemma len_is_blen (b : bytes) : len b = blen b. Proof. reflexivity. Qed.

(* what a non-padding extension puts on the wire *)
Definition wire_of (e : ext) : bytes :=
  if ext_absent e then [] else enc_ext (ext_id e, ext_body e).

Definition is_padding (e : ext) : bool := match e with EPadding _ _ _ => true | _ => false end.

Lemma to_aext_nonpad padto e : is_padding e = false ->
  to_aext padto e = AExt (is_psk_ext e) (ext_len e) (fun b => ext_read e (len b)).
Proof. destruct e; try reflexivity. discriminate. Qed.

Lemma read_wire e n : wf_ext e = true -> ext_len e <= n -> ext_read e n = Ok (wire_of e).
Proof.
  intros Hwf Hn. destruct (wf_parts e Hwf) as (Hst & _ & _).
  rewrite (read_enough e n Hst Hn). pose proof (read_layout e Hwf) as H. unfold wire_of, enc_ext. cbn [fst snd].
  destruct (ext_absent e); apply H.
Qed.

Lemma emits_wire padto e : wf_ext e = true -> is_padding e = false -> emits (to_aext padto e) (wire_of e).
Proof.
  intros Hwf Hnp. rewrite (to_aext_nonpad padto e Hnp). cbn [emits]. destruct (wf_parts e Hwf) as (Hst & _ & _). split.
  - rewrite len_is_blen. apply (len_read e (ext_len e)); [exact Hst | apply read_wire; [exact Hwf | lia]].
  - intros s Hs. apply read_wire; [exact Hwf | exact Hs].
Qed.

Lemma aext_ok_of_wf padto e : wf_ext e = true -> aext_ok (to_aext padto e).
Proof.
  intros Hwf. destruct (is_padding e) eqn:Hp.
  - destruct e; try discriminate. exact I.
  - pose proof (emits_wire padto e Hwf Hp) as H. rewrite (to_aext_nonpad padto e Hp) in *. exists (wire_of e). exact H.
Qed.

(* the objects after the padding Update: every extension still stands for its spec entry *)
Definition rel (padto : Z) (e : ext) (x : aext) : Prop :=
  if is_padding e then exists pol st, x = APad pol st else x = to_aext padto e.

Lemma rel_map padto es : Forall2 (rel padto) es (map (to_aext padto) es).
Proof.
  induction es as [|e es IH]; cbn [map]; constructor; [|exact IH].
  unfold rel. destruct (is_padding e) eqn:Hp; [|reflexivity]. destruct e; try discriminate. cbn [to_aext]. eauto.
Qed.

Lemma rel_update padto u es xs : Forall2 (rel padto) es xs -> Forall2 (rel padto) es (update_padding u xs).
Proof.
  induction 1 as [|e x es xs Hr _ IH]; cbn [update_padding map]; constructor; [|exact IH].
  unfold rel in *. destruct (is_padding e) eqn:Hp.
  - destruct Hr as (pol & st & ->). eauto.
  - subst x. rewrite (to_aext_nonpad padto e Hp). reflexivity.
Qed.

Lemma prepare_exts h xs p : marshal_prepare h xs = Ok p ->
  pr_exts p = xs \/ exists u, pr_exts p = update_padding u xs.
Proof.
  unfold marshal_prepare. destruct (find_padding xs None) as [pe| |]; cbn [bind]; try discriminate.
  intros H. inversion H; subst p. cbn [pr_exts]. destruct pe; [right; eauto | left; reflexivity].
Qed.

Lemma prepare_rel padto h es p : marshal_prepare h (map (to_aext padto) es) = Ok p -> Forall2 (rel padto) es (pr_exts p).
Proof.
  intros H. destruct (prepare_exts _ _ _ H) as [->|(u & ->)]; [apply rel_map | apply rel_update, rel_map].
Qed.

Lemma find_padding_no_panic xs : forall found c, find_padding xs found <> Panic c.
Proof.
  induction xs as [|x xs IH]; intros found c; cbn [find_padding]; [discriminate|].
  destruct x; [apply IH|]. destruct found; [discriminate | apply IH].
Qed.
Lemma prepare_no_panic h xs c : marshal_prepare h xs <> Panic c.
Proof.
  unfold marshal_prepare. destruct (find_padding xs None) as [pe| |] eqn:E; cbn [bind]; try discriminate.
  exfalso. eapply find_padding_no_panic; exact E.
Qed.

(* ---- the extension block ---- *)

Lemma zeros_zbytes n : zeros n = zbytes (N.to_nat n).
Proof. unfold zeros. induction (N.to_nat n) as [|k IH]; [reflexivity|]. cbn [repeat zbytes]. now rewrite IH. Qed.

Lemma pad_emit_wire st : pad_len st < 65536 ->
  pad_emit st = if p_will st then enc_ext (ID_PADDING, zbytes (N.to_nat (p_len st))) else [].
Proof.
  intros Hl. unfold pad_emit, pad_len in *. destruct (p_will st); [|reflexivity].
  unfold enc_ext, enc_u16lp, enc_u16, u8. cbn [fst snd]. rewrite blen_zbytes, N2Nat.id, zeros_zbytes. reflexivity.
Qed.

Definition present_ok (x : N * bytes) : Prop := fst x < 65536 /\ blen (snd x) < 65536.

Lemma block_of_outs padto es : forall xs outs,
  Forall (fun e => wf_ext e = true /\ rfc_ok e = true) es ->
  Forall2 (rel padto) es xs -> Forall2 emits xs outs -> len (concat outs) < 65536 ->
  exists present, concat outs = flat_map enc_ext present
    /\ subseq (map fst present) (map ext_id es)
    /\ Forall present_ok present
    /\ forallb (fun x => body_okb (fst x) (snd x)) present = true
    /\ (forall e, In e es -> is_padding e = false -> ext_absent e = false -> In (ext_id e, ext_body e) present).
Proof.
  induction es as [|e es IH]; intros xs outs Hwf Hrel Hem Hlen.
  - inversion Hrel; subst. inversion Hem; subst. exists []. repeat split; try constructor. intros e [].
  - inversion Hrel as [|? x ? xs' Hr Hrel']; subst. inversion Hem as [|? o ? outs' Ho Hem']; subst.
    inversion Hwf as [|? ? [Hw Hrfc] Hwf']; subst.
    cbn [concat] in Hlen. rewrite len_app in Hlen.
    destruct (IH xs' outs' Hwf' Hrel' Hem') as (present & Hcat & Hsub & Hok & Hbody & Hin); [lia|].
    assert (Hcase : (o = [] /\ (is_padding e = false -> ext_absent e = true))
                    \/ exists b, o = enc_ext (ext_id e, b) /\ present_ok (ext_id e, b) /\ body_okb (ext_id e) b = true
                                 /\ (is_padding e = false -> b = ext_body e)).
    { unfold rel in Hr. destruct (is_padding e) eqn:Hp.
      - destruct Hr as (pol & st & ->). cbn [emits] in Ho. subst o.
        destruct e; try discriminate. cbn [ext_id].
        assert (Hpl : pad_len st < 65536) by (rewrite <- len_pad_emit; lia).
        rewrite (pad_emit_wire st Hpl). destruct (p_will st) eqn:Hw'; [right | left; split; [reflexivity | discriminate]].
        exists (zbytes (N.to_nat (p_len st))). split; [reflexivity|]. split; [|split; [|discriminate]].
        + unfold present_ok, pad_len in *. cbn [fst snd]. rewrite Hw' in Hpl. rewrite blen_zbytes, N2Nat.id.
          unfold ID_PADDING. lia.
        + rewrite bo_padding. apply all_zero_zbytes.
      - subst x. pose proof (emits_wire padto e Hw Hp) as Hw2. rewrite (to_aext_nonpad padto e Hp) in Ho, Hw2.
        cbn [emits] in Ho, Hw2. destruct Ho as [_ Hrd]. destruct Hw2 as [_ Hrd2].
        assert (Heq : o = wire_of e).
        { specialize (Hrd (zeros (ext_len e))). specialize (Hrd2 (zeros (ext_len e))).
          rewrite len_zeros in Hrd, Hrd2. specialize (Hrd (N.le_refl _)). specialize (Hrd2 (N.le_refl _)).
          rewrite Hrd in Hrd2. inversion Hrd2. reflexivity. }
        subst o. unfold wire_of. destruct (ext_absent e) eqn:Habs; [left; split; reflexivity | right].
        exists (ext_body e). split; [reflexivity|]. destruct (wf_parts e Hw) as (_ & Hf & Hl). split; [|split; [|reflexivity]].
        + unfold present_ok. cbn [fst snd]. split; [apply ext_id_u16; exact Hf|].
          pose proof (body_len e Hw Habs). lia.
        + apply body_ok_ext; assumption. }
    destruct Hcase as [[-> Habs']|(b & -> & Hpo & Hbo & Hb)].
    + exists present. cbn [concat app map]. split; [exact Hcat|]. split; [constructor; exact Hsub|].
      split; [assumption|]. split; [assumption|].
      intros e' [<-|He'] Hp' Ha'; [rewrite (Habs' Hp') in Ha'; discriminate | apply Hin; assumption].
    + exists ((ext_id e, b) :: present). cbn [concat flat_map map forallb fst snd]. rewrite Hcat, Hbo, Hbody.
      split; [reflexivity|]. split; [constructor; exact Hsub|]. split; [constructor; assumption|]. split; [reflexivity|].
      intros e' [<-|He'] Hp' Ha'; [left; rewrite (Hb Hp'); reflexivity | right; apply Hin; assumption].
Qed.

(* ---- Marshal.v's byte forms are the combinator layout ---- *)

Lemma u16be_small n : n < 65536 -> u16be (u16 n) = enc_u16 n.
Proof. intros H. unfold u16, u16be, enc_u16, u8. rewrite (N.mod_small n 65536 H). reflexivity. Qed.

Lemma suites_bytes_eq ss : suites_bytes ss = flat_map enc_u16 ss.
Proof. reflexivity. Qed.

Lemma layout_eq (h : hello_hdr) (has : bool) present (eb : bytes) :
  eb = flat_map enc_ext present -> len eb < 65536 -> 2 * blen (h_suites h) < 65536 ->
  let body := u16be (h_vers h) ++ h_random h ++ [u8 (len (h_sid h))] ++ h_sid h
              ++ u16be (u16 (len (suites_bytes (h_suites h)))) ++ suites_bytes (h_suites h)
              ++ [u8 (len (h_comp h))] ++ h_comp h
              ++ (if has then u16be (u16 (len eb)) ++ eb else []) in
  [typeClientHello] ++ u24be (len body) ++ body
  = hello_layout {| c_vers := h_vers h; c_random := h_random h; c_sid := h_sid h; c_suites := h_suites h;
                    c_comp := h_comp h; c_has_exts := has; c_exts := present |}.
Proof.
  intros Heb Hlen Hs body. unfold hello_layout. cbn [c_vers c_random c_sid c_suites c_comp c_has_exts c_exts].
  change ([typeClientHello] ++ u24be (len body) ++ body) with ([1] ++ enc_u24lp body). f_equal. f_equal.
  unfold body. rewrite suites_bytes_eq, len_is_blen, blen_flat_u16, (u16be_small _ Hs).
  rewrite <- Heb. rewrite (u16be_small _ Hlen).
  change (u16be (h_vers h)) with (enc_u16 (h_vers h)).
  unfold enc_u8lp, enc_u16lp, enc_u8, u8. rewrite blen_flat_u16, <- !len_is_blen.
  repeat rewrite <- app_assoc. reflexivity.
Qed.

(* the precondition, taken apart *)
Lemma wf_spec_parts h es : wf_specb h es = true ->
  h_vers h < 65536 /\ len (h_random h) = 32 /\ len (h_sid h) <= 32 /\ nonempty (h_suites h) = true
  /\ all_u16 (h_suites h) = true /\ nonempty (h_comp h) = true
  /\ Forall (fun e => wf_ext e = true /\ rfc_ok e = true) es
  /\ NoDup (map ext_id es) /\ psk_lastb (map ext_id es) = true.
Proof.
  unfold wf_specb, hdr_wfb. rewrite !andb_true_iff. intros [[[[[[[[H1 H2] H3] H4] H5] H6] H7] H8] H9].
  repeat split; try assumption; try lia.
  - apply Forall_forall. rewrite forallb_forall in H7. intros e He. specialize (H7 e He).
    apply andb_true_iff in H7. exact H7.
  - apply nodupb_spec. assumption.
Qed.

(* MAIN: for a spec inside the precondition whose totals fit, the function returns the
   combinator layout of (header fields, the present extensions in spec order) *)
Lemma marshal_hello_ok bbs padto h es p : wf_specb h es = true ->
  marshal_prepare h (map (to_aext padto) es) = Ok p -> fits h p = true ->
  exists present,
    marshal_hello bbs padto h es =
      Ok (hello_layout {| c_vers := h_vers h; c_random := h_random h; c_sid := h_sid h; c_suites := h_suites h;
                          c_comp := h_comp h; c_has_exts := nonempty es; c_exts := present |})
    /\ subseq (map fst present) (map ext_id es)
    /\ ast_ok {| c_vers := h_vers h; c_random := h_random h; c_sid := h_sid h; c_suites := h_suites h;
                 c_comp := h_comp h; c_has_exts := nonempty es; c_exts := present |}
    /\ (forall e, In e es -> is_padding e = false -> ext_absent e = false -> In (ext_id e, ext_body e) present).
Proof.
  intros Hwf Hp Hfit.
  destruct (wf_spec_parts h es Hwf) as (Hv & Hr & Hsid & Hsne & Hsu & Hcne & Hall & Hnd & Hpsk).
  unfold fits in Hfit. rewrite !andb_true_iff in Hfit. destruct Hfit as [[[F1 F2] F3] F4].
  set (aes := map (to_aext padto) es) in *.
  assert (Hok : Forall aext_ok aes).
  { unfold aes. apply Forall_forall. intros x Hx. apply in_map_iff in Hx. destruct Hx as (e & <- & He).
    rewrite Forall_forall in Hall. apply aext_ok_of_wf, (Hall e He). }
  destruct (marshal_framing bbs h aes p Hr Hok Hp) as (body & eb & outs & Hm & Hbody & Heb & Hem & Hlen).
  destruct (prepare_ok h aes p Hok Hp) as (Htot & _ & Hnil & _).
  pose proof (emits_total _ _ Hem) as Hcat. rewrite Htot in Hcat.
  assert (Heblen : len eb < 65536) by (rewrite Heb, Hcat; lia).
  destruct (block_of_outs padto es (pr_exts p) outs Hall (prepare_rel padto h es p Hp) Hem) as (present & Hpres & Hsub & Hpok & Hbok & Hin).
  { rewrite <- Heb. exact Heblen. }
  exists present.
  assert (Hs2 : 2 * blen (h_suites h) < 65536) by (rewrite <- len_is_blen; lia).
  assert (Hhas : match aes with [] => [] | _ :: _ => u16be (u16 (len eb)) ++ eb end
                 = if nonempty es then u16be (u16 (len eb)) ++ eb else []).
  { unfold aes. destruct es; reflexivity. }
  split; [|split; [exact Hsub|split; [|exact Hin]]].
  - unfold marshal_hello. fold aes. rewrite Hp. cbn [bind]. unfold fits. rewrite F1, F2, F3, F4. cbn [andb negb].
    rewrite Hm. f_equal. rewrite Hhas in Hbody. rewrite Hbody.
    apply (layout_eq h (nonempty es) present eb); [rewrite Heb; exact Hpres | exact Heblen | exact Hs2].
  - unfold ast_ok. cbn [c_vers c_random c_sid c_suites c_comp c_has_exts c_exts].
    rewrite <- !len_is_blen.
    split; [exact Hv|]. split; [exact Hr|]. split; [exact Hsid|]. split; [exact Hsne|]. split; [exact Hsu|].
    split; [exact Hs2|]. split; [exact Hcne|]. split; [unfold blen, len in *; lia|].
    destruct (nonempty es) eqn:Hne.
    + split; [exact Hpok|]. split; [exact Hbok|]. rewrite <- Hpres, <- Heb, <- len_is_blen. exact Heblen.
    + destruct es; [|discriminate]. specialize (Hnil eq_refl). rewrite Hnil in Hem. inversion Hem; subst outs.
      cbn [concat] in Hpres. destruct present as [|x pr]; [reflexivity|].
      exfalso. cbn [flat_map] in Hpres. unfold enc_ext, enc_u16 in Hpres. discriminate.
Qed.

Lemma valid_of_layout a types : ast_ok a -> subseq (ext_types a) types -> NoDup types -> psk_lastb types = true ->
  valid_ch (hello_layout a).
Proof.
  intros Hok Hsub Hnd Hpsk. exists a. split; [apply strict_parse_layout; exact Hok|]. split.
  - eapply subseq_NoDup; eassumption.
  - eapply subseq_psk_last; eassumption.
Qed.

(* C02_valid_or_error *)
Lemma valid_or_error bbs padto h es : wf_specb h es = true ->
  match marshal_hello bbs padto h es with Ok raw => valid_ch raw | Err _ => True | Panic _ => False end.
Proof.
  intros Hwf. destruct (marshal_prepare h (map (to_aext padto) es)) as [p|c|c] eqn:Hp.
  - destruct (fits h p) eqn:Hfit.
    + destruct (marshal_hello_ok bbs padto h es p Hwf Hp Hfit) as (present & Hm & Hsub & Hok & _). rewrite Hm.
      destruct (wf_spec_parts h es Hwf) as (_ & _ & _ & _ & _ & _ & _ & Hnd & Hpsk).
      eapply valid_of_layout; [exact Hok | exact Hsub | exact Hnd | exact Hpsk].
    + unfold marshal_hello. rewrite Hp. cbn [bind]. rewrite Hfit. exact I.
  - unfold marshal_hello. rewrite Hp. exact I.
  - exfalso. eapply prepare_no_panic; exact Hp.
Qed.

(* at most one padding extension in a spec whose extension types are pairwise distinct *)
Lemma find_padding_nodup padto es : NoDup (map ext_id es) ->
  forall found, (found = None \/ Forall (fun e => is_padding e = false) es) ->
  exists pe, find_padding (map (to_aext padto) es) found = Ok pe.
Proof.
  induction es as [|e es IH]; intros Hnd found Hf; cbn [map find_padding]; [eauto|].
  inversion Hnd as [|? ? Hn Hnd']; subst.
  destruct (is_padding e) eqn:Hp.
  - destruct e; try discriminate. cbn [to_aext]. destruct Hf as [->|Hf]; [|inversion Hf; discriminate].
    apply IH; [exact Hnd'|]. right. apply Forall_forall. intros e' He'.
    destruct (is_padding e') eqn:Hp'; [|reflexivity]. exfalso. apply Hn.
    destruct e'; try discriminate. cbn [ext_id]. apply in_map_iff. eexists; split; [|exact He']. reflexivity.
  - rewrite (to_aext_nonpad padto e Hp). apply IH; [exact Hnd'|].
    destruct Hf as [->|Hf]; [left; reflexivity | right; inversion Hf; assumption].
Qed.

(* the spec is encodable exactly when the totals fit: then the result is Ok *)
Lemma encodes_when_fits bbs padto h es : wf_specb h es = true -> spec_fitsb padto h es = true ->
  exists raw, marshal_hello bbs padto h es = Ok raw /\ valid_ch raw.
Proof.
  intros Hwf Hfit. unfold spec_fitsb in Hfit.
  destruct (marshal_prepare h (map (to_aext padto) es)) as [p|c|c] eqn:Hp; try discriminate.
  pose proof (valid_or_error bbs padto h es Hwf) as H.
  destruct (marshal_hello_ok bbs padto h es p Hwf Hp Hfit) as (present & Hm & _ & _ & _).
  rewrite Hm in H. eexists; split; [exact Hm | exact H].
Qed.

Lemma prepare_of_wf padto h es : wf_specb h es = true -> exists p, marshal_prepare h (map (to_aext padto) es) = Ok p.
Proof.
  intros Hwf. destruct (wf_spec_parts h es Hwf) as (_ & _ & _ & _ & _ & _ & _ & Hnd & _).
  destruct (find_padding_nodup padto es Hnd None (or_introl eq_refl)) as (pe & Hpe).
  unfold marshal_prepare. rewrite Hpe. cbn [bind]. eauto.
Qed.

(* C02_error_not_garbage: totals beyond the length fields (any spec, any extensions): an error *)
Lemma too_large_is_error bbs padto h es : spec_fitsb padto h es = false ->
  exists c, marshal_hello bbs padto h es = Err c.
Proof.
  unfold spec_fitsb, marshal_hello. destruct (marshal_prepare h (map (to_aext padto) es)) as [p|c|c] eqn:Hp; cbn [bind].
  - intros ->. cbn [negb]. eauto.
  - eauto.
  - exfalso. eapply prepare_no_panic; exact Hp.
Qed.

(* with the check in place the uint24 handshake length cannot overflow either *)
Lemma fits_hello_len padto h es p : marshal_prepare h (map (to_aext padto) es) = Ok p -> fits h p = true ->
  pr_hello_len p < 16777216.
Proof.
  intros Hp Hfit. unfold fits in Hfit. rewrite !andb_true_iff in Hfit. destruct Hfit as [[[F1 F2] F3] F4].
  unfold marshal_prepare in Hp. destruct (find_padding _ None) as [pe| |]; cbn [bind] in Hp; try discriminate.
  inversion Hp; subst p. cbn [pr_hello_len pr_extensions_len] in *. unfold header_length.
  destruct (map (to_aext padto) es); lia.
Qed.

(* an Ok result always has the announced handshake length (any spec) *)
Lemma ok_has_length bbs padto h es raw : marshal_hello bbs padto h es = Ok raw ->
  exists p, marshal_prepare h (map (to_aext padto) es) = Ok p /\ fits h p = true /\ len raw = 4 + pr_hello_len p.
Proof.
  unfold marshal_hello. destruct (marshal_prepare h (map (to_aext padto) es)) as [p|c|c] eqn:Hp; cbn [bind]; try discriminate.
  destruct (fits h p) eqn:Hfit; cbn [negb]; [|discriminate]. intros Hm.
  destruct (marshal_len_any bbs h _ raw Hm) as (p' & Hp' & Hl). rewrite Hp in Hp'. inversion Hp'; subst p'.
  exists p. auto.
Qed.

(* two padding extensions anywhere in the spec: refused *)
Lemma two_paddings_error bbs padto h a l1 w1 p1 b l2 w2 p2 c :
  marshal_hello bbs padto h (a ++ EPadding l1 w1 p1 :: b ++ EPadding l2 w2 p2 :: c) = Err E_MULTI_PADDING.
Proof.
  unfold marshal_hello, marshal_prepare. rewrite map_app. cbn [map]. rewrite map_app. cbn [map to_aext].
  rewrite find_padding_two. reflexivity.
Qed.

(* Lemmas about Model/Randomized.v: stream stepping, Shuffle is a permutation,
   the cipher sort puts non-obsolete suites first, removal loops return
   subsequences, and the shape of every spec generateRandomizedSpec can return. *)
From UV Require Import Base.Common Model.Prng Proofs.PrngP Model.Randomized.
From Coq Require Import QArith ZifyBool ZifyNat ZifyN Lqa Permutation Sorted.
Open Scope N_scope.

(* ---- monad inversion ---- *)
Lemma bindM_Ok {A B} (m : M A) (k : A -> M B) s r :
  bindM m k s = Ok r -> exists a s', m s = Ok (a, s') /\ k a s' = Ok r.
Proof.
  unfold bindM. destruct (m s) as [[a s']|c|c]; try discriminate. intros H. eauto.
Qed.
Lemma ret_Ok {A} (a : A) s r : ret a s = Ok r -> r = (a, s).
Proof. unfold ret. congruence. Qed.
Lemma liftO_Ok {A} (f : stream -> option (A * stream)) s r : liftO f s = Ok r -> f s = Some r.
Proof. unfold liftO. destruct (f s); congruence. Qed.

(* ---- the stream is consumed in whole 8-byte words ---- *)
Definition steps (s r : stream) : Prop := exists h, s = h ++ r /\ (length h mod 8 = 0)%nat.
Lemma steps_refl s : steps s s.
Proof. exists []. split; reflexivity. Qed.
Lemma steps_trans a b c : steps a b -> steps b c -> steps a c.
Proof.
  intros (h1 & -> & H1) (h2 & -> & H2). exists (h1 ++ h2). split; [apply app_assoc|].
  rewrite app_length. rewrite Nat.add_mod, H1, H2 by lia. reflexivity.
Qed.
Lemma uint64_steps s u r : uint64 s = Some (u, r) -> steps s r.
Proof.
  unfold uint64. destruct s as [|b0 [|b1 [|b2 [|b3 [|b4 [|b5 [|b6 [|b7 t]]]]]]]]; try discriminate.
  intros [= <- <-]. exists [b0; b1; b2; b3; b4; b5; b6; b7]. split; reflexivity.
Qed.
Lemma int63_steps s u r : int63 s = Some (u, r) -> steps s r.
Proof. unfold int63. destruct (uint64 s) as [[u0 r0]|] eqn:E; [|discriminate]. intros [= <- <-]. eapply uint64_steps; eauto. Qed.
Local Opaque N.shiftr.
Lemma int31_steps s u r : int31 s = Some (u, r) -> steps s r.
Proof. unfold int31. destruct (int63 s) as [[u0 r0]|] eqn:E; [|discriminate]. intros [= <- <-]. eapply int63_steps; eauto. Qed.
Lemma uint32_steps s u r : uint32 s = Some (u, r) -> steps s r.
Proof. unfold uint32. destruct (int63 s) as [[u0 r0]|] eqn:E; [|discriminate]. intros [= <- <-]. eapply int63_steps; eauto. Qed.
Local Transparent N.shiftr.
Lemma uint32_lt s u r : uint32 s = Some (u, r) -> u < two32.
Proof.
  unfold uint32. destruct (int63 s) as [[u0 r0]|] eqn:E; [|discriminate]. intros H.
  assert (Hu : u = N.shiftr u0 31) by congruence. subst u. clear H.
  apply int63_lt in E. rewrite N.shiftr_div_pow2. apply N.div_lt_upper_bound; [discriminate|].
  unfold two32. change (2 ^ 31 * 4294967296) with 9223372036854775808. exact E.
Qed.

Lemma reject_steps fuel next mx v s v' s' :
  (forall a b c, next a = Some (b, c) -> steps a c) ->
  reject fuel next mx v s = Some (v', s') -> steps s s'.
Proof.
  intros Hn. revert v s. induction fuel as [|k IH]; intros v s; cbn [reject].
  - destruct (v <=? mx); [intros [= <- <-]; apply steps_refl|discriminate].
  - destruct (v <=? mx); [intros [= <- <-]; apply steps_refl|].
    destruct (next s) as [[v1 s1]|] eqn:E; [|discriminate]. intros H.
    eapply steps_trans; [eapply Hn; eauto|eapply IH; eauto].
Qed.
Lemma int31n_steps fuel n s v r : int31n fuel n s = Some (v, r) -> steps s r.
Proof.
  unfold int31n. destruct (N.land n (n - 1) =? 0).
  - destruct (int31 s) as [[v0 r0]|] eqn:E; [|discriminate]. intros [= <- <-]. eapply int31_steps; eauto.
  - destruct (int31 s) as [[v0 r0]|] eqn:E; [|discriminate].
    destruct (reject _ _ _ _ _) as [[v1 r1]|] eqn:R; [|discriminate]. intros [= <- <-].
    eapply steps_trans; [eapply int31_steps; eauto|eapply reject_steps; [|eauto]]. apply int31_steps.
Qed.
Lemma int63n_steps fuel n s v r : int63n fuel n s = Some (v, r) -> steps s r.
Proof.
  unfold int63n. destruct (N.land n (n - 1) =? 0).
  - destruct (int63 s) as [[v0 r0]|] eqn:E; [|discriminate]. intros [= <- <-]. eapply int63_steps; eauto.
  - destruct (int63 s) as [[v0 r0]|] eqn:E; [|discriminate].
    destruct (reject _ _ _ _ _) as [[v1 r1]|] eqn:R; [|discriminate]. intros [= <- <-].
    eapply steps_trans; [eapply int63_steps; eauto|eapply reject_steps; [|eauto]]. apply int63_steps.
Qed.
Lemma intn_steps fuel n s v r : intn fuel n s = Some (v, r) -> steps s r.
Proof.
  unfold intn. destruct (n <=? 0)%Z; [intros [= <- <-]; apply steps_refl|].
  destruct (rand_intn fuel (Z.to_N n) s) as [[v0 r0]|] eqn:E; [|discriminate]. intros [= <- <-].
  unfold rand_intn in E. destruct (Z.to_N n <=? 2147483647); [eapply int31n_steps|eapply int63n_steps]; eauto.
Qed.
Lemma perm_loop_steps fuel todo : forall i m s l r, perm_loop fuel todo i m s = Some (l, r) -> steps s r.
Proof.
  induction todo as [|k IH]; intros i m s l r; cbn [perm_loop].
  - intros [= <- <-]. apply steps_refl.
  - destruct (intn fuel (Z.of_nat (S i)) s) as [[j r0]|] eqn:E; [|discriminate]. intros H.
    eapply steps_trans; [eapply intn_steps; eauto|eapply IH; eauto].
Qed.
Lemma perm_steps fuel n s l r : perm fuel n s = Some (l, r) -> steps s r.
Proof. apply perm_loop_steps. Qed.

Lemma lemire_loop_spec fuel n thresh : forall prod s p r,
  prod < two32 * n -> lemire_loop fuel n thresh prod s = Some (p, r) -> steps s r /\ p < two32 * n.
Proof.
  induction fuel as [|k IH]; intros prod s p r Hp; cbn [lemire_loop].
  - destruct (prod mod two32 <? thresh); [discriminate|]. intros [= <- <-]. split; [apply steps_refl|exact Hp].
  - destruct (prod mod two32 <? thresh).
    + destruct (uint32 s) as [[v r0]|] eqn:E; [|discriminate]. intros H.
      assert (Hv := uint32_lt _ _ _ E).
      destruct (N.eq_dec n 0) as [->|Hn]; [lia|].
      apply IH in H; [|nia]. destruct H as [H1 H2]. split; [|exact H2].
      eapply steps_trans; [eapply uint32_steps; eauto|exact H1].
    + intros [= <- <-]. split; [apply steps_refl|exact Hp].
Qed.
Lemma shiftr32_lt p n : p < two32 * n -> N.shiftr p 32 < n.
Proof.
  intros H. rewrite N.shiftr_div_pow2. change (2 ^ 32) with two32.
  apply N.div_lt_upper_bound; [discriminate|exact H].
Qed.
Local Opaque N.shiftr.
Lemma int31n_l_spec fuel n s v r : 0 < n -> int31n_l fuel n s = Some (v, r) -> steps s r /\ v < n.
Proof.
  intros Hn. unfold int31n_l. destruct (uint32 s) as [[u r0]|] eqn:E; [|discriminate].
  assert (Hu := uint32_lt _ _ _ E). assert (Hp : u * n < two32 * n) by nia.
  destruct (_ <? n).
  - destruct (lemire_loop _ _ _ _ _) as [[p r1]|] eqn:L; [|discriminate]. intros [= <- <-].
    apply lemire_loop_spec in L; [|exact Hp]. destruct L as [L1 L2]. split; [|apply shiftr32_lt; exact L2].
    eapply steps_trans; [eapply uint32_steps; eauto|exact L1].
  - intros [= <- <-]. split; [eapply uint32_steps; eauto|apply shiftr32_lt; exact Hp].
Qed.

Local Transparent N.shiftr.

(* ---- set_nth / nth / swap ---- *)
Lemma set_nth_length {A} i (x : A) l : length (set_nth i x l) = length l.
Proof. revert i; induction l as [|h t IH]; intros [|i]; cbn [set_nth length]; auto. Qed.
Lemma nth_set_nth {A} (d : A) i k x l : (i < length l)%nat ->
  nth k (set_nth i x l) d = if Nat.eqb k i then x else nth k l d.
Proof.
  revert i k; induction l as [|h t IH]; intros i k Hi; cbn [length] in Hi; [lia|].
  destruct i as [|i], k as [|k]; cbn [set_nth nth Nat.eqb]; auto. apply IH. lia.
Qed.
Lemma swap_perm {A} (d : A) i j l : (i < length l)%nat -> (j < length l)%nat -> Permutation l (swap d i j l).
Proof.
  intros Hi Hj. apply (Permutation_nth l (swap d i j l) d). split.
  - unfold swap. rewrite !set_nth_length. reflexivity.
  - exists (fun k => if Nat.eqb k i then j else if Nat.eqb k j then i else k). split; [|split].
    + intros k Hk. destruct (Nat.eqb_spec k i); [lia|]. destruct (Nat.eqb_spec k j); lia.
    + intros a b Ha Hb. destruct (Nat.eqb_spec a i), (Nat.eqb_spec a j), (Nat.eqb_spec b i), (Nat.eqb_spec b j); lia.
    + intros k Hk. unfold swap. rewrite nth_set_nth by (rewrite set_nth_length; lia).
      destruct (Nat.eqb_spec k i) as [->|Hki]; [reflexivity|].
      rewrite nth_set_nth by lia. destruct (Nat.eqb_spec k j) as [->|Hkj]; reflexivity.
Qed.
Lemma swap_length {A} (d : A) i j l : length (swap d i j l) = length l.
Proof. unfold swap. rewrite !set_nth_length. reflexivity. Qed.

Lemma shuffle_loop_spec {A} (d : A) fuel : forall i l s l' r, (i < length l)%nat \/ (i = 0)%nat ->
  shuffle_loop d fuel i l s = Some (l', r) -> steps s r /\ Permutation l l'.
Proof.
  induction i as [|k IH]; intros l s l' r Hi; cbn [shuffle_loop].
  - intros [= <- <-]. split; [apply steps_refl|apply Permutation_refl].
  - destruct (int31n_l fuel (N.of_nat (S (S k))) s) as [[j r0]|] eqn:E; [|discriminate]. intros H.
    apply int31n_l_spec in E; [|lia]. destruct E as [E1 E2].
    apply IH in H; [|rewrite swap_length; lia]. destruct H as [H1 H2]. split.
    + eapply steps_trans; eauto.
    + eapply Permutation_trans; [|exact H2]. apply swap_perm; lia.
Qed.
Lemma shuffle_spec {A} (d : A) fuel l s l' r : shuffle d fuel l s = Some (l', r) -> steps s r /\ Permutation l l'.
Proof. unfold shuffle. apply shuffle_loop_spec. destruct l; cbn [length]; lia. Qed.

(* ---- subsequences ---- *)
Inductive subseq {A} : list A -> list A -> Prop :=
| sub_nil : subseq [] []
| sub_keep x a b : subseq a b -> subseq (x :: a) (x :: b)
| sub_drop x a b : subseq a b -> subseq a (x :: b).
Lemma subseq_refl {A} (l : list A) : subseq l l.
Proof. induction l; constructor; auto. Qed.
Lemma subseq_nil {A} (l : list A) : subseq [] l.
Proof. induction l; constructor; auto. Qed.
Lemma subseq_Forall {A} (P : A -> Prop) a b : subseq a b -> Forall P b -> Forall P a.
Proof. induction 1 as [|x a b Hs IH|x a b Hs IH]; intros HF; auto; inversion HF; subst; auto. Qed.
Lemma subseq_In {A} (a b : list A) x : subseq a b -> In x a -> In x b.
Proof. induction 1 as [|y a b Hs IH|y a b Hs IH]; cbn [In]; intuition. Qed.
Lemma subseq_app_inv {A} (l b c : list A) : subseq l (b ++ c) -> exists l1 l2, l = l1 ++ l2 /\ subseq l1 b /\ subseq l2 c.
Proof.
  revert l. induction b as [|x b IH]; intros l H; cbn [app] in H.
  - exists [], l. repeat split; [constructor|exact H].
  - inversion H as [|y a0 b0 H1|y a0 b0 H1]; subst.
    + destruct (IH _ H1) as (l1 & l2 & -> & S1 & S2). exists (x :: l1), l2. repeat split; [constructor; auto|auto].
    + destruct (IH _ H1) as (l1 & l2 & -> & S1 & S2). exists l1, l2. repeat split; [constructor; auto|auto].
Qed.
Lemma filter_subseq {A} (f : A -> bool) l : subseq (filter f l) l.
Proof. induction l as [|x l IH]; cbn [filter]; [constructor|]. destruct (f x); constructor; auto. Qed.
Lemma subseq_trans {A} (a b c : list A) : subseq a b -> subseq b c -> subseq a c.
Proof.
  intros H1 H2. revert a H1. induction H2; intros a0 H1; auto.
  - inversion H1; subst; constructor; auto.
  - constructor; auto.
Qed.

(* ---- the cipher sort ---- *)
Definition obs_le (a b : scipher) : Prop := sc_obsolete a = true -> sc_obsolete b = true.
Lemma insert_In x l y : In y (insert x l) <-> y = x \/ In y l.
Proof.
  induction l as [|h t IH]; cbn [insert In]; [intuition|].
  destruct (less h x); cbn [In]; rewrite ?IH; intuition.
Qed.
Lemma isort_In l y : In y (isort l) <-> In y l.
Proof. induction l as [|h t IH]; cbn [isort In]; [tauto|]. rewrite insert_In, IH. intuition. Qed.
Lemma insert_sorted x l : StronglySorted obs_le l -> StronglySorted obs_le (insert x l).
Proof.
  induction 1 as [|h t Hs IH Hf]; cbn [insert]; [repeat constructor|].
  destruct (less h x) eqn:L.
  - constructor; [exact IH|]. apply Forall_forall. intros y Hy. apply insert_In in Hy. destruct Hy as [->|Hy].
    + unfold obs_le, less in *. destruct (sc_obsolete h), (sc_obsolete x); cbn in *; congruence.
    + rewrite Forall_forall in Hf. auto.
  - constructor; [constructor; auto|]. constructor.
    + unfold obs_le, less in *. destruct (sc_obsolete h), (sc_obsolete x); cbn in *; congruence.
    + apply Forall_forall. intros y Hy. rewrite Forall_forall in Hf. specialize (Hf y Hy).
      unfold obs_le, less in *. destruct (sc_obsolete h), (sc_obsolete x); cbn in *; try congruence; auto.
Qed.
Lemma isort_sorted l : StronglySorted obs_le (isort l).
Proof. induction l; cbn [isort]; [constructor|apply insert_sorted; auto]. Qed.
Lemma sorted_split l : StronglySorted obs_le l ->
  exists b c, l = b ++ c /\ Forall (fun x => sc_obsolete x = false) b /\ Forall (fun x => sc_obsolete x = true) c.
Proof.
  induction 1 as [|h t Hs IH Hf]; [exists [], []; repeat split; constructor|].
  destruct (sc_obsolete h) eqn:O.
  - exists [], (h :: t). repeat split; [constructor|]. constructor; [exact O|].
    eapply Forall_impl; [|exact Hf]. intros y Hy. apply Hy. exact O.
  - destruct IH as (b & c & -> & Hb & Hc). exists (h :: b), c. repeat split; [constructor; auto|auto].
Qed.

Section WithRnd.
  Variable rnd : Q -> Q.
  Variable fuel : nat.
  Hypothesis rnd_mono : forall x y, (x <= y)%Q -> (rnd x <= rnd y)%Q.
  Hypothesis rnd_0 : (rnd 0 == 0)%Q.
  Hypothesis rnd_1 : (rnd 1 == 1)%Q.
  Hypothesis rnd_two63 : (rnd (inject_Z 9223372036854775808) == inject_Z 9223372036854775808)%Q.
  Hypothesis rnd_ulp : (rnd (1 / inject_Z 9223372036854775808) == 1 / inject_Z 9223372036854775808)%Q.
  Hypothesis rnd_ext : forall x y, (x == y)%Q -> (rnd x == rnd y)%Q.

  (* one coin flip: the 63-bit draw it used *)
  Definition Flip (st : stream) (w : fw) (b : bool) : Prop :=
    exists i r, int63 st = Some (i, r) /\ b = flip_with rnd w i.
  (* a coin flip somewhere down the stream s *)
  Definition FlipIn (s : stream) (w : fw) (b : bool) : Prop := exists st, steps s st /\ Flip st w b.

  Lemma flipM_inv w s b s' : flipM rnd w s = Ok (b, s') -> Flip s w b /\ steps s s'.
  Proof.
    unfold flipM. intros H. apply liftO_Ok in H. destruct (int63 s) as [[i r]|] eqn:E; [|discriminate].
    injection H as <- <-. split; [exists i, r; auto|eapply int63_steps; eauto].
  Qed.

  Definition w_le0 (w : fw) : Prop := match w with WFin q => (q <= 0)%Q | WInf neg => neg = true | WNaN => False end.
  Definition w_ge1 (w : fw) : Prop := match w with WFin q => (1 <= q)%Q | WInf neg => neg = false | WNaN => False end.
  (* no 63-bit draw of the stream is zero (each has probability 2^-63) *)
  Definition nz (s : stream) : Prop := forall st i r, steps s st -> int63 st = Some (i, r) -> i <> 0.

  Lemma Flip_le0 st w b : Flip st w b -> w_le0 w -> b = false.
  Proof.
    intros (i & r & E & ->) Hw. eapply flip_le0; eauto. eapply int63_lt; eauto.
  Qed.
  Lemma FlipIn_le0 s w b : FlipIn s w b -> w_le0 w -> b = false.
  Proof. intros (st & _ & F). eapply Flip_le0; eauto. Qed.
  Lemma FlipIn_ge1 s w b : FlipIn s w b -> w_ge1 w -> nz s -> b = true.
  Proof.
    intros (st & Hs & i & r & E & ->) Hw Hz. rewrite (flip_ge1 rnd rnd_mono rnd_0 rnd_1 rnd_ulp rnd_ext) by exact Hw.
    specialize (Hz st i r Hs E). destruct (N.eqb_spec i 0); [contradiction|reflexivity].
  Qed.
  Lemma FlipIn_steps s s' w b : steps s s' -> FlipIn s' w b -> FlipIn s w b.
  Proof. intros H (st & H1 & F). exists st. split; [eapply steps_trans; eauto|exact F]. Qed.
  Lemma Flip_FlipIn s w b : Flip s w b -> FlipIn s w b.
  Proof. intros F. exists s. split; [apply steps_refl|exact F]. Qed.

  (* ---- removeRandomCiphers ---- *)
  Lemma ovf_le0 q : (q <= 0)%Q -> w_le0 (ovf q).
  Proof.
    intros H. unfold ovf. destruct (Qlt_le_dec q two1024) as [H1|H1].
    - destruct (Qlt_le_dec (- two1024) q); cbn [w_le0]; auto.
    - exfalso. assert (0 < two1024)%Q by reflexivity. lra.
  Qed.
  Lemma removal_weight_le0 w (i : N) flen : w_le0 w -> (0 < flen)%Q ->
    w_le0 (fdiv_pos rnd (fmul_pos rnd w (inject_Z (Z.of_N i))) flen).
  Proof.
    intros Hw Hl. destruct w as [|neg|q]; cbn [w_le0 fmul_pos fdiv_pos] in *; auto.
    assert (Hi : (0 <= inject_Z (Z.of_N i))%Q) by (change 0%Q with (inject_Z 0); rewrite <- Zle_Qle; lia).
    assert (Hp : (rnd (q * inject_Z (Z.of_N i)) <= 0)%Q).
    { rewrite <- rnd_0. apply rnd_mono. nra. }
    pose proof (ovf_le0 _ Hp) as Ho. destruct (ovf _) as [|neg|q']; cbn [w_le0 fdiv_pos] in *; auto.
    rewrite <- rnd_0. apply rnd_mono. apply Qle_shift_div_r; [exact Hl|]. lra.
  Qed.

  Lemma rm_loop_spec w flen : forall rest i s out s',
    rm_loop rnd w flen i rest s = Ok (out, s') ->
    steps s s' /\ subseq out rest /\ (w_le0 w -> (0 < flen)%Q -> out = rest).
  Proof.
    induction rest as [|x t IH]; intros i s out s'; cbn [rm_loop].
    - intros H. apply ret_Ok in H. injection H as -> ->. repeat split; [apply steps_refl|constructor].
    - intros H. apply bindM_Ok in H. destruct H as (b & s1 & F & H). apply flipM_inv in F. destruct F as [F S1].
      destruct b.
      + apply IH in H. destruct H as (S2 & Sub & _). repeat split; [eapply steps_trans; eauto|constructor; auto|].
        intros Hw Hl. exfalso. assert (Hf : true = false); [|discriminate Hf].
        apply (Flip_le0 _ _ _ F). apply removal_weight_le0; auto.
      + apply bindM_Ok in H. destruct H as (r & s2 & R & H). apply ret_Ok in H. injection H as -> ->.
        apply IH in R. destruct R as (S2 & Sub & Eq). repeat split; [eapply steps_trans; eauto|constructor; auto|].
        intros Hw Hl. f_equal. auto.
  Qed.

  Lemma removeRandomCiphers_spec s0 w s out s' :
    removeRandomCiphers rnd s0 w s = Ok (out, s') ->
    steps s s' /\ subseq out s0 /\ (w_le0 w -> out = s0) /\
    (match s0 with x :: _ => exists t, out = x :: t | [] => out = [] end).
  Proof.
    unfold removeRandomCiphers. destruct s0 as [|x [|y t]].
    - intros H. apply ret_Ok in H. injection H as -> ->. repeat split; [apply steps_refl|constructor].
    - intros H. apply ret_Ok in H. injection H as -> ->. repeat split; [apply steps_refl|apply subseq_refl|eauto].
    - intros H. apply bindM_Ok in H. destruct H as (r & s1 & R & H). apply ret_Ok in H. injection H as -> ->.
      apply rm_loop_spec in R. destruct R as (S1 & Sub & Eq). repeat split; [exact S1|constructor; exact Sub| |eauto].
      intros Hw. f_equal. apply Eq; [exact Hw|]. cbn [length]. change 0%Q with (inject_Z 0). rewrite <- Zlt_Qlt. lia.
  Qed.

  (* ---- shuffledCiphers ---- *)
  Definition row_in (tb : table) (t12 : bool) (c : N) : Prop := In {| sr_id := c; sr_tls12 := t12 |} (t_suites tb).
  Lemma shuffledCiphers_spec tb s out s' : shuffledCiphers fuel tb s = Ok (out, s') ->
    steps s s' /\ exists b c, out = b ++ c /\ Forall (row_in tb true) b /\ Forall (row_in tb false) c.
  Proof.
    unfold shuffledCiphers. intros H. apply bindM_Ok in H. destruct H as (pm & s1 & P & H).
    apply ret_Ok in H. injection H as -> ->. unfold permM in P. apply liftO_Ok in P. split; [eapply perm_steps; eauto|].
    set (cs := map _ (combine (t_suites tb) pm)).
    destruct (sorted_split _ (isort_sorted cs)) as (b & c & E & Hb & Hc).
    assert (Hin : forall x, In x (isort cs) -> row_in tb (negb (sc_obsolete x)) (sc_suite x)).
    { intros x Hx. apply (proj1 (isort_In _ _)) in Hx. subst cs. apply in_map_iff in Hx. destruct Hx as ([row tag] & <- & Hx).
      apply in_combine_l in Hx. cbn [sc_obsolete sc_suite]. rewrite negb_involutive. unfold row_in. destruct row; exact Hx. }
    exists (map sc_suite b), (map sc_suite c). rewrite E, map_app. split; [reflexivity|].
    rewrite E in Hin. split; apply Forall_forall; intros y Hy; apply in_map_iff in Hy; destruct Hy as (x & <- & Hx).
    - rewrite Forall_forall in Hb. specialize (Hin x (in_or_app _ _ _ (or_introl Hx))). rewrite (Hb x Hx) in Hin. exact Hin.
    - rewrite Forall_forall in Hc. specialize (Hin x (in_or_app _ _ _ (or_intror Hx))). rewrite (Hc x Hx) in Hin. exact Hin.
  Qed.
End WithRnd.

(* ---- M-level inversion facts used by the inversion tactic ---- *)
Lemma rm_loop_struct rnd w flen : forall rest i s out s',
  rm_loop rnd w flen i rest s = Ok (out, s') -> steps s s' /\ subseq out rest.
Proof.
  induction rest as [|x t IH]; intros i s out s'; cbn [rm_loop].
  - intros H. apply ret_Ok in H. injection H as -> ->. split; [apply steps_refl|constructor].
  - intros H. apply bindM_Ok in H. destruct H as (b & s1 & F & H). apply flipM_inv in F. destruct F as [F S1].
    destruct b.
    + apply IH in H. destruct H as (S2 & Sub). split; [eapply steps_trans; eauto|constructor; auto].
    + apply bindM_Ok in H. destruct H as (r & s2 & R & H). apply ret_Ok in H. injection H as -> ->.
      apply IH in R. destruct R as (S2 & Sub). split; [eapply steps_trans; eauto|constructor; auto].
Qed.
Lemma removeRandomCiphers_struct rnd s0 w s out s' :
  removeRandomCiphers rnd s0 w s = Ok (out, s') ->
  steps s s' /\ subseq out s0 /\ (match s0 with x :: _ => exists t, out = x :: t | [] => out = [] end).
Proof.
  unfold removeRandomCiphers. destruct s0 as [|x [|y t]].
  - intros H. apply ret_Ok in H. injection H as -> ->. repeat split; [apply steps_refl|constructor].
  - intros H. apply ret_Ok in H. injection H as -> ->. repeat split; [apply steps_refl|apply subseq_refl|eauto].
  - intros H. apply bindM_Ok in H. destruct H as (r & s1 & R & H). apply ret_Ok in H. injection H as -> ->.
    apply rm_loop_struct in R. destruct R as (S1 & Sub). repeat split; [exact S1|constructor; exact Sub|eauto].
Qed.
Lemma nz_steps s r : nz s -> steps s r -> nz r.
Proof. intros Hz Hs st i r0 H1 H2. eapply Hz; [eapply steps_trans; eauto|eauto]. Qed.
Lemma intnM_inv fuel n s k s' : intnM fuel n s = Ok (k, s') -> steps s s' /\ ((0 < n)%Z -> (0 <= k < n)%Z).
Proof.
  unfold intnM. intros H. apply liftO_Ok in H. split; [eapply intn_steps; eauto|]. apply intn_spec in H. tauto.
Qed.
Lemma shuffleM_inv {A} fuel (d : A) l s l' s' : shuffleM fuel d l s = Ok (l', s') -> steps s s' /\ Permutation l l'.
Proof. unfold shuffleM. intros H. apply liftO_Ok in H. eapply shuffle_spec; eauto. Qed.

Definition ieee_laws (rnd : Q -> Q) : Prop :=
  (forall x y, (x <= y)%Q -> (rnd x <= rnd y)%Q) /\ (rnd 0 == 0)%Q /\ (rnd 1 == 1)%Q /\
  (rnd (inject_Z 9223372036854775808) == inject_Z 9223372036854775808)%Q /\
  (rnd (1 / inject_Z 9223372036854775808) == 1 / inject_Z 9223372036854775808)%Q /\
  (forall x y, (x == y)%Q -> (rnd x == rnd y)%Q).

Lemma Flip_false rnd st w b : ieee_laws rnd -> Flip rnd st w b -> w_le0 w -> b = false.
Proof. intros (A & B & C & D & E & F). eapply Flip_le0; eauto. Qed.
Lemma Flip_true rnd st w b : ieee_laws rnd -> Flip rnd st w b -> w_ge1 w -> nz st -> b = true.
Proof.
  intros (A & B & C & D & E & F) Hf Hw Hz. eapply (FlipIn_ge1 rnd A B C E F st); eauto. apply Flip_FlipIn. exact Hf.
Qed.

(* In / opt *)
Lemma in_opt {A} (b : bool) (x y : A) : In y (opt b x) <-> b = true /\ y = x.
Proof. destruct b; cbn [opt In]; intuition congruence. Qed.

(* Full inversion of a successful run of [generate]: every bind is opened, every branch
   split, and each primitive replaced by its specification (Flip / steps / Permutation /
   subseq facts); [nz] is propagated down the stream when it is known at the start. *)
Ltac use_steps Hs :=
  match type of Hs with
  | steps ?a ?b => try match goal with Hz : nz a |- _ => let Z := fresh "NZ" in pose proof (nz_steps _ _ Hz Hs) as Z end
  end.
Ltac spec_of Hm :=
  match type of Hm with
  | flipM _ _ _ = Ok _ => apply flipM_inv in Hm; let F := fresh "F" in let S := fresh "S" in destruct Hm as [F S]; use_steps S
  | intnM _ _ _ = Ok _ => apply intnM_inv in Hm; let F := fresh "K" in let S := fresh "S" in destruct Hm as [S F]; use_steps S
  | shuffleM _ _ _ _ = Ok _ => apply shuffleM_inv in Hm; let F := fresh "P" in let S := fresh "S" in destruct Hm as [S F]; use_steps S
  | shuffledCiphers _ _ _ = Ok _ => apply shuffledCiphers_spec in Hm; let F := fresh "SC" in let S := fresh "S" in destruct Hm as [S F]; use_steps S
  | removeRandomCiphers _ _ _ _ = Ok _ =>
      let F := fresh "RM" in let S := fresh "S" in
      pose proof (removeRandomCiphers_struct _ _ _ _ _ _ Hm) as [S F]; use_steps S
  | ret _ _ = Ok _ => apply ret_Ok in Hm; inversion Hm; subst; clear Hm
  | _ => idtac
  end.
Ltac inv_step H :=
  lazymatch type of H with
  | bindM _ _ _ = Ok _ =>
      let a := fresh "a" in let s := fresh "s" in let Hm := fresh "Hm" in
      apply bindM_Ok in H; destruct H as (a & s & Hm & H); cbv beta in H
  | ret _ _ = Ok _ => fail
  | (let '(_, _) := ?x in _) _ = Ok _ => destruct x
  | (if ?b then _ else _) _ = Ok _ => destruct b eqn:?
  | match flipM ?r ?w ?st with _ => _ end = Ok _ =>
      let a := fresh "alps" in let sx := fresh "sx" in let Ha := fresh "Ha" in
      destruct (flipM r w st) as [[a sx]|?|?] eqn:Ha; [|discriminate H|discriminate H]
  end.

Ltac simp_ver H :=
  cbv beta iota in H;
  try change (VersionTLS13 =? VersionTLS13) with true in H;
  try change (VersionTLS12 =? VersionTLS13) with false in H.
Ltac inv_loop H :=
  simp_ver H;
  lazymatch type of H with
  | bindM _ _ _ = Ok _ =>
      let a := fresh "a" in let s := fresh "s" in let Hm := fresh "Hm" in
      apply bindM_Ok in H; destruct H as (a & s & Hm & H);
      inv_loop Hm; inv_loop H
  | ret _ _ = Ok _ => apply ret_Ok in H; inversion H; subst; clear H
  | (if ?b || true then _ else _) _ = Ok _ => rewrite orb_true_r in H; inv_loop H
  | (if ?b || false then _ else _) _ = Ok _ => rewrite orb_false_r in H; inv_loop H
  | (if ?b then _ else _) _ = Ok _ => destruct b eqn:?; inv_loop H
  | match flipM ?r ?w ?st with _ => _ end = Ok _ =>
      let a := fresh "alps" in let sx := fresh "sx" in let Ha := fresh "Ha" in
      destruct (flipM r w st) as [[a sx]|?|?] eqn:Ha; [|discriminate H|discriminate H];
      apply flipM_inv in Ha; destruct Ha as [Ha _]; inversion H; subst; clear H
  | _ => spec_of H
  end.
(* H : generate ... = Ok p *)
Ltac gen_inv H :=
  unfold generate in H;
  match type of H with
  | match ?v with _ => _ end = Ok _ => destruct v; [| | |discriminate H]
  end;
  match type of H with
  | match ?body ?s with _ => _ end = Ok _ =>
      let p0 := fresh "p" in let s' := fresh "s" in let HB := fresh "HB" in
      destruct (body s) as [[p0 s']|?|?] eqn:HB; [|discriminate H|discriminate H];
      injection H as <-; inv_loop HB
  end.
Lemma perm_in {A} (a b : list A) x : Permutation a b -> (In x b <-> In x a).
Proof. intros P. split; apply Permutation_in; [apply Permutation_sym|]; exact P. Qed.
Definition witness_keyshare : stream := [213;146;212;249;228;76;61;60;247;120;59;140;162;208;18;85;124;208;212;64;158;35;239;175;69;24;166;232;36;44;179;233;51;72;183;214;24;135;54;11;184;149;98;173;229;204;116;80;229;56;93;211;185;136;216;144;184;139;170;184;66;118;131;119;194;8;181;83;217;204;52;247;235;85;110;106;31;225;78;213;229;221;129;67;140;30;156;189;1;31;16;91;74;212;233;57;129;208;232;156;225;197;135;78;108;26;225;4;58;196;60;23;228;236;90;209;8;187;113;45;178;55;44;244;227;80;189;86;41;71;89;215;239;113;220;152;156;101;134;89;128;9;35;202;98;135;21;51;14;29;203;34;249;75;133;58;95;121;99;138;173;29;75;248;111;210;59;84;9;134;246;84;77;176;78;151;106;9;122;25;164;121;52;201;82;204;137;229;110;28;11;42;51;111;75;54;212;118;85;242;177;103;44;183;34;168;50;205;173;94;13;202;83;8;81;151;212;86;214;38;24;216;110;4;221;157;44;130;211;13;189;1;19;167;252;80;27;78;9;244;186;196;65;170;113;144;150;46;159;106;77;151;126;53;73;52;138;179;252;134;105;25;54;177;243;226;30;26;94;87;225;35;61;21;191;92;69;75;183;222;173;228;29;125;169;221;13;208;5;22;217;143;153;71;165;218;156;82;162;245;70;212;125;102;66;147;157;183;246;248;140;122;34;171;27;27;46;153;111;31;1;42;96;231;145;20;97;180;82;220;249;72;79;36;177;179;62;121;219;168;151;172;116;23;179;168;154;168;156;76;223;207;58;15;221;20;190;33;250;191;68;144;80;186;181;40;81;84;124;95;245;167;247;208;199;201;158;197;104;112;115;9;96;0;0;220;96;51;185;32;219;171;62;141;66;185;114;253;48;80;180;115;138;47;184;184;182;1;193;152;83;250;122;177;53;242;213;134;220;1;237;101;94;124;128;182;37;4;100;204;143;89;133;225;33;37;220;103;69;149;221;98;214;141;32;82;21;162;73;230;219;108;118;28;37;18;20;99;134;47;27;68;59;232;253;128;191;210;50;179;17;50;143;129;51;87;33;102;194;201;240;222;127;154;184;44;237;116;189;10;81;230;79;73;173;226;141;82;95;15;48;164;187;195;80;162;230;121;80;180;248;33;72;88;251;93;70;32;192;57;160;221;123;157;202;155;156;200;41;196;25;43;231;93;227;123;215;70;163;131;106;74;35;230;240;239;97;246;197;205;136;168;77;254;111;177;105;237;225;201;113;33;170;100;53;94;32;109;64;205;79;134;230;210;136;7;170;98;131;66;85;9;103;185;122;166;80;203;44;75;100;222;129;245;74;6;127;217;10;238;71;105;62;81;201;150;99;185;61;104;38;92;228;231;161;136;184;140;90;207;190;7;137;136;195;155;74;207;248;109;139;81;115;207;100;88;100;156;197;196;190;38;13;82;137;119;169;68;66;14;77;51;59;199;203;164;170;84;221;82;32;135;160;107;94;191;255;56;255;200;249;171;196;127;106;150;88;140;43;252;147;49;238;6;232;130;132;235;68;73;235;225;193;2;249;225;154;87;229;126;58;139;220;110].
Definition witness_hybrid : stream := [108;25;22;18;247;191;42;149;141;250;150;199;13;55;0;86;210;84;91;111;148;41;64;49;248;199;245;149;219;94;183;236;18;231;70;204;126;190;78;201;152;11;3;211;73;65;1;219;149;44;101;245;25;80;133;251;78;41;19;185;194;54;58;22;103;71;92;184;218;44;214;100;212;249;41;14;170;121;98;97;243;153;76;17;160;134;66;35;236;230;184;133;167;210;13;64;147;2;185;120;2;109;52;165;134;2;51;247;94;98;118;210;254;99;25;76;248;64;42;12;14;29;73;37;74;211;113;191;173;151;161;16;169;125;50;128;44;126;55;230;75;56;197;184;159;84;8;174;236;96;221;246;46;55;63;229;40;227;212;171;5;34;97;14;95;155;231;147;77;178;48;177;48;36;95;114;218;170;14;68;72;102;20;29;23;25;117;19;181;190;54;200;126;240;244;23;242;97;210;102;158;189;173;148;152;250;55;154;186;248;120;85;118;28;238;74;144;220;204;12;160;197;101;191;111;109;246;179;121;39;20;77;221;224;87;231;180;76;44;33;103;79;6;55;118;67;148;0;21;35;130;186;143;15;237;59;160;95;40;81;4;170;22;233;129;208;254;26;66;178;22;3;91;78;74;239;1;138;75;93;46;131;211;132;42;144;161;136;11;241;213;38;81;201;52;202;31;63;206;207;186;175;138;41;80;40;1;143;81;8;56;97;112;97;125;239;95;36;218;26;254;36;131;44;201;44;140;3;136;134;28;196;4;24;12;208;14;204;244;202;65;93;102;78;121;48;132;221;178;125;166;194;254;59;252;65;37;252;48;121;3;48;232;178;79;135;22;155;155;74;53;88;98;99;131;129;7;117;32;132;215;68;36;32;250;203;153;181;57;116;234;41;193;135;98;210;107;68;201;150;185;222;67;101;41;194;115;87;224;78;113;216;158;206;223;26;178;200;214;110;30;197;209;169;73;148;118;55;112;104;128;63;226;167;125;205;129;3;102;133;166;111;244;239;24;230;19;51;124;190;234;175;179;236;195;186;151;45;187;152;226;31;17;13;47;56;176;153;209;100;175;102;97;222;30;254;25;45;197;123;47;146;189;161;173;17;26;147;54;17;161;37;119;185;143;82;245;121;1;212;64;203;246;176;36;163;191;164;94;144;31;109;180;22;117;187;15;138;118;223;34;125;55;159;221;153;64;6;197;101;35;28;124;13;159;50;11;156;206;88;91;32;234;177;234;92;80;100;78;252;163;176;78;77;240;53;44;127;58;121;34;64;231;228;139;103;85;66;123;100;214;68;227;156;38;251;47;45;23;91;167;116;49;41;27;107;140;82;25;68;54;251;50;139;217;227;237;98;237;131;132;95;57;162;168;242;179;40;74;12;44;57;129;6;53;59;101;39;48;144;181;196;61;176;251;58;157;164;214;154;163;220;218;151;201;114;215;48;193;153;160;220;146;62;19;86;42;94;137;4;247;177;217;93;20;103;121;252;76;204;89;168;30;193;121;3;106;32;214;179;118;213;101;23;20;95;138;211;25;211;85;102;15;139;130;12;248;117;30;159;2;212;109;49;243;95;55;240;189;221;16;61;18;133].

(* ---- the property lemmas (restated in Props/C09.v) ---- *)
Lemma generate_deterministic rnd fuel tb v w sn np s salted p q :
  generate rnd fuel tb v w sn np s salted = p -> generate rnd fuel tb v w sn np s salted = q -> p = q.
Proof. congruence. Qed.

Ltac find_in :=
  lazymatch goal with
  | |- In _ (_ ++ _) => apply in_or_app; first [left; find_in | right; find_in]
  | |- In _ (opt true _) => left; reflexivity
  | |- In _ (_ :: _) => first [left; reflexivity | right; find_in]
  end.
Ltac split_or H :=
  repeat match type of H with
  | _ \/ _ => destruct H as [H|H]
  end.
(* rewrite membership in the shuffled extension list into membership in the list before the shuffle *)
Ltac to_base H :=
  cbn [sp_exts] in H;
  match goal with P : Permutation (ESNI _ :: _) ?a |- _ =>
    match type of H with In _ a => apply (proj1 (perm_in _ _ _ P)) in H end end;
  cbn [In] in H; rewrite ?in_app_iff in H; cbn [In] in H; rewrite ?in_app_iff in H; rewrite ?in_opt in H.
Ltac goal_base :=
  cbn [sp_exts];
  match goal with P : Permutation (ESNI _ :: _) ?a |- In _ ?a => apply (proj2 (perm_in _ _ _ P)) end.
Ltac kill H := split_or H; try discriminate H; try (exfalso; exact H); try (destruct H as [_ H]; discriminate H).

Lemma alps_needs_alpn rnd fuel tb v w sn np s salted p q :
  generate rnd fuel tb v w sn np s salted = Ok p -> In (EALPS q) (sp_exts p) ->
  (exists q', In (EALPN q') (sp_exts p)) /\ sp_max p = VersionTLS13.
Proof.
  intros H Hin. gen_inv H; to_base Hin; kill Hin;
    (split; [eexists; goal_base; find_in|reflexivity]).
Qed.

Ltac norm_b := rewrite ?orb_true_r, ?orb_false_r, ?andb_true_r, ?andb_false_r in *.
Ltac sig_base :=
  match goal with P : Permutation (ECDSAWithP256AndSHA256 :: _) ?l |- In _ ?l => eapply Permutation_in; [exact P|] end.

Lemma first_suite_kept rnd s0 w s out s' x t :
  removeRandomCiphers rnd s0 w s = Ok (out, s') -> s0 = x :: t -> exists t', out = x :: t'.
Proof. intros H ->. apply removeRandomCiphers_struct in H. destruct H as (_ & _ & H). exact H. Qed.

Lemma weight0_no_removal rnd : ieee_laws rnd -> forall s0 w s out s',
  removeRandomCiphers rnd s0 w s = Ok (out, s') -> w_le0 w -> out = s0.
Proof.
  intros (A & B & C & D & E & F) s0 w s out s' H Hw.
  apply (removeRandomCiphers_spec rnd A B C D F) in H. destruct H as (_ & _ & H & _). auto.
Qed.

Lemma removeRC4_norc4 l : Forall (fun c => is_rc4 c = false) (removeRC4Ciphers l).
Proof.
  unfold removeRC4Ciphers. apply Forall_forall. intros c Hc. apply filter_In in Hc. destruct Hc as [_ Hc].
  destruct (is_rc4 c); [discriminate|reflexivity].
Qed.

Lemma suite_order rnd fuel tb v w sn np s salted p :
  generate rnd fuel tb v w sn np s salted = Ok p ->
  exists a b c, sp_ciphers p = a ++ b ++ c /\
    Forall (fun x => In x (t_tls13 tb)) a /\ Forall (row_in tb true) b /\ Forall (row_in tb false) c /\
    (sp_max p <> VersionTLS13 -> a = []).
Proof.
  intros H. gen_inv H; cbn [sp_ciphers sp_max];
  match goal with SC : exists b c, _ |- _ => destruct SC as (b & c & -> & Hb & Hc) end;
  match goal with RM : subseq _ _ /\ _ |- _ => destruct RM as [RM _] end.
  all: try (match goal with P : Permutation (t_tls13 _) ?a4 |- _ =>
        unfold removeRC4Ciphers in RM;
        assert (Sub := subseq_trans _ _ _ RM (filter_subseq _ _));
        apply subseq_app_inv in Sub; destruct Sub as (l1 & l23 & -> & Q1 & Q23);
        apply subseq_app_inv in Q23; destruct Q23 as (l2 & l3 & -> & Q2 & Q3);
        exists l1, l2, l3; split; [reflexivity|]; repeat split;
        [ eapply subseq_Forall; [exact Q1|]; apply Forall_forall; intros x Hx; eapply Permutation_in; [apply Permutation_sym; exact P|exact Hx]
        | eapply subseq_Forall; eauto | eapply subseq_Forall; eauto | intros Hne; exfalso; apply Hne; reflexivity ] end).
  all: apply subseq_app_inv in RM; destruct RM as (l2 & l3 & -> & Q2 & Q3);
       exists [], l2, l3; split; [reflexivity|]; repeat split;
       [constructor|eapply subseq_Forall; eauto|eapply subseq_Forall; eauto].
Qed.

Lemma tls13_rules rnd fuel tb v w sn np s salted p :
  generate rnd fuel tb v w sn np s salted = Ok p -> sp_max p = VersionTLS13 ->
  Forall (fun c => is_rc4 c = false) (sp_ciphers p) /\
  (exists algs, In (ESigAlgs algs) (sp_exts p) /\ In PSSWithSHA256 algs) /\
  In EPadding (sp_exts p) /\
  (sp_min p = VersionTLS10 \/ sp_min p = VersionTLS12) /\
  In (ESupportedVersions (makeSupportedVersions (sp_min p) (sp_max p))) (sp_exts p) /\
  (exists ks, In (EKeyShare ks) (sp_exts p)).
Proof.
  intros H Hmax. gen_inv H; cbn [sp_max] in Hmax; try discriminate Hmax; norm_b; cbn [sp_ciphers sp_min sp_max];
  match goal with RM : subseq _ _ /\ _ |- _ => destruct RM as [RM _] end;
  match goal with K : (0 < 2)%Z -> _ |- _ => specialize (K eq_refl) end.
  all: split; [eapply subseq_Forall; [exact RM|apply removeRC4_norc4]|].
  all: split; [eexists; split; [goal_base; find_in|sig_base; find_in]|].
  all: split; [goal_base; find_in|].
  all: split; [match goal with K : (0 <= ?k < 2)%Z |- _ => assert (Hk : k = 0%Z \/ k = 1%Z) by lia; destruct Hk as [-> | ->]; cbn; auto end|].
  all: split; [goal_base; find_in|eexists; goal_base; find_in].
Qed.

(* ---- F-09: key shares vs supported_groups ---- *)
Definition default_weights : weights :=
  Build_weights (fw_of_bits 4604480259023595110) (fw_of_bits 4600877379321698714) (fw_of_bits 4600877379321698714)
    (fw_of_bits 4603849755075763241) (fw_of_bits 4603489467105573601) (fw_of_bits 4602768891165194322)
    (fw_of_bits 4606281698874543309) (fw_of_bits 4604570331016142520) (fw_of_bits 4601958243232267633)
    (fw_of_bits 4603759683083215831) (fw_of_bits 4604840546993784750) (fw_of_bits 4601958243232267633)
    (fw_of_bits 4604930618986332160) (fw_of_bits 4605110762971426980) (fw_of_bits 0)
    (fw_of_bits 4602678819172646912) (fw_of_bits 4599616371426034975).
Definition witness_salted : stream := [1; 2; 3; 4; 5; 6; 7; 8].
Ltac pick_in := repeat (first [left; reflexivity | right]).

Lemma keyshare_in_groups_refuted :
  ~ (forall rnd fuel tb v w sn np s salted p, generate rnd fuel tb v w sn np s salted = Ok p ->
     forall ks gs, In (EKeyShare ks) (sp_exts p) -> In (ECurves gs) (sp_exts p) -> incl ks gs).
Proof.
  intros F. specialize (F rne 16%nat utls_table VALPN default_weights [] [] witness_keyshare witness_salted).
  remember (generate rne 16 utls_table VALPN default_weights [] [] witness_keyshare witness_salted) as r eqn:E.
  vm_compute in E. subst r. specialize (F _ eq_refl [4588; 29; 23] [29; 23; 24]).
  assert (H : incl [4588; 29; 23] [29; 23; 24]) by (apply F; cbn; pick_in).
  specialize (H 4588 (or_introl eq_refl)). cbn in H. destruct H as [H|[H|[H|[]]]]; discriminate H.
Qed.

Lemma hybrid_has_share_refuted :
  ~ (forall rnd fuel tb v w sn np s salted p, generate rnd fuel tb v w sn np s salted = Ok p ->
     forall ks gs, In (EKeyShare ks) (sp_exts p) -> In (ECurves gs) (sp_exts p) ->
     In X25519MLKEM768 gs -> In X25519MLKEM768 ks).
Proof.
  intros F. specialize (F rne 16%nat utls_table VNoALPN default_weights [] [] witness_hybrid witness_salted).
  remember (generate rne 16 utls_table VNoALPN default_weights [] [] witness_hybrid witness_salted) as r eqn:E.
  vm_compute in E. subst r. specialize (F _ eq_refl [29; 23] [4588; 29; 23; 24; 25]).
  assert (H : In X25519MLKEM768 [29; 23]) by (apply F; cbn; pick_in).
  cbn in H. destruct H as [H|[H|[]]]; discriminate H.
Qed.

Ltac use_le0 L :=
  repeat match goal with
  | F : Flip _ _ ?w0 ?b, Hw : w_le0 ?w0 |- _ =>
      let E := fresh "E" in pose proof (Flip_false _ _ _ _ L F Hw) as E; clear F;
      first [discriminate E | subst b | clear E]
  end.
Ltac use_ge1 L :=
  repeat match goal with
  | F : Flip _ ?st ?w0 ?b, Hw : w_ge1 ?w0, Z : nz ?st |- _ =>
      let E := fresh "E" in pose proof (Flip_true _ _ _ _ L F Hw Z) as E; clear F;
      first [discriminate E | subst b | clear E]
  end.
(* resolve H : In (EKeyShare ks) base / In (ECurves gs) base to the explicit list *)
Ltac resolve_ext H :=
  to_base H; split_or H;
  first [ discriminate H | (exfalso; exact H) | (destruct H as [_ H]; discriminate H)
        | (let E := fresh "E" in injection H; intros E; clear H; subst) ].
Ltac n_eq := cbv; intros Hq; discriminate Hq.

Lemma keyshare_classical rnd fuel tb v w sn np s salted p ks gs :
  generate rnd fuel tb v w sn np s salted = Ok p ->
  In (EKeyShare ks) (sp_exts p) -> In (ECurves gs) (sp_exts p) ->
  forall g, In g ks -> g <> X25519MLKEM768 -> In g gs.
Proof.
  intros H Hk Hg g Hin Hne. revert Hk Hg Hin. gen_inv H; norm_b; intros Hk Hg Hin; resolve_ext Hk; resolve_ext Hg;
  rewrite ?in_app_iff in Hin; cbn [In] in Hin; rewrite ?in_opt in Hin; split_or Hin;
  try (exfalso; exact Hin); try (destruct Hin as [_ Hin]); try (subst g); try (exfalso; apply Hne; reflexivity); find_in.
Qed.

Lemma keyshare_in_groups_cond rnd (L : ieee_laws rnd) fuel tb v w sn np s salted p ks gs :
  generate rnd fuel tb v w sn np s salted = Ok p ->
  In (EKeyShare ks) (sp_exts p) -> In (ECurves gs) (sp_exts p) ->
  (w_le0 (w_ks_random w) \/ (nz s /\ (w_ge1 (w_x25519 w) \/ w_ge1 (w_ks_p256 w)))) -> incl ks gs.
Proof.
  intros H Hk Hg Hc g Hin.
  destruct (N.eq_dec g X25519MLKEM768) as [->|Hne]; [|eapply keyshare_classical; eauto].
  revert Hk Hg Hin. destruct Hc as [Hw | [Hz [Hw | Hw]]]; gen_inv H; norm_b; intros Hk Hg Hin; resolve_ext Hk; resolve_ext Hg;
  use_le0 L; use_ge1 L;
  rewrite ?in_app_iff in Hin; cbn [In opt] in Hin; rewrite ?in_opt in Hin; split_or Hin;
  try (exfalso; exact Hin); try (cbv in Hin; discriminate Hin); try (destruct Hin as [_ Hin]; cbv in Hin; discriminate Hin);
  find_in.
Qed.

Lemma keyshare_in_groups_holds_if rnd : ieee_laws rnd -> forall fuel tb v w sn np s salted p,
  generate rnd fuel tb v w sn np s salted = Ok p ->
  forall ks gs, In (EKeyShare ks) (sp_exts p) -> In (ECurves gs) (sp_exts p) ->
  (forall g, In g ks -> g <> X25519MLKEM768 -> In g gs) /\
  (w_le0 (w_ks_random w) \/ (nz s /\ (w_ge1 (w_x25519 w) \/ w_ge1 (w_ks_p256 w))) -> incl ks gs).
Proof.
  intros L fuel tb v w sn np s salted p H ks gs Hk Hg. split.
  - eapply keyshare_classical; eauto.
  - eapply keyshare_in_groups_cond; eauto.
Qed.

Lemma hybrid_has_share_holds_if rnd : ieee_laws rnd -> forall fuel tb v w sn np s salted p,
  generate rnd fuel tb v w sn np s salted = Ok p ->
  forall ks gs, In (EKeyShare ks) (sp_exts p) -> In (ECurves gs) (sp_exts p) ->
  (w_le0 (w_x25519 w) \/ (nz s /\ w_ge1 (w_ks_random w) /\ w_le0 (w_ks_p256 w))) ->
  In X25519MLKEM768 gs -> In X25519MLKEM768 ks.
Proof.
  intros L fuel tb v w sn np s salted p H ks gs Hk Hg Hc Hin.
  revert Hk Hg Hin. destruct Hc as [Hw | (Hz & Hw & Hw')]; gen_inv H; norm_b; intros Hk Hg Hin; resolve_ext Hk; resolve_ext Hg;
  use_le0 L; use_ge1 L;
  rewrite ?in_app_iff in Hin; cbn [In opt] in Hin; rewrite ?in_opt in Hin; split_or Hin;
  try (exfalso; exact Hin); try (cbv in Hin; discriminate Hin); try (destruct Hin as [_ Hin]; cbv in Hin; discriminate Hin);
  find_in.
Qed.

Lemma nz_example : nz [0; 0; 0; 0; 0; 0; 0; 1].
Proof.
  intros st i r (h & E & Hl) Hi.
  assert (Hlen : (length h + length st = 8)%nat) by (rewrite <- app_length, <- E; reflexivity).
  destruct h as [|x h].
  - cbn in E. subst st. vm_compute in Hi. injection Hi as <- _. discriminate.
  - assert (Hst : (length st < 8)%nat).
    { cbn [length] in Hlen, Hl.
      destruct (length h) as [|[|[|[|[|[|[|n]]]]]]] eqn:Eh; try (vm_compute in Hl; discriminate Hl); lia. }
    unfold int63, uint64 in Hi.
    destruct st as [|b0 [|b1 [|b2 [|b3 [|b4 [|b5 [|b6 [|b7 t]]]]]]]]; try discriminate Hi. cbn [length] in Hst. lia.
Qed.

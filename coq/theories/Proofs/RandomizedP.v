(* Lemmas about Model/Randomized.v: stream stepping, Shuffle is a permutation,
   the cipher sort puts non-obsolete suites first, removal loops return
   subsequences, and the shape of every spec generateRandomizedSpec can return. *)
From UV Require Import Base.Common Model.Prng Proofs.PrngP Model.Randomized.
From Coq Require Import QArith ZifyBool ZifyNat ZifyN Lqa Permutation Sorted.
Open Scope N_scope.

(* ---- monad inversion ---- *)
Lemma bindM_Ok {A B} (m : M A) (k : A -> M B) s r :
  bindM m k s = Ok r -> exists a s', m s = Ok (a, s') /\ k a s' = Ok r.
Proof.
  unfold bindM. destruct (m s) as [[a s']|c|c]; try discriminate. intros H. eauto.
Qed.
Lemma ret_Ok {A} (a : A) s r : ret a s = Ok r -> r = (a, s).
Proof. unfold ret. congruence. Qed.
Lemma liftO_Ok {A} (f : stream -> option (A * stream)) s r : liftO f s = Ok r -> f s = Some r.
Proof. unfold liftO. destruct (f s); congruence. Qed.

(* ---- the stream is consumed in whole 8-byte words ---- *)
Definition steps (s r : stream) : Prop := exists h, s = h ++ r /\ (length h mod 8 = 0)%nat.
Lemma steps_refl s : steps s s.
Proof. exists []. split; reflexivity. Qed.
Lemma steps_trans a b c : steps a b -> steps b c -> steps a c.
Proof.
  intros (h1 & -> & H1) (h2 & -> & H2). exists (h1 ++ h2). split; [apply app_assoc|].
  rewrite app_length. rewrite Nat.add_mod, H1, H2 by lia. reflexivity.
Qed.
Lemma uint64_steps s u r : uint64 s = Some (u, r) -> steps s r.
Proof.
  unfold uint64. destruct s as [|b0 [|b1 [|b2 [|b3 [|b4 [|b5 [|b6 [|b7 t]]]]]]]]; try discriminate.
  intros [= <- <-]. exists [b0; b1; b2; b3; b4; b5; b6; b7]. split; reflexivity.
Qed.
Lemma int63_steps s u r : int63 s = Some (u, r) -> steps s r.
Proof. unfold int63. destruct (uint64 s) as [[u0 r0]|] eqn:E; [|discriminate]. intros [= <- <-]. eapply uint64_steps; eauto. Qed.
Local Opaque N.shiftr.
Lemma int31_steps s u r : int31 s = Some (u, r) -> steps s r.
Proof. unfold int31. destruct (int63 s) as [[u0 r0]|] eqn:E; [|discriminate]. intros [= <- <-]. eapply int63_steps; eauto. Qed.
Lemma uint32_steps s u r : uint32 s = Some (u, r) -> steps s r.
Proof. unfold uint32. destruct (int63 s) as [[u0 r0]|] eqn:E; [|discriminate]. intros [= <- <-]. eapply int63_steps; eauto. Qed.
Local Transparent N.shiftr.
Lemma uint32_lt s u r : uint32 s = Some (u, r) -> u < two32.
Proof.
  unfold uint32. destruct (int63 s) as [[u0 r0]|] eqn:E; [|discriminate]. intros H.
  assert (Hu : u = N.shiftr u0 31) by congruence. subst u. clear H.
  apply int63_lt in E. rewrite N.shiftr_div_pow2. apply N.div_lt_upper_bound; [discriminate|].
  unfold two32. change (2 ^ 31 * 4294967296) with 9223372036854775808. exact E.
Qed.

Lemma reject_steps fuel next mx v s v' s' :
  (forall a b c, next a = Some (b, c) -> steps a c) ->
  reject fuel next mx v s = Some (v', s') -> steps s s'.
Proof.
  intros Hn. revert v s. induction fuel as [|k IH]; intros v s; cbn [reject].
  - destruct (v <=? mx); [intros [= <- <-]; apply steps_refl|discriminate].
  - destruct (v <=? mx); [intros [= <- <-]; apply steps_refl|].
    destruct (next s) as [[v1 s1]|] eqn:E; [|discriminate]. intros H.
    eapply steps_trans; [eapply Hn; eauto|eapply IH; eauto].
Qed.
Lemma int31n_steps fuel n s v r : int31n fuel n s = Some (v, r) -> steps s r.
Proof.
  unfold int31n. destruct (N.land n (n - 1) =? 0).
  - destruct (int31 s) as [[v0 r0]|] eqn:E; [|discriminate]. intros [= <- <-]. eapply int31_steps; eauto.
  - destruct (int31 s) as [[v0 r0]|] eqn:E; [|discriminate].
    destruct (reject _ _ _ _ _) as [[v1 r1]|] eqn:R; [|discriminate]. intros [= <- <-].
    eapply steps_trans; [eapply int31_steps; eauto|eapply reject_steps; [|eauto]]. apply int31_steps.
Qed.
Lemma int63n_steps fuel n s v r : int63n fuel n s = Some (v, r) -> steps s r.
Proof.
  unfold int63n. destruct (N.land n (n - 1) =? 0).
  - destruct (int63 s) as [[v0 r0]|] eqn:E; [|discriminate]. intros [= <- <-]. eapply int63_steps; eauto.
  - destruct (int63 s) as [[v0 r0]|] eqn:E; [|discriminate].
    destruct (reject _ _ _ _ _) as [[v1 r1]|] eqn:R; [|discriminate]. intros [= <- <-].
    eapply steps_trans; [eapply int63_steps; eauto|eapply reject_steps; [|eauto]]. apply int63_steps.
Qed.
Lemma intn_steps fuel n s v r : intn fuel n s = Some (v, r) -> steps s r.
Proof.
  unfold intn. destruct (n <=? 0)%Z; [intros [= <- <-]; apply steps_refl|].
  destruct (rand_intn fuel (Z.to_N n) s) as [[v0 r0]|] eqn:E; [|discriminate]. intros [= <- <-].
  unfold rand_intn in E. destruct (Z.to_N n <=? 2147483647); [eapply int31n_steps|eapply int63n_steps]; eauto.
Qed.
Lemma perm_loop_steps fuel todo : forall i m s l r, perm_loop fuel todo i m s = Some (l, r) -> steps s r.
Proof.
  induction todo as [|k IH]; intros i m s l r; cbn [perm_loop].
  - intros [= <- <-]. apply steps_refl.
  - destruct (intn fuel (Z.of_nat (S i)) s) as [[j r0]|] eqn:E; [|discriminate]. intros H.
    eapply steps_trans; [eapply intn_steps; eauto|eapply IH; eauto].
Qed.
Lemma perm_steps fuel n s l r : perm fuel n s = Some (l, r) -> steps s r.
Proof. apply perm_loop_steps. Qed.

Lemma lemire_loop_spec fuel n thresh : forall prod s p r,
  prod < two32 * n -> lemire_loop fuel n thresh prod s = Some (p, r) -> steps s r /\ p < two32 * n.
Proof.
  induction fuel as [|k IH]; intros prod s p r Hp; cbn [lemire_loop].
  - destruct (prod mod two32 <? thresh); [discriminate|]. intros [= <- <-]. split; [apply steps_refl|exact Hp].
  - destruct (prod mod two32 <? thresh).
    + destruct (uint32 s) as [[v r0]|] eqn:E; [|discriminate]. intros H.
      assert (Hv := uint32_lt _ _ _ E).
      destruct (N.eq_dec n 0) as [->|Hn]; [lia|].
      apply IH in H; [|nia]. destruct H as [H1 H2]. split; [|exact H2].
      eapply steps_trans; [eapply uint32_steps; eauto|exact H1].
    + intros [= <- <-]. split; [apply steps_refl|exact Hp].
Qed.
Lemma shiftr32_lt p n : p < two32 * n -> N.shiftr p 32 < n.
Proof.
  intros H. rewrite N.shiftr_div_pow2. change (2 ^ 32) with two32.
  apply N.div_lt_upper_bound; [discriminate|exact H].
Qed.
Local Opaque N.shiftr.
Lemma int31n_l_spec fuel n s v r : 0 < n -> int31n_l fuel n s = Some (v, r) -> steps s r /\ v < n.
Proof.
  intros Hn. unfold int31n_l. destruct (uint32 s) as [[u r0]|] eqn:E; [|discriminate].
  assert (Hu := uint32_lt _ _ _ E). assert (Hp : u * n < two32 * n) by nia.
  destruct (_ <? n).
  - destruct (lemire_loop _ _ _ _ _) as [[p r1]|] eqn:L; [|discriminate]. intros [= <- <-].
    apply lemire_loop_spec in L; [|exact Hp]. destruct L as [L1 L2]. split; [|apply shiftr32_lt; exact L2].
    eapply steps_trans; [eapply uint32_steps; eauto|exact L1].
  - intros [= <- <-]. split; [eapply uint32_steps; eauto|apply shiftr32_lt; exact Hp].
Qed.

Local Transparent N.shiftr.

(* ---- set_nth / nth / swap ---- *)
Lemma set_nth_length {A} i (x : A) l : length (set_nth i x l) = length l.
Proof. revert i; induction l as [|h t IH]; intros [|i]; cbn [set_nth length]; auto. Qed.
Lemma nth_set_nth {A} (d : A) i k x l : (i < length l)%nat ->
  nth k (set_nth i x l) d = if Nat.eqb k i then x else nth k l d.
Proof.
  revert i k; induction l as [|h t IH]; intros i k Hi; cbn [length] in Hi; [lia|].
  destruct i as [|i], k as [|k]; cbn [set_nth nth Nat.eqb]; auto. apply IH. lia.
Qed.
Lemma swap_perm {A} (d : A) i j l : (i < length l)%nat -> (j < length l)%nat -> Permutation l (swap d i j l).
Proof.
  intros Hi Hj. apply (Permutation_nth l (swap d i j l) d). split.
  - unfold swap. rewrite !set_nth_length. reflexivity.
  - exists (fun k => if Nat.eqb k i then j else if Nat.eqb k j then i else k). split; [|split].
    + intros k Hk. destruct (Nat.eqb_spec k i); [lia|]. destruct (Nat.eqb_spec k j); lia.
    + intros a b Ha Hb. destruct (Nat.eqb_spec a i), (Nat.eqb_spec a j), (Nat.eqb_spec b i), (Nat.eqb_spec b j); lia.
    + intros k Hk. unfold swap. rewrite nth_set_nth by (rewrite set_nth_length; lia).
      destruct (Nat.eqb_spec k i) as [->|Hki]; [reflexivity|].
      rewrite nth_set_nth by lia. destruct (Nat.eqb_spec k j) as [->|Hkj]; reflexivity.
Qed.
Lemma swap_length {A} (d : A) i j l : length (swap d i j l) = length l.
Proof. unfold swap. rewrite !set_nth_length. reflexivity. Qed.

Lemma shuffle_loop_spec {A} (d : A) fuel : forall i l s l' r, (i < length l)%nat \/ (i = 0)%nat ->
  shuffle_loop d fuel i l s = Some (l', r) -> steps s r /\ Permutation l l'.
Proof.
  induction i as [|k IH]; intros l s l' r Hi; cbn [shuffle_loop].
  - intros [= <- <-]. split; [apply steps_refl|apply Permutation_refl].
  - destruct (int31n_l fuel (N.of_nat (S (S k))) s) as [[j r0]|] eqn:E; [|discriminate]. intros H.
    apply int31n_l_spec in E; [|lia]. destruct E as [E1 E2].
    apply IH in H; [|rewrite swap_length; lia]. destruct H as [H1 H2]. split.
    + eapply steps_trans; eauto.
    + eapply Permutation_trans; [|exact H2]. apply swap_perm; lia.
Qed.
Lemma shuffle_spec {A} (d : A) fuel l s l' r : shuffle d fuel l s = Some (l', r) -> steps s r /\ Permutation l l'.
Proof. unfold shuffle. apply shuffle_loop_spec. destruct l; cbn [length]; lia. Qed.

(* ---- subsequences ---- *)
Inductive subseq {A} : list A -> list A -> Prop :=
| sub_nil : subseq [] []
| sub_keep x a b : subseq a b -> subseq (x :: a) (x :: b)
| sub_drop x a b : subseq a b -> subseq a (x :: b).
Lemma subseq_refl {A} (l : list A) : subseq l l.
Proof. induction l; constructor; auto. Qed.
Lemma subseq_nil {A} (l : list A) : subseq [] l.
Proof. induction l; constructor; auto. Qed.
Lemma subseq_Forall {A} (P : A -> Prop) a b : subseq a b -> Forall P b -> Forall P a.
Proof. induction 1 as [|x a b Hs IH|x a b Hs IH]; intros HF; auto; inversion HF; subst; auto. Qed.
Lemma subseq_In {A} (a b : list A) x : subseq a b -> In x a -> In x b.
Proof. induction 1 as [|y a b Hs IH|y a b Hs IH]; cbn [In]; intuition. Qed.
Lemma subseq_app_inv {A} (l b c : list A) : subseq l (b ++ c) -> exists l1 l2, l = l1 ++ l2 /\ subseq l1 b /\ subseq l2 c.
Proof.
  revert l. induction b as [|x b IH]; intros l H; cbn [app] in H.
  - exists [], l. repeat split; [constructor|exact H].
  - inversion H as [|y a0 b0 H1|y a0 b0 H1]; subst.
    + destruct (IH _ H1) as (l1 & l2 & -> & S1 & S2). exists (x :: l1), l2. repeat split; [constructor; auto|auto].
    + destruct (IH _ H1) as (l1 & l2 & -> & S1 & S2). exists l1, l2. repeat split; [constructor; auto|auto].
Qed.
Lemma filter_subseq {A} (f : A -> bool) l : subseq (filter f l) l.
Proof. induction l as [|x l IH]; cbn [filter]; [constructor|]. destruct (f x); constructor; auto. Qed.
Lemma subseq_trans {A} (a b c : list A) : subseq a b -> subseq b c -> subseq a c.
Proof.
  intros H1 H2. revert a H1. induction H2; intros a0 H1; auto.
  - inversion H1; subst; constructor; auto.
  - constructor; auto.
Qed.

(* ---- the cipher sort ---- *)
Definition obs_le (a b : scipher) : Prop := sc_obsolete a = true -> sc_obsolete b = true.
Lemma insert_In x l y : In y (insert x l) <-> y = x \/ In y l.
Proof.
  induction l as [|h t IH]; cbn [insert In]; [intuition|].
  destruct (less h x); cbn [In]; rewrite ?IH; intuition.
Qed.
Lemma isort_In l y : In y (isort l) <-> In y l.
Proof. induction l as [|h t IH]; cbn [isort In]; [tauto|]. rewrite insert_In, IH. intuition. Qed.
Lemma insert_sorted x l : StronglySorted obs_le l -> StronglySorted obs_le (insert x l).
Proof.
  induction 1 as [|h t Hs IH Hf]; cbn [insert]; [repeat constructor|].
  destruct (less h x) eqn:L.
  - constructor; [exact IH|]. apply Forall_forall. intros y Hy. apply insert_In in Hy. destruct Hy as [->|Hy].
    + unfold obs_le, less in *. destruct (sc_obsolete h), (sc_obsolete x); cbn in *; congruence.
    + rewrite Forall_forall in Hf. auto.
  - constructor; [constructor; auto|]. constructor.
    + unfold obs_le, less in *. destruct (sc_obsolete h), (sc_obsolete x); cbn in *; congruence.
    + apply Forall_forall. intros y Hy. rewrite Forall_forall in Hf. specialize (Hf y Hy).
      unfold obs_le, less in *. destruct (sc_obsolete h), (sc_obsolete x); cbn in *; try congruence; auto.
Qed.
Lemma isort_sorted l : StronglySorted obs_le (isort l).
Proof. induction l; cbn [isort]; [constructor|apply insert_sorted; auto]. Qed.
Lemma sorted_split l : StronglySorted obs_le l ->
  exists b c, l = b ++ c /\ Forall (fun x => sc_obsolete x = false) b /\ Forall (fun x => sc_obsolete x = true) c.
Proof.
  induction 1 as [|h t Hs IH Hf]; [exists [], []; repeat split; constructor|].
  destruct (sc_obsolete h) eqn:O.
  - exists [], (h :: t). repeat split; [constructor|]. constructor; [exact O|].
    eapply Forall_impl; [|exact Hf]. intros y Hy. apply Hy. exact O.
  - destruct IH as (b & c & -> & Hb & Hc). exists (h :: b), c. repeat split; [constructor; auto|auto].
Qed.

Section WithRnd.
  Variable rnd : Q -> Q.
  Variable fuel : nat.
  Hypothesis rnd_mono : forall x y, (x <= y)%Q -> (rnd x <= rnd y)%Q.
  Hypothesis rnd_0 : (rnd 0 == 0)%Q.
  Hypothesis rnd_1 : (rnd 1 == 1)%Q.
  Hypothesis rnd_two63 : (rnd (inject_Z 9223372036854775808) == inject_Z 9223372036854775808)%Q.
  Hypothesis rnd_ulp : (rnd (1 / inject_Z 9223372036854775808) == 1 / inject_Z 9223372036854775808)%Q.
  Hypothesis rnd_ext : forall x y, (x == y)%Q -> (rnd x == rnd y)%Q.

  (* one coin flip: the 63-bit draw it used *)
  Definition Flip (st : stream) (w : fw) (b : bool) : Prop :=
    exists i r, int63 st = Some (i, r) /\ b = flip_with rnd w i.
  (* a coin flip somewhere down the stream s *)
  Definition FlipIn (s : stream) (w : fw) (b : bool) : Prop := exists st, steps s st /\ Flip st w b.

  Lemma flipM_inv w s b s' : flipM rnd w s = Ok (b, s') -> Flip s w b /\ steps s s'.
  Proof.
    unfold flipM. intros H. apply liftO_Ok in H. destruct (int63 s) as [[i r]|] eqn:E; [|discriminate].
    injection H as <- <-. split; [exists i, r; auto|eapply int63_steps; eauto].
  Qed.

  Definition w_le0 (w : fw) : Prop := match w with WFin q => (q <= 0)%Q | WInf neg => neg = true | WNaN => False end.
  Definition w_ge1 (w : fw) : Prop := match w with WFin q => (1 <= q)%Q | WInf neg => neg = false | WNaN => False end.
  (* no 63-bit draw of the stream is zero (each has probability 2^-63) *)
  Definition nz (s : stream) : Prop := forall st i r, steps s st -> int63 st = Some (i, r) -> i <> 0.

  Lemma Flip_le0 st w b : Flip st w b -> w_le0 w -> b = false.
  Proof.
    intros (i & r & E & ->) Hw. eapply flip_le0; eauto. eapply int63_lt; eauto.
  Qed.
  Lemma FlipIn_le0 s w b : FlipIn s w b -> w_le0 w -> b = false.
  Proof. intros (st & _ & F). eapply Flip_le0; eauto. Qed.
  Lemma FlipIn_ge1 s w b : FlipIn s w b -> w_ge1 w -> nz s -> b = true.
  Proof.
    intros (st & Hs & i & r & E & ->) Hw Hz. rewrite (flip_ge1 rnd rnd_mono rnd_0 rnd_1 rnd_ulp rnd_ext) by exact Hw.
    specialize (Hz st i r Hs E). destruct (N.eqb_spec i 0); [contradiction|reflexivity].
  Qed.
  Lemma FlipIn_steps s s' w b : steps s s' -> FlipIn s' w b -> FlipIn s w b.
  Proof. intros H (st & H1 & F). exists st. split; [eapply steps_trans; eauto|exact F]. Qed.
  Lemma Flip_FlipIn s w b : Flip s w b -> FlipIn s w b.
  Proof. intros F. exists s. split; [apply steps_refl|exact F]. Qed.

  (* ---- removeRandomCiphers ---- *)
  Lemma ovf_le0 q : (q <= 0)%Q -> w_le0 (ovf q).
  Proof.
    intros H. unfold ovf. destruct (Qlt_le_dec q two1024) as [H1|H1].
    - destruct (Qlt_le_dec (- two1024) q); cbn [w_le0]; auto.
    - exfalso. assert (0 < two1024)%Q by reflexivity. lra.
  Qed.
  Lemma removal_weight_le0 w (i : N) flen : w_le0 w -> (0 < flen)%Q ->
    w_le0 (fdiv_pos rnd (fmul_pos rnd w (inject_Z (Z.of_N i))) flen).
  Proof.
    intros Hw Hl. destruct w as [|neg|q]; cbn [w_le0 fmul_pos fdiv_pos] in *; auto.
    assert (Hi : (0 <= inject_Z (Z.of_N i))%Q) by (change 0%Q with (inject_Z 0); rewrite <- Zle_Qle; lia).
    assert (Hp : (rnd (q * inject_Z (Z.of_N i)) <= 0)%Q).
    { rewrite <- rnd_0. apply rnd_mono. nra. }
    pose proof (ovf_le0 _ Hp) as Ho. destruct (ovf _) as [|neg|q']; cbn [w_le0 fdiv_pos] in *; auto.
    rewrite <- rnd_0. apply rnd_mono. apply Qle_shift_div_r; [exact Hl|]. lra.
  Qed.

  Lemma rm_loop_spec w flen : forall rest i s out s',
    rm_loop rnd w flen i rest s = Ok (out, s') ->
    steps s s' /\ subseq out rest /\ (w_le0 w -> (0 < flen)%Q -> out = rest).
  Proof.
    induction rest as [|x t IH]; intros i s out s'; cbn [rm_loop].
    - intros H. apply ret_Ok in H. injection H as -> ->. repeat split; [apply steps_refl|constructor].
    - intros H. apply bindM_Ok in H. destruct H as (b & s1 & F & H). apply flipM_inv in F. destruct F as [F S1].
      destruct b.
      + apply IH in H. destruct H as (S2 & Sub & _). repeat split; [eapply steps_trans; eauto|constructor; auto|].
        intros Hw Hl. exfalso. assert (Hf : true = false); [|discriminate Hf].
        apply (Flip_le0 _ _ _ F). apply removal_weight_le0; auto.
      + apply bindM_Ok in H. destruct H as (r & s2 & R & H). apply ret_Ok in H. injection H as -> ->.
        apply IH in R. destruct R as (S2 & Sub & Eq). repeat split; [eapply steps_trans; eauto|constructor; auto|].
        intros Hw Hl. f_equal. auto.
  Qed.

  Lemma removeRandomCiphers_spec s0 w s out s' :
    removeRandomCiphers rnd s0 w s = Ok (out, s') ->
    steps s s' /\ subseq out s0 /\ (w_le0 w -> out = s0) /\
    (match s0 with x :: _ => exists t, out = x :: t | [] => out = [] end).
  Proof.
    unfold removeRandomCiphers. destruct s0 as [|x [|y t]].
    - intros H. apply ret_Ok in H. injection H as -> ->. repeat split; [apply steps_refl|constructor].
    - intros H. apply ret_Ok in H. injection H as -> ->. repeat split; [apply steps_refl|apply subseq_refl|eauto].
    - intros H. apply bindM_Ok in H. destruct H as (r & s1 & R & H). apply ret_Ok in H. injection H as -> ->.
      apply rm_loop_spec in R. destruct R as (S1 & Sub & Eq). repeat split; [exact S1|constructor; exact Sub| |eauto].
      intros Hw. f_equal. apply Eq; [exact Hw|]. cbn [length]. change 0%Q with (inject_Z 0). rewrite <- Zlt_Qlt. lia.
  Qed.

  (* ---- shuffledCiphers ---- *)
  Definition row_in (tb : table) (t12 : bool) (c : N) : Prop := In {| sr_id := c; sr_tls12 := t12 |} (t_suites tb).
  Lemma shuffledCiphers_spec tb s out s' : shuffledCiphers fuel tb s = Ok (out, s') ->
    steps s s' /\ exists b c, out = b ++ c /\ Forall (row_in tb true) b /\ Forall (row_in tb false) c.
  Proof.
    unfold shuffledCiphers. intros H. apply bindM_Ok in H. destruct H as (pm & s1 & P & H).
    apply ret_Ok in H. injection H as -> ->. unfold permM in P. apply liftO_Ok in P. split; [eapply perm_steps; eauto|].
    set (cs := map _ (combine (t_suites tb) pm)).
    destruct (sorted_split _ (isort_sorted cs)) as (b & c & E & Hb & Hc).
    assert (Hin : forall x, In x (isort cs) -> row_in tb (negb (sc_obsolete x)) (sc_suite x)).
    { intros x Hx. apply (proj1 (isort_In _ _)) in Hx. subst cs. apply in_map_iff in Hx. destruct Hx as ([row tag] & <- & Hx).
      apply in_combine_l in Hx. cbn [sc_obsolete sc_suite]. rewrite negb_involutive. unfold row_in. destruct row; exact Hx. }
    exists (map sc_suite b), (map sc_suite c). rewrite E, map_app. split; [reflexivity|].
    rewrite E in Hin. split; apply Forall_forall; intros y Hy; apply in_map_iff in Hy; destruct Hy as (x & <- & Hx).
    - rewrite Forall_forall in Hb. specialize (Hin x (in_or_app _ _ _ (or_introl Hx))). rewrite (Hb x Hx) in Hin. exact Hin.
    - rewrite Forall_forall in Hc. specialize (Hin x (in_or_app _ _ _ (or_intror Hx))). rewrite (Hc x Hx) in Hin. exact Hin.
  Qed.
End WithRnd.

(* C10 and C18 over the shipped parrots, with NO premise on a model's output: composition of
     PresetOkP.preset_ok_output   (ApplyPreset's output is inside C02's precondition, typed)
     ComposeP.compose_synced / compose_versions   (view = wire)
     ParrotNegP.view_fields       (the consulted lists are the spec's, GREASE slots filled)
     ParrotNegS.retained_shape    (shape of the retained keys, any crypto instance)
     ParrotNegS.parrots_*         (sweeps over Gen/Parrots.v, exception classes named)
     CompleteP.c10_holds_if, KeyShareP.keys_retained_fixed.
   No axioms. *)
From UV Require Import Base.Common Model.Wire Model.Ext Model.ExtSpec Model.Strict.
From UV Require Import Model.Marshal Model.ChMarshal Model.WriteToUConn Proofs.ComposeP.
From UV Require Model.Grease Model.Negotiate Model.KeyShare Model.Complete Model.ParrotSpec Model.Shuffle Gen.Parrots.
From UV Require Proofs.NegotiateP Proofs.CompleteP Proofs.KeyShareP Proofs.ComposeW.
From UV Require Import Model.Preset Model.PresetOk Model.ParrotNeg Proofs.PresetOkP Proofs.PresetOkS Proofs.PresetOkC.
From UV Require Import Proofs.ParrotNegP Proofs.ParrotNegS.
From Coq Require Import ZifyBool ZifyNat ZifyN.

(* ---- no session in play: the pre_shared_key extension of the spec serialises nothing ---- *)
Definition psk_quiet1 (s : sext) : bool :=
  match s with
  | SExt (EUtlsPreSharedKey se cl _ ids bs) => ext_absent (EUtlsPreSharedKey se cl true ids bs)
  | SExt (EFakePreSharedKey _ ids bs) => ext_absent (EFakePreSharedKey true ids bs)
  | _ => true
  end.
Definition psk_quiet (sp : spec) : bool := forallb psk_quiet1 (sp_exts sp).

Theorem parrots_psk_quiet : forallb (fun p => psk_quiet (p_spec p)) Parrots.all = true.
Proof. vm_compute. reflexivity. Qed.

Lemma erel_psk_absent sd c s e : erel sd c s e -> psk_quiet1 s = true -> is_psk_ext e = true -> ext_absent e = true.
Proof.
  intros H Hq Hp. destruct s as [e0|su ci en pl].
  - destruct e0; cbn [erel] in H; try (subst e; discriminate).
    + destruct H as (cs' & _ & ->). discriminate.
    + destruct H as (x & b & ->). discriminate.
    + destruct H as (k1 & k2 & k3 & _ & ->). discriminate.
    + destruct H as (vs' & _ & ->). discriminate.
    + subst e. cbn [psk_quiet1 ext_absent] in *. exact Hq.
    + subst e. cbn [psk_quiet1 ext_absent] in *. exact Hq.
  - cbn [erel] in H. destruct H as (d & Hd). destruct (ech_init_form _ _ _ _ _ _ Hd) as (a & b & c' & x & y & ->). discriminate.
Qed.

Lemma psk_sent_quiet sd c ss es : Forall2 (erel sd c) ss es -> forallb psk_quiet1 ss = true -> psk_sent es = 0.
Proof.
  intros H Hq. unfold psk_sent. destruct (find is_psk_ext es) as [e|] eqn:Ef; [|reflexivity].
  apply find_some in Ef. destruct Ef as [Hin Hp].
  assert (Ha : ext_absent e = true).
  { clear - H Hq Hin Hp. induction H as [|s e' ss es Hse _ IH]; [destruct Hin|]. cbn [forallb] in Hq. apply andb_true_iff in Hq. destruct Hq as [Q1 Q2].
    destruct Hin as [->|Hin]; [exact (erel_psk_absent _ _ _ _ Hse Q1 Hp) | exact (IH Q2 Hin)]. }
  destruct e; try discriminate; rewrite Ha; reflexivity.
Qed.

(* a compliant server asks, in a HelloRetryRequest, only for a listed group without share: never a hybrid one when every listed
   hybrid group comes with its share *)
Lemma compliant_no_hybrid_hrr e m w fl :
  Complete.compliant e m w fl = true -> hybrids_shared (Negotiate.w_groups w) (Negotiate.w_shares w) = true ->
  Complete.hrr_to_hybrid fl = false.
Proof.
  intros Hc Hh. unfold Complete.hrr_to_hybrid. destruct (Negotiate.f_hrr fl) as [h|] eqn:Eh; [|reflexivity].
  unfold Complete.compliant in Hc. rewrite Eh in Hc. cbv iota beta in Hc. destruct (Negotiate.h_sv h =? 0).
  - unfold Complete.compliant12 in Hc. rewrite Eh in Hc. cbn [Complete.is_none andb] in Hc. discriminate.
  - unfold Complete.compliant13 in Hc. rewrite Eh in Hc. cbv iota beta in Hc. rewrite !andb_true_iff in Hc.
    destruct Hc as [[[[[_ Hr] _] _] _] _]. destruct Hr as [_ Hr].
    apply orb_true_iff in Hr. destruct Hr as [Hr|Hr]; rewrite !andb_true_iff in Hr.
    + destruct Hr as [[[_ Hg] Hns] _]. destruct (Negotiate.hybrid (Negotiate.h_selgroup h)) eqn:Ey; [|reflexivity].
      unfold hybrids_shared in Hh. rewrite forallb_forall in Hh. apply NegotiateP.memN_In in Hg. specialize (Hh _ Hg).
      rewrite Ey in Hh. cbn [negb orb] in Hh. rewrite Hh in Hns. discriminate.
    + destruct Hr as [[Hz _] _]. apply N.eqb_eq in Hz. rewrite Hz. reflexivity.
Qed.

Section Parrot.
  Variables (p : parrot) (swaps : list (nat * nat)) (exts' : list sext).
  Hypothesis Hin : In p Parrots.all.
  Hypothesis Hsh : Shuffle.shuffle ParrotSpec.fixedb swaps (sp_exts (p_spec p)) = Ok exts'.
  Variables (c : cfg) (fr : fresh) (h : hello_hdr) (es : list ext).
  Hypothesis Hc : parrot_class c.
  Hypothesis Ha : apply_preset (with_exts (p_spec p) exts') c fr = Ok (h, es).
  Variables (mn mx : N) (env : wenv) (bbs : N -> N) (padto : Z) (raw : bytes) (s' : uconn_state).
  Hypothesis Hv : set_tls_vers (with_exts (p_spec p) exts') = Ok (mn, mx).
  Hypothesis Hcache : we_cache_session env = false.
  Hypothesis Hm : marshal_hello bbs padto h es = Ok raw.
  Hypothesis Hcfg : apply_config env (marshal_hello bbs padto h es) (ComposeW.preset_state h mn mx) es = Ok s'.

  (* the keys ApplyPreset retains for this parrot's share list (any crypto instance: ParrotNegS.retained_shape) *)
  Let ks := static_shape (lastS s_shares (sp_exts (p_spec p)) []).
  Let v := view_of (finish false es s') es (KeyShare.sh_ecdhe ks) (KeyShare.sh_mlkem ks) 0.

  Lemma parrot_c10_cond : exists w, wire_of raw = Some w /\
    forall fl, Complete.compliant Negotiate.env_fixed mn w fl = true ->
               Complete.c10_cond true Negotiate.env_fixed v ks mn w fl = true.
  Proof.
    pose proof parrots_neg_static as TN. rewrite forallb_forall in TN. specialize (TN p Hin).
    destruct (neg_static_shuffle _ swaps exts' TN Hsh) as (TN' & THy & _ & Esh).
    assert (Thy : hybrid_static (with_exts (p_spec p) exts') = true).
    { rewrite THy. pose proof parrots_hrr_hybrid_exceptions as E. unfold hrr_hybrid_exceptions in E.
      destruct (hybrid_static (p_spec p)) eqn:Eh; [reflexivity|]. exfalso.
      assert (Hf : In p (filter (fun q => negb (hybrid_static (p_spec q))) Parrots.all)) by (apply filter_In; split; [exact Hin|rewrite Eh; reflexivity]).
      apply (in_map p_name) in Hf. rewrite E in Hf. destruct Hf. }
    assert (Tq : forallb psk_quiet1 exts' = true).
    { pose proof parrots_psk_quiet as T. rewrite forallb_forall in T. specialize (T p Hin). unfold psk_quiet in T.
      destruct (PresetP.shuffle_ok _ _ _ _ Hsh) as [P _]. rewrite <- (forallb_perm _ _ _ P). exact T. }
    destruct (parrot_output p swaps exts' Hin Hsh c fr h es Hc Ha) as (Hwf & _ & Hty).
    destruct (apply_preset_inv _ _ _ _ _ Ha) as (_ & _ & sd & _ & _ & _ & _ & _ & Hcomp & _ & _ & _ & _ & Hrel).
    cbn [with_exts sp_exts] in Hrel.
    assert (Hpsk : psk_agree (finish false es s') es = true).
    { apply (ComposeW.psk_agree_no_session env _ _ es s' Hcfg Hcache); [reflexivity|]. exact (psk_sent_quiet _ _ _ _ Hrel Tq). }
    assert (Hc0 : Negotiate.memN 0 (h_comp (us_hdr (ComposeW.preset_state h mn mx))) = true) by (cbn [ComposeW.preset_state us_hdr]; rewrite Hcomp; reflexivity).
    destruct (compose_synced env bbs padto (ComposeW.preset_state h mn mx) es raw s' false (KeyShare.sh_ecdhe ks) (KeyShare.sh_mlkem ks) 0
                Hwf Hty Hm Hcfg Hc0 Hpsk) as (w & Hw & Hsyn).
    destruct (compose_versions env bbs padto (ComposeW.preset_state h mn mx) es raw s' false (KeyShare.sh_ecdhe ks) (KeyShare.sh_mlkem ks) 0
                Hwf Hty Hm Hcfg) as (w2 & Hw2 & Hleg & Hver).
    rewrite Hw in Hw2. inversion Hw2; subst w2. clear Hw2.
    fold v in Hsyn, Hver.
    destruct (view_fields _ c fr h es Ha mn mx env _ s' ks Hv Hcfg Hcache) as
      (gg & gv & Ig & Iv & F1 & F2 & F3 & F4 & F5 & F6 & F7 & F8 & F9 & F10 & F11 & F12 & F13).
    fold v in F1, F2, F3, F4, F5, F6, F7, F8, F9, F13.
    exists w. split; [exact Hw|]. intros fl Hcomp'.
    (* what synced gives *)
    pose proof Hsyn as Hsyn0. unfold Negotiate.synced in Hsyn0. rewrite !andb_true_iff in Hsyn0.
    destruct Hsyn0 as [[[[[[[[_ S2] S3] _] _] _] S7] _] _].
    apply NegotiateP.list_eqN_eq in S2, S3, S7.
    (* spec_rest *)
    assert (Hrest : spec_rest true Negotiate.env_fixed v ks mn w = true).
    { set (sp' := with_exts (p_spec p) exts') in *.
      assert (Hsw : spec_rest true Negotiate.env_fixed (abs_view sp' mn mx gg gv ks) ks mn (abs_wire sp' mn mx gg gv) = true).
      { unfold neg_static in TN'. fold sp' in TN'. rewrite Hv in TN'. rewrite !andb_true_iff in TN'. destruct TN' as [_ Hs].
        cbn [with_exts sp_exts] in Hs. unfold sp' in Hs. cbn [with_exts sp_exts] in Hs. rewrite Esh in Hs. fold ks in Hs. fold sp' in Hs.
        rewrite forallb_forall in Hs. specialize (Hs gg Ig). rewrite forallb_forall in Hs. exact (Hs gv Iv). }
      rewrite (spec_rest_ext true Negotiate.env_fixed ks mn v (abs_view sp' mn mx gg gv ks) w (abs_wire sp' mn mx gg gv)); [exact Hsw|..];
        unfold abs_view, abs_wire;
        cbn [Negotiate.cv_shares Negotiate.cv_vmin Negotiate.cv_vmax Negotiate.cv_ech Negotiate.cv_sv Negotiate.cv_mlkem
             Negotiate.w_has_sv Negotiate.w_sv Negotiate.w_legacy]; try assumption.
      - rewrite F12 in Hver. destruct (opt_versions sp'); [apply Hver|apply Hver].
      - intros Hhas. destruct (opt_versions sp') as [vs|] eqn:Eo; [|discriminate]. rewrite F12 in Hver. destruct Hver as [Hh Hs].
        specialize (Hs 0). unfold Negotiate.versions_synced in Hs. rewrite Hh in Hs.
        apply andb_true_iff in Hs. destruct Hs as [Hs _]. apply NegotiateP.list_eqN_eq in Hs. rewrite <- Hs. apply F13. reflexivity.
      - rewrite Hleg. cbn [ComposeW.preset_state us_hdr]. exact F10. }
    (* compress_certificate: advertised on the wire only with the extension *)
    assert (Hcc : implb (negb (Complete.is_nil (Negotiate.w_ccalgs w))) (Negotiate.cv_ccext v) = true).
    { rewrite <- S7. unfold v, view_of, finish. cbn [Negotiate.cv_ccalgs Negotiate.cv_ccext].
      destruct (existsb is_ccert_ext es) eqn:Ex; [destruct (Complete.is_nil _); reflexivity|].
      destruct (apply_config_fields _ _ _ _ _ Hcfg) as (_ & _ & _ & _ & A4 & _). rewrite A4.
      rewrite (last_of_none get_ccalgs es []); [reflexivity|]. intros e He. destruct (get_ccalgs e) eqn:Eg; [|reflexivity].
      exfalso. rewrite <- not_true_iff_false in Ex. apply Ex. apply existsb_exists. exists e. split; [exact He|]. destruct e; try discriminate. reflexivity. }
    unfold Complete.c10_cond, Complete.spec_ok. unfold spec_rest in Hrest. rewrite !andb_true_iff in Hrest.
    destruct Hrest as [[[[[R1 R2] R3] R4] R5] R6]. rewrite Hsyn, R1, R2, R3, R4, Hcc, R5, R6. cbn [andb].
    unfold Complete.psk_with_hrr. rewrite F8. cbn [N.ltb N.compare andb negb].
    rewrite (compliant_no_hybrid_hrr _ _ _ _ Hcomp'); [reflexivity|].
    rewrite <- S2, <- S3, F1, F2. unfold hybrid_static in Thy. rewrite forallb_forall in Thy. exact (Thy gg Ig).
  Qed.

  (* C10 for a shipped parrot: on every compliant flight the client completes, on exactly the server's choices *)
  Theorem parrot_completes : exists w, wire_of raw = Some w /\
    forall fl, Complete.compliant Negotiate.env_fixed mn w fl = true ->
    exists st, Complete.client_run10 true Negotiate.env_fixed v ks fl = Negotiate.Complete st
      /\ Negotiate.cs_suite st = Negotiate.h_suite (Negotiate.f_sh fl)
      /\ ((Negotiate.cs_vers st = Negotiate.V13 /\ Negotiate.cs_group st = Negotiate.h_share (Negotiate.f_sh fl)
           /\ Negotiate.cs_alpn st = Negotiate.f_ee_alpn fl)
          \/ (Negotiate.cs_vers st = Negotiate.h_vers (Negotiate.f_sh fl) /\ Negotiate.cs_vers st <> Negotiate.V13
              /\ Negotiate.cs_alpn st = Negotiate.h_alpn (Negotiate.f_sh fl))).
  Proof.
    destruct parrot_c10_cond as (w & Hw & Hcond). exists w. split; [exact Hw|]. intros fl Hcomp.
    exact (CompleteP.c10_holds_if true Negotiate.env_fixed v ks mn w fl (Hcond fl Hcomp) Hcomp).
  Qed.
End Parrot.

(* ---- C18 for the shipped parrots: every crypto instance satisfying the laws, every stream and cursor ---- *)
Theorem parrot_keys : forall p, In p Parrots.all ->
  forall (priv dkey : Type) (rnd : N -> N) (ecdh_gen : N -> N -> priv * N) (pub : N -> priv -> bytes)
         (dh : N -> priv -> bytes -> option bytes) (kem_new : bytes -> dkey) (kem_ek : dkey -> bytes)
         (kem_decap : dkey -> bytes -> option bytes) (kem_encap : bytes -> bytes -> bytes * bytes),
  KeyShareP.laws ecdh_gen pub dh kem_ek kem_decap kem_encap ->
  forall quic gv p0 a,
  KeyShare.apply_preset priv dkey rnd ecdh_gen pub kem_new kem_ek true quic gv (kshares_of (p_spec p)) p0 = Ok a ->
  KeyShare.shape_of (KeyShare.a_keys a) = static_shape (lastS s_shares (sp_exts (p_spec p)) [])
  /\ forall i k k', nth_error (kshares_of (p_spec p)) i = Some k -> nth_error (KeyShare.a_shares a) i = Some k' ->
       KeyShare.generated k = true ->
       KeyShare.ks_group k' = KeyShare.ks_group k
       /\ KeyShare.lenN (KeyShare.ks_data k') = KeyShare.share_size (KeyShare.ks_group k')
       /\ forall b r sdata ssec,
            KeyShare.server_flight priv pub dh kem_encap (KeyShare.ks_group k') (KeyShare.ks_data k') b r = Some (sdata, ssec) ->
            KeyShare.client_secret priv dkey dh kem_decap true true (KeyShare.a_keys a) (KeyShare.ks_group k') sdata = Ok ssec.
Proof.
  intros p Hin priv dkey rnd ecdh_gen pub dh kem_new kem_ek kem_decap kem_encap L quic gv p0 a Ha.
  split.
  - rewrite (retained_shape _ _ _ _ _ _ _ _ _ _ _ _ Ha). rewrite pair_of_kshares. reflexivity.
  - intros i k k' N1 N2 Gen.
    pose proof parrots_keyshares_ok as T. rewrite forallb_forall in T. specialize (T p Hin). unfold keyshares_ok in T.
    destruct (KeyShareP.keys_retained_fixed priv dkey rnd ecdh_gen pub dh kem_new kem_ek kem_decap kem_encap L quic gv _ p0 a T Ha i k k' N1 N2 Gen) as [Hg Hs].
    split; [exact Hg|]. split; [|exact Hs].
    pose proof (KeyShareP.share_sizes priv dkey rnd ecdh_gen pub dh kem_new kem_ek kem_decap kem_encap L true quic gv _ p0 a Ha) as SZ.
    assert (G : forall (l o : list KeyShare.kshare) j, Forall2 (KeyShareP.size_rel gv) l o ->
                nth_error l j = Some k -> nth_error o j = Some k' -> KeyShareP.size_rel gv k k').
    { intros l o j F. revert j. induction F as [|x y l o Hxy _ IH]; intros j X Y; [destruct j; discriminate|].
      destruct j; cbn in X, Y; [inversion X; inversion Y; subst; exact Hxy | eapply IH; eauto]. }
    pose proof (G _ _ _ SZ N1 N2) as Hsz. unfold KeyShareP.size_rel in Hsz.
    unfold KeyShare.generated in Gen. apply andb_true_iff in Gen. destruct Gen as [G1 G2]. apply negb_true_iff in G1, G2.
    rewrite G1, G2 in Hsz. destruct Hsz as (Z1 & Z2 & _). rewrite Hg. exact Z2.
Qed.

(* ---- a shipped parrot through the whole chain: Firefox_120 (shares X25519, P-256), server selects the SECOND share ---- *)
Definition ff_ech : ech_draw :=
  {| ed_cfg_idx := 0; ed_cfg_byte := 7; ed_suite_idx := 1; ed_enc := repeat 9 32; ed_plen_idx := 0; ed_payload := repeat 5 239 |}.
Definition ff_fresh : fresh :=
  {| f_random := repeat 1 32; f_grease := [16; 0; 32; 0; 48; 0; 48; 0; 64; 0]; f_sid := repeat 2 32;
     f_keys := [repeat 3 32; repeat 4 65]; f_ech := [ff_ech] |}.
Definition ff_flight (g : N) : Negotiate.flight :=
  Negotiate.mkFlight None (Negotiate.mkHello 771 772 0 (repeat 2 32) 4865 0 g 0 false None []) [104; 50] None None true.

Definition ex_firefox120 (g : N) : bool :=
  let sp := p_spec Parrots.p_Firefox_120 in
  match apply_preset sp ComposeW.ex_cfg ff_fresh, set_tls_vers sp with
  | Ok (h, es), Ok (mn, mx) =>
    match marshal_hello (fun _ => 512) 0%Z h es with
    | Ok raw =>
      match apply_config (mkEnvW false) (Ok raw) (ComposeW.preset_state h mn mx) es, wire_of raw with
      | Ok s', Some w =>
        let ks := static_shape (lastS s_shares (sp_exts sp) []) in
        let v := view_of (finish false es s') es (KeyShare.sh_ecdhe ks) (KeyShare.sh_mlkem ks) 0 in
        Complete.compliant Negotiate.env_fixed mn w (ff_flight g)
        && Complete.c10_cond true Negotiate.env_fixed v ks mn w (ff_flight g)
        && match Complete.client_run10 true Negotiate.env_fixed v ks (ff_flight g) with
           | Negotiate.Complete st => (Negotiate.cs_vers st =? 772) && (Negotiate.cs_group st =? g) && (Negotiate.cs_suite st =? 4865)
           | _ => false
           end
      | _, _ => false
      end
    | _ => false
    end
  | _, _ => false
  end.

Lemma ex_firefox120_ok : ex_firefox120 23 = true /\ ex_firefox120 29 = true
  /\ static_shape (lastS s_shares (sp_exts (p_spec Parrots.p_Firefox_120)) []) = KeyShare.mkShape 29 [23] false 0.
Proof. vm_compute. repeat split; reflexivity. Qed.

(* Proofs for Model/GoCH.v, part 4: the parser-side invariant.  Whatever unmarshal accepts has well-formed field
   values (wf_msgb), for all 19 known extensions; unknown extensions are skipped as in the Go code. *)
From Coq Require Import ZifyBool ZifyNat ZifyN.
From UV Require Import Base.Common Model.Public Model.GoCH.
Open Scope N_scope.

(* ---------- bytes stay bytes through the readers ---------- *)
Lemma bytes_ok_firstn n : forall s, bytes_ok s -> bytes_ok (firstn n s).
Proof. induction n as [|n IH]; intros s H; [constructor|]. destruct s; [constructor|]. inversion H; subst. cbn. constructor; auto. apply IH; assumption. Qed.
Lemma bytes_ok_skipn n : forall s, bytes_ok s -> bytes_ok (skipn n s).
Proof. induction n as [|n IH]; intros s H; [exact H|]. destruct s; [constructor|]. inversion H; subst. cbn. apply IH; assumption. Qed.

Lemma rd_bytes_ok n s a r : rd_bytes n s = Some (a, r) -> bytes_ok s -> bytes_ok a /\ bytes_ok r.
Proof.
  unfold rd_bytes. destruct (length s <? n)%nat; [discriminate|]. intros E H. injection E as <- <-.
  split; [now apply bytes_ok_firstn|now apply bytes_ok_skipn].
Qed.
Lemma rd_u8_ok s x r : rd_u8 s = Some (x, r) -> bytes_ok s -> x < 256 /\ bytes_ok r.
Proof. destruct s as [|a s]; [discriminate|]. cbn. intros E H. injection E as <- <-. inversion H; subst. auto. Qed.
Lemma rd_u16_ok s x r : rd_u16 s = Some (x, r) -> bytes_ok s -> x < 65536 /\ bytes_ok r.
Proof.
  destruct s as [|a [|b s]]; try discriminate. cbn. intros E H. injection E as <- <-.
  inversion H as [|? ? Ha H']; subst. inversion H' as [|? ? Hb H'']; subst. split; [lia|assumption].
Qed.
Lemma rd_u32_ok s x r : rd_u32 s = Some (x, r) -> bytes_ok s -> x < 4294967296 /\ bytes_ok r.
Proof.
  destruct s as [|a [|b [|c [|d s]]]]; try discriminate. cbn. intros E H. injection E as <- <-.
  inversion H as [|? ? Ha H1]; subst. inversion H1 as [|? ? Hb H2]; subst. inversion H2 as [|? ? Hc H3]; subst.
  inversion H3 as [|? ? Hd H4]; subst. split; [lia|assumption].
Qed.
Lemma rd_u8lp_ok s d r : rd_u8lp s = Some (d, r) -> bytes_ok s -> bytes_ok d /\ bytes_ok r.
Proof.
  unfold rd_u8lp. destruct (rd_u8 s) as [[n s']|] eqn:E; [|discriminate]. cbn [obind]. intros E2 H.
  destruct (rd_u8_ok _ _ _ E H) as [_ H']. exact (rd_bytes_ok _ _ _ _ E2 H').
Qed.
Lemma rd_u16lp_ok s d r : rd_u16lp s = Some (d, r) -> bytes_ok s -> bytes_ok d /\ bytes_ok r.
Proof.
  unfold rd_u16lp. destruct (rd_u16 s) as [[n s']|] eqn:E; [|discriminate]. cbn [obind]. intros E2 H.
  destruct (rd_u16_ok _ _ _ E H) as [_ H']. exact (rd_bytes_ok _ _ _ _ E2 H').
Qed.

Lemma list_ind2 (P : bytes -> Prop) : P [] -> (forall a, P [a]) -> (forall a b r, P r -> P (a :: b :: r)) -> forall l, P l.
Proof. intros H0 H1 H2. fix F 1. intros [|a [|b r]]; [exact H0|apply H1|apply H2, F]. Qed.

Lemma rd_u16s_ok : forall s l, rd_u16s s = Some l -> bytes_ok s -> forallb u16_okb l = true.
Proof.
  intros s. induction s as [|a|a b r IH] using list_ind2; intros l E H.
  - injection E as <-. reflexivity.
  - discriminate.
  - cbn [rd_u16s] in E. destruct (rd_u16s r) as [l'|] eqn:E'; [|discriminate]. cbn [obind] in E. injection E as <-.
    inversion H as [|? ? Ha H1]; subst. inversion H1 as [|? ? Hb H2]; subst.
    cbn [forallb]. rewrite (IH l' eq_refl H2). unfold u16_okb. rewrite andb_true_r. apply N.ltb_lt. lia.
Qed.
Lemma rd_u16s_nonnil s l : rd_u16s s = Some l -> is_nil s = false -> nonnilb l = true.
Proof.
  destruct s as [|a [|b r]]; [discriminate 2|discriminate 1|]. cbn [rd_u16s]. destruct (rd_u16s r); [|discriminate].
  cbn [obind]. intros E _. injection E as <-. reflexivity.
Qed.

Lemma nonempty_u16s_ok d xs r : nonempty_u16s d = Some (xs, r) -> bytes_ok d ->
  nonnilb xs && forallb u16_okb xs = true /\ bytes_ok r.
Proof.
  unfold nonempty_u16s. destruct (rd_u16lp d) as [[l r']|] eqn:E; [|discriminate]. cbn [obind].
  destruct (is_nil l) eqn:En; [discriminate|]. destruct (rd_u16s l) as [xs'|] eqn:Ex; [|discriminate]. cbn [obind].
  intros E2 H. injection E2 as <- <-. destruct (rd_u16lp_ok _ _ _ E H) as [Hl Hr].
  split; [|exact Hr]. rewrite (rd_u16s_nonnil _ _ Ex En), (rd_u16s_ok _ _ Ex Hl). reflexivity.
Qed.

(* ---------- item loops ---------- *)
Lemma nonnilb_of_is_nil {A} (l : list A) : is_nil l = false -> nonnilb l = true.
Proof. unfold nonnilb. now intros ->. Qed.

Lemma dec_alpn_ok : forall fuel s l, dec_alpn fuel s = Some l -> forallb nonnilb l = true.
Proof.
  induction fuel as [|fuel IH]; intros s l E; cbn [dec_alpn] in E; destruct (is_nil s); try (injection E as <-; reflexivity); try discriminate.
  destruct (rd_u8lp s) as [[p r]|]; [|discriminate]. cbn [obind] in E. destruct (is_nil p) eqn:Ep; [discriminate|].
  destruct (dec_alpn fuel r) as [l'|] eqn:E'; [|discriminate]. cbn [obind] in E. injection E as <-.
  cbn [forallb]. rewrite (nonnilb_of_is_nil _ Ep), (IH _ _ E'). reflexivity.
Qed.
Lemma dec_alpn_nonnil fuel s l : dec_alpn fuel s = Some l -> is_nil s = false -> nonnilb l = true.
Proof.
  intros E Hs. destruct fuel; cbn [dec_alpn] in E; rewrite Hs in E; [discriminate|].
  destruct (rd_u8lp s) as [[p r]|]; [|discriminate]. cbn [obind] in E. destruct (is_nil p); [discriminate|].
  destruct (dec_alpn fuel r); [|discriminate]. cbn [obind] in E. injection E as <-. reflexivity.
Qed.
Lemma dec_binders_ok : forall fuel s l, dec_binders fuel s = Some l -> forallb nonnilb l = true.
Proof.
  induction fuel as [|fuel IH]; intros s l E; cbn [dec_binders] in E; destruct (is_nil s); try (injection E as <-; reflexivity); try discriminate.
  destruct (rd_u8lp s) as [[p r]|]; [|discriminate]. cbn [obind] in E. destruct (is_nil p) eqn:Ep; [discriminate|].
  destruct (dec_binders fuel r) as [l'|] eqn:E'; [|discriminate]. cbn [obind] in E. injection E as <-.
  cbn [forallb]. rewrite (nonnilb_of_is_nil _ Ep), (IH _ _ E'). reflexivity.
Qed.
Lemma dec_binders_nonnil fuel s l : dec_binders fuel s = Some l -> is_nil s = false -> nonnilb l = true.
Proof.
  intros E Hs. destruct fuel; cbn [dec_binders] in E; rewrite Hs in E; [discriminate|].
  destruct (rd_u8lp s) as [[p r]|]; [|discriminate]. cbn [obind] in E. destruct (is_nil p); [discriminate|].
  destruct (dec_binders fuel r); [|discriminate]. cbn [obind] in E. injection E as <-. reflexivity.
Qed.

Lemma dec_shares_ok : forall fuel s l, dec_shares fuel s = Some l -> bytes_ok s -> forallb share_okb l = true.
Proof.
  induction fuel as [|fuel IH]; intros s l E H; cbn [dec_shares] in E; destruct (is_nil s); try (injection E as <-; reflexivity); try discriminate.
  destruct (rd_u16 s) as [[g r]|] eqn:Eg; [|discriminate]. cbn [obind] in E.
  destruct (rd_u16lp r) as [[d r']|] eqn:Ed; [|discriminate]. cbn [obind] in E. destruct (is_nil d) eqn:En; [discriminate|].
  destruct (dec_shares fuel r') as [l'|] eqn:E'; [|discriminate]. cbn [obind] in E. injection E as <-.
  destruct (rd_u16_ok _ _ _ Eg H) as [Hg Hr]. destruct (rd_u16lp_ok _ _ _ Ed Hr) as [_ Hr'].
  cbn [forallb]. rewrite (IH _ _ E' Hr'). unfold share_okb. cbn [ks_group ks_data].
  rewrite (nonnilb_of_is_nil _ En). rewrite !andb_true_r. apply N.ltb_lt. exact Hg.
Qed.

Lemma dec_ids_ok : forall fuel s l, dec_ids fuel s = Some l -> bytes_ok s -> forallb id_okb l = true.
Proof.
  induction fuel as [|fuel IH]; intros s l E H; cbn [dec_ids] in E; destruct (is_nil s); try (injection E as <-; reflexivity); try discriminate.
  destruct (rd_u16lp s) as [[lab r]|] eqn:El; [|discriminate]. cbn [obind] in E.
  destruct (rd_u32 r) as [[age r']|] eqn:Ea; [|discriminate]. cbn [obind] in E. destruct (is_nil lab) eqn:En; [discriminate|].
  destruct (dec_ids fuel r') as [l'|] eqn:E'; [|discriminate]. cbn [obind] in E. injection E as <-.
  destruct (rd_u16lp_ok _ _ _ El H) as [_ Hr]. destruct (rd_u32_ok _ _ _ Ea Hr) as [Hage Hr'].
  cbn [forallb]. rewrite (IH _ _ E' Hr'). unfold id_okb. cbn [pi_label pi_obfuscatedTicketAge].
  rewrite (nonnilb_of_is_nil _ En). rewrite !andb_true_r. apply N.ltb_lt. exact Hage.
Qed.
Lemma dec_ids_nonnil fuel s l : dec_ids fuel s = Some l -> is_nil s = false -> nonnilb l = true.
Proof.
  intros E Hs. destruct fuel; cbn [dec_ids] in E; rewrite Hs in E; [discriminate|].
  destruct (rd_u16lp s) as [[lab r]|]; [|discriminate]. cbn [obind] in E. destruct (rd_u32 r) as [[age r']|]; [|discriminate].
  cbn [obind] in E. destruct (is_nil lab); [discriminate|]. destruct (dec_ids fuel r'); [|discriminate]. cbn [obind] in E.
  injection E as <-. reflexivity.
Qed.

Lemma dec_sni_ok : forall fuel s cur n, sni_pre cur = true -> dec_sni_names fuel s cur = Some n -> sni_pre n = true.
Proof.
  induction fuel as [|fuel IH]; intros s cur n Hc E; cbn [dec_sni_names] in E; destruct (is_nil s); try (injection E as <-; exact Hc); try discriminate.
  destruct (rd_u8 s) as [[ty r]|]; [|discriminate]. cbn [obind] in E.
  destruct (rd_u16lp r) as [[name r']|]; [|discriminate]. cbn [obind] in E.
  destruct (is_nil name) eqn:En; [discriminate|]. destruct (negb (ty =? 0)); [exact (IH _ _ _ Hc E)|].
  destruct (negb (is_nil cur)); [discriminate|]. destruct (last name 0 =? 46) eqn:El; [discriminate|].
  apply (IH r' name n); [|exact E]. unfold sni_pre. rewrite El. now rewrite orb_true_r.
Qed.

(* ---------- one extension ---------- *)
Ltac obn H a r E :=
  match type of H with obind ?o _ = Some _ => destruct o as [[a r]|] eqn:E; cbn [obind] in H; [|discriminate H] end.
Ltac ifn H E :=
  match type of H with (if ?c then None else _) = Some _ => destruct c eqn:E; [discriminate H|] end.

Lemma dec_body_pre id d x r : dec_body id d = Some (x, r) -> bytes_ok d -> pre_wfb x = true.
Proof.
  unfold dec_body. intros E H. revert E.
  destruct (id =? 0).
  { intros E. obn E nl r1 E0. ifn E E1. destruct (dec_sni_names (length nl) nl []) as [n|] eqn:En; [|discriminate E].
    cbn [obind] in E. injection E as <- <-. cbn [pre_wfb]. exact (dec_sni_ok _ _ [] _ (eq_refl : sni_pre [] = true) En). }
  destruct (id =? 5). { intros E. obn E ty r1 E0. obn E i1 r2 E1. obn E i2 r3 E2. injection E as <- <-. reflexivity. }
  destruct (id =? 10). { intros E. obn E xs r1 E0. injection E as <- <-. exact (proj1 (nonempty_u16s_ok _ _ _ E0 H)). }
  destruct (id =? 11). { intros E. obn E p r1 E0. ifn E E1. injection E as <- <-. exact (nonnilb_of_is_nil _ E1). }
  destruct (id =? 35). { intros E. injection E as <- <-. reflexivity. }
  destruct (id =? 13). { intros E. obn E xs r1 E0. injection E as <- <-. exact (proj1 (nonempty_u16s_ok _ _ _ E0 H)). }
  destruct (id =? 50). { intros E. obn E xs r1 E0. injection E as <- <-. exact (proj1 (nonempty_u16s_ok _ _ _ E0 H)). }
  destruct (id =? 65281). { intros E. obn E x1 r1 E0. injection E as <- <-. reflexivity. }
  destruct (id =? 23). { intros E. injection E as <- <-. reflexivity. }
  destruct (id =? 16).
  { intros E. obn E pl r1 E0. ifn E E1. destruct (dec_alpn (length pl) pl) as [l|] eqn:El; [|discriminate E]. cbn [obind] in E.
    injection E as <- <-. cbn [pre_wfb]. rewrite (dec_alpn_nonnil _ _ _ El E1), (dec_alpn_ok _ _ _ El). reflexivity. }
  destruct (id =? 18). { intros E. injection E as <- <-. reflexivity. }
  destruct (id =? 43).
  { intros E. obn E vl r1 E0. ifn E E1. destruct (rd_u16s vl) as [xs|] eqn:Ex; [|discriminate E]. cbn [obind] in E.
    injection E as <- <-. cbn [pre_wfb].
    rewrite (rd_u16s_nonnil _ _ Ex E1), (rd_u16s_ok _ _ Ex (proj1 (rd_u8lp_ok _ _ _ E0 H))). reflexivity. }
  destruct (id =? 44). { intros E. obn E c r1 E0. ifn E E1. injection E as <- <-. exact (nonnilb_of_is_nil _ E1). }
  destruct (id =? 51).
  { intros E. obn E cs r1 E0. destruct (dec_shares (length cs) cs) as [l|] eqn:El; [|discriminate E]. cbn [obind] in E.
    injection E as <- <-. cbn [pre_wfb]. exact (dec_shares_ok _ _ _ El (proj1 (rd_u16lp_ok _ _ _ E0 H))). }
  destruct (id =? 42). { intros E. injection E as <- <-. reflexivity. }
  destruct (id =? 45). { intros E. obn E x1 r1 E0. injection E as <- <-. reflexivity. }
  destruct (id =? 57). { intros E. injection E as <- <-. reflexivity. }
  destruct (id =? 41).
  { intros E. obn E il r1 E0. ifn E E1. destruct (dec_ids (length il) il) as [ids|] eqn:Ei; [|discriminate E]. cbn [obind] in E.
    obn E bl r2 E2. ifn E E3. destruct (dec_binders (length bl) bl) as [bs|] eqn:Eb; [|discriminate E]. cbn [obind] in E.
    injection E as <- <-. cbn [pre_wfb]. destruct (rd_u16lp_ok _ _ _ E0 H) as [Hil Hr].
    rewrite (dec_ids_nonnil _ _ _ Ei E1), (dec_ids_ok _ _ _ Ei Hil), (dec_binders_nonnil _ _ _ Eb E3), (dec_binders_ok _ _ _ Eb).
    reflexivity. }
  destruct (id =? 65037). { intros E. injection E as <- <-. reflexivity. }
  intros E. injection E as <- <-. reflexivity.
Qed.

Lemma dec_ext_pre id d x : dec_ext id d = Some x -> bytes_ok d -> pre_wfb x = true.
Proof.
  unfold dec_ext. destruct (dec_body id d) as [[x' r]|] eqn:E; [|discriminate]. cbn [obind].
  destruct (is_nil r); [|discriminate]. intros E2 H. injection E2 as <-. exact (dec_body_pre _ _ _ _ E H).
Qed.

Lemma parse_exts_pre : forall fuel s seen l, parse_exts fuel s seen = Some l -> bytes_ok s -> forallb pre_wfb l = true.
Proof.
  induction fuel as [|fuel IH]; intros s seen l E H; cbn [parse_exts] in E; destruct (is_nil s); try (injection E as <-; reflexivity); try discriminate.
  destruct (rd_u16 s) as [[id r]|] eqn:Ei; [|discriminate]. cbn [obind] in E.
  destruct (rd_u16lp r) as [[d r']|] eqn:Ed; [|discriminate]. cbn [obind] in E.
  destruct (existsb (N.eqb id) seen); [discriminate|]. destruct ((id =? 41) && negb (is_nil r')); [discriminate|].
  destruct (dec_ext id d) as [x|] eqn:Ex; [|discriminate]. cbn [obind] in E.
  destruct (parse_exts fuel r' (id :: seen)) as [l'|] eqn:El; [|discriminate]. cbn [obind] in E. injection E as <-.
  destruct (rd_u16_ok _ _ _ Ei H) as [_ Hr]. destruct (rd_u16lp_ok _ _ _ Ed Hr) as [Hd Hr'].
  cbn [forallb]. rewrite (dec_ext_pre _ _ _ Ex Hd), (IH _ _ _ El Hr'). reflexivity.
Qed.

(* ---------- from the decoded list to the struct fields ---------- *)
Lemma find_map_some {B} (f : ext -> option B) l v : find_map f l = Some v -> exists x, In x l /\ f x = Some v.
Proof.
  induction l as [|y l IH]; cbn; [discriminate|]. destruct (f y) eqn:E.
  - intros H. injection H as <-. exists y. auto.
  - intros H. destruct (IH H) as (x & Hx & Hf). exists x. auto.
Qed.
Lemma pre_of_in l x : forallb pre_wfb l = true -> In x l -> pre_wfb x = true.
Proof. intros H Hin. rewrite forallb_forall in H. exact (H x Hin). Qed.

(* the record unmarshal builds, with the two fields the well-formedness does not look at left open *)
Definition proj_with (o : option bytes) (e : list N) (vers : N) (random sid : bytes) (suites : list N) (comp : bytes) (l : list ext) : clientHelloMsg :=
  {| ch_original := o; ch_vers := vers; ch_random := random; ch_sessionId := sid; ch_cipherSuites := suites;
     ch_compressionMethods := comp; ch_serverName := g_sni l; ch_ocspStapling := g_status l; ch_supportedCurves := g_curves l;
     ch_supportedPoints := g_points l; ch_ticketSupported := match g_ticket l with Some _ => true | None => false end;
     ch_sessionTicket := match g_ticket l with Some t => t | None => [] end;
     ch_supportedSignatureAlgorithms := g_sigalgs l; ch_supportedSignatureAlgorithmsCert := g_sigalgscert l;
     ch_secureRenegotiationSupported := existsb (N.eqb scsv) suites || match g_reneg l with Some _ => true | None => false end;
     ch_secureRenegotiation := match g_reneg l with Some d => d | None => [] end;
     ch_extendedMasterSecret := g_ems l; ch_alpnProtocols := g_alpn l; ch_scts := g_sct l; ch_supportedVersions := g_versions l;
     ch_cookie := g_cookie l; ch_keyShares := slice_of (g_shares l); ch_earlyData := g_early l; ch_pskModes := g_pskmodes l;
     ch_pskIdentities := slice_of (fst (g_psk l)); ch_pskBinders := snd (g_psk l); ch_quicTransportParameters := g_quic l;
     ch_encryptedClientHello := g_ech l; ch_extensions := e; ch_nextProtoNeg := false |}.
Lemma project_is_proj_with data vers random sid suites comp l :
  project data vers random sid suites comp l = proj_with (Some data) (map ext_id l) vers random sid suites comp l.
Proof. reflexivity. Qed.

Lemma elems_slice_of {A} (l : list A) : elems (slice_of l) = l.
Proof. destruct l; reflexivity. Qed.
Lemma slice_of_not_some_nil {A} (l : list A) : is_some_nil (slice_of l) = false.
Proof. destruct l; reflexivity. Qed.

Section Getters.
  Variable l : list ext.
  Hypothesis Hl : forallb pre_wfb l = true.

  Lemma g_sni_pre : sni_pre (g_sni l) = true.
  Proof.
    unfold g_sni. destruct (find_map _ l) as [n|] eqn:E; [|reflexivity].
    destruct (find_map_some _ _ _ E) as (x & Hin & Hx). destruct x; try discriminate. injection Hx as ->.
    exact (pre_of_in _ _ Hl Hin).
  Qed.
  Lemma g_curves_pre : nonnilb (g_curves l) = true -> forallb u16_okb (g_curves l) = true.
  Proof.
    unfold g_curves. destruct (find_map _ l) as [n|] eqn:E; [|discriminate]. intros _.
    destruct (find_map_some _ _ _ E) as (x & Hin & Hx). destruct x; try discriminate. injection Hx as ->.
    pose proof (pre_of_in _ _ Hl Hin) as P. cbn [pre_wfb] in P. now apply andb_true_iff in P.
  Qed.
  Lemma g_sigalgs_pre : nonnilb (g_sigalgs l) = true -> forallb u16_okb (g_sigalgs l) = true.
  Proof.
    unfold g_sigalgs. destruct (find_map _ l) as [n|] eqn:E; [|discriminate]. intros _.
    destruct (find_map_some _ _ _ E) as (x & Hin & Hx). destruct x; try discriminate. injection Hx as ->.
    pose proof (pre_of_in _ _ Hl Hin) as P. cbn [pre_wfb] in P. now apply andb_true_iff in P.
  Qed.
  Lemma g_sigalgscert_pre : nonnilb (g_sigalgscert l) = true -> forallb u16_okb (g_sigalgscert l) = true.
  Proof.
    unfold g_sigalgscert. destruct (find_map _ l) as [n|] eqn:E; [|discriminate]. intros _.
    destruct (find_map_some _ _ _ E) as (x & Hin & Hx). destruct x; try discriminate. injection Hx as ->.
    pose proof (pre_of_in _ _ Hl Hin) as P. cbn [pre_wfb] in P. now apply andb_true_iff in P.
  Qed.
  Lemma g_versions_pre : nonnilb (g_versions l) = true -> forallb u16_okb (g_versions l) = true.
  Proof.
    unfold g_versions. destruct (find_map _ l) as [n|] eqn:E; [|discriminate]. intros _.
    destruct (find_map_some _ _ _ E) as (x & Hin & Hx). destruct x; try discriminate. injection Hx as ->.
    pose proof (pre_of_in _ _ Hl Hin) as P. cbn [pre_wfb] in P. now apply andb_true_iff in P.
  Qed.
  Lemma g_alpn_pre : nonnilb (g_alpn l) = true -> forallb nonnilb (g_alpn l) = true.
  Proof.
    unfold g_alpn. destruct (find_map _ l) as [n|] eqn:E; [|discriminate]. intros _.
    destruct (find_map_some _ _ _ E) as (x & Hin & Hx). destruct x; try discriminate. injection Hx as ->.
    pose proof (pre_of_in _ _ Hl Hin) as P. cbn [pre_wfb] in P. now apply andb_true_iff in P.
  Qed.
  Lemma g_shares_pre : forallb share_okb (g_shares l) = true.
  Proof.
    unfold g_shares. destruct (find_map _ l) as [n|] eqn:E; [|reflexivity].
    destruct (find_map_some _ _ _ E) as (x & Hin & Hx). destruct x; try discriminate. injection Hx as ->.
    exact (pre_of_in _ _ Hl Hin).
  Qed.
  Lemma g_psk_pre : nonnilb (fst (g_psk l)) = true ->
    forallb id_okb (fst (g_psk l)) = true /\ nonnilb (snd (g_psk l)) = true /\ forallb nonnilb (snd (g_psk l)) = true.
  Proof.
    unfold g_psk. destruct (find_map _ l) as [[a b]|] eqn:E; [|discriminate]. intros _. cbn [fst snd].
    destruct (find_map_some _ _ _ E) as (x & Hin & Hx). destruct x; try discriminate. injection Hx as -> ->.
    pose proof (pre_of_in _ _ Hl Hin) as P. cbn [pre_wfb] in P.
    apply andb_true_iff in P as [P P4]. apply andb_true_iff in P as [P P3]. apply andb_true_iff in P as [P1 P2]. auto.
  Qed.
  Lemma g_psk_default : nonnilb (fst (g_psk l)) = false -> is_nil (snd (g_psk l)) = true.
  Proof.
    unfold g_psk. destruct (find_map _ l) as [[a b]|] eqn:E; [|reflexivity]. cbn [fst snd]. intros Ha.
    destruct (find_map_some _ _ _ E) as (x & Hin & Hx). destruct x; try discriminate. injection Hx as -> ->.
    pose proof (pre_of_in _ _ Hl Hin) as P. cbn [pre_wfb] in P.
    apply andb_true_iff in P as [P _]. apply andb_true_iff in P as [P _]. apply andb_true_iff in P as [P1 _]. congruence.
  Qed.
End Getters.

Lemma forallb_present (P : ext -> bool) (sl : list (bool * ext)) :
  Forall (fun e => fst e = true -> P (snd e) = true) sl -> forallb P (map snd (filter fst sl)) = true.
Proof.
  induction 1 as [|[c x] sl Hx _ IH]; [reflexivity|]. cbn [filter fst]. destruct c; [|exact IH].
  cbn [map snd forallb]. cbn [fst snd] in Hx. rewrite (Hx eq_refl). exact IH.
Qed.

Lemma negb_is_nil_nonnilb {A} (l : list A) : negb (is_nil l) = nonnilb l. Proof. reflexivity. Qed.

Theorem proj_with_wf o e vers random sid suites comp l :
  vers < 65536 -> forallb u16_okb suites = true -> forallb pre_wfb l = true ->
  wf_msgb (proj_with o e vers random sid suites comp l) = true.
Proof.
  intros Hv Hs Hl. unfold wf_msgb.
  assert (Hcanon : canonb (proj_with o e vers random sid suites comp l) = true).
  { unfold canonb, proj_with.
    cbn [ch_ticketSupported ch_sessionTicket ch_secureRenegotiationSupported ch_secureRenegotiation ch_cipherSuites
         ch_pskIdentities ch_pskBinders ch_keyShares ch_nextProtoNeg].
    repeat (apply andb_true_iff; split).
    - destruct (g_ticket l); reflexivity.
    - destruct (g_reneg l); [rewrite orb_true_r; reflexivity|apply orb_true_r].
    - destruct (existsb (N.eqb scsv) suites); reflexivity.
    - rewrite elems_slice_of. destruct (nonnilb (fst (g_psk l))) eqn:E; [reflexivity|]. exact (g_psk_default l Hl E).
    - now rewrite slice_of_not_some_nil.
    - now rewrite slice_of_not_some_nil.
    - reflexivity. }
  rewrite Hcanon. cbn [andb].
  assert (Hpres : forallb wf_extb (present (proj_with o e vers random sid suites comp l)) = true).
  { unfold present. apply forallb_present. unfold slots, proj_with.
    cbn [ch_serverName ch_supportedPoints ch_ticketSupported ch_sessionTicket ch_secureRenegotiationSupported ch_secureRenegotiation
         ch_extendedMasterSecret ch_scts ch_earlyData ch_quicTransportParameters ch_encryptedClientHello ch_ocspStapling
         ch_supportedCurves ch_supportedSignatureAlgorithms ch_supportedSignatureAlgorithmsCert ch_alpnProtocols ch_supportedVersions
         ch_cookie ch_keyShares ch_pskModes ch_pskIdentities ch_pskBinders].
    rewrite !elems_slice_of.
    repeat apply Forall_cons. all: try apply Forall_nil.
    all: cbn [fst snd]; rewrite ?negb_is_nil_nonnilb; intros Hc; cbn [wf_extb].
    - (* sni *) rewrite Hc. cbn [andb]. pose proof (g_sni_pre l Hl) as P. unfold sni_pre in P.
      unfold nonnilb in Hc. destruct (is_nil (g_sni l)); [discriminate|]. exact P.
    - exact Hc.
    - reflexivity.
    - reflexivity.
    - reflexivity.
    - reflexivity.
    - reflexivity.
    - reflexivity.
    - reflexivity.
    - reflexivity.
    - rewrite Hc. exact (g_curves_pre l Hl Hc).
    - rewrite Hc. exact (g_sigalgs_pre l Hl Hc).
    - rewrite Hc. exact (g_sigalgscert_pre l Hl Hc).
    - rewrite Hc. exact (g_alpn_pre l Hl Hc).
    - rewrite Hc. exact (g_versions_pre l Hl Hc).
    - exact Hc.
    - exact (g_shares_pre l Hl).
    - reflexivity.
    - destruct (g_psk_pre l Hl Hc) as (P1 & P2 & P3). rewrite Hc, P1, P2, P3. reflexivity. }
  rewrite Hpres. cbn [andb]. unfold proj_with. cbn [ch_vers ch_cipherSuites].
  rewrite Hs, andb_true_r. apply N.ltb_lt. exact Hv.
Qed.

(* ---------- unmarshal ---------- *)
Theorem unmarshal_shape b m : unmarshal b = Some m -> bytes_ok b ->
  exists vers random sid suites comp l,
    m = proj_with (Some b) (map ext_id l) vers random sid suites comp l /\
    vers < 65536 /\ forallb u16_okb suites = true /\ forallb pre_wfb l = true.
Proof.
  unfold unmarshal. intros E H.
  destruct (rd_bytes 4 b) as [[h s0]|] eqn:E0; [|discriminate]. cbn [obind] in E.
  destruct (rd_u16 s0) as [[vers s1]|] eqn:E1; [|discriminate]. cbn [obind] in E.
  destruct (rd_bytes 32 s1) as [[random s2]|] eqn:E2; [|discriminate]. cbn [obind] in E.
  destruct (rd_u8lp s2) as [[sid s3]|] eqn:E3; [|discriminate]. cbn [obind] in E.
  destruct (rd_u16lp s3) as [[cs s4]|] eqn:E4; [|discriminate]. cbn [obind] in E.
  destruct (rd_u16s cs) as [suites|] eqn:E5; [|discriminate]. cbn [obind] in E.
  destruct (rd_u8lp s4) as [[comp s5]|] eqn:E6; [|discriminate]. cbn [obind] in E.
  destruct (rd_bytes_ok _ _ _ _ E0 H) as [_ H0]. destruct (rd_u16_ok _ _ _ E1 H0) as [Hv H1].
  destruct (rd_bytes_ok _ _ _ _ E2 H1) as [_ H2]. destruct (rd_u8lp_ok _ _ _ E3 H2) as [_ H3].
  destruct (rd_u16lp_ok _ _ _ E4 H3) as [Hcs H4]. pose proof (rd_u16s_ok _ _ E5 Hcs) as Hs.
  destruct (rd_u8lp_ok _ _ _ E6 H4) as [_ H5].
  destruct (is_nil s5).
  - injection E as <-. exists vers, random, sid, suites, comp, []. rewrite project_is_proj_with. auto.
  - destruct (rd_u16lp s5) as [[exts s6]|] eqn:E7; [|discriminate]. cbn [obind] in E.
    destruct (negb (is_nil s6)); [discriminate|].
    destruct (parse_exts (length exts) exts []) as [l|] eqn:E8; [|discriminate]. cbn [obind] in E. injection E as <-.
    destruct (rd_u16lp_ok _ _ _ E7 H5) as [He _].
    exists vers, random, sid, suites, comp, l. rewrite project_is_proj_with.
    repeat split; auto. exact (parse_exts_pre _ _ _ _ E8 He).
Qed.

Theorem unmarshal_wf b m : unmarshal b = Some m -> bytes_ok b -> wf_msgb m = true.
Proof.
  intros E H. destruct (unmarshal_shape _ _ E H) as (vers & random & sid & suites & comp & l & -> & Hv & Hs & Hl).
  now apply proj_with_wf.
Qed.

(* The write key switch is atomic with sending the KeyUpdate answer: with c.out held across both
   (atomic = true) every interleaving of answers and concurrent Writes yields a wire the peer can follow. *)
From UV Require Import Base.Common Model.KuLock.
From Coq Require Import ZifyBool ZifyNat ZifyN.

Lemma wire_ok_snoc_ku g w : wire_ok g (w ++ [KU]) = wire_ok g w.
Proof. revert g; induction w as [|[g'|] w IH]; intros g; cbn; auto. rewrite IH. reflexivity. Qed.

Lemma wire_ok_snoc_data g w g' : wire_ok g (w ++ [Data g']) = (wire_ok g w && (g' =? g + markers w)%nat)%bool.
Proof.
  revert g; induction w as [|[g''|] w IH]; intros g; cbn.
  - rewrite Nat.add_0_r, andb_true_r. reflexivity.
  - rewrite IH, andb_assoc. reflexivity.
  - rewrite IH. f_equal. f_equal. lia.
Qed.

Lemma markers_snoc_ku w : markers (w ++ [KU]) = S (markers w).
Proof. induction w as [|[g|] w IH]; cbn; auto. Qed.
Lemma markers_snoc_data w g : markers (w ++ [Data g]) = markers w.
Proof. induction w as [|[g'|] w IH]; cbn; auto. Qed.

(* lock-held facts + the relation between key generation and KeyUpdate records sent *)
Definition ku_inv (s : st) : Prop :=
  wire_ok 0 (wire s) = true /\
  (match pcA s with
   | A0 => gen s = markers (wire s) /\ lock s <> ByAnswerer
   | A1 => gen s = markers (wire s) /\ lock s = ByAnswerer
   | A2 => S (gen s) = markers (wire s) /\ lock s = ByAnswerer      (* answer out, old key: nobody else may send *)
   | A2u => False                                                   (* unreachable when atomic *)
   | A3 => gen s = markers (wire s) /\ lock s = ByAnswerer
   end) /\
  (inWrite s = true <-> lock s = ByWriter).

Lemma ku_inv_init : ku_inv ku_init.
Proof. unfold ku_inv, ku_init; cbn. repeat split; try discriminate; auto. Qed.

Lemma ku_step_inv s l s' : ku_inv s -> ku_step true s l = Some s' -> ku_inv s'.
Proof.
  intros (Hw & Hp & Hl) H. unfold ku_step in H.
  destruct l, (lock s) eqn:El, (pcA s) eqn:Ep, (inWrite s) eqn:Ew; try discriminate;
    inversion H; subst s'; clear H; unfold ku_inv; cbn [wire gen pcA lock inWrite];
    rewrite ?wire_ok_snoc_ku, ?wire_ok_snoc_data, ?markers_snoc_ku, ?markers_snoc_data, ?Hw;
    try (destruct Hp as [Hg Hk]);
    try (destruct Hl as [Hl1 Hl2]);
    repeat split; intros; try discriminate; try congruence; try lia; auto;
    try (exfalso; (discriminate (Hl1 eq_refl) || discriminate (Hl2 eq_refl) || congruence)).
  all: try (cbn; apply Nat.eqb_eq; lia).
Qed.

Theorem ku_run_inv : forall tr s s', ku_inv s -> ku_run true s tr = Some s' -> ku_inv s'.
Proof.
  induction tr as [|l tr IH]; intros s s' Hi H; cbn in H.
  - inversion H; subst; exact Hi.
  - destruct (ku_step true s l) as [s1|] eqn:E; [|discriminate]. eapply IH; [|exact H]. eapply ku_step_inv; eassumption.
Qed.

(* the statement: whatever the schedule, (1) the peer can follow the wire, (2) from the moment the answer is
   sent until the key is switched the answering goroutine owns c.out, (3) hence no Write runs in between *)
Theorem key_switch_atomic tr s :
  ku_run true ku_init tr = Some s ->
  wire_ok 0 (wire s) = true /\ (pcA s = A2 -> lock s = ByAnswerer) /\ (inWrite s = true -> pcA s = A0).
Proof.
  intros H. pose proof (ku_run_inv tr ku_init s ku_inv_init H) as (Hw & Hp & Hl).
  split; [exact Hw|]. split.
  - intros E. rewrite E in Hp. tauto.
  - intros E. apply Hl in E. destruct (pcA s); try reflexivity; try (destruct Hp as [_ Hk]; congruence); contradiction.
Qed.

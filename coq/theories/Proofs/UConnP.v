(* Proofs for C01 over Model/UConn.v: what Handshake writes is the hello rebuilt at
   handshake start from the current header fields and extension objects; no documented edit
   is lost between BuildHandshakeState and Handshake; Raw afterwards is the last hello sent. *)
From UV Require Import Base.Common Model.Wire Model.Ext Model.ExtSpec Model.Strict.
From UV Require Import Proofs.WireP Proofs.ExtP Proofs.StrictP.
From UV Require Import Model.Padding Model.Marshal Model.ChMarshal Proofs.MarshalP Proofs.ChMarshalP Model.UConn.
From Coq Require Import ZifyBool ZifyNat ZifyN.

Section P.
Variable bbs : N -> N.
Variable padto : Z.

(* ---- BuildHandshakeState ---- *)
Lemma build_ok load s s1 : build bbs padto load s = (s1, Ok tt) ->
  marshal_hello bbs padto (u_hdr s1) (u_exts s1) = Ok (u_raw s1)
  /\ u_sent s1 = u_sent s /\ u_done s1 = u_done s
  /\ (load = true -> u_status s1 = BuildByUtls)
  /\ ((u_status s = BuildByUtls \/ u_applied s = true) -> u_hdr s1 = u_hdr s /\ u_exts s1 = u_exts s)
  /\ (u_status s = NotBuilt -> u_applied s = false -> u_spec s = Ok (u_hdr s1, u_exts s1)).
Proof.
  unfold build. intros H.
  assert (Hfin : forall (l : bool) (x : build_status), (l = true -> (if l then BuildByUtls else x) = BuildByUtls))
    by (intros [|] x Hl; [reflexivity | discriminate Hl]).
  destruct (u_status s) eqn:Hst; [| |inversion H].
  - (* NotBuilt *)
    destruct (u_applied s) eqn:Hap.
    + destruct (marshal_hello bbs padto (u_hdr s) (u_exts s)) as [raw| |] eqn:Hm; inversion H; subst s1; cbn.
      repeat split; auto; try (intros; congruence).
    + destruct (u_spec s) as [[h es]| |] eqn:Hsp; [|inversion H|inversion H]. cbn [u_hdr u_exts] in H.
      destruct (marshal_hello bbs padto h es) as [raw| |] eqn:Hm; inversion H; subst s1; cbn.
      repeat split; auto; try (intros; congruence); try (match goal with H : _ \/ _ |- _ => destruct H; discriminate end).
  - (* BuildByUtls *)
    destruct (marshal_hello bbs padto (u_hdr s) (u_exts s)) as [raw| |] eqn:Hm; inversion H; subst s1; cbn.
    repeat split; auto; try (intros; congruence); try (intros _; destruct load; reflexivity).
Qed.

(* ---- Handshake ---- *)
Lemma handshake_ok srv s s' : u_done s = false -> handshake bbs padto srv s = (s', Ok tt) ->
  exists s1, build bbs padto true s = (s1, Ok tt)
    /\ marshal_hello bbs padto (u_hdr s1) (u_exts s1) = Ok (u_raw s1)
    /\ u_hdr s' = u_hdr s1
    /\ match srv with
       | SrvPlain => u_sent s' = u_sent s ++ [u_raw s1] /\ u_raw s' = u_raw s1 /\ u_exts s' = u_exts s1
       | SrvHRR g key cookie idx =>
           exists raw2, hrr_exts g key cookie idx (u_exts s1) = Ok (u_exts s')
             /\ marshal_hello bbs padto (u_hdr s1) (u_exts s') = Ok raw2
             /\ u_sent s' = u_sent s ++ [u_raw s1; raw2] /\ u_raw s' = raw2
       end.
Proof.
  intros Hd H. unfold handshake in H. rewrite Hd in H.
  destruct (build bbs padto true s) as [s1 [[]| |]] eqn:Hb; try (inversion H; fail).
  destruct (build_ok true s s1 Hb) as (Hm & Hsent & _). exists s1. split; [reflexivity|]. split; [exact Hm|].
  destruct srv as [|g key cookie idx].
  - inversion H; subst s'; cbn. rewrite Hsent. auto.
  - destruct (hrr_exts g key cookie idx (u_exts s1)) as [es'| |] eqn:Hh; try (inversion H; fail).
    destruct (marshal_hello bbs padto (u_hdr s1) es') as [raw2| |] eqn:Hm2; inversion H; subst s'; cbn.
    split; [reflexivity|]. exists raw2. rewrite Hsent, <- app_assoc. auto.
Qed.

(* C01_first_record / C01_raw_after at the level of one Handshake from ANY state *)
Lemma first_record srv s s' : u_done s = false -> handshake bbs padto srv s = (s', Ok tt) ->
  exists s1, build bbs padto true s = (s1, Ok tt)
    /\ nth (length (u_sent s)) (u_sent s') [] = u_raw s1
    /\ marshal_hello bbs padto (u_hdr s1) (u_exts s1) = Ok (u_raw s1).
Proof.
  intros Hd H. destruct (handshake_ok srv s s' Hd H) as (s1 & Hb & Hm & _ & Hs). exists s1. split; [exact Hb|]. split; [|exact Hm].
  destruct srv.
  - destruct Hs as (-> & _). rewrite app_nth2, Nat.sub_diag by lia. reflexivity.
  - destruct Hs as (raw2 & _ & _ & -> & _). rewrite app_nth2, Nat.sub_diag by lia. reflexivity.
Qed.

Lemma raw_after srv s s' : u_done s = false -> handshake bbs padto srv s = (s', Ok tt) ->
  u_raw s' = last (u_sent s') [] /\ marshal_hello bbs padto (u_hdr s') (u_exts s') = Ok (u_raw s')
  /\ length (u_sent s') = (length (u_sent s) + match srv with SrvPlain => 1 | _ => 2 end)%nat.
Proof.
  intros Hd H. destruct (handshake_ok srv s s' Hd H) as (s1 & Hb & Hm & Hh & Hs).
  destruct srv.
  - destruct Hs as (Hsent & Hraw & He). rewrite Hsent, Hraw, last_last, Hh, He, app_length. cbn [length]. auto.
  - destruct Hs as (raw2 & _ & Hm2 & Hsent & Hraw).
    rewrite Hsent, Hraw, Hh, app_length. cbn [length].
    change [u_raw s1; raw2] with ([u_raw s1] ++ [raw2]). rewrite app_assoc, last_last. auto.
Qed.

(* ---- edits ---- *)
Definition edits (ops : list op) (hf : hello_hdr * list ext) : hello_hdr * list ext :=
  fold_left (fun hf o => edit o hf) ops hf.

Lemma step_edit s o : is_edit o = true ->
  fst (step bbs padto s o) = set_fields s (fst (edit o (u_hdr s, u_exts s))) (snd (edit o (u_hdr s, u_exts s))).
Proof.
  destruct o; try discriminate; intros _; cbn [step]; destruct (edit _ _); reflexivity.
Qed.

Lemma run_edits ops : forallb is_edit ops = true -> forall s,
  run bbs padto s ops = set_fields s (fst (edits ops (u_hdr s, u_exts s))) (snd (edits ops (u_hdr s, u_exts s))).
Proof.
  induction ops as [|o ops IH]; intros Hall s.
  - destruct s; reflexivity.
  - cbn [forallb] in Hall. apply andb_true_iff in Hall. destruct Hall as [Ho Hr].
    cbn [run]. rewrite (step_edit s o Ho), (IH Hr). unfold edits. cbn [fold_left set_fields u_hdr u_exts].
    destruct (edit o (u_hdr s, u_exts s)) as [h es]. reflexivity.
Qed.

(* after BuildHandshakeState, any sequence of documented edits, then Handshake: the first
   ClientHello is the marshalling of the EDITED fields - nothing is re-applied, nothing is lost *)
Lemma edits_reach_wire s eds srv s' :
  u_status s = BuildByUtls -> u_done s = false -> forallb is_edit eds = true ->
  handshake bbs padto srv (run bbs padto s eds) = (s', Ok tt) ->
  let hf := edits eds (u_hdr s, u_exts s) in
  exists first, nth (length (u_sent s)) (u_sent s') [] = first
    /\ marshal_hello bbs padto (fst hf) (snd hf) = Ok first.
Proof.
  intros Hst Hd Hall H hf. rewrite (run_edits eds Hall s) in H.
  set (se := set_fields s (fst (edits eds (u_hdr s, u_exts s))) (snd (edits eds (u_hdr s, u_exts s)))) in *.
  assert (Hd' : u_done se = false) by exact Hd.
  destruct (first_record srv se s' Hd' H) as (s1 & Hb & Hn & Hm).
  destruct (build_ok true se s1 Hb) as (_ & _ & _ & _ & Hsame & _).
  destruct (Hsame (or_introl Hst)) as [Hh He]. exists (u_raw s1). split; [exact Hn|].
  rewrite Hh, He in Hm. exact Hm.
Qed.

(* ---- reading the edits back with the strict parser ---- *)
Lemma marshal_parses h es raw : wf_specb h es = true -> marshal_hello bbs padto h es = Ok raw ->
  exists a, strict_parse raw = Some a
    /\ c_vers a = h_vers h /\ c_random a = h_random h /\ c_sid a = h_sid h /\ c_suites a = h_suites h /\ c_comp a = h_comp h
    /\ (forall e, In e es -> is_padding e = false -> ext_absent e = false -> In (ext_id e, ext_body e) (c_exts a))
    /\ (forall t, In t (ext_types a) -> In t (map ext_id es)).
Proof.
  intros Hwf Hm. destruct (ok_has_length bbs padto h es raw Hm) as (p & Hp & Hfit & _).
  destruct (marshal_hello_ok bbs padto h es p Hwf Hp Hfit) as (present & Hm2 & Hsub & Hok & Hin).
  rewrite Hm in Hm2. inversion Hm2; subst raw.
  eexists. split; [apply strict_parse_layout; exact Hok|]. cbn [c_vers c_random c_sid c_suites c_comp c_exts].
  repeat split; try reflexivity; [exact Hin|].
  intros t Ht. unfold ext_types in Ht. cbn [c_exts] in Ht. eapply subseq_In; eassumption.
Qed.

(* what each mutator leaves in the fields *)
Lemma edits_app a b hf : edits (a ++ b) hf = edits b (edits a hf).
Proof. unfold edits. apply fold_left_app. Qed.

Lemma edit_random eds r hf : blen r = 32 -> h_random (fst (edits (eds ++ [OSetClientRandom r]) hf)) = r.
Proof.
  intros Hr. rewrite edits_app. destruct (edits eds hf) as [h es]. cbn. rewrite Hr. reflexivity.
Qed.
Lemma edit_sid eds b hf : h_sid (fst (edits (eds ++ [OSetSessionId b]) hf)) = b.
Proof. rewrite edits_app. destruct (edits eds hf) as [h es]. reflexivity. Qed.
Lemma edit_suites eds l hf : h_suites (fst (edits (eds ++ [OSetCipherSuites l]) hf)) = l.
Proof. rewrite edits_app. destruct (edits eds hf) as [h es]. reflexivity. Qed.
Lemma edit_sni eds host hf x : In (ESNI x) (snd (edits eds hf)) ->
  In (ESNI host) (snd (edits (eds ++ [OSetSNI host]) hf)).
Proof.
  intros Hin. rewrite edits_app. destruct (edits eds hf) as [h es]. cbn in *.
  apply in_map_iff. exists (ESNI x). split; [reflexivity | exact Hin].
Qed.
Lemma edit_ext eds i e hf : (i < length (snd (edits eds hf)))%nat ->
  In e (snd (edits (eds ++ [OEditExt i e]) hf)).
Proof.
  intros Hi. rewrite edits_app. destruct (edits eds hf) as [h es]. cbn in *. unfold set_nth.
  apply Nat.ltb_lt in Hi. rewrite Hi. apply in_or_app. right. left. reflexivity.
Qed.
Lemma insert_ext eds i e hf : In e (snd (edits (eds ++ [OInsertExt i e]) hf)).
Proof.
  rewrite edits_app. destruct (edits eds hf) as [h es]. cbn. unfold insert_nth. apply in_or_app. right. left. reflexivity.
Qed.
Lemma remove_ext eds i hf : NoDup (map ext_id (snd (edits eds hf))) -> (i < length (snd (edits eds hf)))%nat ->
  ~ In (ext_id (nth i (snd (edits eds hf)) ESCT)) (map ext_id (snd (edits (eds ++ [ORemoveExt i]) hf))).
Proof.
  intros Hnd Hi. rewrite edits_app. destruct (edits eds hf) as [h es]. cbn in *. unfold remove_nth.
  rewrite <- (firstn_skipn i es) in Hnd at 1. rewrite map_app in Hnd.
  assert (Hsk : skipn i es = nth i es ESCT :: skipn (S i) es).
  { clear Hnd. revert i Hi. induction es as [|x es IH]; intros i Hi; [cbn in Hi; lia|].
    destruct i; [reflexivity|]. cbn [skipn nth]. apply IH. cbn in Hi. lia. }
  rewrite Hsk in Hnd. cbn [map] in Hnd. apply NoDup_remove_2 in Hnd. rewrite map_app. exact Hnd.
Qed.

End P.

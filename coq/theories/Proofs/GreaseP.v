(* Proofs about Model/Grease.v. Finite sweeps are over the low byte of a seed
   word (256 values) or over all 2^16 uint16 values, lifted with sweep_lift
   after a lemma showing that the function only depends on that part. *)
From UV Require Import Base.Common Model.Grease.
From Coq Require Import ZifyBool ZifyNat ZifyN.

(* ---- grease_word only looks at the low byte of the seed word ---- *)

Lemma grease_word_low s : grease_word s = grease_word (N.land s 255).
Proof.
  unfold grease_word, u16.
  change 65536 with (2 ^ 16).
  rewrite <- !N.land_ones.
  rewrite <- !N.land_assoc.
  change (N.land (N.ones 16) 240) with 240.
  change (N.land 255 (N.land (N.ones 16) 240)) with 240.
  change (N.land 255 240) with 240.
  reflexivity.
Qed.

Lemma land255_lt s : N.land s 255 < 256.
Proof.
  change 255 with (N.ones 8). rewrite N.land_ones. apply N.mod_lt. discriminate.
Qed.

(* every value is 0xwAwA, w the high nibble of the low seed byte *)
Definition nib (s : N) : N := N.shiftr (N.land s 255) 4.

Lemma grease_word_val_byte b : b < 256 -> grease_word b = grease_val (N.shiftr b 4).
Proof.
  intros Hb.
  assert (H : forallb (fun b => grease_word b =? grease_val (N.shiftr b 4)) (nrange 256) = true)
    by (vm_compute; reflexivity).
  apply N.eqb_eq. exact (sweep_lift _ 256 H b Hb).
Qed.

Lemma grease_word_val s : grease_word s = grease_val (nib s).
Proof. rewrite grease_word_low. apply grease_word_val_byte, land255_lt. Qed.

Lemma nib_lt s : nib s < 16.
Proof.
  unfold nib. pose proof (land255_lt s) as H.
  rewrite N.shiftr_div_pow2. change (2 ^ 4) with 16.
  apply N.div_lt_upper_bound; lia.
Qed.

Lemma grease_val_is_grease w : w < 16 -> is_grease (grease_val w) = true.
Proof.
  intros Hw.
  assert (H : forallb (fun w => is_grease (grease_val w)) (nrange 16) = true) by (vm_compute; reflexivity).
  exact (sweep_lift _ 16 H w Hw).
Qed.

Lemma grease_word_is_grease s : is_grease (grease_word s) = true.
Proof. rewrite grease_word_val. apply grease_val_is_grease, nib_lt. Qed.

(* is_grease on uint16 = membership in the 16 reserved values (sweep over 2^16) *)
Definition is_grease_ref (v : N) : bool :=
  (v mod 4112 =? 2570) && (v / 4112 <? 16).

(* two-level sweep over uint16 = 256 * hi + lo (no large nat literal) *)
Lemma sweep16_lift (P : N -> bool) :
  forallb (fun h => forallb (fun l => P (256 * h + l)) (nrange 256)) (nrange 256) = true ->
  forall v, v < 65536 -> P v = true.
Proof.
  intros H v Hv.
  pose proof (N.div_mod v 256 ltac:(discriminate)) as E.
  pose proof (N.mod_lt v 256 ltac:(discriminate)) as Hl.
  assert (Hh : v / 256 < 256) by (apply N.div_lt_upper_bound; lia).
  pose proof (sweep_lift _ 256 H (v / 256) Hh) as H1. cbv beta in H1.
  pose proof (sweep_lift _ 256 H1 (v mod 256) Hl) as H2. cbv beta in H2.
  rewrite <- E in H2. exact H2.
Qed.

Lemma is_grease_sweep :
  forallb (fun h => forallb (fun l => Bool.eqb (is_grease (256 * h + l)) (is_grease_ref (256 * h + l))) (nrange 256)) (nrange 256) = true.
Proof. vm_compute. reflexivity. Qed.

Lemma is_grease_spec v : v < 65536 ->
  (is_grease v = true <-> exists w, w < 16 /\ v = grease_val w).
Proof.
  intros Hv.
  pose proof (sweep16_lift (fun v => Bool.eqb (is_grease v) (is_grease_ref v)) is_grease_sweep v Hv) as H. cbv beta in H.
  apply Bool.eqb_prop in H. rewrite H. unfold is_grease_ref, grease_val.
  rewrite andb_true_iff, N.eqb_eq, N.ltb_lt. split.
  - intros [Hm Hd]. exists (v / 4112). split; [exact Hd|].
    pose proof (N.div_mod v 4112 ltac:(discriminate)) as E. lia.
  - intros (w & Hw & ->). split.
    + rewrite N.add_comm, N.mul_comm, N.mod_add by discriminate. reflexivity.
    + rewrite N.add_comm, N.mul_comm, N.div_add by discriminate. change (2570 / 4112) with 0. lia.
Qed.

(* ---- boring_grease ---- *)

Lemma boring_grease_form sd idx v : boring_grease sd idx = Ok v ->
  is_grease v = true /\ exists w, w < 16 /\ v = grease_val w.
Proof.
  unfold boring_grease. destruct (nth_error sd idx) as [s|]; [|discriminate].
  intros H; inversion H; subst v. split.
  - apply grease_word_is_grease.
  - exists (nib s). split; [apply nib_lt | apply grease_word_val].
Qed.

Lemma boring_grease_panics sd idx : (length sd <= idx)%nat -> boring_grease sd idx = Panic P_INDEX.
Proof.
  intros H. unfold boring_grease. apply nth_error_None in H. rewrite H. reflexivity.
Qed.

(* ---- the ^= 0x1010 de-duplication ---- *)

Lemma xor_flips_byte b : b < 256 -> grease_word (N.lxor b 16) <> grease_word b.
Proof.
  intros Hb.
  assert (H : forallb (fun b => negb (grease_word (N.lxor b 16) =? grease_word b)) (nrange 256) = true)
    by (vm_compute; reflexivity).
  pose proof (sweep_lift _ 256 H b Hb) as H1. cbv beta in H1.
  apply negb_true_iff, N.eqb_neq in H1. exact H1.
Qed.

Lemma land_lxor_distr_l a b c : N.land (N.lxor a b) c = N.lxor (N.land a c) (N.land b c).
Proof.
  apply N.bits_inj. intros n. rewrite N.land_spec, !N.lxor_spec, !N.land_spec.
  destruct (N.testbit a n), (N.testbit b n), (N.testbit c n); reflexivity.
Qed.

Lemma xor_flips s : grease_word (N.lxor s 4112) <> grease_word s.
Proof.
  rewrite (grease_word_low (N.lxor s 4112)), (grease_word_low s).
  rewrite land_lxor_distr_l. change (N.land 4112 255) with 16.
  apply xor_flips_byte, land255_lt.
Qed.

Lemma seed_words_length n gb : (length gb = 2 * n)%nat -> length (seed_words n gb) = n.
Proof.
  revert gb; induction n as [|n IH]; intros gb H; [reflexivity|].
  destruct gb as [|b0 [|b1 r]]; cbn in H; try lia. cbn [seed_words length]. f_equal. apply IH. lia.
Qed.

Lemma grease_seed_shape gb sd : grease_seed gb = Ok sd ->
  exists c g e1 e2 v, sd = [c; g; e1; e2; v] /\ grease_word e1 <> grease_word e2.
Proof.
  unfold grease_seed. destruct (Nat.eqb_spec (length gb) (2 * ssl_grease_last_index)) as [Hl|]; [|discriminate].
  pose proof (seed_words_length _ _ Hl) as Hn.
  set (ws := seed_words ssl_grease_last_index gb) in *. clearbody ws.
  intros H. injection H as H. subst sd.
  destruct ws as [|c [|g [|e1 [|e2 [|v [|x r]]]]]]; cbn in Hn; try discriminate.
  unfold dedup_ext. destruct (N.eqb_spec (grease_word e1) (grease_word e2)) as [E|NE].
  - exists c, g, e1, (N.lxor e2 4112), v. split; [reflexivity|]. rewrite E. intros C. symmetry in C. revert C. apply xor_flips.
  - exists c, g, e1, e2, v. split; [reflexivity | exact NE].
Qed.

Lemma ext_values_differ gb sd : grease_seed gb = Ok sd ->
  exists v1 v2, boring_grease sd ssl_grease_extension1 = Ok v1 /\
                boring_grease sd ssl_grease_extension2 = Ok v2 /\ v1 <> v2.
Proof.
  intros H. destruct (grease_seed_shape _ _ H) as (c & g & e1 & e2 & v & -> & NE).
  exists (grease_word e1), (grease_word e2). split; [reflexivity | split; [reflexivity | exact NE]].
Qed.

Lemma slots_defined gb sd idx : grease_seed gb = Ok sd -> (idx < ssl_grease_last_index)%nat ->
  exists v, boring_grease sd idx = Ok v.
Proof.
  intros H Hi. destruct (grease_seed_shape _ _ H) as (c & g & e1 & e2 & v & -> & _).
  unfold ssl_grease_last_index in Hi.
  destruct idx as [|[|[|[|[|k]]]]]; try lia; eexists; reflexivity.
Qed.

(* ---- regrease / map_res ---- *)

Definition regreased (g : res N) (a b : N) : Prop :=
  if is_grease a then g = Ok b else b = a.

Lemma map_regrease sd idx l l' : map_res (regrease sd idx) l = Ok l' ->
  Forall2 (regreased (boring_grease sd idx)) l l'.
Proof.
  revert l'; induction l as [|a l IH]; intros l' H; cbn in H.
  - inversion H. constructor.
  - unfold regrease at 1 in H. unfold regreased.
    destruct (is_grease a) eqn:Ga.
    + destruct (boring_grease sd idx) as [b| |] eqn:Gb; cbn in H; try discriminate.
      destruct (map_res (regrease sd idx) l) as [r| |] eqn:Gr; cbn in H; try discriminate.
      inversion H; subst. constructor; [rewrite Ga; reflexivity | apply IH; reflexivity].
    + cbn in H. destruct (map_res (regrease sd idx) l) as [r| |] eqn:Gr; cbn in H; try discriminate.
      inversion H; subst. constructor; [rewrite Ga; reflexivity | apply IH; reflexivity].
Qed.

(* every GREASE value left in the output is the slot value; all others are untouched *)
Lemma regreased_out g l l' : Forall2 (regreased g) l l' ->
  (forall v, g = Ok v -> is_grease v = true) ->
  Forall (fun b => is_grease b = true -> g = Ok b) l'.
Proof.
  intros H Hg. induction H as [|a b l l' Hab _ IH]; constructor; [|exact IH].
  unfold regreased in Hab. destruct (is_grease a) eqn:Ga.
  - intros _. exact Hab.
  - subst b. rewrite Ga. discriminate.
Qed.

Lemma regreased_reserved g l l' : Forall2 (regreased g) l l' ->
  (forall v, g = Ok v -> is_grease v = true) ->
  Forall2 (fun a b => if is_grease a then is_grease b = true else b = a) l l'.
Proof.
  intros H Hg. induction H as [|a b l l' Hab _ IH]; constructor; [|exact IH].
  unfold regreased in Hab. destruct (is_grease a); [apply Hg; exact Hab | exact Hab].
Qed.

Lemma boring_is_grease sd idx v : boring_grease sd idx = Ok v -> is_grease v = true.
Proof. intros H. apply (boring_grease_form _ _ _ H). Qed.

(* ---- apply_exts ---- *)

(* per-extension relation between input and output of ApplyPreset *)
Definition ext_rel (sd : list N) (a b : ext) : Prop :=
  match a, b with
  | XGrease _ _, XGrease v _ => is_grease v = true
  | XCurves l, XCurves l' => Forall2 (regreased (boring_grease sd ssl_grease_group)) l l'
  | XKeyShare l, XKeyShare l' => Forall2 (regreased (boring_grease sd ssl_grease_group)) l l'
  | XVersions l, XVersions l' => Forall2 (regreased (boring_grease sd ssl_grease_version)) l l'
  | XSigAlgs l, XSigAlgs l' => l' = l
  | XOther i, XOther i' => i' = i
  | _, _ => False
  end.

Lemma apply_exts_rel sd es : forall seen es', apply_exts sd seen es = Ok es' -> Forall2 (ext_rel sd) es es'.
Proof.
  induction es as [|e es IH]; intros seen es' H; cbn in H.
  - inversion H. constructor.
  - destruct e as [v b|cs|gs|vs|ss|id].
    + destruct seen as [|[|k]]; try discriminate.
      * destruct (boring_grease sd ssl_grease_extension1) as [x| |] eqn:Gx; cbn in H; try discriminate.
        destruct (apply_exts sd 1 es) as [r| |] eqn:Gr; cbn in H; try discriminate.
        inversion H; subst. constructor; [cbn; eapply boring_is_grease; exact Gx | eapply IH; exact Gr].
      * destruct (boring_grease sd ssl_grease_extension2) as [x| |] eqn:Gx; cbn in H; try discriminate.
        destruct (apply_exts sd 2 es) as [r| |] eqn:Gr; cbn in H; try discriminate.
        inversion H; subst. constructor; [cbn; eapply boring_is_grease; exact Gx | eapply IH; exact Gr].
    + destruct (map_res (regrease sd ssl_grease_group) cs) as [cs'| |] eqn:Gc; cbn in H; try discriminate.
      destruct (apply_exts sd seen es) as [r| |] eqn:Gr; cbn in H; try discriminate.
      inversion H; subst. constructor; [cbn; apply map_regrease; exact Gc | eapply IH; exact Gr].
    + destruct (map_res (regrease sd ssl_grease_group) gs) as [gs'| |] eqn:Gc; cbn in H; try discriminate.
      destruct (apply_exts sd seen es) as [r| |] eqn:Gr; cbn in H; try discriminate.
      inversion H; subst. constructor; [cbn; apply map_regrease; exact Gc | eapply IH; exact Gr].
    + destruct (map_res (regrease sd ssl_grease_version) vs) as [vs'| |] eqn:Gc; cbn in H; try discriminate.
      destruct (apply_exts sd seen es) as [r| |] eqn:Gr; cbn in H; try discriminate.
      inversion H; subst. constructor; [cbn; apply map_regrease; exact Gc | eapply IH; exact Gr].
    + destruct (apply_exts sd seen es) as [r| |] eqn:Gr; cbn in H; try discriminate.
      inversion H; subst. constructor; [reflexivity | eapply IH; exact Gr].
    + destruct (apply_exts sd seen es) as [r| |] eqn:Gr; cbn in H; try discriminate.
      inversion H; subst. constructor; [reflexivity | eapply IH; exact Gr].
Qed.

(* the GREASE extension values written: a prefix-closed description by [seen] *)
Lemma apply_exts_values sd es : forall seen es', apply_exts sd seen es = Ok es' ->
  forall v1 v2, boring_grease sd ssl_grease_extension1 = Ok v1 ->
                boring_grease sd ssl_grease_extension2 = Ok v2 ->
  match seen with
  | O => grease_ext_values es' = [] \/ grease_ext_values es' = [v1] \/ grease_ext_values es' = [v1; v2]
  | S O => grease_ext_values es' = [] \/ grease_ext_values es' = [v2]
  | _ => grease_ext_values es' = []
  end.
Proof.
  induction es as [|e es IH]; intros seen es' H v1 v2 H1 H2; cbn in H.
  - inversion H. destruct seen as [|[|k]]; cbn; auto.
  - destruct e as [v b|cs|gs|vs|ss|id].
    + destruct seen as [|[|k]]; try discriminate.
      * rewrite H1 in H; cbn in H.
        destruct (apply_exts sd 1 es) as [r| |] eqn:Gr; cbn in H; try discriminate.
        inversion H; subst. cbn [grease_ext_values].
        destruct (IH 1%nat r Gr v1 v2 H1 H2) as [E|E]; rewrite E; auto.
      * rewrite H2 in H; cbn in H.
        destruct (apply_exts sd 2 es) as [r| |] eqn:Gr; cbn in H; try discriminate.
        inversion H; subst. cbn [grease_ext_values].
        pose proof (IH 2%nat r Gr v1 v2 H1 H2) as E. cbn in E. rewrite E. auto.
    + destruct (map_res (regrease sd ssl_grease_group) cs) as [cs'| |]; cbn in H; try discriminate.
      destruct (apply_exts sd seen es) as [r| |] eqn:Gr; cbn in H; try discriminate.
      inversion H; subst. cbn [grease_ext_values]. exact (IH seen r Gr v1 v2 H1 H2).
    + destruct (map_res (regrease sd ssl_grease_group) gs) as [gs'| |]; cbn in H; try discriminate.
      destruct (apply_exts sd seen es) as [r| |] eqn:Gr; cbn in H; try discriminate.
      inversion H; subst. cbn [grease_ext_values]. exact (IH seen r Gr v1 v2 H1 H2).
    + destruct (map_res (regrease sd ssl_grease_version) vs) as [vs'| |]; cbn in H; try discriminate.
      destruct (apply_exts sd seen es) as [r| |] eqn:Gr; cbn in H; try discriminate.
      inversion H; subst. cbn [grease_ext_values]. exact (IH seen r Gr v1 v2 H1 H2).
    + destruct (apply_exts sd seen es) as [r| |] eqn:Gr; cbn in H; try discriminate.
      inversion H; subst. cbn [grease_ext_values]. exact (IH seen r Gr v1 v2 H1 H2).
    + destruct (apply_exts sd seen es) as [r| |] eqn:Gr; cbn in H; try discriminate.
      inversion H; subst. cbn [grease_ext_values]. exact (IH seen r Gr v1 v2 H1 H2).
Qed.

(* ---- apply_preset_grease: the property-level statements ---- *)

Lemma apply_preset_inv gb suites exts suites' exts' :
  apply_preset_grease gb suites exts = Ok (suites', exts') ->
  exists sd, grease_seed gb = Ok sd /\
             map_res (regrease sd ssl_grease_cipher) suites = Ok suites' /\
             apply_exts sd 0 exts = Ok exts'.
Proof.
  unfold apply_preset_grease. intros H.
  destruct (grease_seed gb) as [sd| |] eqn:Hs; cbn [bind] in H; try discriminate.
  destruct (map_res (regrease sd ssl_grease_cipher) suites) as [s'| |] eqn:Hc; cbn [bind] in H; try discriminate.
  destruct (apply_exts sd 0 exts) as [e'| |] eqn:He; cbn [bind] in H; try discriminate.
  injection H as H1 H2. subst s' e'. exists sd. split; [reflexivity | split; [exact Hc | exact He]].
Qed.

Lemma preset_ext_distinct gb suites exts suites' exts' :
  apply_preset_grease gb suites exts = Ok (suites', exts') -> NoDup (grease_ext_values exts').
Proof.
  intros H. destruct (apply_preset_inv _ _ _ _ _ H) as (sd & Hs & _ & He).
  destruct (ext_values_differ _ _ Hs) as (v1 & v2 & H1 & H2 & NE).
  pose proof (apply_exts_values sd exts 0%nat exts' He v1 v2 H1 H2) as E. cbn in E.
  destruct E as [E|[E|E]]; rewrite E.
  - constructor.
  - constructor; [intros []| constructor].
  - constructor; [intros [C|[]]; congruence|]. constructor; [intros []| constructor].
Qed.

(* GREASE groups in supported_groups and key_share are one and the same value *)
Definition groups_of (e : ext) : list N :=
  match e with XCurves l => l | XKeyShare l => l | _ => [] end.

Lemma ext_rel_groups sd es es' : Forall2 (ext_rel sd) es es' ->
  Forall (fun e => Forall (fun b => is_grease b = true -> boring_grease sd ssl_grease_group = Ok b) (groups_of e)) es'.
Proof.
  intros R. induction R as [|a b l l' Hab _ IH]; [constructor|]. constructor; [|exact IH].
  destruct a, b; cbn in Hab; try contradiction; cbn [groups_of]; try constructor.
  - eapply regreased_out; [exact Hab | apply boring_is_grease].
  - eapply regreased_out; [exact Hab | apply boring_is_grease].
Qed.

Lemma preset_group_consistent gb suites exts suites' exts' :
  apply_preset_grease gb suites exts = Ok (suites', exts') ->
  exists g, slot gb ssl_grease_group = Ok g /\ is_grease g = true /\
    forall e c, In e exts' -> In c (groups_of e) -> is_grease c = true -> c = g.
Proof.
  intros H. destruct (apply_preset_inv _ _ _ _ _ H) as (sd & Hs & _ & He).
  destruct (slots_defined gb sd ssl_grease_group Hs ltac:(cbv; lia)) as (g & Hg).
  exists g. split; [unfold slot; rewrite Hs; exact Hg|]. split; [eapply boring_is_grease; exact Hg|].
  pose proof (apply_exts_rel _ _ _ _ He) as R.
  intros e c Hin Hc Gc.
  pose proof (ext_rel_groups _ _ _ R) as Hall.
  rewrite Forall_forall in Hall. specialize (Hall e Hin). rewrite Forall_forall in Hall.
  specialize (Hall c Hc Gc). congruence.
Qed.

(* every position that held a GREASE value holds a reserved value afterwards,
   every other value is untouched; extension kinds and order are preserved *)
Definition reserved_rel (a b : N) : Prop := if is_grease a then is_grease b = true else b = a.

Definition ext_reserved (a b : ext) : Prop :=
  match a, b with
  | XGrease _ _, XGrease v _ => is_grease v = true
  | XCurves l, XCurves l' => Forall2 reserved_rel l l'
  | XKeyShare l, XKeyShare l' => Forall2 reserved_rel l l'
  | XVersions l, XVersions l' => Forall2 reserved_rel l l'
  | XSigAlgs l, XSigAlgs l' => l' = l
  | XOther i, XOther i' => i' = i
  | _, _ => False
  end.

Lemma ext_rel_reserved sd es es' : Forall2 (ext_rel sd) es es' -> Forall2 ext_reserved es es'.
Proof.
  intros R. induction R as [|a b l l' Hab _ IH]; [constructor|]. constructor; [|exact IH].
  destruct a, b; cbn in Hab; try contradiction; cbn; try exact Hab;
    (eapply regreased_reserved; [exact Hab | apply boring_is_grease]).
Qed.

Lemma preset_reserved gb suites exts suites' exts' :
  apply_preset_grease gb suites exts = Ok (suites', exts') ->
  Forall2 reserved_rel suites suites' /\ Forall2 ext_reserved exts exts'.
Proof.
  intros H. destruct (apply_preset_inv _ _ _ _ _ H) as (sd & Hs & Hc & He). split.
  - eapply regreased_reserved; [apply map_regrease; exact Hc | apply boring_is_grease].
  - apply (ext_rel_reserved sd). eapply apply_exts_rel. exact He.
Qed.

(* all GREASE cipher suites are the cipher slot value, all GREASE versions the version slot value *)
Lemma preset_suites gb suites exts suites' exts' :
  apply_preset_grease gb suites exts = Ok (suites', exts') ->
  exists g, slot gb ssl_grease_cipher = Ok g /\ forall c, In c suites' -> is_grease c = true -> c = g.
Proof.
  intros H. destruct (apply_preset_inv _ _ _ _ _ H) as (sd & Hs & Hc & _).
  destruct (slots_defined gb sd ssl_grease_cipher Hs ltac:(cbv; lia)) as (g & Hg).
  exists g. split; [unfold slot; rewrite Hs; exact Hg|].
  pose proof (regreased_out _ _ _ (map_regrease _ _ _ _ Hc) (boring_is_grease sd _)) as F.
  rewrite Forall_forall in F. intros c Hin Gc. specialize (F c Hin Gc). congruence.
Qed.

(* ApplyPreset fails (only) on a third GREASE extension *)
Lemma map_regrease_ok sd idx l : (idx < length sd)%nat -> exists l', map_res (regrease sd idx) l = Ok l'.
Proof.
  intros Hi. induction l as [|a l (l' & IH)]; [eexists; reflexivity|].
  cbn. unfold regrease at 1. unfold boring_grease.
  destruct (nth_error sd idx) as [s|] eqn:E; [|apply nth_error_None in E; lia].
  destruct (is_grease a); cbn; rewrite IH; cbn; eexists; reflexivity.
Qed.

Fixpoint count_grease (es : list ext) : nat :=
  match es with [] => 0 | XGrease _ _ :: r => S (count_grease r) | _ :: r => count_grease r end.

Lemma apply_exts_ok sd es : length sd = 5%nat -> forall seen, (seen + count_grease es <= 2)%nat ->
  exists es', apply_exts sd seen es = Ok es'.
Proof.
  intros Hl. induction es as [|e es IH]; intros seen Hc; [eexists; reflexivity|].
  destruct e as [v b|cs|gs|vs|ss|id]; cbn [count_grease] in Hc; cbn [apply_exts].
  - unfold boring_grease.
    destruct sd as [|c [|g [|e1 [|e2 [|vv [|x r]]]]]]; try discriminate.
    destruct seen as [|[|k]]; try lia; cbn.
    + destruct (IH 1%nat ltac:(lia)) as (r' & ->). cbn. eexists; reflexivity.
    + destruct (IH 2%nat ltac:(lia)) as (r' & ->). cbn. eexists; reflexivity.
  - destruct (map_regrease_ok sd ssl_grease_group cs ltac:(rewrite Hl; cbv; lia)) as (l' & ->). cbn.
    destruct (IH seen Hc) as (r' & ->). cbn. eexists; reflexivity.
  - destruct (map_regrease_ok sd ssl_grease_group gs ltac:(rewrite Hl; cbv; lia)) as (l' & ->). cbn.
    destruct (IH seen Hc) as (r' & ->). cbn. eexists; reflexivity.
  - destruct (map_regrease_ok sd ssl_grease_version vs ltac:(rewrite Hl; cbv; lia)) as (l' & ->). cbn.
    destruct (IH seen Hc) as (r' & ->). cbn. eexists; reflexivity.
  - destruct (IH seen Hc) as (r' & ->). cbn. eexists; reflexivity.
  - destruct (IH seen Hc) as (r' & ->). cbn. eexists; reflexivity.
Qed.

Lemma preset_total gb suites exts : length gb = 10%nat -> (count_grease exts <= 2)%nat ->
  exists suites' exts', apply_preset_grease gb suites exts = Ok (suites', exts').
Proof.
  intros Hl Hc. unfold apply_preset_grease.
  destruct (grease_seed gb) as [sd| |] eqn:Hs.
  2,3: unfold grease_seed in Hs; rewrite Hl in Hs; discriminate.
  destruct (grease_seed_shape _ _ Hs) as (c & g & e1 & e2 & v & -> & _). cbn [bind].
  destruct (map_regrease_ok [c; g; e1; e2; v] ssl_grease_cipher suites ltac:(cbv; lia)) as (s' & ->). cbn [bind].
  destruct (apply_exts_ok [c; g; e1; e2; v] exts eq_refl 0%nat ltac:(lia)) as (e' & ->). cbn [bind].
  eexists; eexists; reflexivity.
Qed.

(* ---- reachability / uniformity (freshness reduces to the entropy source) ---- *)

(* ten seed bytes that make slot idx produce 0xwAwA *)
Definition reach_witness (idx : nat) (w : N) : bytes :=
  let b := 16 * w in
  let o := 16 * ((w + 1) mod 16) in
  match idx with
  | 2%nat => [0;0; 0;0; b;0; o;0; 0;0]
  | 3%nat => [0;0; 0;0; o;0; b;0; 0;0]
  | _ => [b;0; b;0; 0;0; 16;0; b;0]
  end.

Definition reach_ok (p : N) : bool :=
  let idx := N.to_nat (p / 16) in let w := p mod 16 in
  bytes_okb (reach_witness idx w) &&
  match slot (reach_witness idx w) idx with Ok v => v =? grease_val w | _ => false end.

Lemma reach_sweep : forallb reach_ok (nrange 80) = true.
Proof. vm_compute. reflexivity. Qed.

Lemma reachable idx w : (idx < ssl_grease_last_index)%nat -> w < 16 ->
  exists gb, length gb = 10%nat /\ bytes_ok gb /\ slot gb idx = Ok (grease_val w).
Proof.
  intros Hi Hw. unfold ssl_grease_last_index in Hi.
  pose proof (sweep_lift _ 80 reach_sweep (16 * N.of_nat idx + w) ltac:(lia)) as H.
  unfold reach_ok in H.
  replace ((16 * N.of_nat idx + w) / 16) with (N.of_nat idx) in H
    by (rewrite N.mul_comm, N.div_add_l by discriminate; rewrite (N.div_small w 16) by lia; lia).
  replace ((16 * N.of_nat idx + w) mod 16) with w in H
    by (rewrite N.add_comm, N.mul_comm, N.mod_add by discriminate; rewrite N.mod_small by lia; reflexivity).
  rewrite Nat2N.id in H. apply andb_true_iff in H. destruct H as [Hb Hv].
  exists (reach_witness idx w). split; [|split].
  - destruct idx as [|[|[|[|[|k]]]]]; reflexivity.
  - apply bytes_okb_spec. exact Hb.
  - destruct (slot (reach_witness idx w) idx) as [v| |]; try discriminate.
    apply N.eqb_eq in Hv. rewrite Hv. reflexivity.
Qed.

(* a uniform low seed byte gives a uniform GREASE value: 16 of the 256 bytes map to each value *)
Lemma uniform w : w < 16 ->
  length (filter (fun b => grease_word b =? grease_val w) (nrange 256)) = 16%nat.
Proof.
  intros Hw.
  assert (H : forallb (fun w => Nat.eqb (length (filter (fun b => grease_word b =? grease_val w) (nrange 256))) 16) (nrange 16) = true)
    by (vm_compute; reflexivity).
  pose proof (sweep_lift _ 16 H w Hw) as H1. cbv beta in H1. apply Nat.eqb_eq in H1. exact H1.
Qed.

(* ---------------------------------------------------------------- QUIC ---- *)

Lemma grease_id_plain k : k < GREASE_MAX_MULTIPLIER -> grease_id (Some k) = 27 + k * 31.
Proof.
  intros Hk. unfold grease_id, u64.
  assert (Hm : GREASE_MAX_MULTIPLIER = 148764065110560899) by (vm_compute; reflexivity).
  rewrite Hm in Hk.
  rewrite (N.mod_small k) by lia.
  rewrite (N.mod_small (k * 31)) by lia.
  rewrite N.mod_small by lia. reflexivity.
Qed.

Lemma grease_id_ok k : k < GREASE_MAX_MULTIPLIER ->
  grease_id (Some k) mod 31 = 27 /\ grease_id (Some k) < two62 /\ is_grease_id (grease_id (Some k)) = true.
Proof.
  intros Hk. rewrite (grease_id_plain k Hk).
  assert (Hm : GREASE_MAX_MULTIPLIER = 148764065110560899) by (vm_compute; reflexivity).
  rewrite Hm in Hk. unfold two62, is_grease_id. repeat split.
  - rewrite N.mod_add by discriminate. reflexivity.
  - lia.
  - apply andb_true_iff; split; [apply N.leb_le; lia|].
    replace (27 + k * 31 - 27) with (k * 31) by lia.
    rewrite N.mod_mul by discriminate. reflexivity.
Qed.

Lemma grease_id_fallback : grease_id None mod 31 = 27 /\ grease_id None < two62 /\ is_grease_id (grease_id None) = true.
Proof. vm_compute. auto. Qed.

Lemma is_grease_id_spec id : is_grease_id id = true <-> exists n, id = 31 * n + 27.
Proof.
  unfold is_grease_id. rewrite andb_true_iff, N.leb_le, N.eqb_eq. split.
  - intros [Hle Hm]. exists ((id - 27) / 31).
    pose proof (N.div_mod (id - 27) 31 ltac:(discriminate)) as E. lia.
  - intros (n & ->). split; [lia|].
    replace (31 * n + 27 - 27) with (n * 31) by lia. apply N.mod_mul. discriminate.
Qed.

Lemma is_grease_id_small id : id < 27 -> is_grease_id id = false.
Proof.
  intros H. unfold is_grease_id. destruct (N.leb_spec 27 id) as [Hle|_]; [lia | reflexivity].
Qed.

Lemma tp_grease_id_ok o d : (forall k, d = Some k -> k < GREASE_MAX_MULTIPLIER) ->
  is_grease_id (tp_grease_id o d) = true.
Proof.
  intros Hd. unfold tp_grease_id. destruct (is_grease_id o) eqn:E; [exact E|].
  destruct d as [k|]; [apply grease_id_ok, Hd; reflexivity | apply grease_id_fallback].
Qed.

Lemma grease_version_ok d : is_grease_version (grease_version d) = true.
Proof.
  unfold is_grease_version, grease_version. destruct d as [x|]; [|reflexivity].
  apply N.eqb_eq. rewrite N.land_lor_distr_l, <- N.land_assoc.
  change (N.land 4042322160 252645135) with 0. rewrite N.land_0_r. reflexivity.
Qed.

Lemma grease_version_u32 d : grease_version d < 4294967296.
Proof.
  unfold grease_version, VERSION_GREASE. destruct d as [x|]; [|lia].
  set (y := u32 _).
  assert (E : N.land (N.lor (N.land y 4042322160) 168430090) (N.ones 32) = N.lor (N.land y 4042322160) 168430090).
  { rewrite N.land_lor_distr_l, <- N.land_assoc.
    change (N.land 4042322160 (N.ones 32)) with 4042322160.
    change (N.land 168430090 (N.ones 32)) with 168430090. reflexivity. }
  rewrite <- E, N.land_ones. change 4294967296 with (2 ^ 32). apply N.mod_lt. discriminate.
Qed.

Lemma unfixed_witness : is_grease_version (grease_version_unfixed (Some 1)) = false.
Proof. vm_compute. reflexivity. Qed.

Lemma vi_versions_spec avail : forall draws,
  Forall2 (fun a b => if a =? VERSION_GREASE then is_grease_version b = true else b = a)
          avail (vi_versions avail draws).
Proof.
  induction avail as [|v r IH]; intros draws; cbn [vi_versions]; [constructor|].
  destruct (v =? VERSION_GREASE) eqn:E; constructor; try apply IH.
  - rewrite E. apply grease_version_ok.
  - rewrite E. reflexivity.
Qed.

(* Proofs about Model/PresetOk.v, part 2: the static predicate is invariant under everything the Chrome extension
   shuffle can do (so it holds for every draw of a shuffling parrot), and it holds for every entry of the regenerated
   table Gen/Parrots.v (finite: decided by computation). No axioms. *)
From Coq Require Import Permutation.
From UV Require Import Base.Common Model.Wire Model.Ext Model.ExtSpec Model.Strict Proofs.StrictP.
From UV Require Import Model.ChMarshal Model.Shuffle Model.Preset Model.PresetOk.
From UV Require Model.ParrotSpec Proofs.PresetP Gen.Parrots.
From Coq Require Import ZifyBool ZifyNat ZifyN.

(* ---- order-independent parts ---- *)
Lemma forallb_perm {A} (f : A -> bool) l l' : Permutation l l' -> forallb f l = forallb f l'.
Proof.
  induction 1 as [|x l l' _ IH|x y l|l1 l2 l3 _ IH1 _ IH2]; cbn [forallb]; try reflexivity.
  - rewrite IH. reflexivity.
  - destruct (f x), (f y); reflexivity.
  - congruence.
Qed.

Lemma filter_perm {A} (f : A -> bool) l l' : Permutation l l' -> Permutation (filter f l) (filter f l').
Proof.
  induction 1 as [|x l l' _ IH|x y l|l1 l2 l3 _ IH1 _ IH2]; cbn [filter].
  - constructor.
  - destruct (f x); [constructor; exact IH | exact IH].
  - destruct (f x), (f y); try reflexivity. constructor.
  - eapply Permutation_trans; eassumption.
Qed.

Lemma sum_map_perm {A} (f : A -> N) l l' : Permutation l l' -> sum_map f l = sum_map f l'.
Proof.
  induction 1 as [|x l l' _ IH|x y l|l1 l2 l3 _ IH1 _ IH2]; cbn [sum_map]; try lia.
Qed.

Lemma nodupb_perm l l' : Permutation l l' -> nodupb l = true -> nodupb l' = true.
Proof. intros P H. apply nodupb_spec. apply nodupb_spec in H. eapply Permutation_NoDup; eassumption. Qed.

(* ---- pre_shared_key last, by positions ---- *)
Lemma psk_lastb_pos l : psk_lastb l = true <-> (forall k, nth_error l k = Some ID_PSK -> S k = length l).
Proof.
  induction l as [|x r IH].
  - split; [intros _ k H; destruct k; discriminate | reflexivity].
  - cbn [psk_lastb]. destruct r as [|y r'].
    + split; [|reflexivity]. intros _ k H. destruct k as [|[|k]]; try discriminate. reflexivity.
    + rewrite andb_true_iff, IH. split.
      * intros [Hx Hr] k H. destruct k as [|k].
        -- cbn in H. inversion H; subst x. discriminate.
        -- cbn [nth_error] in H. specialize (Hr k H). cbn [length] in *. lia.
      * intros H. split.
        -- destruct (x =? 41) eqn:E; [|reflexivity]. apply N.eqb_eq in E. subst x. specialize (H 0%nat eq_refl). discriminate.
        -- intros k Hk. specialize (H (S k) Hk). cbn [length] in *. lia.
Qed.

Lemma spsk_fixed s : is_spsk s = true -> ParrotSpec.fixedb s = true.
Proof. destruct s as [e|]; [|discriminate]. destruct e; try discriminate; reflexivity. Qed.

(* every rearrangement the shuffle can produce keeps the predicate *)
Theorem preset_ok_shuffle sp snimax omit swaps exts' :
  preset_ok sp snimax omit = true -> shuffle ParrotSpec.fixedb swaps (sp_exts sp) = Ok exts' ->
  preset_ok (with_exts sp exts') snimax omit = true.
Proof.
  intros Hok Hs. destruct (PresetP.shuffle_ok _ _ _ _ Hs) as [P [K1 K2]].
  unfold preset_ok in *. cbn [with_exts sp_suites sp_exts]. rewrite !andb_true_iff in *.
  destruct Hok as [[[[[[[[[P1 P2] P3] P4] P5] P6] P7] P8] P9] P10].
  repeat split; try assumption.
  - rewrite <- (forallb_perm _ _ _ P). exact P4.
  - rewrite <- (Permutation_length (filter_perm is_sgrease _ _ P)). exact P5.
  - eapply nodupb_perm; [|exact P6]. apply Permutation_map. apply filter_perm. exact P.
  - rewrite <- (forallb_perm _ _ _ P). exact P7.
  - apply psk_lastb_pos. intros k Hk. rewrite nth_error_map in Hk.
    destruct (nth_error exts' k) as [s|] eqn:En; [|discriminate]. cbn [option_map] in Hk.
    assert (Hp : is_spsk s = true) by (unfold pid in Hk; destruct (is_spsk s); [reflexivity|discriminate]).
    pose proof (K2 k s En (spsk_fixed s Hp)) as Hl.
    rewrite map_length, <- (Permutation_length P).
    rewrite psk_lastb_pos in P8. rewrite <- (map_length pid (sp_exts sp)). apply P8.
    rewrite nth_error_map, Hl. cbn [option_map]. inversion Hk. reflexivity.
  - rewrite <- (Permutation_length (filter_perm is_sticket _ _ P)). exact P9.
  - rewrite <- (sum_map_perm _ _ _ P). exact P10.
Qed.

(* ---- the regenerated table ---- *)
(* Every shipped parrot, for Configs whose SNI host name has at most 255 bytes (hostnameInSNI of a DNS name: 253) and that set
   OmitEmptyPsk ... *)
Theorem parrots_preset_ok : forallb (fun p => preset_ok (p_spec p) 255 true) Parrots.all = true.
Proof. vm_compute. reflexivity. Qed.

(* ... and without OmitEmptyPsk every parrot except the four that carry a pre_shared_key extension: for those the hello
   cannot be built without a session (UtlsPreSharedKeyExtension.Read returns ErrEmptyPsk) *)
Definition has_psk (p : parrot) : bool := existsb is_spsk (sp_exts (p_spec p)).
Theorem parrots_preset_ok_no_omit :
  forallb (fun p => preset_ok (p_spec p) 255 false || has_psk p) Parrots.all = true
  /\ map p_name (filter has_psk Parrots.all)
     = map p_name [Parrots.p_Chrome_100_PSK; Parrots.p_Chrome_112_PSK_Shuf; Parrots.p_Chrome_114_Padding_PSK_Shuf; Parrots.p_Chrome_115_PQ_PSK].
Proof. split; vm_compute; reflexivity. Qed.

(* any draw of any shipped parrot *)
Theorem parrots_draw_preset_ok p swaps exts' : In p Parrots.all ->
  shuffle ParrotSpec.fixedb swaps (sp_exts (p_spec p)) = Ok exts' -> preset_ok (with_exts (p_spec p) exts') 255 true = true.
Proof.
  intros Hin Hs. apply (preset_ok_shuffle _ _ _ swaps); [|exact Hs].
  pose proof parrots_preset_ok as T. rewrite forallb_forall in T. exact (T p Hin).
Qed.

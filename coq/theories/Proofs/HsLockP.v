From UV Require Import Base.Common Model.HsLock.

Inductive reach (s0 : state) : state -> Prop :=
| reach_init : reach s0 s0
| reach_step s l s' : reach s0 s -> step s l = Some s' -> reach s0 s'.

Definition in_mu (q : pc) : bool := match q with P3 | P4 | P5 | P6 | PUnlIn | PUnlMu => true | _ => false end.
Definition in_il (q : pc) : bool := match q with P5 | P6 | PUnlIn => true | _ => false end.
Definition is_mine (o : owner) : bool := match o with Mine => true | _ => false end.
Definition pre_spawn (q : pc) : bool := match q with P0 | P1 => true | _ => false end.
Definition is_inone (i : intr) : bool := match i with INone => true | _ => false end.
Definition is_iwait (i : intr) : bool := match i with IWait => true | _ => false end.
Definition is_ifired (i : intr) : bool := match i with IFired => true | _ => false end.
Definition after_done (q : pc) : bool := match q with PWaitI | PRet => true | _ => false end.
Definition is_pwait (q : pc) : bool := match q with PWaitI => true | _ => false end.
Definition is_pret (q : pc) : bool := match q with PRet => true | _ => false end.
Definition ret_set (q : pc) : bool := match q with PUnlIn | PUnlMu | PDefer | PWaitI | PRet => true | _ => false end.

Definition invb (s : state) : bool :=
  negb (complete s && hs_err s)
  && negb (owner_eqb (mutex s) Parked)
  && (negb (owner_eqb (inl s) Parked) || complete s)
  && eqb (is_mine (mutex s)) (in_mu (p s))
  && eqb (is_mine (inl s)) (in_il (p s))
  && match ret s with
     | Some RNil => complete s || reneg s
     | Some RHsErr => hs_err s
     | Some RCtx => conn_closed s && cancelled s && is_pret (p s) && is_ifired (it s)
     | Some RBuildErr => true
     | None => negb (ret_set (p s)) || (match p s with PUnlMu => false | _ => false end)
     end
  && (match ret s with None => true | Some _ => ret_set (p s) || is_pret (p s) end)
  && (is_inone (it s) || cancellable s && negb (pre_spawn (p s)))
  && (negb (cancellable s) || pre_spawn (p s) || is_pret (p s) || negb (is_inone (it s)))
  && (negb (is_pwait (p s)) || done_closed s && negb (is_inone (it s)))
  && (negb (done_closed s) || negb (is_inone (it s)))
  && (negb (is_pret (p s)) || negb (is_iwait (it s)))
  && (negb (done_closed s) || after_done (p s))
  && (negb (is_ifired (it s)) || conn_closed s && cancelled s)
  && (negb (cancelled s) || cancellable s)
  && (negb (is_pret (p s) && is_ifired (it s)) || match ret s with Some RCtx => true | _ => false end)
  && (negb (match p s with P4 | P5 | P6 => true | _ => false end) || negb (complete s) && negb (hs_err s)).

(* ---- the state space is finite: statements about one step are decided by an exhaustive sweep ---- *)
Definition owners := [Free; Mine; Others; Parked].
Definition bools := [true; false].
Definition intrs := [INone; IWait; IFired; INil].
Definition pcs := [P0; P1; P2; P3; P4; P5; P6; PUnlIn; PUnlMu; PDefer; PWaitI; PRet].
Definition rets := [None; Some RNil; Some RHsErr; Some RBuildErr; Some RCtx].
Definition all_states : list state :=
  flat_map (fun mu => flat_map (fun il => flat_map (fun co => flat_map (fun he => flat_map (fun cl =>
  flat_map (fun cn => flat_map (fun ca => flat_map (fun dc => flat_map (fun i => flat_map (fun q =>
  flat_map (fun r => map (fun rn => mkState mu il co he cl cn ca dc i q r rn) bools) rets) pcs) intrs) bools) bools) bools) bools) bools) bools) owners) owners.

Lemma all_states_complete s : In s all_states.
Proof.
  destruct s as [mu il co he cl cn ca dc i q r rn]. unfold all_states.
  apply in_flat_map. exists mu. split; [destruct mu; cbn; auto|].
  apply in_flat_map. exists il. split; [destruct il; cbn; auto|].
  apply in_flat_map. exists co. split; [destruct co; cbn; auto|].
  apply in_flat_map. exists he. split; [destruct he; cbn; auto|].
  apply in_flat_map. exists cl. split; [destruct cl; cbn; auto|].
  apply in_flat_map. exists cn. split; [destruct cn; cbn; auto|].
  apply in_flat_map. exists ca. split; [destruct ca; cbn; auto|].
  apply in_flat_map. exists dc. split; [destruct dc; cbn; auto|].
  apply in_flat_map. exists i. split; [destruct i; cbn; auto|].
  apply in_flat_map. exists q. split; [destruct q; cbn; auto 20|].
  apply in_flat_map. exists r. split; [destruct r as [[| | |]|]; cbn; auto 10|].
  apply in_map. destruct rn; cbn; auto.
Qed.

Lemma sweep (P : state -> bool) : forallb P all_states = true -> forall s, P s = true.
Proof. intros H s. rewrite forallb_forall in H. apply H. apply all_states_complete. Qed.

Definition step_preserves (s : state) : bool :=
  implb (invb s) (forallb (fun l => match step s l with Some s' => invb s' | None => true end) all_labels).
Lemma step_preserves_all : forallb step_preserves all_states = true.
Proof. vm_compute. reflexivity. Qed.

Lemma inv_step s l s' : invb s = true -> step s l = Some s' -> invb s' = true.
Proof.
  intros I S. pose proof (sweep _ step_preserves_all s) as H. unfold step_preserves in H. rewrite I in H. cbn [implb] in H.
  rewrite forallb_forall in H. specialize (H l). rewrite S in H. apply H. destruct l; cbn; auto 20.
Qed.

Lemma inv_reach s0 s : invb s0 = true -> reach s0 s -> invb s = true.
Proof. intros I R. induction R as [|s l s' R IH S]; [exact I|]. eapply inv_step; eauto. Qed.

(* properties of single states / single steps, each decided by a sweep over the states satisfying the invariant *)
Definition outcome_p (s : state) : bool :=
  implb (invb s && returned s)
        (match ret s with Some r => outcome_ok r (complete s) (hs_err s) (conn_closed s) (cancelled s) (reneg s) | None => false end).
Lemma outcome_all : forallb outcome_p all_states = true. Proof. vm_compute. reflexivity. Qed.

Definition progress_p (s : state) : bool := implb (invb s && negb (returned s)) (can_progress s).
Lemma progress_all : forallb progress_p all_states = true. Proof. vm_compute. reflexivity. Qed.

Definition shared_eqb (a b : state) : bool :=
  owner_eqb (mutex a) (mutex b) && owner_eqb (inl a) (inl b) && eqb (complete a) (complete b)
  && eqb (hs_err a) (hs_err b) && eqb (conn_closed a) (conn_closed b).
Definition late_p (s : state) : bool :=
  implb (invb s && returned s)
        (negb (enabledb s LIFire) && negb (enabledb s LIDone) && negb (enabledb s LC)
         && match step s LCancel with Some s' => shared_eqb s s' && returned s' | None => true end
         && forallb (fun l => match step s l with Some s' => returned s' | None => true end) all_labels).
Lemma late_all : forallb late_p all_states = true. Proof. vm_compute. reflexivity. Qed.

Definition lockset_p (s : state) : bool :=
  implb (invb s) ((negb (touches_hs (p s)) || is_mine (mutex s)) && (negb (touches_in (p s)) || is_mine (inl s))
                  && (negb (is_mine (mutex s)) || negb (enabledb s EBodyOk) && negb (enabledb s EBodyErr) && negb (enabledb s EAcquire))).
Lemma lockset_all : forallb lockset_p all_states = true. Proof. vm_compute. reflexivity. Qed.

(* the caller waits for the input lock only while no result exists, hence never behind a parked reader *)
Definition inwait_p (s : state) : bool :=
  implb (invb s) (match p s with
                  | P4 => negb (complete s) && negb (hs_err s) && negb (owner_eqb (inl s) Parked)
                  | _ => true end).
Lemma inwait_all : forallb inwait_p all_states = true. Proof. vm_compute. reflexivity. Qed.

(* queued on handshakeMutex (or anywhere before its deferred epilogue) a cancellable caller has a live interrupter:
   once its ctx is cancelled the interrupter can fire, whoever holds the mutex, and that closes the connection *)
Definition queued_p (s : state) : bool :=
  implb (invb s && cancellable s && (match p s with P2 | P3 | P4 | P5 | P6 | PUnlIn | PUnlMu | PDefer => true | _ => false end))
        (negb (is_inone (it s))
         && (negb (is_iwait (it s) && cancelled s)
             || match step s LIFire with Some s' => conn_closed s' && is_ifired (it s') | None => false end)
         && (negb (is_iwait (it s)) || cancelled s || negb (enabledb s LIFire))).
Lemma queued_all : forallb queued_p all_states = true. Proof. vm_compute. reflexivity. Qed.

(* a returned caller whose own interrupter closed the connection reports its ctx error, and only such a caller does *)
Definition interrupted_p (s : state) : bool :=
  implb (invb s && returned s)
        (eqb (is_ifired (it s)) (match ret s with Some RCtx => true | _ => false end)).
Lemma interrupted_all : forallb interrupted_p all_states = true. Proof. vm_compute. reflexivity. Qed.

(* guarantee: what the caller and its interrupter do to the shared state is something the environment may do *)
Definition own_label (l : label) : bool := match l with LC | LBodyOk | LBodyErr | LBuildErr | LIFire | LIDone => true | _ => false end.
Definition view_eqb (a b : owner * owner * bool * bool * bool) : bool :=
  let '(mu, il, co, he, cl) := a in let '(mu', il', co', he', cl') := b in
  owner_eqb mu mu' && owner_eqb il il' && eqb co co' && eqb he he' && eqb cl cl'.
Definition guarantee_p (s : state) : bool :=
  implb (invb s) (forallb (fun l => negb (own_label l) ||
                    match step s l with
                    | Some s' => view_eqb (view s) (view s') || env_allows (view s) (view s')
                    | None => true end) all_labels).
Lemma guarantee_all : forallb guarantee_p all_states = true. Proof. vm_compute. reflexivity. Qed.

(* C14 — proofs about Model/Verify.v. Every statement is for arbitrary crypto/x509 behaviour: the verifier,
   VerifyHostname, NotAfter, the chain pre-checks and the name that went into SNI are Section variables. *)
From UV Require Import Base.Common Model.Verify.
From Coq Require Import ZifyBool ZifyNat ZifyN.
Open Scope Z_scope.

Lemma is_empty_true (s : name) : is_empty s = true <-> s = [].
Proof. destruct s; simpl; split; congruence. Qed.
Lemma is_empty_false (s : name) : is_empty s = false <-> s <> [].
Proof. destruct s; simpl; split; congruence. Qed.
Lemma is_star_true (s : name) : is_star s = true <-> s = [42%N].
Proof. unfold is_star. apply bytes_eqb_eq. Qed.
Lemma star_not_empty (s : name) : is_star s = true -> is_empty s = false.
Proof. intros H. apply is_star_true in H. subst. reflexivity. Qed.

Lemma gtb_false_le a b : (a >? b) = false -> a <= b.
Proof. lia. Qed.
Lemma gtb_true_not_le a b : (a >? b) = true -> a <= b -> False.
Proof. lia. Qed.

Section VerifyP.
  Variable cert : Type.
  Variable pool : Type.
  Variable x509_verify : pool -> Z -> name -> list cert -> bool.
  Variable verify_hostname : cert -> name -> bool.
  Variable not_after : cert -> Z.
  Variable chain_parses : list cert -> bool.
  Variable leaf_key_supported : cert -> bool.
  Variable sni : name.                               (* what went into SNI: arbitrary *)

  Notation config := (config pool).
  Notation conn_at_verify := (conn_at_verify sni).
  Notation verify_opts := (verify_opts cert pool not_after).
  Notation verify_opts_unfixed := (verify_opts_unfixed cert pool not_after).
  Notation used_name := (used_name cert pool not_after).
  Notation used_name_unfixed := (used_name_unfixed cert pool not_after).
  Notation used_time := (used_time cert pool not_after).
  Notation expected_time := (expected_time cert pool not_after).
  Notation verify_server_certificate := (verify_server_certificate cert pool x509_verify not_after chain_parses leaf_key_supported).
  Notation client_result := (client_result cert pool x509_verify not_after chain_parses leaf_key_supported).
  Notation load_session_cert_checks := (load_session_cert_checks cert pool verify_hostname not_after).

  (* ---- the connection state at verification time ---- *)
  Lemma rejected_at_verify (cfg : config) pub accepted :
    ech_rejected cfg (conn_at_verify cfg pub accepted) = ech_config_list cfg && negb accepted.
  Proof.
    unfold ech_rejected, Verify.conn_at_verify, conn_after_hello, conn_ech_accepted.
    destruct (ech_config_list cfg), accepted; reflexivity.
  Qed.

  Lemma server_name_when_rejected (cfg : config) pub accepted :
    ech_rejected cfg (conn_at_verify cfg pub accepted) = true ->
    c_server_name (conn_at_verify cfg pub accepted) = pub.
  Proof.
    rewrite rejected_at_verify. unfold Verify.conn_at_verify, conn_after_hello, conn_ech_accepted.
    destruct (ech_config_list cfg), accepted; simpl; congruence.
  Qed.

  (* ---- name ---- *)
  Lemma used_name_is_expected (cfg : config) pub accepted leaf :
    config_accepted cfg = true -> pub <> [] ->
    forall c, c = conn_at_verify cfg pub accepted ->
    (ech_rejected cfg c = true \/ InsecureSkipVerify cfg = false) ->
    used_name cfg c leaf = expected_name cfg c pub.
  Proof.
    intros Hacc Hpub c Hc Hbranch. unfold Verify.used_name, Verify.verify_opts, expected_name.
    destruct (ech_rejected cfg c) eqn:Hrej.
    - cbn [o_dns_name]. subst c. rewrite (server_name_when_rejected _ _ _ Hrej).
      unfold name_of_dns. apply is_empty_false in Hpub. rewrite Hpub. reflexivity.
    - destruct Hbranch as [Hb | Hsv]; [discriminate|].
      cbn [o_dns_name]. unfold dns_name, name_of_dns.
      destruct (is_empty (InsecureServerNameToVerify cfg)) eqn:Hinv.
      + unfold config_accepted in Hacc. rewrite Hsv, Hinv in Hacc. simpl in Hacc.
        rewrite !orb_false_r in Hacc. apply negb_true_iff in Hacc. rewrite Hacc. reflexivity.
      + destruct (is_star (InsecureServerNameToVerify cfg)) eqn:Hstar; simpl.
        * reflexivity.
        * rewrite Hinv. reflexivity.
  Qed.

  (* the code before the fix: in the rejected branch it used the inner (secret) name *)
  Lemma used_name_unfixed_rejected (cfg : config) c leaf :
    is_empty (InsecureServerNameToVerify cfg) = true -> ServerName cfg <> [] ->
    used_name_unfixed cfg c leaf = Some (ServerName cfg).
  Proof.
    intros Hinv Hsn. unfold Verify.used_name_unfixed, Verify.verify_opts_unfixed, dns_name, name_of_dns. cbn [o_dns_name].
    rewrite Hinv. apply is_empty_false in Hsn. rewrite Hsn. reflexivity.
  Qed.

  (* ---- time ---- *)
  Lemma used_time_is_expected (cfg : config) c leaf : used_time cfg c leaf = expected_time cfg leaf.
  Proof.
    unfold Verify.used_time, Verify.verify_opts, Verify.expected_time, current_time.
    destruct (ech_rejected cfg c); reflexivity.
  Qed.

  Lemma skip_time_changes_only_time (cfg : config) c leaf b :
    let o := verify_opts (set_skip_time b cfg) c leaf in
    let o0 := verify_opts cfg c leaf in
    o_roots o = o_roots o0 /\ o_dns_name o = o_dns_name o0 /\
    o_time o = (if b then not_after leaf else cfg_time cfg).
  Proof.
    unfold Verify.verify_opts, set_skip_time, ech_rejected, dns_name, current_time. cbn.
    destruct (ech_config_list cfg && negb (c_ech_accepted c)); cbn; auto.
  Qed.

  (* the flag reaches the outcome only through the time argument of the verifier: on a chain whose
     verification does not depend on the time, the flag is irrelevant *)
  Lemma skip_time_only_through_time (cfg : config) c chain b :
    (forall r t t' n, x509_verify r t n chain = x509_verify r t' n chain) ->
    verify_server_certificate (set_skip_time b cfg) c chain = verify_server_certificate cfg c chain.
  Proof.
    intros Hins. unfold Verify.verify_server_certificate.
    destruct (chain_parses chain); [|reflexivity]. simpl.
    destruct chain as [|leaf rest]; [reflexivity|].
    assert (Hrej : ech_rejected (set_skip_time b cfg) c = ech_rejected cfg c) by reflexivity.
    rewrite Hrej.
    assert (Hx : run_x509 cert pool x509_verify (verify_opts (set_skip_time b cfg) c leaf) (leaf :: rest)
               = run_x509 cert pool x509_verify (verify_opts cfg c leaf) (leaf :: rest)).
    { unfold run_x509. destruct (skip_time_changes_only_time cfg c leaf b) as (Hr & Hn & _).
      rewrite Hr, Hn. apply Hins. }
    rewrite Hx. reflexivity.
  Qed.

  (* ---- decision ---- *)
  Lemma verify_ok_iff (cfg : config) c leaf rest :
    chain_parses (leaf :: rest) = true -> leaf_key_supported leaf = true ->
    ech_rejection_verify cfg = None -> verify_callbacks_ok cfg = true ->
    (is_ok (verify_server_certificate cfg c (leaf :: rest)) = true <->
     (ech_rejected cfg c = false /\ InsecureSkipVerify cfg = true) \/
     run_x509 cert pool x509_verify (verify_opts cfg c leaf) (leaf :: rest) = true).
  Proof.
    intros Hp Hk Hcb Hvc. unfold Verify.verify_server_certificate. rewrite Hp, Hk, Hcb, Hvc. simpl.
    destruct (ech_rejected cfg c) eqn:Hrej; simpl.
    - destruct (run_x509 _ _ _ _ _); simpl; split; intros H; auto; try discriminate.
      destruct H as [[H _]|H]; discriminate.
    - destruct (InsecureSkipVerify cfg); simpl.
      + split; auto.
      + destruct (run_x509 _ _ _ _ _); simpl; split; intros H; auto; try discriminate.
        destruct H as [[_ H]|H]; discriminate.
  Qed.

  (* success implies the verifier accepted (no premise on callbacks or pre-checks: they can only refuse) *)
  Lemma verify_ok_sound (cfg : config) c chain :
    is_ok (verify_server_certificate cfg c chain) = true ->
    exists leaf rest, chain = leaf :: rest /\
      ((ech_rejected cfg c = false /\ InsecureSkipVerify cfg = true) \/
       (ech_rejected cfg c = true /\ ech_rejection_verify cfg <> None) \/
       run_x509 cert pool x509_verify (verify_opts cfg c leaf) chain = true).
  Proof.
    unfold Verify.verify_server_certificate. destruct (chain_parses chain); [|discriminate]. simpl.
    destruct chain as [|leaf rest]; [discriminate|]. intros H. exists leaf, rest. split; [reflexivity|].
    destruct (ech_rejected cfg c) eqn:Hrej; simpl in H.
    - destruct (ech_rejection_verify cfg) as [ok|] eqn:Hcb.
      + right; left. split; congruence.
      + destruct (run_x509 _ _ _ _ _); [auto|discriminate].
    - destruct (InsecureSkipVerify cfg); simpl in H; [auto|].
      destruct (run_x509 _ _ _ _ _); [auto|discriminate].
  Qed.

  Lemma opts_are_expected (cfg : config) pub accepted leaf :
    config_accepted cfg = true -> pub <> [] ->
    forall c, c = conn_at_verify cfg pub accepted ->
    (ech_rejected cfg c = true \/ InsecureSkipVerify cfg = false) ->
    verify_opts cfg c leaf = mkOpts (RootCAs cfg) (expected_time cfg leaf) (dns_of_name (expected_name cfg c pub)).
  Proof.
    intros Hacc Hpub c Hc Hb.
    pose proof (used_name_is_expected cfg pub accepted leaf Hacc Hpub c Hc Hb) as Hn.
    pose proof (used_time_is_expected cfg c leaf) as Ht.
    unfold Verify.used_name, Verify.used_time in Hn, Ht.
    assert (Hr : o_roots (verify_opts cfg c leaf) = RootCAs cfg).
    { unfold Verify.verify_opts. destruct (ech_rejected cfg c); reflexivity. }
    destruct (verify_opts cfg c leaf) as [r t d]. cbn in *. subst r t. f_equal.
    rewrite <- Hn. unfold name_of_dns, dns_of_name. destruct d; reflexivity.
  Qed.

  Lemma decision (cfg : config) pub accepted leaf rest :
    config_accepted cfg = true -> pub <> [] ->
    chain_parses (leaf :: rest) = true -> leaf_key_supported leaf = true ->
    ech_rejection_verify cfg = None -> verify_callbacks_ok cfg = true ->
    forall c, c = conn_at_verify cfg pub accepted ->
    (is_ok (verify_server_certificate cfg c (leaf :: rest)) = true <->
     (ech_rejected cfg c = false /\ InsecureSkipVerify cfg = true) \/
     x509_verify (RootCAs cfg) (expected_time cfg leaf) (dns_of_name (expected_name cfg c pub)) (leaf :: rest) = true).
  Proof using cert pool x509_verify not_after chain_parses leaf_key_supported sni.
    intros Hacc Hpub Hp Hk Hcb Hvc c Hc.
    rewrite (verify_ok_iff cfg c leaf rest Hp Hk Hcb Hvc).
    destruct (ech_rejected cfg c) eqn:Hrej.
    - rewrite (opts_are_expected cfg pub accepted leaf Hacc Hpub c Hc (or_introl Hrej)). unfold run_x509. cbn [o_roots o_time o_dns_name]. apply iff_refl.
    - destruct (InsecureSkipVerify cfg) eqn:Hsv.
      + split; intros _; left; auto.
      + rewrite (opts_are_expected cfg pub accepted leaf Hacc Hpub c Hc (or_intror Hsv)). unfold run_x509. cbn [o_roots o_time o_dns_name]. apply iff_refl.
  Qed.

  (* what the caller of Handshake sees *)
  Lemma result_ok_sound (cfg : config) pub accepted chain :
    config_accepted cfg = true -> pub <> [] ->
    forall c, c = conn_at_verify cfg pub accepted ->
    client_result cfg c chain = HsOk -> InsecureSkipVerify cfg = false ->
    exists leaf rest, chain = leaf :: rest /\ ech_rejected cfg c = false /\
      x509_verify (RootCAs cfg) (expected_time cfg leaf) (dns_of_name (expected_name cfg c pub)) chain = true.
  Proof.
    intros Hacc Hpub c Hc Hres Hsv. unfold Verify.client_result in Hres.
    destruct (verify_server_certificate cfg c chain) as [u|e|p] eqn:Hv.
    - destruct (ech_rejected cfg c) eqn:Hrej; [discriminate|].
      assert (Hok : is_ok (verify_server_certificate cfg c chain) = true) by (rewrite Hv; reflexivity).
      destruct (verify_ok_sound cfg c chain Hok) as (leaf & rest & -> & [[_ H]|[[H _]|H]]); try congruence.
      exists leaf, rest. repeat split; auto.
      rewrite (opts_are_expected cfg pub accepted leaf Hacc Hpub c Hc (or_intror Hsv)) in H. exact H.
    - destruct (e =? E_cert_verify)%N; discriminate.
    - discriminate.
  Qed.

  Lemma result_ech_rejected_sound (cfg : config) pub accepted chain :
    config_accepted cfg = true -> pub <> [] -> ech_rejection_verify cfg = None ->
    forall c, c = conn_at_verify cfg pub accepted ->
    client_result cfg c chain = HsEchRejected ->
    exists leaf rest, chain = leaf :: rest /\ ech_config_list cfg = true /\ accepted = false /\
      x509_verify (RootCAs cfg) (expected_time cfg leaf) pub chain = true.
  Proof.
    intros Hacc Hpub Hcb c Hc Hres. unfold Verify.client_result in Hres.
    destruct (verify_server_certificate cfg c chain) as [u|e|p] eqn:Hv.
    - destruct (ech_rejected cfg c) eqn:Hrej; [|discriminate].
      assert (Hok : is_ok (verify_server_certificate cfg c chain) = true) by (rewrite Hv; reflexivity).
      destruct (verify_ok_sound cfg c chain Hok) as (leaf & rest & -> & [[H _]|[[_ H]|H]]); try congruence.
      exists leaf, rest. split; [reflexivity|].
      pose proof Hrej as Hrej'. rewrite Hc, rejected_at_verify in Hrej'.
      apply andb_true_iff in Hrej'. destruct Hrej' as [He Ha]. apply negb_true_iff in Ha.
      repeat split; auto.
      rewrite (opts_are_expected cfg pub accepted leaf Hacc Hpub c Hc (or_introl Hrej)) in H.
      unfold expected_name in H. rewrite Hrej in H. exact H.
    - destruct (e =? E_cert_verify)%N; discriminate.
    - discriminate.
  Qed.

  Lemma result_complete (cfg : config) pub accepted leaf rest :
    config_accepted cfg = true -> pub <> [] ->
    chain_parses (leaf :: rest) = true -> leaf_key_supported leaf = true ->
    ech_rejection_verify cfg = None -> verify_callbacks_ok cfg = true ->
    forall c, c = conn_at_verify cfg pub accepted ->
    x509_verify (RootCAs cfg) (expected_time cfg leaf) (dns_of_name (expected_name cfg c pub)) (leaf :: rest) = true ->
    client_result cfg c (leaf :: rest) = (if ech_rejected cfg c then HsEchRejected else HsOk).
  Proof using cert pool x509_verify not_after chain_parses leaf_key_supported sni.
    intros Hacc Hpub Hp Hk Hcb Hvc c Hc Hx.
    assert (Hok : is_ok (verify_server_certificate cfg c (leaf :: rest)) = true).
    { apply (decision cfg pub accepted leaf rest Hacc Hpub Hp Hk Hcb Hvc c Hc). right. exact Hx. }
    unfold Verify.client_result. destruct (verify_server_certificate cfg c (leaf :: rest)); try discriminate. reflexivity.
  Qed.

  (* ---- with the structure of Certificate.Verify made explicit: chain building/validity plus the name check ---- *)
  Section Decomposed.
    Variable chain_verify : pool -> Z -> list cert -> bool.
    Hypothesis x509_structure : forall r t n leaf rest,
      x509_verify r t n (leaf :: rest) = chain_verify r t (leaf :: rest) && (is_empty n || verify_hostname leaf n).

    Lemma result_ok_property (cfg : config) pub accepted chain :
      config_accepted cfg = true -> pub <> [] ->
      forall c, c = conn_at_verify cfg pub accepted ->
      client_result cfg c chain = HsOk -> InsecureSkipVerify cfg = false ->
      exists leaf rest, chain = leaf :: rest /\
        chain_verify (RootCAs cfg) (expected_time cfg leaf) chain = true /\
        match expected_name cfg c pub with
        | Some n => n <> [] /\ verify_hostname leaf n = true
        | None => True
        end.
    Proof.
      intros Hacc Hpub c Hc Hres Hsv.
      destruct (result_ok_sound cfg pub accepted chain Hacc Hpub c Hc Hres Hsv) as (leaf & rest & -> & Hrej & Hx).
      exists leaf, rest. split; [reflexivity|]. rewrite x509_structure in Hx. apply andb_true_iff in Hx.
      destruct Hx as [Hcv Hn]. split; [exact Hcv|].
      pose proof (used_name_is_expected cfg pub accepted leaf Hacc Hpub c Hc (or_intror Hsv)) as Hu.
      destruct (expected_name cfg c pub) as [n|] eqn:He; [|exact I]. cbn in Hn.
      unfold Verify.used_name, name_of_dns in Hu.
      destruct (is_empty (o_dns_name (verify_opts cfg c leaf))) eqn:Hemp; [discriminate|].
      injection Hu as Hu. subst n. rewrite Hemp in Hn. simpl in Hn. split; [apply is_empty_false; exact Hemp | exact Hn].
    Qed.
  End Decomposed.

  (* ---- resumption ---- *)
  Lemma resumed_checks (cfg : config) (s : session cert) c pub :
    config_accepted cfg = true -> ech_rejected cfg c = false ->
    (load_session_cert_checks cfg s = true <->
     (InsecureSkipTimeVerify cfg = false -> cfg_time cfg <= not_after (s_leaf s)) /\
     (InsecureSkipVerify cfg = false ->
        s_has_verified_chains s = true /\
        match expected_name cfg c pub with
        | Some n => verify_hostname (s_leaf s) n = true
        | None => True
        end)).
  Proof using cert pool verify_hostname not_after.
    intros Hacc Hrej. unfold Verify.load_session_cert_checks, expected_name. rewrite Hrej.
    destruct (InsecureSkipTimeVerify cfg) eqn:Hst; cbn [negb andb].
    - destruct (InsecureSkipVerify cfg) eqn:Hsv; cbn [negb].
      + split; [intros _; split; intros; discriminate | reflexivity].
      + destruct (s_has_verified_chains s); cbn [negb].
        * unfold dns_name.
          destruct (is_empty (InsecureServerNameToVerify cfg)) eqn:Hinv.
          -- unfold config_accepted in Hacc. rewrite Hsv, Hinv in Hacc. simpl in Hacc. rewrite !orb_false_r in Hacc.
             apply negb_true_iff in Hacc. rewrite Hacc. cbn [negb]. split.
             ++ intros H. split; [intros; discriminate | intros _; split; [reflexivity|first [exact I|assumption]]].
             ++ intros [_ H]. apply H. reflexivity.
          -- destruct (is_star (InsecureServerNameToVerify cfg)) eqn:Hstar; cbn [negb is_empty].
             ++ split; [intros _; split; [intros; discriminate | intros _; split; [reflexivity|first [exact I|assumption]]] | reflexivity].
             ++ rewrite Hinv. cbn [negb]. split.
                ** intros H. split; [intros; discriminate | intros _; split; [reflexivity|first [exact I|assumption]]].
                ** intros [_ H]. apply H. reflexivity.
        * split; [discriminate|]. intros [_ H]. destruct (H eq_refl) as [H' _]. discriminate.
    - destruct (cfg_time cfg >? not_after (s_leaf s)) eqn:Hgt.
      + split; [discriminate|]. intros [H _]. specialize (H eq_refl). exfalso. exact (gtb_true_not_le _ _ Hgt H).
      + destruct (InsecureSkipVerify cfg) eqn:Hsv; cbn [negb].
        * split; [intros _; split; [intros _; exact (gtb_false_le _ _ Hgt) | intros; discriminate] | reflexivity].
        * destruct (s_has_verified_chains s); cbn [negb].
          -- unfold dns_name.
             destruct (is_empty (InsecureServerNameToVerify cfg)) eqn:Hinv.
             ++ unfold config_accepted in Hacc. rewrite Hsv, Hinv in Hacc. simpl in Hacc. rewrite !orb_false_r in Hacc.
                apply negb_true_iff in Hacc. rewrite Hacc. cbn [negb]. split.
                ** intros H. split; [intros _; exact (gtb_false_le _ _ Hgt) | intros _; split; [reflexivity|first [exact I|assumption]]].
                ** intros [_ H]. apply H. reflexivity.
             ++ destruct (is_star (InsecureServerNameToVerify cfg)) eqn:Hstar; cbn [negb is_empty].
                ** split; [intros _; split; [intros _; exact (gtb_false_le _ _ Hgt) | intros _; split; [reflexivity|first [exact I|assumption]]] | reflexivity].
                ** rewrite Hinv. cbn [negb]. split.
                   --- intros H. split; [intros _; exact (gtb_false_le _ _ Hgt) | intros _; split; [reflexivity|first [exact I|assumption]]].
                   --- intros [_ H]. apply H. reflexivity.
          -- split; [discriminate|]. intros [_ H]. destruct (H eq_refl) as [H' _]. discriminate.
  Qed.
End VerifyP.

(* Completion of the coin table of Proofs/RandomizedC.v: the removeRandomCiphers row and the
   statement that every row satisfies [coin_ok]. *)
From UV Require Import Base.Common Model.Prng Proofs.PrngP Model.Randomized Proofs.RandomizedP Proofs.RandomizedW Proofs.RandomizedS Proofs.RandomizedC Model.RandomizedId.
From Coq Require Import QArith Permutation ZifyBool ZifyNat ZifyN.
Open Scope N_scope.

(* ---- the removeRandomCiphers row: with weight <= 0 the suite list is complete ---- *)
Lemma map_combine_fst {A B C} (f : A -> C) (a : list A) : forall (b : list B), (length a <= length b)%nat ->
  map (fun x : A * B => f (fst x)) (combine a b) = map f a.
Proof.
  induction a as [|x a IH]; intros [|y b] Hl; cbn [combine map length] in *; try reflexivity; try lia.
  f_equal. apply IH. lia.
Qed.
Lemma shuffled_perm fuel tb s pm r : perm fuel (length (t_suites tb)) s = Some (pm, r) ->
  Permutation (map sc_suite (isort (sortable tb pm))) (map sr_id (t_suites tb)).
Proof.
  intros H. apply perm_spec in H. destruct H as (Hl & _ & _).
  eapply Permutation_trans; [apply Permutation_map, Permutation_sym, isort_perm|].
  unfold sortable. rewrite map_map.
  replace (map _ (combine (t_suites tb) pm)) with (map (fun x : suite_row * Z => sr_id (fst x)) (combine (t_suites tb) pm)).
  - rewrite map_combine_fst by lia. apply Permutation_refl.
  - apply map_ext. intros [row tag]. reflexivity.
Qed.
Lemma filter_perm_len {A} (f : A -> bool) l l' : Permutation l l' -> length (filter f l) = length (filter f l').
Proof.
  induction 1 as [|x l l' HP IH|x y l|l l' l'' HP1 IH1 HP2 IH2]; cbn [filter]; auto.
  - destruct (f x); cbn [length]; congruence.
  - destruct (f x), (f y); reflexivity.
  - congruence.
Qed.

(* the inversion additionally keeps what shuffledCiphers returned as the sorted Perm *)
Ltac spec_of Hm ::=
  match type of Hm with
  | flipM _ _ _ = Ok _ => apply flipM_inv in Hm; let F := fresh "F" in let S := fresh "S" in destruct Hm as [F S]; use_steps S
  | intnM _ _ _ = Ok _ => apply intnM_inv in Hm; let F := fresh "K" in let S := fresh "S" in destruct Hm as [S F]; use_steps S
  | shuffleM _ _ _ _ = Ok _ => apply shuffleM_inv in Hm; let F := fresh "P" in let S := fresh "S" in destruct Hm as [S F]; use_steps S
  | shuffledCiphers _ _ _ = Ok _ =>
      let Q := fresh "SQ" in pose proof (shuffledCiphers_is_sort _ _ _ _ _ Hm) as Q;
      apply shuffledCiphers_spec in Hm; let F := fresh "SC" in let S := fresh "S" in destruct Hm as [S F]; use_steps S
  | removeRandomCiphers _ _ _ _ = Ok _ =>
      let F := fresh "RM" in let S := fresh "S" in
      pose proof (removeRandomCiphers_struct _ _ _ _ _ _ Hm) as [S F]; use_steps S
  | ret _ _ = Ok _ => apply ret_Ok in Hm; inversion Hm; subst; clear Hm
  | _ => idtac
  end.

Section RowRm.
  Variable rnd : Q -> Q.
  Hypothesis L : ieee_laws rnd.
  Variables (fuel : nat) (tb : table) (v : variant) (w : weights) (sn : bytes) (np : list bytes) (s salted : stream) (p : spec).
  Hypothesis G : generate rnd fuel tb v w sn np s salted = Ok p.

  Lemma r_rm_0 : w_le0 (w_rmciphers w) -> (length (sp_ciphers p) <> full_len tb p <-> False).
  Proof.
    intros Hw. pose proof G as H. gen_inv H; unfold full_len; cbn [sp_ciphers sp_max];
    try change (VersionTLS13 =? VersionTLS13) with true; try change (VersionTLS12 =? VersionTLS13) with false; cbv iota;
    match goal with Hm : removeRandomCiphers _ _ _ _ = Ok _ |- _ => apply (weight0_no_removal rnd L) in Hm; [|exact Hw]; rewrite Hm end;
    match goal with SQ : exists pm r, _ |- _ => destruct SQ as (pm & r & Hp & ->) end;
    (split; [intros Hne; apply Hne|intros []]).
    all: try (rewrite (Permutation_length (shuffled_perm _ _ _ _ _ Hp)), map_length; reflexivity).
    all: unfold removeRC4Ciphers; apply filter_perm_len; apply Permutation_app;
         [apply Permutation_sym; assumption|eapply shuffled_perm; exact Hp].
  Qed.
End RowRm.

(* ---- every row of the table ---- *)
Lemma coins_ok rnd : ieee_laws rnd -> Forall (coin_ok rnd) coins.
Proof.
  intros L. unfold coins.
  repeat (apply Forall_cons; [intros fuel tb v w sn np s salted p G; cbv [wfield c_field c_feature c_forced c_app
      coin_alpn coin_tls13 coin_rm coin_ecdsa_sha1 coin_p521_sha512 coin_pss256 coin_pss384_512 coin_mlkem_group coin_x25519
      coin_p521 coin_padding coin_status coin_sct coin_reneg coin_ems coin_ks_p256 coin_ks_extra_p256 coin_ks_mlkem coin_alps];
      split; [intros Hw|intros Hw Z1 Z2 Happ]|]); [..|apply Forall_nil].
  - eapply r_alpn_0; eauto.
  - eapply r_alpn_1; eauto.
  - eapply r_tls13_0; eauto.
  - eapply r_tls13_1; eauto.
  - eapply r_rm_0; eauto.
  - destruct Happ.
  - eapply r_ecdsa_sha1_0; eauto.
  - eapply r_ecdsa_sha1_1; eauto.
  - eapply r_p521_sha512_0; eauto.
  - eapply r_p521_sha512_1; eauto.
  - eapply r_pss256_0; eauto.
  - eapply r_pss256_1; eauto.
  - eapply r_pss384_0; eauto.
  - eapply r_pss384_1; eauto.
  - eapply r_mlkem_group_0; eauto.
  - eapply r_mlkem_group_1; eauto.
  - eapply r_x25519_0; eauto.
  - eapply r_x25519_1; eauto.
  - eapply r_p521_0; eauto.
  - eapply r_p521_1; eauto.
  - eapply r_padding_0; eauto.
  - eapply r_padding_1; eauto.
  - eapply r_status_0; eauto.
  - eapply r_status_1; eauto.
  - eapply r_sct_0; eauto.
  - eapply r_sct_1; eauto.
  - eapply r_reneg_0; eauto.
  - eapply r_reneg_1; eauto.
  - eapply r_ems_0; eauto.
  - eapply r_ems_1; eauto.
  - eapply r_ks_p256_0; eauto.
  - eapply r_ks_p256_1; eauto.
  - eapply r_ks_extra_0; eauto.
  - eapply r_ks_extra_1; eauto.
  - eapply r_ks_mlkem_0; eauto.
  - eapply r_ks_mlkem_1; eauto.
  - eapply r_alps_0; eauto.
  - eapply r_alps_1; eauto.
Qed.

Lemma coins_all rnd : ieee_laws rnd -> forall c, In c coins -> coin_ok rnd c.
Proof. intros L. apply Forall_forall. apply coins_ok. exact L. Qed.

(* two builds from one ClientHelloID: the id comes back unchanged and the second build gives the first one's result *)
Lemma build_twice rnd fuel tb id sn np s salted :
  let '(r1, id1) := build rnd fuel tb id sn np s salted in
  let '(r2, id2) := build rnd fuel tb id1 sn np s salted in
  r1 = r2 /\ id1 = id /\ id2 = id.
Proof. cbn. auto. Qed.

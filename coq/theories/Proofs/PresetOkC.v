(* End-to-end corollaries for the shipped parrots (Gen/Parrots.v): the theorems of C02, C03, C12 and C13 that carried a
   premise on ApplyPreset's OUTPUT, with that premise discharged by the static predicate (Proofs/PresetOkP.v), its
   invariance under the Chrome shuffle and its evaluation on the regenerated table (Proofs/PresetOkS.v).
   Quantified over: every table entry, every list of swap calls (swaps = [] for the ids that do not shuffle), every Config
   with an SNI host of at most 255 bytes and OmitEmptyPsk set, every randomness. No axioms. *)
From UV Require Import Base.Common Model.Wire Model.Ext Model.ExtSpec Model.Strict.
From UV Require Import Model.Marshal Model.ChMarshal Model.Shuffle Model.WriteToUConn.
From UV Require Import Model.PresetOk Proofs.PresetOkP Proofs.PresetOkS.
From UV Require Model.Preset Model.ParrotSpec Model.Negotiate Gen.Parrots Proofs.ComposeP Proofs.ComposeW Proofs.ComposeC03.

Definition parrot_class (c : Preset.cfg) : Prop := cfg_in_class c 255 true.

Section Parrot.
  Variables (p : Preset.parrot) (swaps : list (nat * nat)) (exts' : list Preset.sext).
  Hypothesis Hin : In p Parrots.all.
  Hypothesis Hsh : shuffle ParrotSpec.fixedb swaps (Preset.sp_exts (Preset.p_spec p)) = Ok exts'.
  Variables (c : Preset.cfg) (fr : Preset.fresh) (h : hello_hdr) (es : list ext).
  Hypothesis Hc : parrot_class c.
  Hypothesis Ha : Preset.apply_preset (with_exts (Preset.p_spec p) exts') c fr = Ok (h, es).

  Lemma parrot_output : wf_specb h es = true /\ spec_fitsb 0%Z h es = true /\ forallb typed_ext es = true.
  Proof.
    destruct (preset_ok_output _ c fr 255 true h es (parrots_draw_preset_ok p swaps exts' Hin Hsh) Hc Ha) as (A & B & C & _). auto.
  Qed.

  (* C02 *)
  Theorem parrot_valid : exists raw, Preset.build (with_exts (Preset.p_spec p) exts') c fr = Ok raw
                                     /\ marshal_hello Preset.bbs512 0%Z h es = Ok raw /\ valid_ch raw.
  Proof. exact (preset_ok_builds _ c fr 255 true h es (parrots_draw_preset_ok p swaps exts' Hin Hsh) Hc Ha). Qed.

  (* C03 *)
  Theorem parrot_matches : exists raw a,
    Preset.build (with_exts (Preset.p_spec p) exts') c fr = Ok raw /\ ParrotSpec.parse_hello raw = Some a
    /\ ParrotSpec.ast_matches_specb a {| Preset.p_name := Preset.p_name p; Preset.p_spec := with_exts (Preset.p_spec p) exts';
                                         Preset.p_shuffles := false |} c = true.
  Proof.
    destruct parrot_valid as (raw & Hb & _ & _). destruct parrot_output as (Hwf & Hfit & _).
    assert (Hcomp : Preset.sp_comp (with_exts (Preset.p_spec p) exts') = [0]).
    { cbn [with_exts Preset.sp_comp].
      assert (T : forallb (fun q => bytes_eqb (Preset.sp_comp (Preset.p_spec q)) [0]) Parrots.all = true) by (vm_compute; reflexivity).
      rewrite forallb_forall in T. apply bytes_eqb_eq. exact (T p Hin). }
    destruct (ComposeC03.build_matches _ c fr h es raw (Preset.p_name p) Ha Hb Hwf Hfit Hcomp) as (a & Hp & Hm).
    exists raw, a. auto.
  Qed.

  (* C12 *)
  Theorem parrot_synced mn mx env bbs padto raw s' load ecdhe mlkem sess :
    marshal_hello bbs padto h es = Ok raw ->
    apply_config env (marshal_hello bbs padto h es) (ComposeW.preset_state h mn mx) es = Ok s' ->
    psk_agree (finish load es s') es = true ->
    exists w, wire_of raw = Some w /\ Negotiate.synced (view_of (finish load es s') es ecdhe mlkem sess) w = true.
  Proof.
    destruct parrot_output as (Hwf & _ & Hty). intros Hm Hcfg Hpsk.
    exact (ComposeW.synced_preset _ c fr h es mn mx env bbs padto raw s' load ecdhe mlkem sess Ha Hwf Hty Hm Hcfg Hpsk).
  Qed.

  (* C13 *)
  Theorem parrot_version_advertised mn mx env bbs padto raw s' load ecdhe mlkem sess fl st :
    Preset.set_tls_vers (with_exts (Preset.p_spec p) exts') = Ok (mn, mx) ->
    marshal_hello bbs padto h es = Ok raw ->
    apply_config env (marshal_hello bbs padto h es) (ComposeW.preset_state h mn mx) es = Ok s' ->
    Negotiate.client_run (view_of (finish load es s') es ecdhe mlkem sess) fl = Negotiate.Complete st ->
    exists w, wire_of raw = Some w /\ In (Negotiate.cs_vers st) (Negotiate.advertised mn w).
  Proof.
    destruct parrot_output as (Hwf & _ & Hty). intros Hv Hm Hcfg Hrun.
    exact (ComposeW.version_advertised_preset _ c fr h es mn mx env bbs padto raw s' load ecdhe mlkem sess fl st Ha Hv Hwf Hty Hm Hcfg Hrun).
  Qed.
End Parrot.

(* Lemmas about Model/Padding.v and Model/Marshal.v. *)
From Coq Require Import ZifyBool ZifyNat ZifyN.
From UV Require Import Base.Common Model.Padding Model.Marshal.

(* ------------------------------------------------------------------ *)
(* len / take / drop / zeros *)

Lemma len_nil {A} : len (@nil A) = 0.
Proof. reflexivity. Qed.
Lemma len_cons {A} (x : A) l : len (x :: l) = 1 + len l.
Proof. unfold len. cbn [length]. lia. Qed.
Lemma len_app {A} (a b : list A) : len (a ++ b) = len a + len b.
Proof. unfold len. rewrite app_length. lia. Qed.
Lemma len_zeros n : len (zeros n) = n.
Proof. unfold len, zeros. rewrite repeat_length. lia. Qed.
Lemma len_0_nil {A} (l : list A) : len l = 0 -> l = [].
Proof. destruct l; [reflexivity|]. rewrite len_cons. lia. Qed.

Lemma take_app_len {A} (a b : list A) : take (len a) (a ++ b) = a.
Proof.
  unfold take, len. rewrite Nat2N.id. rewrite firstn_app, Nat.sub_diag, firstn_all.
  cbn [firstn]. apply app_nil_r.
Qed.
Lemma drop_app_len {A} (a b : list A) m : drop (len a + m) (a ++ b) = drop m b.
Proof.
  unfold drop, len. replace (N.to_nat (N.of_nat (length a) + m)) with (length a + N.to_nat m)%nat by lia.
  rewrite skipn_app. rewrite skipn_all2 by lia. cbn [app]. f_equal. lia.
Qed.
Lemma drop_app_len0 {A} (a b : list A) : drop (len a) (a ++ b) = b.
Proof. replace (len a) with (len a + 0) by lia. rewrite drop_app_len. reflexivity. Qed.
Lemma skipn_repeat {A} (x : A) : forall j m, skipn j (repeat x m) = repeat x (m - j).
Proof.
  induction j as [|j IH]; intros m.
  - rewrite Nat.sub_0_r. reflexivity.
  - destruct m as [|m]; [reflexivity|]. cbn [repeat skipn Nat.sub]. apply IH.
Qed.
Lemma firstn_repeat {A} (x : A) : forall j m, (j <= m)%nat -> firstn j (repeat x m) = repeat x j.
Proof.
  induction j as [|j IH]; intros m Hj; [reflexivity|].
  destruct m as [|m]; [lia|]. cbn [repeat firstn]. rewrite IH by lia. reflexivity.
Qed.
Lemma drop_zeros k n : drop k (zeros n) = zeros (n - k).
Proof.
  unfold drop, zeros. rewrite skipn_repeat. f_equal. lia.
Qed.
Lemma take_zeros k n : k <= n -> take k (zeros n) = zeros k.
Proof.
  intros H. unfold take, zeros. apply firstn_repeat. lia.
Qed.
Lemma zeros_0 : zeros 0 = [].
Proof. reflexivity. Qed.
Lemma take_0 {A} (l : list A) : take 0 l = [].
Proof. reflexivity. Qed.
Lemma take_all {A} (l : list A) n : len l <= n -> take n l = l.
Proof. intros H. unfold take. apply firstn_all2. unfold len in H. lia. Qed.

(* ------------------------------------------------------------------ *)
(* padding functors: pure arithmetic *)

Lemma boring_in_range u : 255 < u -> u < 512 ->
  boring_padding_style u = (if 5 <=? 512 - u then 512 - u - 4 else 1, true).
Proof. intros H1 H2. unfold boring_padding_style. replace (255 <? u) with true by lia. replace (u <? 512) with true by lia. reflexivity. Qed.
Lemma boring_out_of_range u : u <= 255 \/ 512 <= u -> boring_padding_style u = (0, false).
Proof.
  intros H. unfold boring_padding_style.
  destruct (255 <? u) eqn:E1; destruct (u <? 512) eqn:E2; cbn [andb]; try reflexivity. lia.
Qed.

Lemma pad_len_boring u :
  pad_len (pad_update PolBoring {| p_len := 0; p_will := false |} u) =
  if (255 <? u) && (u <? 512) then (if 5 <=? 512 - u then 512 - u else 5) else 0.
Proof.
  unfold pad_update, boring_padding_style.
  destruct ((255 <? u) && (u <? 512)) eqn:E; cbn [pad_len p_will p_len]; [|reflexivity].
  destruct (5 <=? 512 - u) eqn:E5; lia.
Qed.

Lemma pad_update_boring_state st u : pad_update PolBoring st u = pad_update PolBoring {| p_len := 0; p_will := false |} u.
Proof. reflexivity. Qed.

Lemma pad_len_always (n : Z) st u :
  pad_len (pad_update (PolAlways n) st u) =
  if (Z.of_N u <? n)%Z then (if (5 <=? n - Z.of_N u)%Z then Z.to_N (n - Z.of_N u) else 5) else 0.
Proof.
  unfold pad_update, always_pad_to_len.
  destruct (Z.of_N u <? n)%Z eqn:E; cbn [pad_len p_will p_len]; [|reflexivity].
  destruct (5 <=? Z.to_N (n - Z.of_N u)) eqn:E5; destruct (5 <=? n - Z.of_N u)%Z eqn:E6; lia.
Qed.

Lemma len_pad_emit st : len (pad_emit st) = pad_len st.
Proof.
  unfold pad_emit, pad_len. destruct (p_will st); [|reflexivity].
  rewrite len_app, len_zeros. reflexivity.
Qed.

(* ------------------------------------------------------------------ *)
(* what an extension emits *)

(* [emits e o]: whenever it is given enough room, e's Read produces exactly
   the bytes o, of length Len(), whatever the buffer held (for the padding
   extension: header plus zeros — which pad_read only delivers on a zeroed
   buffer, see pad_read_zeros). *)
Definition emits (e : aext) (o : bytes) : Prop :=
  match e with
  | AExt _ n rd => len o = n /\ forall s, n <= len s -> rd s = Ok o
  | APad _ st => o = pad_emit st
  end.

Definition aext_ok (e : aext) : Prop :=
  match e with
  | AExt _ _ _ => exists o, emits e o
  | APad _ _ => True
  end.

Lemma emits_len e o : emits e o -> len o = a_len e.
Proof.
  destruct e as [psk n rd|pol st]; cbn [emits a_len].
  - intros [H _]. exact H.
  - intros ->. apply len_pad_emit.
Qed.

Lemma fixed_ext_emits psk body : emits (fixed_ext psk body) body.
Proof.
  unfold fixed_ext. cbn [emits]. split; [reflexivity|].
  intros s Hs. replace (len s <? len body) with false by lia. reflexivity.
Qed.
Lemma fixed_ext_ok psk body : aext_ok (fixed_ext psk body).
Proof. exists body. apply fixed_ext_emits. Qed.

Lemma pad_read_zeros st k : pad_len st <= k -> pad_read st (zeros k) = Ok (pad_emit st).
Proof.
  intros H. unfold pad_read, pad_emit, pad_len in *. destruct (p_will st); cbn [negb]; [|reflexivity].
  rewrite len_zeros. replace (k <? 4 + p_len st) with false by lia.
  rewrite drop_zeros, take_zeros by lia. reflexivity.
Qed.

Lemma a_read_zeros e o k : emits e o -> len o <= k -> a_read e (zeros k) = Ok o.
Proof.
  destruct e as [psk n rd|pol st]; cbn [emits a_read].
  - intros [Hl Hr] Hk. apply Hr. rewrite len_zeros. lia.
  - intros -> Hk. apply pad_read_zeros. rewrite len_pad_emit in Hk. exact Hk.
Qed.

(* ------------------------------------------------------------------ *)
(* the bufio writer *)

(* nothing flushed yet: the array is what was written followed by zeros *)
Definition wr_ok (size : N) (done : bytes) (w : writer) : Prop :=
  w_size w = size /\ w_out w = [] /\ w_n w = len done /\
  w_arr w = done ++ zeros (size - len done) /\ len done <= size.

Lemma wr_ok_new size : wr_ok size [] (bw_new size).
Proof.
  unfold wr_ok, bw_new. cbn [w_size w_out w_n w_arr app].
  change (len (@nil N)) with 0. rewrite N.sub_0_r.
  repeat split; try reflexivity. lia.
Qed.

Lemma bw_copy_ok size done p w : wr_ok size done w -> len done + len p <= size ->
  wr_ok size (done ++ p) (bw_copy p w).
Proof.
  intros (Hs & Ho & Hn & Ha & Hl) Hfit. unfold wr_ok, bw_copy. cbn [w_size w_out w_n w_arr].
  rewrite len_app. repeat split; try assumption; try lia.
  unfold arr_put. rewrite Ha, Hn, take_app_len, drop_app_len, drop_zeros, <- app_assoc.
  do 2 f_equal. f_equal. lia.
Qed.

Lemma bw_write_ok size done p w : wr_ok size done w -> len done + len p <= size ->
  wr_ok size (done ++ p) (bw_write p w).
Proof.
  intros Hw Hfit. unfold bw_write, bw_avail.
  destruct Hw as (Hs & Ho & Hn & Ha & Hl).
  replace (len p <=? w_size w - w_n w) with true by lia.
  apply bw_copy_ok; [repeat split; assumption | exact Hfit].
Qed.

Lemma len_u16be x : len (u16be x) = 2.
Proof. reflexivity. Qed.
Lemma len_u24be x : len (u24be x) = 3.
Proof. reflexivity. Qed.
Lemma len_suites_bytes ss : len (suites_bytes ss) = 2 * len ss.
Proof.
  induction ss as [|s ss IH]; [reflexivity|].
  cbn [suites_bytes flat_map]. fold (suites_bytes ss). rewrite len_app, len_u16be, len_cons, IH. lia.
Qed.

Lemma fold_suites_ok size ss : forall done w, wr_ok size done w -> len done + 2 * len ss <= size ->
  wr_ok size (done ++ suites_bytes ss) (fold_left (fun w s => bw_write (u16be s) w) ss w).
Proof.
  induction ss as [|s ss IH]; intros done w Hw Hfit.
  - cbn [fold_left suites_bytes flat_map]. rewrite app_nil_r. exact Hw.
  - cbn [fold_left suites_bytes flat_map]. fold (suites_bytes ss). rewrite len_cons in Hfit.
    rewrite app_assoc. apply IH.
    + apply bw_write_ok; [exact Hw | rewrite len_u16be; lia].
    + rewrite len_app, len_u16be. lia.
Qed.

Definition hdr_ok (h : hello_hdr) : Prop := len (h_random h) = 32.

Lemma len_nil_N : len (@nil N) = 0.
Proof. reflexivity. Qed.
Lemma len_single (x : N) : len [x] = 1.
Proof. reflexivity. Qed.
#[export] Hint Rewrite @len_app len_single len_nil_N len_u24be len_u16be len_suites_bytes len_zeros : lenrw.

Lemma len_header_bytes h hl : hdr_ok h -> len (header_bytes h hl) = 4 + header_length h.
Proof.
  intros Hr. unfold hdr_ok in Hr. unfold header_bytes, header_length.
  autorewrite with lenrw. lia.
Qed.

Ltac wstep W p :=
  let W' := fresh "W" in
  pose proof (bw_write_ok _ _ p _ W) as W';
  autorewrite with lenrw in W';
  let H := fresh "Hfit" in
  match type of W' with ?P -> _ => assert (H : P) by lia; specialize (W' H); clear H end.

Lemma write_header_ok h hl size : hdr_ok h -> 4 + header_length h <= size ->
  wr_ok size (header_bytes h hl) (write_header h hl (bw_new size)).
Proof.
  intros Hr Hfit. unfold hdr_ok in Hr. unfold header_length in Hfit.
  unfold write_header, header_bytes.
  pose proof (wr_ok_new size) as W0.
  wstep W0 [typeClientHello]. cbn [app] in W.
  wstep W (u24be hl).
  wstep W1 (u16be (h_vers h)).
  wstep W2 (h_random h).
  wstep W3 [u8 (len (h_sid h))].
  wstep W4 (h_sid h).
  wstep W5 (u16be (u16 (len (h_suites h) * 2))).
  pose proof (fold_suites_ok size (h_suites h) _ _ W6) as W7.
  autorewrite with lenrw in W7.
  match type of W7 with ?P -> _ => assert (Hf : P) by lia; specialize (W7 Hf); clear Hf end.
  wstep W7 [u8 (len (h_comp h))].
  wstep W8 (h_comp h).
  repeat rewrite <- app_assoc in W9. cbn [app] in W9. cbn [app]. exact W9.
Qed.

(* ------------------------------------------------------------------ *)
(* the extension loop *)

(* Either nothing has been flushed (and at least the message type byte is
   buffered), or the buffer was exactly full, has been flushed, and is empty. *)
Definition st_ok (size : N) (done : bytes) (w : writer) : Prop :=
  (wr_ok size done w /\ 1 <= len done) \/
  (w_size w = size /\ w_n w = 0 /\ w_out w = done /\ len done = size /\ 1 <= size).

Lemma flush_full size done w : wr_ok size done w -> len done = size ->
  w_out (bw_flush w) = done /\ w_n (bw_flush w) = 0 /\ w_size (bw_flush w) = size.
Proof.
  intros (Hs & Ho & Hn & Ha & Hl) Hfull. unfold bw_flush. cbn [w_out w_n w_size].
  rewrite Ho, Ha, Hn, take_app_len. repeat split; try assumption; try reflexivity.
Qed.

Lemma read_from_ok bbs size done w e o :
  st_ok size done w -> emits e o -> len done + len o <= size ->
  exists w', bw_read_from bbs e w = Ok w' /\ st_ok size (done ++ o) w'.
Proof.
  intros Hst He Hroom. unfold bw_read_from.
  destruct Hst as [[Hw H1] | (Hs & Hn & Ho & Hfull & Hsz)].
  - pose proof Hw as (Hs & Hout & Hn & Ha & Hl). unfold bw_avail.
    destruct (w_size w - w_n w =? 0) eqn:Eav.
    + (* buffer exactly full: flush, then bytes.Buffer.ReadFrom *)
      assert (Hfull : len done = size) by lia.
      destruct (flush_full size done w Hw Hfull) as (Fo & Fn & Fs).
      rewrite Fn. cbn [N.eqb]. rewrite Fo.
      assert (Ho0 : o = []) by (apply len_0_nil; lia). subst o.
      rewrite (a_read_zeros e [] _ He) by (change (len (@nil N)) with 0; lia). cbn [bind].
      change (len (@nil N)) with 0. replace (bbs (len done) <? 0) with false by lia.
      eexists; split; [reflexivity|]. right. unfold bw_direct. cbn [w_size w_n w_out].
      rewrite Fo, Fn, Fs, !app_nil_r. repeat split; try assumption; lia.
    + replace (w_n w =? 0) with false by lia.
      rewrite Ha, Hn, drop_app_len0.
      rewrite (a_read_zeros e o _ He) by lia. cbn [bind].
      rewrite len_zeros. replace (size - len done <? len o) with false by lia.
      assert (Hw' := bw_copy_ok size done o w Hw Hroom).
      eexists; split; [reflexivity|].
      pose proof Hw' as (Hs' & Hout' & Hn' & Ha' & Hl'). unfold bw_avail.
      destruct (w_size (bw_copy o w) - w_n (bw_copy o w) =? 0) eqn:Eav'.
      * right. destruct (flush_full size (done ++ o) _ Hw' ltac:(lia)) as (Fo & Fn & Fs).
        repeat split; try assumption; lia.
      * left. split; [exact Hw'|]. rewrite len_app. lia.
  - (* already flushed: every later extension goes through bytes.Buffer.ReadFrom *)
    unfold bw_avail. replace (w_size w - w_n w =? 0) with false by lia.
    rewrite Hn. cbn [N.eqb].
    assert (Ho0 : o = []) by (apply len_0_nil; lia). subst o.
    rewrite (a_read_zeros e [] _ He) by (change (len (@nil N)) with 0; lia). cbn [bind].
    change (len (@nil N)) with 0. replace (bbs (len (w_out w)) <? 0) with false by lia.
    eexists; split; [reflexivity|]. right. unfold bw_direct. cbn [w_size w_n w_out].
    rewrite Ho, !app_nil_r. repeat split; try assumption.
Qed.

Lemma read_all_ok bbs size : forall es outs done w,
  st_ok size done w -> Forall2 emits es outs -> len done + len (concat outs) <= size ->
  exists w', bw_read_all bbs es w = Ok w' /\ st_ok size (done ++ concat outs) w'.
Proof.
  induction es as [|e es IH]; intros outs done w Hst HF Hroom.
  - inversion HF; subst. cbn [bw_read_all concat]. rewrite app_nil_r. eauto.
  - inversion HF as [|? o ? outs' He HF']; subst. cbn [concat] in *. rewrite len_app in Hroom.
    destruct (read_from_ok bbs size done w e o Hst He ltac:(lia)) as (w1 & Hr & Hst1).
    cbn [bw_read_all]. rewrite Hr. cbn [bind].
    destruct (IH outs' (done ++ o) w1 Hst1 HF' ltac:(rewrite len_app; lia)) as (w2 & Hr2 & Hst2).
    exists w2. split; [exact Hr2|]. rewrite app_assoc. exact Hst2.
Qed.

Lemma final_flush size done w : st_ok size done w -> len done = size -> w_out (bw_flush w) = done.
Proof.
  intros [[Hw _] | (Hs & Hn & Ho & _ & _)] Hfull.
  - apply (flush_full size done w Hw Hfull).
  - unfold bw_flush. cbn [w_out]. rewrite Hn, take_0, app_nil_r. exact Ho.
Qed.

(* ------------------------------------------------------------------ *)
(* the padding extension inside the list *)

Definition nopad (es : list aext) : Prop := Forall (fun e => a_is_pad e = false) es.

Definition total_len (es : list aext) : N := fold_right (fun e acc => a_len e + acc) 0 es.

Lemma nopad_update u es : nopad es -> update_padding u es = es.
Proof.
  induction 1 as [|e es He _ IH]; [reflexivity|].
  cbn [update_padding map]. fold (update_padding u es). rewrite IH.
  destruct e; [reflexivity | discriminate].
Qed.
Lemma nopad_nonpad_len es : nopad es -> nonpad_len es = total_len es.
Proof.
  induction 1 as [|e es He _ IH]; [reflexivity|].
  cbn [nonpad_len total_len fold_right]. fold (nonpad_len es). fold (total_len es). rewrite He, IH. reflexivity.
Qed.
Lemma nonpad_len_app a b : nonpad_len (a ++ b) = nonpad_len a + nonpad_len b.
Proof.
  induction a as [|e a IH]; [reflexivity|].
  cbn [app nonpad_len fold_right]. fold (nonpad_len (a ++ b)). fold (nonpad_len a). rewrite IH.
  destruct (a_is_pad e); lia.
Qed.
Lemma total_len_app a b : total_len (a ++ b) = total_len a + total_len b.
Proof.
  induction a as [|e a IH]; [reflexivity|].
  cbn [app total_len fold_right]. fold (total_len (a ++ b)). fold (total_len a). rewrite IH. lia.
Qed.
Lemma update_padding_app u a b : update_padding u (a ++ b) = update_padding u a ++ update_padding u b.
Proof. apply map_app. Qed.

Lemma find_padding_some es : forall x pe, find_padding es (Some x) = Ok pe -> pe = Some x /\ nopad es.
Proof.
  induction es as [|e es IH]; intros x pe H.
  - cbn in H. inversion H. split; [reflexivity | constructor].
  - destruct e as [psk n rd|pol st]; cbn [find_padding] in H.
    + destruct (IH _ _ H) as [-> Hn]. split; [reflexivity|]. constructor; [reflexivity | exact Hn].
    + discriminate.
Qed.

Lemma find_padding_none es : forall pe, find_padding es None = Ok pe ->
  match pe with
  | None => nopad es
  | Some (pol, st) => exists pre post, es = pre ++ APad pol st :: post /\ nopad pre /\ nopad post
  end.
Proof.
  induction es as [|e es IH]; intros pe H.
  - cbn in H. inversion H. constructor.
  - destruct e as [psk n rd|pol st]; cbn [find_padding] in H.
    + specialize (IH _ H). destruct pe as [[pol st]|].
      * destruct IH as (pre & post & -> & Hp & Hq). exists (AExt psk n rd :: pre), post.
        split; [reflexivity|]. split; [constructor; [reflexivity|exact Hp] | exact Hq].
      * constructor; [reflexivity | exact IH].
    + destruct (find_padding_some _ _ _ H) as [-> Hn]. exists [], es. repeat split; [constructor | exact Hn].
Qed.

Lemma find_padding_one pre pol st post : nopad pre -> nopad post ->
  find_padding (pre ++ APad pol st :: post) None = Ok (Some (pol, st)).
Proof.
  intros Hp Hq. induction Hp as [|e pre He _ IH].
  - cbn [app find_padding]. clear -Hq. generalize (pol, st) as x. intros x.
    induction Hq as [|e post He _ IH]; [reflexivity|].
    destruct e; [exact IH | discriminate].
  - cbn [app]. destruct e; [exact IH | discriminate].
Qed.

Lemma find_padding_nopad es : nopad es -> find_padding es None = Ok None.
Proof.
  induction 1 as [|e es He _ IH]; [reflexivity|]. destruct e; [exact IH | discriminate].
Qed.

(* two padding extensions, anywhere in the list: the error *)
Lemma find_padding_two a p1 s1 b p2 s2 c found :
  find_padding (a ++ APad p1 s1 :: b ++ APad p2 s2 :: c) found = Err E_MULTI_PADDING.
Proof.
  revert found. induction a as [|e a IH]; intros found.
  - cbn [app find_padding]. destruct found; [reflexivity|].
    generalize (p1, s1) as x. intros x. induction b as [|e b IHb].
    + reflexivity.
    + cbn [app find_padding]. destruct e; [exact IHb | reflexivity].
  - cbn [app find_padding]. destruct e as [psk n rd|pol st]; [apply IH|].
    destruct found; [reflexivity | apply IH].
Qed.

(* ------------------------------------------------------------------ *)
(* the whole function *)

Lemma emits_exists es : Forall aext_ok es -> exists outs, Forall2 emits es outs.
Proof.
  induction 1 as [|e es He _ (outs & IH)].
  - exists []. constructor.
  - destruct e as [psk n rd|pol st].
    + destruct He as (o & Ho). exists (o :: outs). constructor; assumption.
    + exists (pad_emit st :: outs). constructor; [reflexivity | assumption].
Qed.

Lemma emits_total es outs : Forall2 emits es outs -> len (concat outs) = total_len es.
Proof.
  induction 1 as [|e o es outs He _ IH]; [reflexivity|].
  cbn [concat total_len fold_right]. fold (total_len es). rewrite len_app, IH, (emits_len e o He). reflexivity.
Qed.

Lemma aext_ok_update u es : Forall aext_ok es -> Forall aext_ok (update_padding u es).
Proof.
  induction 1 as [|e es He _ IH]; [constructor|].
  cbn [update_padding map]. constructor; [|exact IH]. destruct e; [exact He | exact I].
Qed.

(* the extension block of a prepared hello *)
Definition ext_block (es : list aext) (extl : N) (outs : list bytes) : bytes :=
  match es with [] => [] | _ => u16be (u16 extl) ++ concat outs end.

(* Core: once marshal_prepare succeeds on well-behaved extensions, the function
   returns header ++ extension block, each extension contributing what it emits. *)
Lemma marshal_core bbs h es p :
  hdr_ok h -> marshal_prepare h es = Ok p ->
  total_len (pr_exts p) = pr_extensions_len p -> Forall aext_ok (pr_exts p) ->
  (es = [] -> pr_exts p = []) ->
  exists outs, Forall2 emits (pr_exts p) outs /\
    marshal_client_hello bbs h es =
      Ok (header_bytes h (pr_hello_len p) ++ ext_block es (pr_extensions_len p) outs).
Proof.
  intros Hh Hp Htot Hok Hnil.
  destruct (emits_exists _ Hok) as (outs & Hem). exists outs. split; [exact Hem|].
  unfold marshal_client_hello. rewrite Hp. cbn [bind].
  pose proof (emits_total _ _ Hem) as Hcat. rewrite Htot in Hcat.
  assert (Hhl : pr_hello_len p = match es with [] => header_length h | _ => header_length h + (2 + pr_extensions_len p) end).
  { unfold marshal_prepare in Hp. destruct (find_padding es None); cbn [bind] in Hp; try discriminate.
    inversion Hp; subst p. reflexivity. }
  set (hl := pr_hello_len p) in *.
  assert (Hfit : 4 + header_length h <= hl + 4) by (destruct es; lia).
  pose proof (write_header_ok h hl (hl + 4) Hh Hfit) as Hw.
  pose proof (len_header_bytes h hl Hh) as Hlen.
  destruct es as [|e0 es0].
  - cbn [bind]. rewrite (Hnil eq_refl) in *.
    assert (Hst : st_ok (hl + 4) (header_bytes h hl) (write_header h hl (bw_new (hl + 4)))).
    { left. split; [exact Hw | lia]. }
    rewrite (final_flush _ _ _ Hst) by lia.
    replace (len (header_bytes h hl) =? 4 + hl) with true by lia. cbn [negb ext_block].
    rewrite app_nil_r. reflexivity.
  - set (es := e0 :: es0) in *.
    pose proof (bw_write_ok (hl + 4) _ (u16be (u16 (pr_extensions_len p))) _ Hw) as Hw2.
    rewrite len_u16be in Hw2. specialize (Hw2 ltac:(lia)).
    assert (Hst : st_ok (hl + 4) (header_bytes h hl ++ u16be (u16 (pr_extensions_len p)))
                    (bw_write (u16be (u16 (pr_extensions_len p))) (write_header h hl (bw_new (hl + 4))))).
    { left. split; [exact Hw2 | rewrite len_app, len_u16be; lia]. }
    destruct (read_all_ok bbs (hl + 4) (pr_exts p) outs _ _ Hst Hem) as (w' & Hr & Hst').
    { rewrite len_app, len_u16be. lia. }
    rewrite Hr. cbn [bind].
    rewrite (final_flush _ _ _ Hst') by (rewrite !len_app, len_u16be; lia).
    rewrite !len_app, len_u16be.
    replace (len (header_bytes h hl) + 2 + len (concat outs) =? 4 + hl) with true by lia.
    cbn [negb ext_block]. rewrite <- app_assoc. reflexivity.
Qed.

(* no padding extension in the list *)
Lemma marshal_nopad bbs h es : hdr_ok h -> Forall aext_ok es -> nopad es ->
  exists outs, Forall2 emits es outs /\
    marshal_client_hello bbs h es =
      Ok (header_bytes h (match es with [] => header_length h | _ => header_length h + (2 + total_len es) end)
          ++ ext_block es (total_len es) outs).
Proof.
  intros Hh Hok Hnp.
  assert (Hp : marshal_prepare h es =
               Ok {| pr_exts := es; pr_extensions_len := total_len es;
                     pr_hello_len := match es with [] => header_length h | _ => header_length h + (2 + total_len es) end |}).
  { unfold marshal_prepare. rewrite (find_padding_nopad es Hnp). cbn [bind]. rewrite (nopad_nonpad_len es Hnp). reflexivity. }
  destruct (marshal_core bbs h es _ Hh Hp eq_refl Hok (fun H => H)) as (outs & Hem & Hm).
  exists outs. split; [exact Hem | exact Hm].
Qed.

(* exactly one padding extension, anywhere in the list *)
Lemma marshal_onepad bbs h pre pol st post :
  hdr_ok h -> Forall aext_ok pre -> Forall aext_ok post -> nopad pre -> nopad post ->
  let es := pre ++ APad pol st :: post in
  let u := unpadded_len h es in
  let st' := pad_update pol st u in
  let extl := total_len pre + total_len post + pad_len st' in
  exists o1 o2, Forall2 emits pre o1 /\ Forall2 emits post o2 /\
    marshal_client_hello bbs h es =
      Ok (header_bytes h (header_length h + (2 + extl)) ++ u16be (u16 extl)
          ++ concat o1 ++ pad_emit st' ++ concat o2).
Proof.
  intros Hh Hok1 Hok2 Hn1 Hn2 es u st' extl.
  assert (Hnl : nonpad_len es = total_len pre + total_len post).
  { unfold es. rewrite nonpad_len_app. cbn [nonpad_len fold_right a_is_pad]. fold (nonpad_len post).
    rewrite (nopad_nonpad_len pre Hn1), (nopad_nonpad_len post Hn2). reflexivity. }
  assert (Hup : update_padding u es = pre ++ APad pol st' :: post).
  { unfold es. rewrite update_padding_app. cbn [update_padding map]. fold (update_padding u post).
    rewrite (nopad_update u pre Hn1), (nopad_update u post Hn2). reflexivity. }
  assert (Hne : exists e0 es0, es = e0 :: es0).
  { unfold es. destruct pre; cbn [app]; eauto. }
  destruct Hne as (e0 & es0 & Hes).
  assert (Hp : marshal_prepare h es =
               Ok {| pr_exts := pre ++ APad pol st' :: post; pr_extensions_len := extl;
                     pr_hello_len := header_length h + (2 + extl) |}).
  { unfold marshal_prepare. unfold es at 1. rewrite (find_padding_one pre pol st post Hn1 Hn2). cbn [bind].
    fold u. fold st'. rewrite Hup, Hnl. fold extl. rewrite Hes. reflexivity. }
  destruct (marshal_core bbs h es _ Hh Hp) as (outs & Hem & Hm).
  - cbn [pr_exts pr_extensions_len]. rewrite total_len_app. cbn [total_len fold_right a_len]. fold (total_len post).
    unfold extl. lia.
  - cbn [pr_exts]. apply Forall_app. split; [exact Hok1|]. constructor; [exact I | exact Hok2].
  - intros E. rewrite Hes in E. discriminate.
  - cbn [pr_exts pr_extensions_len pr_hello_len] in *.
    apply Forall2_app_inv_l in Hem. destruct Hem as (o1 & o2' & H1 & H2 & ->).
    inversion H2 as [|? op ? o2 Hop H2']; subst. cbn [emits] in Hop. subst op.
    exists o1, o2. split; [exact H1|]. split; [exact H2'|].
    rewrite Hm. rewrite Hes. cbn [ext_block]. rewrite concat_app. cbn [concat]. rewrite <- ?app_assoc. reflexivity.
Qed.

(* ------------------------------------------------------------------ *)
(* consequences used by Props/C05.v *)

Lemma unpadded_len_one h pre pol st post : nopad pre -> nopad post ->
  unpadded_len h (pre ++ APad pol st :: post) = header_length h + 4 + (total_len pre + total_len post) + 2.
Proof.
  intros Hn1 Hn2. unfold unpadded_len. rewrite nonpad_len_app.
  cbn [nonpad_len fold_right a_is_pad]. fold (nonpad_len post).
  rewrite (nopad_nonpad_len pre Hn1), (nopad_nonpad_len post Hn2). reflexivity.
Qed.

(* One padding extension: the message is everything else (u bytes in all) with
   the padding extension's bytes — header and zeros — in its place. *)
Lemma marshal_onepad_split bbs h pre pol st post :
  hdr_ok h -> Forall aext_ok pre -> Forall aext_ok post -> nopad pre -> nopad post ->
  let es := pre ++ APad pol st :: post in
  let u := unpadded_len h es in
  let st' := pad_update pol st u in
  exists a b, marshal_client_hello bbs h es = Ok (a ++ pad_emit st' ++ b) /\
              len a + len b = u /\ len (a ++ pad_emit st' ++ b) = u + pad_len st'.
Proof.
  intros Hh Hok1 Hok2 Hn1 Hn2 es u st'.
  destruct (marshal_onepad bbs h pre pol st post Hh Hok1 Hok2 Hn1 Hn2) as (o1 & o2 & H1 & H2 & Hm).
  fold es in Hm. fold u in Hm. fold st' in Hm.
  set (extl := total_len pre + total_len post + pad_len st') in *.
  exists (header_bytes h (header_length h + (2 + extl)) ++ u16be (u16 extl) ++ concat o1), (concat o2).
  assert (Hu : u = header_length h + 4 + (total_len pre + total_len post) + 2)
    by (apply unpadded_len_one; assumption).
  pose proof (emits_total _ _ H1) as L1. pose proof (emits_total _ _ H2) as L2.
  pose proof (len_header_bytes h (header_length h + (2 + extl)) Hh) as Lh.
  split; [|split].
  - rewrite Hm. rewrite <- ?app_assoc. reflexivity.
  - rewrite !len_app, len_u16be. lia.
  - rewrite !len_app, len_u16be, len_pad_emit. lia.
Qed.

Lemma marshal_nopad_len bbs h es : hdr_ok h -> Forall aext_ok es -> nopad es ->
  exists outs, Forall2 emits es outs /\
    marshal_client_hello bbs h es =
      Ok (header_bytes h (match es with [] => header_length h | _ => header_length h + (2 + total_len es) end)
          ++ ext_block es (total_len es) outs) /\
    len (header_bytes h (match es with [] => header_length h | _ => header_length h + (2 + total_len es) end)
          ++ ext_block es (total_len es) outs)
    = match es with [] => 4 + header_length h | _ => 4 + header_length h + 2 + total_len es end.
Proof.
  intros Hh Hok Hnp. destruct (marshal_nopad bbs h es Hh Hok Hnp) as (outs & Hem & Hm).
  exists outs. split; [exact Hem|]. split; [exact Hm|].
  pose proof (emits_total _ _ Hem) as L. rewrite len_app, len_header_bytes by exact Hh.
  destruct es; cbn [ext_block].
  - change (len (@nil N)) with 0. lia.
  - rewrite len_app, len_u16be. lia.
Qed.

(* Whatever the extensions do, a successful marshal has the announced length *)
Lemma marshal_len_any bbs h es raw : marshal_client_hello bbs h es = Ok raw ->
  exists p, marshal_prepare h es = Ok p /\ len raw = 4 + pr_hello_len p.
Proof.
  unfold marshal_client_hello. destruct (marshal_prepare h es) as [p| |]; cbn [bind]; try discriminate.
  intros H. exists p. split; [reflexivity|].
  destruct (match es with [] => _ | _ => _ end) as [w| |]; cbn [bind] in H; try discriminate.
  destruct (len (w_out (bw_flush w)) =? 4 + pr_hello_len p) eqn:E; cbn [negb] in H; [|discriminate].
  apply N.eqb_eq in E. inversion H; subst raw. exact E.
Qed.

Lemma prepare_ok h es p : Forall aext_ok es -> marshal_prepare h es = Ok p ->
  total_len (pr_exts p) = pr_extensions_len p /\ Forall aext_ok (pr_exts p) /\
  (es = [] -> pr_exts p = []) /\
  pr_hello_len p = match es with [] => header_length h | _ => header_length h + (2 + pr_extensions_len p) end.
Proof.
  intros Hok Hp. unfold marshal_prepare in Hp.
  destruct (find_padding es None) as [pe| |] eqn:Hf; cbn [bind] in Hp; try discriminate.
  pose proof (find_padding_none es pe Hf) as Hc. inversion Hp; subst p; clear Hp.
  cbn [pr_exts pr_extensions_len pr_hello_len].
  destruct pe as [[pol st]|].
  - destruct Hc as (pre & post & -> & Hn1 & Hn2).
    apply Forall_app in Hok. destruct Hok as [Hok1 Hok2]. inversion Hok2 as [|? ? _ Hok2']; subst.
    rewrite update_padding_app. cbn [update_padding map]. fold (update_padding (unpadded_len h (pre ++ APad pol st :: post)) post).
    rewrite (nopad_update _ pre Hn1), (nopad_update _ post Hn2).
    rewrite nonpad_len_app. cbn [nonpad_len fold_right a_is_pad]. fold (nonpad_len post).
    rewrite (nopad_nonpad_len pre Hn1), (nopad_nonpad_len post Hn2).
    rewrite total_len_app. cbn [total_len fold_right a_len]. fold (total_len post).
    split; [lia|]. split.
    + apply Forall_app. split; [exact Hok1|]. constructor; [exact I | exact Hok2'].
    + split; [intros E; destruct pre; discriminate | reflexivity].
  - rewrite (nopad_nonpad_len es Hc). split; [reflexivity|]. split; [exact Hok|]. split; [auto | reflexivity].
Qed.

(* Framing: on well-behaved extensions, if there is at most one padding
   extension the function succeeds and every length prefix is the length of
   what follows it, narrowed exactly as the code narrows it. *)
Lemma marshal_framing bbs h es p : hdr_ok h -> Forall aext_ok es -> marshal_prepare h es = Ok p ->
  exists body eb outs,
    marshal_client_hello bbs h es = Ok ([typeClientHello] ++ u24be (len body) ++ body) /\
    body = u16be (h_vers h) ++ h_random h
           ++ [u8 (len (h_sid h))] ++ h_sid h
           ++ u16be (u16 (len (suites_bytes (h_suites h)))) ++ suites_bytes (h_suites h)
           ++ [u8 (len (h_comp h))] ++ h_comp h
           ++ match es with [] => [] | _ => u16be (u16 (len eb)) ++ eb end /\
    eb = concat outs /\ Forall2 emits (pr_exts p) outs /\ length (pr_exts p) = length es.
Proof.
  intros Hh Hok Hp. destruct (prepare_ok h es p Hok Hp) as (Htot & Hok' & Hnil & Hhl).
  destruct (marshal_core bbs h es p Hh Hp Htot Hok' Hnil) as (outs & Hem & Hm).
  pose proof (emits_total _ _ Hem) as Lc. rewrite Htot in Lc.
  set (eb := concat outs).
  set (tailb := match es with [] => [] | _ => u16be (u16 (len eb)) ++ eb end).
  assert (Htail : ext_block es (pr_extensions_len p) outs = tailb).
  { unfold tailb, ext_block, eb. rewrite Lc. destruct es; reflexivity. }
  assert (Hlt : len tailb = match es with [] => 0 | _ => 2 + pr_extensions_len p end).
  { unfold tailb. destruct es; [reflexivity|]. rewrite len_app, len_u16be. unfold eb. lia. }
  set (body := u16be (h_vers h) ++ h_random h
           ++ [u8 (len (h_sid h))] ++ h_sid h
           ++ u16be (u16 (len (suites_bytes (h_suites h)))) ++ suites_bytes (h_suites h)
           ++ [u8 (len (h_comp h))] ++ h_comp h ++ tailb).
  assert (Hlb : len body = pr_hello_len p).
  { unfold body. autorewrite with lenrw. rewrite Hlt, Hhl. unfold hdr_ok in Hh. unfold header_length.
    destruct es; lia. }
  exists body, eb, outs. split; [|split; [reflexivity|split; [reflexivity|split; [exact Hem|]]]].
  - rewrite Hm, Htail, Hlb. unfold header_bytes, body.
    rewrite len_suites_bytes, (N.mul_comm 2). rewrite <- ?app_assoc. reflexivity.
  - clear -Hp. unfold marshal_prepare in Hp. destruct (find_padding es None) as [pe| |]; cbn [bind] in Hp; try discriminate.
    inversion Hp; subst p. cbn [pr_exts]. destruct pe; [apply map_length | reflexivity].
Qed.

Lemma from_raw_install_one rawlen pre pol st post : nopad pre ->
  from_raw_install rawlen (pre ++ APad pol st :: post) = pre ++ APad (from_raw_policy rawlen) st :: post.
Proof.
  induction 1 as [|e pre He _ IH]; [reflexivity|].
  cbn [app from_raw_install]. destruct e; [rewrite IH; reflexivity | discriminate].
Qed.

Lemma from_raw_install_nopad rawlen es : nopad es -> from_raw_install rawlen es = es.
Proof.
  induction 1 as [|e es He _ IH]; [reflexivity|].
  cbn [from_raw_install]. destruct e; [rewrite IH; reflexivity | discriminate].
Qed.

(* ------------------------------------------------------------------ *)
(* ClientHelloSpec.AlwaysAddPadding (Fingerprinter option) *)

Definition nopsk (es : list aext) : Prop := Forall (fun e => a_is_psk e = false) es.
Definition fresh_pad : aext := APad PolBoring {| p_len := 0; p_will := false |}.

(* a padding extension met before any pre_shared_key: the spec — functor included — is left alone *)
Lemma aap_present pre pol st post : nopad pre -> nopsk pre ->
  always_add_padding (pre ++ APad pol st :: post) = pre ++ APad pol st :: post.
Proof.
  intros Hn Hk. induction Hn as [|e pre He _ IH]; [reflexivity|].
  inversion Hk as [|? ? Hke Hk']; subst. cbn [app always_add_padding]. rewrite He, Hke, (IH Hk'). reflexivity.
Qed.

Lemma aap_absent es : nopad es -> nopsk es -> always_add_padding es = es ++ [fresh_pad].
Proof.
  intros Hn Hk. induction Hn as [|e es He _ IH]; [reflexivity|].
  inversion Hk as [|? ? Hke Hk']; subst. cbn [app always_add_padding]. rewrite He, Hke, (IH Hk'). reflexivity.
Qed.

Lemma aap_before_psk pre e post : nopad pre -> nopsk pre -> a_is_pad e = false -> a_is_psk e = true ->
  always_add_padding (pre ++ e :: post) = pre ++ fresh_pad :: e :: post.
Proof.
  intros Hn Hk Hep Hek. induction Hn as [|x pre Hx _ IH].
  - cbn [app always_add_padding]. rewrite Hep, Hek. reflexivity.
  - inversion Hk as [|? ? Hkx Hk']; subst. cbn [app always_add_padding]. rewrite Hx, Hkx, (IH Hk'). reflexivity.
Qed.

(* Proofs for Model/Robust.v (C33). *)
From Coq Require Import ZifyBool ZifyNat ZifyN.
From UV Require Import Base.Common Model.RobustSrv Model.Alps Model.Robust Proofs.RobustSrvP.
Open Scope N_scope.
Ltac Zify.zify_post_hook ::= Z.div_mod_to_equations.

(* ---------- encryptedExtensionsMsg.unmarshal is total ---------- *)
Lemma ee_handle_total id d m : exists r, ee_handle id d m = Ok r.
Proof.
  unfold ee_handle. destruct (id =? ext_ALPN).
  { destruct (cb_lp_total 2 d) as ([[pl d']|] & -> & _); cbn [bind]; [|eauto].
    destruct (is_empty pl); [eauto|].
    destruct (cb_lp_total 1 pl) as ([[pr pl']|] & -> & _); cbn [bind]; [|eauto].
    destruct (is_empty pr || negb (is_empty pl')); [eauto|]. destruct (negb (is_empty d')); eauto. }
  destruct (id =? ext_quic_tp); [eauto|].
  destruct (id =? ext_early_data); [destruct (negb (is_empty d)); eauto|].
  destruct (id =? ext_ech); eauto.
Qed.

Lemma ee_loop_total : forall fuel exts m, (length exts <= fuel)%nat -> exists r, ee_loop fuel exts m = Ok r.
Proof.
  induction fuel as [|fuel IH]; intros exts m H.
  - destruct exts; [cbn; eauto|cbn in H; lia].
  - cbn [ee_loop]. destruct (is_empty exts); [eauto|].
    destruct (cb_uint_total 2 exts) as ([[id e1]|] & -> & H1); cbn [bind]; [|eauto].
    pose proof (H1 id e1 eq_refl) as L1.
    destruct (cb_lp_total 2 e1) as ([[body e2]|] & -> & H2); cbn [bind]; [|eauto].
    pose proof (H2 body e2 eq_refl) as L2.
    destruct (ee_handle_total id body m) as ([m'|] & ->); cbn [bind]; [|eauto]. apply IH. lia.
Qed.

Theorem ee_unmarshal_total data : exists r, ee_unmarshal data = Ok r.
Proof.
  unfold ee_unmarshal. destruct (cb_skip_total 4 data) as ([s|] & ->); cbn [bind]; [|eauto].
  destruct (cb_lp_total 2 s) as ([[exts rest]|] & -> & _); cbn [bind]; [|eauto].
  destruct (negb (is_empty rest)); [eauto|]. apply ee_loop_total. lia.
Qed.

(* readServerParameters never panics either (it has no slice expression at all) *)
Theorem client_read_ee_no_panic fixed c data : forall p, client_read_ee fixed c data <> Panic p.
Proof.
  intros p. unfold client_read_ee. destruct (ee_unmarshal_total data) as ([m|] & ->); cbn [bind]; [|discriminate].
  unfold read_server_parameters, utls_read_server_parameters.
  destruct (negb _); [discriminate|].
  destruct (negb (ee_cp m =? 0)); cbn [bind].
  - destruct (cl_vers c <? V13); [discriminate|]. destruct (is_empty (ee_alpn m)); [discriminate|].
    destruct (lookup _ _); cbn [bind]; destruct (ee_quic m); try discriminate; destruct (ee_early m); discriminate.
  - destruct (ee_quic m); try discriminate; destruct (ee_early m); discriminate.
Qed.

(* ---------- the message-type switch on a client ---------- *)
Theorem client_read_handshake_total std hv vers hand : exists o, client_read_handshake std hv vers hand = Ok o.
Proof. apply read_handshake_total. Qed.

(* the message returned is a prefix of the buffer *)
Lemma read_handshake_prefix std c hv vers hand t data :
  read_handshake std c hv vers hand = Ok (RMsg t data) -> exists k, data = firstn k hand.
Proof.
  unfold read_handshake.
  destruct hand as [|h0 [|h1 [|h2 [|h3 hand]]]]; try discriminate.
  assert (L : (length (h0 :: h1 :: h2 :: h3 :: hand) <? 4)%nat = false) by reflexivity. rewrite L. clear L.
  destruct hv; cbn [idx nth_error bind].
  all: match goal with |- context [if ?b then Ok (RAlert _) else _] => destruct b end; [discriminate|].
  all: match goal with |- context [if ?b then Ok NeedMore else _] => destruct b end; [discriminate|].
  all: unfold unmarshal_handshake_message.
  all: match goal with |- context [idx ?d 0] => remember d as dd eqn:Edd end.
  all: destruct (idx dd 0) as [t0| |]; cbn [bind]; try discriminate.
  all: destruct (type_of_byte c vers t0) as [t'|]; [|discriminate].
  all: destruct (unmarshal_of std t' dd) as [[|]| |]; cbn [bind]; try discriminate.
  all: intros E; injection E as <- <-; eexists; exact Edd.
Qed.

(* ---------- byte-valued input: what cryptobyte reads stays byte-valued, and a uint24 is below 2^24 ---------- *)
Lemma Forall_firstn {A} (P : A -> Prop) n l : Forall P l -> Forall P (firstn n l).
Proof. intros H. revert n. induction H; intros [|n]; cbn; auto. Qed.
Lemma Forall_skipn {A} (P : A -> Prop) n l : Forall P l -> Forall P (skipn n l).
Proof. intros H. revert n. induction H; intros [|n]; cbn; auto. Qed.

Lemma cb_read_bytes_ok s n v rest : bytes_ok s -> cb_read s n = Ok (Some (v, rest)) -> bytes_ok v /\ bytes_ok rest.
Proof.
  unfold cb_read, slice_to, slice_from, bytes_ok. intros H.
  destruct ((Z.of_nat (length s) <? n) || (n <? 0))%Z eqn:E; [discriminate|].
  apply orb_false_iff in E. destruct E as [E1 E2]. rewrite orb_comm, E1, E2. cbn [orb bind].
  intros E. injection E as <- <-. split; [apply Forall_firstn|apply Forall_skipn]; exact H.
Qed.

Lemma cb_uint3_bound s x rest : bytes_ok s -> cb_uint 3 s = Ok (Some (x, rest)) -> x < 16777216 /\ bytes_ok rest.
Proof.
  intros H. unfold cb_uint. destruct (cb_read_total s (Z.of_nat 3)) as (r & Er & Hr). rewrite Er. cbn [bind].
  destruct r as [[v rest']|]; [|discriminate].
  destruct (cb_read_bytes_ok _ _ _ _ H Er) as [Hv Hrest].
  destruct (Hr v rest' eq_refl) as (_ & Hl & _). change (Z.to_nat (Z.of_nat 3)) with 3%nat in Hl.
  destruct v as [|a [|b [|c [|]]]]; cbn [length] in Hl; try lia.
  cbn [be_acc idx nth_error bind]. intros E. injection E as <- <-.
  unfold bytes_ok in Hv. inversion Hv as [|? ? Ha Hv1]; subst. inversion Hv1 as [|? ? Hb Hv2]; subst. inversion Hv2 as [|? ? Hc _]; subst.
  split; [|exact Hrest]. unfold u32. lia.
Qed.

Lemma cb_skip_bytes_ok n s r : bytes_ok s -> cb_skip n s = Ok (Some r) -> bytes_ok r.
Proof.
  intros H. unfold cb_skip. destruct (cb_read s n) as [[[v rest]|]| |] eqn:E; cbn [bind]; try discriminate.
  intros E'. injection E' as <-. exact (proj2 (cb_read_bytes_ok _ _ _ _ H E)).
Qed.
Lemma cb_uint_bytes_ok k s x r : bytes_ok s -> cb_uint k s = Ok (Some (x, r)) -> bytes_ok r.
Proof.
  intros H. unfold cb_uint. destruct (cb_read s (Z.of_nat k)) as [[[v rest]|]| |] eqn:E; cbn [bind]; try discriminate.
  destruct (be_acc v 0 k 0); cbn [bind]; try discriminate. intros E'. injection E' as _ <-.
  exact (proj2 (cb_read_bytes_ok _ _ _ _ H E)).
Qed.

Lemma cc_unmarshal_ulen data c : bytes_ok data -> cc_unmarshal data = Ok (Some c) -> cc_uncompressedLength c < 16777216.
Proof.
  intros H. unfold cc_unmarshal.
  destruct (cb_skip 4 data) as [[s|]| |] eqn:E1; cbn [bind]; try discriminate.
  pose proof (cb_skip_bytes_ok _ _ _ H E1) as H1.
  destruct (cb_uint 2 s) as [[[alg s1]|]| |] eqn:E2; cbn [bind]; try discriminate.
  pose proof (cb_uint_bytes_ok _ _ _ _ H1 E2) as H2.
  destruct (cb_uint 3 s1) as [[[ul s2]|]| |] eqn:E3; cbn [bind]; try discriminate.
  destruct (cb_uint3_bound _ _ _ H2 E3) as [Hul _].
  destruct (cb_lp 3 s2) as [[[body s3]|]| |]; cbn [bind]; try discriminate.
  intros E. injection E as <-. exact Hul.
Qed.

(* ---------- decompressCert: no panic, and the size of its one allocation ---------- *)
Lemma make_and_header_ok n : 4 <= n -> make_and_header n = Ok n.
Proof.
  intros H. unfold make_and_header.
  destruct (N.ltb_spec 0 n); [|lia]. destruct (N.ltb_spec 1 n); [|lia].
  destruct (N.ltb_spec 2 n); [|lia]. destruct (N.ltb_spec 3 n); [|lia]. cbn [bind].
  destruct (N.ltb_spec n 4); [lia|]. reflexivity.
Qed.

Theorem decompress_alloc_spec capped adv alg ulen open_ok : ulen < 16777216 ->
  decompress_alloc capped adv alg ulen open_ok = Err a_bad_certificate \/
  (decompress_alloc capped adv alg ulen open_ok = Ok (ulen + 4) /\ (capped = true -> ulen <= maxHandshakeCertificateMsg)).
Proof.
  intros H. unfold decompress_alloc.
  destruct (negb (existsb (N.eqb alg) adv)); [left; reflexivity|].
  destruct (negb (known_alg alg)); [left; reflexivity|].
  destruct (negb open_ok); [left; reflexivity|].
  destruct capped; cbn [andb].
  - destruct (N.ltb_spec maxHandshakeCertificateMsg ulen) as [Hc|Hc]; [left; reflexivity|].
    right. unfold u32. rewrite N.mod_small by lia. rewrite make_and_header_ok by lia. auto.
  - right. unfold u32. rewrite N.mod_small by lia. rewrite make_and_header_ok by lia. split; [reflexivity|discriminate].
Qed.

Theorem utls_read_server_certificate_spec capped exts adv open_ok msg :
  (forall c, msg = Some c -> cc_uncompressedLength c < 16777216) ->
  (exists a, utls_read_server_certificate capped exts adv open_ok msg = Err a) \/
  utls_read_server_certificate capped exts adv open_ok msg = Ok None \/
  (exists c, msg = Some c /\ utls_read_server_certificate capped exts adv open_ok msg = Ok (Some (cc_uncompressedLength c + 4)) /\
     (capped = true -> cc_uncompressedLength c <= maxHandshakeCertificateMsg)).
Proof.
  intros H. induction exts as [|[|] exts IH]; cbn [utls_read_server_certificate]; auto.
  destruct adv as [|a0 adv]; [exact IH|]. destruct msg as [c|]; [|exact IH].
  destruct (decompress_alloc_spec capped (a0 :: adv) (cc_algorithm c) (cc_uncompressedLength c) open_ok (H c eq_refl)) as [E|[E Hc]];
    rewrite E; cbn [bind]; [left; eauto|]. right. right. exists c. auto.
Qed.

(* ---------- HelloRetryRequest: cookie insertion ---------- *)
Lemma prng_intn_range n r : (0 <= prng_intn n r)%Z /\ ((0 < n)%Z -> (prng_intn n r < n)%Z).
Proof. unfold prng_intn. destruct (Z.leb_spec n 0); split; intros; try lia; apply Z.mod_pos_bound; lia. Qed.

Theorem insert_cookie_no_panic exts r :
  (exists l, insert_cookie exts r = Ok l /\ (length l = length exts \/ length l = S (length exts)) /\ In XCookie l) \/
  (insert_cookie exts r = Err E_HRR_COOKIE_INDEX /\ exts = []).
Proof.
  unfold insert_cookie. destruct (existsb (ext_kind_eqb XCookie) exts) eqn:Ex.
  { left. exists exts. split; [reflexivity|]. split; [auto|].
    apply existsb_exists in Ex. destruct Ex as (x & Hin & Hx). destruct x; try discriminate. exact Hin. }
  set (n := Z.of_nat (length exts)). set (idx := prng_intn (n - 2) r).
  destruct (prng_intn_range (n - 2) r) as [H0 H1]. fold idx in H0, H1.
  destruct (Z.leb_spec n idx) as [Hge|Hlt].
  { right. split; [reflexivity|]. destruct exts; [reflexivity|]. exfalso.
    unfold idx, prng_intn in Hge. destruct (Z.leb_spec (n - 2) 0); subst n; cbn [length] in *; lia. }
  left. unfold xslice_from, xslice_to. fold n.
  destruct (Z.ltb_spec idx 0); [lia|]. destruct (Z.ltb_spec n idx); [lia|]. cbn [orb bind].
  eexists. split; [reflexivity|]. split.
  - right. rewrite app_length. cbn [length]. rewrite firstn_length, skipn_length. subst n. lia.
  - apply in_or_app. right. left. reflexivity.
Qed.

Theorem hrr_utls_section_no_panic g psk exts clen r : forall p, hrr_utls_section g psk exts clen r <> Panic p.
Proof.
  intros p. unfold hrr_utls_section. destruct g; [discriminate|]. destruct (0 <? psk)%nat; [discriminate|].
  destruct (negb _); [discriminate|]. destruct (0 <? clen)%nat; [|discriminate].
  destruct (insert_cookie_no_panic exts r) as [(l & -> & _)|[-> _]]; discriminate.
Qed.
(* with a key_share extension in the list (the uTLS section insists on one) the cookie always goes in *)
Theorem hrr_cookie_inserted exts clen r : existsb (ext_kind_eqb XKeyShare) exts = true -> (0 < clen)%nat ->
  exists l, hrr_utls_section false 0 exts clen r = Ok l /\ In XCookie l.
Proof.
  intros Hk Hc. unfold hrr_utls_section. destruct clen as [|clen]; [lia|]. cbn [Nat.ltb Nat.leb]. rewrite Hk. cbn [negb].
  destruct (insert_cookie_no_panic exts r) as [(l & -> & _ & Hin)|[_ He]]; [exists l; split; [reflexivity|exact Hin]|]. subst exts. cbn in Hk. discriminate Hk.
Qed.

(* ---------- one step, and the whole run ---------- *)
Section ClientP.
  Variable std : gotype -> bytes -> bool.
  Variable capped : bool.
  Variable advertised : list N.
  Variable exts_is_cc : list bool.
  Variable open_ok : N -> bytes -> bool.

  Definition step_bound (s : cstep) : Prop :=
    match s with
    | CAccept _ k => capped = true -> k <= maxHandshakeCertificateMsg + 4
    | _ => True
    end.

  Lemma read_handshake_len std' c hv vers hand t data :
    read_handshake std' c hv vers hand = Ok (RMsg t data) -> N.of_nat (length data) <= maxHandshakeCertificateMsg + 4.
  Proof.
    unfold read_handshake.
    destruct hand as [|h0 [|h1 [|h2 [|h3 hand]]]]; try discriminate.
    assert (L : (length (h0 :: h1 :: h2 :: h3 :: hand) <? 4)%nat = false) by reflexivity. rewrite L. clear L.
    destruct hv; cbn [idx nth_error bind].
    all: match goal with |- context [if ?m <? ?n then Ok (RAlert _) else _] => destruct (N.ltb_spec m n) as [Hm|Hm] end; [discriminate|].
    all: match goal with |- context [if ?b then Ok NeedMore else _] => destruct b end; [discriminate|].
    all: unfold unmarshal_handshake_message.
    all: match goal with |- context [idx ?d 0] => remember d as dd eqn:Edd end.
    all: destruct (idx dd 0) as [t0| |]; cbn [bind]; try discriminate.
    all: destruct (type_of_byte c vers t0) as [t'|]; [|discriminate].
    all: destruct (unmarshal_of std' t' dd) as [[|]| |]; cbn [bind]; try discriminate.
    all: intros E; injection E as _ <-; subst dd; rewrite firstn_length.
    all: unfold maxHandshakeCertificateMsg, maxHandshake in *.
    all: try (destruct (h0 =? 11)); lia.
  Qed.


  (* the step never panics: Ok (NeedMore / alert / accepted with a bounded allocation) or Err (decompressCert refused the message) *)
  Theorem client_step_no_panic rp hv vers hand : bytes_ok hand ->
    (exists s, client_step std capped advertised exts_is_cc open_ok rp hv vers hand = Ok s /\ step_bound s) \/
    (exists a, client_step std capped advertised exts_is_cc open_ok rp hv vers hand = Err a).
  Proof.
    intros Hb. unfold client_step.
    destruct (client_read_handshake_total std hv vers hand) as (o & Eo). rewrite Eo. cbn [bind].
    destruct o as [| a | t data]; [left; eexists; split; [reflexivity|exact I]..|].
    unfold client_read_handshake in Eo.
    destruct (read_handshake_prefix _ _ _ _ _ _ _ Eo) as (k & Hk).
    pose proof (read_handshake_len _ _ _ _ _ _ _ Eo) as Hlen.
    assert (Hd : bytes_ok data) by (subst data; apply Forall_firstn; exact Hb).
    destruct (negb (cdispatch rp _ t)); [left; eexists; split; [reflexivity|exact I]|].
    destruct (gotype_eqb t T_utlsCompressedCertificate); [|left; eexists; split; [reflexivity|intros _; exact Hlen]].
    destruct (cc_unmarshal_total data) as (m & Em). rewrite Em. cbn [bind].
    assert (Hm : forall c, m = Some c -> cc_uncompressedLength c < 16777216).
    { intros c ->. exact (cc_unmarshal_ulen data c Hd Em). }
    destruct (utls_read_server_certificate_spec capped exts_is_cc advertised
                (match m with Some c => open_ok (cc_algorithm c) (cc_data c) | None => false end) m Hm)
      as [(a & E)|[E|(c & Hc & E & Hcap)]]; rewrite E; cbn [bind].
    - right. eauto.
    - left. eexists. split; [reflexivity|]. cbn [step_bound]. intros _. lia.
    - left. eexists. split; [reflexivity|]. cbn [step_bound]. intros Hcp. specialize (Hcap Hcp). lia.
  Qed.

  Variable next : crp -> gotype -> bytes -> option crp.

  (* client_no_panic + client_terminates (structural recursion on the finite message list) + alloc_bounded *)
  Theorem run_no_panic : forall msgs rp hv vers m0, Forall bytes_ok msgs ->
    (exists alerts m, run std capped advertised exts_is_cc open_ok next rp hv vers msgs m0 = Ok (alerts, m) /\
        (capped = true -> m <= N.max m0 (maxHandshakeCertificateMsg + 4))) \/
    (exists a, run std capped advertised exts_is_cc open_ok next rp hv vers msgs m0 = Err a).
  Proof.
    induction msgs as [|hand rest IH]; intros rp hv vers m0 Hall; cbn [run].
    - left. exists [], m0. split; [reflexivity|]. intros _. lia.
    - inversion Hall as [|? ? Hh Hrest]; subst.
      destruct (client_step_no_panic rp hv vers hand Hh) as [(s & -> & Hs)|(a & ->)]; cbn [bind]; [|right; eauto].
      destruct s as [| a | t k].
      + left. exists [], m0. split; [reflexivity|]. intros _. lia.
      + left. exists [a], m0. split; [reflexivity|]. intros _. lia.
      + cbn [step_bound] in Hs. destruct (next rp t hand) as [rp'|].
        * destruct (IH rp' true vers (N.max m0 k) Hrest) as [(al & m & -> & Hm)|(a & ->)]; [|right; eauto].
          left. exists al, m. split; [reflexivity|]. intros Hc. specialize (Hm Hc). specialize (Hs Hc). lia.
        * left. eexists [], _. split; [reflexivity|]. intros Hc. specialize (Hs Hc). lia.
  Qed.
End ClientP.

(* ---------- where the two uTLS message types are accepted on a client ---------- *)
Theorem client_ee_only_at_ee rp cc : cdispatch rp cc T_encryptedExtensions = true -> rp = CRP_EncryptedExtensions.
Proof. destruct rp, cc; cbn; intros H; try discriminate; reflexivity. Qed.
Theorem client_ccert_only_at_cert rp cc : cdispatch rp cc T_utlsCompressedCertificate = true ->
  cc = true /\ (rp = CRP_CertificateOrRequest13 \/ rp = CRP_Certificate13).
Proof. destruct rp, cc; cbn; intros H; try discriminate; auto. Qed.

(* ---------- F-33: without the cap a 13-byte CompressedCertificate makes decompressCert allocate 16 MiB ---------- *)
Definition f33_msg : bytes := [25; 0; 0; 9; 0; 2; 255; 255; 255; 0; 0; 1; 6].
Lemma f33_witness :
  client_step (fun _ _ => true) false [2] [true] (fun _ _ => true) CRP_CertificateOrRequest13 true 772 f33_msg
    = Ok (CAccept T_utlsCompressedCertificate 16777219) /\
  client_step (fun _ _ => true) true [2] [true] (fun _ _ => true) CRP_CertificateOrRequest13 true 772 f33_msg
    = Err a_bad_certificate.
Proof. split; vm_compute; reflexivity. Qed.

(* ---------- bound on what is pulled out of the decompressor ---------- *)
Theorem decompress_pulled_bound adv alg ulen open_ok : ulen < 16777216 ->
  decompress_pulled_max true adv alg ulen open_ok <= maxHandshakeCertificateMsg + 1.
Proof.
  intros H. unfold decompress_pulled_max.
  destruct (decompress_alloc_spec true adv alg ulen open_ok H) as [-> | [-> Hc]]; [unfold maxHandshakeCertificateMsg; lia|].
  specialize (Hc eq_refl). cbn [decompress_read_buffers fold_right]. lia.
Qed.

(* ---------- establishHandshakeKeys: every slice expression on the server share is in bounds ---------- *)
Theorem establish_share_slices_no_panic group data : forall p, establish_share_slices group data <> Panic p.
Proof.
  intros p. unfold establish_share_slices, slice_from, slice_to, hybrid_share_len.
  destruct (group =? X25519MLKEM768) eqn:E1; destruct (group =? X25519Kyber768Draft00) eqn:E2.
  - apply N.eqb_eq in E1, E2. rewrite E1 in E2. discriminate.
  - destruct (Nat.eqb_spec (length data) 1120) as [L|L]; cbn [negb bind]; [|discriminate].
    rewrite L. cbn [Z.of_nat Z.ltb orb bind Pos.of_succ_nat]. vm_compute (Z.of_nat 1120). cbn [Z.ltb Z.compare Pos.compare Pos.compare_cont orb bind]. discriminate.
  - cbn [bind]. destruct (Nat.eqb_spec (length data) 1120) as [L|L]; cbn [negb bind]; [|discriminate].
    rewrite L. vm_compute (Z.of_nat 1120). cbn [Z.ltb Z.compare Pos.compare Pos.compare_cont orb bind]. discriminate.
  - cbn [bind]. discriminate.
Qed.

(* ---------- Read never blocks on its own locks, however many HelloRequests arrive ---------- *)
Lemma lock_run_reneg n : forall r, lock_run [L_in] (concat (repeat ops_handle_renegotiation n) ++ r) = lock_run [L_in] r.
Proof. induction n as [|n IH]; intros r; [reflexivity|]. cbn [repeat concat]. rewrite <- app_assoc. cbn. apply IH. Qed.
Theorem read_no_self_deadlock n : lock_run [] (ops_read n) = Ok [].
Proof. unfold ops_read. cbn [app lock_run existsb]. rewrite lock_run_reneg. reflexivity. Qed.

(* any sequence of post-handshake events, with the client's own writes failing or not *)
Lemma lock_run_events evs : forall r, lock_run [L_in] (flat_map ops_post_event evs ++ r) = lock_run [L_in] r.
Proof.
  induction evs as [|e evs IH]; intros r; [reflexivity|]. cbn [flat_map]. rewrite <- app_assoc.
  destruct e as [|wf|]; cbn; apply IH.
Qed.
Theorem read_events_no_self_deadlock evs : lock_run [] (ops_read_events evs) = Ok [].
Proof. unfold ops_read_events. cbn [app lock_run existsb]. rewrite lock_run_events. reflexivity. Qed.

Theorem cert_checks_no_panic fc n : forall p, cert_checks fc n <> Panic p.
Proof. intros p. unfold cert_checks. destruct n as [|n]; cbn; discriminate. Qed.
Theorem cert_checks_empty fc : cert_checks fc 0 = Err a_decode_error.
Proof. reflexivity. Qed.

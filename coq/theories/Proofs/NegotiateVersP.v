(* C13 after fixes/C13-no-supported-versions-extension.diff, on the negotiation model alone (no marshal model):
   a drop-in widening of Negotiate.versions_synced for hellos WITHOUT a supported_versions extension.

   Negotiate.versions_synced demands, without the extension, that the CONFIGURED range stays within
   [spec minimum .. legacy_version] (versions_consistent). A spec with TLSVersMax 1.3 and no SupportedVersionsExtension
   violates that - and before the fix the client did settle on TLS 1.3 for it. With the fix ApplyConfig sets
   Hello.SupportedVersions to the accepted versions up to legacy_version, and the offered-version check of
   UConn.clientHandshake (env_fixed) refuses the rest: [versions_synced_nosv] states that situation, [version_fixed_nosv]
   is C13's conclusion for it. Corr/C13Corr.v can use [versions_ok] in place of versions_synced once the runner has a
   custom client with such a spec (harness/cmd/c13: withVersions(HelloFirefox_105, nil, V12, V13, true)). *)
From UV Require Import Base.Common Model.Negotiate Proofs.NegotiateP.
From Coq Require Import ZifyBool ZifyNat ZifyN.

(* Hello.SupportedVersions = Config.supportedVersions(roleClient) restricted to <= legacy_version, not empty;
   the configured minimum is not below the spec's *)
Definition versions_synced_nosv (v : client_view) (specmin : N) (w : wire_view) : bool :=
  negb (w_has_sv w)
  && list_eqN (cv_sv v) (filter (fun x => x <=? w_legacy w) (client_versions v))
  && negb (match cv_sv v with [] => true | _ => false end)
  && (specmin <=? (if cv_vmin v =? 0 then V12 else cv_vmin v)).

Definition versions_ok (v : client_view) (specmin : N) (w : wire_view) : bool :=
  versions_synced v specmin w || versions_synced_nosv v specmin w.

Lemma version_fixed_nosv v specmin w fl st :
  versions_synced_nosv v specmin w = true -> client_run v fl = Complete st -> In (cs_vers st) (advertised specmin w).
Proof.
  unfold versions_synced_nosv. rewrite !andb_true_iff. intros [[[Hno Heq] Hne] Hmin] Hrun.
  apply negb_true_iff in Hno. apply list_eqN_eq in Heq.
  destruct (completed_version _ _ _ _ Hrun) as [Hin Hoff].
  unfold version_offered in Hoff. cbn [e_fix_version env_fixed] in Hoff.
  destruct (cv_sv v) as [|x0 xs] eqn:Esv; [discriminate|].
  apply memN_In in Hoff. rewrite Heq in Hoff. apply filter_In in Hoff. destruct Hoff as [_ Hle].
  unfold advertised. rewrite Hno. apply filter_In. split; [apply (client_versions_sub v); exact Hin|].
  unfold client_versions in Hin. apply filter_In in Hin. destruct Hin as [_ Hf].
  unfold V12 in *. destruct (cv_vmin v =? 0) eqn:E0; lia.
Qed.

Lemma version_fixed_ok v specmin w fl st :
  versions_ok v specmin w = true -> client_run v fl = Complete st -> In (cs_vers st) (advertised specmin w).
Proof.
  unfold versions_ok. intros H Hrun. apply orb_true_iff in H. destruct H as [H|H].
  - exact (version_fixed v specmin w fl st H Hrun).
  - exact (version_fixed_nosv v specmin w fl st H Hrun).
Qed.

(* the downgrade-sentinel statement only concerns hellos that list TLS 1.3, i.e. carry the extension *)
Lemma canary_fixed_ok v specmin w fl st :
  versions_ok v specmin w = true -> offers13 w = true ->
  (h_tail (first_hello fl) = 1 \/ h_tail (first_hello fl) = 2) ->
  client_run v fl = Complete st -> cs_vers st = V13.
Proof.
  unfold versions_ok. intros H Ho Ht Hrun. apply orb_true_iff in H. destruct H as [H|H].
  - exact (canary_fixed v specmin w fl st H Ho Ht Hrun).
  - unfold versions_synced_nosv in H. rewrite !andb_true_iff in H. destruct H as [[[Hno _] _] _].
    unfold offers13 in Ho. apply andb_true_iff in Ho. destruct Ho as [Ho _]. rewrite Ho in Hno. discriminate.
Qed.

(* the real view/wire pair observed for the spec (HelloFirefox_105 without its SupportedVersionsExtension, TLSVersMin 1.2,
   TLSVersMax 1.3) on the repaired code: versions_synced is false, versions_ok holds, TLS 1.3 is refused *)
Example nosv_max13 :
  let v := mkView [4865; 49195] [29; 23] [29; 23] [] [1; 2; 3] 0 [] false 771 772 false 29 false [771] 0 in
  let w := mkWire 771 [4865; 49195] [0] [29; 23] [29; 23] [] [1; 2; 3] 0 [] false [] in
  versions_synced v 771 w = false /\ versions_ok v 771 w = true
  /\ client_run v (mkFlight None (mkHello 771 772 0 [1; 2; 3] 4865 0 29 0 false None []) [] None None true) = Abort a_protocol_version.
Proof. vm_compute. repeat split; reflexivity. Qed.

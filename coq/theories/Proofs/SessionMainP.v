(* Main theorems of C20 over Model/Session.v, from the per-operation preservation lemmas. *)
From UV Require Import Base.Common Model.Session Proofs.SessionP Proofs.SessionBuildP Proofs.SessionHsP.

Lemma step_ok : forall o w l i s l', world_ok w = true -> w_golang w = false -> invb w l i s = true ->
  legal_step w l o = Some l' -> ok_after w l i s o l'.
Proof.
  intros o; destruct o.
  - apply ok_SetCache.
  - apply ok_BuildNoSess.
  - apply ok_SetTicket.
  - apply ok_SetPsk.
  - apply ok_SetState.
  - apply ok_Build.
  - apply ok_Handshake.
Qed.

Fixpoint inj_fold (i : option inj) (ops : list op) : option inj :=
  match ops with [] => i | o :: r => inj_fold (inj_next i o) r end.

Lemma inj_fold_some x ops : inj_fold (Some x) ops = Some x.
Proof. induction ops as [|o r IH]; simpl; auto. Qed.

Lemma inj_fold_none ops : inj_fold None ops = injected ops.
Proof.
  induction ops as [|o r IH]; simpl; auto.
  destruct (inj_of o) eqn:E; simpl.
  - apply inj_fold_some.
  - exact IH.
Qed.

Definition no_panic (rs : list (res unit)) : Prop := Forall (fun r => is_panic r = false) rs.

Lemma run_inv w : world_ok w = true -> w_golang w = false ->
  forall ops l i s lf, invb w l i s = true -> legal_from w l ops = Some lf ->
  no_panic (run w s ops) /\ invb w lf (inj_fold i ops) (final w s ops) = true.
Proof.
  intros W G ops. induction ops as [|o r IH]; intros l i s lf H L; simpl in *.
  - injection L as <-. split; [constructor | exact H].
  - destruct (legal_step w l o) as [l1|] eqn:E; [|discriminate].
    pose proof (step_ok o w l i s l1 W G H E) as [Hp Hi].
    destruct (step w o s) as [s1 x] eqn:Es; simpl in *.
    destruct (IH l1 (inj_next i o) s1 lf Hi L) as [A B].
    split; [constructor; assumption | exact B].
Qed.

Lemma run_inv_golang w : w_golang w = true ->
  forall ops l s lf, invg w l s = true -> legal_from w l ops = Some lf ->
  no_panic (run w s ops) /\ invg w lf (final w s ops) = true.
Proof.
  intros G ops. induction ops as [|o r IH]; intros l s lf H L; simpl in *.
  - injection L as <-. split; [constructor | exact H].
  - destruct (legal_step w l o) as [l1|] eqn:E; [|discriminate].
    pose proof (step_ok_golang o w l s l1 G H E) as [Hp Hi].
    destruct (step w o s) as [s1 x] eqn:Es; simpl in *.
    destruct (IH l1 s1 lf Hi L) as [A B].
    split; [constructor; assumption | exact B].
Qed.

Lemma init_inv w : w_golang w = false -> invb w (linit w) None (init w) = true.
Proof. destruct w; cbn; intros ->. destruct w_cache0; reflexivity. Qed.
Lemma init_invg w : invg w (linit w) (init w) = true.
Proof. destruct w; cbn. destruct w_cache0; reflexivity. Qed.

Lemma legal_lf w ops : legal w ops = true -> exists lf, legal_from w (linit w) ops = Some lf.
Proof. unfold legal. destruct (legal_from w (linit w) ops) as [lf|]; [eauto | discriminate]. Qed.

(* ---- no assertion panic, any length ---- *)
Theorem no_assert : forall w ops, world_ok w = true -> legal w ops = true -> no_panic (run w (init w) ops).
Proof.
  intros w ops W L. destruct (legal_lf w ops L) as [lf E].
  destruct (w_golang w) eqn:G.
  - exact (proj1 (run_inv_golang w G ops _ _ lf (init_invg w) E)).
  - exact (proj1 (run_inv w W G ops _ _ _ lf (init_inv w G) E)).
Qed.

Lemma final_inv w ops : world_ok w = true -> w_golang w = false -> legal w ops = true ->
  exists lf, legal_from w (linit w) ops = Some lf /\ invb w lf (injected ops) (final w (init w) ops) = true.
Proof.
  intros W G L. destruct (legal_lf w ops L) as [lf E]. exists lf. split; [exact E|].
  rewrite <- inj_fold_none. exact (proj2 (run_inv w W G ops _ _ _ lf (init_inv w G) E)).
Qed.

Ltac split_conj := repeat match goal with H : _ && _ = true |- _ => apply andb_prop in H; destruct H end.

(* ---- key-share private keys survive ---- *)
Theorem keys_survive : forall w ops, world_ok w = true -> w_golang w = false -> legal w ops = true ->
  let s := final w (init w) ops in
  (status s = ByUtls -> applied s = true) /\
  (applied s = true -> w_tls13 w = true -> exists g, keys s = Some g /\ share s = Some g).
Proof.
  intros w ops W G L s. destruct (final_inv w ops W G L) as [lf [_ H]]. fold s in H.
  unfold invb in H. split_conj.
  split.
  - intros St.
    match goal with H : match status s with _ => _ end = true |- _ => rewrite St in H; cbn in H end.
    split_conj. assumption.
  - intros A T.
    match goal with H : context [optN_eqb] |- _ => rewrite A, T in H; cbn in H end.
    split_conj.
    match goal with K : optN_eqb _ _ = true, S : is_some _ = true |- _ => revert K S end.
    destruct (share s) as [g|], (keys s) as [k|]; cbn; intros K S; try discriminate.
    apply N.eqb_eq in K. subst. eauto.
Qed.

(* ---- the injected session is what the hello and HandshakeState carry ---- *)
Theorem wire_ticket : forall w ops tk se, world_ok w = true -> w_golang w = false -> legal w ops = true ->
  injected ops = Some (InjTicket tk se) ->
  let s := final w (init w) ops in
  status s = ByUtls ->
  hs_sess s = se /\ hs_ticket s = tk /\ exists p, raw s = Some ([tk], p).
Proof.
  intros w ops tk se W G L J s St. destruct (final_inv w ops W G L) as [lf [_ H]]. fold s in H.
  rewrite J in H. unfold invb in H. rewrite St in H. cbn in H. split_conj.
  match goal with A : (hs_sess s =? se) = true |- _ => apply N.eqb_eq in A; rewrite A end.
  match goal with A : bytes_eqb (hs_ticket s) tk = true |- _ => apply bytes_eqb_eq in A; rewrite A end.
  match goal with A : match raw s with _ => _ end = true |- _ => revert A end.
  destruct (raw s) as [[[|t [|? ?]] p]|]; intros A; try discriminate.
  apply bytes_eqb_eq in A. subst. eauto.
Qed.

Theorem wire_psk : forall w ops lb se, world_ok w = true -> w_golang w = false -> legal w ops = true ->
  injected ops = Some (InjPsk lb se) ->
  let s := final w (init w) ops in
  status s = ByUtls ->
  hs_sess s = se /\ exists t, raw s = Some (t, Some lb).
Proof.
  intros w ops lb se W G L J s St. destruct (final_inv w ops W G L) as [lf [_ H]]. fold s in H.
  rewrite J in H. unfold invb in H. rewrite St in H. cbn in H. split_conj.
  match goal with A : (hs_sess s =? se) = true |- _ => apply N.eqb_eq in A; rewrite A end.
  match goal with A : match raw s with _ => _ end = true |- _ => revert A end.
  destruct (raw s) as [[t [d|]]|]; intros A; try discriminate.
  apply bytes_eqb_eq in A. subst. eauto.
Qed.

(* ---- a forbidden call after a legal history is rejected ---- *)
Theorem forbidden_rejected_after : forall w ops lf o, world_ok w = true -> w_golang w = false ->
  legal_from w (linit w) ops = Some lf -> forbidden w lf o = true ->
  rejected (snd (step w o (final w (init w) ops))) = true.
Proof.
  intros w ops lf o W G E F.
  pose proof (proj2 (run_inv w W G ops _ _ _ lf (init_inv w G) E)) as H.
  exact (forbidden_rejected o w lf _ _ W G H F).
Qed.

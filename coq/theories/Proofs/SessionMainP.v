(* Main statements of C20 over Model/Session.v.
   HelloGolang: unbounded, from the invariant [invg] (SessionP.v).
   Mimicking ClientHelloIDs: bounded, from the exhaustive sweep (SessionBoundedP.v). *)
From UV Require Import Base.Common Model.Session Proofs.SessionP Proofs.SessionBoundedP.

Definition no_panic (rs : list (res unit)) : Prop := Forall (fun r => is_panic r = false) rs.

Lemma run_inv_golang w : w_golang w = true ->
  forall ops l s lf, invg w l s = true -> legal_from w l ops = Some lf ->
  no_panic (run w s ops) /\ invg w lf (final w s ops) = true.
Proof.
  intros G ops. induction ops as [|o r IH]; intros l s lf H L; simpl in *.
  - injection L as <-. split; [constructor | exact H].
  - destruct (legal_step w l o) as [l1|] eqn:E; [|discriminate].
    pose proof (step_ok_golang o w l s l1 G H E) as [Hp Hi].
    destruct (step w o s) as [s1 x] eqn:Es; simpl in *.
    destruct (IH l1 s1 lf Hi L) as [A B].
    split; [constructor; assumption | exact B].
Qed.

Lemma init_invg w : invg w (linit w) (init w) = true.
Proof. destruct w; cbn. destruct w_cache0; reflexivity. Qed.

Lemma legal_lf w ops : legal w ops = true -> exists lf, legal_from w (linit w) ops = Some lf.
Proof. unfold legal. destruct (legal_from w (linit w) ops) as [lf|]; [eauto | discriminate]. Qed.

(* HelloGolang: no assertion panic for legal histories of any length, any configuration, any argument bytes *)
Theorem no_assert_golang : forall w ops, w_golang w = true -> legal w ops = true -> no_panic (run w (init w) ops).
Proof.
  intros w ops G L. destruct (legal_lf w ops L) as [lf E].
  exact (proj1 (run_inv_golang w G ops _ _ lf (init_invg w) E)).
Qed.

(* ... and its key share always has its private key once the hello exists *)
Theorem keys_golang : forall w ops, w_golang w = true -> legal w ops = true ->
  let s := final w (init w) ops in
  status s = ByGo -> exists g, keys s = Some g /\ share s = Some g.
Proof.
  intros w ops G L s St. destruct (legal_lf w ops L) as [lf E].
  pose proof (proj2 (run_inv_golang w G ops _ _ lf (init_invg w) E)) as H. fold s in H.
  unfold invg in H.
  repeat match goal with H : _ && _ = true |- _ => apply andb_prop in H; destruct H end.
  match goal with H : match status s with _ => _ end = true |- _ => rewrite St in H; cbn in H end.
  repeat match goal with H : _ && _ = true |- _ => apply andb_prop in H; destruct H end.
  match goal with K : optN_eqb _ _ = true, S : is_some _ = true |- _ => revert K S end.
  destruct (share s) as [g|], (keys s) as [k|]; cbn; intros K S; try discriminate.
  apply N.eqb_eq in K. subst. eauto.
Qed.

(* ---- bounded statements for every world of predefined-parrot shape ---- *)
Section Bounded.
  Variable w : world.
  Variable ops : list op.
  Hypothesis Hw : In w worlds.
  Hypothesis Ho : In ops (lists_upto 4).

  Lemma b_parts : forall lf, legal_from w (linit w) ops = Some lf ->
    forallb (fun r => negb (is_panic r)) (run w (init w) ops) = true /\
    (w_golang w || keys_ok w (final w (init w) ops)) = true /\
    (w_golang w || wire_ok ops (final w (init w) ops)) = true /\
    (w_golang w || forallb (fun o => negb (forbidden w lf o) || rejected (snd (step w o (final w (init w) ops)))) alphabet) = true.
  Proof.
    intros lf E. pose proof (check_hist_all w ops Hw Ho) as C. unfold check_hist in C. rewrite E in C.
    repeat (apply andb_prop in C; destruct C as [C ?]). auto.
  Qed.

  Theorem no_assert_b : legal w ops = true -> no_panic (run w (init w) ops).
  Proof.
    intros L. destruct (legal_lf w ops L) as [lf E]. destruct (b_parts lf E) as [A _].
    unfold no_panic. rewrite Forall_forall. rewrite forallb_forall in A.
    intros r Hr. specialize (A r Hr). destruct (is_panic r); [discriminate | reflexivity].
  Qed.

  Theorem keys_b : legal w ops = true -> w_golang w = false ->
    let s := final w (init w) ops in
    applied s = true -> w_tls13 w = true -> exists g, keys s = Some g /\ share s = Some g.
  Proof.
    intros L G s A T. destruct (legal_lf w ops L) as [lf E]. destruct (b_parts lf E) as [_ [K _]].
    rewrite G in K. cbn in K. fold s in K. unfold keys_ok in K. rewrite A, T in K. cbn in K.
    apply andb_prop in K. destruct K as [S K]. revert S K.
    destruct (share s) as [g|], (keys s) as [k|]; cbn; intros S K; try discriminate.
    apply N.eqb_eq in K. subst. eauto.
  Qed.

  Theorem wire_ticket_b : forall tk se, legal w ops = true -> w_golang w = false ->
    injected ops = Some (InjTicket tk se) ->
    let s := final w (init w) ops in
    status s = ByUtls -> hs_sess s = se /\ hs_ticket s = tk /\ exists p, raw s = Some ([tk], p).
  Proof.
    intros tk se L G J s St. destruct (legal_lf w ops L) as [lf E]. destruct (b_parts lf E) as [_ [_ [Wi _]]].
    rewrite G in Wi. cbn in Wi. fold s in Wi. unfold wire_ok in Wi. rewrite St, J in Wi. cbn in Wi.
    apply andb_prop in Wi. destruct Wi as [Wi R]. apply andb_prop in Wi. destruct Wi as [A B].
    apply N.eqb_eq in A. apply bytes_eqb_eq in B. revert R.
    destruct (raw s) as [[[|t [|? ?]] p]|]; intros R; try discriminate.
    apply bytes_eqb_eq in R. subst. eauto.
  Qed.

  Theorem wire_psk_b : forall lb se, legal w ops = true -> w_golang w = false ->
    injected ops = Some (InjPsk lb se) ->
    let s := final w (init w) ops in
    status s = ByUtls -> hs_sess s = se /\ exists t, raw s = Some (t, Some lb).
  Proof.
    intros lb se L G J s St. destruct (legal_lf w ops L) as [lf E]. destruct (b_parts lf E) as [_ [_ [Wi _]]].
    rewrite G in Wi. cbn in Wi. fold s in Wi. unfold wire_ok in Wi. rewrite St, J in Wi. cbn in Wi.
    apply andb_prop in Wi. destruct Wi as [A R]. apply N.eqb_eq in A. revert R.
    destruct (raw s) as [[t [d|]]|]; intros R; try discriminate.
    apply bytes_eqb_eq in R. subst. eauto.
  Qed.

  Theorem forbidden_b : forall lf o, w_golang w = false -> legal_from w (linit w) ops = Some lf ->
    In o alphabet -> forbidden w lf o = true -> rejected (snd (step w o (final w (init w) ops))) = true.
  Proof.
    intros lf o G E Io F. destruct (b_parts lf E) as [_ [_ [_ R]]].
    rewrite G in R. rewrite Bool.orb_false_l in R. rewrite forallb_forall in R. specialize (R o Io). rewrite F in R. exact R.
  Qed.
End Bounded.

(* The any-length theorems of C20: induction over the history on top of the finite invariant of Proofs/SessionP.v. *)
From UV Require Import Base.Common Model.Session Proofs.SessionP.

Definition ctl (s : st) : cstate * gstate := (st_c s, st_g s).
Definition no_panic (rs : list (res unit)) : Prop := Forall (fun r => is_panic r = false) rs.
Definition ik (i : inj) : injk := match i with InjTicket _ _ => ITicket | InjPsk _ _ => IPsk end.

Lemma step_ctl w o s :
  ctl (fst (step w o s)) = fst (cstep (cworld_of w) (kind o) (st_c s) (st_g s)) /\
  snd (step w o s) = snd (cstep (cworld_of w) (kind o) (st_c s) (st_g s)).
Proof.
  unfold step, cstep.
  destruct (run_split w o (stepk (cworld_of w) (kind o)) (st_c s) (st_g s) (st_d s)) as [A B].
  split; [|exact B]. rewrite <- A. unfold ctl, st_c, st_g.
  destruct (runF w o (stepk (cworld_of w) (kind o)) (fst (fst s)) (snd (fst s)) (st_d s)) as [[[c g] d] r]; reflexivity.
Qed.

Lemma Dinv_step i w o s : (injecting (kind o) = true -> arg_datum o = inj_d i) ->
  Dinv i (st_g s) (st_d s) -> Dinv i (st_g (fst (step w o s))) (st_d (fst (step w o s))).
Proof. intros HA D. unfold step. apply Dinv_run; assumption. Qed.

Opaque step cstep stepk.

(* ---- the injected value and the legality bookkeeping ---- *)
Lemma inj_of_some o i : inj_of o = Some i ->
  arg_datum o = inj_d i /\ injecting (kind o) = true /\ inj_kind (kind o) = ik i.
Proof.
  destruct o as [| |[[[[] d] se]|]|[[[[] d] se]|]|[[d se]|]| | |[d se]|[d se]|]; cbn; intros E; try discriminate E;
    injection E as <-; auto.
Qed.
Lemma inj_of_none o : inj_of o = None -> injecting (kind o) = false /\ inj_kind (kind o) = INone.
Proof.
  destruct o as [| |[[[[] d] se]|]|[[[[] d] se]|]|[[d se]|]| | |[d se]|[d se]|]; cbn; intros E; try discriminate E; auto.
Qed.

Lemma legal_stepk_facts cw l k l1 : legal_stepk cw l k = Some l1 ->
  l_inj l1 = (match l_inj l with INone => inj_kind k | x => x end) /\
  (injecting k = true -> l_set l = false /\ l_set l1 = true) /\
  (l_set l = true -> l_set l1 = true).
Proof.
  destruct l as [a b c d e]. destruct cw. destruct k as [| |[]|[]| | | | | |];
    destruct a, b, c, d, cw_disabled; cbn;
    intros E; try discriminate E; injection E as <-; cbn; repeat split; intros; try discriminate; auto;
    destruct e; auto.
Qed.

Lemma linj_keep w ops : forall l lf, legal_from w l ops = Some lf -> l_inj l <> INone -> l_inj lf = l_inj l.
Proof.
  induction ops as [|o r IH]; intros l lf L N; cbn [legal_from] in L.
  - injection L as <-. reflexivity.
  - destruct (legal_step w l o) as [l1|] eqn:E; [|discriminate].
    destruct (legal_stepk_facts _ _ _ _ E) as [A _].
    assert (l_inj l1 = l_inj l) as Q by (rewrite A; destruct (l_inj l); congruence).
    rewrite <- Q. apply IH; [exact L | congruence].
Qed.

Lemma linj_first w ops : forall l lf, legal_from w l ops = Some lf -> l_inj l = INone ->
  l_inj lf = match injected ops with Some i => ik i | None => INone end.
Proof.
  induction ops as [|o r IH]; intros l lf L N; cbn [legal_from injected] in L |- *.
  - injection L as <-. exact N.
  - destruct (legal_step w l o) as [l1|] eqn:E; [|discriminate].
    destruct (legal_stepk_facts _ _ _ _ E) as [A _]. rewrite N in A.
    destruct (inj_of o) as [i|] eqn:J.
    + destruct (inj_of_some o i J) as [_ [_ K]]. rewrite K in A.
      rewrite (linj_keep w r l1 lf L) by (rewrite A; destruct i; discriminate). exact A.
    + destruct (inj_of_none o J) as [_ K]. rewrite K in A. exact (IH l1 lf L A).
Qed.

(* ---- induction over the history ---- *)
Lemma run_all w : world_ok w = true -> forall i ops l s lf,
  inR (cworld_of w) (l, ctl s) -> Dinv i (st_g s) (st_d s) ->
  (l_set l = false -> forall i', injected ops = Some i' -> i' = i) ->
  legal_from w l ops = Some lf ->
  no_panic (run w s ops) /\ inR (cworld_of w) (lf, ctl (final w s ops)) /\
  Dinv i (st_g (final w s ops)) (st_d (final w s ops)).
Proof.
  intros W i ops. induction ops as [|o r IH]; intros l s lf I D J L; cbn [legal_from run final] in L |- *.
  - injection L as <-. split; [constructor | split; [exact I | exact D]].
  - destruct (legal_step w l o) as [l1|] eqn:E; [|discriminate].
    destruct (legal_stepk_facts _ _ _ _ E) as [_ [F1 F2]].
    destruct (inR_step (cworld_of w) l (st_c s) (st_g s) (kind o) l1 W I E) as [P R].
    destruct (step_ctl w o s) as [C S].
    assert (HA : injecting (kind o) = true -> arg_datum o = inj_d i).
    { intros Q. destruct (inj_of o) as [i'|] eqn:K.
      - destruct (inj_of_some o i' K) as [A _]. rewrite A. f_equal.
        apply J; [exact (proj1 (F1 Q)) | cbn [injected]; rewrite K; reflexivity].
      - destruct (inj_of_none o K) as [B _]. congruence. }
    assert (D1 : Dinv i (st_g (fst (step w o s))) (st_d (fst (step w o s)))).
    { apply Dinv_step; assumption. }
    assert (J1 : l_set l1 = false -> forall i', injected r = Some i' -> i' = i).
    { intros Q i' K. destruct (inj_of o) as [i0|] eqn:K0.
      - destruct (inj_of_some o i0 K0) as [_ [B _]]. destruct (F1 B) as [_ T]. congruence.
      - apply J; [destruct (l_set l) eqn:T; [rewrite (F2 eq_refl) in Q; discriminate | reflexivity]
                 | cbn [injected]; rewrite K0; exact K]. }
    destruct (step w o s) as [s1 x] eqn:Es. cbn [fst snd] in C, S, D1 |- *.
    rewrite <- C in R.
    destruct (IH l1 s1 lf R D1 J1 L) as [A [B1 B2]].
    split; [constructor; [rewrite S; exact P | exact A] | split; [exact B1 | exact B2]].
Qed.

Lemma Dinv_init i : Dinv i ginit dinit.
Proof. unfold Dinv, ginit; cbn. repeat split; intros E; discriminate E. Qed.

Lemma legal_lf w ops : legal w ops = true -> exists lf, legal_from w (linit (w_cache0 w)) ops = Some lf.
Proof. unfold legal. destruct (legal_from w (linit (w_cache0 w)) ops) as [lf|]; [eauto | discriminate]. Qed.

Lemma from_init w ops lf i : world_ok w = true -> legal_from w (linit (w_cache0 w)) ops = Some lf ->
  (forall i', injected ops = Some i' -> i' = i) ->
  no_panic (run w (init w) ops) /\ inR (cworld_of w) (lf, ctl (final w (init w) ops)) /\
  Dinv i (st_g (final w (init w) ops)) (st_d (final w (init w) ops)).
Proof.
  intros W L J. apply (run_all w W i ops (linit (w_cache0 w)) (init w) lf); auto.
  - exact (inR_init (cworld_of w) W).
  - apply Dinv_init.
Qed.

(* ---- the theorems ---- *)
Theorem no_assert : forall w ops, world_ok w = true -> legal w ops = true -> no_panic (run w (init w) ops).
Proof.
  intros w ops W L. destruct (legal_lf w ops L) as [lf E].
  destruct (injected ops) as [i|] eqn:J.
  - apply (from_init w ops lf i W E). intros i' Q. rewrite J in Q. congruence.
  - apply (from_init w ops lf (InjTicket [] 0) W E). intros i' Q. rewrite J in Q. discriminate.
Qed.

Lemma final_node w ops lf : world_ok w = true -> legal_from w (linit (w_cache0 w)) ops = Some lf ->
  node_ok (cworld_of w) (reach (cworld_of w)) (lf, ctl (final w (init w) ops)) = true.
Proof.
  intros W E. apply (inR_node_ok _ _ W).
  destruct (injected ops) as [i|] eqn:J.
  - apply (from_init w ops lf i W E). intros i' Q. rewrite J in Q. congruence.
  - apply (from_init w ops lf (InjTicket [] 0) W E). intros i' Q. rewrite J in Q. discriminate.
Qed.

Ltac split_conj := repeat match goal with H : _ && _ = true |- _ => apply andb_prop in H; destruct H end.

Theorem keys_survive : forall w ops, world_ok w = true -> w_golang w = false -> legal w ops = true ->
  let c := st_c (final w (init w) ops) in
  (status c = ByUtls -> applied c = true) /\
  (applied c = true -> w_tls13 w = true -> share_some c = true /\ keys_some c = true /\ keys_match c = true).
Proof.
  intros w ops W G L. cbv zeta. set (c := st_c (final w (init w) ops)). destruct (legal_lf w ops L) as [lf E].
  pose proof (final_node w ops lf W E) as N. unfold node_ok in N. cbv beta iota delta [fst snd ctl] in N.
  fold c in N. split_conj.
  match goal with K : keys_p _ _ = true |- _ =>
    unfold keys_p in K; change (cw_golang (cworld_of w)) with (w_golang w) in K;
    change (cw_tls13 (cworld_of w)) with (w_tls13 w) in K; rewrite G in K end.
  split_conj. split.
  - intros St. match goal with K : implb (bstatus_eqb (status c) ByUtls) _ = true |- _ => rewrite St in K; exact K end.
  - intros A T. match goal with K : implb (applied c && _) _ = true |- _ => rewrite A, T in K; cbn [andb implb] in K end.
    split_conj. auto.
Qed.

Theorem keys_golang : forall w ops, world_ok w = true -> w_golang w = true -> legal w ops = true ->
  let c := st_c (final w (init w) ops) in
  status c = ByGo -> share_some c = true /\ keys_some c = true /\ keys_match c = true.
Proof.
  intros w ops W G L. cbv zeta. set (c := st_c (final w (init w) ops)). intros St. destruct (legal_lf w ops L) as [lf E].
  pose proof (final_node w ops lf W E) as N. unfold node_ok in N. cbv beta iota delta [fst snd ctl] in N.
  fold c in N. split_conj.
  match goal with K : keys_p _ _ = true |- _ =>
    unfold keys_p in K; change (cw_golang (cworld_of w)) with (w_golang w) in K; rewrite G, St in K;
    cbn [bstatus_eqb implb] in K end.
  split_conj. auto.
Qed.

(* no Handshake of a legal history fails because a key-share key is missing or a PSK binder is stale *)
Theorem handshake_never_fails : forall w ops, world_ok w = true -> legal w ops = true ->
  herr (st_c (final w (init w) ops)) = false.
Proof.
  intros w ops W L. destruct (legal_lf w ops L) as [lf E].
  pose proof (final_node w ops lf W E) as N. unfold node_ok in N. cbv beta iota delta [fst snd ctl] in N.
  split_conj. match goal with K : negb (herr _) = true |- _ => destruct (herr _); [discriminate K | reflexivity] end.
Qed.

(* every successful build (explicit or inside Handshake) with a PSK in place leaves binders computed over the hello
   just marshaled, whatever edits and earlier builds preceded it *)
Theorem binders_fresh : forall w ops lf o l2, world_ok w = true ->
  legal_from w (linit (w_cache0 w)) ops = Some lf -> legal_step w lf o = Some l2 ->
  kind o = KBuild \/ kind o = KHandshake ->
  let r := step w o (final w (init w) ops) in
  snd r = Ok tt -> cs (st_c (fst r)) = PskAllSet -> binder_fresh (st_c (fst r)) = true.
Proof.
  intros w ops lf o l2 W E L K r R C.
  assert (I : inR (cworld_of w) (lf, ctl (final w (init w) ops))).
  { destruct (injected ops) as [i|] eqn:J.
    - apply (from_init w ops lf i W E). intros i' Q. rewrite J in Q. congruence.
    - apply (from_init w ops lf (InjTicket [] 0) W E). intros i' Q. rewrite J in Q. discriminate. }
  pose proof (inR_binder (cworld_of w) lf _ _ (kind o) l2 W I L) as B.
  destruct (step_ctl w o (final w (init w) ops)) as [A S]. fold r in A, S.
  rewrite <- A, <- S, R in B. unfold binder_p, ctl in B. cbn [fst] in B. rewrite C in B.
  destruct K as [K|K]; rewrite K in B; cbn [cst_eqb negb orb] in B; exact B.
Qed.

Lemma is_inj_eq x : is_inj x = true -> x = GInj.
Proof. destruct x; [reflexivity | discriminate]. Qed.

Lemma final_wire w ops lf i : world_ok w = true -> w_golang w = false ->
  legal_from w (linit (w_cache0 w)) ops = Some lf -> injected ops = Some i ->
  status (st_c (final w (init w) ops)) = ByUtls ->
  wire_p (cworld_of w) lf (st_c (final w (init w) ops)) (st_g (final w (init w) ops)) = true /\
  l_inj lf = ik i /\ Dinv i (st_g (final w (init w) ops)) (st_d (final w (init w) ops)).
Proof.
  intros W G E J St.
  pose proof (final_node w ops lf W E) as N. unfold node_ok in N. cbv beta iota delta [fst snd ctl] in N.
  split_conj. split; [assumption|]. split.
  - rewrite (linj_first w ops _ lf E eq_refl), J. reflexivity.
  - apply (from_init w ops lf i W E). intros i' Q. rewrite J in Q. congruence.
Qed.

Theorem wire_ticket : forall w ops tk se, world_ok w = true -> w_golang w = false -> legal w ops = true ->
  injected ops = Some (InjTicket tk se) ->
  let s := final w (init w) ops in
  status (st_c s) = ByUtls ->
  hs_sess (st_d s) = se /\ hs_ticket (st_d s) = tk /\ exists p, raw (st_d s) = Some ([tk], p).
Proof.
  intros w ops tk se W G L J s St. destruct (legal_lf w ops L) as [lf E].
  destruct (final_wire w ops lf _ W G E J St) as [Wp [Li D]]. fold s in Wp, D.
  unfold wire_p in Wp. change (cw_golang (cworld_of w)) with (w_golang w) in Wp. rewrite G, St, Li in Wp.
  cbn [orb negb bstatus_eqb ik] in Wp. split_conj.
  destruct D as (_ & _ & _ & _ & D5 & D6 & _ & D8 & _).
  repeat match goal with H : is_inj _ = true |- _ => apply is_inj_eq in H end.
  repeat split; [exact (D5 ltac:(assumption)) | exact (D6 ltac:(assumption)) | exact (D8 ltac:(assumption))].
Qed.

Theorem wire_psk : forall w ops lb se, world_ok w = true -> w_golang w = false -> legal w ops = true ->
  injected ops = Some (InjPsk lb se) ->
  let s := final w (init w) ops in
  status (st_c s) = ByUtls ->
  hs_sess (st_d s) = se /\ exists t, raw (st_d s) = Some (t, Some lb).
Proof.
  intros w ops lb se W G L J s St. destruct (legal_lf w ops L) as [lf E].
  destruct (final_wire w ops lf _ W G E J St) as [Wp [Li D]]. fold s in Wp, D.
  unfold wire_p in Wp. change (cw_golang (cworld_of w)) with (w_golang w) in Wp. rewrite G, St, Li in Wp.
  cbn [orb negb bstatus_eqb ik] in Wp. split_conj.
  destruct D as (_ & _ & _ & _ & D5 & _ & _ & _ & D9).
  repeat match goal with H : is_inj _ = true |- _ => apply is_inj_eq in H end.
  split; [exact (D5 ltac:(assumption)) | exact (D9 ltac:(assumption))].
Qed.

(* what goes on the wire at Handshake is the marshaled hello (model-level: DWireRaw copies [raw]) *)

Theorem forbidden_rejected : forall w ops lf o, world_ok w = true -> w_golang w = false ->
  legal_from w (linit (w_cache0 w)) ops = Some lf -> forbidden w lf o = true ->
  rejected (snd (step w o (final w (init w) ops))) = true.
Proof.
  intros w ops lf o W G E F.
  pose proof (final_node w ops lf W E) as N. unfold node_ok in N. cbv beta iota delta [fst snd ctl] in N.
  split_conj.
  match goal with K : forallb _ kinds = true |- _ => rewrite forallb_forall in K; pose proof (K (kind o) (kinds_complete _)) as Q end.
  unfold kind_ok in Q. apply andb_prop in Q. destruct Q as [_ Q].
  unfold forbidden in F. change (cw_golang (cworld_of w)) with (w_golang w) in Q. rewrite G, F in Q. cbn [orb negb] in Q.
  destruct (step_ctl w o (final w (init w) ops)) as [_ S]. rewrite S. exact Q.
Qed.

(* GetOutKeystream returns the keystream of the next record (ks_next) and leaves the connection as it
   was (ks_pure). *)
From UV Require Import Base.Common Model.Record Model.Keystream Proofs.RecordP Proofs.RecordRT Proofs.RecordStream.
From Coq Require Import ZifyBool ZifyNat ZifyN.
Open Scope N_scope.

Lemma bxor_zeros_l k n : (n <= length k)%nat -> bxor (zeros n) k = firstn n k.
Proof.
  revert k. induction n as [|n IH]; intros k Hk; [reflexivity|].
  destruct k as [|x k]; [cbn in Hk; lia|]. cbn [zeros repeat bxor firstn]. f_equal.
  apply IH. cbn in Hk. lia.
Qed.

Lemma firstn_bxor n a k : firstn n (bxor a k) = bxor (firstn n a) (firstn n k).
Proof.
  revert a k. induction n as [|n IH]; intros a k; [reflexivity|].
  destruct a as [|x a]; [reflexivity|]. destruct k as [|y k]; [reflexivity|].
  cbn [bxor firstn]. f_equal. apply IH.
Qed.

Lemma firstn_app_le {A} (a b : list A) n : (n <= length a)%nat -> firstn n (a ++ b) = firstn n a.
Proof. intros H. rewrite firstn_app. replace (n - length a)%nat with 0%nat by lia. cbn. apply app_nil_r. Qed.

Lemma skipn_two_app {A} (H E S R : list A) : skipn (length H + length E) ((H ++ E ++ S) ++ R) = S ++ R.
Proof.
  rewrite <- !app_assoc. rewrite (app_assoc H E). apply skipn_app_exact. rewrite app_length. reflexivity.
Qed.

(* the out half holds an AEAD whose nonce buffer has the length the constructors insist on *)
Definition aead_out (c : conn) (ci : cipher) : Prop :=
  h_cipher (cn_out c) = Some ci /\
  ((c_kind ci = KAeadPrefix) \/ (c_kind ci = KAeadXor /\ length (c_iv ci) = 12%nat)).

(* number of payload bytes in the next application data record when [b] is written *)
Definition next_record_payload (c : conn) (b : bytes) : N :=
  let mp := fst (max_payload_size_for_write c rtAppData) in
  if mp <? len b then mp else len b.

Section KS.
Variable P : prims.
Hypothesis HP : prims_ok P.

Lemma conn_eta c ci : h_cipher (cn_out c) = Some ci ->
  with_out c (set_cipher (cn_out c) (Some ci)) (cn_bytesSent c) (cn_packetsSent c) = c.
Proof.
  destruct c as [v u s i o inp hand r bs ps d]. destruct o as [ov oc om os onc onm osec].
  cbn. intros ->. reflexivity.
Qed.

(* what the call computes: Seal of zeros under the nonce of out.seq, and the connection itself *)
Lemma gks_eq c ci n :
  aead_out c ci ->
  get_out_keystream P c n
  = Ok (aead_seal P (c_alg ci) (c_key ci) (aead_nonce ci (seq8 (h_seq (cn_out c)))) [] (zeros n), c).
Proof.
  intros [Hc Hk]. unfold get_out_keystream. rewrite Hc.
  destruct Hk as [Hk | [Hk Hl]]; rewrite Hk; unfold wrapper_seal, aead_nonce; rewrite Hk; cbv zeta.
  - rewrite (conn_eta c ci Hc). reflexivity.
  - assert (Hm : firstn 4 (firstn 4 (c_iv ci) ++ bxor (skipn 4 (c_iv ci)) (seq8 (h_seq (cn_out c))))
                 ++ bxor (skipn 4 (firstn 4 (c_iv ci) ++ bxor (skipn 4 (c_iv ci)) (seq8 (h_seq (cn_out c)))))
                         (seq8 (h_seq (cn_out c))) = c_iv ci).
    { assert (L4 : length (firstn 4 (c_iv ci)) = 4%nat) by (rewrite firstn_length; lia).
      rewrite firstn_app_exact by (symmetry; exact L4). rewrite skipn_app_exact by (symmetry; exact L4).
      rewrite bxor_invol by (rewrite skipn_length, seq8_length; lia). apply firstn_skipn. }
    rewrite Hm. rewrite <- Hk.
    replace (mkCipher (c_kind ci) (c_alg ci) (c_key ci) (c_iv ci) (c_read ci) (c_pos ci) (c_bs ci)) with ci
      by (destruct ci; reflexivity).
    rewrite (conn_eta c ci Hc). reflexivity.
Qed.

(* ks_pure: the call returns the connection it was given, bit for bit (the XOR-nonce wrapper restores
   its nonce mask) *)
Theorem ks_pure c ci n out c' :
  aead_out c ci -> get_out_keystream P c n = Ok (out, c') -> c' = c.
Proof.
  intros Ha H. rewrite (gks_eq c ci n Ha) in H. injection H as _ Hc'. symmetry. exact Hc'.
Qed.

(* the first n bytes returned are the AEAD keystream for the nonce of sequence number out.seq *)
Lemma ks_value c ci n :
  aead_out c ci ->
  exists out, get_out_keystream P c n = Ok (out, c) /\
              firstn n out = aead_ks P (c_alg ci) (c_key ci) (aead_nonce ci (seq8 (h_seq (cn_out c)))) n.
Proof.
  intros Ha. eexists. split; [apply (gks_eq c ci n Ha)|].
  rewrite (aead_stream P HP). unfold zeros at 2. rewrite repeat_length.
  rewrite firstn_app_exact by (rewrite bxor_length, (aead_ks_len P HP); unfold zeros; rewrite repeat_length; lia).
  rewrite bxor_zeros_l by (rewrite (aead_ks_len P HP); lia).
  apply firstn_all2. rewrite (aead_ks_len P HP). lia.
Qed.

(* ks_next: in any state of the write side that a reader can follow (hence after any history of writes,
   see conn_write_ok), XOR of the returned bytes with the next plaintext equals the ciphertext that
   follows the header and explicit nonce of the next application data record. *)
Theorem ks_next c rx ci b rnd n :
  wconn_ok c -> synced (cn_out c) rx -> aead_out c ci -> rnd_ok rnd ->
  h_seq (cn_out c) + len b < 18446744073709551616 ->
  (n <= N.to_nat (next_record_payload c b))%nat ->
  exists ks wire c2,
    get_out_keystream P c n = Ok (ks, c) /\
    conn_write P c b rnd = Ok (wire, len b, c2) /\
    firstn n (skipn (recordHeaderLen + explicit_nonce_len (cn_out c)) wire) = bxor (firstn n b) (firstn n ks).
Proof.
  intros Hw Hs Ha Hrnd Hseq Hn.
  destruct (ks_value c ci n Ha) as (ks & Hg & Hks).
  destruct (conn_write_ok P HP c b rnd rx Hw Hs Hrnd Hseq) as (recs & c2 & rx_end & Hcw & _).
  exists ks, (concat (map snd recs)), c2. split; [exact Hg|]. split; [exact Hcw|].
  destruct b as [|d0 b'].
  { (* nothing written: n = 0 *)
    assert (n = 0)%nat as ->.
    { unfold next_record_payload in Hn. change (len []) with 0 in Hn.
      destruct (fst (max_payload_size_for_write c rtAppData) <? 0) eqn:E; lia. }
    reflexivity. }
  set (b := d0 :: b') in *.
  (* unfold the first iteration of the write loop *)
  pose proof Ha as [Hc Hk].
  assert (Hnb : is_block_mode (cn_out c) = false).
  { unfold is_block_mode. rewrite Hc. destruct Hk as [-> | [-> _]]; reflexivity. }
  unfold conn_write in Hcw. rewrite Hnb, !andb_false_r in Hcw.
  unfold write_record_locked in Hcw.
  destruct (write_loop P (length b) c rtAppData b rnd [] 0) as [[[w nn] cc]| |] eqn:Ewl; cbn [bind] in Hcw; try discriminate.
  change (rtAppData =? rtCCS) with false in Hcw. cbn [andb] in Hcw. inversion Hcw; subst w nn cc. clear Hcw.
  change (length b) with (S (length b')) in Ewl. cbn [write_loop] in Ewl. fold b in Ewl.
  pose proof (max_payload_bounds c rtAppData rx Hw Hs) as Hmp.
  unfold next_record_payload in Hn.
  destruct (max_payload_size_for_write c rtAppData) as [maxPayload ps] eqn:Emp. cbn [fst] in Hmp, Hn.
  set (m := if maxPayload <? len b then maxPayload else len b) in *.
  assert (Hm : 1 <= m <= maxPlaintext /\ m <= len b).
  { assert (Ld : len b = N.of_nat (S (length b'))) by reflexivity.
    unfold m. destruct (maxPayload <? len b) eqn:E; rewrite Ld in *; unfold maxPlaintext in *; lia. }
  set (payload := firstn (N.to_nat m) b) in *.
  assert (Lp : len payload = m).
  { unfold payload, len. rewrite firstn_length_le; unfold len in Hm; lia. }
  destruct Hw as [Hv Hvo].
  change ([rtAppData; wire_vers (cn_vers c) / 256 mod 256; wire_vers (cn_vers c) mod 256] ++ be16 m)
    with (hdr5 rtAppData (vb1 (cn_vers c)) (vb2 (cn_vers c)) m) in Ewl.
  rewrite <- Lp in Ewl.
  assert (H23 : rtAppData <> 0) by discriminate.
  destruct (encrypt_aead_form P HP (cn_out c) rx rtAppData (vb1 (cn_vers c)) (vb2 (cn_vers c)) payload
              (rnd (h_seq (cn_out c))) ci Hs Hc ltac:(destruct Hk as [Hk|[Hk _]]; auto) H23 ltac:(lia)
              ltac:(unfold len in *; cbn [length] in *; lia))
    as (tx' & ad & L & He).
  rewrite He in Ewl. cbn [bind] in Ewl. cbv beta iota in Ewl. unfold b at 1 in Ewl. cbv iota in Ewl.
  (* whatever the rest of the loop does, it only appends to the wire *)
  match type of Ewl with write_loop P ?f ?c1 ?t ?d ?r ?w0 ?n0 = _ =>
    assert (Hpre : exists rest, concat (map snd recs) = w0 ++ rest) end.
  { destruct (encrypt_decrypt P HP (cn_out c) rx rtAppData (vb1 (cn_vers c)) (vb2 (cn_vers c)) payload
                (rnd (h_seq (cn_out c))) Hs H23 ltac:(lia) ltac:(unfold len in *; cbn [length] in *; lia)
                ltac:(pose proof (explicit_le_16 _ _ Hs); specialize (Hrnd (h_seq (cn_out c))); lia))
      as (body & tx2 & rx' & He2 & _ & Hs' & _ & Hq & Hvv & _).
    rewrite He in He2. inversion He2 as [[Hrec Htx]]. subst tx2.
    match type of Ewl with write_loop P ?f ?c1 ?t ?d ?r ?w0 ?n0 = _ =>
      destruct (write_loop_ok P HP f c1 t d r w0 n0 rx') as (recs2 & c3 & rx3 & Hwl2 & _) end.
    - unfold wconn_ok. cbn [cn_out cn_vers with_out]. split; congruence.
    - cbn [cn_out with_out]. exact Hs'.
    - exact H23.
    - exact Hrnd.
    - rewrite Lp, skipn_length. change (length b) with (S (length b')). lia.
    - cbn [cn_out with_out]. rewrite Hq, Lp. unfold len at 1. rewrite skipn_length.
      assert (Ld : len b = N.of_nat (S (length b'))) by reflexivity. rewrite Ld in Hseq.
      change (length b) with (S (length b')). lia.
    - rewrite Hwl2 in Ewl. inversion Ewl. eexists. reflexivity. }
  destruct Hpre as (rest & Hrest). rewrite Hrest.
  (* position of the ciphertext inside the first record *)
  assert (Lex : length (firstn (explicit_nonce_len (cn_out c)) (seq8 (h_seq (cn_out c)))) = explicit_nonce_len (cn_out c)).
  { unfold explicit_nonce_len. rewrite Hc. destruct Hk as [-> | [-> _]]; reflexivity. }
  change ([] ++ ?x) with x.
  match goal with |- context [skipn _ ((?H ++ ?E ++ ?S) ++ rest)] =>
    replace (recordHeaderLen + explicit_nonce_len (cn_out c))%nat with (length H + length E)%nat
      by (rewrite Lex; reflexivity);
    rewrite (skipn_two_app H E S rest) end.
  rewrite (aead_stream P HP), <- !app_assoc.
  set (inner := if h_vers (cn_out c) =? V13 then payload ++ [rtAppData] else payload).
  assert (Hin : (n <= length inner)%nat /\ firstn n inner = firstn n b).
  { assert (Hnp : (n <= length payload)%nat) by (unfold len in Lp; lia).
    assert (Hfp : firstn n payload = firstn n b).
    { unfold payload. rewrite firstn_firstn. f_equal. lia. }
    unfold inner. destruct (h_vers (cn_out c) =? V13).
    - rewrite app_length. split; [lia|]. rewrite firstn_app. replace (n - length payload)%nat with 0%nat by lia.
      cbn [firstn]. rewrite app_nil_r. exact Hfp.
    - auto. }
  destruct Hin as [Hni Hfi].
  match goal with |- firstn n (bxor ?i _ ++ _) = _ => change i with inner end.
  match goal with |- context [firstn n (bxor inner ?k ++ _)] =>
    assert (Hle : (n <= length (bxor inner k))%nat)
      by (rewrite bxor_length, (aead_ks_len P HP), Nat.min_id; exact Hni) end.
  rewrite firstn_app_le by exact Hle.
  rewrite firstn_bxor, Hfi, (aead_ks_prefix P HP) by exact Hni.
  rewrite Hks. reflexivity.
Qed.

End KS.

(* Proofs for Model/Public.v (C31, conversion half). *)
From Coq Require Import String.
From UV Require Import Base.Common Model.Public.
Open Scope N_scope.

(* ---- the append loop is map, except that an empty input gives nil ---- *)
Lemma append_loop_acc {A B} (f : A -> B) l : forall acc,
  fold_left (fun acc x => match acc with None => Some [f x] | Some o => Some (o ++ [f x]) end) l (Some acc)
  = Some (acc ++ map f l).
Proof.
  induction l as [|x l IH]; intros acc; cbn [fold_left map].
  - now rewrite app_nil_r.
  - rewrite IH. now rewrite <- app_assoc.
Qed.

Lemma append_loop_spec {A B} (f : A -> B) l :
  append_loop f l = match l with [] => None | _ => Some (map f l) end.
Proof.
  destruct l as [|x l]; [reflexivity|]. unfold append_loop. cbn [fold_left]. now rewrite append_loop_acc.
Qed.

Lemma elems_rebuild {A B} (f : A -> B) s : elems (rebuild f s) = map f (elems s).
Proof. destruct s as [[|x l]|]; try reflexivity. unfold rebuild. now rewrite append_loop_spec. Qed.

Lemma elems_rebuild2 {A B} (f : A -> B) (g : B -> A) s :
  (forall x, g (f x) = x) -> elems (rebuild g (rebuild f s)) = elems s.
Proof.
  intros H. rewrite !elems_rebuild, map_map. rewrite <- (map_id (elems s)) at 2. apply map_ext. exact H.
Qed.

(* exact round trip unless the slice is empty but not nil *)
Lemma rebuild2_exact {A B} (f : A -> B) (g : B -> A) s :
  (forall x, g (f x) = x) -> s <> Some [] -> rebuild g (rebuild f s) = s.
Proof.
  intros H Hne. destruct s as [[|x l]|]; [congruence| |reflexivity].
  unfold rebuild at 2. rewrite append_loop_spec. cbn [map rebuild]. rewrite append_loop_spec. cbn [map].
  rewrite H, map_map. f_equal. f_equal. rewrite <- (map_id l) at 2. apply map_ext. exact H.
Qed.
Lemma rebuild2_empty {A B} (f : A -> B) (g : B -> A) : rebuild g (rebuild f (Some [])) = None.
Proof. reflexivity. Qed.

Lemma ks_pp K : ks_to_public (ks_to_private K) = K. Proof. now destruct K. Qed.
Lemma ks_qq k : ks_to_private (ks_to_public k) = k. Proof. now destruct k. Qed.
Lemma pi_pp P : pi_to_public (pi_to_private P) = P. Proof. now destruct P. Qed.
Lemma pi_qq p : pi_to_private (pi_to_public p) = p. Proof. now destruct p. Qed.
Lemma tk_pp T : tk_ToPublic (TK_ToPrivate T) = T. Proof. now destruct T. Qed.
Lemma tk_qq t : TK_ToPrivate (tk_ToPublic t) = t. Proof. now destruct t. Qed.

(* ---- list-mapped pairs ---- *)
Lemma KeyShares_pub_priv_pub s : elems (keyShares_ToPublic (KeyShares_ToPrivate s)) = elems s.
Proof. apply elems_rebuild2, ks_pp. Qed.
Lemma keyShares_priv_pub_priv s : elems (KeyShares_ToPrivate (keyShares_ToPublic s)) = elems s.
Proof. apply elems_rebuild2, ks_qq. Qed.
Lemma KeyShares_exact s : s <> Some [] -> keyShares_ToPublic (KeyShares_ToPrivate s) = s.
Proof. apply rebuild2_exact, ks_pp. Qed.
Lemma PskIdentities_pub_priv_pub s : elems (pskIdentities_ToPublic (PskIdentities_ToPrivate s)) = elems s.
Proof. apply elems_rebuild2, pi_pp. Qed.
Lemma pskIdentities_priv_pub_priv s : elems (PskIdentities_ToPrivate (pskIdentities_ToPublic s)) = elems s.
Proof. apply elems_rebuild2, pi_qq. Qed.
Lemma PskIdentities_exact s : s <> Some [] -> pskIdentities_ToPublic (PskIdentities_ToPrivate s) = s.
Proof. apply rebuild2_exact, pi_pp. Qed.
Lemma TicketKeys_pub_priv_pub s : elems (ticketKeys_ToPublic (TicketKeys_ToPrivate s)) = elems s.
Proof. apply elems_rebuild2, tk_pp. Qed.
Lemma ticketKeys_priv_pub_priv s : elems (TicketKeys_ToPrivate (ticketKeys_ToPublic s)) = elems s.
Proof. apply elems_rebuild2, tk_qq. Qed.

(* ---- pointer/object pairs: whole-record identities ---- *)
Lemma KP_pub_priv_pub k : kp_ToPublic (KP_ToPrivate k) = k. Proof. now destruct k as [[]|]. Qed.
Lemma kp_priv_pub_priv k : KP_ToPrivate (kp_ToPublic k) = k. Proof. now destruct k as [[]|]. Qed.
Lemma KM_pub_priv_pub k : km_ToPublic (KM_ToPrivate k) = k. Proof. now destruct k as [[]|]. Qed.
Lemma km_priv_pub_priv k : KM_ToPrivate (km_ToPublic k) = k. Proof. now destruct k as [[]|]. Qed.
Lemma C3_pub_priv_pub c : c3_toPublic (C3_toPrivate c) = c. Proof. now destruct c as [[]|]. Qed.
Lemma c3_priv_pub_priv c : C3_toPrivate (c3_toPublic c) = c. Proof. now destruct c as [[]|]. Qed.
(* PubCipherSuite: getPublicObj returns an object, so nil becomes the zero object *)
Lemma CS_pub_priv_pub c : cs_getPublicObj (CS_getPrivatePtr (Some c)) = c. Proof. now destruct c. Qed.
Lemma CS_nil : cs_getPublicObj (CS_getPrivatePtr None) = CS_zero. Proof. reflexivity. Qed.
Lemma cs_priv_pub_priv c : CS_getPrivatePtr (Some (cs_getPublicObj (Some c))) = Some c. Proof. now destruct c. Qed.

(* ---- FinishedHash: every field but Prf; Prfv2 when it was set; prf always ---- *)
Definition FH_view (f : FinishedHash) :=
  (FH_Client f, FH_Server f, FH_ClientMD5 f, FH_ServerMD5 f, FH_Buffer f, FH_Version f).
Lemma FH_pub_priv_pub f : FH_view (fh_getPublicObj (FH_getPrivateObj f)) = FH_view f.
Proof. now destruct f. Qed.
Lemma FH_prfv2_kept f p : FH_Prfv2 f = Some p -> FH_Prfv2 (fh_getPublicObj (FH_getPrivateObj f)) = Some p.
Proof. destruct f; cbn. now intros ->. Qed.
Lemma fh_priv_pub_priv f : fh_prf f <> None -> FH_getPrivateObj (fh_getPublicObj f) = f.
Proof. destruct f as [a b c d e v [p|]]; cbn; [reflexivity|congruence]. Qed.
Lemma fh_priv_pub_priv_fields f :
  let f' := FH_getPrivateObj (fh_getPublicObj f) in
  (fh_client f', fh_server f', fh_clientMD5 f', fh_serverMD5 f', fh_buffer f', fh_version f')
  = (fh_client f, fh_server f, fh_clientMD5 f, fh_serverMD5 f, fh_buffer f, fh_version f).
Proof. now destruct f as [a b c d e v [p|]]. Qed.
(* Prf is never preserved: what comes back is a fresh wrapper closure *)
Lemma FH_prf_not_preserved f : FH_Prf (fh_getPublicObj (FH_getPrivateObj f)) <> FH_Prf f \/ FH_Prfv2 f = None /\ FH_Prf f = None \/
  exists p, FH_Prf (fh_getPublicObj (FH_getPrivateObj f)) = Some (OldWrapV2 p).
Proof. right. right. destruct f as [a b c d e v [p|] [o|]]; cbn; eauto. Qed.

(* ---- CertificateRequestMsgTLS13: all fields but Raw / original ---- *)
Definition CR_view (c : CertificateRequestMsgTLS13) :=
  (CR_OcspStapling c, CR_Scts c, CR_SupportedSignatureAlgorithms c, CR_SupportedSignatureAlgorithmsCert c,
   CR_CertificateAuthorities c).
Definition cr_view (c : certificateRequestMsgTLS13) :=
  (cr_ocspStapling c, cr_scts c, cr_supportedSignatureAlgorithms c, cr_supportedSignatureAlgorithmsCert c,
   cr_certificateAuthorities c).
Lemma CR_pub_priv_pub mar c : option_map CR_view (cr_toPublic mar (CR_toPrivate c)) = option_map CR_view c.
Proof. now destruct c as [[]|]. Qed.
Lemma cr_priv_pub_priv mar c : option_map cr_view (CR_toPrivate (cr_toPublic mar c)) = option_map cr_view c.
Proof. now destruct c as [[]|]. Qed.
Lemma CR_raw_is_remarshalled mar c :
  option_map CR_Raw (cr_toPublic mar (CR_toPrivate (Some c))) =
  Some (match mar (CR_OcspStapling c) (CR_Scts c) (CR_SupportedSignatureAlgorithms c) (CR_SupportedSignatureAlgorithmsCert c)
                  (CR_CertificateAuthorities c) with Some r => r | None => [] end).
Proof. now destruct c. Qed.
Lemma cr_original_dropped mar c : option_map cr_original (CR_toPrivate (cr_toPublic mar (Some c))) = Some None.
Proof. now destruct c. Qed.

(* ---- ServerHello ---- *)
Lemma SH_pub_priv_pub s : sh_getPublicPtr (SH_getPrivatePtr s) = s.
Proof. now destruct s as [[]|]. Qed.
Definition sh_view (s : serverHelloMsg) :=
  (sh_original s, sh_vers s, sh_random s, sh_sessionId s, sh_cipherSuite s, sh_compressionMethod s, sh_ocspStapling s,
   sh_ticketSupported s, sh_secureRenegotiationSupported s, sh_secureRenegotiation s, sh_extendedMasterSecret s,
   sh_alpnProtocol s, sh_scts s, sh_supportedVersion s, sh_serverShare s, sh_selectedIdentityPresent s, sh_selectedIdentity s,
   sh_cookie s, sh_selectedGroup s, sh_nextProtoNeg s, sh_nextProtos s).
Lemma sh_priv_pub_priv s : option_map sh_view (SH_getPrivatePtr (sh_getPublicPtr s)) = option_map sh_view s.
Proof. now destruct s as [[]|]. Qed.
Lemma sh_not_copied s :
  option_map (fun m => (sh_supportedPoints m, sh_encryptedClientHello m, sh_serverNameAck m)) (SH_getPrivatePtr (sh_getPublicPtr (Some s)))
  = Some ([], [], false).
Proof. now destruct s. Qed.

(* ---- ClientHello ---- *)
Definition CH_view (c : PubClientHelloMsg) :=
  (CH_Raw c, CH_Vers c, CH_Random c, CH_SessionId c, CH_CipherSuites c, CH_CompressionMethods c, CH_NextProtoNeg c,
   CH_ServerName c, CH_OcspStapling c, CH_Scts c, CH_Ems c, CH_SupportedCurves c, CH_SupportedPoints c, CH_TicketSupported c,
   CH_SessionTicket c, CH_SupportedSignatureAlgorithms c, CH_SecureRenegotiation c, CH_SecureRenegotiationSupported c,
   CH_AlpnProtocols c, CH_SupportedSignatureAlgorithmsCert c, CH_SupportedVersions c, CH_Cookie c, elems (CH_KeyShares c),
   CH_EarlyData c, CH_PskModes c, elems (CH_PskIdentities c), CH_PskBinders c, CH_QuicTransportParameters c,
   CH_encryptedClientHello c).
Definition ch_view (m : clientHelloMsg) :=
  (ch_original m, ch_vers m, ch_random m, ch_sessionId m, ch_cipherSuites m, ch_compressionMethods m, ch_serverName m,
   ch_ocspStapling m, ch_supportedCurves m, ch_supportedPoints m, ch_ticketSupported m, ch_sessionTicket m,
   ch_supportedSignatureAlgorithms m, ch_supportedSignatureAlgorithmsCert m, ch_secureRenegotiationSupported m,
   ch_secureRenegotiation m, ch_extendedMasterSecret m, ch_alpnProtocols m, ch_scts m, ch_supportedVersions m, ch_cookie m,
   elems (ch_keyShares m), ch_earlyData m, ch_pskModes m, elems (ch_pskIdentities m), ch_pskBinders m,
   ch_quicTransportParameters m, ch_encryptedClientHello m, ch_nextProtoNeg m).

Lemma CH_pub_priv_pub c p c' : CH_getPrivatePtr (Some c) = Some (p, c') ->
  exists c2, ch_getPublicPtr (Some p) = Some c2 /\ CH_view c2 = CH_view c /\ CH_view c' = CH_view c /\
             CH_cachedPrivateHello c2 = Some p /\ CH_cachedPrivateHello c' = Some p.
Proof.
  intros H. injection H as <- <-. eexists. split; [reflexivity|].
  destruct c; unfold CH_view; cbn. rewrite KeyShares_pub_priv_pub, PskIdentities_pub_priv_pub. auto.
Qed.

Lemma ch_priv_pub_priv m : exists c, ch_getPublicPtr (Some m) = Some c /\
  forall p c', CH_getPrivatePtr (Some c) = Some (p, c') -> ch_view p = ch_view m /\ ch_extensions p = [].
Proof.
  eexists. split; [reflexivity|]. intros p c' H. injection H as <- _.
  destruct m; unfold ch_view; cbn. rewrite keyShares_priv_pub_priv, pskIdentities_priv_pub_priv. auto.
Qed.

(* getPrivatePtr never reads the cache pointer: a second conversion after any edit sees only the edited fields,
   whatever an earlier conversion left in cachedPrivateHello *)
Lemma CH_private_ignores_cache c e : CH_private_of (CH_set_cached c e) = CH_private_of c.
Proof. now destruct c. Qed.
Lemma CH_reconversion c0 c1 p0 c0' p1 c1' :
  CH_getPrivatePtr (Some c0) = Some (p0, c0') ->
  CH_getPrivatePtr (Some (CH_set_cached c1 (CH_cachedPrivateHello c0'))) = Some (p1, c1') ->
  p1 = CH_private_of c1 /\ exists c2, ch_getPublicPtr (Some p1) = Some c2 /\ CH_view c2 = CH_view c1.
Proof.
  intros _ H. cbn [CH_getPrivatePtr] in H. injection H as <- _. rewrite CH_private_ignores_cache. split; [reflexivity|].
  destruct (CH_pub_priv_pub c1 _ _ eq_refl) as (c2 & E & V & _). eauto.
Qed.

(* exact (whole-record) form when no rebuilt slice is empty-but-not-nil *)
Lemma CH_pub_priv_pub_exact c : CH_KeyShares c <> Some [] -> CH_PskIdentities c <> Some [] ->
  ch_getPublicPtr (Some (CH_private_of c)) = Some (CH_set_cached c (Some (CH_private_of c))).
Proof.
  intros H1 H2. destruct c; cbn in *. unfold CH_set_cached; cbn.
  rewrite (KeyShares_exact _ H1), (PskIdentities_exact _ H2). reflexivity.
Qed.

(* ---- fields without counterpart, computed from the field tables ---- *)
Local Open Scope string_scope.
Lemma without_counterpart_is : without_counterpart =
  [("ClientHello", (["cachedPrivateHello"], ["extensions"]));
   ("ServerHello", ([], ["supportedPoints"; "encryptedClientHello"; "serverNameAck"]));
   ("CertReq13", (["Raw"], ["original"]));
   ("FinishedHash", (["Prf"], []))].
Proof. vm_compute. reflexivity. Qed.

(* the tables are internally consistent: copied fields are declared, no field is copied twice *)
Fixpoint nodup_str (l : list string) : bool :=
  match l with [] => true | x :: r => negb (str_mem x r) && nodup_str r end.
Definition info_ok (i : pair_info) : bool :=
  forallb (fun p => str_mem (fst p) (pi_pub i) && str_mem (snd p) (pi_priv i)) (pi_copied i)
  && nodup_str (map fst (pi_copied i)) && nodup_str (map snd (pi_copied i))
  && nodup_str (pi_pub i) && nodup_str (pi_priv i).
Lemma tables_ok : forallb (fun e => info_ok (snd e)) pair_table = true.
Proof. vm_compute. reflexivity. Qed.

(* handleKeyUpdate (conn.go:1338): the receiving key is switched whatever happens to the answer. *)
From UV Require Import Base.Common Model.Record.
Open Scope N_scope.

Section KuRead.
Variable P : prims.

Lemma write_loop_keeps_in : forall fuel c typ data rnd wire n w n' c',
  write_loop P fuel c typ data rnd wire n = Ok (w, n', c') ->
  cn_in c' = cn_in c /\ cn_suite c' = cn_suite c /\ cn_vers c' = cn_vers c.
Proof.
  induction fuel as [|f IH]; intros c typ data rnd wire n w n' c' H.
  - destruct data; cbn in H; [inversion H; subst; auto|discriminate].
  - destruct data as [|d0 data']; [cbn in H; inversion H; subst; auto|].
    cbn [write_loop] in H.
    destruct (max_payload_size_for_write c typ) as [mp ps].
    match type of H with context [encrypt P ?a ?b ?d ?e] => destruct (encrypt P a b d e) as [[rec o]| |] end;
      cbn [bind] in H; try discriminate.
    apply IH in H. cbn [with_out cn_in cn_suite cn_vers] in H. exact H.
Qed.

Lemma send_key_update_keeps_in c req rnd w c' :
  send_key_update P c req rnd = Ok (w, c') -> cn_in c' = cn_in c.
Proof.
  unfold send_key_update, write_record_locked. intros H.
  destruct (negb (is_suite13 (cn_suite c))); [discriminate|].
  destruct (write_loop P _ c rtHandshake _ rnd [] 0) as [[[w1 n1] c1]| |] eqn:E; cbn [bind] in H; try discriminate.
  apply write_loop_keeps_in in E. destruct E as (Ei & _).
  destruct ((rtHandshake =? rtCCS) && negb (cn_vers c1 =? V13)).
  - destruct (change_cipher_spec (cn_out c1)); cbn [bind] in H; try discriminate.
    inversion H; subst. cbn. exact Ei.
  - cbn [bind] in H. inversion H; subst. cbn. exact Ei.
Qed.

(* Whether the KeyUpdate answer could be sent or not (a broken send side makes writeRecordLocked fail: the
   error is kept for the next Write, conn.go:1362-1366), handleKeyUpdate returns success with the READ half
   moved to the next generation: the peer's following records, sealed under its new key, are still read. *)
Theorem key_update_reads_on c req rnd w c' :
  handle_key_update P c req rnd = Ok (w, c') ->
  cn_in c' = set_traffic_secret P (cn_in c) (cn_suite c) (next_secret P (cn_suite c) (h_secret (cn_in c))).
Proof.
  unfold handle_key_update. intros H.
  destruct (negb (is_suite13 (cn_suite c))); [discriminate|].
  destruct req; [|inversion H; subst; reflexivity].
  match type of H with context [send_key_update P ?c1 false rnd] =>
    destruct (send_key_update P c1 false rnd) as [[w1 c2]| |] eqn:E end; try discriminate.
  - inversion H; subst. apply send_key_update_keeps_in in E. rewrite E. reflexivity.
  - inversion H; subst. reflexivity.
Qed.

(* ... and a failing answer is not an error of the Read that processed the request *)
Theorem key_update_answer_failure_is_not_fatal c rnd e :
  is_suite13 (cn_suite c) = true ->
  send_key_update P (with_in c (set_traffic_secret P (cn_in c) (cn_suite c) (next_secret P (cn_suite c) (h_secret (cn_in c))))
                             (cn_input c) (cn_hand c) (cn_retry c)) false rnd = Err e ->
  exists c', handle_key_update P c true rnd = Ok ([], c').
Proof.
  intros Hs H. unfold handle_key_update. rewrite Hs. cbn [negb]. rewrite H. eexists. reflexivity.
Qed.

End KuRead.

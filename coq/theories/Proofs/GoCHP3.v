(* Proofs for Model/GoCH.v, part 3: the public entry points (UnmarshalClientHello / Marshal) and the decidable
   form of the well-formedness premise. *)
From Coq Require Import ZifyBool ZifyNat ZifyN.
From UV Require Import Base.Common Model.Public Model.GoCH Proofs.PublicP Proofs.GoCHP Proofs.GoCHP2.
Open Scope N_scope.

(* ---------- facts about [present m] that hold for every m ---------- *)
Lemma NoDup_map_filter {A B} (f : A -> B) (p : A -> bool) l : NoDup (map f l) -> NoDup (map f (filter p l)).
Proof.
  induction l as [|a l IH]; intros H; [constructor|]. cbn [map] in H. inversion H as [|? ? Hni Hnd]; subst.
  cbn [filter]. destruct (p a); [|now apply IH]. cbn [map]. constructor; [|now apply IH].
  intros Hin. apply Hni. apply in_map_iff in Hin as (x & Hx & Hxin). apply filter_In in Hxin as [Hxin _].
  rewrite <- Hx. now apply in_map.
Qed.

Lemma present_nodup m : NoDup (map ext_id (present m)).
Proof.
  unfold present. rewrite map_map. apply (NoDup_map_filter (fun e => ext_id (snd e)) fst).
  assert (E : map (fun e => ext_id (snd e)) (slots m) = [0;11;35;65281;23;18;42;57;65037;5;10;13;50;16;43;44;51;45;41])
    by reflexivity.
  rewrite E. repeat (constructor; [intros H; cbn [In] in H; lia|]). constructor.
Qed.

Definition no41 (l : list (bool * ext)) : bool := forallb (fun e => negb (ext_id (snd e) =? 41)) l.
Lemma psk_lastb_snoc l c x : no41 l = true -> psk_lastb (map snd (filter fst (l ++ [(c, x)]))) = true.
Proof.
  induction l as [|[b y] l IH]; intros H.
  - cbn. destruct c; cbn; [now rewrite orb_true_r|reflexivity].
  - unfold no41 in H. cbn [forallb] in H. apply andb_true_iff in H as [H1 H2]. cbn [app filter fst]. destruct b.
    + cbn [map snd psk_lastb]. cbn [snd] in H1. rewrite H1. cbn [orb andb]. now apply IH.
    + now apply IH.
Qed.
Lemma present_psk_last m : psk_lastb (present m) = true.
Proof.
  unfold present. rewrite <- (firstn_skipn 18 (slots m)).
  change (skipn 18 (slots m)) with
    [(negb (is_nil (elems (ch_pskIdentities m))), XPsk (elems (ch_pskIdentities m)) (ch_pskBinders m))].
  apply psk_lastb_snoc. reflexivity.
Qed.

Lemma enc_ext_nonnil x bs : enc_ext x = Some bs -> bs <> [].
Proof.
  intros E. assert (exists id body, hdr id body = Some bs) as (id & body & H) by (destruct x; cbn [enc_ext] in E; try discriminate; eauto).
  apply hdr_inv in H as (b & _ & _ & ->). discriminate.
Qed.
Lemma encs_nil l : cat_opt (map enc_ext l) = Some [] -> l = [].
Proof.
  destruct l as [|x l]; [reflexivity|]. intros E. cbn [map] in E. apply cat_opt_cons in E as (a & b & Ea & _ & E).
  apply enc_ext_nonnil in Ea. destruct a; [congruence|discriminate].
Qed.

Lemma rd_bytes4 a b c d r : rd_bytes 4 (a :: b :: c :: d :: r) = Some ([a; b; c; d], r).
Proof. exact (rd_bytes_app [a; b; c; d] r). Qed.

(* ---------- marshalMsg then unmarshal ---------- *)
Definition wf_msg (m : clientHelloMsg) : Prop :=
  canon m /\ Forall wf_ext (present m) /\ ch_vers m < 65536 /\ Forall u16_ok (ch_cipherSuites m).

Theorem marshal_unmarshal m b : wf_msg m -> marshalMsg m = Ok b ->
  exists m', unmarshal b = Some m' /\ ch_fields m' = ch_fields m /\ ch_original m' = Some b /\
             ch_extensions m' = map ext_id (present m).
Proof.
  intros (Hc & Hw & Hv & Hs) E. unfold marshalMsg in E. destruct (marshalMsg_opt m) as [b0|] eqn:E0; [|discriminate].
  assert (b0 = b) as -> by congruence. clear E. unfold marshalMsg_opt in E0.
  destruct (cat_opt (map enc_ext (present m))) as [eb|] eqn:Eext; [|discriminate]. cbn [obind] in E0.
  destruct (Nat.eqb_spec (length (ch_random m)) 32) as [Hr|Hr]; [|discriminate]. cbn [obind] in E0.
  destruct (enc_u8lp (ch_sessionId m)) as [sid|] eqn:Esid; [|discriminate]. cbn [obind] in E0.
  destruct (enc_u16lp (enc_u16s (ch_cipherSuites m))) as [cs|] eqn:Ecs; [|discriminate]. cbn [obind] in E0.
  destruct (enc_u8lp (ch_compressionMethods m)) as [comp|] eqn:Ecomp; [|discriminate]. cbn [obind] in E0.
  destruct (if is_nil eb then Some [] else enc_u16lp eb) as [ebb|] eqn:Eeb; [|discriminate]. cbn [obind] in E0.
  unfold enc_u24lp in E0.
  destruct (len (enc_u16 (ch_vers m) ++ ch_random m ++ sid ++ cs ++ comp ++ ebb) <? 16777216); [|discriminate].
  cbn [obind] in E0. unfold enc_u24 in E0. cbn [app] in E0.
  assert (Hproj : forall l, l = present m ->
            exists m', Some (project b (ch_vers m) (ch_random m) (ch_sessionId m) (ch_cipherSuites m) (ch_compressionMethods m) l) = Some m' /\
              ch_fields m' = ch_fields m /\ ch_original m' = Some b /\ ch_extensions m' = map ext_id (present m)).
  { intros l ->. eexists. split; [reflexivity|]. split; [apply project_present; exact Hc|]. split; reflexivity. }
  assert (b = 1 :: (len (enc_u16 (ch_vers m) ++ ch_random m ++ sid ++ cs ++ comp ++ ebb) / 65536) mod 256
                :: (len (enc_u16 (ch_vers m) ++ ch_random m ++ sid ++ cs ++ comp ++ ebb) / 256) mod 256
                :: len (enc_u16 (ch_vers m) ++ ch_random m ++ sid ++ cs ++ comp ++ ebb) mod 256
                :: enc_u16 (ch_vers m) ++ ch_random m ++ sid ++ cs ++ comp ++ ebb) as Hb by congruence.
  set (payload := enc_u16 (ch_vers m) ++ ch_random m ++ sid ++ cs ++ comp ++ ebb) in *.
  assert (Hrd : exists h, rd_bytes 4 b = Some (h, payload)) by (rewrite Hb; eexists; apply rd_bytes4).
  destruct Hrd as (h & Hrd). unfold unmarshal. rewrite Hrd. cbn [obind]. unfold payload.
  rewrite (rd_u16_enc _ _ Hv). cbn [obind]. rewrite <- Hr, rd_bytes_app. cbn [obind].
  rewrite (rd_u8lp_enc _ _ _ Esid). cbn [obind]. rewrite (rd_u16lp_enc _ _ _ Ecs). cbn [obind].
  rewrite (rd_u16s_enc _ Hs). cbn [obind]. rewrite (rd_u8lp_enc _ _ _ Ecomp). cbn [obind].
  destruct (is_nil eb) eqn:En.
  - assert (ebb = []) as -> by congruence. cbn [is_nil]. apply Hproj.
    destruct eb; [|discriminate]. symmetry. now apply encs_nil.
  - destruct (enc_u16lp_cons _ _ Eeb) as (x & y & Exy).
    replace (is_nil ebb) with false by (rewrite Exy; reflexivity).
    rewrite (rd_u16lp_enc0 _ _ Eeb). cbn [obind is_nil negb].
    rewrite (parse_exts_encs (present m) eb [] (length eb) Eext Hw (present_nodup m) (fun _ _ H => H) (present_psk_last m) (le_n _)).
    cbn [obind]. apply Hproj. reflexivity.
Qed.

(* unmarshal keeps its input as [original] (handshake_messages.go:450) *)
Lemma unmarshal_original b m : unmarshal b = Some m -> ch_original m = Some b.
Proof.
  unfold unmarshal.
  destruct (rd_bytes 4 b) as [[h s0]|]; [|discriminate]. cbn [obind].
  destruct (rd_u16 s0) as [[vers s1]|]; [|discriminate]. cbn [obind].
  destruct (rd_bytes 32 s1) as [[random s2]|]; [|discriminate]. cbn [obind].
  destruct (rd_u8lp s2) as [[sid s3]|]; [|discriminate]. cbn [obind].
  destruct (rd_u16lp s3) as [[cs s4]|]; [|discriminate]. cbn [obind].
  destruct (rd_u16s cs) as [suites|]; [|discriminate]. cbn [obind].
  destruct (rd_u8lp s4) as [[comp s5]|]; [|discriminate]. cbn [obind].
  destruct (is_nil s5).
  - intros E; injection E as <-. reflexivity.
  - destruct (rd_u16lp s5) as [[exts s6]|]; [|discriminate]. cbn [obind].
    destruct (negb (is_nil s6)); [discriminate|].
    destruct (parse_exts (length exts) exts []) as [l|]; [|discriminate]. cbn [obind].
    intros E; injection E as <-. reflexivity.
Qed.

Lemma private_original c : ch_original (CH_private_of c) = CH_Raw c. Proof. reflexivity. Qed.

(* UnmarshalClientHello then Marshal returns the input: Marshal never re-encodes while Raw is set (:402) *)
Theorem unmarshal_marshal_raw b c : UnmarshalClientHello b = Some c -> Marshal c = Ok b.
Proof.
  unfold UnmarshalClientHello. destruct (unmarshal b) as [m|] eqn:E; [|discriminate]. cbn [ch_getPublicPtr].
  intros H; injection H as <-. unfold Marshal, marshal. rewrite private_original. cbn [CH_Raw].
  rewrite (unmarshal_original _ _ E). reflexivity.
Qed.

(* in fact for ANY view whose Raw is set, whatever the other fields say *)
Theorem marshal_returns_raw c raw : CH_Raw c = Some raw -> Marshal c = Ok raw.
Proof. intros H. unfold Marshal, marshal. rewrite private_original, H. reflexivity. Qed.

(* with Raw cleared, Marshal is marshalMsg(false) of the field values *)
Lemma marshal_cleared c : Marshal (CH_clear_raw c) = marshalMsg (CH_private_of (CH_clear_raw c)).
Proof. reflexivity. Qed.

Local Arguments keyShares_ToPublic : simpl never.
Local Arguments KeyShares_ToPrivate : simpl never.
Local Arguments pskIdentities_ToPublic : simpl never.
Local Arguments PskIdentities_ToPrivate : simpl never.
Local Arguments elems : simpl never.

Theorem reparse_pub c b' : wf_msg (CH_private_of (CH_clear_raw c)) -> Marshal (CH_clear_raw c) = Ok b' ->
  exists c', UnmarshalClientHello b' = Some c' /\ CH_values c' = CH_values c /\ CH_Raw c' = Some b'.
Proof.
  intros W E. rewrite marshal_cleared in E. destruct (marshal_unmarshal _ _ W E) as (m' & Hu & Hf & Ho & _).
  unfold UnmarshalClientHello. rewrite Hu. cbn [ch_getPublicPtr]. eexists. split; [reflexivity|].
  clear W E Hu. destruct m', c. unfold ch_fields in Hf. cbn in Hf, Ho. inversion Hf; subst. clear Hf.
  unfold CH_values. cbn. rewrite KeyShares_pub_priv_pub, PskIdentities_pub_priv_pub. split; reflexivity.
Qed.

(* ---------- the decidable premise ---------- *)
Lemma nonnilb_spec {A} (l : list A) : nonnilb l = true -> l <> [].
Proof. destruct l; cbn; intros H; congruence. Qed.
Lemma forallb_Forall {A} (p : A -> bool) (P : A -> Prop) l :
  (forall x, p x = true -> P x) -> forallb p l = true -> Forall P l.
Proof.
  intros HP. induction l as [|x l IH]; cbn [forallb]; intros H; [constructor|].
  apply andb_true_iff in H as [H1 H2]. constructor; auto.
Qed.
Lemma u16s_ok l : forallb u16_okb l = true -> Forall u16_ok l.
Proof. apply forallb_Forall. intros x H. unfold u16_okb in H. unfold u16_ok. lia. Qed.
Lemma nonnils_ok (l : list bytes) : forallb nonnilb l = true -> Forall nonnil l.
Proof. apply forallb_Forall. intros x H. now apply nonnilb_spec. Qed.

Ltac split_and H := repeat match type of H with
  | _ && _ = true => let H1 := fresh "Hb" in apply andb_true_iff in H as [H H1] end.

Lemma wf_extb_sound x : wf_extb x = true -> wf_ext x.
Proof.
  destruct x; cbn [wf_extb wf_ext]; intros H; try exact I; try discriminate; split_and H.
  - split; [now apply nonnilb_spec|]. intros E. rewrite E in Hb. discriminate.
  - exact H.
  - split; [now apply nonnilb_spec|now apply u16s_ok].
  - now apply nonnilb_spec.
  - split; [now apply nonnilb_spec|now apply u16s_ok].
  - split; [now apply nonnilb_spec|now apply u16s_ok].
  - split; [now apply nonnilb_spec|now apply nonnils_ok].
  - split; [now apply nonnilb_spec|now apply u16s_ok].
  - now apply nonnilb_spec.
  - revert H. apply forallb_Forall. intros k Hk. unfold share_okb in Hk. apply andb_true_iff in Hk as [H1 H2].
    split; [lia|now apply nonnilb_spec].
  - repeat split; [now apply nonnilb_spec| |now apply nonnilb_spec|now apply nonnils_ok].
    revert Hb1. apply forallb_Forall. intros k Hk. unfold id_okb in Hk. apply andb_true_iff in Hk as [H1 H2].
    split; [lia|now apply nonnilb_spec].
Qed.

Lemma canonb_sound m : canonb m = true -> canon m.
Proof.
  unfold canonb, canon. intros H. split_and H. repeat split.
  - intros E. rewrite E in H. cbn in H. destruct (ch_sessionTicket m); [reflexivity|discriminate].
  - intros E. rewrite E in Hb4. cbn in Hb4. destruct (ch_secureRenegotiation m); [reflexivity|discriminate].
  - intros E. rewrite E in Hb3. exact Hb3.
  - intros E. rewrite E in Hb2. cbn in Hb2. destruct (ch_pskBinders m); [reflexivity|discriminate].
  - intros E. rewrite E in Hb1. discriminate.
  - intros E. rewrite E in Hb0. discriminate.
  - destruct (ch_nextProtoNeg m); [discriminate|reflexivity].
Qed.

Lemma wf_msgb_sound m : wf_msgb m = true -> wf_msg m.
Proof.
  unfold wf_msgb, wf_msg. intros H. split_and H.
  split; [now apply canonb_sound|]. split; [apply (forallb_Forall wf_extb wf_ext); [exact wf_extb_sound|assumption]|].
  split; [lia|now apply u16s_ok].
Qed.

Theorem reparse_pub_checked c b' : wf_msgb (CH_private_of (CH_clear_raw c)) = true -> Marshal (CH_clear_raw c) = Ok b' ->
  exists c', UnmarshalClientHello b' = Some c' /\ CH_values c' = CH_values c /\ CH_Raw c' = Some b'.
Proof. intros H. apply reparse_pub. now apply wf_msgb_sound. Qed.

From UV Require Import Base.Common Model.WrClose.

Inductive reach (s0 : state) : state -> Prop :=
| reach_init : reach s0 s0
| reach_step s l s' : reach s0 s -> step s l = Some s' -> reach s0 s'.

Definition bools := [true; false].
Definition holders := [HFree; HW; HC].
Definition wpcs := [W0; W1; W2; W3; W4; W5; WRet].
Definition cpcs := [C0; C1; C2; C3; C4; C5; CRet].
Definition wress := [WNone; WOk; WErrClosed; WErr].
Definition all_states : list state :=
  flat_map (fun me => flat_map (fun co => flat_map (fun st => flat_map (fun cb => flat_map (fun inf => flat_map (fun o =>
  flat_map (fun cl => flat_map (fun wp => flat_map (fun cp => flat_map (fun sw => flat_map (fun wr =>
  map (fun d => mkState me co st cb inf o cl wp cp sw wr d) bools) wress) bools) cpcs) wpcs) bools) holders) bools) bools) bools) bools) bools.

Lemma all_states_complete s : In s all_states.
Proof.
  destruct s as [me co st cb inf o cl wp cp sw wr d]. unfold all_states.
  apply in_flat_map. exists me. split; [destruct me; cbn; auto|].
  apply in_flat_map. exists co. split; [destruct co; cbn; auto|].
  apply in_flat_map. exists st. split; [destruct st; cbn; auto|].
  apply in_flat_map. exists cb. split; [destruct cb; cbn; auto|].
  apply in_flat_map. exists inf. split; [destruct inf; cbn; auto|].
  apply in_flat_map. exists o. split; [destruct o; cbn; auto|].
  apply in_flat_map. exists cl. split; [destruct cl; cbn; auto|].
  apply in_flat_map. exists wp. split; [destruct wp; cbn; auto 10|].
  apply in_flat_map. exists cp. split; [destruct cp; cbn; auto 10|].
  apply in_flat_map. exists sw. split; [destruct sw; cbn; auto|].
  apply in_flat_map. exists wr. split; [destruct wr; cbn; auto|].
  apply in_map. destruct d; cbn; auto.
Qed.

Lemma sweep (P : state -> bool) : forallb P all_states = true -> forall s, P s = true.
Proof. intros H s. rewrite forallb_forall in H. apply H. apply all_states_complete. Qed.

Definition w_in (q : wpc) : bool := match q with W1 | W2 | W3 | W4 | W5 => true | _ => false end.
Definition w_holds (q : wpc) : bool := match q with W3 | W4 => true | _ => false end.
Definition c_holds (q : cpc) : bool := match q with C3 | C4 => true | _ => false end.
Definition c_after (q : cpc) : bool := match q with C0 => false | _ => true end.
Definition is_hw (o : holder) : bool := match o with HW => true | _ => false end.
Definition is_hc (o : holder) : bool := match o with HC => true | _ => false end.
Definition c_notify (q : cpc) : bool := match q with C1 | C2 | C3 | C4 => true | _ => false end.

(* invariant of the code as it is (marker_early = false) *)
Definition invb (s : state) : bool :=
  negb (marker_early s)
  && eqb (inflight s) (w_in (w s))                       (* the marker covers the whole Write *)
  && eqb (is_hw (out s)) (w_holds (w s))
  && eqb (is_hc (out s)) (c_holds (c s))
  && eqb (closed_bit s) (c_after (c s) || cdone s && false)
  && (negb (c_notify (c s)) || negb (saw_writer s) && negb (w_in (w s)))   (* closeNotify path: no Write in flight, and none can start *)
  && eqb (conn_closed s) (match c s with CRet => true | _ => false end)
  && (match wret s with WOk => negb (stall s) | _ => true end)
  && (match c s with CRet => cdone s | _ => negb (cdone s) end).

Definition step_preserves (s : state) : bool :=
  implb (invb s) (forallb (fun l => match step s l with Some s' => invb s' | None => true end) [LW; LC]).
Lemma step_preserves_all : forallb step_preserves all_states = true.
Proof. vm_compute. reflexivity. Qed.

Lemma inv_step s l s' : invb s = true -> step s l = Some s' -> invb s' = true.
Proof.
  intros I S. pose proof (sweep _ step_preserves_all s) as H. unfold step_preserves in H. rewrite I in H. cbn [implb] in H.
  rewrite forallb_forall in H. specialize (H l). rewrite S in H. apply H. destruct l; cbn; auto.
Qed.
Lemma inv_reach s0 s : invb s0 = true -> reach s0 s -> invb s = true.
Proof. intros I R. induction R as [|s l s' R IH S]; [exact I|]. eapply inv_step; eauto. Qed.

Definition progress_p (s : state) : bool := implb (invb s && negb (finished s)) (can_step s).
Lemma progress_all : forallb progress_p all_states = true. Proof. vm_compute. reflexivity. Qed.

(* Close never waits for c.out behind a Write, and a Write counted by the interlock is in flight until it has returned *)
Definition interlock_p (s : state) : bool :=
  implb (invb s) ((negb (match c s with C2 => true | _ => false end) || negb (is_hw (out s)))
                  && (negb (w_in (w s)) || inflight s)
                  && (match wret s with WOk => negb (stall s) | _ => true end)).
Lemma interlock_all : forallb interlock_p all_states = true. Proof. vm_compute. reflexivity. Qed.

(* each process takes a bounded number of steps *)
Definition wrank (q : wpc) : nat := match q with W0 => 6 | W1 => 5 | W2 => 4 | W3 => 3 | W4 => 2 | W5 => 1 | WRet => 0 end.
Definition crank (q : cpc) : nat := match q with C0 => 6 | C1 => 5 | C2 => 4 | C3 => 3 | C4 => 2 | C5 => 1 | CRet => 0 end.
Definition measure (s : state) : nat := (wrank (w s) + crank (c s))%nat.
Definition decreases_p (s : state) : bool :=
  forallb (fun l => match step s l with Some s' => Nat.ltb (measure s') (measure s) | None => true end) [LW; LC].
Lemma decreases_all : forallb decreases_p all_states = true. Proof. vm_compute. reflexivity. Qed.

(* Proofs for Model/Alps.v (C22). *)
From Coq Require Import ZifyBool ZifyNat ZifyN.
From UV Require Import Base.Common Model.Wire Model.RobustSrv Model.Alps Proofs.WireP Proofs.RobustSrvP.
From UV Require Model.Negotiate.
Open Scope N_scope.
Ltac Zify.zify_post_hook ::= Z.div_mod_to_equations.

Arguments N.modulo : simpl never.
Arguments N.div : simpl never.
Arguments N.mul : simpl never.
Arguments N.add : simpl never.

(* ---------- the cryptobyte model inverts the Wire encoders ---------- *)
Lemma cb_read_app (b r : bytes) : cb_read (b ++ r) (Z.of_nat (length b)) = Ok (Some (b, r)).
Proof.
  unfold cb_read, slice_to, slice_from. rewrite app_length.
  destruct (Z.ltb_spec (Z.of_nat (length b + length r)) (Z.of_nat (length b))) as [H|H]; [lia|].
  destruct (Z.ltb_spec (Z.of_nat (length b)) 0) as [H0|H0]; [lia|].
  cbn [orb bind]. rewrite Nat2Z.id.
  rewrite firstn_app, skipn_app, Nat.sub_diag, firstn_all, skipn_all. cbn [firstn skipn app]. now rewrite app_nil_r.
Qed.

Lemma cb_uint1_enc x r : x < 256 -> cb_uint 1 (enc_u8 x ++ r) = Ok (Some (x, r)).
Proof.
  intros H. unfold cb_uint, enc_u8.
  change (Z.of_nat 1) with (Z.of_nat (length [x mod 256])). rewrite cb_read_app. cbn [bind be_acc idx nth_error].
  unfold u32. do 3 f_equal. lia.
Qed.
Lemma cb_uint2_enc x r : x < 65536 -> cb_uint 2 (enc_u16 x ++ r) = Ok (Some (x, r)).
Proof.
  intros H. unfold cb_uint, enc_u16.
  change (Z.of_nat 2) with (Z.of_nat (length [(x / 256) mod 256; x mod 256])). rewrite cb_read_app.
  cbn [bind be_acc idx nth_error]. unfold u32. do 3 f_equal. lia.
Qed.

Lemma cb_lp1_enc b r : blen b < 256 -> cb_lp 1 (enc_u8lp b ++ r) = Ok (Some (b, r)).
Proof.
  intros H. unfold cb_lp, enc_u8lp. rewrite <- app_assoc, cb_uint1_enc by exact H. cbn [bind].
  unfold blen. rewrite nat_N_Z. apply cb_read_app.
Qed.
Lemma cb_lp2_enc b r : blen b < 65536 -> cb_lp 2 (enc_u16lp b ++ r) = Ok (Some (b, r)).
Proof.
  intros H. unfold cb_lp, enc_u16lp. rewrite <- app_assoc, cb_uint2_enc by exact H. cbn [bind].
  unfold blen. rewrite nat_N_Z. apply cb_read_app.
Qed.
Lemma cb_lp2_enc_nil b : blen b < 65536 -> cb_lp 2 (enc_u16lp b) = Ok (Some (b, [])).
Proof. intros H. rewrite <- (app_nil_r (enc_u16lp b)). now apply cb_lp2_enc. Qed.

(* the 4-byte handshake header is skipped whatever it holds *)
Lemma cb_skip4_hdr t n body : cb_skip 4 (t :: enc_u24 n ++ body) = Ok (Some body).
Proof.
  unfold cb_skip, enc_u24.
  change (t :: [(n / 65536) mod 256; (n / 256) mod 256; n mod 256] ++ body)
    with ([t; (n / 65536) mod 256; (n / 256) mod 256; n mod 256] ++ body).
  change 4%Z with (Z.of_nat (length [t; (n / 65536) mod 256; (n / 256) mod 256; n mod 256])).
  rewrite cb_read_app. reflexivity.
Qed.

Lemma is_empty_enc_u16_app x r : is_empty (enc_u16 x ++ r) = false.
Proof. reflexivity. Qed.
Lemma length_enc_u16_app x r : length (enc_u16 x ++ r) = S (S (length r)).
Proof. reflexivity. Qed.
Lemma cee_loop_nil fuel st : cee_loop fuel [] st = Ok (Some st).
Proof. destruct fuel; reflexivity. Qed.
Lemma ee_loop_nil fuel m : ee_loop fuel [] m = Ok (Some m).
Proof. destruct fuel; reflexivity. Qed.

Definition alps_cp (cp : N) : Prop := cp = ext_alps_old \/ cp = ext_alps_new.

(* ---------- alps_codec_roundtrip: the client EncryptedExtensions ---------- *)
Lemma cee_marshal_ok cp settings :
  blen settings + 4 < 65536 -> cee_marshal cp settings [] = Ok (typeEncryptedExtensions :: enc_u24lp (enc_u16lp (cee_exts cp settings []))).
Proof.
  intros H. unfold cee_marshal. rewrite blen_nil. change (65536 <=? 0) with false.
  destruct (N.leb_spec 65536 (blen settings)) as [H1|H1]; [lia|]. rewrite andb_false_r. cbn [orb].
  assert (L : blen (cee_exts cp settings []) < 65536).
  { unfold cee_exts. cbn [is_empty]. rewrite app_nil_r. destruct (cp =? 0).
    - rewrite blen_nil. lia.
    - rewrite blen_app, blen_enc_u16, blen_enc_u16lp. lia. }
  destruct (N.leb_spec 65536 (blen (cee_exts cp settings []))) as [H3|_]; [lia|]. reflexivity.
Qed.

Theorem cee_roundtrip cp settings msg :
  cp = 0 \/ alps_cp cp -> cee_marshal cp settings [] = Ok msg ->
  cee_unmarshal msg = Ok (Some {| ee_codepoint := cp; ee_settings := if cp =? 0 then [] else settings |}).
Proof.
  intros Hcp. unfold cee_marshal. rewrite blen_nil. change (65536 <=? 0) with false. rewrite orb_false_r.
  destruct (negb (cp =? 0) && (65536 <=? blen settings)); [discriminate|].
  destruct (N.leb_spec 65536 (blen (cee_exts cp settings []))) as [H3|H3]; [discriminate|].
  intros E. injection E as <-.
  unfold cee_unmarshal, enc_u24lp. rewrite cb_skip4_hdr. cbn [bind].
  rewrite cb_lp2_enc_nil by exact H3. cbn [bind is_empty negb].
  unfold cee_exts in *. cbn [is_empty] in *. rewrite app_nil_r in *.
  destruct Hcp as [-> | Hcp].
  - cbn [N.eqb]. apply cee_loop_nil.
  - assert (Hne : (cp =? 0) = false) by (destruct Hcp as [-> | ->]; reflexivity). rewrite Hne in *.
    assert (Hc : cp < 65536) by (destruct Hcp as [-> | ->]; reflexivity).
    rewrite length_enc_u16_app. cbn [cee_loop]. rewrite is_empty_enc_u16_app.
    rewrite cb_uint2_enc by exact Hc. cbn [bind].
    rewrite blen_app, blen_enc_u16, blen_enc_u16lp in H3.
    rewrite cb_lp2_enc_nil by lia. cbn [bind].
    assert (Ht : (cp =? ext_alps_old) || (cp =? ext_alps_new) = true) by (destruct Hcp as [-> | ->]; reflexivity).
    rewrite Ht. first [apply cee_loop_nil | reflexivity].
Qed.

(* a custom extension (never set by the library) would make the message unreadable for utlsClientEncryptedExtensionsMsg.unmarshal;
   with ALPS absent this is immediate: *)
Lemma cee_custom_not_roundtrip custom msg :
  custom <> [] -> cee_marshal 0 [] custom = Ok msg -> cee_unmarshal msg = Ok None.
Proof.
  intros Hne. unfold cee_marshal. rewrite blen_nil. change (65536 <=? 0) with false. cbn [N.eqb negb andb].
  destruct (N.leb_spec 65536 (blen custom)) as [H1|H1]; cbn [orb]; [discriminate|].
  destruct (N.leb_spec 65536 (blen (cee_exts 0 [] custom))) as [H3|H3]; [discriminate|].
  intros E. injection E as <-.
  unfold cee_unmarshal, enc_u24lp. rewrite cb_skip4_hdr. cbn [bind].
  rewrite cb_lp2_enc_nil by exact H3. cbn [bind is_empty negb].
  unfold cee_exts in *. cbn [N.eqb app] in *.
  destruct custom as [|c0 custom]; [congruence|]. cbn [is_empty] in *.
  rewrite length_enc_u16_app. cbn [cee_loop]. rewrite is_empty_enc_u16_app.
  rewrite cb_uint2_enc by reflexivity. cbn [bind].
  rewrite blen_app, blen_enc_u16, blen_enc_u16lp in H3.
  rewrite cb_lp2_enc_nil by lia. cbn [bind]. reflexivity.
Qed.

(* ---------- the server's EncryptedExtensions as the client parses it ---------- *)
(* wire form of an extension list, as every TLS stack writes it *)
Definition enc_ext (e : N * bytes) : bytes := enc_u16 (fst e) ++ enc_u16lp (snd e).
Definition enc_exts (exts : list (N * bytes)) : bytes := flat_map enc_ext exts.
Definition enc_ee (exts : list (N * bytes)) : bytes := typeEncryptedExtensions :: enc_u24lp (enc_u16lp (enc_exts exts)).
Definition ext_wf (e : N * bytes) : Prop := fst e < 65536 /\ blen (snd e) < 65536.

(* the switch applied to the decoded extensions, in order *)
Fixpoint ee_fold (exts : list (N * bytes)) (m : ee_msg) : res (option ee_msg) :=
  match exts with
  | [] => Ok (Some m)
  | (id, d) :: r => do h <- ee_handle id d m; match h with None => Ok None | Some m' => ee_fold r m' end
  end.

Lemma ee_loop_enc exts : Forall ext_wf exts -> forall fuel m, (length (enc_exts exts) <= fuel)%nat ->
  ee_loop fuel (enc_exts exts) m = ee_fold exts m.
Proof.
  induction 1 as [|[id d] exts [Hid Hd] _ IH]; intros fuel m Hf.
  - cbn [enc_exts flat_map ee_fold]. apply ee_loop_nil.
  - cbn [fst snd] in *. unfold enc_exts in *. cbn [flat_map] in *. unfold enc_ext at 1 in Hf. unfold enc_ext at 1. cbn [fst snd] in *.
    rewrite <- app_assoc in *. rewrite length_enc_u16_app in Hf.
    destruct fuel as [|fuel]; [lia|]. cbn [ee_loop ee_fold]. rewrite is_empty_enc_u16_app.
    rewrite cb_uint2_enc by exact Hid. cbn [bind]. rewrite cb_lp2_enc by exact Hd. cbn [bind].
    destruct (ee_handle id d m) as [[m'|]| |]; cbn [bind]; try reflexivity.
    apply IH. rewrite app_length in Hf. lia.
Qed.

Theorem ee_unmarshal_enc exts : Forall ext_wf exts -> blen (enc_exts exts) < 65536 ->
  ee_unmarshal (enc_ee exts) = ee_fold exts ee_zero.
Proof.
  intros Hwf Hl. unfold ee_unmarshal, enc_ee, enc_u24lp. rewrite cb_skip4_hdr. cbn [bind].
  rewrite cb_lp2_enc_nil by exact Hl. cbn [bind is_empty negb]. apply ee_loop_enc; [exact Hwf|lia].
Qed.

(* which extension ids leave the ALPS fields alone *)
Definition is_alps (id : N) : bool := (id =? ext_alps_old) || (id =? ext_alps_new).

Lemma ee_handle_alps id d m : is_alps id = true ->
  ee_handle id d m = Ok (Some (mkEE (ee_alpn m) (ee_quic m) (ee_early m) (ee_ech m) id d)).
Proof.
  unfold is_alps. intros H. apply orb_true_iff in H. rewrite !N.eqb_eq in H.
  unfold ee_handle, utls_unmarshal. destruct H as [-> | ->]; reflexivity.
Qed.

Lemma ee_handle_other id d m m' : is_alps id = false -> ee_handle id d m = Ok (Some m') ->
  ee_cp m' = ee_cp m /\ ee_alps m' = ee_alps m.
Proof.
  unfold is_alps. intros H. unfold ee_handle, utls_unmarshal. rewrite H.
  destruct (id =? ext_ALPN).
  { destruct (cb_lp 2 d) as [[[pl d']|]| |]; cbn [bind]; try discriminate.
    destruct (is_empty pl); [discriminate|].
    destruct (cb_lp 1 pl) as [[[pr pl']|]| |]; cbn [bind]; try discriminate.
    destruct (is_empty pr || negb (is_empty pl')); [discriminate|].
    destruct (negb (is_empty d')); [discriminate|]. intros E. injection E as <-. split; reflexivity. }
  destruct (id =? ext_quic_tp); [intros E; injection E as <-; split; reflexivity|].
  destruct (id =? ext_early_data).
  { destruct (negb (is_empty d)); [discriminate|]. intros E. injection E as <-. split; reflexivity. }
  destruct (id =? ext_ech); intros E; injection E as <-; split; reflexivity.
Qed.

Lemma ee_fold_other exts : Forall (fun e => is_alps (fst e) = false) exts -> forall m m',
  ee_fold exts m = Ok (Some m') -> ee_cp m' = ee_cp m /\ ee_alps m' = ee_alps m.
Proof.
  induction 1 as [|[id d] exts Hid _ IH]; intros m m' E; cbn [ee_fold fst] in *.
  - injection E as <-. split; reflexivity.
  - destruct (ee_handle id d m) as [[m1|]| |] eqn:Eh; cbn [bind] in E; try discriminate.
    destruct (ee_handle_other _ _ _ _ Hid Eh) as [H1 H2]. destruct (IH _ _ E) as [H3 H4]. split; congruence.
Qed.

Lemma ee_fold_app a b m : ee_fold (a ++ b) m =
  do r <- ee_fold a m; match r with None => Ok None | Some m1 => ee_fold b m1 end.
Proof.
  revert m. induction a as [|[id d] a IH]; intros m; cbn [app ee_fold bind]; [reflexivity|].
  destruct (ee_handle id d m) as [[m1|]| |]; cbn [bind]; try reflexivity. apply IH.
Qed.

(* the ALPS extension that counts is the last one on either code point *)
Lemma ee_fold_alps pre cp data post m m' :
  is_alps cp = true -> Forall (fun e => is_alps (fst e) = false) post ->
  ee_fold (pre ++ (cp, data) :: post) m = Ok (Some m') -> ee_cp m' = cp /\ ee_alps m' = data.
Proof.
  intros Hcp Hpost. rewrite ee_fold_app.
  destruct (ee_fold pre m) as [[m1|]| |]; cbn [bind]; try discriminate.
  cbn [ee_fold]. rewrite (ee_handle_alps _ _ _ Hcp). cbn [bind].
  intros E. destruct (ee_fold_other _ Hpost _ _ E) as [-> ->]. split; reflexivity.
Qed.

(* the code point is 0 or one of the two ALPS code points, always *)
Lemma ee_handle_cp id d m m' : ee_handle id d m = Ok (Some m') -> ee_cp m = 0 \/ alps_cp (ee_cp m) -> ee_cp m' = 0 \/ alps_cp (ee_cp m').
Proof.
  intros E Hm. destruct (is_alps id) eqn:Ha.
  - rewrite (ee_handle_alps _ _ _ Ha) in E. injection E as <-. cbn [ee_cp]. right.
    unfold is_alps in Ha. apply orb_true_iff in Ha. rewrite !N.eqb_eq in Ha. exact Ha.
  - destruct (ee_handle_other _ _ _ _ Ha E) as [-> _]. exact Hm.
Qed.
Lemma ee_loop_cp : forall fuel exts m m', ee_loop fuel exts m = Ok (Some m') ->
  ee_cp m = 0 \/ alps_cp (ee_cp m) -> ee_cp m' = 0 \/ alps_cp (ee_cp m').
Proof.
  induction fuel as [|fuel IH]; intros exts m m'; cbn [ee_loop]; destruct (is_empty exts).
  1,3: intros E; injection E as <-; auto.
  - discriminate.
  - destruct (cb_uint 2 exts) as [[[id e1]|]| |]; cbn [bind]; try discriminate.
    destruct (cb_lp 2 e1) as [[[body e2]|]| |]; cbn [bind]; try discriminate.
    destruct (ee_handle id body m) as [[m1|]| |] eqn:Eh; cbn [bind]; try discriminate.
    intros E Hm. apply (IH _ _ _ E). exact (ee_handle_cp _ _ _ _ Eh Hm).
Qed.
Theorem ee_unmarshal_cp data m : ee_unmarshal data = Ok (Some m) -> ee_cp m = 0 \/ alps_cp (ee_cp m).
Proof.
  unfold ee_unmarshal. destruct (cb_skip 4 data) as [[s|]| |]; cbn [bind]; try discriminate.
  destruct (cb_lp 2 s) as [[[exts rest]|]| |]; cbn [bind]; try discriminate.
  destruct (negb (is_empty rest)); [discriminate|]. intros E. apply (ee_loop_cp _ _ _ _ E). left; reflexivity.
Qed.

(* ---------- utlsReadServerParameters / readServerParameters ---------- *)
Lemma is_empty_nil_iff (s : bytes) : is_empty s = true <-> s = [].
Proof. destruct s; cbn; split; congruence. Qed.

(* alps_reject, at the uTLS function: *)
Theorem utls_rsp_reject fixed c proto m :
  ee_cp m <> 0 -> cl_vers c < V13 \/ proto = [] ->
  utls_read_server_parameters fixed c proto m = Err a_unsupported_extension.
Proof.
  intros Hcp H. unfold utls_read_server_parameters.
  destruct (N.eqb_spec (ee_cp m) 0) as [E|_]; [contradiction|]. cbn [negb].
  destruct (N.ltb_spec (cl_vers c) V13) as [Hv|Hv]; [reflexivity|].
  destruct H as [H | ->]; [lia|]. reflexivity.
Qed.
(* ... and at the caller: the handshake is aborted (no_application_protocol when checkALPN already refused the protocol) *)
Theorem rsp_reject fixed c m :
  ee_cp m <> 0 -> cl_vers c < V13 \/ ee_alpn m = [] ->
  read_server_parameters fixed c m = Err a_unsupported_extension \/
  read_server_parameters fixed c m = Err a_no_application_protocol.
Proof.
  intros Hcp H. unfold read_server_parameters.
  destruct (Negotiate.check_alpn (cl_offered c) (ee_alpn m)); cbn [negb]; [|right; reflexivity].
  rewrite (utls_rsp_reject fixed c (ee_alpn m) m Hcp H). left; reflexivity.
Qed.

(* the accepting path *)
Theorem rsp_accept fixed c m :
  cl_vers c = V13 -> ee_alpn m <> [] -> Negotiate.check_alpn (cl_offered c) (ee_alpn m) = true ->
  ee_quic m = None -> ee_early m = false ->
  read_server_parameters fixed c m =
    Ok (mkSt (ee_alpn m) (ee_alps m) (ee_cp m)
         (if ee_cp m =? 0 then [] else
          match lookup (if fixed then ee_alpn m else cl_sh_alpn c) (cl_settings c) with Some a => a | None => [] end)).
Proof.
  intros Hv Hp Ha Hq He. unfold read_server_parameters, utls_read_server_parameters. rewrite Ha, Hq, He, Hv. cbn [negb].
  destruct (ee_cp m =? 0); cbn [negb bind]; [reflexivity|].
  change (V13 <? V13) with false. cbv iota.
  destruct (is_empty (ee_alpn m)) eqn:E; [apply is_empty_nil_iff in E; contradiction|].
  destruct (lookup _ (cl_settings c)); reflexivity.
Qed.

(* alps_peer, from the bytes of the server's EncryptedExtensions *)
Theorem alps_peer_bytes c pre cp data post m :
  Forall ext_wf (pre ++ (cp, data) :: post) -> blen (enc_exts (pre ++ (cp, data) :: post)) < 65536 ->
  is_alps cp = true -> Forall (fun e => is_alps (fst e) = false) post ->
  ee_fold (pre ++ (cp, data) :: post) ee_zero = Ok (Some m) ->
  cl_vers c = V13 -> ee_alpn m <> [] -> Negotiate.check_alpn (cl_offered c) (ee_alpn m) = true ->
  ee_quic m = None -> ee_early m = false ->
  forall fixed, exists st, client_read_ee fixed c (enc_ee (pre ++ (cp, data) :: post)) = Ok st /\
    st_peer st = data /\ st_cp st = cp /\ st_proto st = ee_alpn m.
Proof.
  intros Hwf Hl Hcp Hpost Hf Hv Hp Ha Hq He fixed.
  unfold client_read_ee. rewrite (ee_unmarshal_enc _ Hwf Hl), Hf. cbn [bind].
  rewrite (rsp_accept fixed c m Hv Hp Ha Hq He). eexists; split; [reflexivity|].
  destruct (ee_fold_alps _ _ _ _ _ _ Hcp Hpost Hf) as [-> ->]. cbn [st_peer st_cp st_proto]. auto.
Qed.

(* ---------- alps_local (fixed code) ---------- *)
Theorem alps_local_fixed c m st v :
  read_server_parameters true c m = Ok st -> ee_cp m <> 0 -> lookup (ee_alpn m) (cl_settings c) = Some v ->
  st_local st = v /\ st_cp st = ee_cp m /\ st_proto st = ee_alpn m.
Proof.
  unfold read_server_parameters, utls_read_server_parameters. intros E Hcp Hl.
  destruct (Negotiate.check_alpn (cl_offered c) (ee_alpn m)); cbn [negb] in E; [|discriminate].
  destruct (N.eqb_spec (ee_cp m) 0) as [E0|_]; [contradiction|]. cbn [negb] in E.
  destruct (cl_vers c <? V13); [discriminate|]. destruct (is_empty (ee_alpn m)); [discriminate|].
  rewrite Hl in E. cbn [bind] in E. destruct (ee_quic m); [discriminate|]. destruct (ee_early m); [discriminate|].
  injection E as <-. auto.
Qed.

(* whatever the server negotiated, what the client answers decodes (with the real server-side parser) to the code point
   the server used and the client's local settings *)
Theorem send_client_ee_decodes st :
  alps_cp (st_cp st) -> blen (st_local st) + 4 < 65536 ->
  exists msg, send_client_ee st = Ok [msg] /\ nth_error msg 0 = Some 8 /\
    cee_unmarshal msg = Ok (Some {| ee_codepoint := st_cp st; ee_settings := st_local st |}).
Proof.
  intros Hcp Hl. unfold send_client_ee.
  assert (Hne : (st_cp st =? 0) = false) by (destruct Hcp as [-> | ->]; reflexivity). rewrite Hne.
  pose proof (cee_marshal_ok (st_cp st) (st_local st) Hl) as Em. rewrite Em. cbn [bind].
  eexists; split; [reflexivity|]. split; [reflexivity|].
  rewrite (cee_roundtrip (st_cp st) (st_local st) _ (or_intror Hcp) Em). rewrite Hne. reflexivity.
Qed.
Lemma send_client_ee_none st : st_cp st = 0 -> send_client_ee st = Ok [].
Proof. intros H. unfold send_client_ee. now rewrite H. Qed.

(* ---------- alps_in_transcript ---------- *)
Lemma take_msgs_app a b : take_msgs (length a) (a ++ b) = Some (a, b).
Proof. induction a as [|x a IH]; cbn [length take_msgs app]; [reflexivity|]. now rewrite IH. Qed.
Lemma bytes_eqb_refl b : bytes_eqb b b = true.
Proof. now apply bytes_eqb_eq. Qed.

Theorem client_flight_accepted (fin : bytes -> bytes) tr st certs :
  st_cp st = 0 \/ alps_cp (st_cp st) -> blen (st_local st) + 4 < 65536 ->
  exists ee, send_client_ee st = Ok ee /\
    client_flight fin tr st certs = Ok (ee ++ certs ++ [finished_msg fin (tr ++ concat ee ++ concat certs)], tr ++ concat ee ++ concat certs) /\
    server_finish fin tr (negb (st_cp st =? 0)) (length certs) (ee ++ certs ++ [finished_msg fin (tr ++ concat ee ++ concat certs)])
      = Some (if st_cp st =? 0 then None else Some (st_cp st, st_local st)).
Proof.
  intros Hcp Hl. unfold client_flight, server_finish. destruct Hcp as [H0 | Hcp].
  - rewrite (send_client_ee_none st H0). exists []. split; [reflexivity|]. cbn [bind concat app]. split; [reflexivity|].
    rewrite H0. cbn [N.eqb negb]. rewrite take_msgs_app. now rewrite bytes_eqb_refl.
  - destruct (send_client_ee_decodes st Hcp Hl) as (msg & Es & H8 & Ed). rewrite Es. exists [msg]. split; [reflexivity|].
    cbn [bind]. split; [reflexivity|].
    assert (Hne : (st_cp st =? 0) = false) by (destruct Hcp as [-> | ->]; reflexivity). rewrite Hne. cbn [negb app].
    rewrite H8, Ed. cbn [ee_codepoint ee_settings]. rewrite take_msgs_app.
    cbn [concat]. rewrite app_nil_r, <- app_assoc. now rewrite bytes_eqb_refl.
Qed.

(* a server that does NOT hash the client's EncryptedExtensions (or a client that does not) disagrees on the Finished
   input: the transcripts differ by exactly that message *)
Lemma client_flight_transcript (fin : bytes -> bytes) tr st certs sent tr2 ee :
  send_client_ee st = Ok ee -> client_flight fin tr st certs = Ok (sent, tr2) ->
  tr2 = tr ++ concat ee ++ concat certs /\ sent = ee ++ certs ++ [finished_msg fin tr2].
Proof. unfold client_flight. intros ->. cbn [bind]. intros E. injection E as <- <-. auto. Qed.

(* ---------- F-22: the code as found ---------- *)
Definition f22_client : client := mkClient V13 [[104; 50]; [104; 116; 116; 112; 47; 49; 46; 49]] [([104; 50], [1; 2; 3])] [].
Definition f22_ee : ee_msg := mkEE [104; 50] None false None ext_alps_old [9; 9].
Lemma f22_witness :
  exists st, read_server_parameters false f22_client f22_ee = Ok st /\
    lookup (ee_alpn f22_ee) (cl_settings f22_client) = Some [1; 2; 3] /\ st_local st = [].
Proof. eexists. split; [vm_compute; reflexivity|]. split; reflexivity. Qed.

(* ---------- alps_local end to end (fixed code): bytes of the server's EncryptedExtensions in, the server's decoded view out ---------- *)
Theorem alps_local_end_to_end (fin : bytes -> bytes) c data m st v tr certs :
  ee_unmarshal data = Ok (Some m) -> read_server_parameters true c m = Ok st -> ee_cp m <> 0 ->
  lookup (ee_alpn m) (cl_settings c) = Some v -> blen v + 4 < 65536 ->
  exists msg, send_client_ee st = Ok [msg] /\
    client_flight fin tr st certs =
      Ok ([msg] ++ certs ++ [finished_msg fin (tr ++ concat [msg] ++ concat certs)], tr ++ concat [msg] ++ concat certs) /\
    server_finish fin tr true (length certs) ([msg] ++ certs ++ [finished_msg fin (tr ++ concat [msg] ++ concat certs)])
      = Some (Some (ee_cp m, v)).
Proof.
  intros Eu Er Hcp Hl Hv.
  destruct (alps_local_fixed c m st v Er Hcp Hl) as (Hloc & Hc & _).
  pose proof (ee_unmarshal_cp data m Eu) as Hd. destruct Hd as [H0|Hd]; [contradiction|].
  rewrite <- Hc in Hd. rewrite <- Hloc in Hv.
  destruct (send_client_ee_decodes st Hd Hv) as (msg & Es & _ & _).
  destruct (client_flight_accepted fin tr st certs (or_intror Hd) Hv) as (ee & Es' & Ef & Ea).
  rewrite Es in Es'. injection Es' as <-. exists msg. split; [exact Es|]. split; [exact Ef|].
  assert (Hne : (st_cp st =? 0) = false) by (destruct Hd as [-> | ->]; reflexivity).
  rewrite Hne in Ea. cbn [negb] in Ea. rewrite Ea, Hc, Hloc. reflexivity.
Qed.

(* when nothing is configured for the negotiated protocol the client still answers, with empty settings *)
Lemma alps_local_unconfigured c m st :
  read_server_parameters true c m = Ok st -> ee_cp m <> 0 -> lookup (ee_alpn m) (cl_settings c) = None -> st_local st = [] /\ st_cp st = ee_cp m.
Proof.
  unfold read_server_parameters, utls_read_server_parameters. intros E Hcp Hl.
  destruct (Negotiate.check_alpn (cl_offered c) (ee_alpn m)); cbn [negb] in E; [|discriminate].
  destruct (N.eqb_spec (ee_cp m) 0) as [E0|_]; [contradiction|]. cbn [negb] in E.
  destruct (cl_vers c <? V13); [discriminate|]. destruct (is_empty (ee_alpn m)); [discriminate|].
  rewrite Hl in E. cbn [bind] in E. destruct (ee_quic m); [discriminate|]. destruct (ee_early m); [discriminate|].
  injection E as <-. auto.
Qed.

(* without ALPS from the server nothing is stored and nothing is sent *)
Lemma no_alps_no_answer fixed c m st : read_server_parameters fixed c m = Ok st -> ee_cp m = 0 -> st_cp st = 0 /\ send_client_ee st = Ok [].
Proof.
  unfold read_server_parameters, utls_read_server_parameters. intros E H0. rewrite H0 in E. cbn [N.eqb negb bind] in E.
  destruct (Negotiate.check_alpn (cl_offered c) (ee_alpn m)); cbn [negb] in E; [|discriminate].
  destruct (ee_quic m); [discriminate|]. destruct (ee_early m); [discriminate|]. injection E as <-. split; reflexivity.
Qed.

(* bytes-level alps_reject *)
Theorem client_read_ee_reject fixed c data m :
  ee_unmarshal data = Ok (Some m) -> ee_cp m <> 0 -> cl_vers c < V13 \/ ee_alpn m = [] ->
  client_read_ee fixed c data = Err a_unsupported_extension \/ client_read_ee fixed c data = Err a_no_application_protocol.
Proof. intros Eu Hcp H. unfold client_read_ee. rewrite Eu. cbn [bind]. now apply rsp_reject. Qed.

(* the client's EncryptedExtensions is the FIRST message of its second flight, before any Certificate / CertificateVerify *)
Theorem client_ee_first (fin : bytes -> bytes) tr st certs m sent tr2 :
  send_client_ee st = Ok [m] -> client_flight fin tr st certs = Ok (sent, tr2) ->
  sent = m :: certs ++ [finished_msg fin tr2] /\ tr2 = tr ++ m ++ concat certs.
Proof.
  intros Es Ef. destruct (client_flight_transcript fin tr st certs sent tr2 [m] Es Ef) as [-> ->].
  cbn [concat app]. rewrite app_nil_r. split; reflexivity.
Qed.
(* resumption makes no difference *)
Lemma client_read_ee_conn_psk psk fixed c data : client_read_ee_conn psk fixed c data = client_read_ee fixed c data.
Proof. reflexivity. Qed.

(* Lemmas about Model/Wire.v: lengths of encodings and reader/encoder round trips. *)
From UV Require Import Base.Common Model.Wire.
From Coq Require Import ZifyBool ZifyNat ZifyN.
Ltac Zify.zify_post_hook ::= Z.div_mod_to_equations.

Arguments N.modulo : simpl never.
Arguments N.div : simpl never.
Arguments N.mul : simpl never.
Arguments N.add : simpl never.
Arguments N.sub : simpl never.

(* ---- lengths ---- *)
Lemma blen_nil : blen [] = 0. Proof. reflexivity. Qed.
Lemma blen_cons x (l : bytes) : blen (x :: l) = 1 + blen l.
Proof. unfold blen. cbn [length]. lia. Qed.
Lemma blen_app (a b : bytes) : blen (a ++ b) = blen a + blen b.
Proof. unfold blen. rewrite app_length. lia. Qed.
Lemma blen_enc_u8 x : blen (enc_u8 x) = 1. Proof. reflexivity. Qed.
Lemma blen_enc_u16 x : blen (enc_u16 x) = 2. Proof. reflexivity. Qed.
Lemma blen_enc_u24 x : blen (enc_u24 x) = 3. Proof. reflexivity. Qed.
Lemma blen_enc_u32 x : blen (enc_u32 x) = 4. Proof. reflexivity. Qed.
Lemma blen_zbytes n : blen (zbytes n) = N.of_nat n.
Proof. induction n as [|n IH]; [reflexivity|]. cbn [zbytes]. rewrite blen_cons, IH. lia. Qed.
Lemma length_zbytes n : length (zbytes n) = n.
Proof. induction n as [|n IH]; [reflexivity|]. cbn [zbytes length]. now rewrite IH. Qed.
Lemma blen_enc_u8lp b : blen (enc_u8lp b) = 1 + blen b.
Proof. unfold enc_u8lp. now rewrite blen_app, blen_enc_u8. Qed.
Lemma blen_enc_u16lp b : blen (enc_u16lp b) = 2 + blen b.
Proof. unfold enc_u16lp. now rewrite blen_app, blen_enc_u16. Qed.
Lemma blen_enc_u24lp b : blen (enc_u24lp b) = 3 + blen b.
Proof. unfold enc_u24lp. now rewrite blen_app, blen_enc_u24. Qed.

(* every `for x := range l { write f(x) }` loop: total size is the sum of the element sizes *)
Lemma blen_flat_map {A} (f : A -> bytes) (l : list A) :
  blen (flat_map f l) = sum_map (fun x => blen (f x)) l.
Proof.
  induction l as [|x l IH]; [reflexivity|].
  cbn [flat_map sum_map]. now rewrite blen_app, IH.
Qed.
Lemma sum_map_ext {A} (f g : A -> N) l : (forall x, f x = g x) -> sum_map f l = sum_map g l.
Proof. intros H. induction l as [|x l IH]; [reflexivity|]. cbn [sum_map]. now rewrite H, IH. Qed.
Lemma sum_map_const {A} (c : N) (l : list A) : sum_map (fun _ => c) l = c * N.of_nat (length l).
Proof. induction l as [|x l IH]; [cbn; lia|]. cbn [sum_map length]. rewrite IH. lia. Qed.
Lemma blen_flat_u16 (l : list N) : blen (flat_map enc_u16 l) = 2 * blen l.
Proof. rewrite blen_flat_map. unfold blen. rewrite (sum_map_const 2). reflexivity. Qed.

(* ---- fixed-width readers invert the encoders ---- *)
Lemma read_enc_u8 x r : x < 256 -> read_u8 (enc_u8 x ++ r) = Some (x, r).
Proof. intros H. cbn. rewrite N.mod_small by lia. reflexivity. Qed.
Lemma read_enc_u16 x r : x < 65536 -> read_u16 (enc_u16 x ++ r) = Some (x, r).
Proof. intros H. cbn. f_equal. f_equal. lia. Qed.
Lemma read_enc_u24 x r : x < 16777216 -> read_u24 (enc_u24 x ++ r) = Some (x, r).
Proof. intros H. cbn. f_equal. f_equal. lia. Qed.
Lemma read_enc_u32 x r : x < 4294967296 -> read_u32 (enc_u32 x ++ r) = Some (x, r).
Proof. intros H. cbn. f_equal. f_equal. lia. Qed.

Lemma read_bytes_app b r : read_bytes (blen b) (b ++ r) = Some (b, r).
Proof.
  unfold read_bytes. rewrite blen_app.
  destruct (blen b <=? blen b + blen r) eqn:E; [|lia].
  unfold blen. rewrite Nat2N.id.
  rewrite firstn_app, skipn_app, Nat.sub_diag, firstn_all, skipn_all. cbn. now rewrite app_nil_r.
Qed.
Lemma read_bytes_blen n s a r : read_bytes n s = Some (a, r) -> blen a = n /\ s = a ++ r.
Proof.
  unfold read_bytes. destruct (n <=? blen s) eqn:E; [|discriminate].
  intros H. inversion H; subst. split.
  - unfold blen in *. rewrite firstn_length. lia.
  - now rewrite firstn_skipn.
Qed.

(* ---- length-prefixed vectors: the prefix parses back to exactly the content ---- *)
Lemma read_enc_u8lp b r : blen b < 256 -> read_u8lp (enc_u8lp b ++ r) = Some (b, r).
Proof.
  intros H. unfold read_u8lp, enc_u8lp. rewrite <- app_assoc, read_enc_u8 by exact H.
  apply read_bytes_app.
Qed.
Lemma read_enc_u16lp b r : blen b < 65536 -> read_u16lp (enc_u16lp b ++ r) = Some (b, r).
Proof.
  intros H. unfold read_u16lp, enc_u16lp. rewrite <- app_assoc, read_enc_u16 by exact H.
  apply read_bytes_app.
Qed.
Lemma read_enc_u24lp b r : blen b < 16777216 -> read_u24lp (enc_u24lp b ++ r) = Some (b, r).
Proof.
  intros H. unfold read_u24lp, enc_u24lp. rewrite <- app_assoc, read_enc_u24 by exact H.
  apply read_bytes_app.
Qed.
Lemma read_enc_u8lp_nil b : blen b < 256 -> read_u8lp (enc_u8lp b) = Some (b, []).
Proof. intros H. rewrite <- (app_nil_r (enc_u8lp b)). now apply read_enc_u8lp. Qed.
Lemma read_enc_u16lp_nil b : blen b < 65536 -> read_u16lp (enc_u16lp b) = Some (b, []).
Proof. intros H. rewrite <- (app_nil_r (enc_u16lp b)). now apply read_enc_u16lp. Qed.

(* ---- loops ---- *)
Definition all_u16 (l : list N) : bool := forallb (fun x => x <? 65536) l.

Lemma read_u16s_flat l : all_u16 l = true -> read_u16s (flat_map enc_u16 l) = Some l.
Proof.
  induction l as [|x l IH]; [reflexivity|].
  cbn [all_u16 forallb]. intros H. apply andb_true_iff in H. destruct H as [Hx Hl].
  cbn [flat_map]. cbn [enc_u16 app read_u16s]. fold (all_u16 l) in Hl. rewrite (IH Hl).
  f_equal. f_equal. lia.
Qed.

Lemma empty_false_iff (s : bytes) : empty s = false <-> blen s <> 0.
Proof.
  destruct s as [|x s]; cbn [empty].
  - rewrite blen_nil. split; [discriminate|congruence].
  - rewrite blen_cons. split; [lia|reflexivity].
Qed.
Lemma empty_true_iff (s : bytes) : empty s = true <-> s = [].
Proof. destruct s; cbn; split; congruence. Qed.

Definition all_u8lp (nonempty : bool) (ps : list bytes) : bool :=
  forallb (fun p => (blen p <? 256) && (negb nonempty || negb (empty p))) ps.

Lemma read_u8lps_flat ne ps fuel :
  all_u8lp ne ps = true -> (length (flat_map enc_u8lp ps) <= fuel)%nat ->
  read_u8lps ne fuel (flat_map enc_u8lp ps) = Some ps.
Proof.
  revert fuel. induction ps as [|p ps IH]; intros fuel Hall Hfuel.
  - destruct fuel; reflexivity.
  - cbn [all_u8lp forallb] in Hall. apply andb_true_iff in Hall. destruct Hall as [Hp Hps].
    apply andb_true_iff in Hp. destruct Hp as [Hlen Hne].
    cbn [flat_map] in *. rewrite app_length in Hfuel.
    assert (Hl1 : (1 <= length (enc_u8lp p))%nat) by (unfold enc_u8lp, enc_u8; cbn; lia).
    destruct fuel as [|fuel]; [lia|].
    remember (enc_u8lp p ++ flat_map enc_u8lp ps) as s eqn:Hs.
    destruct s as [|s0 s'].
    { exfalso. apply (f_equal (@length N)) in Hs. rewrite app_length in Hs. cbn in Hs. lia. }
    cbn [read_u8lps]. rewrite Hs. rewrite read_enc_u8lp by lia.
    assert (Hgo : ne && empty p = false) by (destruct ne, (empty p); cbn in *; congruence).
    rewrite Hgo. fold (all_u8lp ne ps) in Hps. rewrite IH; [reflexivity|exact Hps|lia].
Qed.

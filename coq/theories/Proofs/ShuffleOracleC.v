(* C03 item (c) for the shipped parrots: the shuffle-aware oracle, applied with the TABLE entry, accepts the hello built from
   every rearrangement ShuffleChromeTLSExtensions can produce - for every Config in the class and every randomness.
   (Proofs/ShuffleOracleP.shuffle_match_sound + Proofs/PresetOkC.parrot_matches.)  No axioms. *)
From Coq Require Import Permutation.
From UV Require Import Base.Common Model.Wire Model.Ext Model.ExtSpec Model.Strict Proofs.StrictP.
From UV Require Import Model.Marshal Model.ChMarshal Model.Shuffle.
From UV Require Model.Grease Gen.Parrots Proofs.PresetP Proofs.ComposeP Proofs.ComposeC03.
From UV Require Import Model.Preset Model.ParrotSpec Model.PresetOk Model.ParrotNeg.
From UV Require Import Proofs.PresetOkS Proofs.PresetOkC Proofs.ParrotNegS Proofs.ShuffleOracleP.
From Coq Require Import ZifyBool ZifyNat ZifyN.

Definition oracle_static (sp : spec) : bool :=
  contigb (sp_exts sp)
  && nodup_N (map sext_id (filter nonfixed (sp_exts sp)))
  && forallb (fun s => negb (fixed_id (sext_id s))) (filter nonfixed (sp_exts sp))
  && (writers s_versions (sp_exts sp) <=? 1)%nat.

Theorem parrots_oracle_static : forallb (fun p => oracle_static (p_spec p)) Parrots.all = true.
Proof. vm_compute. reflexivity. Qed.

Lemma nodup_N_NoDup l : nodup_N l = true <-> NoDup l.
Proof.
  induction l as [|x l IH]; [split; [constructor|reflexivity]|]. cbn [nodup_N]. rewrite andb_true_iff, IH, negb_true_iff. split.
  - intros [H1 H2]. constructor; [|exact H2]. intros Hin. apply mem_N_In in Hin. congruence.
  - intros H. inversion H as [|? ? Hn Hd]; subst. split; [|exact Hd]. rewrite <- not_true_iff_false. intros Hm. apply Hn. apply mem_N_In. exact Hm.
Qed.

Lemma spec_versions_vals l : spec_versions l = match vals s_versions l with [] => None | v :: _ => Some v end.
Proof.
  unfold spec_versions, vals. induction l as [|s r IH]; [reflexivity|]. cbn [find flat_map].
  destruct s as [e|]; [|cbn [s_versions app]; exact IH]. destruct e; cbn [s_versions app]; try exact IH. reflexivity.
Qed.

Lemma spec_max_perm sp exts' : Permutation (sp_exts sp) exts' -> (writers s_versions (sp_exts sp) <= 1)%nat ->
  spec_max (with_exts sp exts') = spec_max sp.
Proof.
  intros P H. unfold spec_max. cbn [with_exts sp_min sp_max sp_exts]. rewrite !spec_versions_vals.
  rewrite (perm_short _ _ (vals_perm s_versions _ _ P)) by (rewrite vals_length; exact H). reflexivity.
Qed.

Theorem parrot_shuffle_oracle p swaps exts' : In p Parrots.all ->
  shuffle fixedb swaps (sp_exts (p_spec p)) = Ok exts' ->
  forall c fr h es, parrot_class c -> apply_preset (with_exts (p_spec p) exts') c fr = Ok (h, es) ->
  exists raw a, build (with_exts (p_spec p) exts') c fr = Ok raw /\ parse_hello raw = Some a
    /\ ast_matches_specb a {| p_name := p_name p; p_spec := p_spec p; p_shuffles := true |} c = true.
Proof.
  intros Hin Hsh c fr h es Hc Ha.
  destruct (parrot_matches p swaps exts' Hin Hsh c fr h es Hc Ha) as (raw & a & Hb & Hp & Hmatch).
  exists raw, a. split; [exact Hb|]. split; [exact Hp|].
  pose proof parrots_oracle_static as T. rewrite forallb_forall in T. specialize (T p Hin). unfold oracle_static in T.
  rewrite !andb_true_iff in T. destruct T as [[[T1 T2] T3] T4]. apply Nat.leb_le in T4.
  destruct (PresetP.shuffle_ok _ _ _ _ Hsh) as [P K].
  (* the parsed extension list has pairwise distinct types *)
  destruct (parrot_valid p swaps exts' Hin Hsh c fr h es Hc Ha) as (raw' & Hb' & Hm & _). rewrite Hb in Hb'. inversion Hb'; subst raw'.
  destruct (parrot_output p swaps exts' Hin Hsh c fr h es Hc Ha) as (Hwf & _ & _).
  destruct (ComposeP.marshal_shape _ _ _ _ _ Hwf Hm) as (present & Hraw & Hok & Hnd & _).
  rewrite Hraw, (ComposeC03.parse_hello_layout _ Hok) in Hp. inversion Hp; subst a. clear Hp.
  unfold ast_matches_specb in *. cbn [p_spec p_shuffles ComposeC03.to_ast a_vers a_random a_sid a_suites a_comp a_exts ComposeP.mk_ast
    c_vers c_random c_sid c_suites c_comp c_exts] in *.
  rewrite (spec_max_perm _ _ P T4) in Hmatch. cbn [with_exts sp_suites sp_comp sp_exts] in Hmatch.
  rewrite !andb_true_iff in Hmatch. destruct Hmatch as [[[[[M1 M2] M3] M4] M5] M6].
  rewrite M1, M2, M3, M4, M5. cbn [andb].
  apply (shuffle_match_sound c (sp_exts (p_spec p)) exts' present); try assumption.
  - apply nodup_N_NoDup. exact T2.
  - intros s Hs. rewrite forallb_forall in T3. specialize (T3 s Hs). apply negb_true_iff in T3. exact T3.
  - apply nodup_N_NoDup. apply NoDup_filter. exact Hnd.
Qed.

(* The version and downgrade-sentinel statements of C13 on the path where the ClientHello offers a cached
   TLS <= 1.2 session (resumed by the server or not). *)
From UV Require Import Base.Common Model.Negotiate Model.NegotiateSess Proofs.NegotiateP Proofs.NegotiateVersP.
From Coq Require Import ZifyBool ZifyNat ZifyN.

(* conservative extension: without an offered session the decision is client_run_gen *)
Lemma sess_none e v ems fl : client_run_sess e v None ems fl = client_run_gen e v fl.
Proof. reflexivity. Qed.

Lemma run12_sess_vers e v vers h fl sess ems st :
  run12_sess e v vers h fl sess ems = Complete st -> cs_vers st = vers.
Proof.
  unfold run12_sess. destruct (resumes v sess h).
  - destruct (prefix12 e v h); [discriminate|]. destruct sess as [s|]; [|discriminate].
    destruct (s_vers s =? vers); [|discriminate]. cbn [negb].
    destruct (s_suite s =? h_suite h); [|discriminate]. cbn [negb].
    destruct (Bool.eqb (s_ems s) ems); [|discriminate]. cbn [negb].
    destruct (f_crypto_ok fl); [|discriminate]. cbn [negb].
    intros H; inversion H; reflexivity.
  - intros H. apply run12_inv in H. exact (a12_vers _ _ _ _ _ _ H).
Qed.

(* a session is only resumed at its own version, with its own suite *)
Lemma run12_sess_resumed e v vers h fl s ems st :
  resumes v (Some s) h = true -> run12_sess e v vers h fl (Some s) ems = Complete st ->
  s_vers s = vers /\ s_suite s = cs_suite st /\ In (cs_suite st) (cv_suites v) /\ s_ems s = ems.
Proof.
  unfold run12_sess. intros R. rewrite R.
  destruct (prefix12 e v h) eqn:P; [discriminate|].
  destruct (s_vers s =? vers) eqn:E1; [|discriminate]. cbn [negb].
  destruct (s_suite s =? h_suite h) eqn:E2; [|discriminate]. cbn [negb].
  destruct (Bool.eqb (s_ems s) ems) eqn:E3; [|discriminate]. cbn [negb].
  destruct (f_crypto_ok fl); [|discriminate]. cbn [negb].
  intros H; inversion H; subst st; clear H. cbn [cs_suite].
  apply N.eqb_eq in E1, E2. apply Bool.eqb_prop in E3.
  unfold prefix12 in P.
  destruct (memN (h_suite h) (cv_suites v) && memN (h_suite h) (e_impl12 e)) eqn:M; [|discriminate].
  apply andb_true_iff in M. destruct M as [M _]. apply memN_In in M. repeat split; auto.
Qed.

Lemma sess_inv e v sess ems fl st :
  client_run_sess e v sess ems fl = Complete st ->
  exists vers, pick_version v (first_hello fl) = Some vers
    /\ version_offered e v vers = true
    /\ canary_abort e v vers (first_hello fl) = false
    /\ cs_vers st = vers.
Proof.
  unfold client_run_sess. fold (first_hello fl).
  destruct (pick_version v (first_hello fl)) as [vers|] eqn:E1; [|discriminate].
  destruct (version_offered e v vers) eqn:E2; [|discriminate]. cbn [negb].
  destruct (canary_abort e v vers (first_hello fl)) eqn:E3; [discriminate|].
  destruct (vers =? V13) eqn:E4; intros H; exists vers; repeat split; auto.
  - apply N.eqb_eq in E4. apply run13_inv in H. rewrite (a13_vers _ _ _ H). symmetry. exact E4.
  - eapply run12_sess_vers; eauto.
Qed.

Lemma sess_completed_version e v sess ems fl st :
  client_run_sess e v sess ems fl = Complete st ->
  In (cs_vers st) (client_versions v) /\ version_offered e v (cs_vers st) = true.
Proof.
  intros H. apply sess_inv in H. destruct H as (vers & P & O & _ & E). subst vers.
  split; [eapply pick_version_in; eauto | exact O].
Qed.

Lemma version_sess_fixed v specmin w sess ems fl st :
  versions_synced v specmin w = true ->
  client_run_sess env_fixed v sess ems fl = Complete st -> In (cs_vers st) (advertised specmin w).
Proof.
  intros Hs Hr. destruct (sess_completed_version _ _ _ _ _ _ Hr) as [H1 H2].
  eapply version_in_advertised_fixed; eauto.
Qed.

Lemma canary_core e v vers h :
  offered_max e v = V13 -> In vers (client_versions v) ->
  h_tail h = 1 \/ h_tail h = 2 -> canary_abort e v vers h = false -> vers = V13.
Proof.
  intros Hm P Ht Cn. apply client_versions_sub in P.
  destruct (N.eq_dec vers V13) as [E|E]; [exact E|]. exfalso.
  unfold canary_abort in Cn. rewrite Hm in Cn.
  assert (Hle : (vers <=? V12) = true).
  { destruct P as [P|[P|[P|[P|[]]]]]; subst vers; try reflexivity. congruence. }
  rewrite Hle in Cn. cbn in Cn.
  destruct Ht as [Ht|Ht]; rewrite Ht in Cn; cbn in Cn; discriminate.
Qed.

Lemma canary_sess_gen e v sess ems fl st :
  offered_max e v = V13 ->
  h_tail (first_hello fl) = 1 \/ h_tail (first_hello fl) = 2 ->
  client_run_sess e v sess ems fl = Complete st -> cs_vers st = V13.
Proof.
  intros Hm Ht H. apply sess_inv in H. destruct H as (vers & P & _ & Cn & E). rewrite E.
  eapply canary_core; eauto. eapply pick_version_in; eauto.
Qed.

Lemma canary_sess_config e v sess ems fl st :
  max_version v = V13 ->
  h_tail (first_hello fl) = 1 \/ h_tail (first_hello fl) = 2 ->
  client_run_sess e v sess ems fl = Complete st -> cs_vers st = V13.
Proof. intros Hm. apply canary_sess_gen. apply offered_max_of_config. exact Hm. Qed.

Lemma canary_sess_fixed v specmin w sess ems fl st :
  versions_synced v specmin w = true -> offers13 w = true ->
  h_tail (first_hello fl) = 1 \/ h_tail (first_hello fl) = 2 ->
  client_run_sess env_fixed v sess ems fl = Complete st -> cs_vers st = V13.
Proof.
  intros Hs Ho Ht Hr.
  unfold offers13 in Ho. apply andb_true_iff in Ho. destruct Ho as [Ho1 Ho2].
  unfold versions_synced in Hs. rewrite Ho1 in Hs. apply andb_true_iff in Hs. destruct Hs as [Hs _].
  apply list_eqN_eq in Hs. apply memN_In in Ho2. rewrite <- Hs in Ho2.
  eapply canary_sess_gen; eauto. apply offered_max_of_hello. exact Ho2.
Qed.

(* in particular: whatever version the cached session has (even the very version the server picks), a
   sentinel-carrying TLS <= 1.2 hello is never completed by a client whose hello lists 1.3 *)
Lemma canary_sess_same_version v specmin w s ems fl :
  versions_synced v specmin w = true -> offers13 w = true ->
  h_tail (first_hello fl) = 1 \/ h_tail (first_hello fl) = 2 ->
  h_sv (first_hello fl) = 0 -> h_vers (first_hello fl) = s_vers s -> s_vers s <> V13 ->
  exists a, client_run_sess env_fixed v (Some s) ems fl = Abort a.
Proof.
  intros Hs Ho Ht Hsv Hv Hn.
  destruct (client_run_sess env_fixed v (Some s) ems fl) as [st|a] eqn:E; [|exists a; reflexivity].
  exfalso. pose proof (canary_sess_fixed _ _ _ _ _ _ _ Hs Ho Ht E) as K.
  apply sess_inv in E. destruct E as (vers & P & _ & _ & Ev).
  apply pick_version_peer in P. rewrite Hsv in P. cbn in P. congruence.
Qed.

(* C12 on the resumption path: the suite of a completed handshake - resumed or not - is one the hello lists *)
Lemma run12_sess_suite e v vers h fl sess ems st :
  run12_sess e v vers h fl sess ems = Complete st -> In (cs_suite st) (cv_suites v).
Proof.
  unfold run12_sess. destruct (resumes v sess h) eqn:R.
  - destruct sess as [s|]; [|discriminate R]. intros H.
    assert (K : run12_sess e v vers h fl (Some s) ems = Complete st).
    { unfold run12_sess. rewrite R. exact H. }
    destruct (run12_sess_resumed _ _ _ _ _ _ _ _ R K) as (_ & _ & I & _). exact I.
  - intros H. apply run12_inv in H. rewrite (a12_suite _ _ _ _ _ _ H). exact (a12_suite_offered _ _ _ _ _ _ H).
Qed.

Lemma sess_suite_offered e v sess ems fl st :
  client_run_sess e v sess ems fl = Complete st -> In (cs_suite st) (cv_suites v).
Proof.
  unfold client_run_sess. fold (first_hello fl).
  destruct (pick_version v (first_hello fl)) as [vers|]; [|discriminate].
  destruct (version_offered e v vers); [|discriminate]. cbn [negb].
  destruct (canary_abort e v vers (first_hello fl)); [discriminate|].
  destruct (vers =? V13).
  - intros H. apply run13_inv in H. rewrite (a13_suite _ _ _ H). exact (a13_suite_offered _ _ _ H).
  - apply run12_sess_suite.
Qed.

Lemma wire_suite_sess e v w sess ems fl st :
  synced v w = true -> client_run_sess e v sess ems fl = Complete st -> In (cs_suite st) (w_suites w).
Proof.
  intros Hs Hr. destruct (synced_inv _ _ Hs) as (S1 & _). rewrite <- S1. eapply sess_suite_offered; eauto.
Qed.

(* the same two statements under NegotiateVersP.versions_ok (hellos without a supported_versions extension whose spec
   declares a higher TLSVersMax: Hello.SupportedVersions = accepted versions up to legacy_version) *)
Lemma version_sess_ok v specmin w sess ems fl st :
  versions_ok v specmin w = true ->
  client_run_sess env_fixed v sess ems fl = Complete st -> In (cs_vers st) (advertised specmin w).
Proof.
  unfold versions_ok. intros H Hrun. apply orb_true_iff in H. destruct H as [H|H].
  - exact (version_sess_fixed v specmin w sess ems fl st H Hrun).
  - unfold versions_synced_nosv in H. rewrite !andb_true_iff in H. destruct H as [[[Hno Heq] Hne] Hmin].
    apply negb_true_iff in Hno. apply list_eqN_eq in Heq.
    destruct (sess_completed_version _ _ _ _ _ _ Hrun) as [Hin Hoff].
    unfold version_offered in Hoff. cbn [e_fix_version env_fixed] in Hoff.
    destruct (cv_sv v) as [|x0 xs] eqn:Esv; [discriminate|].
    apply memN_In in Hoff. rewrite Heq in Hoff. apply filter_In in Hoff. destruct Hoff as [_ Hle].
    unfold advertised. rewrite Hno. apply filter_In. split; [apply (client_versions_sub v); exact Hin|].
    unfold client_versions in Hin. apply filter_In in Hin. destruct Hin as [_ Hf].
    unfold V12 in *. destruct (cv_vmin v =? 0) eqn:E0; lia.
Qed.

Lemma canary_sess_ok v specmin w sess ems fl st :
  versions_ok v specmin w = true -> offers13 w = true ->
  h_tail (first_hello fl) = 1 \/ h_tail (first_hello fl) = 2 ->
  client_run_sess env_fixed v sess ems fl = Complete st -> cs_vers st = V13.
Proof.
  unfold versions_ok. intros H Ho Ht Hrun. apply orb_true_iff in H. destruct H as [H|H].
  - exact (canary_sess_fixed v specmin w sess ems fl st H Ho Ht Hrun).
  - unfold versions_synced_nosv in H. rewrite !andb_true_iff in H. destruct H as [[[Hno _] _] _].
    unfold offers13 in Ho. apply andb_true_iff in Ho. destruct Ho as [Ho _]. rewrite Ho in Hno. discriminate.
Qed.

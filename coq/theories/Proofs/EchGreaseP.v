(* C16 — proofs about Model/EchGrease.v *)
From UV Require Import Base.Common Model.EchGrease.
From Coq Require Import ZifyBool ZifyNat ZifyN.
Open Scope N_scope.

(* ---------- byte helpers ---------- *)
Lemma be16_value x : x < 65536 -> hi8 x * 256 + lo8 x = x.
Proof.
  intros H. unfold hi8, lo8.
  rewrite (N.mod_small (x / 256) 256) by (apply N.div_lt_upper_bound; lia).
  pose proof (N.div_mod x 256). lia.
Qed.

Lemma rd16_be16 x r : x < 65536 -> rd16 (be16 x ++ r) = Some (x, r).
Proof. intros H. unfold be16. cbn [app rd16]. rewrite be16_value by exact H. reflexivity. Qed.

Lemma firstn_app_exact {A} (x r : list A) : firstn (length x) (x ++ r) = x.
Proof. induction x as [|a x IH]; simpl; [destruct r; reflexivity | rewrite IH; reflexivity]. Qed.
Lemma skipn_app_exact {A} (x r : list A) : skipn (length x) (x ++ r) = r.
Proof. induction x as [|a x IH]; simpl; [reflexivity | exact IH]. Qed.

Lemma rd_vec16_ok x r : nlen x < 65536 -> rd_vec16 (be16 (nlen x) ++ x ++ r) = Some (x, r).
Proof.
  intros H. unfold rd_vec16. rewrite rd16_be16 by exact H.
  assert (Hl : (N.of_nat (length (x ++ r)) <? nlen x) = false).
  { unfold nlen. rewrite app_length. lia. }
  rewrite Hl. unfold nlen. rewrite Nat2N.id, firstn_app_exact, skipn_app_exact. reflexivity.
Qed.

(* the extension layout of the property, as a function of the five fields *)
Definition outer_body (kdf aead id : N) (enc pl : bytes) : bytes :=
  [0] ++ be16 kdf ++ be16 aead ++ [id] ++ be16 (nlen enc) ++ enc ++ be16 (nlen pl) ++ pl.
Definition outer_ext (kdf aead id : N) (enc pl : bytes) : bytes :=
  be16 utlsExtensionECH ++ be16 (nlen (outer_body kdf aead id enc pl)) ++ outer_body kdf aead id enc pl.

Lemma outer_body_len kdf aead id enc pl : nlen (outer_body kdf aead id enc pl) = 10 + nlen enc + nlen pl.
Proof. unfold outer_body, nlen, be16. repeat (rewrite app_length; cbn [length]). lia. Qed.

Lemma parse_outer_body kdf aead id enc pl :
  kdf < 65536 -> aead < 65536 -> nlen enc < 65536 -> nlen pl < 65536 -> pl <> [] ->
  parse_outer (outer_body kdf aead id enc pl) = Some (mkOuter kdf aead id enc pl).
Proof.
  intros Hk Ha He Hp Hne. unfold outer_body, parse_outer. cbn [app]. cbn [N.eqb negb].
  rewrite rd16_be16 by exact Hk. rewrite rd16_be16 by exact Ha. cbn [app].
  rewrite rd_vec16_ok by exact He.
  replace (be16 (nlen pl) ++ pl) with (be16 (nlen pl) ++ pl ++ []) by (rewrite app_nil_r; reflexivity).
  rewrite rd_vec16_ok by exact Hp. destruct pl; [congruence | reflexivity].
Qed.

Lemma parse_outer_ext kdf aead id enc pl :
  nlen enc + nlen pl < 65526 ->
  parse_ext (outer_ext kdf aead id enc pl) = Some (utlsExtensionECH, outer_body kdf aead id enc pl).
Proof.
  intros H. unfold outer_ext, parse_ext. rewrite rd16_be16 by (vm_compute; reflexivity).
  replace (be16 (nlen (outer_body kdf aead id enc pl)) ++ outer_body kdf aead id enc pl)
    with (be16 (nlen (outer_body kdf aead id enc pl)) ++ outer_body kdf aead id enc pl ++ []) by (rewrite app_nil_r; reflexivity).
  rewrite rd_vec16_ok by (rewrite outer_body_len; lia). reflexivity.
Qed.

(* what Read writes is exactly that layout *)
Lemma ext_bytes_layout g :
  ext_bytes g = outer_ext (fst (cipherSuite g)) (snd (cipherSuite g)) (configId g) (EncapsulatedKey g) (payload g).
Proof.
  unfold ext_bytes, outer_ext. rewrite outer_body_len. unfold ext_len_of, outer_body, be16. cbn [app].
  replace (2 + 2 + 1 + 4 + 1 + 2 + nlen (EncapsulatedKey g) + 2 + nlen (payload g) - 4)
    with (10 + nlen (EncapsulatedKey g) + nlen (payload g)) by lia.
  unfold OuterClientHello. reflexivity.
Qed.

(* ---------- well-formedness ---------- *)
Definition valid_aead (a : N) : Prop := a = AEAD_AES_128_GCM \/ a = AEAD_AES_256_GCM \/ a = AEAD_ChaCha20Poly1305.

(* a template as the parrots carry it: nothing generated yet, candidate values in range *)
Record template_ok (g : grease) : Prop := {
  t_uninit : init_done g = false;
  t_no_key : EncapsulatedKey g = [];
  t_no_payload : payload g = [];
  t_suites : Forall (fun s => fst s < 65536 /\ valid_aead (snd s)) (CandidateCipherSuites g);
  t_lens : Forall (fun c => c + 16 < 65000) (CandidatePayloadLens g)
}.
(* the draws: picks are indices into the candidate lists, the generated key has 32 bytes (X25519), rand.Read fills its buffer *)
Record fresh_ok (g : grease) (f : fresh) : Prop := {
  f_suite_in : CandidateCipherSuites g <> [] -> f_suite_pick f < nlen (CandidateCipherSuites g);
  f_len_in : f_len_pick f < nlen (lens_or_default (CandidatePayloadLens g));
  f_enc_32 : nlen (f_enc f) = 32;
  f_rand_fills : forall n, nlen (f_rand f n) = n
}.

Lemma cipherLen_valid a m : valid_aead a -> cipherLen a m = Ok (m + 16).
Proof. intros [ -> | [ -> | -> ] ]; reflexivity. Qed.

Lemma is_nil_false {A} (l : list A) : l <> [] -> is_nil l = false.
Proof. destruct l; [congruence | reflexivity]. Qed.

Lemma nth_suite_in l i : i < nlen l -> In (nth_suite l i) l.
Proof. intros H. unfold nth_suite. apply nth_In. unfold nlen in H. lia. Qed.
Lemma nth_N_in l i : i < nlen l -> In (nth_N l i) l.
Proof. intros H. unfold nth_N. apply nth_In. unfold nlen in H. lia. Qed.

(* the suite and the payload length init chooses *)
Definition chosen_suite (g : grease) (f : fresh) : suite :=
  if is_nil (CandidateCipherSuites g) then (defaultHpkeKdf, defaultHpkeAead) else nth_suite (CandidateCipherSuites g) (f_suite_pick f).
Definition chosen_len (g : grease) (f : fresh) : N :=
  nth_N (lens_or_default (CandidatePayloadLens g)) (f_len_pick f).
Definition chosen_id (g : grease) (f : fresh) : N :=
  if is_nil (CandidateConfigIds g) then f_id_byte f else nth_N (CandidateConfigIds g) (f_id_pick f).

Lemma chosen_suite_ok g f : template_ok g -> fresh_ok g f ->
  In (chosen_suite g f) (candidates_or_default (CandidateCipherSuites g)) /\
  fst (chosen_suite g f) < 65536 /\ valid_aead (snd (chosen_suite g f)).
Proof.
  intros T F. unfold chosen_suite, candidates_or_default.
  destruct (CandidateCipherSuites g) as [|s l] eqn:E; cbn [is_nil].
  - split; [left; reflexivity|]. split; [vm_compute; reflexivity | left; reflexivity].
  - assert (Hin : In (nth_suite (s :: l) (f_suite_pick f)) (s :: l)).
    { apply nth_suite_in. rewrite <- E. apply (f_suite_in g f F). rewrite E. discriminate. }
    split; [exact Hin|]. pose proof (t_suites g T) as Hs. rewrite E, Forall_forall in Hs. exact (Hs _ Hin).
Qed.

Lemma chosen_len_ok g f : template_ok g -> fresh_ok g f ->
  In (chosen_len g f) (lens_or_default (CandidatePayloadLens g)) /\ chosen_len g f + 16 < 65000.
Proof.
  intros T F. unfold chosen_len.
  assert (Hin : In (nth_N (lens_or_default (CandidatePayloadLens g)) (f_len_pick f)) (lens_or_default (CandidatePayloadLens g))).
  { apply nth_N_in. exact (f_len_in g f F). }
  split; [exact Hin|]. revert Hin. generalize (nth_N (lens_or_default (CandidatePayloadLens g)) (f_len_pick f)). intros c Hin.
  unfold lens_or_default in Hin. destruct (CandidatePayloadLens g) as [|c0 l] eqn:E; cbn [is_nil] in Hin.
  - destruct Hin as [<-|[]]. lia.
  - pose proof (t_lens g T) as Hs. rewrite E, Forall_forall in Hs. exact (Hs _ Hin).
Qed.

(* init on a template: every generated field is the corresponding draw *)
Lemma init_template g f : template_ok g -> fresh_ok g f ->
  init g f = Ok (mkGrease (CandidateCipherSuites g) (chosen_suite g f) (CandidateConfigIds g) (chosen_id g f) (f_enc f)
                          (lens_or_default (CandidatePayloadLens g)) (f_rand f (chosen_len g f + 16)) true).
Proof.
  intros T F. destruct (chosen_suite_ok g f T F) as (_ & _ & Hv). unfold chosen_suite in Hv.
  unfold init, init_body, randomizePayload, chosen_suite, chosen_id, chosen_len, lens_or_default.
  rewrite (t_uninit g T), (t_no_key g T), (t_no_payload g T).
  cbn [is_nil payload CandidatePayloadLens cipherSuite CandidateCipherSuites CandidateConfigIds configId EncapsulatedKey init_done].
  rewrite (cipherLen_valid _ _ Hv). cbn [bind]. reflexivity.
Qed.

Theorem grease_wf g f buflen : template_ok g -> fresh_ok g f ->
  let cs := chosen_suite g f in let c := chosen_len g f in
  let pl := f_rand f (c + 16) in
  let e := outer_ext (fst cs) (snd cs) (chosen_id g f) (f_enc f) pl in
  nlen e <= buflen ->
  (exists g1, Read g f buflen = Ok (g1, e) /\ init_done g1 = true) /\
  In cs (candidates_or_default (CandidateCipherSuites g)) /\
  In c (lens_or_default (CandidatePayloadLens g)) /\
  nlen (f_enc f) = 32 /\ nlen pl = c + 16 /\
  parse_ext e = Some (utlsExtensionECH, outer_body (fst cs) (snd cs) (chosen_id g f) (f_enc f) pl) /\
  parse_outer (outer_body (fst cs) (snd cs) (chosen_id g f) (f_enc f) pl)
    = Some (mkOuter (fst cs) (snd cs) (chosen_id g f) (f_enc f) pl) /\
  wf_grease_ext (CandidateCipherSuites g) (CandidatePayloadLens g) e = true.
Proof.
  intros T F cs c pl e Hbuf.
  destruct (chosen_suite_ok g f T F) as (Hin & Hk & Hv).
  destruct (chosen_len_ok g f T F) as (Hlin & Hlen).
  pose proof (f_enc_32 g f F) as He. pose proof (f_rand_fills g f F (c + 16)) as Hp. fold pl in Hp.
  assert (Ha : snd cs < 65536) by (unfold cs; destruct Hv as [E|[E|E]]; rewrite E; vm_compute; reflexivity).
  assert (Hpe : parse_ext e = Some (utlsExtensionECH, outer_body (fst cs) (snd cs) (chosen_id g f) (f_enc f) pl)).
  { apply parse_outer_ext. fold c in Hlen. lia. }
  assert (Hne : pl <> []). { intros E. rewrite E in Hp. unfold nlen in Hp. cbn in Hp. lia. }
  assert (Hpo : parse_outer (outer_body (fst cs) (snd cs) (chosen_id g f) (f_enc f) pl)
                = Some (mkOuter (fst cs) (snd cs) (chosen_id g f) (f_enc f) pl)).
  { apply parse_outer_body; try assumption; fold c in Hlen; lia. }
  repeat split; try assumption.
  - eexists. split.
    + unfold Read. rewrite (init_template g f T F). cbn [bind].
      rewrite ext_bytes_layout. cbn [cipherSuite configId EncapsulatedKey payload].
      fold cs c pl e.
      assert (Hle : ext_len_of (mkGrease (CandidateCipherSuites g) cs (CandidateConfigIds g) (chosen_id g f) (f_enc f)
                                  (lens_or_default (CandidatePayloadLens g)) pl true) = nlen e).
      { unfold e, outer_ext, ext_len_of. cbn [EncapsulatedKey payload]. unfold nlen at 3. rewrite !app_length.
        fold (nlen (outer_body (fst cs) (snd cs) (chosen_id g f) (f_enc f) pl)). cbn [be16 length].
        pose proof (outer_body_len (fst cs) (snd cs) (chosen_id g f) (f_enc f) pl) as Hob. unfold nlen in *. lia. }
      rewrite Hle. destruct (buflen <? nlen e) eqn:Hlt; [lia | reflexivity].
    + reflexivity.
  - unfold wf_grease_ext. rewrite Hpe, Hpo. cbn [o_kdf o_aead o_enc o_payload]. rewrite N.eqb_refl. cbn [andb].
    rewrite He, N.eqb_refl.
    assert (H1 : existsb (suite_eqb (fst cs, snd cs)) (candidates_or_default (CandidateCipherSuites g)) = true).
    { apply existsb_exists. exists cs. split; [exact Hin|]. unfold suite_eqb. cbn. rewrite !N.eqb_refl. reflexivity. }
    assert (H2 : existsb (fun c0 => nlen pl =? c0 + 16) (lens_or_default (CandidatePayloadLens g)) = true).
    { apply existsb_exists. exists c. split; [exact Hlin|]. rewrite Hp. apply N.eqb_refl. }
    rewrite H1, H2. reflexivity.
Qed.

(* ---------- stability: the object never changes after the first Len/Read ---------- *)
Lemma init_marks_done g f g' : init g f = Ok g' -> init_done g' = true.
Proof.
  unfold init. destruct (init_done g) eqn:E.
  - intros H. injection H as <-. exact E.
  - destruct (init_body g f); cbn [bind]; intros H; try discriminate. injection H as <-. reflexivity.
Qed.

Lemma init_done_id g f : init_done g = true -> init g f = Ok g.
Proof. intros H. unfold init. rewrite H. reflexivity. Qed.

Lemma Read_state g f b g' e : Read g f b = Ok (g', e) -> init_done g' = true /\ e = ext_bytes g'.
Proof.
  unfold Read. destruct (init g f) as [g1| |] eqn:E; cbn [bind]; try discriminate.
  destruct (b <? ext_len_of g1); [discriminate|]. intros H. injection H as <- <-.
  split; [exact (init_marks_done g f g1 E) | reflexivity].
Qed.

Lemma reads_done g fs b es : init_done g = true -> reads g fs b = Ok es -> Forall (eq (ext_bytes g)) es.
Proof.
  revert es. induction fs as [|f fs IH]; intros es Hd H; cbn [reads] in H.
  - injection H as <-. constructor.
  - unfold Read in H. rewrite (init_done_id g f Hd) in H. cbn [bind] in H.
    destruct (b <? ext_len_of g); cbn [bind] in H; [discriminate|]. cbn [fst snd] in H.
    destruct (reads g fs b) as [rest| |] eqn:E; cbn [bind] in H; try discriminate.
    injection H as <-. constructor; [reflexivity | exact (IH rest Hd eq_refl)].
Qed.

Theorem grease_stable g f fs b e es : reads g (f :: fs) b = Ok (e :: es) -> Forall (eq e) es.
Proof.
  cbn [reads]. destruct (Read g f b) as [[g1 e1]| |] eqn:E; cbn [bind]; try discriminate. cbn [fst snd].
  destruct (reads g1 fs b) as [rest| |] eqn:E2; cbn [bind]; try discriminate.
  intros H. injection H as <- <-.
  destruct (Read_state g f b g1 e1 E) as [Hd ->]. exact (reads_done g1 fs b rest Hd E2).
Qed.

(* Len never disturbs it either, and reports the length of what Read writes *)
Theorem grease_len_consistent g f f' b g1 e : Read g f b = Ok (g1, e) -> Len g1 f' = Ok (g1, nlen e).
Proof.
  intros H. destruct (Read_state g f b g1 e H) as [Hd ->]. unfold Len. rewrite (init_done_id g1 f' Hd). cbn [bind].
  f_equal. f_equal. rewrite ext_bytes_layout. unfold outer_ext, ext_len_of. unfold nlen at 3. rewrite !app_length.
  cbn [be16 length].
  pose proof (outer_body_len (fst (cipherSuite g1)) (snd (cipherSuite g1)) (configId g1) (EncapsulatedKey g1) (payload g1)) as Hob.
  unfold nlen in *. lia.
Qed.

(* ---------- freshness: the generated fields are the draws of THIS init, nothing else ---------- *)
Theorem grease_fresh g f b g1 e : template_ok g -> fresh_ok g f -> Read g f b = Ok (g1, e) ->
  EncapsulatedKey g1 = f_enc f /\
  payload g1 = f_rand f (chosen_len g f + 16) /\
  configId g1 = chosen_id g f /\
  (CandidateConfigIds g = [] -> configId g1 = f_id_byte f).
Proof.
  intros T F H. unfold Read in H. rewrite (init_template g f T F) in H. cbn [bind] in H.
  match type of H with (if ?c then _ else _) = _ => destruct c end; [discriminate|].
  injection H as <- _. cbn. repeat split. intros E. unfold chosen_id. rewrite E. reflexivity.
Qed.

(* two templates with the same candidate lists produce the same bytes from the same draws: the stale
   cipherSuite / configId fields of the template play no role *)
Theorem grease_fresh_only g g' f b :
  template_ok g -> template_ok g' -> fresh_ok g f ->
  CandidateCipherSuites g = CandidateCipherSuites g' -> CandidateConfigIds g = CandidateConfigIds g' ->
  CandidatePayloadLens g = CandidatePayloadLens g' ->
  Read g f b = Read g' f b.
Proof.
  intros T T' F E1 E2 E3.
  assert (F' : fresh_ok g' f).
  { destruct F as [a b0 c d]. constructor; try assumption; [rewrite <- E1 | rewrite <- E3]; assumption. }
  unfold Read. rewrite (init_template g f T F), (init_template g' f T' F').
  unfold chosen_suite, chosen_id, chosen_len. rewrite E1, E2, E3. reflexivity.
Qed.

(* Bounded exhaustive sweep of the model (a finite domain, swept inside Coq and lifted with forallb_forall): every
   history of at most 4 calls over a fixed alphabet of 12 calls (all seven API functions, nil / initialized /
   uninitialized arguments, fixed ticket and identity bytes), in every world of predefined-parrot shape
   (HelloGolang, without session_ticket, with session_ticket, with session_ticket and pre_shared_key; cache in the
   config or not; tickets disabled or not; OmitEmptyPsk; cache empty / TLS 1.2 / TLS 1.3 session; peer version). *)
From UV Require Import Base.Common Model.Session.

Definition alphabet : list op :=
  [SetCache; BuildNoSess; Build; Handshake;
   SetTicket None; SetTicket (Some (true, [1], 1)); SetTicket (Some (false, [], 0));
   SetPsk None; SetPsk (Some (true, [3], 3)); SetPsk (Some (false, [], 0));
   SetState None; SetState (Some ([2], 2))].

Fixpoint lists_eq (n : nat) : list (list op) :=
  match n with
  | O => [[]]
  | S k => flat_map (fun l => map (fun o => o :: l) alphabet) (lists_eq k)
  end.
Fixpoint lists_upto (n : nat) : list (list op) :=
  match n with O => [[]] | S k => lists_eq (S k) ++ lists_upto k end.

Definition bools := [false; true].
Definition hits := [HitNone; Hit12 [7] 9; Hit13 [8] 9].
Definition worlds : list world :=
  flat_map (fun shape : bool * nat * bool =>
  flat_map (fun c0 => flat_map (fun dis => flat_map (fun om => flat_map (fun h => flat_map (fun s13 =>
    let '(g, t, p) := shape in
    let w := mkWorld g t p true true true c0 dis om h s13 false in
    if world_ok w then [w] else [])
  bools) hits) bools) bools) bools)
  [(true, 0%nat, false); (false, 0%nat, false); (false, 1%nat, false); (false, 1%nat, true)].

Definition rejected (r : res unit) : bool :=
  match r with Err 1 | Panic 1 | Panic 2 => true | _ => false end.

(* all four statements checked on one history *)
Definition keys_ok (w : world) (s : st) : bool :=
  negb (applied s) || negb (w_tls13 w) || (is_some (share s) && optN_eqb (keys s) (share s)).
Definition wire_ok (ops : list op) (s : st) : bool :=
  negb (bstatus_eqb (status s) ByUtls) ||
  match injected ops with
  | Some (InjTicket tk se) =>
      (hs_sess s =? se) && bytes_eqb (hs_ticket s) tk &&
      match raw s with Some ([t], _) => bytes_eqb t tk | _ => false end
  | Some (InjPsk lb se) =>
      (hs_sess s =? se) && match raw s with Some (_, Some d) => bytes_eqb d lb | _ => false end
  | None => true
  end.
Definition check_hist (w : world) (ops : list op) : bool :=
  match legal_from w (linit w) ops with
  | None => true
  | Some lf =>
      let s := final w (init w) ops in
      forallb (fun r => negb (is_panic r)) (run w (init w) ops) &&
      (w_golang w || keys_ok w s) &&
      (w_golang w || wire_ok ops s) &&
      (w_golang w || forallb (fun o => negb (forbidden w lf o) || rejected (snd (step w o s))) alphabet)
  end.

Lemma sweep4 : forallb (fun w => forallb (check_hist w) (lists_upto 4)) worlds = true.
Proof. vm_compute. reflexivity. Qed.

Lemma check_hist_all : forall w ops, In w worlds -> In ops (lists_upto 4) -> check_hist w ops = true.
Proof.
  intros w ops Hw Ho. pose proof sweep4 as S. rewrite forallb_forall in S.
  specialize (S w Hw). rewrite forallb_forall in S. exact (S ops Ho).
Qed.

(* Proofs about Model/PresetOk.v, part 3: for a spec satisfying the static predicate ApplyPreset can only fail for the
   documented reasons - the spec's version bounds (SetTLSVers / makeClientHelloForApplyPreset errors) or randomness that
   does not have the shape of the code's draws (short reads; the model's E_FRESH). It never panics (no third GREASE
   extension, no unsupported key-share group, no unknown HPKE AEAD, no uAssert in syncSessionExts, no GREASE slot out of
   range). No axioms. *)
From UV Require Import Base.Common Model.Wire Model.Varint Model.Ext Model.ExtSpec Model.Strict.
From UV Require Import Proofs.WireP Proofs.ExtP Proofs.StrictP.
From UV Require Import Model.Padding Model.Marshal Model.ChMarshal Model.WriteToUConn.
From UV Require Model.Grease Proofs.GreaseP.
From UV Require Import Model.Preset Model.PresetOk Proofs.PresetOkP.
From Coq Require Import ZifyBool ZifyNat ZifyN.

(* the result is a value or the "randomness of the wrong shape" error *)
Definition okf {A} (r : res A) : Prop := match r with Ok _ => True | Err e => e = E_FRESH | Panic _ => False end.

Lemma okf_bind {A B} (r : res A) (f : A -> res B) : okf r -> (forall a, r = Ok a -> okf (f a)) -> okf (bind r f).
Proof. destruct r; cbn [bind okf]; intros H1 H2; [apply H2; reflexivity | exact H1 | exact H1]. Qed.

Lemma okf_ok {A} (a : A) : okf (Ok a). Proof. exact I. Qed.
Lemma okf_of_opt {A} (o : option A) : okf (of_opt E_FRESH o). Proof. destruct o; [exact I|reflexivity]. Qed.

Definition seed5 (sd : list N) : Prop := exists a b c d e, sd = [a; b; c; d; e].

Lemma boring_total sd idx : seed5 sd -> (idx < 5)%nat -> exists v, Grease.boring_grease sd idx = Ok v.
Proof.
  intros (a & b & c & d & e & ->) H. destruct idx as [|[|[|[|[|k]]]]]; try lia; eexists; reflexivity.
Qed.

Lemma regrease_total sd idx l : seed5 sd -> (idx < 5)%nat -> okf (Grease.map_res (Grease.regrease sd idx) l).
Proof.
  intros Hs Hi. induction l as [|x l IH]; cbn [Grease.map_res]; [exact I|].
  apply okf_bind.
  - unfold Grease.regrease. destruct (Grease.is_grease x); [|exact I]. destruct (boring_total sd idx Hs Hi) as (v & ->). exact I.
  - intros y _. apply okf_bind; [exact IH|]. intros r _. exact I.
Qed.

Lemma shares_total sd : seed5 sd -> forall ks keys, forallb share_ok ks = true -> okf (preset_shares sd keys ks).
Proof.
  intros Hs. induction ks as [|[g d] ks IH]; intros keys Hok; cbn [preset_shares]; [exact I|].
  cbn [forallb] in Hok. apply andb_true_iff in Hok. destruct Hok as [Hk Hks].
  unfold share_ok in Hk. cbn [fst snd] in Hk. apply andb_true_iff in Hk. destruct Hk as [_ Hd].
  destruct (Grease.is_grease g).
  - destruct (boring_total sd Grease.ssl_grease_group Hs ltac:(unfold Grease.ssl_grease_group; lia)) as (v & ->). cbn [bind].
    apply okf_bind; [apply IH; exact Hks|]. intros r _. exact I.
  - cbn [orb] in Hd. destruct (1 <? blen d).
    + apply okf_bind; [apply IH; exact Hks|]. intros r _. exact I.
    + destruct (key_size g); [|discriminate]. destruct keys as [|k keys]; [reflexivity|].
      destruct (blen k =? n); cbn [negb]; [|reflexivity]. apply okf_bind; [apply IH; exact Hks|]. intros r _. exact I.
Qed.

Lemma ech_total su ci en pl d :
  forallb (fun x => (fst x <? 65536) && ech_aead_ok (snd x)) su = true -> okf (ech_init su ci en pl d).
Proof.
  intros Hsu. unfold ech_init.
  apply okf_bind. { destruct ci; [exact I|apply okf_of_opt]. }
  intros cfgid _. apply okf_bind. { destruct su; [exact I|apply okf_of_opt]. }
  intros [kdf aead] Es.
  assert (Ha : ech_aead_ok aead = true).
  { destruct su as [|s0 su0]; [inversion Es; reflexivity|]. destruct (nth_error (s0 :: su0) (ed_suite_idx d)) as [x|] eqn:En; [|discriminate].
    cbn [of_opt] in Es. inversion Es; subst x. apply nth_error_In in En. rewrite forallb_forall in Hsu. specialize (Hsu _ En).
    cbn [fst snd] in Hsu. apply andb_true_iff in Hsu. tauto. }
  apply okf_bind. { destruct pl; [exact I|apply okf_of_opt]. }
  intros plen _. rewrite Ha. cbn [negb].
  destruct (negb (blen (ed_payload d) =? plen + ECH_TAG_LEN)); [reflexivity|].
  destruct (empty en && negb (blen (ed_enc d) =? 32)); [reflexivity|exact I].
Qed.

Lemma preset_exts_total sd c snimax omit : seed5 sd -> forall ss seen keys echs,
  forallb (sext_ok snimax omit) ss = true -> (seen + ngrease ss <= 2)%nat -> okf (preset_exts sd c seen keys echs ss).
Proof.
  intros Hs. induction ss as [|s r IH]; intros seen keys echs Hok Hc; cbn [preset_exts]; [exact I|].
  cbn [forallb] in Hok. apply andb_true_iff in Hok. destruct Hok as [Hs1 Hr].
  unfold ngrease in Hc. cbn [filter] in Hc.
  assert (Hstep : forall seen' keys' echs' (e' : ext), (seen' + ngrease r <= 2)%nat ->
                  okf (do r' <- preset_exts sd c seen' keys' echs' r; Ok (e' :: r'))).
  { intros. apply okf_bind; [apply IH; assumption|]. intros; exact I. }
  destruct s as [e|su ci en pl].
  - destruct e; cbn [is_sgrease length] in Hc; try (apply Hstep; unfold ngrease; lia).
    + (* supported_groups *) apply okf_bind; [apply regrease_total; [exact Hs|unfold Grease.ssl_grease_group; lia]|]. intros; apply Hstep; unfold ngrease; lia.
    + (* GREASE *) destruct seen as [|[|seen]]; [| |lia].
      * destruct (boring_total sd Grease.ssl_grease_extension1 Hs ltac:(unfold Grease.ssl_grease_extension1; lia)) as (v & ->). cbn [bind].
        apply Hstep. unfold ngrease. lia.
      * destruct (boring_total sd Grease.ssl_grease_extension2 Hs ltac:(unfold Grease.ssl_grease_extension2; lia)) as (v & ->). cbn [bind].
        apply Hstep. unfold ngrease. lia.
    + (* key_share *) cbn [sext_ok] in Hs1. apply andb_true_iff in Hs1. destruct Hs1 as [Hsh _].
      apply okf_bind; [apply shares_total; assumption|]. intros; apply Hstep; unfold ngrease; lia.
    + (* supported_versions *) apply okf_bind; [apply regrease_total; [exact Hs|unfold Grease.ssl_grease_version; lia]|]. intros; apply Hstep; unfold ngrease; lia.
  - cbn [is_sgrease] in Hc. destruct echs as [|d echs']; [reflexivity|].
    cbn [sext_ok] in Hs1. rewrite !andb_true_iff in Hs1. destruct Hs1 as [[Hsu _] _].
    apply okf_bind; [apply ech_total; exact Hsu|]. intros; apply Hstep; unfold ngrease; lia.
Qed.

(* syncSessionExts does not trip its assertions *)
Lemma psk_only_last_ids es : psk_only_last es = psk_lastb (map (fun e => if is_psk e then ID_PSK else 0) es).
Proof.
  induction es as [|e r IH]; [reflexivity|]. cbn [psk_only_last map psk_lastb]. destruct r as [|e2 r']; [reflexivity|].
  cbn [map]. cbn [map] in IH. rewrite IH. destruct (is_psk e); reflexivity.
Qed.

Definition allowed_errors : list N :=
  [E_VERS_EXT; E_VERS_RANGE; E_NO_VERSIONS; E_SHORT_RAND; Grease.E_SHORT_RAND; E_FRESH].

Theorem preset_ok_failures sp c fr snimax omit :
  preset_ok sp snimax omit = true -> cfg_in_class c snimax omit ->
  match apply_preset sp c fr with
  | Ok _ => True
  | Err e => In e allowed_errors
  | Panic _ => False
  end.
Proof.
  intros Hok [Hsni Homit]. unfold apply_preset.
  destruct (set_tls_vers sp) as [[mn mx]|e|e] eqn:Ev; cbn [bind fst snd].
  2: { unfold set_tls_vers in Ev. unfold allowed_errors.
       match type of Ev with bind ?r _ = _ => destruct r as [[a b]|c0|c0] eqn:E0 end; cbn [bind] in Ev.
       - destruct ((a <? VersionTLS10) || (VersionTLS13 <? a)); [inversion Ev; cbn; tauto|].
         destruct ((b <? VersionTLS10) || (VersionTLS13 <? b)); [inversion Ev; cbn; tauto|discriminate].
       - inversion Ev; subst e. destruct ((sp_min sp =? 0) && (sp_max sp =? 0)); [|discriminate].
         match type of E0 with bind ?r _ = _ => destruct r as [[[cnt m1] m2]|c1|c1] eqn:E1 end; cbn [bind] in E0.
         + destruct cnt as [|[|cnt]]; try discriminate. inversion E0. cbn; tauto.
         + inversion E0; subst c0. clear - E1. revert E1. generalize (O, 0, 0). induction (sp_exts sp) as [|s r IH]; intros acc E1; [discriminate|].
           cbn [scan_versions] in E1. destruct s as [e0|]; [|eapply IH; exact E1]. destruct e0; try (eapply IH; exact E1).
           destruct acc as [[cnt a0] b0]. destruct (find_versions versions) as [m1 m2]. destruct ((m1 =? 0) && (m2 =? 0)); [inversion E1; cbn; tauto|eapply IH; exact E1].
         + discriminate.
       - discriminate. }
  2: { exfalso. unfold set_tls_vers in Ev.
       match type of Ev with bind ?r _ = _ => destruct r as [[a b]|c0|c0] eqn:E0 end; cbn [bind] in Ev.
       - destruct ((a <? VersionTLS10) || (VersionTLS13 <? a)); [discriminate|]. destruct ((b <? VersionTLS10) || (VersionTLS13 <? b)); discriminate.
       - discriminate.
       - inversion Ev; subst e. destruct ((sp_min sp =? 0) && (sp_max sp =? 0)); [|discriminate].
         match type of E0 with bind ?r _ = _ => destruct r as [[[cnt m1] m2]|c1|c1] eqn:E1 end; cbn [bind] in E0.
         + destruct cnt as [|[|cnt]]; discriminate.
         + discriminate.
         + clear - E1. revert E1. generalize (O, 0, 0). induction (sp_exts sp) as [|s r IH]; intros acc E1; [discriminate|].
           cbn [scan_versions] in E1. destruct s as [e0|]; [|eapply IH; exact E1]. destruct e0; try (eapply IH; exact E1).
           destruct acc as [[cnt a0] b0]. destruct (find_versions versions) as [m1 m2]. destruct ((m1 =? 0) && (m2 =? 0)); [discriminate|eapply IH; exact E1]. }
  unfold hello_vers. destruct (mx <? mn); cbn [bind]; [cbn; tauto|].
  destruct (blen (f_random fr) =? 32); cbn [negb]; [|cbn; tauto].
  destruct (Grease.grease_seed (f_grease fr)) as [sd|e|e] eqn:Eg; cbn [bind].
  2: { unfold Grease.grease_seed in Eg. destruct (Nat.eqb _ _); [discriminate|]. inversion Eg. cbn; tauto. }
  2: { unfold Grease.grease_seed in Eg. destruct (Nat.eqb _ _); discriminate. }
  assert (Hs5 : seed5 sd) by (destruct (GreaseP.grease_seed_shape _ _ Eg) as (a & b & c0 & d & e & -> & _); repeat eexists).
  unfold preset_ok in Hok. rewrite !andb_true_iff in Hok.
  destruct Hok as [[[[[[[[[P1 P2] P3] P4] P5] P6] P7] P8] P9] P10].
  pose proof (regrease_total sd Grease.ssl_grease_cipher (sp_suites sp) Hs5 ltac:(unfold Grease.ssl_grease_cipher; lia)) as Hsu.
  destruct (Grease.map_res (Grease.regrease sd Grease.ssl_grease_cipher) (sp_suites sp)) as [su|e|e]; cbn [bind okf] in *; [|subst e; cbn; tauto|contradiction].
  destruct (blen (f_sid fr) =? 32); cbn [negb]; [|cbn; tauto].
  pose proof (preset_exts_total sd c snimax omit Hs5 (sp_exts sp) 0 (f_keys fr) (f_ech fr) P4 ltac:(unfold ngrease; clear - P5; lia)) as He.
  destruct (preset_exts sd c 0 (f_keys fr) (f_ech fr) (sp_exts sp)) as [es|e|e] eqn:Ee; cbn [bind okf] in *; [|subst e; cbn; tauto|contradiction].
  (* syncSessionExts *)
  destruct (GreaseP.grease_seed_shape _ _ Eg) as (c0 & g0 & e1 & e2 & v0 & -> & Hne).
  assert (Hx1 : Grease.boring_grease [c0; g0; e1; e2; v0] Grease.ssl_grease_extension1 = Ok (Grease.grease_word e1)) by reflexivity.
  assert (Hx2 : Grease.boring_grease [c0; g0; e1; e2; v0] Grease.ssl_grease_extension2 = Ok (Grease.grease_word e2)) by reflexivity.
  destruct (preset_exts_ok _ c snimax omit _ _ Hx1 Hx2 Hsni Homit _ _ _ _ _ Ee P4) as (_ & _ & _ & L4 & L5).
  unfold sync_session_exts.
  assert (Ht : length (filter is_ticket es) = length (filter is_sticket (sp_exts sp))).
  { clear - L5. revert es L5. induction (sp_exts sp) as [|s r IH]; intros [|e es] L5; try discriminate; [reflexivity|].
    cbn [map] in L5. inversion L5 as [[H1 H2]]. cbn [filter]. rewrite H1. destruct (is_sticket s); cbn [length]; rewrite (IH es H2); reflexivity. }
  assert (Hp : psk_only_last es = true).
  { rewrite psk_only_last_ids. rewrite (psk_lastb_ext _ (map pid (sp_exts sp))); [exact P8|].
    rewrite !map_map. transitivity (map is_psk_ext es).
    - apply map_ext. intros e. change (is_psk e) with (is_psk_ext e). destruct (is_psk_ext e); reflexivity.
    - rewrite L4. apply map_ext. intros s. unfold pid. destruct (is_spsk s); reflexivity. }
  rewrite Ht, Hp. cbn [negb orb].
  destruct (1 <? N.of_nat (length (filter is_sticket (sp_exts sp)))) eqn:E1; [clear - E1 P9; lia|]. cbn [bind]. exact I.
Qed.

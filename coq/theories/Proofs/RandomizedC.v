(* The table of coin-flip sites of generateRandomizedSpec and the generic weight-corner statement.
   One row per `FlipWeightedCoin(id.Weights.X)` site of u_parrots.go:2949-3157 (plus the
   removeRandomCiphers call, whose coins are a family), in code order. The runner extracts the
   sequence of id.Weights.X references from the function's source and a CCoins correspondence
   case compares it with [map c_field coins], so a coin added to (or removed from) the code
   without a row here is a mismatch. *)
From UV Require Export Model.RandomizedCoins.
From UV Require Import Base.Common Model.Prng Proofs.PrngP Model.Randomized Proofs.RandomizedP Proofs.RandomizedW Proofs.RandomizedS.
From Coq Require Import QArith Permutation ZifyBool ZifyNat ZifyN.
Open Scope N_scope.

(* weight <= 0: the feature is present exactly when forced; weight >= 1 (no zero draw): present when applicable *)
Definition coin_ok (rnd : Q -> Q) (c : coin) : Prop :=
  forall fuel tb v w sn np s salted p, generate rnd fuel tb v w sn np s salted = Ok p ->
  (w_le0 (wfield (c_field c) w) -> (c_feature c tb v p <-> c_forced c v p)) /\
  (w_ge1 (wfield (c_field c) w) -> nz s -> nz salted -> c_app c v p -> c_feature c tb v p).

(* ---- tactics ---- *)
Ltac kill3 H :=
  split_or H;
  first [ discriminate H | (exfalso; exact H) | (cbv in H; discriminate H)
        | (let H1 := fresh in let H2 := fresh in destruct H as [H1 H2];
           first [discriminate H1 | discriminate H2 | (cbv in H2; discriminate H2)])
        | (repeat match type of H with context [opt ?b _] => is_var b; destruct b end; cbv in H; discriminate H) ].
Ltac simp_in H := cbn [In] in H; rewrite ?in_app_iff in H; cbn [In] in H; rewrite ?in_app_iff in H; rewrite ?in_opt in H.
(* Hx : In x (shuffled sigalgs)  ~>  membership in the list before the shuffle *)
Ltac sig_hyp Hx :=
  match goal with P : Permutation (ECDSAWithP256AndSHA256 :: _) ?l |- _ =>
    match type of Hx with In _ l => apply (Permutation_in _ (Permutation_sym P)) in Hx end end;
  repeat match type of Hx with context [if ?b then _ else _] => is_var b; destruct b end;
  cbv iota in Hx; simp_in Hx.
Ltac sig_goal := eexists; split; [goal_base; find_in | sig_base; cbv iota; find_in].
Ltac grp_goal := eexists; split; [goal_base; find_in | find_in].
Ltac dead Hf := first [ discriminate Hf | (exfalso; exact Hf) | (cbv in Hf; discriminate Hf) ].

Section Rows.
  Variable rnd : Q -> Q.
  Hypothesis L : ieee_laws rnd.
  Variables (fuel : nat) (tb : table) (v : variant) (w : weights) (sn : bytes) (np : list bytes) (s salted : stream) (p : spec).
  Hypothesis G : generate rnd fuel tb v w sn np s salted = Ok p.

  Ltac le0 := let H := fresh "H" in pose proof G as H; gen_inv H; norm_b; use_le0 L; cbn [sp_max sp_exts sp_ciphers sp_min].
  Ltac ge1 Z1 := let H := fresh "H" in let Hz := fresh "Hz" in pose proof G as H; pose proof Z1 as Hz; gen_inv H; norm_b; use_ge1 L;
                 cbn [sp_max sp_exts sp_ciphers sp_min].

  (* plain extension presence *)
  Ltac ext_le0 := split; [ intros FT; try (destruct FT as [? FT]); first [reflexivity | (to_base FT; kill3 FT)]
                         | intros Hf; first [dead Hf | (goal_base; find_in) | (eexists; goal_base; find_in)] ].
  Ltac ext_ge1 := first [ (goal_base; find_in) | (eexists; goal_base; find_in) ].

  Lemma r_alpn_0 : w_le0 (w_alpn w) -> ((exists q, In (EALPN q) (sp_exts p)) <-> v = VALPN).
  Proof. intros Hw. le0; ext_le0. Qed.
  Lemma r_alpn_1 : w_ge1 (w_alpn w) -> nz s -> v = VRandomized -> exists q, In (EALPN q) (sp_exts p).
  Proof. intros Hw Z1 Hv. ge1 Z1; try discriminate Hv; ext_ge1. Qed.

  Lemma r_tls13_0 : w_le0 (w_tls13 w) -> (is13 p <-> False).
  Proof. intros Hw. unfold is13. le0; (split; [intros FT; dead FT|intros []]). Qed.
  Lemma r_tls13_1 : w_ge1 (w_tls13 w) -> nz s -> is13 p.
  Proof. intros Hw Z1. unfold is13. ge1 Z1; reflexivity. Qed.

  Lemma r_padding_0 : w_le0 (w_padding w) -> (In EPadding (sp_exts p) <-> is13 p).
  Proof. intros Hw. unfold is13. le0; ext_le0. Qed.
  Lemma r_padding_1 : w_ge1 (w_padding w) -> nz s -> In EPadding (sp_exts p).
  Proof. intros Hw Z1. ge1 Z1; ext_ge1. Qed.
  Lemma r_status_0 : w_le0 (w_status w) -> (In EStatus (sp_exts p) <-> False).
  Proof. intros Hw. le0; ext_le0. Qed.
  Lemma r_status_1 : w_ge1 (w_status w) -> nz s -> In EStatus (sp_exts p).
  Proof. intros Hw Z1. ge1 Z1; ext_ge1. Qed.
  Lemma r_sct_0 : w_le0 (w_sct w) -> (In ESCT (sp_exts p) <-> False).
  Proof. intros Hw. le0; ext_le0. Qed.
  Lemma r_sct_1 : w_ge1 (w_sct w) -> nz s -> In ESCT (sp_exts p).
  Proof. intros Hw Z1. ge1 Z1; ext_ge1. Qed.
  Lemma r_reneg_0 : w_le0 (w_reneg w) -> ((exists m, In (EReneg m) (sp_exts p)) <-> False).
  Proof. intros Hw. le0; ext_le0. Qed.
  Lemma r_reneg_1 : w_ge1 (w_reneg w) -> nz s -> exists m, In (EReneg m) (sp_exts p).
  Proof. intros Hw Z1. ge1 Z1; ext_ge1. Qed.
  Lemma r_ems_0 : w_le0 (w_ems w) -> (In EEMS (sp_exts p) <-> False).
  Proof. intros Hw. le0; ext_le0. Qed.
  Lemma r_ems_1 : w_ge1 (w_ems w) -> nz s -> In EEMS (sp_exts p).
  Proof. intros Hw Z1. ge1 Z1; ext_ge1. Qed.
  Lemma r_alps_0 : w_le0 (w_alps w) -> ((exists q, In (EALPS q) (sp_exts p)) <-> False).
  Proof. intros Hw. le0; ext_le0. Qed.
  Lemma r_alps_1 : w_ge1 (w_alps w) -> nz s -> nz salted -> is13 p /\ (exists q, In (EALPN q) (sp_exts p)) ->
    exists q, In (EALPS q) (sp_exts p).
  Proof.
    intros Hw Z1 Z2 [Hm [q Hq]]. unfold is13 in Hm. ge1 Z1; cbn [sp_max] in Hm; try (dead Hm);
    try (to_base Hq; kill3 Hq); ext_ge1.
  Qed.
  Lemma r_ks_p256_0 : w_le0 (w_ks_p256 w) -> (In (EKeyShare [CurveP256]) (sp_exts p) <-> False).
  Proof. intros Hw. le0; ext_le0. Qed.
  Lemma r_ks_p256_1 : w_ge1 (w_ks_p256 w) -> nz s -> is13 p -> In (EKeyShare [CurveP256]) (sp_exts p).
  Proof. intros Hw Z1 Hm. unfold is13 in Hm. ge1 Z1; cbn [sp_max] in Hm; try (dead Hm); ext_ge1. Qed.

  (* signature algorithms *)
  Ltac sig_le0 := split; [ intros (sa & Hsa & Hx); first [reflexivity | (resolve_ext Hsa; sig_hyp Hx; kill3 Hx)]
                         | intros Hf; first [dead Hf | sig_goal] ].
  Lemma r_ecdsa_sha1_0 : w_le0 (w_ecdsa_sha1 w) -> (sig_has ECDSAWithSHA1 p <-> False).
  Proof. intros Hw. unfold sig_has. le0; sig_le0. Qed.
  Lemma r_ecdsa_sha1_1 : w_ge1 (w_ecdsa_sha1 w) -> nz s -> sig_has ECDSAWithSHA1 p.
  Proof. intros Hw Z1. unfold sig_has. ge1 Z1; sig_goal. Qed.
  Lemma r_p521_sha512_0 : w_le0 (w_p521_sha512 w) -> (sig_has ECDSAWithP521AndSHA512 p <-> False).
  Proof. intros Hw. unfold sig_has. le0; sig_le0. Qed.
  Lemma r_p521_sha512_1 : w_ge1 (w_p521_sha512 w) -> nz s -> sig_has ECDSAWithP521AndSHA512 p.
  Proof. intros Hw Z1. unfold sig_has. ge1 Z1; sig_goal. Qed.
  Lemma r_pss256_0 : w_le0 (w_pss256 w) -> (sig_has PSSWithSHA256 p <-> is13 p).
  Proof. intros Hw. unfold sig_has, is13. le0; sig_le0. Qed.
  Lemma r_pss256_1 : w_ge1 (w_pss256 w) -> nz s -> sig_has PSSWithSHA256 p.
  Proof. intros Hw Z1. unfold sig_has. ge1 Z1; sig_goal. Qed.
  Lemma r_pss384_0 : w_le0 (w_pss384_512 w) -> (sig_has PSSWithSHA384 p /\ sig_has PSSWithSHA512 p <-> False).
  Proof.
    intros Hw. unfold sig_has. le0; (split; [intros [(sa & Hsa & Hx) _]; resolve_ext Hsa; sig_hyp Hx; kill3 Hx|intros []]).
  Qed.
  Lemma r_pss384_1 : w_ge1 (w_pss384_512 w) -> nz s -> sig_has PSSWithSHA256 p ->
    sig_has PSSWithSHA384 p /\ sig_has PSSWithSHA512 p.
  Proof.
    intros Hw Z1. unfold sig_has. ge1 Z1; intros (sa & Hsa & Hx); resolve_ext Hsa;
    first [ (sig_hyp Hx; kill3 Hx) | (split; sig_goal) ].
  Qed.

  (* supported groups *)
  Ltac grp_le0 := split; [ intros (g & Hg & Hx); first [reflexivity | (resolve_ext Hg; simp_in Hx; kill3 Hx)]
                         | intros Hf; first [dead Hf | grp_goal] ].
  Lemma r_mlkem_group_0 : w_le0 (w_x25519 w) -> (grp_has X25519MLKEM768 p <-> False).
  Proof. intros Hw. unfold grp_has. le0; grp_le0. Qed.
  Lemma r_mlkem_group_1 : w_ge1 (w_x25519 w) -> nz s -> is13 p -> grp_has X25519MLKEM768 p.
  Proof. intros Hw Z1 Hm. unfold grp_has, is13 in *. ge1 Z1; cbn [sp_max] in Hm; try (dead Hm); grp_goal. Qed.
  Lemma r_x25519_0 : w_le0 (w_x25519 w) -> (grp_has X25519 p <-> is13 p).
  Proof. intros Hw. unfold grp_has, is13. le0; grp_le0. Qed.
  Lemma r_x25519_1 : w_ge1 (w_x25519 w) -> nz s -> grp_has X25519 p.
  Proof. intros Hw Z1. unfold grp_has. ge1 Z1; grp_goal. Qed.
  Lemma r_p521_0 : w_le0 (w_p521 w) -> (grp_has CurveP521 p <-> False).
  Proof. intros Hw. unfold grp_has. le0; grp_le0. Qed.
  Lemma r_p521_1 : w_ge1 (w_p521 w) -> nz s -> grp_has CurveP521 p.
  Proof. intros Hw Z1. unfold grp_has. ge1 Z1; grp_goal. Qed.

  (* additional key shares *)
  Lemma r_ks_extra_0 : w_le0 (w_ks_random w) ->
    ((exists k, In (EKeyShare k) (sp_exts p) /\ In X25519 k /\ In CurveP256 k) <-> False).
  Proof.
    intros Hw. le0; (split; [intros (k & Hk & Hx & Hy); resolve_ext Hk; cbn [opt app] in Hx, Hy; simp_in Hx; simp_in Hy;
                              first [kill3 Hx | kill3 Hy] | intros []]).
  Qed.
  Lemma r_ks_mlkem_0 : w_le0 (w_ks_random w) ->
    ((exists k, In (EKeyShare k) (sp_exts p) /\ In X25519MLKEM768 k) <-> False).
  Proof.
    intros Hw. le0; (split; [intros (k & Hk & Hx); resolve_ext Hk; cbn [opt app] in Hx; simp_in Hx; kill3 Hx | intros []]).
  Qed.
  Lemma r_ks_extra_1 : w_ge1 (w_ks_random w) -> nz s -> x25519_share p ->
    exists k, In (EKeyShare k) (sp_exts p) /\ In X25519 k /\ In CurveP256 k.
  Proof.
    intros Hw Z1. unfold x25519_share. ge1 Z1; intros (sk & Hk & Hx); resolve_ext Hk;
    first [ (simp_in Hx; kill3 Hx) | (eexists; split; [goal_base; find_in | split; find_in]) ].
  Qed.
  Lemma r_ks_mlkem_1 : w_ge1 (w_ks_random w) -> nz s -> x25519_share p ->
    exists k, In (EKeyShare k) (sp_exts p) /\ In X25519MLKEM768 k.
  Proof.
    intros Hw Z1. unfold x25519_share. ge1 Z1; intros (sk & Hk & Hx); resolve_ext Hk;
    first [ (simp_in Hx; kill3 Hx) | (eexists; split; [goal_base; find_in | find_in]) ].
  Qed.
End Rows.

(* Partial work towards the unbounded theorems for the mimicking ClientHelloIDs: the invariant [invb] of SessionP.v is
   preserved by SetSessionCache and by the three setters (any state satisfying it, any legal call). The corresponding
   lemmas for BuildHandshakeStateWithoutSession, BuildHandshakeState and Handshake are NOT proved (the path-by-path
   proof search did not finish in the time available), so this file is not used by Props/C20.v. *)
From UV Require Import Base.Common Model.Session Proofs.SessionP.
From Coq Require Import ZifyBool ZifyNat ZifyN.

Lemma ok_SetCache : forall w l i s l', world_ok w = true -> w_golang w = false -> invb w l i s = true ->
  legal_step w l SetCache = Some l' -> ok_after w l i s SetCache l'.
Proof. start. all: solve_op. Qed.

Lemma ok_SetTicket : forall e w l i s l', world_ok w = true -> w_golang w = false -> invb w l i s = true ->
  legal_step w l (SetTicket e) = Some l' -> ok_after w l i s (SetTicket e) l'.
Proof. intros e. destruct e as [[[ii d] se]|]; start. all: solve_op. Qed.

Lemma ok_SetPsk : forall e w l i s l', world_ok w = true -> w_golang w = false -> invb w l i s = true ->
  legal_step w l (SetPsk e) = Some l' -> ok_after w l i s (SetPsk e) l'.
Proof. intros e. destruct e as [[[ii d] se]|]; start. all: solve_op. Qed.

Lemma ok_SetState : forall e w l i s l', world_ok w = true -> w_golang w = false -> invb w l i s = true ->
  legal_step w l (SetState e) = Some l' -> ok_after w l i s (SetState e) l'.
Proof. intros e. destruct e as [[d se]|]; start. all: solve_op. Qed.


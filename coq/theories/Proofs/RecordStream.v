(* Stream level: Conn.Write fragments into records that a matched reader decrypts in order
   (fragment_bounds + the write half of stream_integrity). *)
From UV Require Import Base.Common Model.Record Proofs.RecordP Proofs.RecordRT.
From Coq Require Import ZifyBool ZifyNat ZifyN.
Open Scope N_scope.

Definition vers_ok (v : N) : Prop := v = V10 \/ v = V11 \/ v = V12 \/ v = V13.
Definition rnd_ok (rnd : N -> bytes) : Prop := forall s, (16 <= length (rnd s))%nat.
Definition vb1 (v : N) : N := (wire_vers v / 256) mod 256.
Definition vb2 (v : N) : N := wire_vers v mod 256.

(* the write side of a connection is in a state some reader can follow *)
Definition wconn_ok (c : conn) : Prop := h_vers (cn_out c) = cn_vers c /\ vers_ok (cn_vers c).

(* a record as it appears on the wire for protocol version [v] *)
Definition rec_wf (v : N) (r : bytes) : Prop :=
  exists t body, r = hdr5 t (vb1 v) (vb2 v) (len body) ++ body /\
                 len body <= (if v =? V13 then maxCiphertextTLS13 else maxCiphertext).

Section Stream.
Variable P : prims.
Hypothesis HP : prims_ok P.

(* records [recs] = (payload, wire bytes), all of content type [typ], take a reader from [rx] to [rx_end] *)
Fixpoint rchain (v typ : N) (rx : half) (recs : list (bytes * bytes)) (rx_end : half) : Prop :=
  match recs with
  | [] => rx = rx_end
  | (p, r) :: rest =>
    rec_wf v r /\ 0 < len p <= maxPlaintext /\
    exists rx', decrypt P rx r = Ok (p, typ, rx') /\ rchain v typ rx' rest rx_end
  end.

Lemma rchain_app v typ rx a mid b rx_end :
  rchain v typ rx a mid -> rchain v typ mid b rx_end -> rchain v typ rx (a ++ b) rx_end.
Proof.
  revert rx. induction a as [|[p r] a IH]; intros rx Ha Hb; cbn [rchain app] in *.
  - subst. exact Hb.
  - destruct Ha as (Hw & Hp & rx' & Hd & Hr). repeat split; try tauto. exists rx'. split; [exact Hd|]. apply IH; assumption.
Qed.

(* conn.go:897 maxPayloadSizeForWrite stays within [1, maxPlaintext] *)
Lemma max_payload_bounds c typ rx :
  wconn_ok c -> synced (cn_out c) rx ->
  1 <= fst (max_payload_size_for_write c typ) <= maxPlaintext.
Proof.
  intros [Hv Hvo] Hs. unfold max_payload_size_for_write, maxPlaintext.
  destruct (cn_dynoff c || negb (typ =? rtAppData)); [cbn; lia|].
  destruct (recordSizeBoostThreshold <=? cn_bytesSent c); [cbn; lia|].
  destruct (1000 <? cn_packetsSent c) eqn:Epk; [cbn; lia|].
  match goal with |- context [if ?b then _ else ?n] => set (nn := n) end.
  assert (Hn : 1 <= nn).
  { unfold nn. clear nn.
    destruct Hs as (_ & _ & _ & _ & Hwf & Hm). unfold half_wf in Hwf.
    destruct (h_cipher (cn_out c)) as [ci|] eqn:Eci; [|contradiction].
    destruct (h_cipher rx) as [ci'|]; [|contradiction].
    destruct Hm as (_ & _ & _ & _ & _ & _ & Hcbc).
    unfold explicit_nonce_len. rewrite Eci.
    unfold tcpMSSEstimate, recordHeaderLen, aead_overhead.
    assert (Hmul : forall a b, 1 <= a -> 1 <= a * (b + 1)) by (intros; nia).
    destruct (c_kind ci) eqn:Ek.
    - destruct Hwf as ([m Hm] & Hv13). rewrite Hm. pose proof (mac_len_le (m_alg m)). unfold m_size.
      apply Hmul. rewrite <- Hv. destruct (h_vers (cn_out c) =? V13); lia.
    - apply Hmul. destruct (cn_vers c =? V13); lia.
    - apply Hmul. destruct (cn_vers c =? V13); lia.
    - destruct Hwf as ([m Hm] & Hv13). rewrite Hm. pose proof (mac_len_le (m_alg m)). unfold m_size.
      destruct (Hcbc eq_refl) as (_ & _ & Hbs).
      apply Hmul. rewrite <- Hv.
      replace (h_vers (cn_out c) =? V13) with false by lia.
      destruct Hbs as [-> | ->]; destruct (V11 <=? h_vers (cn_out c));
        repeat match goal with |- context [N.ldiff ?a ?b] =>
          let v := eval vm_compute in (N.ldiff a b) in change (N.ldiff a b) with v end; lia. }
  cbn [fst]. destruct (16384 <? nn) eqn:E; lia.
Qed.

Definition same_read_side (c c' : conn) : Prop :=
  cn_vers c' = cn_vers c /\ cn_uconn c' = cn_uconn c /\ cn_suite c' = cn_suite c /\ cn_in c' = cn_in c /\
  cn_input c' = cn_input c /\ cn_hand c' = cn_hand c /\ cn_retry c' = cn_retry c /\ cn_dynoff c' = cn_dynoff c.

Lemma same_read_side_refl c : same_read_side c c.
Proof. unfold same_read_side. tauto. Qed.
Lemma same_read_side_trans a b c : same_read_side a b -> same_read_side b c -> same_read_side a c.
Proof. unfold same_read_side. intuition congruence. Qed.

Lemma explicit_le_16 tx rx : synced tx rx -> (explicit_nonce_len tx <= 16)%nat.
Proof.
  intros (_ & _ & _ & _ & Hwf & Hm). unfold explicit_nonce_len, half_wf in *.
  destruct (h_cipher tx) as [ci|]; [|lia]. destruct (h_cipher rx) as [ci'|]; [|contradiction].
  destruct Hm as (_ & _ & _ & _ & _ & _ & Hcbc).
  destruct (c_kind ci); try lia. destruct (Hcbc eq_refl) as (_ & _ & [-> | ->]); destruct (V11 <=? h_vers tx); lia.
Qed.

(* conn.go:1006-1033: the loop of writeRecordLocked *)
Lemma write_loop_ok : forall (fuel : nat) c typ data rnd wire n rx,
  wconn_ok c -> synced (cn_out c) rx -> typ <> 0 -> rnd_ok rnd ->
  (length data <= fuel)%nat -> h_seq (cn_out c) + len data < 18446744073709551616 ->
  exists recs c' rx_end,
    write_loop P fuel c typ data rnd wire n = Ok (wire ++ concat (map snd recs), n + len data, c') /\
    rchain (cn_vers c) (typ) rx recs rx_end /\ synced (cn_out c') rx_end /\
    concat (map fst recs) = data /\ wconn_ok c' /\ same_read_side c c' /\
    h_seq (cn_out c') <= h_seq (cn_out c) + len data /\
    (cn_vers c <> V13 -> forall rec, In rec recs -> nth 0 (snd rec) 0 = typ).
Proof.
  induction fuel as [|f IH]; intros c typ data rnd wire n rx Hw Hs Htyp Hrnd Hfuel Hseq.
  - destruct data; [|cbn in Hfuel; lia]. exists [], c, rx. cbn. rewrite app_nil_r, N.add_0_r.
    split; [reflexivity|]. split; [reflexivity|]. split; [exact Hs|]. split; [reflexivity|]. split; [exact Hw|].
    split; [apply same_read_side_refl|]. split; [lia|]. cbn; intros; contradiction.
  - destruct data as [|d0 data'].
    { exists [], c, rx. cbn. rewrite app_nil_r, N.add_0_r.
      split; [reflexivity|]. split; [reflexivity|]. split; [exact Hs|]. split; [reflexivity|]. split; [exact Hw|].
    split; [apply same_read_side_refl|]. split; [lia|]. cbn; intros; contradiction. }
    set (data := d0 :: data') in *.
    cbn [write_loop]. fold data.
    pose proof (max_payload_bounds c typ rx Hw Hs) as Hmp.
    destruct (max_payload_size_for_write c typ) as [maxPayload ps] eqn:Emp. cbn [fst] in Hmp.
    set (m := if maxPayload <? len data then maxPayload else len data).
    assert (Hm : 1 <= m <= maxPlaintext /\ m <= len data).
    { assert (Ld : len data = N.of_nat (S (length data'))) by reflexivity.
      unfold m. destruct (maxPayload <? len data) eqn:E; rewrite Ld in *; unfold maxPlaintext in *; lia. }
    set (payload := firstn (N.to_nat m) data).
    assert (Lp : len payload = m).
    { unfold payload, len. rewrite firstn_length_le; unfold len in Hm; lia. }
    destruct Hw as [Hv Hvo].
    change ([typ; wire_vers (cn_vers c) / 256 mod 256; wire_vers (cn_vers c) mod 256] ++ be16 m)
      with (hdr5 typ (vb1 (cn_vers c)) (vb2 (cn_vers c)) m).
    rewrite <- Lp.
    destruct (encrypt_decrypt P HP (cn_out c) rx typ (vb1 (cn_vers c)) (vb2 (cn_vers c)) payload
                (rnd (h_seq (cn_out c))) Hs Htyp)
      as (body & tx' & rx' & He & Hd & Hs' & Hb & Hq & Hvv & Hsec & _).
    { rewrite Lp. lia. }
    { unfold len in *. cbn [length] in *. lia. }
    { pose proof (explicit_le_16 _ _ Hs). specialize (Hrnd (h_seq (cn_out c))). lia. }
    rewrite He. cbn [bind]. rewrite ?Lp.
    set (rec := hdr5 (outer_typ (h_vers (cn_out c)) typ) (vb1 (cn_vers c)) (vb2 (cn_vers c)) (len body) ++ body) in *.
    set (c1 := with_out c tx' (cn_bytesSent c + len rec) ps).
    assert (Hw1 : wconn_ok c1) by (unfold wconn_ok, c1; cbn; split; congruence).
    assert (Hl1 : (length (skipn (N.to_nat m) data) <= f)%nat).
    { rewrite skipn_length. unfold len in *. cbn [length] in *. lia. }
    assert (Lsk : len (skipn (N.to_nat m) data) = len data - m).
    { unfold len. rewrite skipn_length. unfold len in Hm. lia. }
    destruct (IH c1 typ (skipn (N.to_nat m) data) rnd (wire ++ rec) (n + m) rx' Hw1 Hs' Htyp Hrnd Hl1)
      as (recs & c' & rx_end & Hwl & Hch & Hse & Hcat & Hw' & Hsame & Hsq & Hty).
    { unfold c1. cbn [cn_out with_out]. rewrite Hq, Lsk. lia. }
    exists ((payload, rec) :: recs), c', rx_end.
    split; [|split; [|split; [|split; [|split; [|split; [|split]]]]]].
    + rewrite Hwl. cbn [map snd concat]. rewrite <- app_assoc, Lsk.
      replace (n + m + (len data - m)) with (n + len data) by lia. reflexivity.
    + cbn [rchain]. split; [|split].
      * exists (outer_typ (h_vers (cn_out c)) typ), body. split; [reflexivity|].
        rewrite Hv in Hb. unfold body_slack, maxCiphertextTLS13, maxCiphertext, maxPlaintext in *.
        destruct (cn_vers c =? V13); lia.
      * lia.
      * exists rx'. split; [exact Hd|]. exact Hch.
    + exact Hse.
    + cbn [map fst concat]. rewrite Hcat. apply firstn_skipn.
    + exact Hw'.
    + eapply same_read_side_trans; [|exact Hsame]. unfold same_read_side, c1. cbn. tauto.
    + unfold c1 in Hsq. cbn [cn_out with_out] in Hsq. rewrite Hq, Lsk in Hsq. lia.
    + intros Hn13 rec0 [<- | Hin]; [|apply Hty; [exact Hn13|exact Hin]].
      cbn [snd]. unfold rec, outer_typ. rewrite Hv. replace (cn_vers c =? V13) with false by lia. reflexivity.
Qed.


(* conn.go:977 writeRecordLocked for application data / handshake records *)
Lemma write_record_ok c typ data rnd rx :
  wconn_ok c -> synced (cn_out c) rx -> typ <> 0 -> typ <> rtCCS -> rnd_ok rnd ->
  h_seq (cn_out c) + len data < 18446744073709551616 ->
  exists recs c' rx_end,
    write_record_locked P c typ data rnd = Ok (concat (map snd recs), len data, c') /\
    rchain (cn_vers c) typ rx recs rx_end /\ synced (cn_out c') rx_end /\
    concat (map fst recs) = data /\ wconn_ok c' /\ same_read_side c c' /\
    h_seq (cn_out c') <= h_seq (cn_out c) + len data /\
    (cn_vers c <> V13 -> forall rec, In rec recs -> nth 0 (snd rec) 0 = typ).
Proof.
  intros Hw Hs Ht Hccs Hrnd Hseq.
  destruct (write_loop_ok (length data) c typ data rnd [] 0 rx Hw Hs Ht Hrnd (le_n _) Hseq)
    as (recs & c' & rx_end & Hwl & Hrest).
  exists recs, c', rx_end. split; [|exact Hrest].
  unfold write_record_locked. rewrite Hwl. cbn [bind app].
  replace (typ =? rtCCS) with false by lia. cbn [andb]. rewrite N.add_0_l. reflexivity.
Qed.

(* fragment_bounds + the write half of stream_integrity for Conn.Write / UConn.Write *)
Theorem conn_write_ok c b rnd rx :
  wconn_ok c -> synced (cn_out c) rx -> rnd_ok rnd ->
  h_seq (cn_out c) + len b < 18446744073709551616 ->
  exists recs c' rx_end,
    conn_write P c b rnd = Ok (concat (map snd recs), len b, c') /\
    rchain (cn_vers c) rtAppData rx recs rx_end /\ synced (cn_out c') rx_end /\
    concat (map fst recs) = b /\ wconn_ok c' /\ same_read_side c c' /\
    h_seq (cn_out c') <= h_seq (cn_out c) + len b.
Proof.
  intros Hw Hs Hrnd Hseq.
  assert (H23 : rtAppData <> 0) by discriminate. assert (H23' : rtAppData <> rtCCS) by discriminate.
  unfold conn_write.
  destruct ((1 <? len b) && (if cn_uconn c then cn_vers c <=? V10 else cn_vers c =? V10) && is_block_mode (cn_out c)) eqn:Esplit.
  - (* 1/n-1 split *)
    assert (Lb : len b = len (firstn 1 b) + len (skipn 1 b)).
    { rewrite <- len_app, firstn_skipn. reflexivity. }
    assert (L1 : len (firstn 1 b) <= 1).
    { unfold len. rewrite firstn_length. lia. }
    destruct (write_record_ok c rtAppData (firstn 1 b) rnd rx Hw Hs H23 H23' Hrnd ltac:(lia))
      as (r1 & c1 & rx1 & E1 & Hc1 & Hs1 & Hcat1 & Hw1 & Hsame1 & Hq1 & _).
    rewrite E1. cbn [bind].
    destruct (write_record_ok c1 rtAppData (skipn 1 b) rnd rx1 Hw1 Hs1 H23 H23' Hrnd ltac:(lia))
      as (r2 & c2 & rx2 & E2 & Hc2 & Hs2 & Hcat2 & Hw2 & Hsame2 & Hq2 & _).
    rewrite E2. cbn [bind].
    exists (r1 ++ r2), c2, rx2.
    assert (Hv1 : cn_vers c1 = cn_vers c) by apply Hsame1.
    split; [|split; [|split; [|split; [|split; [|split]]]]].
    + rewrite map_app, concat_app.
      assert (Hb1 : len (firstn 1 b) = 1).
      { apply andb_true_iff in Esplit. destruct Esplit as [E _]. apply andb_true_iff in E. destruct E as [E _].
        unfold len in *. rewrite firstn_length. lia. }
      replace (len (skipn 1 b) + 1) with (len b) by lia. reflexivity.
    + eapply rchain_app; [exact Hc1|]. rewrite <- Hv1. exact Hc2.
    + exact Hs2.
    + rewrite map_app, concat_app, Hcat1, Hcat2. apply firstn_skipn.
    + exact Hw2.
    + eapply same_read_side_trans; eassumption.
    + lia.
  - destruct (write_record_ok c rtAppData b rnd rx Hw Hs H23 H23' Hrnd Hseq)
      as (r1 & c1 & rx1 & E1 & Hc1 & Hs1 & Hcat1 & Hw1 & Hsame1 & Hq1 & _).
    exists r1, c1, rx1. tauto.
Qed.

End Stream.

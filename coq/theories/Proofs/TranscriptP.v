(* C11: lemmas about Model/Transcript.v and the negotiated parameters of Model/Negotiate.v. *)
From Coq Require Import ZifyBool ZifyNat ZifyN.
From UV Require Import Base.Common Model.Negotiate Proofs.NegotiateP Model.Transcript.
From UV Require Model.Complete.
Open Scope N_scope.

(* ------------------------------------------------------------------ *)
(* transcripts *)

Lemma hello_part_equal H s m : client_hello_part H s m = server_hello_part H s m.
Proof. unfold client_hello_part, server_hello_part. destruct (s_hrr s); reflexivity. Qed.

Lemma to_server_finished_equal H s m : client_to_server_finished H s m = server_to_server_finished H s m.
Proof. unfold client_to_server_finished, server_to_server_finished. rewrite hello_part_equal. reflexivity. Qed.

Lemma to_client_finished_equal H s m : client_to_client_finished H s m = server_to_client_finished H s m.
Proof. unfold client_to_client_finished, server_to_client_finished. rewrite to_server_finished_equal. reflexivity. Qed.

(* the message-hash substitution really replaces the first hello: after a HelloRetryRequest the transcript
   starts with 254 0 0 |H(ch1)| H(ch1), followed by HRR and the second hello *)
Lemma hrr_substitution H s m : s_hrr s = true ->
  client_hello_part H s m = [254; 0; 0; u8 (N.of_nat (length (H (m_ch1 m))))] ++ H (m_ch1 m) ++ m_hrr m ++ m_ch2 m.
Proof.
  intros E. unfold client_hello_part, message_hash. rewrite E. cbn zeta. rewrite <- !app_assoc. reflexivity.
Qed.

Lemma ekm13_equal H xs ekm master s m label ctx n :
  client_ekm13 H xs ekm master s m label ctx n = server_ekm13 H xs ekm master s m label ctx n.
Proof. unfold client_ekm13, server_ekm13. rewrite to_server_finished_equal. reflexivity. Qed.

Lemma session12_equal s m : client_session12 s m = server_session12 s m.
Proof. reflexivity. Qed.

Lemma ekm12_equal H ms ekm pre s m label ctx n :
  client_ekm12 H ms ekm pre s m label ctx n = server_ekm12 H ms ekm pre s m label ctx n.
Proof. reflexivity. Qed.

(* ------------------------------------------------------------------ *)
(* negotiated parameters: what a completed client reports is what the server's messages say *)

Lemma run13_state v fl st : run13 v fl = Complete st ->
  st = mkState V13 (h_suite (f_sh fl)) (h_share (f_sh fl)) (f_ee_alpn fl)
               (match f_hrr fl with Some _ => true | None => false end)
               (match h_psk (f_sh fl) with Some _ => true | None => false end)
  /\ h_sv (f_sh fl) = V13.
Proof.
  unfold run13.
  destruct ((cv_ecdhe v =? 0) || _); [discriminate|].
  assert (Hpsk : forall shares suite psk, process_sh13 v shares suite (f_sh fl) = inr psk ->
                  psk = match h_psk (f_sh fl) with Some _ => true | None => false end).
  { intros shares suite psk. unfold process_sh13.
    destruct (h_cookie (f_sh fl)); [discriminate|]. destruct (negb (h_selgroup (f_sh fl) =? 0)); [discriminate|].
    destruct (h_share (f_sh fl) =? 0); [discriminate|]. destruct (negb (memN _ shares)); [discriminate|].
    destruct (h_psk (f_sh fl)) as [i|]; [|intros E; inversion E; reflexivity].
    destruct (cv_psk v <=? i); [discriminate|]. destruct (negb (cv_psk v =? 1) || _); [discriminate|].
    destruct (negb (memN _ tls13_suites)); [discriminate|]. destruct (negb (_ =? _)); [discriminate|].
    intros E; inversion E; reflexivity. }
  destruct (f_hrr fl) as [hrr|] eqn:Ehrr.
  - destruct (check_hello13 v None hrr) as [a|suite0] eqn:E1; [discriminate|].
    destruct (process_hrr v hrr) as [a|[shares ecdhe]] eqn:E2; [discriminate|].
    destruct (check_hello13 v (Some suite0) (f_sh fl)) as [a|suite] eqn:E3; [discriminate|].
    destruct (process_sh13 v shares suite (f_sh fl)) as [a|psk] eqn:E4; [discriminate|].
    destruct (establish_keys _ _ _); [discriminate|].
    destruct (f_crypto_ok fl); [|discriminate]. cbn [negb].
    destruct (check_alpn (cv_alpn v) (f_ee_alpn fl)); [|discriminate]. cbn [negb].
    destruct (if psk then None else check_ccert v (f_ccert fl)); [discriminate|].
    intros E; inversion E; subst st; clear E.
    apply check_hello13_inv in E3. destruct E3 as (B1 & _ & _ & _ & _ & B6 & _).
    rewrite (Hpsk _ _ _ E4), B1. split; [reflexivity | exact B6].
  - destruct (check_hello13 v None (f_sh fl)) as [a|suite] eqn:E1; [discriminate|].
    destruct (process_sh13 v (cv_shares v) suite (f_sh fl)) as [a|psk] eqn:E4; [discriminate|].
    destruct (establish_keys _ _ _); [discriminate|].
    destruct (f_crypto_ok fl); [|discriminate]. cbn [negb].
    destruct (check_alpn (cv_alpn v) (f_ee_alpn fl)); [|discriminate]. cbn [negb].
    destruct (if psk then None else check_ccert v (f_ccert fl)); [discriminate|].
    intros E; inversion E; subst st; clear E.
    apply check_hello13_inv in E1. destruct E1 as (B1 & _ & _ & _ & _ & B6 & _).
    rewrite (Hpsk _ _ _ E4), B1. split; [reflexivity | exact B6].
Qed.

Lemma run12_state e v vers h fl st : run12 e v vers h fl = Complete st ->
  st = mkState vers (h_suite h) (match f_skx fl with Some c => c | None => 0 end) (h_alpn h) false false.
Proof.
  unfold run12.
  destruct (negb _); [discriminate|]. destruct (negb (h_comp h =? 0)); [discriminate|].
  destruct (negb (check_alpn _ _)); [discriminate|]. destruct (process_skx _ _ _ _); [discriminate|].
  destruct (negb (f_crypto_ok fl)); [discriminate|]. intros E; inversion E; reflexivity.
Qed.

(* f_hrr = None: the ServerHello is the first hello the version was picked from. With a HelloRetryRequest
   the (TLS 1.3) ServerHello's own supported_versions is checked by check_hello13. *)
Lemma params_agree e v fl st : client_run_gen e v fl = Complete st ->
  let ss := server_state fl in
  cs_vers st = ss_vers ss /\ cs_suite st = ss_suite ss /\ cs_group st = ss_group ss /\
  cs_alpn st = ss_alpn ss /\ cs_psk st = ss_resumed ss.
Proof.
  unfold client_run_gen.
  set (first := match f_hrr fl with Some h => h | None => f_sh fl end).
  destruct (pick_version v first) as [vers|] eqn:E1; [|discriminate].
  destruct (negb (version_offered e v vers)); [discriminate|].
  destruct (canary_abort e v vers first); [discriminate|].
  pose proof (pick_version_peer _ _ _ E1) as Ep.
  destruct (vers =? V13) eqn:E4.
  - intros Hr. apply run13_state in Hr. destruct Hr as [-> Hsv].
    unfold server_state. fold first. rewrite <- Ep, E4. cbn. apply N.eqb_eq in E4. repeat split; auto.
  - intros Hr. apply run12_state in Hr. subst st.
    unfold server_state. fold first. rewrite <- Ep, E4. cbn. repeat split; reflexivity.
Qed.

(* the same over the decision function that carries the repaired key selection (fixes/C18-keyshare-private-keys.diff:
   establishHandshakeKeys uses keyShareKeys.ecdheKeyFor(serverShare.group)): Complete.client_run10 is client_run_gen on the
   view whose ecdhe curve is that of the selected key, for either state of the repair and every retained-key shape *)
Lemma params_agree10 fixed e v ks fl st : Complete.client_run10 fixed e v ks fl = Complete st ->
  let ss := server_state fl in
  cs_vers st = ss_vers ss /\ cs_suite st = ss_suite ss /\ cs_group st = ss_group ss /\
  cs_alpn st = ss_alpn ss /\ cs_psk st = ss_resumed ss.
Proof. unfold Complete.client_run10. apply params_agree. Qed.

(* TLS <= 1.2 resumption: the client reports the ServerHello's values, in particular the protocol of THIS ServerHello
   (none if it carries none), never the cached session's *)
Lemma resume12_agree e v se vers h h_ems ok st : client_resume12 e v se vers h h_ems ok = Complete st ->
  let ss := server_state_resumed12 vers h in
  cs_vers st = ss_vers ss /\ cs_suite st = ss_suite ss /\ cs_group st = ss_group ss /\
  cs_alpn st = ss_alpn ss /\ cs_psk st = ss_resumed ss.
Proof.
  unfold client_resume12.
  repeat match goal with |- context [if ?b then _ else _] => destruct b; [discriminate|] end.
  intros E; inversion E; subst st. cbn. repeat split; reflexivity.
Qed.

(* ------------------------------------------------------------------ *)
(* server name *)

Definition is_sni (e : sni_item) : bool := match e with SniExt _ => true | NoSni => false end.
Definition sni_count (exts : list sni_item) : nat := length (filter is_sni exts).

Lemma no_sni_neutral host start exts : sni_count exts = 0%nat ->
  apply_config host start exts = start /\ wire_snis host exts = [].
Proof.
  revert start. induction exts as [|e exts IH]; intros start Hc; [split; reflexivity|].
  destruct e as [n|]; unfold sni_count in Hc; cbn [filter is_sni length] in Hc; [discriminate|].
  unfold apply_config, wire_snis in *. cbn [fold_left flat_map app]. apply IH. exact Hc.
Qed.

(* after the repair: whatever Config.ServerName is, the client reports exactly what it put on the wire *)
Lemma server_name_fixed host cfg exts : (sni_count exts <= 1)%nat ->
  server_server_name host exts = Some (client_server_name host true cfg exts).
Proof.
  unfold client_server_name, server_server_name.
  induction exts as [|e exts IH]; intros Hc; [reflexivity|].
  destruct e as [n|].
  - unfold sni_count in Hc. cbn [filter is_sni length] in Hc.
    assert (H0 : sni_count exts = 0%nat) by (unfold sni_count; lia).
    unfold apply_config, wire_snis. cbn [fold_left flat_map].
    destruct (no_sni_neutral host (host n) exts H0) as [Ha Hw].
    unfold apply_config, wire_snis in Ha, Hw. rewrite Ha, Hw.
    destruct (host n); reflexivity.
  - unfold apply_config, wire_snis in *. cbn [fold_left flat_map app]. apply IH.
    unfold sni_count in *. cbn [filter is_sni] in Hc. exact Hc.
Qed.

(* before the repair the same holds only when the spec HAS an SNI extension ... *)
Lemma server_name_unfixed_with_sni host cfg exts : sni_count exts = 1%nat ->
  server_server_name host exts = Some (client_server_name host false cfg exts).
Proof.
  unfold client_server_name, server_server_name.
  generalize (host cfg) as start.
  induction exts as [|e exts IH]; intros start Hc; [discriminate|].
  destruct e as [n|].
  - unfold sni_count in Hc. cbn [filter is_sni length] in Hc.
    assert (H0 : sni_count exts = 0%nat) by (unfold sni_count; lia).
    unfold apply_config, wire_snis. cbn [fold_left flat_map].
    destruct (no_sni_neutral host (host n) exts H0) as [Ha Hw].
    unfold apply_config, wire_snis in Ha, Hw. rewrite Ha, Hw.
    destruct (host n); reflexivity.
  - unfold apply_config, wire_snis in *. cbn [fold_left flat_map app]. apply IH.
    unfold sni_count in *. cbn [filter is_sni] in Hc. exact Hc.
Qed.

(* ... and fails without one (F-11): RemoveSNIExtension / a spec without SNI, Config.ServerName = "example.com" *)
Definition f11_name : bytes := [101; 120; 97; 109; 112; 108; 101; 46; 99; 111; 109].
Lemma server_name_unfixed_refuted :
  ~ (forall (host : bytes -> bytes) cfg exts, (sni_count exts <= 1)%nat ->
       server_server_name host exts = Some (client_server_name host false cfg exts)).
Proof.
  intros Hall. specialize (Hall (fun b => b) f11_name [NoSni] ltac:(cbn; lia)).
  vm_compute in Hall. discriminate Hall.
Qed.

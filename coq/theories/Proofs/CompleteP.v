(* C10 proofs: a spec satisfying c10_cond completes on every compliant flight; the excluded classes abort;
   the key condition follows from ApplyPreset's bookkeeping (Proofs/KeyShareP.v) for the repaired code. *)
From UV Require Import Base.Common Model.Negotiate Model.KeyShare Model.Complete Proofs.NegotiateP Proofs.KeyShareP.
From Coq Require Import ZifyBool ZifyNat ZifyN.

Ltac bsplit H := repeat (let X := fresh "B" in apply andb_true_iff in H; destruct H as [H X]).
Ltac bs H X := apply andb_true_iff in H; destruct H as [H X].

Record spec_facts (fixed : bool) (e : env) (v : client_view) (ks : kshape) (m : N) (w : wire_view) : Prop := {
  sf_synced : synced v w = true;
  sf_vers : versions_ok e v m w = true;
  sf_keys : keys_ok fixed v ks = true;
  sf_mlkem : cv_mlkem v = sh_mlkem ks;
  sf_ech : cv_ech v = false;
  sf_ccext : is_nil (w_ccalgs w) = false -> cv_ccext v = true;
  sf_shares13 : is_nil (cv_shares v) = false -> offers13 w = true;
  sf_13shares : offers13 w = true -> is_nil (cv_shares v) = false
}.

Lemma spec_ok_inv fixed e v ks m w : spec_ok fixed e v ks m w = true -> spec_facts fixed e v ks m w.
Proof.
  unfold spec_ok. intros H. bs H Q8. bs H Q7. bs H Q6. bs H Q5. bs H Q4. bs H Q3. bs H Q2.
  constructor; auto.
  - apply eqb_prop. exact Q4.
  - apply negb_true_iff. exact Q5.
  - intros N. rewrite N in Q6. exact Q6.
  - intros N. rewrite N in Q7. exact Q7.
  - intros O. rewrite O in Q8. apply negb_true_iff. exact Q8.
Qed.

Record c13_facts (w : wire_view) (fl : flight) : Prop := {
  c_off : offers13 w = true;
  c_sh : compliant_hello13 w (f_sh fl) = true;
  c_tail : h_tail (f_sh fl) = 0;
  c_cookie : h_cookie (f_sh fl) = false;
  c_sel : h_selgroup (f_sh fl) = 0;
  c_gimpl : group_impl (h_share (f_sh fl)) = true;
  c_gw : memN (h_share (f_sh fl)) (w_groups w) = true;
  c_hrr : match f_hrr fl with
          | None => memN (h_share (f_sh fl)) (w_shares w)
          | Some h =>
              compliant_hello13 w h && (h_tail h =? 0) && (h_share h =? 0) && (h_suite h =? h_suite (f_sh fl))
              && ((negb (h_selgroup h =? 0) && memN (h_selgroup h) (w_groups w) && negb (memN (h_selgroup h) (w_shares w))
                   && (h_share (f_sh fl) =? h_selgroup h))
                  || ((h_selgroup h =? 0) && h_cookie h && memN (h_share (f_sh fl)) (w_shares w)))
          end = true;
  c_alpn : is_nil (f_ee_alpn fl) || memB (f_ee_alpn fl) (w_alpn w) = true;
  c_cc : match f_ccert fl with None => true | Some a => memN a (w_ccalgs w) && memN a [1; 2; 3] end = true;
  c_skx : f_skx fl = None;
  c_crypto : f_crypto_ok fl = true
}.

Lemma compliant13_inv w fl : compliant13 w fl = true -> c13_facts w fl.
Proof.
  unfold compliant13. intros H. bs H Q12. bs H Q11. bs H Q10. bs H Q9. bs H Q8. bs H Q7. bs H Q6. bs H Q5. bs H Q4. bs H Q3. bs H Q2.
  constructor; auto.
  - apply N.eqb_eq. exact Q3.
  - apply negb_true_iff. exact Q4.
  - apply N.eqb_eq. exact Q5.
  - destruct (f_skx fl); [discriminate|reflexivity].
Qed.

Record h13_facts (w : wire_view) (h : hello_msg) : Prop := {
  h_f_vers : h_vers h = V12; h_f_sv : h_sv h = V13; h_f_sid : h_sid h = w_sid w; h_f_comp : h_comp h = 0;
  h_f_suite : memN (h_suite h) (w_suites w) = true; h_f_s13 : memN (h_suite h) tls13_suites = true;
  h_f_alpn : h_alpn h = []; h_f_psk : h_psk h = None
}.
Lemma compliant_hello13_inv w h : compliant_hello13 w h = true -> h13_facts w h.
Proof.
  unfold compliant_hello13. intros H. bs H Q8. bs H Q7. bs H Q6. bs H Q5. bs H Q4. bs H Q3. bs H Q2.
  constructor; auto.
  - apply N.eqb_eq; auto. - apply N.eqb_eq; auto. - apply bytes_eqb_eq; auto. - apply N.eqb_eq; auto.
  - destruct (h_alpn h); [reflexivity|discriminate]. - destruct (h_psk h); [discriminate|reflexivity].
Qed.

Lemma memB_nonnil x l : memB x l = true -> l <> [].
Proof. destruct l; [discriminate|congruence]. Qed.

Lemma check_alpn_ok client server : is_nil server || memB server client = true -> check_alpn client server = true.
Proof.
  unfold check_alpn. destruct server as [|b s]; [reflexivity|]. simpl. intros H.
  destruct client; [discriminate|exact H].
Qed.

Lemma group_impl_nonzero g : group_impl g = true -> g <> 0.
Proof. intros H ->. vm_compute in H. discriminate. Qed.

Lemma offers13_adv m w : offers13 w = true -> memN V13 (advertised m w) = true.
Proof.
  unfold offers13, advertised. intros H. apply andb_true_iff in H as [A B]. rewrite A.
  apply memN_In. apply filter_In. split; [apply memN_In; exact B|reflexivity].
Qed.

Lemma versions_ok_in e v m w x : versions_ok e v m w = true -> memN x (advertised m w) = true ->
  memN x (client_versions v) = true /\ version_offered e v x = true.
Proof.
  unfold versions_ok. intros H M. apply andb_true_iff in H as [A _]. rewrite forallb_forall in A.
  apply memN_In in M. specialize (A _ M). apply andb_true_iff in A. exact A.
Qed.

Lemma check_hello13_ok v w prev h :
  cv_sid v = w_sid w -> cv_suites v = w_suites w -> compliant_hello13 w h = true ->
  (forall p, prev = Some p -> h_suite h = p) -> check_hello13 v prev h = inr (h_suite h).
Proof.
  intros S1 S2 C P. destruct (compliant_hello13_inv _ _ C) as [F1 F2 F3 F4 F5 F6 F7 F8].
  unfold check_hello13. rewrite F2, F1, F7, S1, <- F3, F4.
  change (V13 =? 0) with false. change (V13 =? V13) with true. change (V12 =? V12) with true. change (0 =? 0) with true. cbn [negb].
  replace (bytes_eqb (h_sid h) (h_sid h)) with true by (symmetry; apply bytes_eqb_eq; reflexivity). cbn [negb].
  unfold mutual13. rewrite S2, F5, F6. cbn [andb].
  destruct prev as [p|]; [|reflexivity]. rewrite (P p eq_refl), N.eqb_refl. reflexivity.
Qed.

Lemma set_ecdhe_proj v c :
  cv_suites (set_ecdhe v c) = cv_suites v /\ cv_curves (set_ecdhe v c) = cv_curves v /\ cv_shares (set_ecdhe v c) = cv_shares v
  /\ cv_alpn (set_ecdhe v c) = cv_alpn v /\ cv_sid (set_ecdhe v c) = cv_sid v /\ cv_psk (set_ecdhe v c) = cv_psk v
  /\ cv_ecdhe (set_ecdhe v c) = c /\ cv_mlkem (set_ecdhe v c) = cv_mlkem v.
Proof. repeat split. Qed.

Lemma eff_nonzero fixed ks g : sh_ecdhe ks <> 0 -> hybrid g = false -> g <> 0 -> eff_ecdhe fixed ks g <> 0.
Proof.
  intros NZ Hy G. unfold eff_ecdhe. destruct fixed; cbn [negb]; [|exact NZ].
  apply N.eqb_neq in NZ. rewrite NZ, Hy. apply N.eqb_neq in NZ.
  destruct (classical_impl g && negb (sh_ecdhe ks =? g) && memN g (sh_extra ks)); assumption.
Qed.

(* ---- TLS 1.3 ---- *)
Lemma run13_complete fixed v ks m w fl e :
  spec_ok fixed e v ks m w = true -> psk_with_hrr v fl = false -> hrr_to_hybrid fl = false ->
  compliant13 w fl = true ->
  exists st, run13 (set_ecdhe v (if sh_ecdhe ks =? 0 then 0 else eff_ecdhe fixed ks (h_share (f_sh fl)))) fl = Complete st
             /\ cs_vers st = V13 /\ cs_suite st = h_suite (f_sh fl) /\ cs_group st = h_share (f_sh fl)
             /\ cs_alpn st = f_ee_alpn fl.
Proof.
  intros SO NP NH C.
  destruct (spec_ok_inv _ _ _ _ _ _ SO) as [SY SV SK SM SE SCX S13a S13b].
  destruct (synced_inv _ _ SY) as (Ss & Sc & Sh & Sa & Si & Sp & Scc & _).
  destruct (compliant13_inv _ _ C) as [Coff Csh Ctail Ccookie Csel Cgi Cgw Chrr Calpn Ccc Cskx Ccr].
  pose proof (S13b Coff) as B.
  assert (B' : match cv_shares v with [] => true | _ :: _ => false end = false) by exact B.
  unfold keys_ok in SK. apply andb_true_iff in SK as [K0 K1]. rewrite B in K0. cbn [orb] in K0.
  apply negb_true_iff in K0. rewrite K0. cbv beta iota. apply N.eqb_neq in K0.
  set (g := h_share (f_sh fl)) in *.
  pose proof (group_impl_nonzero _ Cgi) as Gnz.
  assert (KEY : memN g (cv_shares v) = true -> establish_keys (eff_ecdhe fixed ks g) (cv_mlkem v) g = None /\ eff_ecdhe fixed ks g <> 0).
  { intros M. rewrite forallb_forall in K1. apply memN_In in M. specialize (K1 _ M). rewrite Cgi in K1. cbn [negb orb] in K1.
    rewrite SM. destruct (establish_keys (eff_ecdhe fixed ks g) (sh_mlkem ks) g) eqn:E; [discriminate|]. split; [reflexivity|].
    intros Z. rewrite Z in E. unfold establish_keys in E. destruct (hybrid g); [discriminate|].
    destruct (N.eqb_spec g 0); [congruence|discriminate]. }
  unfold run13. set (v' := set_ecdhe v _).
  destruct (set_ecdhe_proj v (eff_ecdhe fixed ks g)) as (P1 & P2 & P3 & P4 & P5 & P6 & P7 & P8).
  fold v' in P1, P2, P3, P4, P5, P6, P7, P8.
  assert (ALPN : check_alpn (cv_alpn v') (f_ee_alpn fl) = true) by (rewrite P4, Sa; apply check_alpn_ok; exact Calpn).
  assert (CC : check_ccert v' (f_ccert fl) = None).
  { unfold check_ccert. destruct (f_ccert fl) as [a|]; [|reflexivity]. apply andb_true_iff in Ccc as [A1 A2].
    assert (NN : is_nil (w_ccalgs w) = false) by (destruct (w_ccalgs w); [discriminate|reflexivity]).
    change (cv_ccext v') with (cv_ccext v). change (cv_ccalgs v') with (cv_ccalgs v). rewrite (SCX NN), Scc, A1, A2.
    assert (X : negb (match w_ccalgs w with [] => true | _ => false end) = true) by (destruct (w_ccalgs w); [discriminate|reflexivity]).
    rewrite X. reflexivity. }
  destruct (f_hrr fl) as [h|] eqn:Ehrr.
  - (* HelloRetryRequest *)
    bs Chrr Cway. bs Chrr Csu. bs Chrr Chs. bs Chrr Cht.
    apply N.eqb_eq in Csu. apply N.eqb_eq in Chs.
    unfold psk_with_hrr in NP. rewrite Ehrr, andb_true_r in NP. apply N.ltb_ge in NP.
    unfold hrr_to_hybrid in NH. rewrite Ehrr in NH.
    rewrite (check_hello13_ok v' w None h); [|rewrite P5; exact Si|rewrite P1; exact Ss|exact Chrr|discriminate].
    apply orb_true_iff in Cway as [W|W].
    + (* a group without share *)
      bs W B1. bs W B2. bs W B3. apply negb_true_iff in W. apply negb_true_iff in B2. apply N.eqb_eq in B1.
      assert (CL : classical_impl (h_selgroup h) = true).
      { unfold group_impl in Cgi. fold g in B1. rewrite <- B1. rewrite <- B1 in NH. rewrite NH, orb_false_r in Cgi. exact Cgi. }
      assert (ENZ : (cv_ecdhe v' =? 0) = false).
      { rewrite P7. apply N.eqb_neq. apply eff_nonzero; auto. fold g in B1. rewrite B1. exact NH. }
      rewrite ENZ, P3, B'. cbn [orb].
      unfold process_hrr. rewrite W. cbn [andb negb]. rewrite Chs. change (0 =? 0) with true. cbn [negb].
      rewrite P2, Sc, B3, P3, Sh, B2, CL. cbn [negb].
      replace (0 <? cv_psk v') with false by (rewrite P6; symmetry; apply N.ltb_ge; exact NP).
      rewrite (check_hello13_ok v' w (Some (h_suite h)) (f_sh fl)); [|rewrite P5; exact Si|rewrite P1; exact Ss|exact Csh|intros p Hp; inversion Hp; subst; auto].
      unfold process_sh13. rewrite Ccookie, Csel. change (0 =? 0) with true. cbn [negb].
      fold g. replace (g =? 0) with false by (symmetry; apply N.eqb_neq; exact Gnz).
      rewrite B1. unfold memN at 1. simpl existsb. rewrite N.eqb_refl. cbn [orb negb].
      rewrite (h_f_psk _ _ (compliant_hello13_inv _ _ Csh)).
      unfold establish_keys. rewrite NH, N.eqb_refl.
      rewrite Ccr. cbn [negb]. rewrite ALPN. cbn [negb]. rewrite CC.
      eexists. split; [reflexivity|]. simpl. auto.
    + (* cookie only *)
      bs W B1. bs W B2. apply N.eqb_eq in W. fold g in B1.
      destruct (KEY ltac:(rewrite Sh; exact B1)) as [EK ENZ0].
      assert (ENZ : (cv_ecdhe v' =? 0) = false) by (rewrite P7; apply N.eqb_neq; exact ENZ0).
      rewrite ENZ, P3, B'. cbn [orb].
      unfold process_hrr. rewrite W, B2. change (0 =? 0) with true. cbn [andb negb]. rewrite Chs. change (0 =? 0) with true. cbn [negb].
      replace (0 <? cv_psk v') with false by (rewrite P6; symmetry; apply N.ltb_ge; exact NP).
      rewrite (check_hello13_ok v' w (Some (h_suite h)) (f_sh fl)); [|rewrite P5; exact Si|rewrite P1; exact Ss|exact Csh|intros p Hp; inversion Hp; subst; auto].
      unfold process_sh13. rewrite Ccookie, Csel. change (0 =? 0) with true. cbn [negb].
      fold g. replace (g =? 0) with false by (symmetry; apply N.eqb_neq; exact Gnz).
      rewrite P3, Sh, B1. cbn [negb].
      rewrite (h_f_psk _ _ (compliant_hello13_inv _ _ Csh)).
      rewrite P7, P8, EK, Ccr. cbn [negb]. rewrite ALPN. cbn [negb]. rewrite CC.
      eexists. split; [reflexivity|]. simpl. auto.
  - (* no HelloRetryRequest *)
    fold g in Chrr.
    destruct (KEY ltac:(rewrite Sh; exact Chrr)) as [EK ENZ0].
    assert (ENZ : (cv_ecdhe v' =? 0) = false) by (rewrite P7; apply N.eqb_neq; exact ENZ0).
    rewrite ENZ, P3, B'. cbn [orb].
    rewrite (check_hello13_ok v' w None (f_sh fl)); [|rewrite P5; exact Si|rewrite P1; exact Ss|exact Csh|discriminate].
    unfold process_sh13. rewrite Ccookie, Csel. change (0 =? 0) with true. cbn [negb].
    fold g. replace (g =? 0) with false by (symmetry; apply N.eqb_neq; exact Gnz).
    try rewrite P3. rewrite Sh, Chrr. cbn [negb].
    rewrite (h_f_psk _ _ (compliant_hello13_inv _ _ Csh)).
    rewrite P7, P8, EK, Ccr. cbn [negb]. rewrite ALPN. cbn [negb]. rewrite CC.
    eexists. split; [reflexivity|]. simpl. auto.
Qed.

(* ---- TLS <= 1.2 ---- *)
Lemma run12_complete e v w vers fl c :
  synced v w = true ->
  memN (h_suite (f_sh fl)) (w_suites w) = true -> memN (h_suite (f_sh fl)) (e_impl12 e) = true -> h_comp (f_sh fl) = 0 ->
  is_nil (h_alpn (f_sh fl)) || memB (h_alpn (f_sh fl)) (w_alpn w) = true ->
  (if memN (h_suite (f_sh fl)) (e_ecdhe12 e)
   then match f_skx fl with Some c => classical_impl c && memN c (w_groups w) | None => false end
   else is_none (f_skx fl)) = true ->
  f_crypto_ok fl = true ->
  exists st, run12 e (set_ecdhe v c) vers (f_sh fl) fl = Complete st /\ cs_vers st = vers /\ cs_suite st = h_suite (f_sh fl)
             /\ cs_alpn st = h_alpn (f_sh fl).
Proof.
  intros SY Hs Hi Hc Ha Hk Hcr.
  destruct (synced_inv _ _ SY) as (Ss & Sc & Sh & Sa & Si & Sp & Scc & _).
  unfold run12. change (cv_suites (set_ecdhe v c)) with (cv_suites v). change (cv_alpn (set_ecdhe v c)) with (cv_alpn v).
  rewrite Ss, Hs, Hi, Hc. change (0 =? 0) with true. cbn [andb negb].
  rewrite Sa, (check_alpn_ok _ _ Ha). cbn [negb].
  assert (SK : process_skx e (set_ecdhe v c) (h_suite (f_sh fl)) (f_skx fl) = None).
  { unfold process_skx. destruct (memN (h_suite (f_sh fl)) (e_ecdhe12 e)).
    - destruct (f_skx fl) as [cu|]; [|discriminate]. apply andb_true_iff in Hk as [K1 K2]. rewrite K1. cbn [negb].
      change (cv_curves (set_ecdhe v c)) with (cv_curves v). rewrite Sc, K2. cbn [negb]. rewrite andb_false_r. reflexivity.
    - destruct (f_skx fl); [discriminate|reflexivity]. }
  rewrite SK, Hcr. cbn [negb]. eexists. split; [reflexivity|]. simpl. auto.
Qed.

(* ---- the conditional: a spec satisfying c10_cond completes on every compliant flight ---- *)
Theorem c10_holds_if fixed e v ks m w fl :
  c10_cond fixed e v ks m w fl = true -> compliant e m w fl = true ->
  exists st, client_run10 fixed e v ks fl = Complete st
             /\ cs_suite st = h_suite (f_sh fl)
             /\ ((cs_vers st = V13 /\ cs_group st = h_share (f_sh fl) /\ cs_alpn st = f_ee_alpn fl)
                 \/ (cs_vers st = h_vers (f_sh fl) /\ cs_vers st <> V13 /\ cs_alpn st = h_alpn (f_sh fl))).
Proof.
  unfold c10_cond. intros H C. bs H NH. bs H NP. apply negb_true_iff in NH, NP.
  destruct (spec_ok_inv _ _ _ _ _ _ H) as [SY SV SK SM SE SCX S13a S13b].
  unfold client_run10, client_run_gen. set (c := if sh_ecdhe ks =? 0 then 0 else _).
  unfold compliant in C.
  destruct (h_sv (match f_hrr fl with Some h => h | None => f_sh fl end) =? 0) eqn:SV0.
  - (* TLS <= 1.2 *)
    unfold compliant12 in C.
    bs C Ccr. bs C Cskx. bs C Calpn. bs C Ccomp. bs C Cimpl. bs C Csuite. bs C Ctail. bs C Cadv. bs C Clt. bs C Csv0.
    destruct (f_hrr fl); [discriminate|]. clear C.
    apply N.eqb_eq in Csv0. apply N.eqb_eq in Ccomp. apply N.ltb_lt in Clt.
    destruct (versions_ok_in _ _ _ _ _ SV Cadv) as [V1 V2].
    unfold pick_version. rewrite Csv0. change (0 =? 0) with true. cbv beta iota.
    change (client_versions (set_ecdhe v c)) with (client_versions v). rewrite V1.
    change (version_offered e (set_ecdhe v c) (h_vers (f_sh fl))) with (version_offered e v (h_vers (f_sh fl))). rewrite V2. cbn [negb].
    assert (CAN : canary_abort e (set_ecdhe v c) (h_vers (f_sh fl)) (f_sh fl) = false).
    { unfold canary_abort. change (offered_max e (set_ecdhe v c)) with (offered_max e v).
      unfold versions_ok in SV. apply andb_true_iff in SV as [_ OM].
      apply orb_true_iff in Ctail as [T|T]; [apply orb_true_iff in T as [T|T]|].
      - apply N.eqb_eq in T. rewrite T. change (0 =? 1) with false. change (0 =? 2) with false. cbn [orb]. rewrite !andb_false_r. reflexivity.
      - bs T T3. bs T T2. apply N.eqb_eq in T. apply N.eqb_eq in T2. apply negb_true_iff in T3.
        rewrite T, T2. change (1 =? 2) with false. rewrite !andb_false_r, orb_false_r.
        destruct (N.eqb_spec (offered_max e v) V13) as [E|_]; [rewrite E in OM; congruence|reflexivity].
      - bs T T4. bs T T3. bs T T2. apply negb_true_iff in T3, T4.
        destruct (N.eqb_spec (offered_max e v) V13) as [E|_]; [rewrite E in OM; congruence|].
        destruct (N.eqb_spec (offered_max e v) V12) as [E|_]; [rewrite E in OM; congruence|]. reflexivity. }
    rewrite CAN.
    assert (NE : h_vers (f_sh fl) <> V13) by (clear -Clt; unfold V13 in *; lia).
    replace (h_vers (f_sh fl) =? V13) with false by (symmetry; apply N.eqb_neq; exact NE).
    destruct (run12_complete e v w (h_vers (f_sh fl)) fl c SY Csuite Cimpl Ccomp Calpn Cskx Ccr) as (st & R & A1 & A2 & A3).
    exists st. split; [exact R|]. split; [exact A2|]. right. split; [exact A1|]. split; [rewrite A1; exact NE|exact A3].
  - (* TLS 1.3 *)
    destruct (compliant13_inv _ _ C) as [Coff Csh Ctail Ccookie Csel Cgi Cgw Chrr Calpn Ccc Cskx Ccr].
    assert (F1 : h_sv (match f_hrr fl with Some h => h | None => f_sh fl end) = V13 /\ h_tail (match f_hrr fl with Some h => h | None => f_sh fl end) = 0).
    { destruct (f_hrr fl) as [h|].
      - bs Chrr X1. bs Chrr X2. bs Chrr X3. bs Chrr X4. split; [exact (h_f_sv _ _ (compliant_hello13_inv _ _ Chrr))|apply N.eqb_eq; exact X4].
      - split; [exact (h_f_sv _ _ (compliant_hello13_inv _ _ Csh))|exact Ctail]. }
    destruct F1 as [F1 F2].
    destruct (versions_ok_in _ _ _ _ _ SV (offers13_adv m w Coff)) as [V1 V2].
    unfold pick_version. rewrite F1. change (V13 =? 0) with false. cbv beta iota.
    change (client_versions (set_ecdhe v c)) with (client_versions v). rewrite V1.
    change (version_offered e (set_ecdhe v c) V13) with (version_offered e v V13). rewrite V2. cbn [negb].
    unfold canary_abort. change (V13 <=? V12) with false. change (V13 <=? V11) with false. rewrite !andb_false_r. cbn [orb].
    change (V13 =? V13) with true. cbv beta iota.
    destruct (run13_complete fixed v ks m w fl e H NP NH C) as (st & R & A1 & A2 & A3 & A4).
    exists st. split; [exact R|]. split; [exact A2|]. left. auto.
Qed.

(* ---- the excluded classes really abort: counterexamples to the full statement ---- *)
Definition counterexample (fixed : bool) (v : client_view) (ks : kshape) (m : N) (w : wire_view) (fl : flight) (alert : N) : Prop :=
  spec_pre env_fixed v ks m w = true /\ wf_groups (cv_shares v) = true /\ preset_shape fixed (cv_shares v) = Some ks
  /\ compliant env_fixed m w fl = true /\ client_run10 fixed env_fixed v ks fl = Abort alert.

(* PSK offered + HelloRetryRequest for an offered group: "uTLS does not support reprocessing of PSK" *)
Lemma psk_hrr_counterexample :
  let ks := mkShape 29 [] false 0 in
  counterexample true (wit_view [29; 23] [29] 1 ks) ks V12 (wit_wire [29; 23] [29] 1) (wit_flight (Some 23) 23) a_none.
Proof. vm_compute. repeat split. Qed.

(* supported_groups lists a hybrid group without a key share, the server asks for it in a HelloRetryRequest *)
Lemma hrr_hybrid_counterexample :
  let ks := mkShape 29 [] false 0 in
  counterexample true (wit_view [4588; 29; 23] [29] 0 ks) ks V12 (wit_wire [4588; 29; 23] [29] 0) (wit_flight (Some 4588) 4588) a_internal_error.
Proof. vm_compute. repeat split. Qed.

(* before the repair: two classical shares, the server selects the second *)
Lemma second_share_counterexample :
  let ks := mkShape 29 [] false 0 in
  counterexample false (wit_view [29; 23] [29; 23] 0 ks) ks V12 (wit_wire [29; 23] [29; 23] 0) (wit_flight None 23) a_illegal_parameter.
Proof. vm_compute. repeat split. Qed.

(* ... and after it the same hello completes on both shares, and on P-384 through a HelloRetryRequest *)
Lemma second_share_fixed :
  let ks := mkShape 29 [23] false 0 in
  preset_shape true [29; 23] = Some ks
  /\ forall fl, In fl [wit_flight None 29; wit_flight None 23; wit_flight (Some 24) 24] ->
       c10_cond true env_fixed (wit_view [29; 23; 24] [29; 23] 0 ks) ks V12 (wit_wire [29; 23; 24] [29; 23] 0) fl = true
       /\ compliant env_fixed V12 (wit_wire [29; 23; 24] [29; 23] 0) fl = true.
Proof.
  split; [vm_compute; reflexivity|]. intros fl H. simpl in H.
  repeat (destruct H as [<-|H]; [vm_compute; split; reflexivity|]). destruct H.
Qed.

Lemma counterexample_refutes fixed v ks m w fl a : counterexample fixed v ks m w fl a -> ~ C10_full fixed.
Proof.
  intros (A & B & C & D & E) F. destruct (F v ks m w fl A B C D) as (st & G). rewrite E in G. discriminate.
Qed.

Theorem C10_full_refuted_fixed : ~ C10_full true.
Proof. exact (counterexample_refutes _ _ _ _ _ _ _ psk_hrr_counterexample). Qed.
Theorem C10_full_refuted_unfixed : ~ C10_full false.
Proof. exact (counterexample_refutes _ _ _ _ _ _ _ second_share_counterexample). Qed.

(* UConn.Write reports every byte it was given, with or without the 1/n-1 split *)
Lemma uconn_write_all vers cbc len : uconn_write vers cbc len = len.
Proof.
  unfold uconn_write. destruct ((1 <? len) && (vers <=? V10) && cbc) eqn:E; [|reflexivity].
  apply andb_true_iff in E as [E _]. apply andb_true_iff in E as [E _]. apply N.ltb_lt in E. lia.
Qed.

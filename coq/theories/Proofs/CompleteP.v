(* C10 proofs: a spec satisfying c10_cond completes on every compliant flight; the excluded classes abort;
   the key condition follows from ApplyPreset's bookkeeping (Proofs/KeyShareP.v) for the repaired code. *)
From UV Require Import Base.Common Model.Negotiate Model.KeyShare Model.Complete Proofs.NegotiateP Proofs.KeyShareP.
From Coq Require Import ZifyBool ZifyNat ZifyN.

Ltac bsplit H := repeat (let X := fresh "B" in apply andb_true_iff in H; destruct H as [H X]).

Lemma memB_nonnil x l : memB x l = true -> l <> [].
Proof. destruct l; [discriminate|congruence]. Qed.

Lemma check_alpn_ok client server : is_nil server || memB server client = true -> check_alpn client server = true.
Proof.
  unfold check_alpn. destruct server as [|b s]; [reflexivity|]. simpl. intros H.
  destruct client; [discriminate|exact H].
Qed.

Lemma group_impl_nonzero g : group_impl g = true -> g <> 0.
Proof. intros H ->. vm_compute in H. discriminate. Qed.

Lemma offers13_adv m w : offers13 w = true -> memN V13 (advertised m w) = true.
Proof.
  unfold offers13, advertised. intros H. apply andb_true_iff in H as [A B]. rewrite A.
  apply memN_In. apply filter_In. split; [apply memN_In; exact B|reflexivity].
Qed.

Lemma versions_ok_in e v m w x : versions_ok e v m w = true -> memN x (advertised m w) = true ->
  memN x (client_versions v) = true /\ version_offered e v x = true.
Proof.
  unfold versions_ok. intros H M. apply andb_true_iff in H as [A _]. rewrite forallb_forall in A.
  apply memN_In in M. specialize (A _ M). apply andb_true_iff in A. exact A.
Qed.

Lemma check_hello13_ok v w prev h :
  cv_sid v = w_sid w -> cv_suites v = w_suites w -> compliant_hello13 w h = true ->
  (forall p, prev = Some p -> h_suite h = p) -> check_hello13 v prev h = inr (h_suite h).
Proof.
  intros S1 S2 C P. unfold compliant_hello13 in C. bsplit C.
  apply N.eqb_eq in C. apply N.eqb_eq in B5. apply bytes_eqb_eq in B4. apply N.eqb_eq in B3.
  unfold check_hello13. rewrite B5. change (V13 =? 0) with false. change (V13 =? V13) with true. rewrite C.
  change (V12 =? V12) with true. cbn [negb].
  destruct (h_alpn h); [|discriminate]. cbn [negb].
  rewrite S1, <- B4. replace (bytes_eqb (h_sid h) (h_sid h)) with true by (symmetry; apply bytes_eqb_eq; reflexivity).
  rewrite B3. change (0 =? 0) with true. cbn [negb].
  unfold mutual13. rewrite S2, B2, B1. cbn [andb].
  destruct prev as [p|]; [|reflexivity]. rewrite (P p eq_refl), N.eqb_refl. reflexivity.
Qed.

Lemma set_ecdhe_proj v c :
  cv_suites (set_ecdhe v c) = cv_suites v /\ cv_curves (set_ecdhe v c) = cv_curves v /\ cv_shares (set_ecdhe v c) = cv_shares v
  /\ cv_alpn (set_ecdhe v c) = cv_alpn v /\ cv_sid (set_ecdhe v c) = cv_sid v /\ cv_psk (set_ecdhe v c) = cv_psk v
  /\ cv_ecdhe (set_ecdhe v c) = c /\ cv_mlkem (set_ecdhe v c) = cv_mlkem v.
Proof. repeat split. Qed.

Lemma eff_nonzero fixed ks g : sh_ecdhe ks <> 0 -> hybrid g = false -> g <> 0 -> eff_ecdhe fixed ks g <> 0.
Proof.
  intros NZ Hy G. unfold eff_ecdhe. destruct fixed; cbn [negb]; [|exact NZ].
  apply N.eqb_neq in NZ. rewrite NZ, Hy. apply N.eqb_neq in NZ.
  destruct (classical_impl g && negb (sh_ecdhe ks =? g) && memN g (sh_extra ks)); assumption.
Qed.

(* ---- TLS 1.3 ---- *)
Lemma run13_complete fixed v ks m w fl e :
  spec_ok fixed e v ks m w = true -> psk_with_hrr v fl = false -> hrr_to_hybrid fl = false ->
  compliant13 w fl = true ->
  exists st, run13 (set_ecdhe v (if sh_ecdhe ks =? 0 then 0 else eff_ecdhe fixed ks (h_share (f_sh fl)))) fl = Complete st
             /\ cs_vers st = V13 /\ cs_suite st = h_suite (f_sh fl) /\ cs_group st = h_share (f_sh fl)
             /\ cs_alpn st = f_ee_alpn fl.
Proof.
  intros SO NP NH C. unfold spec_ok in SO. bsplit SO.
  destruct (synced_inv _ _ SO) as (Ss & Sc & Sh & Sa & Si & Sp & Scc & _).
  unfold compliant13 in C. bsplit C.
  rename B7 into Cgi. rename B6 into Cgw. rename B5 into Chrr. rename B4 into Calpn. rename B3 into Ccc. rename B2 into Cskx. rename B1 into Ccr.
  rename B8 into Csel. rename B9 into Ccookie. rename B10 into Ctail. rename B11 into Csh.
  apply N.eqb_eq in Csel. apply negb_true_iff in Ccookie.
  (* shares non-empty, ecdhe present *)
  rewrite C in *. cbn [implb] in B. apply negb_true_iff in B.
  unfold keys_ok in B13. apply andb_true_iff in B13 as [K0 K1]. rewrite B in K0. cbn [orb] in K0.
  apply negb_true_iff in K0. rewrite K0. apply N.eqb_neq in K0.
  set (g := h_share (f_sh fl)) in *.
  pose proof (group_impl_nonzero _ Cgi) as Gnz.
  apply eqb_prop in B12.
  assert (KEY : memN g (cv_shares v) = true -> establish_keys (eff_ecdhe fixed ks g) (cv_mlkem v) g = None /\ eff_ecdhe fixed ks g <> 0).
  { intros M. rewrite forallb_forall in K1. apply memN_In in M. specialize (K1 _ M). rewrite Cgi in K1. cbn [negb orb] in K1.
    rewrite B12. destruct (establish_keys (eff_ecdhe fixed ks g) (sh_mlkem ks) g) eqn:E; [discriminate|]. split; [reflexivity|].
    intros Z. rewrite Z in E. unfold establish_keys in E. destruct (hybrid g); [discriminate|].
    destruct (N.eqb_spec g 0); [congruence|discriminate]. }
  unfold run13. set (v' := set_ecdhe v _).
  destruct (set_ecdhe_proj v (eff_ecdhe fixed ks g)) as (P1 & P2 & P3 & P4 & P5 & P6 & P7 & P8).
  fold v' in P1, P2, P3, P4, P5, P6, P7, P8.
  assert (ALPN : check_alpn (cv_alpn v') (f_ee_alpn fl) = true) by (rewrite P4, Sa; apply check_alpn_ok; exact Calpn).
  assert (CC : check_ccert v' (f_ccert fl) = None).
  { unfold check_ccert. destruct (f_ccert fl) as [a|]; [|reflexivity]. apply andb_true_iff in Ccc as [A1 A2].
    assert (NN : is_nil (w_ccalgs w) = false) by (destruct (w_ccalgs w); [discriminate|reflexivity]).
    rewrite NN in B15. cbn [negb implb] in B15.
    change (cv_ccext v') with (cv_ccext v). change (cv_ccalgs v') with (cv_ccalgs v). rewrite B15, Scc.
    destruct (w_ccalgs w) eqn:W; [discriminate|]. cbn [negb andb]. rewrite <- W, A1, A2. reflexivity. }
  destruct (f_hrr fl) as [h|] eqn:Ehrr.
  - (* HelloRetryRequest *)
    bsplit Chrr. rename B1 into Cway. rename B2 into Csu. rename B3 into Chs. rename B4 into Cht.
    apply N.eqb_eq in Csu. apply N.eqb_eq in Chs.
    unfold psk_with_hrr in NP. rewrite Ehrr, andb_true_r in NP. apply N.ltb_ge in NP.
    unfold hrr_to_hybrid in NH. rewrite Ehrr in NH.
    rewrite (check_hello13_ok v' w None h); [|rewrite P5; exact Si|rewrite P1; exact Ss|exact Chrr|discriminate].
    apply orb_true_iff in Cway as [W|W].
    + (* a group without share *)
      bsplit W. apply negb_true_iff in W. apply negb_true_iff in B2. apply N.eqb_eq in B1.
      assert (CL : classical_impl (h_selgroup h) = true).
      { unfold group_impl in Cgi. fold g in B1. rewrite <- B1. rewrite <- B1 in NH. rewrite NH, orb_false_r in Cgi. exact Cgi. }
      assert (ENZ : (cv_ecdhe v' =? 0) = false).
      { rewrite P7. apply N.eqb_neq. apply eff_nonzero; auto. fold g in B1. rewrite B1. exact NH. }
      rewrite ENZ, P3, B. cbn [orb].
      unfold process_hrr. rewrite W. cbn [andb negb]. rewrite Chs. change (0 =? 0) with true. cbn [negb].
      rewrite P2, Sc, B3, P3, Sh, B2, CL. cbn [negb].
      replace (0 <? cv_psk v') with false by (rewrite P6; symmetry; apply N.ltb_ge; exact NP).
      rewrite (check_hello13_ok v' w (Some (h_suite h)) (f_sh fl)); [|rewrite P5; exact Si|rewrite P1; exact Ss|exact Csh|intros p Hp; inversion Hp; subst; auto].
      unfold process_sh13. rewrite Ccookie, Csel. change (0 =? 0) with true. cbn [negb].
      fold g. replace (g =? 0) with false by (symmetry; apply N.eqb_neq; exact Gnz).
      rewrite B1. unfold memN at 1. simpl existsb. rewrite N.eqb_refl. cbn [orb negb].
      unfold compliant_hello13 in Csh. bsplit Csh. destruct (h_psk (f_sh fl)); [discriminate|].
      unfold establish_keys. fold g in B1. rewrite <- B1 in NH. rewrite NH. fold g. rewrite <- B1, N.eqb_refl.
      rewrite Ccr. cbn [negb]. rewrite ALPN. cbn [negb]. rewrite CC.
      eexists. split; [reflexivity|]. simpl. auto.
    + (* cookie only *)
      bsplit W. apply N.eqb_eq in W. fold g in B1.
      destruct (KEY ltac:(rewrite Sh; exact B1)) as [EK ENZ0].
      assert (ENZ : (cv_ecdhe v' =? 0) = false) by (rewrite P7; apply N.eqb_neq; exact ENZ0).
      rewrite ENZ, P3, B. cbn [orb].
      unfold process_hrr. rewrite W, B2. change (0 =? 0) with true. cbn [andb negb]. rewrite Chs. change (0 =? 0) with true. cbn [negb].
      replace (0 <? cv_psk v') with false by (rewrite P6; symmetry; apply N.ltb_ge; exact NP).
      rewrite (check_hello13_ok v' w (Some (h_suite h)) (f_sh fl)); [|rewrite P5; exact Si|rewrite P1; exact Ss|exact Csh|intros p Hp; inversion Hp; subst; auto].
      unfold process_sh13. rewrite Ccookie, Csel. change (0 =? 0) with true. cbn [negb].
      fold g. replace (g =? 0) with false by (symmetry; apply N.eqb_neq; exact Gnz).
      rewrite P3, Sh, B1. cbn [negb].
      unfold compliant_hello13 in Csh. bsplit Csh. destruct (h_psk (f_sh fl)); [discriminate|].
      rewrite P7, P8, EK, Ccr. cbn [negb]. rewrite ALPN. cbn [negb]. rewrite CC.
      eexists. split; [reflexivity|]. simpl. auto.
  - (* no HelloRetryRequest *)
    fold g in Chrr.
    destruct (KEY ltac:(rewrite Sh; exact Chrr)) as [EK ENZ0].
    assert (ENZ : (cv_ecdhe v' =? 0) = false) by (rewrite P7; apply N.eqb_neq; exact ENZ0).
    rewrite ENZ, P3, B. cbn [orb].
    rewrite (check_hello13_ok v' w None (f_sh fl)); [|rewrite P5; exact Si|rewrite P1; exact Ss|exact Csh|discriminate].
    unfold process_sh13. rewrite Ccookie, Csel. change (0 =? 0) with true. cbn [negb].
    fold g. replace (g =? 0) with false by (symmetry; apply N.eqb_neq; exact Gnz).
    rewrite P3, Sh, Chrr. cbn [negb].
    unfold compliant_hello13 in Csh. bsplit Csh. destruct (h_psk (f_sh fl)); [discriminate|].
    rewrite P7, P8, EK, Ccr. cbn [negb]. rewrite ALPN. cbn [negb]. rewrite CC.
    eexists. split; [reflexivity|]. simpl. auto.
Qed.

From UV Require Import Base.Common Model.Varint Model.VarintTo Proofs.VarintP.
From Coq Require Import ZifyBool ZifyNat ZifyN.

Lemma append_to_spec b x r : x < 4611686018427387904 ->
  exists e, append_to b x = Ok (b ++ e) /\ append x = Ok e /\ read (e ++ r) = Some (x, r).
Proof.
  intros H. destruct (append_read x r H) as (e & A & R). exists e. unfold append_to. rewrite A. cbn [bind]. auto.
Qed.

Lemma append_to_refuse b x : 4611686018427387904 <= x -> is_panic (append_to b x) = true.
Proof. intros H. destruct (refuse x H) as (A & _). unfold append_to. rewrite A. reflexivity. Qed.

(* every admissible width: the caller's bytes are kept, exactly w bytes follow, and they decode to x *)
Lemma withlen_to_spec b x l w r : vlen x = Ok l -> l <= w -> (w = 1 \/ w = 2 \/ w = 4 \/ w = 8) ->
  exists e, append_with_len_to b x w = Ok (b ++ e) /\ N.of_nat (length e) = w /\ read (e ++ r) = Some (x, r).
Proof.
  intros Hl Hle Hw. unfold append_with_len_to.
  destruct (N.eq_dec l w) as [E|NE].
  - subst w. assert (Hx : x < 4611686018427387904).
    { destruct (N.lt_ge_cases x 4611686018427387904) as [Hlt|Hge]; [exact Hlt|].
      destruct (refuse x Hge) as (_ & V & _). congruence. }
    assert (AW : append_with_len x l = append x).
    { destruct (vlen_minimal x l Hl) as (_ & Hl4 & _). unfold append_with_len. rewrite Hl. cbn [bind]. rewrite N.eqb_refl.
      destruct Hl4 as [-> | [-> | [-> | ->]]]; reflexivity. }
    rewrite AW. destruct (append_read x r Hx) as (e & A & R). destruct (append_len x Hx) as (e' & n & A' & V & L).
    rewrite A in A'. injection A' as <-. rewrite Hl in V. injection V as <-.
    exists e. rewrite A. cbn [bind]. auto.
  - assert (Hlt : l < w) by lia.
    assert (Hw' : w = 2 \/ w = 4 \/ w = 8).
    { destruct (vlen_minimal x l Hl) as (_ & Hl4 & _). destruct Hw as [->|Hw]; [|exact Hw]. exfalso. lia. }
    destruct (withlen_wider x l w r Hl Hlt Hw') as (e & A & L & R). exists e. rewrite A. cbn [bind]. auto.
Qed.

Lemma withlen_to_refuse b x w : 4611686018427387904 <= x -> is_panic (append_with_len_to b x w) = true.
Proof.
  intros H. destruct (refuse x H) as (_ & _ & P). specialize (P w). unfold append_with_len_to.
  destruct (append_with_len x w); [discriminate|discriminate|reflexivity].
Qed.

(* threading the buffer through Marshal's loop gives the caller's bytes followed by the body of Model/Varint.v *)
Lemma marshal_tps_to_spec tps : forall b,
  marshal_tps_to b tps = (do body <- marshal_tps tps; Ok (b ++ body)).
Proof.
  induction tps as [|[id v] rest IH]; intros b; cbn [marshal_tps_to marshal_tps bind].
  - rewrite app_nil_r. reflexivity.
  - unfold append_to. destruct (append id) as [a|c|c]; cbn [bind]; try reflexivity.
    destruct (append (N.of_nat (length v))) as [l|c|c]; cbn [bind]; try reflexivity.
    rewrite IH. destruct (marshal_tps rest) as [body|c|c]; cbn [bind]; try reflexivity.
    rewrite <- !app_assoc. reflexivity.
Qed.

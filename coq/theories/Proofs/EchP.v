(* Lemmas and proofs about Model/Ech.v (C15). *)
From UV Require Import Base.Common Model.Ech.
From Coq Require Import ZifyBool ZifyNat ZifyN Permutation.

(* ------------------------------------------------------------------ *)
(* byte helpers                                                         *)
(* ------------------------------------------------------------------ *)
Lemma len_app a b : len (a ++ b) = len a + len b.
Proof. unfold len. rewrite app_length. lia. Qed.

Lemma len_cons x a : len (x :: a) = 1 + len a.
Proof. unfold len. cbn [length]. lia. Qed.

Lemma len_nil : len [] = 0.
Proof. reflexivity. Qed.

Lemma len_be16 x : len (be16 x) = 2.
Proof. reflexivity. Qed.

Lemma len_zeros n : len (zeros n) = N.of_nat n.
Proof. unfold len. induction n as [|n IH]; cbn [zeros length]; lia. Qed.

Lemma all_zero_zeros n : all_zero (zeros n) = true.
Proof. induction n as [|n IH]; cbn; auto. Qed.

Lemma rd_u16_be16 x r : x < 65536 -> rd_u16 (be16 x ++ r) = Some (x, r).
Proof.
  intros Hx. unfold be16. cbn [app rd_u16]. f_equal. f_equal.
  rewrite (N.mod_small (x / 256) 256) by (apply N.div_lt_upper_bound; lia).
  rewrite N.mul_comm. symmetry. apply N.div_mod. lia.
Qed.

Lemma rd_bytes_app b r : rd_bytes (len b) (b ++ r) = Some (b, r).
Proof.
  unfold rd_bytes. rewrite len_app.
  replace (len b <=? len b + len r) with true by lia.
  unfold len. rewrite Nat2N.id.
  rewrite firstn_app, Nat.sub_diag, firstn_all, firstn_O, app_nil_r.
  rewrite skipn_app, Nat.sub_diag, skipn_all. reflexivity.
Qed.

Lemma rd_bytes_app_n n b r : n = len b -> rd_bytes n (b ++ r) = Some (b, r).
Proof. intros ->. apply rd_bytes_app. Qed.

Lemma rd_u16lp_p16lp b r : fits16 b = true -> rd_u16lp (p16lp b ++ r) = Some (b, r).
Proof.
  intros H. unfold fits16 in H. unfold rd_u16lp, p16lp. rewrite <- app_assoc.
  rewrite rd_u16_be16 by lia. apply rd_bytes_app.
Qed.

Lemma rd_u8lp_p8lp b r : rd_u8lp (p8lp b ++ r) = Some (b, r).
Proof. unfold rd_u8lp, p8lp. cbn [app rd_u8]. apply rd_bytes_app. Qed.

Lemma skipn4_p24lp b : skipn 4 (1 :: p24lp b) = b.
Proof. reflexivity. Qed.

Lemma len_flat_be16 l : len (flat_map be16 l) = 2 * N.of_nat (length l).
Proof. induction l as [|x l IH]; [reflexivity|]. cbn [flat_map length]. rewrite len_app, len_be16, IH. lia. Qed.

(* ------------------------------------------------------------------ *)
(* subsequences and the monotone scan                                   *)
(* ------------------------------------------------------------------ *)
Inductive subseq {A} : list A -> list A -> Prop :=
| ss_nil l : subseq [] l
| ss_skip x l1 l2 : subseq l1 l2 -> subseq l1 (x :: l2)
| ss_take x l1 l2 : subseq l1 l2 -> subseq (x :: l1) (x :: l2).

Lemma subseq_tail {A} (x : A) l1 l2 : subseq (x :: l1) l2 -> subseq l1 l2.
Proof.
  intros H. remember (x :: l1) as l eqn:E. revert E.
  induction H as [l | y l1' l2' H IH | y l1' l2' H IH]; intros E; try discriminate.
  - apply ss_skip. auto.
  - injection E as -> ->. apply ss_skip. exact H.
Qed.

Lemma subseq_refl {A} (l : list A) : subseq l l.
Proof. induction l as [|x l IH]; [apply ss_nil | apply ss_take; exact IH]. Qed.

Lemma subseq_app {A} (a1 a2 b1 b2 : list A) : subseq a1 b1 -> subseq a2 b2 -> subseq (a1 ++ a2) (b1 ++ b2).
Proof.
  intros H1 H2. induction H1 as [l | y l1 l2 H IH | y l1 l2 H IH]; cbn [app].
  - induction l as [|z l IHl]; cbn [app]; [exact H2 | apply ss_skip; exact IHl].
  - apply ss_skip. exact IH.
  - apply ss_take. exact IH.
Qed.

Lemma subseq_filter {A} (P : A -> bool) l : subseq (filter P l) l.
Proof. induction l as [|x l IH]; cbn [filter]; [apply ss_nil|]. destruct (P x); [apply ss_take | apply ss_skip]; exact IH. Qed.

Lemma subseq_In {A} (l1 l2 : list A) x : subseq l1 l2 -> In x l1 -> In x l2.
Proof.
  intros H. induction H as [l | y l1 l2 H IH | y l1 l2 H IH]; cbn [In]; intros Hi; [contradiction | auto |].
  destruct Hi; auto.
Qed.

Lemma drop_to_subseq t ts raw :
  subseq (t :: ts) (map eid raw) ->
  exists x raw', drop_to t raw = Some (x, raw') /\ eid x = t /\ subseq ts (map eid raw') /\
                 In x raw /\ (forall y, In y raw' -> In y raw).
Proof.
  induction raw as [|y r IH]; intros H; cbn [map] in H.
  - inversion H.
  - cbn [drop_to]. destruct (eid y =? t) eqn:E.
    + apply N.eqb_eq in E. exists y, (y :: r). repeat split; auto.
      * cbn [map]. apply subseq_tail with (x := t). exact H.
      * left; reflexivity.
    + inversion H as [ | ? ? ? H' | ? ? ? H']; subst.
      * destruct (IH H') as (x & raw' & Hd & He & Hs & Hi & Hall).
        exists x, raw'. repeat split; auto. right; auto. intros z Hz. right. auto.
      * rewrite N.eqb_refl in E. discriminate.
Qed.

(* the scan succeeds on an in-order subsequence and returns, for every id, an outer extension with that id *)
Lemma scan_outer_subseq ts : forall raw,
  subseq ts (map eid raw) -> ~ In EXT_ECH ts ->
  exists xs, scan_outer raw ts = Ok xs /\ map eid xs = ts /\ Forall (fun x => In x raw) xs.
Proof.
  induction ts as [|t ts IH]; intros raw Hs Hn.
  - exists []. repeat split; constructor.
  - cbn [scan_outer]. destruct (t =? EXT_ECH) eqn:E.
    + exfalso. apply Hn. left. apply N.eqb_eq in E. auto.
    + destruct (drop_to_subseq t ts raw Hs) as (x & raw' & Hd & He & Hs' & Hi & Hall).
      rewrite Hd. destruct (IH raw' Hs') as (xs & Hx & Hm & Hf).
      { intros Hc. apply Hn. right. exact Hc. }
      rewrite Hx. cbn [bind]. exists (x :: xs). repeat split.
      * cbn [map]. congruence.
      * constructor; auto. eapply Forall_impl; [|exact Hf]. cbn. auto.
Qed.

(* a failing scan: an id that does not occur at or after the current position *)
Lemma drop_to_none t raw : ~ In t (map eid raw) -> drop_to t raw = None.
Proof.
  induction raw as [|y r IH]; cbn [map In drop_to]; intros H; [reflexivity|].
  destruct (eid y =? t) eqn:E; [apply N.eqb_eq in E; tauto | apply IH; tauto].
Qed.

Lemma scan_outer_b_eq ts : forall fuel raw,
  Forall (fun t => t < 65536) ts -> (2 * length ts <= fuel)%nat ->
  scan_outer_b fuel raw (flat_map be16 ts) = scan_outer raw ts.
Proof.
  induction ts as [|t ts IH]; intros fuel raw Hb Hf.
  - destruct fuel; reflexivity.
  - inversion Hb as [|? ? Ht Hb']; subst. cbn [flat_map length] in *.
    destruct fuel as [|fuel]; [lia|].
    change (scan_outer_b (S fuel) raw (be16 t ++ flat_map be16 ts)) with
      (match rd_u16 (be16 t ++ flat_map be16 ts) with
       | None => Err E_INVALID_INNER
       | Some (t0, s') =>
         if t0 =? EXT_ECH then Err E_INVALID_OUTER_EXTS else
         match drop_to t0 raw with
         | None => Err E_INVALID_OUTER_EXTS
         | Some (x, raw') => do r <- scan_outer_b fuel raw' s'; Ok (x :: r)
         end
       end).
    rewrite rd_u16_be16 by exact Ht. cbn [scan_outer].
    destruct (t =? EXT_ECH); [reflexivity|].
    destruct (drop_to t raw) as [[x raw']|]; [|reflexivity].
    rewrite IH by (auto; lia). reflexivity.
Qed.

(* ------------------------------------------------------------------ *)
(* parsing back a written extension list                                *)
(* ------------------------------------------------------------------ *)
Definition ext_ok (e : ext) : Prop := eid e < 65536 /\ fits16 (ebody e) = true.

Lemma len_ext_wire e : len (ext_wire e) = 4 + len (ebody e).
Proof. unfold ext_wire, p16lp. rewrite !len_app, !len_be16. lia. Qed.

Lemma exts_wire_app a b : exts_wire (a ++ b) = exts_wire a ++ exts_wire b.
Proof. unfold exts_wire. apply flat_map_app. Qed.

Lemma exts_wire_cons e l : exts_wire (e :: l) = ext_wire e ++ exts_wire l.
Proof. reflexivity. Qed.

Lemma length_ext_wire_pos e : (4 <= length (ext_wire e))%nat.
Proof. pose proof (len_ext_wire e) as H. unfold len in H. lia. Qed.

Lemma ext_wire_nonnil e r : exists b s, ext_wire e ++ r = b :: s.
Proof. unfold ext_wire, be16. cbn [app]. eauto. Qed.

Lemma rd_ext e r : ext_ok e ->
  rd_u16 (ext_wire e ++ r) = Some (eid e, p16lp (ebody e) ++ r) /\
  rd_u16lp (p16lp (ebody e) ++ r) = Some (ebody e, r).
Proof.
  intros [Hi Hb]. split.
  - unfold ext_wire. rewrite <- app_assoc. apply rd_u16_be16. exact Hi.
  - apply rd_u16lp_p16lp. exact Hb.
Qed.

Lemma parse_ext_list_wire l : forall fuel,
  Forall ext_ok l -> (length (exts_wire l) <= fuel)%nat ->
  parse_ext_list fuel (exts_wire l) = Some l.
Proof.
  induction l as [|e l IH]; intros fuel Hok Hf.
  - destruct fuel; reflexivity.
  - inversion Hok as [|? ? He Hl]; subst. rewrite exts_wire_cons in *.
    rewrite app_length in Hf. pose proof (length_ext_wire_pos e) as Hp.
    destruct fuel as [|fuel]; [lia|].
    destruct (ext_wire_nonnil e (exts_wire l)) as (b & s & Eq).
    destruct (rd_ext e (exts_wire l) He) as [R1 R2].
    cbn [parse_ext_list]. rewrite Eq. rewrite <- Eq. rewrite R1, R2.
    rewrite IH by (auto; lia). destruct e; reflexivity.
Qed.

(* reconstruction of a list without ech_outer_extensions is the identity *)
Lemma recon_exts_plain l : forall fuel raw,
  Forall ext_ok l -> Forall (fun e => eid e <> EXT_ECH_OUTER) l -> (length (exts_wire l) <= fuel)%nat ->
  recon_exts fuel raw (exts_wire l) = Ok l.
Proof.
  induction l as [|e l IH]; intros fuel raw Hok Hno Hf.
  - destruct fuel; reflexivity.
  - inversion Hok as [|? ? He Hl]; subst. inversion Hno as [|? ? Hne Hnl]; subst.
    rewrite exts_wire_cons in *. rewrite app_length in Hf. pose proof (length_ext_wire_pos e) as Hp.
    destruct fuel as [|fuel]; [lia|].
    destruct (ext_wire_nonnil e (exts_wire l)) as (b & s & Eq).
    destruct (rd_ext e (exts_wire l) He) as [R1 R2].
    cbn [recon_exts]. rewrite Eq. rewrite <- Eq. rewrite R1, R2.
    replace (eid e =? EXT_ECH_OUTER) with false by (symmetry; apply N.eqb_neq; exact Hne).
    rewrite IH by (auto; lia). cbn [bind]. destruct e; reflexivity.
Qed.


Lemma bind_ok_id {A} (r : res A) : (do x <- r; Ok x) = r.
Proof. destruct r; reflexivity. Qed.

Lemma recon_exts_prefix a : forall fuel raw s,
  Forall ext_ok a -> Forall (fun e => eid e <> EXT_ECH_OUTER) a -> (length a <= fuel)%nat ->
  recon_exts fuel raw (exts_wire a ++ s) = do r <- recon_exts (fuel - length a) raw s; Ok (a ++ r).
Proof.
  induction a as [|e a IH]; intros fuel raw s Hok Hno Hf.
  - cbn [exts_wire flat_map app length]. rewrite Nat.sub_0_r. symmetry. apply bind_ok_id.
  - inversion Hok as [|? ? He Hl]; subst. inversion Hno as [|? ? Hne Hnl]; subst.
    cbn [length] in Hf. destruct fuel as [|fuel]; [lia|].
    rewrite exts_wire_cons, <- app_assoc.
    destruct (ext_wire_nonnil e (exts_wire a ++ s)) as (b & s0 & Eq).
    destruct (rd_ext e (exts_wire a ++ s) He) as [R1 R2].
    cbn [recon_exts]. rewrite Eq. rewrite <- Eq. rewrite R1, R2.
    replace (eid e =? EXT_ECH_OUTER) with false by (symmetry; apply N.eqb_neq; exact Hne).
    rewrite IH by (auto; lia). cbn [length Nat.sub].
    destruct (recon_exts (fuel - length a) raw s); cbn [bind]; try reflexivity.
    destruct e; reflexivity.
Qed.

Lemma recon_exts_nil fuel raw : recon_exts fuel raw [] = Ok [].
Proof. destruct fuel; reflexivity. Qed.

Lemma outer_ext_ok ids : fits8 (flat_map be16 ids) = true -> ext_ok (outer_exts_ext ids).
Proof.
  intros H. unfold ext_ok, outer_exts_ext, fits16, fits8, p8lp, EXT_ECH_OUTER in *. cbn [eid ebody].
  rewrite len_cons. lia.
Qed.

(* one ech_outer_extensions entry expands to the scanned outer extensions *)
Lemma recon_exts_outer ids fuel raw s :
  fits8 (flat_map be16 ids) = true -> Forall (fun t => t < 65536) ids ->
  recon_exts (S fuel) raw (ext_wire (outer_exts_ext ids) ++ s) =
  do xs <- scan_outer raw ids; do r <- recon_exts fuel raw s; Ok (xs ++ r).
Proof.
  intros Hf Hb.
  destruct (ext_wire_nonnil (outer_exts_ext ids) s) as (b & s0 & Eq).
  destruct (rd_ext (outer_exts_ext ids) s (outer_ext_ok ids Hf)) as [R1 R2].
  cbn [recon_exts]. rewrite Eq. rewrite <- Eq. rewrite R1, R2.
  cbn [eid ebody outer_exts_ext]. rewrite N.eqb_refl.
  rewrite <- (app_nil_r (p8lp (flat_map be16 ids))). rewrite rd_u8lp_p8lp.
  rewrite scan_outer_b_eq; [reflexivity | exact Hb |].
  pose proof (len_flat_be16 ids) as Hl. unfold len in Hl. lia.
Qed.

(* ------------------------------------------------------------------ *)
(* encode / decode round trip                                           *)
(* ------------------------------------------------------------------ *)
Definition sni_exts (m : chello) : list ext := if 0 <? len (ch_sni m) then [sni_ext (ch_sni m)] else [].
Definition inl_exts (reorder : bool) (m : chello) : list ext :=
  map it_ext (filter (fun it => emits true reorder (it_kind it)) (ch_items m)).
(* the id list written into ech_outer_extensions *)
Definition comp_list (oe : option (list N)) (m : chello) : list N :=
  reorder_ids true oe (comp_ids true (is_some oe) (ch_items m)).
(* the inner hello's own body for a compressed id *)
Fixpoint comp_body (reorder : bool) (t : N) (items : list item) : bytes :=
  match items with
  | [] => []
  | it :: r => if compresses true reorder (it_kind it) && (eid (it_ext it) =? t) then ebody (it_ext it)
               else comp_body reorder t r
  end.

(* what the inner hello is expected to be rebuilt as: same fields, the outer's session id,
   and the extensions: server_name, the uncompressed ones in order, the compressed ones in the order of the
   ech_outer_extensions list with the INNER hello's bodies, pre_shared_key *)
Definition expected_exts (oe : option (list N)) (m : chello) : list ext :=
  sni_exts m ++ inl_exts (is_some oe) m ++
  map (fun t => mkExt t (comp_body (is_some oe) t (ch_items m))) (comp_list oe m) ++ opt_list (ch_psk m).
Definition expected_recon (oe : option (list N)) (outer_sid : bytes) (m : chello) : recon :=
  mkRecon (be16 (ch_vers m) ++ ch_random m) outer_sid (suites_bytes (ch_suites m)) (ch_comp m) (expected_exts oe m).

Lemma marshal_exts_inner oe m :
  marshal_exts true oe m =
  sni_exts m ++ inl_exts (is_some oe) m ++
  (if 0 <? len (comp_list oe m) then [outer_exts_ext (comp_list oe m)] else []) ++ opt_list (ch_psk m).
Proof. unfold marshal_exts, sni_exts, inl_exts, comp_list. rewrite andb_true_r. reflexivity. Qed.

Lemma exts_wire_nil_inv l : exts_wire l = [] -> l = [].
Proof.
  destruct l as [|e l]; [reflexivity|]. rewrite exts_wire_cons.
  destruct (ext_wire_nonnil e (exts_wire l)) as (b & s & Eq). rewrite Eq. discriminate.
Qed.

Lemma comp_ids_In reorder items t : In t (comp_ids true reorder items) ->
  exists it, In it items /\ compresses true reorder (it_kind it) = true /\ eid (it_ext it) = t.
Proof.
  unfold comp_ids. rewrite in_map_iff. intros (it & He & Hi). apply filter_In in Hi. destruct Hi. eauto.
Qed.

Lemma comp_body_In reorder t items : (exists it, In it items /\ compresses true reorder (it_kind it) = true /\ eid (it_ext it) = t) ->
  exists it, In it items /\ compresses true reorder (it_kind it) = true /\ eid (it_ext it) = t /\
             comp_body reorder t items = ebody (it_ext it).
Proof.
  induction items as [|it r IH]; intros (it0 & Hi & Hc & He); [destruct Hi|].
  cbn [comp_body]. destruct (compresses true reorder (it_kind it) && (eid (it_ext it) =? t)) eqn:E.
  - apply andb_true_iff in E. destruct E as [E1 E2]. apply N.eqb_eq in E2.
    exists it. repeat split; auto. left; reflexivity.
  - destruct Hi as [-> | Hi].
    + rewrite Hc, He, N.eqb_refl in E. discriminate.
    + destruct IH as (it1 & H1 & H2 & H3 & H4); [eauto|]. exists it1. repeat split; auto. right; auto.
Qed.

Lemma comp_list_In oe m t : In t (comp_list oe m) -> In t (comp_ids true (is_some oe) (ch_items m)).
Proof.
  unfold comp_list, reorder_ids. destruct oe as [oe|]; [|auto].
  intros H. apply filter_In in H. destruct H as [_ H]. unfold mem in H. apply existsb_exists in H.
  destruct H as (y & Hy & E). apply N.eqb_eq in E. subst. exact Hy.
Qed.

(* what the scan fetched equals the inner hello's own extensions when the outer agrees on them *)
Lemma scan_bodies oe m raw xs :
  (forall x it, In x raw -> In it (ch_items m) -> compresses true (is_some oe) (it_kind it) = true ->
                eid x = eid (it_ext it) -> ebody x = ebody (it_ext it)) ->
  map eid xs = comp_list oe m -> Forall (fun x => In x raw) xs ->
  xs = map (fun t => mkExt t (comp_body (is_some oe) t (ch_items m))) (comp_list oe m).
Proof.
  intros Hag Hm Hf.
  assert (Hin : forall t, In t (comp_list oe m) -> In t (comp_list oe m)) by auto.
  revert Hm Hin. generalize (comp_list oe m) at 1 2 4 as L.
  induction Hf as [|x xs Hx Hf IH]; intros L Hm Hin; destruct L as [|t L]; try discriminate; [reflexivity|].
  cbn [map] in *. injection Hm as Ht Hm.
  rewrite (IH L Hm) by (intros; apply Hin; right; auto). f_equal.
  assert (Hc : In t (comp_ids true (is_some oe) (ch_items m))) by (apply comp_list_In, Hin; left; reflexivity).
  destruct (comp_body_In _ _ _ (comp_ids_In _ _ _ Hc)) as (it & H1 & H2 & H3 & H4).
  rewrite H4. destruct x as [i b]. cbn [eid] in Ht. subst i. f_equal.
  apply (Hag (mkExt t b) it Hx H1 H2). cbn [eid]. congruence.
Qed.

Lemma ok_inj {A} (a b : A) : Ok a = Ok b -> a = b.
Proof. intros H. injection H. auto. Qed.

Definition no_outer_id (l : list ext) : Prop := Forall (fun e => eid e <> EXT_ECH_OUTER) l.

Theorem roundtrip body_ok inner maxname oe outer_orig outer_sid raw enc :
  encode_inner inner maxname oe = Ok enc ->
  extract_raw_extensions outer_orig = Ok raw ->
  subseq (comp_list oe inner) (map eid raw) ->
  ~ In EXT_ECH (comp_list oe inner) ->
  (forall x it, In x raw -> In it (ch_items inner) -> compresses true (is_some oe) (it_kind it) = true ->
                eid x = eid (it_ext it) -> ebody x = ebody (it_ext it)) ->
  Forall (fun e => eid e < 65536) (expected_exts oe inner) ->
  no_outer_id (sni_exts inner ++ inl_exts (is_some oe) inner) -> no_outer_id (opt_list (ch_psk inner)) ->
  let r := expected_recon oe outer_sid inner in
  recon_fits r = true ->
  unmarshal_ok body_ok r = true ->
  find_ext EXT_ECH (r_exts r) = Some (mkExt EXT_ECH [1]) ->
  (exists sv, find_ext EXT_SUPPORTED_VERSIONS (r_exts r) = Some sv /\ parse_sv (ebody sv) = Some [VERSION_TLS13]) ->
  decode_inner body_ok outer_orig outer_sid enc = Ok r.
Proof.
  intros Henc Hraw Hsub Hnech Hag Hids Hno1 Hno2 r Hfits Hun Hech (sv & Hsv & Hpsv).
  unfold encode_inner in Henc. unfold marshal_msg in Henc.
  match type of Henc with context [if ?g then _ else _] => destruct g eqn:G end; [|discriminate].
  cbn [bind] in Henc. rewrite skipn4_p24lp in Henc.
  apply ok_inj in Henc. subst enc.
  repeat (apply andb_true_iff in G; let G' := fresh "G" in destruct G as [G G']).
  rename G into Grand. apply N.eqb_eq in Grand.
  rewrite marshal_exts_inner in *.
  set (A := sni_exts inner ++ inl_exts (is_some oe) inner) in *.
  set (L := comp_list oe inner) in *.
  set (B := opt_list (ch_psk inner)) in *.
  set (O := if 0 <? len L then [outer_exts_ext L] else []) in *.
  assert (EA : sni_exts inner ++ inl_exts (is_some oe) inner ++ O ++ B = A ++ O ++ B)
    by (unfold A; rewrite <- app_assoc; reflexivity).
  rewrite EA in *.
  (* the extension block is not empty *)
  assert (Hne : (0 <? len (exts_wire (A ++ O ++ B))) = true).
  { destruct (exts_wire (A ++ O ++ B)) eqn:Ew; [|rewrite len_cons; lia].
    apply exts_wire_nil_inv in Ew. apply app_eq_nil in Ew. destruct Ew as [EA0 Ew].
    apply app_eq_nil in Ew. destruct Ew as [EO EB].
    assert (EL : L = []).
    { unfold O in EO. destruct L; [reflexivity|]. rewrite len_cons in EO.
      replace (0 <? 1 + len L) with true in EO by lia. discriminate. }
    exfalso. unfold r, expected_recon, expected_exts in Hech. cbn [r_exts] in Hech.
    fold L B in Hech. rewrite app_assoc in Hech. fold A in Hech.
    rewrite EA0, EL, EB in Hech. discriminate. }
  rewrite Hne.
  (* read the fixed part *)
  unfold decode_inner.
  rewrite <- !app_assoc.
  rewrite (app_assoc (be16 (ch_vers inner)) (ch_random inner)).
  rewrite rd_bytes_app_n by (rewrite len_app, len_be16, Grand; reflexivity).
  change (p8lp [] ++ ?x) with (p8lp [] ++ x).
  rewrite rd_u8lp_p8lp. cbn [len length N.of_nat N.eqb negb].
  rewrite rd_u16lp_p16lp by assumption.
  rewrite rd_u8lp_p8lp.
  rewrite rd_u16lp_p16lp by assumption.
  rewrite all_zero_zeros. cbn [negb].
  rewrite Hraw. cbn [bind].
  (* reconstruct the extensions *)
  assert (HokAll : Forall ext_ok (A ++ O ++ B)).
  { rewrite forallb_forall in *. apply Forall_forall. intros e He. split.
    - (* id bound *)
      rewrite Forall_forall in Hids. unfold expected_exts in Hids. fold L B in Hids.
      rewrite app_assoc in Hids. fold A in Hids.
      apply in_app_or in He. destruct He as [He | He].
      + apply Hids. apply in_or_app. left. exact He.
      + apply in_app_or in He. destruct He as [He | He].
        * unfold O in He. destruct (0 <? len L); [|destruct He]. destruct He as [<- | []].
          cbn [eid outer_exts_ext]. unfold EXT_ECH_OUTER. lia.
        * apply Hids. apply in_or_app. right. apply in_or_app. right. exact He.
    - match goal with H : forall x, In x (A ++ O ++ B) -> fits16 (ebody x) = true |- _ => apply H; exact He end. }
  apply Forall_app in HokAll. destruct HokAll as [HokA HokOB].
  apply Forall_app in HokOB. destruct HokOB as [HokO HokB].
  assert (HLb : Forall (fun t => t < 65536) L).
  { apply Forall_forall. intros t Ht. rewrite Forall_forall in Hids. unfold expected_exts in Hids. fold L in Hids.
    specialize (Hids (mkExt t (comp_body (is_some oe) t (ch_items inner)))). cbn [eid] in Hids. apply Hids.
    apply in_or_app. right. apply in_or_app. right. apply in_or_app. left.
    apply in_map_iff. exists t. auto. }
  destruct (scan_outer_subseq L raw Hsub Hnech) as (xs & Hscan & Hm & Hf).
  pose proof (scan_bodies oe inner raw xs Hag Hm Hf) as Hxs. fold L in Hxs.
  assert (Hrec : recon_exts (length (exts_wire (A ++ O ++ B))) raw (exts_wire (A ++ O ++ B)) =
                 Ok (A ++ xs ++ B)).
  { rewrite !exts_wire_app.
    rewrite recon_exts_prefix; [| exact HokA | exact Hno1 |].
    2:{ rewrite !app_length. clear -HokA. induction A as [|e A IH]; cbn [length exts_wire flat_map]; [lia|].
        inversion HokA; subst. rewrite app_length. pose proof (length_ext_wire_pos e). specialize (IH H2). 
        change (flat_map ext_wire A) with (exts_wire A). lia. }
    set (fuel := (length (exts_wire A ++ exts_wire O ++ exts_wire B) - length A)%nat).
    assert (Hfuel : (length (exts_wire O) + length (exts_wire B) <= fuel)%nat).
    { unfold fuel. rewrite !app_length.
      assert (length A <= length (exts_wire A))%nat; [|lia].
      clear. induction A as [|e A IH]; cbn [length exts_wire flat_map]; [lia|].
      rewrite app_length. pose proof (length_ext_wire_pos e). change (flat_map ext_wire A) with (exts_wire A). lia. }
    unfold O in *. destruct (0 <? len L) eqn:EL.
    - cbn [exts_wire flat_map] in *. rewrite app_nil_r in *.
      pose proof (length_ext_wire_pos (outer_exts_ext L)) as Hp.
      destruct fuel as [|fuel']; [lia|].
      rewrite recon_exts_outer by assumption.
      rewrite Hscan. cbn [bind].
      change (flat_map ext_wire B) with (exts_wire B).
      rewrite <- (app_nil_r (exts_wire B)).
      rewrite recon_exts_prefix; [| exact HokB | exact Hno2 |].
      2:{ unfold B. destruct (ch_psk inner); cbn [opt_list length]; lia. }
      rewrite recon_exts_nil. cbn [bind]. rewrite app_nil_r. reflexivity.
    - assert (L = []) as EL0 by (destruct L; [reflexivity | rewrite len_cons in EL; lia]).
      rewrite EL0 in Hscan. cbn [scan_outer] in Hscan. injection Hscan as <-.
      cbn [exts_wire flat_map app].
      change (flat_map ext_wire B) with (exts_wire B).
      rewrite <- (app_nil_r (exts_wire B)).
      rewrite recon_exts_prefix; [| exact HokB | exact Hno2 |].
      2:{ clear -Hfuel. unfold B in *. destruct (ch_psk inner) as [e|]; cbn [opt_list length exts_wire flat_map] in *; [|lia].
          pose proof (length_ext_wire_pos e). rewrite app_nil_r in Hfuel. lia. }
      rewrite recon_exts_nil. cbn [bind]. rewrite app_nil_r. reflexivity. }
  rewrite Hrec. cbn [bind].
  assert (Er : mkRecon (be16 (ch_vers inner) ++ ch_random inner) outer_sid (suites_bytes (ch_suites inner))
                       (ch_comp inner) (A ++ xs ++ B) = r).
  { unfold r, expected_recon, expected_exts. fold L B. rewrite Hxs. unfold A. rewrite <- app_assoc. reflexivity. }
  rewrite Er. rewrite Hfits, Hun. cbn [negb]. rewrite Hech. cbn [ebody bytes_eqb list_eqb N.eqb Pos.eqb andb negb].
  rewrite Hsv, Hpsv. unfold VERSION_TLS13. rewrite N.eqb_refl. reflexivity.
Qed.


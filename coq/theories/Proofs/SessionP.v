(* Proofs about Model/Session.v by an inductive invariant of the UConn/sessionController automaton along legal
   histories. The invariant is a boolean function of the state; preservation is proved by head-first symbolic
   execution of every path through [step] (tactics [hstep]/[unstick]/[leaf] below).
   This file: the tactics, the invariant [invb] for the mimicking ClientHelloIDs (its preservation lemmas, as far as
   they exist, are in SessionInvP.v) and the complete invariant proof for HelloGolang ([invg], [step_ok_golang]). *)
From UV Require Import Base.Common Model.Session.
From Coq Require Import ZifyBool ZifyNat ZifyN.

Lemma bytes_eqb_refl (b : bytes) : bytes_eqb b b = true.
Proof. apply bytes_eqb_eq. reflexivity. Qed.

Definition obj_uninit (o : option obj) : bool := match o with Some o => negb (o_init o) | None => true end.
Definition slot_ok (own : option obj) (sl : slot) : bool :=
  match sl with SOwn => is_some own | SObj o => negb (o_init o) end.
Definition obj_is (o : option obj) (d : bytes) (se : N) : bool :=
  match o with Some o => o_init o && bytes_eqb (o_data o) d && (o_sess o =? se) | None => false end.

(* what a legal history has injected so far *)
Definition inj_next (i : option inj) (o : op) : option inj :=
  match i with Some _ => i | None => inj_of o end.

Definition invb (w : world) (l : lst) (i : option inj) (s : st) : bool :=
  negb (calling s) &&
  (match status s with
   | NotBuilt => negb (locked s) && (cst_eqb (cs s) NoSession || cst_eqb (cs s) TicketInit || cst_eqb (cs s) PskInit)
   | ByUtls => locked s && applied s && (cst_eqb (cs s) NoSession || cst_eqb (cs s) TicketAllSet || cst_eqb (cs s) PskAllSet)
   | ByGo => false
   end) &&
  (match cs s with
   | NoSession => obj_uninit (own_t s) && obj_uninit (own_p s)
   | TicketInit | TicketAllSet => is_some (own_t s)
   | PskInit => is_some (own_p s)
   | PskAllSet => match own_p s with
                  | Some o => (hs_sess s =? o_sess o) && (hs_early s =? o_sess o) &&
                              match hs_ident s with Some d => bytes_eqb d (o_data o) | None => false end
                  | None => false
                  end
   end) &&
  (match x_t s with [] => true | [sl] => slot_ok (own_t s) sl | _ => false end) &&
  (match x_p s with None => true | Some sl => w_psk w && slot_ok (own_p s) sl end) &&
  (negb (applied s) || (Nat.eqb (length (x_t s)) (w_tickets w) && Bool.eqb (is_some (x_p s)) (w_psk w))) &&
  (* key shares: once the preset is applied the private key is the one of the share *)
  (negb (applied s) || negb (w_tls13 w) || (is_some (share s) && optN_eqb (keys s) (share s))) &&
  (applied s || negb (is_some (share s)) || (cst_eqb (cs s) TicketInit && Nat.eqb (w_tickets w) 0)
   || (cst_eqb (cs s) PskInit && negb (w_psk w))) &&
  (* link with the legality bookkeeping *)
  Bool.eqb (l_cache l) (cache s) &&
  (negb (l_set l) || negb (cst_eqb (cs s) NoSession)) &&
  (if l_built l then locked s || negb (cst_eqb (cs s) NoSession)
   else negb (locked s) && (l_set l || cst_eqb (cs s) NoSession) && bstatus_eqb (status s) NotBuilt) &&
  (if l_hs l then true else negb (done s) && negb (herr s)) &&
  (* the injected session *)
  (match i with
   | None => true
   | Some (InjTicket tk se) =>
       l_set l && obj_is (own_t s) tk se && (cst_eqb (cs s) TicketInit || cst_eqb (cs s) TicketAllSet) &&
       (negb (bstatus_eqb (status s) ByUtls) ||
        ((hs_sess s =? se) && bytes_eqb (hs_ticket s) tk &&
         match raw s with Some ([t], _) => bytes_eqb t tk | _ => false end))
   | Some (InjPsk lb se) =>
       l_set l && obj_is (own_p s) lb se && (cst_eqb (cs s) PskInit || cst_eqb (cs s) PskAllSet) &&
       (negb (bstatus_eqb (status s) ByUtls) ||
        ((hs_sess s =? se) &&
         match raw s with Some (_, Some d) => bytes_eqb d lb | _ => false end))
   end) &&
  (if done s then match wire s, raw s with Some a, Some b => true | _, _ => true end else true).

Opaque N.eqb bytes_eqb N.add.
Ltac simp := cbn in *;
  try (rewrite ?N.eqb_refl, ?bytes_eqb_refl, ?orb_false_r, ?andb_true_r, ?orb_true_r, ?andb_false_r in * ).
Ltac simph := cbn in * |-;
  try (rewrite ?orb_false_r, ?andb_true_r, ?orb_true_r, ?andb_false_r in * |- ).
Ltac split_hyps := repeat match goal with H : andb _ _ = true |- _ => apply andb_prop in H; destruct H end;
                   repeat match goal with H : true = true |- _ => clear H end.
Ltac substb := repeat match goal with
  | H : ?x = true |- _ => is_var x; subst x
  | H : ?x = false |- _ => is_var x; subst x
  end.
Ltac contra0 := match goal with
  | H : false = true |- _ => discriminate H
  | H : true = false |- _ => discriminate H
  | H : None = Some _ |- _ => discriminate H
  | H : Some _ = None |- _ => discriminate H
  end.
Ltac contra := first [ contra0 | substb; cbn in * |-; contra0 ].
Ltac rec_destr := repeat match goal with o : obj |- _ => destruct o end.
Ltac dmg :=
  match goal with
  | |- context [match ?x with _ => _ end] => is_var x; destruct x
  end.
Ltac dmh :=
  match goal with
  | H : context [match ?x with _ => _ end] |- _ => is_var x; destruct x
  end.
Ltac use_hyps := repeat match goal with H : ?b = true |- context [?b] => progress rewrite H end;
                 rewrite ?N.eqb_refl, ?bytes_eqb_refl.
Ltac quick := split_hyps; try contra; repeat (apply andb_true_intro; split); try reflexivity; try assumption.
Ltac leaf := repeat (use_hyps; simp; try contra; split_hyps; try contra;
                     repeat (apply andb_true_intro; split); try reflexivity; try assumption; try dmg; rec_destr).
Ltac leaf2 := repeat (use_hyps; simp; try contra; split_hyps; try contra;
                     repeat (apply andb_true_intro; split); try reflexivity; try assumption; try dmh; rec_destr).
Ltac fixl := repeat match goal with L : Some ?a = Some ?b |- _ => assert (b = a) by congruence; subst b; clear L end.

(* the result of the step, kept folded so that it is evaluated head-first along one path at a time *)
Definition okp (w : world) (l' : lst) (i' : option inj) (X : st * res unit) : Prop :=
  is_panic (snd X) = false /\ invb w l' i' (fst X) = true.
Definition ok_after (w : world) (l : lst) (i : option inj) (s : st) (o : op) (l' : lst) : Prop :=
  okp w l' (inj_next i o) (step w o s).

Ltac head_eval :=
  match goal with
  | |- okp ?w ?l ?i ?T => let t := eval hnf in T in
                         let t2 := eval lazy beta iota zeta delta [sessions_off should_update_binders is_some cst_eqb bstatus_eqb negb orb andb optN_eqb slot_obj demote option_map Session.o_user Session.o_init Session.o_data Session.o_sess Session.cache Session.status Session.applied Session.cs Session.locked Session.tracker Session.calling Session.own_t Session.own_p Session.x_t Session.x_p Session.hs_sess Session.hs_ticket Session.hs_ident Session.hs_early Session.gen Session.keys Session.share Session.raw Session.done Session.herr Session.wire Session.w_golang Session.w_tickets Session.w_psk Session.w_psk_last Session.w_skip Session.w_tls13 Session.w_cache0 Session.w_disabled Session.w_omit Session.w_hit Session.w_srv13 Session.w_reapply fst snd mbind uassert when ret get upd merr mpanic] in t in change (okp w l i t2)
  end.
Ltac hd t := lazymatch t with
  | ?f _ => hd f
  | match ?c with _ => _ end => hd c
  | _ => t
  end.
Ltac unstick t :=
  let h := hd t in
  lazymatch h with
  | N.eqb => match t with context [N.eqb ?a ?b] =>
               first [ match goal with H : N.eqb a b = true |- _ => rewrite H end
                     | match goal with H : N.eqb a b = false |- _ => rewrite H end
                     | destruct (N.eqb a b) eqn:? ] end
  | bytes_eqb => match t with context [bytes_eqb ?a ?b] =>
               first [ match goal with H : bytes_eqb a b = true |- _ => rewrite H end
                     | match goal with H : bytes_eqb a b = false |- _ => rewrite H end
                     | destruct (bytes_eqb a b) eqn:? ] end
  | Nat.eqb => match t with context [Nat.eqb ?a ?b] => destruct (Nat.eqb a b) eqn:? end
  | _ => first [ is_var h; destruct h | unfold h
               | match t with context [match ?x with _ => _ end] => is_var x; destruct x end ]
  end.
Ltac hstep :=
  head_eval; use_hyps;
  lazymatch goal with
  | |- okp _ _ _ (pair _ _) => fail
  | |- okp _ _ _ ?t => unstick t
  end; rec_destr; simph; try contra; split_hyps; try contra.
Ltac hexec := repeat hstep.

Ltac resolveL :=
  repeat (cbn in * |-; try contra;
          match goal with
          | L : ?lhs = Some _ |- _ =>
              match lhs with context [?x] => is_var x; lazymatch type of x with bool => destruct x end end
          end); cbn in * |-; try contra; fixl.

Ltac finish := repeat (first [dmg | dmh]; rec_destr; use_hyps; simp; try contra; split_hyps; try contra;
                        repeat (apply andb_true_intro; split); try reflexivity; try assumption).
Ltac solve_op :=
  hexec; unfold okp; simp; try contra;
  (split; [try reflexivity|]); quick; leaf; leaf2; finish.
(* worlds of predefined parrots, made explicit *)
Ltac world_cases :=
  match goal with W : world_ok _ = true |- _ => unfold world_ok in W; cbn in W end;
  split_hyps;
  repeat match goal with
         | H : negb ?x = true |- _ => is_var x; destruct x; [discriminate H | clear H]
         | H : ?x = true |- _ => is_var x; subst x
         | H : ?x = false |- _ => is_var x; subst x
         end;
  match goal with
  | t : nat |- _ => destruct t as [|[|t]]; cbn in *; try contra
  end;
  repeat match goal with
         | H : _ || _ = true |- _ => apply orb_prop in H; destruct H
         end;
  split_hyps; try contra;
  repeat match goal with
         | H : negb ?x = true |- _ => is_var x; destruct x; [discriminate H | clear H]
         | H : ?x = true |- _ => is_var x; subst x
         end; try contra.

Ltac start :=
  intros w l i s l' W G H L; destruct w, l; cbn in G; world_cases; destruct s;
  unfold ok_after, legal_step, forbidden, setter_arg, inj_next, inj_of in *; cbn in L; resolveL;
  unfold invb in H; simph; split_hyps; try contra.


(* ---- HelloGolang: the controller is only touched by the setters; crypto/tls loads the session itself ---- *)
Definition invg (w : world) (l : lst) (s : st) : bool :=
  negb (calling s) && negb (locked s) &&
  (match status s with
   | NotBuilt => true
   | ByGo => is_some (share s) && optN_eqb (keys s) (share s)
   | ByUtls => false
   end) &&
  (match tracker s with NeverCalled => true | _ => done s || herr s end) &&
  Bool.eqb (l_cache l) (cache s) &&
  (l_set l || cst_eqb (cs s) NoSession) &&
  (if l_hs l then true else negb (done s) && negb (herr s)).

Definition okg (w : world) (l' : lst) (X : st * res unit) : Prop :=
  is_panic (snd X) = false /\ invg w l' (fst X) = true.

Ltac head_evalg :=
  match goal with
  | |- okg ?w ?l ?T => let t := eval hnf in T in
                        let t2 := eval lazy beta iota zeta delta [sessions_off should_update_binders is_some cst_eqb bstatus_eqb negb orb andb optN_eqb slot_obj demote option_map Session.o_user Session.o_init Session.o_data Session.o_sess Session.cache Session.status Session.applied Session.cs Session.locked Session.tracker Session.calling Session.own_t Session.own_p Session.x_t Session.x_p Session.hs_sess Session.hs_ticket Session.hs_ident Session.hs_early Session.gen Session.keys Session.share Session.raw Session.done Session.herr Session.wire Session.w_golang Session.w_tickets Session.w_psk Session.w_psk_last Session.w_skip Session.w_tls13 Session.w_cache0 Session.w_disabled Session.w_omit Session.w_hit Session.w_srv13 Session.w_reapply fst snd mbind uassert when ret get upd merr mpanic] in t in change (okg w l t2)
  end.
Ltac hstepg :=
  head_evalg; use_hyps;
  lazymatch goal with
  | |- okg _ _ (pair _ _) => fail
  | |- okg _ _ ?t => unstick t
  end; rec_destr; simph; try contra; split_hyps; try contra.

Lemma step_ok_golang : forall o w l s l', w_golang w = true -> invg w l s = true ->
  legal_step w l o = Some l' -> okg w l' (step w o s).
Proof.
  intros o w l s l' G H L. destruct w, l. cbn in G. subst. destruct s.
  unfold legal_step, forbidden, setter_arg in L.
  destruct o as [| |[[[ii d] se]|]|[[[ii d] se]|]|[[d se]|]| |]; cbn in L; resolveL;
  unfold invg in H; simph; split_hyps; try contra.
  all: repeat hstepg; unfold okg; simp; try contra; (split; [try reflexivity|]); quick; leaf; leaf2; finish.
Qed.


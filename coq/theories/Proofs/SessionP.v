(* Proofs about Model/Session.v. The state of the model is finite control x provenance flags x data, and the control
   behaviour of a call depends only on the finite parts ([run_split], generic over programs). For every abstract
   world the set of reachable (legality bookkeeping, control, flags) nodes is computed ([reach]) and checked, by
   computation, to contain the initial node, to be closed under every legal call without a panic, and to satisfy the
   per-node facts (forbidden calls rejected, key-share keys, provenance of what was marshaled). That is an inductive
   invariant over a finite space; induction over the history lifts it to histories of any length. The data theorems
   follow from the provenance flags through [Dinv]: a datum flagged "injected" is the injected value. *)
From UV Require Import Base.Common Model.Session.

(* ---- the control behaviour of a program depends only on the finite parts ---- *)
Lemma run_split {A} (w : world) (o : op) (p : prog A) : forall c g d,
  fst (fst (runF w o p c g d)) = fst (runC (kind o) p c g) /\
  snd (runF w o p c g d) = snd (runC (kind o) p c g).
Proof.
  induction p as [a|k IH|h q IH|a q IH|e|x]; intros c g d; cbn.
  - split; reflexivity.
  - apply IH.
  - apply IH.
  - apply IH.
  - split; reflexivity.
  - split; reflexivity.
Qed.

(* ---- nodes of the control graph: legality bookkeeping, control, flags ---- *)
Definition node := (lst * (cstate * gstate))%type.

Definition node_eq_dec : forall a b : node, {a = b} + {a <> b}.
Proof. repeat decide equality. Defined.

Definition b2n (b : bool) : N := if b then 1 else 0.
Definition code (n : node) : N :=      (* a cheap hash, used only to skip most comparisons *)
  let '(l, (c, g)) := n in
  b2n (l_cache l) + 2 * b2n (l_set l) + 4 * b2n (l_built l) + 8 * b2n (l_hs l) +
  16 * (match cs c with NoSession => 0 | TicketInit => 1 | TicketAllSet => 2 | PskInit => 3 | PskAllSet => 4 end) +
  128 * (match status c with NotBuilt => 0 | ByUtls => 1 | ByGo => 2 end) +
  512 * b2n (applied c) + 1024 * b2n (locked c) + 2048 * b2n (done c) + 4096 * b2n (herr c) +
  8192 * (match own_t c with ONone => 0 | OSome u i => 1 + b2n u + 2 * b2n i end) +
  65536 * (match own_p c with ONone => 0 | OSome u i => 1 + b2n u + 2 * b2n i end) +
  524288 * (match x_t c with X0 => 0 | X1 SOwn => 1 | X1 _ => 2 | Xmany _ => 3 end) +
  2097152 * (match x_p c with XPnone => 0 | XPsome SOwn => 1 | XPsome _ => 2 end) +
  8388608 * (match g_own_t g with GInj => 1 | GOther => 0 end) +
  16777216 * (match g_hs_sess g with GInj => 1 | GOther => 0 end) +
  33554432 * (match tracker c with NeverCalled => 0 | AboutToCall => 1 | ByULoad => 2 | ByGoTLS => 3 end).

Definition memb (n : node) (r : list (N * node)) : bool :=
  let h := code n in
  existsb (fun hm => (fst hm =? h) && if node_eq_dec n (snd hm) then true else false) r.

Lemma memb_in n r : memb n r = true -> In n (map snd r).
Proof.
  unfold memb. rewrite existsb_exists. intros [[h m] [I E]]. cbn in E.
  apply andb_prop in E. destruct E as [_ E]. destruct (node_eq_dec n m) as [->|]; [|discriminate].
  apply in_map_iff. exists (h, m). auto.
Qed.

Definition kinds : list okind :=
  [KSetCache; KBuildNoSess; KSetTicket ANil; KSetTicket AInit; KSetTicket AUninit;
   KSetPsk ANil; KSetPsk AInit; KSetPsk AUninit; KSetState; KBuild; KHandshake;
   KReuseTicket; KReusePsk; KEdit].
Lemma kinds_complete k : In k kinds.
Proof. destruct k as [| |[]|[]| | | | | |]; cbn; auto 16. Qed.

Definition succs (cw : cworld) (n : node) : list node :=
  flat_map (fun k => match legal_stepk cw (fst n) k with
                     | Some l' => [(l', fst (cstep cw k (fst (snd n)) (snd (snd n))))]
                     | None => []
                     end) kinds.

Fixpoint explore (fuel : nat) (cw : cworld) (seen todo : list (N * node)) : list (N * node) :=
  match fuel with
  | O => seen
  | S f =>
      match todo with
      | [] => seen
      | (_, n) :: rest =>
          let '(seen', new) :=
            fold_left (fun acc m => let '(sn, nw) := acc in
                                    if memb m sn then acc else ((code m, m) :: sn, (code m, m) :: nw))
                      (succs cw n) (seen, []) in
          explore f cw seen' (rest ++ new)
      end
  end.

Definition node0 (cw : cworld) : node := (linit (cw_cache0 cw), (cinit (cw_cache0 cw), ginit)).
Definition reach (cw : cworld) : list (N * node) :=
  explore 5000 cw [(code (node0 cw), node0 cw)] [(code (node0 cw), node0 cw)].


(* ---- per-node facts ---- *)
Definition rejected (r : res unit) : bool :=
  match r with Err 1 | Panic 1 | Panic 2 => true | _ => false end.    (* E_DISABLED; P_LOCKED, P_STATE *)
Definition is_inj (x : ghost) : bool := match x with GInj => true | GOther => false end.

Definition keys_p (cw : cworld) (c : cstate) : bool :=
  if cw_golang cw
  then implb (bstatus_eqb (status c) ByGo) (share_some c && keys_some c && keys_match c)
  else implb (bstatus_eqb (status c) ByUtls) (applied c) &&
       implb (applied c && cw_tls13 cw) (share_some c && keys_some c && keys_match c).
Definition wire_p (cw : cworld) (l : lst) (c : cstate) (g : gstate) : bool :=
  cw_golang cw || negb (bstatus_eqb (status c) ByUtls) ||
  match l_inj l with
  | ITicket => is_inj (g_hs_sess g) && is_inj (g_hs_ticket g) && is_inj (g_raw_t g)
  | IPsk => is_inj (g_hs_sess g) && is_inj (g_raw_p g)
  | INone => true
  end.

(* after a build that succeeded with a PSK in place, the binders are those of the hello just marshaled *)
Definition binder_p (k : okind) (cg : cstate * gstate) (r : res unit) : bool :=
  match k, r with
  | KBuild, Ok _ | KHandshake, Ok _ => negb (cst_eqb (cs (fst cg)) PskAllSet) || binder_fresh (fst cg)
  | _, _ => true
  end.
Definition kind_ok (cw : cworld) (R : list (N * node)) (l : lst) (c : cstate) (g : gstate) (k : okind) : bool :=
  match legal_stepk cw l k with
  | Some l2 => negb (is_panic (snd (cstep cw k c g))) && memb (l2, fst (cstep cw k c g)) R &&
               binder_p k (fst (cstep cw k c g)) (snd (cstep cw k c g))
  | None => true
  end &&
  (cw_golang cw || negb (forbiddenk cw l k) || rejected (snd (cstep cw k c g))).
Definition node_ok (cw : cworld) (R : list (N * node)) (n : node) : bool :=
  forallb (kind_ok cw R (fst n) (fst (snd n)) (snd (snd n))) kinds &&
  keys_p cw (fst (snd n)) && wire_p cw (fst n) (fst (snd n)) (snd (snd n)) &&
  negb (herr (fst (snd n))).      (* no Handshake of a legal history fails for a lost key-share key or a stale binder *)
Definition check_with (cw : cworld) (R : list (N * node)) : bool :=
  memb (node0 cw) R && forallb (fun hn => node_ok cw R (snd hn)) R.
Definition check (cw : cworld) : bool := check_with cw (reach cw).

(* ---- every abstract world ---- *)
Definition bools := [true; false].
Definition all_cworlds : list cworld :=
  flat_map (fun a => flat_map (fun b => flat_map (fun c => flat_map (fun d => flat_map (fun e => flat_map (fun f =>
  flat_map (fun g => flat_map (fun h => flat_map (fun i => flat_map (fun j => flat_map (fun k =>
  map (fun m => mkCW a b c d e f g h i j k m) bools) bools) [HNone; H12; H13]) bools) bools) bools) bools) bools) bools)
  bools) [T0; T1; Tmany]) bools.

Lemma all_cworlds_complete cw : In cw all_cworlds.
Proof.
  destruct cw as [a b c d e f g h i j k m]. unfold all_cworlds.
  apply in_flat_map. exists a. split; [destruct a; cbn; auto|].
  apply in_flat_map. exists b. split; [destruct b; cbn; auto|].
  apply in_flat_map. exists c. split; [destruct c; cbn; auto|].
  apply in_flat_map. exists d. split; [destruct d; cbn; auto|].
  apply in_flat_map. exists e. split; [destruct e; cbn; auto|].
  apply in_flat_map. exists f. split; [destruct f; cbn; auto|].
  apply in_flat_map. exists g. split; [destruct g; cbn; auto|].
  apply in_flat_map. exists h. split; [destruct h; cbn; auto|].
  apply in_flat_map. exists i. split; [destruct i; cbn; auto|].
  apply in_flat_map. exists j. split; [destruct j; cbn; auto|].
  apply in_flat_map. exists k. split; [destruct k; cbn; auto|].
  apply in_map. destruct m; cbn; auto.
Qed.

Lemma sweep_all : forallb (fun cw => if cworld_ok cw then check cw else true) all_cworlds = true.
Proof. vm_cast_no_check (eq_refl true). Time Qed.

Opaque reach explore.

Lemma check_ok cw : cworld_ok cw = true -> check cw = true.
Proof.
  intros W. pose proof sweep_all as S. rewrite forallb_forall in S.
  specialize (S cw (all_cworlds_complete cw)). cbv beta in S. rewrite W in S. exact S.
Qed.

(* membership in the reachable set is an inductive invariant *)
Definition inR (cw : cworld) (n : node) : Prop := In n (map snd (reach cw)).

Lemma inR_node_ok cw n : cworld_ok cw = true -> inR cw n -> node_ok cw (reach cw) n = true.
Proof.
  intros W I. pose proof (check_ok cw W) as C. unfold check, check_with in C. apply andb_prop in C. destruct C as [_ C].
  rewrite forallb_forall in C. unfold inR in I. apply in_map_iff in I. destruct I as [[h m] [E I]]. cbn in E. subst m.
  exact (C (h, n) I).
Qed.

Lemma inR_init cw : cworld_ok cw = true -> inR cw (node0 cw).
Proof.
  intros W. pose proof (check_ok cw W) as C. unfold check, check_with in C. apply andb_prop in C. destruct C as [C _].
  exact (memb_in _ _ C).
Qed.

Lemma inR_kind cw l c g k : cworld_ok cw = true -> inR cw (l, (c, g)) ->
  kind_ok cw (reach cw) l c g k = true.
Proof.
  intros W I. pose proof (inR_node_ok cw _ W I) as N. unfold node_ok in N. cbv beta iota delta [fst snd] in N.
  apply andb_prop in N. destruct N as [N _]. apply andb_prop in N. destruct N as [N _].
  apply andb_prop in N. destruct N as [N _].
  rewrite forallb_forall in N. exact (N k (kinds_complete k)).
Qed.

Lemma inR_step cw l c g k l2 : cworld_ok cw = true -> inR cw (l, (c, g)) -> legal_stepk cw l k = Some l2 ->
  is_panic (snd (cstep cw k c g)) = false /\ inR cw (l2, fst (cstep cw k c g)).
Proof.
  intros W I L. pose proof (inR_kind cw l c g k W I) as K. unfold kind_ok in K. rewrite L in K.
  apply andb_prop in K. destruct K as [K _]. apply andb_prop in K. destruct K as [K _].
  apply andb_prop in K. destruct K as [P M].
  split; [destruct (is_panic _); [discriminate|reflexivity] | exact (memb_in _ _ M)].
Qed.

Lemma inR_binder cw l c g k l2 : cworld_ok cw = true -> inR cw (l, (c, g)) -> legal_stepk cw l k = Some l2 ->
  binder_p k (fst (cstep cw k c g)) (snd (cstep cw k c g)) = true.
Proof.
  intros W I L. pose proof (inR_kind cw l c g k W I) as K. unfold kind_ok in K. rewrite L in K.
  apply andb_prop in K. destruct K as [K _]. apply andb_prop in K. destruct K as [_ B]. exact B.
Qed.

(* ---- the data: a datum flagged as injected is the injected value ---- *)
Definition inj_d (i : inj) : datum := match i with InjTicket b s | InjPsk b s => (b, s) end.
Definition Dinv (i : inj) (g : gstate) (d : dstate) : Prop :=
  (g_own_t g = GInj -> d_own_t d = inj_d i) /\
  (g_own_p g = GInj -> d_own_p d = inj_d i) /\
  (g_slot_t g = GInj -> d_slot_t d = inj_d i) /\
  (g_slot_p g = GInj -> d_slot_p d = inj_d i) /\
  (g_hs_sess g = GInj -> hs_sess d = snd (inj_d i)) /\
  (g_hs_ticket g = GInj -> hs_ticket d = fst (inj_d i)) /\
  (g_hs_ident g = GInj -> hs_ident d = Some (fst (inj_d i))) /\
  (g_raw_t g = GInj -> exists p, raw d = Some ([fst (inj_d i)], p)) /\
  (g_raw_p g = GInj -> exists t, raw d = Some (t, Some (fst (inj_d i)))).

Ltac dcase :=
  repeat match goal with
         | |- context [match ?x with _ => _ end] => is_var x; destruct x
         | |- context [if ?x then _ else _] => destruct x eqn:?
         end.

Lemma Dinv_act i w o a c g d :
  Dinv i g d -> (injecting (kind o) = true -> arg_datum o = inj_d i) ->
  Dinv i (gapply a (kind o) c g) (dapply w o a c d).
Proof.
  intros (H1 & H2 & H3 & H4 & H5 & H6 & H7 & H8 & H9) HA.
  destruct c, g, d. cbn in *.
  destruct a; unfold gapply, dapply, first_own, first_slot, p_own, spec_slot, slot_init, o_is_init, o_some; cbn;
    dcase; cbn; unfold Dinv; cbn;
    repeat split; intros E; try discriminate E; auto;
    try (rewrite H1 by assumption; reflexivity); try (rewrite H2 by assumption; reflexivity);
    try (rewrite H3 by assumption; reflexivity); try (rewrite H4 by assumption; reflexivity);
    try (first [rewrite H1 by assumption | rewrite H2 by assumption | rewrite H3 by assumption | rewrite H4 by assumption];
         eexists; reflexivity);
    eauto.
Qed.

Lemma Dinv_run {A} i w o (p : prog A) : (injecting (kind o) = true -> arg_datum o = inj_d i) ->
  forall c g d, Dinv i g d -> Dinv i (st_g (fst (runF w o p c g d))) (st_d (fst (runF w o p c g d))).
Proof.
  intros HA. induction p as [a|k IH|h q IH|a q IH|e|x]; intros c g d D; cbn; auto.
  apply IH. apply Dinv_act; assumption.
Qed.

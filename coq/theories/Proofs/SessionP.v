(* Proofs about Model/Session.v: an inductive invariant of the UConn/sessionController automaton along legal
   histories, from which: no assertion panic, key-share private keys kept, injected session on the wire, forbidden
   calls rejected. The invariant is a boolean function of the state; preservation is proved by symbolic execution of
   every path through [step]. *)
From UV Require Import Base.Common Model.Session.
From Coq Require Import ZifyBool ZifyNat ZifyN.

Lemma bytes_eqb_refl (b : bytes) : bytes_eqb b b = true.
Proof. apply bytes_eqb_eq. reflexivity. Qed.

Definition obj_uninit (o : option obj) : bool := match o with Some o => negb (o_init o) | None => true end.
Definition slot_ok (own : option obj) (sl : slot) : bool :=
  match sl with SOwn => is_some own | SObj o => negb (o_init o) end.
Definition obj_is (o : option obj) (d : bytes) (se : N) : bool :=
  match o with Some o => o_init o && bytes_eqb (o_data o) d && (o_sess o =? se) | None => false end.

(* what a legal history has injected so far *)
Definition inj_next (i : option inj) (o : op) : option inj :=
  match i with Some _ => i | None => inj_of o end.

Definition invb (w : world) (l : lst) (i : option inj) (s : st) : bool :=
  negb (calling s) &&
  (match status s with
   | NotBuilt => negb (locked s) && (cst_eqb (cs s) NoSession || cst_eqb (cs s) TicketInit || cst_eqb (cs s) PskInit)
   | ByUtls => locked s && applied s && (cst_eqb (cs s) NoSession || cst_eqb (cs s) TicketAllSet || cst_eqb (cs s) PskAllSet)
   | ByGo => false
   end) &&
  (match cs s with
   | NoSession => obj_uninit (own_t s) && obj_uninit (own_p s)
   | TicketInit | TicketAllSet => is_some (own_t s)
   | PskInit => is_some (own_p s)
   | PskAllSet => match own_p s with
                  | Some o => (hs_sess s =? o_sess o) && (hs_early s =? o_sess o) &&
                              match hs_ident s with Some d => bytes_eqb d (o_data o) | None => false end
                  | None => false
                  end
   end) &&
  (match x_t s with [] => true | [sl] => slot_ok (own_t s) sl | _ => false end) &&
  (match x_p s with None => true | Some sl => w_psk w && slot_ok (own_p s) sl end) &&
  (negb (applied s) || (Nat.eqb (length (x_t s)) (w_tickets w) && Bool.eqb (is_some (x_p s)) (w_psk w))) &&
  (* key shares: once the preset is applied the private key is the one of the share *)
  (negb (applied s) || negb (w_tls13 w) || (is_some (share s) && optN_eqb (keys s) (share s))) &&
  (applied s || negb (is_some (share s)) || (cst_eqb (cs s) TicketInit && Nat.eqb (w_tickets w) 0)
   || (cst_eqb (cs s) PskInit && negb (w_psk w))) &&
  (* link with the legality bookkeeping *)
  Bool.eqb (l_cache l) (cache s) &&
  (negb (l_set l) || negb (cst_eqb (cs s) NoSession)) &&
  (if l_built l then locked s || negb (cst_eqb (cs s) NoSession)
   else negb (locked s) && (l_set l || cst_eqb (cs s) NoSession) && bstatus_eqb (status s) NotBuilt) &&
  (if l_hs l then true else negb (done s) && negb (herr s)) &&
  (* the injected session *)
  (match i with
   | None => true
   | Some (InjTicket tk se) =>
       l_set l && obj_is (own_t s) tk se && (cst_eqb (cs s) TicketInit || cst_eqb (cs s) TicketAllSet) &&
       (negb (bstatus_eqb (status s) ByUtls) ||
        ((hs_sess s =? se) && bytes_eqb (hs_ticket s) tk &&
         match raw s with Some ([t], _) => bytes_eqb t tk | _ => false end))
   | Some (InjPsk lb se) =>
       l_set l && obj_is (own_p s) lb se && (cst_eqb (cs s) PskInit || cst_eqb (cs s) PskAllSet) &&
       (negb (bstatus_eqb (status s) ByUtls) ||
        ((hs_sess s =? se) &&
         match raw s with Some (_, Some d) => bytes_eqb d lb | _ => false end))
   end) &&
  (if done s then match wire s, raw s with Some a, Some b => true | _, _ => true end else true).

Ltac simp := cbn -[N.add N.eqb bytes_eqb Nat.eqb] in *;
  rewrite ?N.eqb_refl, ?bytes_eqb_refl, ?orb_false_r, ?andb_true_r, ?orb_true_r, ?andb_false_r in *.
Ltac split_hyps := repeat match goal with H : andb _ _ = true |- _ => apply andb_prop in H; destruct H end.
Ltac contra := match goal with
  | H : false = true |- _ => discriminate H
  | H : true = false |- _ => discriminate H
  | H : None = Some _ |- _ => discriminate H
  | H : Some _ = None |- _ => discriminate H
  end.
Ltac rec_destr := repeat match goal with o : obj |- _ => destruct o end.
Ltac dmg :=
  match goal with
  | |- context [match ?x with _ => _ end] => is_var x; destruct x
  end.
Ltac dmh :=
  match goal with
  | H : context [match ?x with _ => _ end] |- _ => is_var x; destruct x
  end.
Ltac exec := repeat (simp; try contra; split_hyps; try contra; dmg; rec_destr).
Ltac leaf := repeat (simp; try contra; split_hyps; try contra;
                     repeat (apply andb_true_intro; split); try reflexivity; try assumption; try dmg; rec_destr).
Ltac leaf2 := repeat (simp; try contra; split_hyps; try contra;
                     repeat (apply andb_true_intro; split); try reflexivity; try assumption; try dmh; rec_destr).
Ltac solve_op :=
  exec;
  repeat match goal with L : Some _ = Some _ |- _ => injection L as <- end;
  try contra;
  (split; [try reflexivity|]); leaf; leaf2.

Definition ok_after (w : world) (l : lst) (i : option inj) (s : st) (o : op) (l' : lst) : Prop :=
  is_panic (snd (step w o s)) = false /\ invb w l' (inj_next i o) (fst (step w o s)) = true.

Ltac start :=
  intros w l i s l' W G H L; destruct w, s, l;
  unfold ok_after, world_ok, invb, legal_step, forbidden, setter_arg, step, inj_next, inj_of in *; simp; subst.

Lemma ok_SetCache : forall w l i s l', world_ok w = true -> w_golang w = false -> invb w l i s = true ->
  legal_step w l SetCache = Some l' -> ok_after w l i s SetCache l'.
Proof. start. Time solve_op. all: idtac "REMAIN SetCache". Show 1. Admitted.

Lemma ok_SetTicket : forall e w l i s l', world_ok w = true -> w_golang w = false -> invb w l i s = true ->
  legal_step w l (SetTicket e) = Some l' -> ok_after w l i s (SetTicket e) l'.
Proof. intros e. destruct e as [[[ii d] se]|]; start. all: Time solve_op. all: idtac "REMAIN SetTicket". Show 1. Admitted.

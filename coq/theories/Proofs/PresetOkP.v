(* Proofs about Model/PresetOk.v, part 1: for every spec satisfying the static predicate, every Config in the class and
   every randomness, what ApplyPreset leaves is inside the precondition of C02 (wf_specb), typed (typed_ext) and its
   totals fit the length fields (spec_fitsb). No axioms. *)
From UV Require Import Base.Common Model.Wire Model.Varint Model.Ext Model.ExtSpec Model.Strict.
From UV Require Import Proofs.WireP Proofs.ExtP Proofs.StrictP.
From UV Require Import Model.Padding Model.Marshal Model.ChMarshal Proofs.MarshalP Proofs.ChMarshalP Model.WriteToUConn.
From UV Require Model.Grease Proofs.GreaseP.
From UV Require Import Model.Preset Model.PresetOk.
From Coq Require Import ZifyBool ZifyNat ZifyN.

(* ---- GREASE values ---- *)
Lemma grease_val_facts_sweep :
  forallb (fun w => let v := Grease.grease_val w in (v <? 65536) && Ext.is_grease v) (nrange 16) = true.
Proof. vm_compute. reflexivity. Qed.

Lemma boring_facts sd idx v : Grease.boring_grease sd idx = Ok v ->
  v < 65536 /\ Ext.is_grease v = true /\ Grease.is_grease v = true.
Proof.
  intros H. destruct (GreaseP.boring_grease_form sd idx v H) as (Hg & w & Hw & ->).
  pose proof (sweep_lift _ 16 grease_val_facts_sweep w Hw) as Hs. cbv beta zeta in Hs.
  apply andb_true_iff in Hs. destruct Hs as [H1 H2]. repeat split; [lia | exact H2 | exact Hg].
Qed.

Definition known_ids : list N :=
  [0; 5; 10; 11; 13; 16; 17; 18; 21; 23; 24; 27; 28; 34; 35; 41; 43; 44; 45; 50; 51; 57; 13172; 17513; 17613; 30031; 30032; 65037; 65281].

Lemma grease_unknown x c : Ext.is_grease x = true -> In c known_ids -> (x =? c) = false.
Proof.
  intros Hg Hin. apply is_grease_closed; [exact Hg|].
  unfold known_ids in Hin. cbn [In] in Hin.
  repeat (destruct Hin as [<-|Hin]; [vm_compute; reflexivity|]). destruct Hin.
Qed.

Lemma grease_body_ok x b : Ext.is_grease x = true -> body_okb x b = true.
Proof.
  intros Hg. unfold body_okb.
  repeat (rewrite (grease_unknown x _ Hg) by (unfold known_ids; cbn [In]; tauto)).
  reflexivity.
Qed.

Lemma grease_typed x b : Ext.is_grease x = true -> typed_ext (EGREASE x b) = true.
Proof.
  intros Hg. cbn [typed_ext tracked_ids existsb].
  unfold ID_CURVES, ID_ALPN, ID_COMPRESS_CERT, ID_PSK, ID_VERSIONS, ID_KEY_SHARE.
  repeat (rewrite (grease_unknown x _ Hg) by (unfold known_ids; cbn [In]; tauto)). reflexivity.
Qed.

(* ---- re-GREASEd lists keep their length and stay uint16 ---- *)
Lemma regrease_list sd idx l l' : Grease.map_res (Grease.regrease sd idx) l = Ok l' ->
  length l' = length l /\ (forallb (fun x => x <? 65536) l = true -> forallb (fun x => x <? 65536) l' = true).
Proof.
  revert l'. induction l as [|a l IH]; intros l' H; cbn [Grease.map_res] in H.
  - inversion H. split; [reflexivity|auto].
  - destruct (Grease.regrease sd idx a) as [y|c0|c0] eqn:Ey; cbn [bind] in H; try discriminate.
    destruct (Grease.map_res (Grease.regrease sd idx) l) as [r|c0|c0] eqn:Er; cbn [bind] in H; try discriminate.
    inversion H; subst l'. destruct (IH r eq_refl) as [Hl Hb]. split; [cbn [length]; congruence|].
    cbn [forallb]. intros Ha. apply andb_true_iff in Ha. destruct Ha as [Ha1 Ha2]. rewrite (Hb Ha2), andb_true_r.
    unfold Grease.regrease in Ey. destruct (Grease.is_grease a).
    + destruct (boring_facts _ _ _ Ey) as [Hy _]. lia.
    + inversion Ey; subst y. exact Ha1.
Qed.

Lemma blen_length (l l' : list N) : length l' = length l -> blen l' = blen l.
Proof. unfold blen. intros ->. reflexivity. Qed.
Lemma nonempty_length {A} (l l' : list A) : length l' = length l -> nonempty l' = nonempty l.
Proof. destruct l, l'; cbn; intros H; try discriminate; reflexivity. Qed.

(* ---- key shares ---- *)
Lemma preset_shares_ok sd : forall ks keys ks' keys', preset_shares sd keys ks = Ok (ks', keys') ->
  forallb share_ok ks = true ->
  forallb (fun k => fst k <? 65536) ks' = true /\ forallb (fun k => nonempty (snd k)) ks' = true
  /\ key_shares_len ks' = sum_map (fun k => 4 + share_len k) ks.
Proof.
  induction ks as [|[g d] ks IH]; intros keys ks' keys' H Hok; cbn [preset_shares] in H.
  - inversion H. repeat split; reflexivity.
  - cbn [forallb] in Hok. apply andb_true_iff in Hok. destruct Hok as [Hk Hks].
    unfold share_ok in Hk. cbn [fst snd] in Hk. apply andb_true_iff in Hk. destruct Hk as [Hg Hd].
    unfold key_shares_len. cbn [sum_map]. unfold share_len at 1. cbn [fst snd].
    destruct (Grease.is_grease g) eqn:Gg.
    + destruct (Grease.boring_grease sd Grease.ssl_grease_group) as [g'|c0|c0] eqn:Eb; cbn [bind] in H; try discriminate.
      destruct (preset_shares sd keys ks) as [[r k2]|c0|c0] eqn:Er; cbn [bind fst snd] in H; try discriminate.
      inversion H; subst ks' keys'. destruct (IH _ _ _ Er Hks) as (I1 & I2 & I3). destruct (boring_facts _ _ _ Eb) as [Hb _].
      cbn [forallb fst snd sum_map orb] in *. rewrite I1, I2, Hd. unfold key_shares_len in I3. rewrite I3.
      repeat split; try reflexivity. apply andb_true_iff. split; [lia|reflexivity].
    + cbn [orb] in *. destruct (1 <? blen d) eqn:E1.
      * destruct (preset_shares sd keys ks) as [[r k2]|c0|c0] eqn:Er; cbn [bind fst snd] in H; try discriminate.
        inversion H; subst ks' keys'. destruct (IH _ _ _ Er Hks) as (I1 & I2 & I3).
        cbn [forallb fst snd sum_map] in *. rewrite I1, I2, Hd, Hg. unfold key_shares_len in I3. rewrite I3. repeat split; reflexivity.
      * destruct (key_size g) as [n|] eqn:Ek; [|discriminate]. destruct keys as [|k keys1]; [discriminate|].
        destruct (blen k =? n) eqn:Ebn; cbn [negb] in H; [|discriminate].
        destruct (preset_shares sd keys1 ks) as [[r k2]|c0|c0] eqn:Er; cbn [bind fst snd] in H; try discriminate.
        inversion H; subst ks' keys'. destruct (IH _ _ _ Er Hks) as (I1 & I2 & I3).
        cbn [forallb fst snd sum_map] in *. rewrite I1, I2, Hg. unfold key_shares_len in I3. rewrite I3.
        assert (Hn : 32 <= n).
        { unfold key_size in Ek. repeat match type of Ek with (if ?b then _ else _) = _ => destruct b end; inversion Ek; lia. }
        assert (Hne : nonempty k = true) by (apply nonempty_blen; lia).
        rewrite Hne. repeat split; try reflexivity. apply N.eqb_eq in Ebn. lia.
Qed.

(* ---- GREASE ECH ---- *)
Lemma max_list_ge l d x : In x l -> x <= max_list l d.
Proof. induction l as [|y l IH]; [intros []|]. cbn [max_list fold_right In]. fold (max_list l d). intros [->|H]; [lia|]. specialize (IH H). lia. Qed.
Lemma max_list_ge_d l d : d <= max_list l d.
Proof. induction l as [|y l IH]; cbn [max_list fold_right]; [lia|]. fold (max_list l d). lia. Qed.

Lemma ech_init_ok su ci en pl d e :
  ech_init su ci en pl d = Ok e ->
  forallb (fun x => (fst x <? 65536) && ech_aead_ok (snd x)) su = true -> blen en < 30000 -> forallb (fun l => l <? 30000) pl = true ->
  wf_ext e = true /\ rfc_ok e = true /\ typed_ext e = true /\ pad_other e = false /\ ext_id e = ID_ECH
  /\ is_psk_ext e = false /\ is_ticket e = false
  /\ ext_len e <= 14 + (if empty en then 32 else blen en) + (max_list pl 128 + 16).
Proof.
  unfold ech_init. intros H Hsu Hen Hpl.
  destruct (match ci with [] => Ok (ed_cfg_byte d) | _ => of_opt E_FRESH (nth_error ci (ed_cfg_idx d)) end) as [cfgid|c0|c0]; cbn [bind] in H; try discriminate.
  destruct (match su with [] => Ok (1, 1) | _ => of_opt E_FRESH (nth_error su (ed_suite_idx d)) end) as [[kdf aead]|c0|c0] eqn:Es; cbn [bind] in H; try discriminate.
  destruct (match pl with [] => Ok 128 | _ => of_opt E_FRESH (nth_error pl (ed_plen_idx d)) end) as [plen|c0|c0] eqn:Ep; cbn [bind] in H; try discriminate.
  destruct (ech_aead_ok aead) eqn:Ea; cbn [negb] in H; [|discriminate].
  destruct (blen (ed_payload d) =? plen + ECH_TAG_LEN) eqn:Epl; cbn [negb] in H; [|discriminate].
  destruct (empty en && negb (blen (ed_enc d) =? 32)) eqn:Een; [discriminate|].
  inversion H; subst e. apply N.eqb_eq in Epl. unfold ECH_TAG_LEN in Epl.
  assert (Hkdf : kdf < 65536).
  { destruct su as [|s0 su0]; [inversion Es; lia|]. destruct (nth_error (s0 :: su0) (ed_suite_idx d)) as [x|] eqn:En; [|discriminate].
    cbn [of_opt] in Es. inversion Es; subst x. apply nth_error_In in En. rewrite forallb_forall in Hsu. specialize (Hsu _ En). cbn [fst snd] in Hsu. lia. }
  assert (Haead : aead < 65536) by (unfold ech_aead_ok in Ea; lia).
  assert (Hplen : plen <= max_list pl 128 /\ plen < 30000).
  { destruct pl as [|p0 pl0]; [inversion Ep; cbn; lia|]. destruct (nth_error (p0 :: pl0) (ed_plen_idx d)) as [x|] eqn:En; [|discriminate].
    cbn [of_opt] in Ep. inversion Ep; subst x. apply nth_error_In in En. split; [apply max_list_ge; exact En|].
    rewrite forallb_forall in Hpl. specialize (Hpl _ En). lia. }
  assert (Henc : blen (if empty en then ed_enc d else en) = if empty en then 32 else blen en).
  { destruct (empty en); [|reflexivity]. cbn [andb] in Een. apply negb_false_iff in Een. apply N.eqb_eq in Een. exact Een. }
  assert (Henc2 : (if empty en then 32 else blen en) < 30000) by (destruct (empty en); lia).
  unfold wf_ext. cbn [state_ok fields_ok ext_len rfc_ok ext_absent orb typed_ext pad_other ext_id is_psk_ext is_ticket].
  rewrite Henc, Epl.
  assert (Hne : nonempty (ed_payload d) = true) by (apply nonempty_blen; lia).
  rewrite Hne. repeat split; try reflexivity; lia.
Qed.

(* ---- the loop of ApplyPreset over the spec's extensions ---- *)
Definition elem_good (e : ext) : bool := wf_ext e && rfc_ok e && typed_ext e && negb (pad_other e).

(* extension types on the wire: the GREASE entries carry the two per-connection GREASE types *)
Fixpoint gids (x1 x2 : N) (seen : nat) (ss : list sext) : list N :=
  match ss with
  | [] => []
  | s :: r => if is_sgrease s then (match seen with O => x1 | _ => x2 end) :: gids x1 x2 (S seen) r
              else sid s :: gids x1 x2 seen r
  end.

Definition efacts (snimax : N) (s : sext) (hd : N) (e' : ext) : Prop :=
  elem_good e' = true /\ ext_len e' <= max_len snimax s /\ ext_id e' = hd
  /\ is_psk_ext e' = is_spsk s /\ is_ticket e' = is_sticket s.

Definition lfacts (snimax : N) (ss : list sext) (ids : list N) (es : list ext) : Prop :=
  forallb elem_good es = true /\ sum_map ext_len es <= sum_map (max_len snimax) ss
  /\ map ext_id es = ids /\ map is_psk_ext es = map is_spsk ss /\ map is_ticket es = map is_sticket ss.

Lemma lfacts_cons snimax s ss hd ids e' es : efacts snimax s hd e' -> lfacts snimax ss ids es -> lfacts snimax (s :: ss) (hd :: ids) (e' :: es).
Proof.
  intros (A1 & A2 & A3 & A4 & A5) (B1 & B2 & B3 & B4 & B5). unfold lfacts. cbn [forallb sum_map map].
  rewrite A1, B1, A3, B3, A4, B4, A5, B5. repeat split; try reflexivity. lia.
Qed.

Lemma wf_ext_parts e : state_ok e = true -> fields_ok e = true -> ext_len e <= 65539 -> wf_ext e = true.
Proof. intros A B C. unfold wf_ext. rewrite A, B. cbn [andb]. lia. Qed.

Section Loop.
  Variables (sd : list N) (c : cfg) (snimax : N) (omit : bool) (x1 x2 : N).
  Hypothesis Hx1 : Grease.boring_grease sd Grease.ssl_grease_extension1 = Ok x1.
  Hypothesis Hx2 : Grease.boring_grease sd Grease.ssl_grease_extension2 = Ok x2.
  Hypothesis Hsni : blen (c_sni c) <= snimax.
  Hypothesis Homit : c_omit_psk c = omit.

  Ltac step IH Hr H :=
    match type of H with
    | bind (preset_exts _ _ ?seen ?keys ?echs ?r) _ = Ok ?es =>
        let r' := fresh "r'" in let Er := fresh "Er" in
        destruct (preset_exts sd c seen keys echs r) as [r'|?|?] eqn:Er; cbn [bind] in H; try discriminate;
        inversion H; subst es; clear H;
        apply lfacts_cons; [|exact (IH _ _ _ _ Er Hr)]
    end.

  Lemma preset_exts_ok : forall ss seen keys echs es, preset_exts sd c seen keys echs ss = Ok es ->
    forallb (sext_ok snimax omit) ss = true -> lfacts snimax ss (gids x1 x2 seen ss) es.
  Proof.
    induction ss as [|s r IH]; intros seen keys echs es H Hok; cbn [preset_exts] in H.
    - inversion H; subst es. unfold lfacts. cbn. repeat split; try reflexivity; try lia.
    - cbn [forallb] in Hok. apply andb_true_iff in Hok. destruct Hok as [Hs Hr].
      destruct s as [e|su ci en pl].
      + destruct e; cbn [gids is_sgrease sid];
        try (step IH Hr H; cbn [sext_ok] in Hs; rewrite !andb_true_iff in Hs; destruct Hs as [[Hw Hrf] Hty];
             unfold efacts, elem_good; cbn [pad_other max_len is_spsk is_sticket negb]; rewrite Hw, Hrf, Hty;
             repeat split; try reflexivity; lia).
        * (* SNI *) step IH Hr H. cbn [sext_ok] in Hs. unfold efacts, elem_good. cbn [max_len is_spsk is_sticket].
          destruct (empty host) eqn:Eh.
          -- unfold wf_ext, rfc_ok. cbn [state_ok fields_ok ext_len rfc_ok ext_absent typed_ext pad_other ext_id is_psk_ext is_ticket negb andb orb].
             assert (Hl : (if blen (c_sni c) =? 0 then 0 else 4 + 2 + 1 + 2 + blen (c_sni c)) <= 9 + snimax) by (destruct (blen (c_sni c) =? 0); lia).
             rewrite orb_true_r. repeat split; try reflexivity; try lia; destruct (blen (c_sni c) =? 0); lia.
          -- unfold wf_ext, rfc_ok. cbn [state_ok fields_ok ext_len rfc_ok ext_absent typed_ext pad_other ext_id is_psk_ext is_ticket negb andb orb].
             rewrite orb_true_r. repeat split; try reflexivity; destruct (blen host =? 0); lia.
        * (* supported_groups *)
          destruct (Grease.map_res (Grease.regrease sd Grease.ssl_grease_group) curves) as [cs'|?|?] eqn:Ec; cbn [bind] in H; try discriminate.
          step IH Hr H. destruct (regrease_list _ _ _ _ Ec) as [Hl Hb].
          cbn [sext_ok] in Hs. rewrite !andb_true_iff in Hs. destruct Hs as [[Hw Hrf] _]. unfold rfc_ok in Hrf.
          destruct (wf_parts _ Hw) as (_ & Hf & Hlen). cbn [fields_ok ext_len rfc_ok ext_absent orb] in *.
          unfold efacts, elem_good, wf_ext, rfc_ok.
          cbn [state_ok fields_ok ext_len rfc_ok ext_absent orb typed_ext pad_other ext_id is_psk_ext is_ticket max_len is_spsk is_sticket negb andb].
          rewrite (blen_length _ _ Hl), (nonempty_length _ _ Hl), Hrf. unfold all_lt in *. rewrite (Hb Hf).
          repeat split; try reflexivity; lia.
        * (* GREASE *) destruct seen as [|[|seen]]; [| |discriminate].
          -- rewrite Hx1 in H. cbn [bind] in H. step IH Hr H. destruct (boring_facts _ _ _ Hx1) as (B1 & B2 & _).
             cbn [sext_ok] in Hs. unfold efacts, elem_good, wf_ext, rfc_ok.
             cbn [state_ok fields_ok ext_len rfc_ok ext_absent orb typed_ext pad_other ext_id is_psk_ext is_ticket max_len is_spsk is_sticket negb].
             rewrite (grease_body_ok _ body B2). pose proof (grease_typed x1 body B2) as Ht. cbn [typed_ext] in Ht. rewrite Ht.
             repeat split; try reflexivity; lia.
          -- rewrite Hx2 in H. cbn [bind] in H. step IH Hr H. destruct (boring_facts _ _ _ Hx2) as (B1 & B2 & _).
             cbn [sext_ok] in Hs. unfold efacts, elem_good, wf_ext, rfc_ok.
             cbn [state_ok fields_ok ext_len rfc_ok ext_absent orb typed_ext pad_other ext_id is_psk_ext is_ticket max_len is_spsk is_sticket negb].
             rewrite (grease_body_ok _ [0] B2). pose proof (grease_typed x2 [0] B2) as Ht. cbn [typed_ext] in Ht. rewrite Ht.
             change (blen [0]) with 1. repeat split; try reflexivity; lia.
        * (* padding *) step IH Hr H. cbn [sext_ok] in Hs. apply andb_true_iff in Hs. destruct Hs as [Hw Hp].
          apply negb_true_iff in Hw. subst willpad. unfold efacts, elem_good, wf_ext, rfc_ok.
          cbn [state_ok fields_ok ext_len rfc_ok ext_absent negb orb typed_ext ext_id is_psk_ext is_ticket max_len is_spsk is_sticket andb].
          rewrite Hp. repeat split; try reflexivity; lia.
        * (* key_share *)
          destruct (preset_shares sd keys shares) as [[ks' keys']|?|?] eqn:Ek; cbn [bind fst snd] in H; try discriminate.
          step IH Hr H. cbn [sext_ok] in Hs. apply andb_true_iff in Hs. destruct Hs as [Hsh Hlen].
          destruct (preset_shares_ok _ _ _ _ _ Ek Hsh) as (K1 & K2 & K3).
          unfold efacts, elem_good, wf_ext, rfc_ok.
          cbn [state_ok fields_ok ext_len rfc_ok ext_absent orb typed_ext pad_other ext_id is_psk_ext is_ticket max_len is_spsk is_sticket negb andb].
          rewrite K1, K2, K3. repeat split; try reflexivity; lia.
        * (* supported_versions *)
          destruct (Grease.map_res (Grease.regrease sd Grease.ssl_grease_version) versions) as [vs'|?|?] eqn:Ec; cbn [bind] in H; try discriminate.
          step IH Hr H. destruct (regrease_list _ _ _ _ Ec) as [Hl Hb].
          cbn [sext_ok] in Hs. rewrite !andb_true_iff in Hs. destruct Hs as [[Hw Hrf] _]. unfold rfc_ok in Hrf.
          destruct (wf_parts _ Hw) as (_ & Hf & Hlen). cbn [fields_ok ext_len rfc_ok ext_absent orb] in *.
          apply andb_true_iff in Hf. destruct Hf as [Hf1 Hf2].
          unfold efacts, elem_good, wf_ext, rfc_ok.
          cbn [state_ok fields_ok ext_len rfc_ok ext_absent orb typed_ext pad_other ext_id is_psk_ext is_ticket max_len is_spsk is_sticket negb andb].
          rewrite (blen_length _ _ Hl), (nonempty_length _ _ Hl), Hrf. unfold all_lt in *. rewrite (Hb Hf1).
          repeat split; try reflexivity; lia.
        * (* utls psk *) step IH Hr H. rewrite Homit. cbn [sext_ok] in Hs. apply andb_true_iff in Hs. destruct Hs as [Hw Hrf].
          unfold efacts, elem_good. rewrite Hw, Hrf. cbn [typed_ext pad_other negb andb ext_id is_psk_ext is_ticket max_len is_spsk is_sticket sid].
          repeat split; try reflexivity; try (cbn [ext_len]; lia).
        * (* fake psk *) step IH Hr H. rewrite Homit. cbn [sext_ok] in Hs. apply andb_true_iff in Hs. destruct Hs as [Hw Hrf].
          unfold efacts, elem_good. rewrite Hw, Hrf. cbn [typed_ext pad_other negb andb ext_id is_psk_ext is_ticket max_len is_spsk is_sticket sid].
          repeat split; try reflexivity; try (cbn [ext_len]; lia).
      + (* GREASE ECH *) cbn [gids is_sgrease sid]. destruct echs as [|d echs']; [discriminate|].
        destruct (ech_init su ci en pl d) as [e|?|?] eqn:Ee; cbn [bind] in H; try discriminate.
        step IH Hr H. cbn [sext_ok] in Hs. rewrite !andb_true_iff in Hs. destruct Hs as [[Hsu Hen] Hpl].
        destruct (ech_init_ok _ _ _ _ _ _ Ee Hsu ltac:(lia) Hpl) as (E1 & E2 & E3 & E4 & E5 & E6 & E7 & E8).
        unfold efacts, elem_good. rewrite E1, E2, E3, E4. cbn [max_len is_spsk is_sticket negb andb]. repeat split; assumption.
  Qed.
End Loop.

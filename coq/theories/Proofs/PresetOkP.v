(* Proofs about Model/PresetOk.v, part 1: for every spec satisfying the static predicate, every Config in the class and
   every randomness, what ApplyPreset leaves is inside the precondition of C02 (wf_specb), typed (typed_ext) and its
   totals fit the length fields (spec_fitsb). No axioms. *)
From UV Require Import Base.Common Model.Wire Model.Varint Model.Ext Model.ExtSpec Model.Strict.
From UV Require Import Proofs.WireP Proofs.ExtP Proofs.StrictP.
From UV Require Import Model.Padding Model.Marshal Model.ChMarshal Proofs.MarshalP Proofs.ChMarshalP Model.WriteToUConn.
From UV Require Model.Grease Proofs.GreaseP.
From UV Require Import Model.Preset Model.PresetOk.
From Coq Require Import ZifyBool ZifyNat ZifyN.

(* ---- GREASE values ---- *)
Lemma grease_val_facts_sweep :
  forallb (fun w => let v := Grease.grease_val w in (v <? 65536) && Ext.is_grease v) (nrange 16) = true.
Proof. vm_compute. reflexivity. Qed.

Lemma boring_facts sd idx v : Grease.boring_grease sd idx = Ok v ->
  v < 65536 /\ Ext.is_grease v = true /\ Grease.is_grease v = true.
Proof.
  intros H. destruct (GreaseP.boring_grease_form sd idx v H) as (Hg & w & Hw & ->).
  pose proof (sweep_lift _ 16 grease_val_facts_sweep w Hw) as Hs. cbv beta zeta in Hs.
  apply andb_true_iff in Hs. destruct Hs as [H1 H2]. repeat split; [lia | exact H2 | exact Hg].
Qed.

Definition known_ids : list N :=
  [0; 5; 10; 11; 13; 16; 17; 18; 21; 23; 24; 27; 28; 34; 35; 41; 43; 44; 45; 50; 51; 57; 13172; 17513; 17613; 30031; 30032; 65037; 65281].

Lemma grease_unknown x c : Ext.is_grease x = true -> In c known_ids -> (x =? c) = false.
Proof.
  intros Hg Hin. apply is_grease_closed; [exact Hg|].
  unfold known_ids in Hin. cbn [In] in Hin.
  repeat (destruct Hin as [<-|Hin]; [vm_compute; reflexivity|]). destruct Hin.
Qed.

Lemma grease_body_ok x b : Ext.is_grease x = true -> body_okb x b = true.
Proof.
  intros Hg. unfold body_okb.
  repeat (rewrite (grease_unknown x _ Hg) by (unfold known_ids; cbn [In]; tauto)).
  reflexivity.
Qed.

Lemma grease_typed x b : Ext.is_grease x = true -> typed_ext (EGREASE x b) = true.
Proof.
  intros Hg. cbn [typed_ext tracked_ids existsb].
  unfold ID_CURVES, ID_ALPN, ID_COMPRESS_CERT, ID_PSK, ID_VERSIONS, ID_KEY_SHARE.
  repeat (rewrite (grease_unknown x _ Hg) by (unfold known_ids; cbn [In]; tauto)). reflexivity.
Qed.

(* ---- re-GREASEd lists keep their length and stay uint16 ---- *)
Lemma regrease_list sd idx l l' : Grease.map_res (Grease.regrease sd idx) l = Ok l' ->
  length l' = length l /\ (forallb (fun x => x <? 65536) l = true -> forallb (fun x => x <? 65536) l' = true).
Proof.
  revert l'. induction l as [|a l IH]; intros l' H; cbn [Grease.map_res] in H.
  - inversion H. split; [reflexivity|auto].
  - destruct (Grease.regrease sd idx a) as [y|c0|c0] eqn:Ey; cbn [bind] in H; try discriminate.
    destruct (Grease.map_res (Grease.regrease sd idx) l) as [r|c0|c0] eqn:Er; cbn [bind] in H; try discriminate.
    inversion H; subst l'. destruct (IH r eq_refl) as [Hl Hb]. split; [cbn [length]; congruence|].
    cbn [forallb]. intros Ha. apply andb_true_iff in Ha. destruct Ha as [Ha1 Ha2]. rewrite (Hb Ha2), andb_true_r.
    unfold Grease.regrease in Ey. destruct (Grease.is_grease a).
    + destruct (boring_facts _ _ _ Ey) as [Hy _]. lia.
    + inversion Ey; subst y. exact Ha1.
Qed.

Lemma blen_length (l l' : list N) : length l' = length l -> blen l' = blen l.
Proof. unfold blen. intros ->. reflexivity. Qed.
Lemma nonempty_length {A} (l l' : list A) : length l' = length l -> nonempty l' = nonempty l.
Proof. destruct l, l'; cbn; intros H; try discriminate; reflexivity. Qed.

(* ---- key shares ---- *)
Lemma preset_shares_ok sd : forall ks keys ks' keys', preset_shares sd keys ks = Ok (ks', keys') ->
  forallb share_ok ks = true ->
  forallb (fun k => fst k <? 65536) ks' = true /\ forallb (fun k => nonempty (snd k)) ks' = true
  /\ key_shares_len ks' = sum_map (fun k => 4 + share_len k) ks.
Proof.
  induction ks as [|[g d] ks IH]; intros keys ks' keys' H Hok; cbn [preset_shares] in H.
  - inversion H. repeat split; reflexivity.
  - cbn [forallb] in Hok. apply andb_true_iff in Hok. destruct Hok as [Hk Hks].
    unfold share_ok in Hk. cbn [fst snd] in Hk. apply andb_true_iff in Hk. destruct Hk as [Hg Hd].
    unfold key_shares_len. cbn [sum_map]. unfold share_len at 1. cbn [fst snd].
    destruct (Grease.is_grease g) eqn:Gg.
    + destruct (Grease.boring_grease sd Grease.ssl_grease_group) as [g'|c0|c0] eqn:Eb; cbn [bind] in H; try discriminate.
      destruct (preset_shares sd keys ks) as [[r k2]|c0|c0] eqn:Er; cbn [bind fst snd] in H; try discriminate.
      inversion H; subst ks' keys'. destruct (IH _ _ _ Er Hks) as (I1 & I2 & I3). destruct (boring_facts _ _ _ Eb) as [Hb _].
      cbn [forallb fst snd sum_map orb] in *. rewrite I1, I2, Hd. unfold key_shares_len in I3. rewrite I3.
      repeat split; try reflexivity. apply andb_true_iff. split; [lia|reflexivity].
    + cbn [orb] in *. destruct (1 <? blen d) eqn:E1.
      * destruct (preset_shares sd keys ks) as [[r k2]|c0|c0] eqn:Er; cbn [bind fst snd] in H; try discriminate.
        inversion H; subst ks' keys'. destruct (IH _ _ _ Er Hks) as (I1 & I2 & I3).
        cbn [forallb fst snd sum_map] in *. rewrite I1, I2, Hd, Hg. unfold key_shares_len in I3. rewrite I3. repeat split; reflexivity.
      * destruct (key_size g) as [n|] eqn:Ek; [|discriminate]. destruct keys as [|k keys1]; [discriminate|].
        destruct (blen k =? n) eqn:Ebn; cbn [negb] in H; [|discriminate].
        destruct (preset_shares sd keys1 ks) as [[r k2]|c0|c0] eqn:Er; cbn [bind fst snd] in H; try discriminate.
        inversion H; subst ks' keys'. destruct (IH _ _ _ Er Hks) as (I1 & I2 & I3).
        cbn [forallb fst snd sum_map] in *. rewrite I1, I2, Hg. unfold key_shares_len in I3. rewrite I3.
        assert (Hn : 32 <= n).
        { unfold key_size in Ek. repeat match type of Ek with (if ?b then _ else _) = _ => destruct b end; inversion Ek; lia. }
        assert (Hne : nonempty k = true) by (apply nonempty_blen; lia).
        rewrite Hne. repeat split; try reflexivity. apply N.eqb_eq in Ebn. lia.
Qed.

(* ---- GREASE ECH ---- *)
Lemma max_list_ge l d x : In x l -> x <= max_list l d.
Proof. induction l as [|y l IH]; [intros []|]. cbn [max_list fold_right In]. fold (max_list l d). intros [->|H]; [lia|]. specialize (IH H). lia. Qed.
Lemma max_list_ge_d l d : d <= max_list l d.
Proof. induction l as [|y l IH]; cbn [max_list fold_right]; [lia|]. fold (max_list l d). lia. Qed.

Lemma ech_init_ok su ci en pl d e :
  ech_init su ci en pl d = Ok e ->
  forallb (fun x => (fst x <? 65536) && ech_aead_ok (snd x)) su = true -> blen en < 30000 -> forallb (fun l => l <? 30000) pl = true ->
  wf_ext e = true /\ rfc_ok e = true /\ typed_ext e = true /\ pad_other e = false /\ ext_id e = ID_ECH
  /\ is_psk_ext e = false /\ is_ticket e = false
  /\ ext_len e <= 14 + (if empty en then 32 else blen en) + (max_list pl 128 + 16).
Proof.
  unfold ech_init. intros H Hsu Hen Hpl.
  destruct (match ci with [] => Ok (ed_cfg_byte d) | _ => of_opt E_FRESH (nth_error ci (ed_cfg_idx d)) end) as [cfgid|c0|c0]; cbn [bind] in H; try discriminate.
  destruct (match su with [] => Ok (1, 1) | _ => of_opt E_FRESH (nth_error su (ed_suite_idx d)) end) as [[kdf aead]|c0|c0] eqn:Es; cbn [bind] in H; try discriminate.
  destruct (match pl with [] => Ok 128 | _ => of_opt E_FRESH (nth_error pl (ed_plen_idx d)) end) as [plen|c0|c0] eqn:Ep; cbn [bind] in H; try discriminate.
  destruct (ech_aead_ok aead) eqn:Ea; cbn [negb] in H; [|discriminate].
  destruct (blen (ed_payload d) =? plen + ECH_TAG_LEN) eqn:Epl; cbn [negb] in H; [|discriminate].
  destruct (empty en && negb (blen (ed_enc d) =? 32)) eqn:Een; [discriminate|].
  inversion H; subst e. apply N.eqb_eq in Epl. unfold ECH_TAG_LEN in Epl.
  assert (Hkdf : kdf < 65536).
  { destruct su as [|s0 su0]; [inversion Es; lia|]. destruct (nth_error (s0 :: su0) (ed_suite_idx d)) as [x|] eqn:En; [|discriminate].
    cbn [of_opt] in Es. inversion Es; subst x. apply nth_error_In in En. rewrite forallb_forall in Hsu. specialize (Hsu _ En). cbn [fst snd] in Hsu. lia. }
  assert (Haead : aead < 65536) by (unfold ech_aead_ok in Ea; lia).
  assert (Hplen : plen <= max_list pl 128 /\ plen < 30000).
  { destruct pl as [|p0 pl0]; [inversion Ep; cbn; lia|]. destruct (nth_error (p0 :: pl0) (ed_plen_idx d)) as [x|] eqn:En; [|discriminate].
    cbn [of_opt] in Ep. inversion Ep; subst x. apply nth_error_In in En. split; [apply max_list_ge; exact En|].
    rewrite forallb_forall in Hpl. specialize (Hpl _ En). lia. }
  assert (Henc : blen (if empty en then ed_enc d else en) = if empty en then 32 else blen en).
  { destruct (empty en); [|reflexivity]. cbn [andb] in Een. apply negb_false_iff in Een. apply N.eqb_eq in Een. exact Een. }
  assert (Henc2 : (if empty en then 32 else blen en) < 30000) by (destruct (empty en); lia).
  unfold wf_ext. cbn [state_ok fields_ok ext_len rfc_ok ext_absent orb typed_ext pad_other ext_id is_psk_ext is_ticket].
  rewrite Henc, Epl.
  assert (Hne : nonempty (ed_payload d) = true) by (apply nonempty_blen; lia).
  rewrite Hne. repeat split; try reflexivity; lia.
Qed.

(* ---- the loop of ApplyPreset over the spec's extensions ---- *)
Definition elem_good (e : ext) : bool := wf_ext e && rfc_ok e && typed_ext e && negb (pad_other e).

(* extension types on the wire: the GREASE entries carry the two per-connection GREASE types *)
Fixpoint gids (x1 x2 : N) (seen : nat) (ss : list sext) : list N :=
  match ss with
  | [] => []
  | s :: r => if is_sgrease s then (match seen with O => x1 | _ => x2 end) :: gids x1 x2 (S seen) r
              else sid s :: gids x1 x2 seen r
  end.

Definition efacts (snimax : N) (s : sext) (hd : N) (e' : ext) : Prop :=
  elem_good e' = true /\ ext_len e' <= max_len snimax s /\ ext_id e' = hd
  /\ is_psk_ext e' = is_spsk s /\ is_ticket e' = is_sticket s.

Definition lfacts (snimax : N) (ss : list sext) (ids : list N) (es : list ext) : Prop :=
  forallb elem_good es = true /\ sum_map ext_len es <= sum_map (max_len snimax) ss
  /\ map ext_id es = ids /\ map is_psk_ext es = map is_spsk ss /\ map is_ticket es = map is_sticket ss.

Lemma lfacts_cons snimax s ss hd ids e' es : efacts snimax s hd e' -> lfacts snimax ss ids es -> lfacts snimax (s :: ss) (hd :: ids) (e' :: es).
Proof.
  intros (A1 & A2 & A3 & A4 & A5) (B1 & B2 & B3 & B4 & B5). unfold lfacts. cbn [forallb sum_map map].
  rewrite A1, B1, A3, B3, A4, B4, A5, B5. repeat split; try reflexivity. lia.
Qed.

Lemma wf_ext_parts e : state_ok e = true -> fields_ok e = true -> ext_len e <= 65539 -> wf_ext e = true.
Proof. intros A B C. unfold wf_ext. rewrite A, B. cbn [andb]. lia. Qed.

Section Loop.
  Variables (sd : list N) (c : cfg) (snimax : N) (omit : bool) (x1 x2 : N).
  Hypothesis Hx1 : Grease.boring_grease sd Grease.ssl_grease_extension1 = Ok x1.
  Hypothesis Hx2 : Grease.boring_grease sd Grease.ssl_grease_extension2 = Ok x2.
  Hypothesis Hsni : blen (c_sni c) <= snimax.
  Hypothesis Homit : c_omit_psk c = omit.

  Ltac step IH Hr H :=
    match type of H with
    | bind (preset_exts _ _ ?seen ?keys ?echs ?r) _ = Ok ?es =>
        let r' := fresh "r'" in let Er := fresh "Er" in
        destruct (preset_exts sd c seen keys echs r) as [r'|?|?] eqn:Er; cbn [bind] in H; try discriminate;
        inversion H; subst es; clear H;
        apply lfacts_cons; [|exact (IH _ _ _ _ Er Hr)]
    end.

  Lemma preset_exts_ok : forall ss seen keys echs es, preset_exts sd c seen keys echs ss = Ok es ->
    forallb (sext_ok snimax omit) ss = true -> lfacts snimax ss (gids x1 x2 seen ss) es.
  Proof.
    induction ss as [|s r IH]; intros seen keys echs es H Hok; cbn [preset_exts] in H.
    - inversion H; subst es. unfold lfacts. cbn. repeat split; try reflexivity; try lia.
    - cbn [forallb] in Hok. apply andb_true_iff in Hok. destruct Hok as [Hs Hr].
      destruct s as [e|su ci en pl].
      + destruct e; cbn [gids is_sgrease sid];
        try (step IH Hr H; cbn [sext_ok] in Hs; rewrite !andb_true_iff in Hs; destruct Hs as [[Hw Hrf] Hty];
             unfold efacts, elem_good; cbn [pad_other max_len is_spsk is_sticket negb]; rewrite Hw, Hrf, Hty;
             repeat split; try reflexivity; lia).
        * (* SNI *) step IH Hr H. cbn [sext_ok] in Hs. unfold efacts, elem_good. cbn [max_len is_spsk is_sticket].
          destruct (empty host) eqn:Eh.
          -- unfold wf_ext, rfc_ok. cbn [state_ok fields_ok ext_len rfc_ok ext_absent typed_ext pad_other ext_id is_psk_ext is_ticket negb andb orb].
             assert (Hl : (if blen (c_sni c) =? 0 then 0 else 4 + 2 + 1 + 2 + blen (c_sni c)) <= 9 + snimax) by (destruct (blen (c_sni c) =? 0); lia).
             rewrite orb_true_r. repeat split; try reflexivity; try lia; destruct (blen (c_sni c) =? 0); lia.
          -- unfold wf_ext, rfc_ok. cbn [state_ok fields_ok ext_len rfc_ok ext_absent typed_ext pad_other ext_id is_psk_ext is_ticket negb andb orb].
             rewrite orb_true_r. repeat split; try reflexivity; destruct (blen host =? 0); lia.
        * (* supported_groups *)
          destruct (Grease.map_res (Grease.regrease sd Grease.ssl_grease_group) curves) as [cs'|?|?] eqn:Ec; cbn [bind] in H; try discriminate.
          step IH Hr H. destruct (regrease_list _ _ _ _ Ec) as [Hl Hb].
          cbn [sext_ok] in Hs. rewrite !andb_true_iff in Hs. destruct Hs as [[Hw Hrf] _]. unfold rfc_ok in Hrf.
          destruct (wf_parts _ Hw) as (_ & Hf & Hlen). cbn [fields_ok ext_len rfc_ok ext_absent orb] in *.
          unfold efacts, elem_good, wf_ext, rfc_ok.
          cbn [state_ok fields_ok ext_len rfc_ok ext_absent orb typed_ext pad_other ext_id is_psk_ext is_ticket max_len is_spsk is_sticket negb andb].
          rewrite (blen_length _ _ Hl), (nonempty_length _ _ Hl), Hrf. unfold all_lt in *. rewrite (Hb Hf).
          repeat split; try reflexivity; lia.
        * (* GREASE *) destruct seen as [|[|seen]]; [| |discriminate].
          -- rewrite Hx1 in H. cbn [bind] in H. step IH Hr H. destruct (boring_facts _ _ _ Hx1) as (B1 & B2 & _).
             cbn [sext_ok] in Hs. unfold efacts, elem_good, wf_ext, rfc_ok.
             cbn [state_ok fields_ok ext_len rfc_ok ext_absent orb typed_ext pad_other ext_id is_psk_ext is_ticket max_len is_spsk is_sticket negb].
             rewrite (grease_body_ok _ body B2). pose proof (grease_typed x1 body B2) as Ht. cbn [typed_ext] in Ht. rewrite Ht.
             repeat split; try reflexivity; lia.
          -- rewrite Hx2 in H. cbn [bind] in H. step IH Hr H. destruct (boring_facts _ _ _ Hx2) as (B1 & B2 & _).
             cbn [sext_ok] in Hs. unfold efacts, elem_good, wf_ext, rfc_ok.
             cbn [state_ok fields_ok ext_len rfc_ok ext_absent orb typed_ext pad_other ext_id is_psk_ext is_ticket max_len is_spsk is_sticket negb].
             rewrite (grease_body_ok _ [0] B2). pose proof (grease_typed x2 [0] B2) as Ht. cbn [typed_ext] in Ht. rewrite Ht.
             change (blen [0]) with 1. repeat split; try reflexivity; lia.
        * (* padding *) step IH Hr H. cbn [sext_ok] in Hs. apply andb_true_iff in Hs. destruct Hs as [Hw Hp].
          apply negb_true_iff in Hw. subst willpad. unfold efacts, elem_good, wf_ext, rfc_ok.
          cbn [state_ok fields_ok ext_len rfc_ok ext_absent negb orb typed_ext ext_id is_psk_ext is_ticket max_len is_spsk is_sticket andb].
          rewrite Hp. repeat split; try reflexivity; lia.
        * (* key_share *)
          destruct (preset_shares sd keys shares) as [[ks' keys']|?|?] eqn:Ek; cbn [bind fst snd] in H; try discriminate.
          step IH Hr H. cbn [sext_ok] in Hs. apply andb_true_iff in Hs. destruct Hs as [Hsh Hlen].
          destruct (preset_shares_ok _ _ _ _ _ Ek Hsh) as (K1 & K2 & K3).
          unfold efacts, elem_good, wf_ext, rfc_ok.
          cbn [state_ok fields_ok ext_len rfc_ok ext_absent orb typed_ext pad_other ext_id is_psk_ext is_ticket max_len is_spsk is_sticket negb andb].
          rewrite K1, K2, K3. repeat split; try reflexivity; lia.
        * (* supported_versions *)
          destruct (Grease.map_res (Grease.regrease sd Grease.ssl_grease_version) versions) as [vs'|?|?] eqn:Ec; cbn [bind] in H; try discriminate.
          step IH Hr H. destruct (regrease_list _ _ _ _ Ec) as [Hl Hb].
          cbn [sext_ok] in Hs. rewrite !andb_true_iff in Hs. destruct Hs as [[Hw Hrf] _]. unfold rfc_ok in Hrf.
          destruct (wf_parts _ Hw) as (_ & Hf & Hlen). cbn [fields_ok ext_len rfc_ok ext_absent orb] in *.
          apply andb_true_iff in Hf. destruct Hf as [Hf1 Hf2].
          unfold efacts, elem_good, wf_ext, rfc_ok.
          cbn [state_ok fields_ok ext_len rfc_ok ext_absent orb typed_ext pad_other ext_id is_psk_ext is_ticket max_len is_spsk is_sticket negb andb].
          rewrite (blen_length _ _ Hl), (nonempty_length _ _ Hl), Hrf. unfold all_lt in *. rewrite (Hb Hf1).
          repeat split; try reflexivity; lia.
        * (* utls psk *) step IH Hr H. rewrite Homit. cbn [sext_ok] in Hs. apply andb_true_iff in Hs. destruct Hs as [Hw Hrf].
          unfold efacts, elem_good. rewrite Hw, Hrf. cbn [typed_ext pad_other negb andb ext_id is_psk_ext is_ticket max_len is_spsk is_sticket sid].
          repeat split; try reflexivity; try (cbn [ext_len]; lia).
        * (* fake psk *) step IH Hr H. rewrite Homit. cbn [sext_ok] in Hs. apply andb_true_iff in Hs. destruct Hs as [Hw Hrf].
          unfold efacts, elem_good. rewrite Hw, Hrf. cbn [typed_ext pad_other negb andb ext_id is_psk_ext is_ticket max_len is_spsk is_sticket sid].
          repeat split; try reflexivity; try (cbn [ext_len]; lia).
      + (* GREASE ECH *) cbn [gids is_sgrease sid]. destruct echs as [|d echs']; [discriminate|].
        destruct (ech_init su ci en pl d) as [e|?|?] eqn:Ee; cbn [bind] in H; try discriminate.
        step IH Hr H. cbn [sext_ok] in Hs. rewrite !andb_true_iff in Hs. destruct Hs as [[Hsu Hen] Hpl].
        destruct (ech_init_ok _ _ _ _ _ _ Ee Hsu ltac:(lia) Hpl) as (E1 & E2 & E3 & E4 & E5 & E6 & E7 & E8).
        unfold efacts, elem_good. rewrite E1, E2, E3, E4. cbn [max_len is_spsk is_sticket negb andb]. repeat split; assumption.
  Qed.
End Loop.

(* ---- extension types pairwise distinct ---- *)
Definition nong (ss : list sext) : list sext := filter (fun s => negb (is_sgrease s)) ss.
Definition ngrease (ss : list sext) : nat := length (filter is_sgrease ss).

Lemma gids_no_grease x1 x2 : forall ss seen, ngrease ss = O -> gids x1 x2 seen ss = map sid (nong ss).
Proof.
  induction ss as [|s r IH]; intros seen H; [reflexivity|]. unfold ngrease, nong in *. cbn [filter gids] in *.
  destruct (is_sgrease s); cbn [length negb map] in *; [discriminate|]. rewrite (IH seen H). reflexivity.
Qed.

Lemma gids_in x1 x2 : forall ss seen y, In y (gids x1 x2 seen ss) -> In y (map sid (nong ss)) \/ y = x1 \/ y = x2.
Proof.
  induction ss as [|s r IH]; intros seen y H; [destruct H|]. unfold nong in *. cbn [gids filter] in *.
  destruct (is_sgrease s); cbn [negb map In] in *.
  - destruct H as [<-|H]; [destruct seen; tauto|]. apply IH in H. tauto.
  - destruct H as [<-|H]; [tauto|]. apply IH in H. tauto.
Qed.

Lemma gids_in_S x1 x2 : forall ss seen y, In y (gids x1 x2 (S seen) ss) -> In y (map sid (nong ss)) \/ y = x2.
Proof.
  induction ss as [|s r IH]; intros seen y H; [destruct H|]. unfold nong in *. cbn [gids filter] in *.
  destruct (is_sgrease s); cbn [negb map In] in *.
  - destruct H as [<-|H]; [tauto|]. apply IH in H. tauto.
  - destruct H as [<-|H]; [tauto|]. apply IH in H. tauto.
Qed.

Lemma gids_nodup x1 x2 : Grease.is_grease x1 = true -> Grease.is_grease x2 = true -> x1 <> x2 ->
  forall ss seen, NoDup (map sid (nong ss)) -> (forall s, In s (nong ss) -> Grease.is_grease (sid s) = false) ->
  (seen + ngrease ss <= 2)%nat -> NoDup (gids x1 x2 seen ss).
Proof.
  intros G1 G2 Hne. induction ss as [|s r IH]; intros seen Hnd Hng Hc; [constructor|].
  unfold nong, ngrease in *. cbn [gids filter] in *. destruct (is_sgrease s) eqn:Es; cbn [negb map length] in *.
  - assert (Hng' : forall y, In y (map sid (filter (fun s => negb (is_sgrease s)) r)) -> Grease.is_grease y = false).
    { intros y Hy. apply in_map_iff in Hy. destruct Hy as (t & <- & Ht). apply Hng. exact Ht. }
    constructor; [|apply IH; [exact Hnd | exact Hng | lia]].
    destruct seen as [|[|seen]]; [| |lia].
    + intros Hin. apply gids_in_S in Hin. destruct Hin as [Hin|Hin]; [|congruence]. apply Hng' in Hin. congruence.
    + assert (H0 : ngrease r = O) by (unfold ngrease; lia). rewrite (gids_no_grease x1 x2 r 2 H0). unfold nong.
      intros Hin. apply Hng' in Hin. congruence.
  - inversion Hnd as [|? ? Hn Hnd']; subst. constructor; [|apply IH; [exact Hnd' | intros t Ht; apply Hng; right; exact Ht | lia]].
    intros Hin. apply gids_in in Hin. pose proof (Hng s (or_introl eq_refl)) as Hs.
    destruct Hin as [Hin|[Hin|Hin]]; [exact (Hn Hin) | congruence | congruence].
Qed.

(* ---- pre_shared_key last ---- *)
Lemma psk_lastb_ext l : forall l', map (fun a => a =? ID_PSK) l = map (fun a => a =? ID_PSK) l' -> psk_lastb l = psk_lastb l'.
Proof.
  induction l as [|x r IH]; intros [|x' r'] H; try discriminate; [reflexivity|].
  cbn [map] in H. inversion H as [[Hx Hr]]. cbn [psk_lastb]. destruct r, r'; try discriminate; [reflexivity|].
  unfold ID_PSK in Hx. rewrite Hx. f_equal. apply IH. exact Hr.
Qed.

Lemma typed_psk_id e : typed_ext e = true -> (ext_id e =? ID_PSK) = is_psk_ext e.
Proof.
  destruct e; cbn [typed_ext ext_id is_psk_ext]; intros H; try reflexivity.
  - cbn [tracked_ids existsb] in H. apply negb_true_iff in H. rewrite !orb_false_iff in H. tauto.
  - cbn [tracked_ids existsb] in H. apply negb_true_iff in H. rewrite !orb_false_iff in H. tauto.
  - destruct old; reflexivity.
Qed.

(* ---- the totals fit: a bound that needs no bytes ---- *)
Definition pad_own (e : ext) : N := if is_padding e then ext_len e else 0.

Lemma nonpad_split padto es : nonpad_len (map (ChMarshal.to_aext padto) es) + sum_map pad_own es = sum_map ext_len es.
Proof.
  induction es as [|e es IH]; [reflexivity|]. cbn [map nonpad_len fold_right sum_map]. fold (nonpad_len (map (ChMarshal.to_aext padto) es)).
  unfold pad_own at 1. destruct (is_padding e) eqn:Hp.
  - destruct e; try discriminate. cbn [ChMarshal.to_aext a_is_pad]. lia.
  - rewrite (to_aext_nonpad padto e Hp). cbn [a_is_pad a_len]. lia.
Qed.

Lemma pad_update_bound pol st u : (forall n, pol <> PolAlways n) -> pad_len (pad_update pol st u) <= 516 + pad_len st.
Proof.
  intros Hp. destruct pol; cbn [pad_update]; [lia| |exfalso; eapply Hp; reflexivity].
  unfold boring_padding_style. destruct ((255 <? u) && (u <? 512)) eqn:E; unfold pad_len; cbn [p_will p_len]; [|lia].
  destruct (5 <=? 512 - u); lia.
Qed.

Lemma fits_bound h es : wf_specb h es = true -> existsb pad_other es = false ->
  len (h_suites h) * 2 <= 65535 -> len (h_comp h) <= 255 -> sum_map ext_len es + 516 <= 65535 -> spec_fitsb 0%Z h es = true.
Proof.
  intros Hwf Hpo Hsu Hcomp Hsum. destruct (prepare_of_wf 0%Z h es Hwf) as (p & Hp). unfold spec_fitsb. rewrite Hp.
  destruct (wf_spec_parts h es Hwf) as (_ & _ & Hsid & _ & _ & Hcne & _ & _ & _).
  unfold marshal_prepare in Hp. destruct (find_padding (map (ChMarshal.to_aext 0%Z) es) None) as [pe|c0|c0] eqn:Ef; cbn [bind] in Hp; try discriminate.
  inversion Hp; subst p. unfold fits. cbn [pr_extensions_len].
  pose proof (nonpad_split 0%Z es) as Hsplit.
  assert (Hext : match pe with
                 | Some (pol, st) => nonpad_len (map (ChMarshal.to_aext 0%Z) es) + pad_len (pad_update pol st (unpadded_len h (map (ChMarshal.to_aext 0%Z) es)))
                 | None => nonpad_len (map (ChMarshal.to_aext 0%Z) es) end <= 65535).
  { destruct pe as [[pol st]|]; [|lia].
    pose proof (find_padding_none _ _ Ef) as (pre & post & Heq & _ & _).
    assert (Hin : In (APad pol st) (map (ChMarshal.to_aext 0%Z) es)) by (rewrite Heq; apply in_or_app; right; left; reflexivity).
    apply in_map_iff in Hin. destruct Hin as (e & He & Hine). destruct e; try discriminate. cbn [ChMarshal.to_aext] in He. inversion He; subst pol st.
    assert (Hno : pad_other (EPadding padlen willpad policy) = false).
    { rewrite <- not_true_iff_false. intros Ht. rewrite <- not_true_iff_false in Hpo. apply Hpo. apply existsb_exists. eexists; split; [exact Hine|exact Ht]. }
    assert (Hpol : forall n, (match policy with PadNone => PolNone | PadBoring => PolBoring | PadOther => PolAlways 0%Z end) <> PolAlways n).
    { destruct policy; try discriminate. }
    pose proof (pad_update_bound _ {| p_len := padlen; p_will := willpad |} (unpadded_len h (map (ChMarshal.to_aext 0%Z) es)) Hpol) as Hb.
    pose proof (sum_map_ge pad_own es _ Hine) as Hown. unfold pad_own in Hown at 1. cbn [is_padding ext_len] in Hown.
    unfold pad_len in Hb at 2. cbn [p_will p_len] in Hb. lia. }
  rewrite !andb_true_iff. repeat split; try lia.
Qed.

(* ------------------------------------------------------------------ *)
(* MAIN: what ApplyPreset leaves for a preset_ok spec is inside the precondition of C02, typed, and fits *)
Theorem preset_ok_output sp c fr snimax omit h es :
  preset_ok sp snimax omit = true -> cfg_in_class c snimax omit -> apply_preset sp c fr = Ok (h, es) ->
  wf_specb h es = true /\ spec_fitsb 0%Z h es = true /\ forallb typed_ext es = true /\ existsb pad_other es = false.
Proof.
  intros Hok [Hsni Homit] H. unfold apply_preset in H.
  destruct (set_tls_vers sp) as [[mn mx]| |] eqn:Ev; cbn [bind fst snd] in H; try discriminate.
  destruct (hello_vers mn mx) as [v| |] eqn:Eh; cbn [bind] in H; try discriminate.
  destruct (blen (f_random fr) =? 32) eqn:Er; cbn [negb] in H; [|discriminate].
  destruct (Grease.grease_seed (f_grease fr)) as [sd| |] eqn:Eg; cbn [bind] in H; try discriminate.
  destruct (Grease.map_res (Grease.regrease sd Grease.ssl_grease_cipher) (sp_suites sp)) as [su| |] eqn:Es; cbn [bind] in H; try discriminate.
  destruct (blen (f_sid fr) =? 32) eqn:Ei; cbn [negb] in H; [|discriminate].
  destruct (preset_exts sd c 0 (f_keys fr) (f_ech fr) (sp_exts sp)) as [es0| |] eqn:Ee; cbn [bind] in H; try discriminate.
  destruct (sync_session_exts es0) as [u| |]; cbn [bind] in H; try discriminate.
  inversion H; subst h es; clear H.
  unfold preset_ok in Hok. rewrite !andb_true_iff in Hok.
  destruct Hok as [[[[[[[[[P1 P2] P3] P4] P5] P6] P7] P8] P9] P10].
  destruct (GreaseP.grease_seed_shape _ _ Eg) as (c0 & g0 & e1 & e2 & v0 & -> & Hne).
  assert (Hx1 : Grease.boring_grease [c0; g0; e1; e2; v0] Grease.ssl_grease_extension1 = Ok (Grease.grease_word e1)) by reflexivity.
  assert (Hx2 : Grease.boring_grease [c0; g0; e1; e2; v0] Grease.ssl_grease_extension2 = Ok (Grease.grease_word e2)) by reflexivity.
  destruct (preset_exts_ok _ c snimax omit _ _ Hx1 Hx2 Hsni Homit _ _ _ _ _ Ee P4) as (L1 & L2 & L3 & L4 & L5).
  destruct (regrease_list _ _ _ _ Es) as [Hsl Hsb].
  assert (Hgood : forall e, In e es0 -> wf_ext e = true /\ rfc_ok e = true /\ typed_ext e = true /\ pad_other e = false).
  { intros e He. rewrite forallb_forall in L1. specialize (L1 e He). unfold elem_good in L1. rewrite !andb_true_iff in L1.
    destruct L1 as [[[A B] C] D]. apply negb_true_iff in D. auto. }
  assert (Hpo : existsb pad_other es0 = false).
  { rewrite <- not_true_iff_false. intros Ht. apply existsb_exists in Ht. destruct Ht as (e & He & Hp). destruct (Hgood e He) as (_ & _ & _ & D). congruence. }
  assert (Hty : forallb typed_ext es0 = true) by (apply forallb_forall; intros e He; apply (Hgood e He)).
  assert (Hwf : wf_specb {| h_vers := v; h_random := f_random fr; h_sid := f_sid fr; h_suites := su; h_comp := [0] |} es0 = true).
  { unfold wf_specb, hdr_wfb. cbn [h_vers h_random h_sid h_suites h_comp nonempty].
    rewrite !andb_true_iff. repeat split.
    - unfold hello_vers in Eh. destruct (mx <? mn); [discriminate|]. inversion Eh. unfold VersionTLS12. destruct (771 <? mx) eqn:E; clear - E; lia.
    - exact Er.
    - apply N.eqb_eq in Ei. unfold len. fold (blen (f_sid fr)). clear - Ei. lia.
    - rewrite (nonempty_length _ _ Hsl). exact P1.
    - exact (Hsb P2).
    - apply forallb_forall. intros e He. destruct (Hgood e He) as (A & B & _). rewrite A, B. reflexivity.
    - rewrite L3. apply nodupb_spec. destruct (boring_facts _ _ _ Hx1) as (_ & _ & G1). destruct (boring_facts _ _ _ Hx2) as (_ & _ & G2).
      apply (gids_nodup _ _ G1 G2 Hne).
      + apply nodupb_spec. exact P6.
      + intros s Hs. unfold nong in Hs. apply filter_In in Hs. destruct Hs as [Hs Hng]. rewrite forallb_forall in P7. specialize (P7 s Hs).
        destruct (is_sgrease s); [discriminate|]. cbn [orb] in P7. apply negb_true_iff in P7. exact P7.
      + unfold ngrease. clear - P5. lia.
    - rewrite (psk_lastb_ext (map ext_id es0) (map pid (sp_exts sp))); [exact P8|].
      rewrite !map_map.
      transitivity (map is_psk_ext es0).
      + apply map_ext_in. intros e He. apply typed_psk_id. apply (Hgood e He).
      + rewrite L4. apply map_ext. intros s. unfold pid. destruct (is_spsk s); reflexivity. }
  split; [exact Hwf|]. split; [|split; [exact Hty | exact Hpo]].
  apply fits_bound; [exact Hwf | exact Hpo | | | ].
  - cbn [h_suites]. unfold len. fold (blen su). rewrite (blen_length _ _ Hsl). clear - P3. lia.
  - cbn [h_comp]. unfold len. cbn. clear. lia.
  - clear - L2 P10. lia.
Qed.

(* ... hence the hello can be marshalled and is a valid ClientHello: no premise on the model's output left *)
Theorem preset_ok_builds sp c fr snimax omit h es :
  preset_ok sp snimax omit = true -> cfg_in_class c snimax omit -> apply_preset sp c fr = Ok (h, es) ->
  exists raw, build sp c fr = Ok raw /\ marshal_hello bbs512 0%Z h es = Ok raw /\ valid_ch raw.
Proof.
  intros Hok Hc Ha. destruct (preset_ok_output sp c fr snimax omit h es Hok Hc Ha) as (Hwf & Hfit & _ & Hpo).
  destruct (encodes_when_fits bbs512 0%Z h es Hwf Hfit) as (raw & Hm & Hv). exists raw. split; [|split; [exact Hm|exact Hv]].
  unfold build. rewrite Ha. cbn [bind fst snd]. rewrite Hpo.
  unfold marshal_hello in Hm. unfold spec_fitsb in Hfit.
  destruct (marshal_prepare h (map (ChMarshal.to_aext 0%Z) es)) as [p| |]; try discriminate. cbn [bind] in Hm. rewrite Hfit in Hm. cbn [negb] in Hm.
  rewrite <- Hm. f_equal. clear - Hpo. induction es as [|e es IH]; [reflexivity|]. cbn [existsb map] in *. apply orb_false_iff in Hpo. destruct Hpo as [He Hes].
  rewrite (IH Hes). f_equal. destruct e; try reflexivity. destruct policy; try reflexivity. discriminate.
Qed.

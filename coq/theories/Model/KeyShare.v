(* C18 (and the key bookkeeping of C10): which key shares ApplyPreset generates, which
   private keys it retains, how establishHandshakeKeys picks the key for the group the
   server selected, and how the client random, the legacy session id and every key
   consume the Config.Rand byte stream. Executable definitions only.

   Mirrored code (/repo at the time of writing, WITH fixes/C18-keyshare-private-keys.diff;
   the pre-repair behaviour is the same model with [fixed := false]):
     u_handshake_client.go:189-397   makeClientHelloForApplyPreset (random, first session id)
     u_parrots.go:2766-2840          ApplyPreset: KeyShareKeys reset, GREASE bytes, session id (not for QUIC)
     u_parrots.go:2874-2932          ApplyPreset: KeyShareExtension loop (key generation, retained keys)
     key_schedule.go:53-82           keySharePrivateKeys, ecdheKeyFor (added by the repair)
     key_schedule.go:84-100          generateECDHEKey / curveForCurveID
     u_public.go:888-925             KeySharePrivateKeys <-> keySharePrivateKeys (field-wise copy)
     handshake_client_tls13.go:63    handshake(): keyShareKeys.ecdhe == nil -> internal error
     handshake_client_tls13.go:566-579 getSharedKey
     handshake_client_tls13.go:583-651 establishHandshakeKeys (shared secret)
     handshake_server_tls13.go:220-275 the peer: server share and secret for the selected group

   Randomness is an input: the Config.Rand stream is a function [rnd : N -> N] (byte at
   offset), a draw of n bytes at cursor p is [take_at p n] and moves the cursor to p + n.
   Key generation, Diffie-Hellman and ML-KEM are Section variables (laws in Proofs/KeyShareP.v).
   generateECDHEKey consumes a positive but data-dependent number of bytes
   (randutil.MaybeReadByte, rejection sampling for the NIST curves): [ecdh_gen g p] returns
   the key and the number of bytes consumed. *)
From UV Require Export Base.Common Model.Negotiate.

Definition G_X25519 : N := 29.
Definition G_P256 : N := 23.
Definition G_P384 : N := 24.
Definition G_P521 : N := 25.
Definition G_MLKEM : N := 4588.   (* X25519MLKEM768 *)
Definition G_KYBER : N := 25497.  (* X25519Kyber768Draft00 *)

Definition EK_SIZE : nat := 1184.  (* mlkem.EncapsulationKeySize768 *)
Definition CT_SIZE : nat := 1088.  (* mlkem.CiphertextSize768 *)
Definition X_SIZE : nat := 32.     (* x25519PublicKeySize *)
Definition SEED_SIZE : nat := 64.  (* mlkem.SeedSize *)
Definition GREASE_BYTES : nat := 10. (* 2*ssl_grease_last_index, u_tls_extensions.go:958-966 *)

(* the size RFC 8446 4.2.8.2 / draft-kwiatkowski-tls-ecdhe-mlkem fix for a key_exchange of group g *)
Definition share_size (g : N) : N :=
  if g =? 29 then 32 else if g =? 23 then 65 else if g =? 24 then 97 else if g =? 25 then 133
  else if hybrid g then 1216 else 0.

Definition E_UNSUPPORTED_CURVE : N := 1. (* "unsupported Curve in KeyShareExtension" *)
Definition E_INVALID_SHARE : N := 2.     (* "tls: invalid server key share" (alert illegal_parameter) *)
Definition E_INTERNAL : N := 3.          (* alert internal_error *)
Definition E_INVALID_HYBRID : N := 4.    (* "tls: invalid server X25519MLKEM768 key share" / decapsulation failure *)
Definition P_NIL : N := 1.               (* nil *ecdh.PrivateKey dereferenced in getSharedKey *)

Record kshare := mkKS { ks_group : N; ks_data : bytes }.  (* KeyShare{Group, Data} *)

Inductive dlabel := DRandom | DSidEarly | DGrease | DSid | DKey (i : nat) | DSeed (i : nat).
Record seg := mkSeg { sg_label : dlabel; sg_start : N; sg_len : N }.

Definition lenN {A} (l : list A) : N := N.of_nat (length l).

Section KS.
  Variable priv : Type.                          (* an ECDH private scalar *)
  Variable dkey : Type.                          (* *mlkem.DecapsulationKey768 *)
  Variable rnd : N -> N.                         (* Config.rand(): byte at offset *)
  Variable ecdh_gen : N -> N -> priv * N.        (* generateECDHEKey(rand at cursor p, curve g) = (key, bytes consumed) *)
  Variable pub : N -> priv -> bytes.             (* key.PublicKey().Bytes() on curve g *)
  Variable dh : N -> priv -> bytes -> option bytes. (* curve.NewPublicKey(peer) then key.ECDH; None = error *)
  Variable kem_new : bytes -> dkey.              (* mlkem.NewDecapsulationKey768(seed) *)
  Variable kem_ek : dkey -> bytes.               (* EncapsulationKey().Bytes() *)
  Variable kem_decap : dkey -> bytes -> option bytes.
  Variable kem_encap : bytes -> bytes -> bytes * bytes. (* peer: Encapsulate() = (ciphertext, shared), second argument its randomness *)

  Definition take_at (p : N) (n : nat) : bytes := map (fun i => rnd (p + N.of_nat i)) (seq 0 n).

  Record ekey := mkEK { ek_curve : N; ek_key : priv }.     (* *ecdh.PrivateKey: curve + scalar *)

  (* KeySharePrivateKeys (u_public.go:888) = keySharePrivateKeys (key_schedule.go:53), copied field-wise *)
  Record keys := mkKeys {
    k_ecdhe : option ekey;
    k_mlkem : option dkey;
    k_mlkem_ecdhe : option ekey;
    k_extra : list ekey            (* ExtraEcdhe / extraEcdhe: only written by the repaired code *)
  }.
  Definition no_keys : keys := mkKeys None None None [].

  Record st := mkSt { s_pos : N; s_keys : keys; s_pref : bool (* preferredCurveIsSet *); s_log : list seg }.

  (* u_parrots.go:2876-2930, body of the loop over ext.KeyShares[i] *)
  Definition step (fixed : bool) (gv : N) (i : nat) (k : kshare) (s : st) : res (kshare * st) :=
    let g := ks_group k in
    if is_grease g then Ok (mkKS gv (ks_data k), s)               (* 2878-2881: regreased, Data kept *)
    else if 1 <? lenN (ks_data k) then Ok (k, s)                  (* 2882-2884: preset Data kept, no key *)
    else if hybrid g then                                          (* 2886-2912 *)
      let '(xk, n) := ecdh_gen 29 (s_pos s) in
      let p1 := s_pos s + n in
      let d := kem_new (take_at p1 SEED_SIZE) in
      let data := if g =? G_KYBER then pub 29 xk ++ kem_ek d else kem_ek d ++ pub 29 xk in
      let ks := s_keys s in
      let e := if fixed then match k_ecdhe ks with None => Some (mkEK 29 xk) | o => o end else k_ecdhe ks in
      Ok (mkKS g data,
          mkSt (p1 + N.of_nat SEED_SIZE) (mkKeys e (Some d) (Some (mkEK 29 xk)) (k_extra ks)) (s_pref s)
               (s_log s ++ [mkSeg (DKey i) (s_pos s) n; mkSeg (DSeed i) p1 (N.of_nat SEED_SIZE)]))
    else if negb (classical_impl g) then Err E_UNSUPPORTED_CURVE  (* 2914-2918 *)
    else
      let '(ck, n) := ecdh_gen g (s_pos s) in
      let ks := s_keys s in
      let ks' :=
        if negb (s_pref s) then mkKeys (Some (mkEK g ck)) (k_mlkem ks) (k_mlkem_ecdhe ks) (k_extra ks)   (* 2921-2925 *)
        else if fixed then mkKeys (k_ecdhe ks) (k_mlkem ks) (k_mlkem_ecdhe ks) (k_extra ks ++ [mkEK g ck])
        else ks in
      Ok (mkKS g (pub g ck), mkSt (s_pos s + n) ks' true (s_log s ++ [mkSeg (DKey i) (s_pos s) n])).

  Fixpoint loop (fixed : bool) (gv : N) (i : nat) (l : list kshare) (s : st) : res (list kshare * st) :=
    match l with
    | [] => Ok ([], s)
    | k :: tl =>
        match step fixed gv i k s with
        | Ok (k', s1) =>
            match loop fixed gv (S i) tl s1 with
            | Ok (tl', s2) => Ok (k' :: tl', s2)
            | Err c => Err c | Panic c => Panic c
            end
        | Err c => Err c | Panic c => Panic c
        end
    end.

  Record applied := mkApplied {
    a_random : bytes; a_sid : bytes; a_shares : list kshare; a_keys : keys; a_log : list seg; a_end : N
  }.

  (* makeClientHelloForApplyPreset (random :255, session id :264-269) then ApplyPreset (2766-2840, 2874-2932).
     gv = GetBoringGREASEValue(greaseSeed, ssl_grease_group) (C04). p0 = cursor of Config.Rand on entry. *)
  Definition apply_preset (fixed quic : bool) (gv : N) (shares : list kshare) (p0 : N) : res applied :=
    let random := take_at p0 32 in
    let l0 := [mkSeg DRandom p0 32] in
    let p1 := p0 + 32 in
    let '(p2, l1) := if quic then (p1, l0) else (p1 + 32, l0 ++ [mkSeg DSidEarly p1 32]) in
    let p3 := p2 + N.of_nat GREASE_BYTES in
    let l2 := l1 ++ [mkSeg DGrease p2 (N.of_nat GREASE_BYTES)] in
    let '(sid, p4, l3) := if quic then ([], p3, l2) else (take_at p3 32, p3 + 32, l2 ++ [mkSeg DSid p3 32]) in
    match loop fixed gv 0 shares (mkSt p4 no_keys false l3) with
    | Ok (out, s) => Ok (mkApplied random sid out (s_keys s) (s_log s) (s_pos s))
    | Err c => Err c | Panic c => Panic c
    end.

  (* ---- the client's shared secret ---- *)
  (* handshake_client_tls13.go:566-579 *)
  Definition get_shared (peer : bytes) (k : option ekey) : res bytes :=
    match k with
    | None => Panic P_NIL
    | Some e => match dh (ek_curve e) (ek_key e) peer with Some s => Ok s | None => Err E_INVALID_SHARE end
    end.

  (* key_schedule.go ecdheKeyFor (repair); before the repair the call site used keyShareKeys.ecdhe *)
  Definition ecdhe_key_for (fixed : bool) (ks : keys) (g : N) : option ekey :=
    if negb fixed then k_ecdhe ks
    else if hybrid g then match k_mlkem_ecdhe ks with Some e => Some e | None => k_ecdhe ks end
    else match k_ecdhe ks with
         | None => None
         | Some e =>
             if classical_impl g && negb (ek_curve e =? g) then
               match find (fun x => ek_curve x =? g) (k_extra ks) with Some x => Some x | None => Some e end
             else Some e
         end.

  (* handshake_client_tls13.go:63 + 583-651. by_utls = (clientHelloBuildStatus == BuildByUtls).
     g, data = serverHello.serverShare. *)
  Definition client_secret (fixed by_utls : bool) (ks : keys) (g : N) (data : bytes) : res bytes :=
    match k_ecdhe ks with
    | None => Err E_INTERNAL                                                    (* :63 *)
    | Some _ =>
        if (g =? G_MLKEM) && negb (length data =? CT_SIZE + X_SIZE)%nat then Err E_INVALID_HYBRID      (* 587-590 *)
        else if (g =? G_KYBER) && negb (length data =? X_SIZE + CT_SIZE)%nat then Err E_INVALID_HYBRID (* 595-598 *)
        else
          let peer := if g =? G_MLKEM then skipn CT_SIZE data else if g =? G_KYBER then firstn X_SIZE data else data in
          match get_shared peer (ecdhe_key_for fixed ks g) with                 (* 604 *)
          | Ok shared =>
              if hybrid g then
                match k_mlkem ks with
                | None => Err E_INTERNAL                                        (* 611 / 632 *)
                | Some d =>
                    match (if by_utls then get_shared peer (k_mlkem_ecdhe ks) else Ok shared) with  (* 615-620 *)
                    | Ok shared2 =>
                        let ct := if g =? G_MLKEM then firstn CT_SIZE data else skipn X_SIZE data in
                        match kem_decap d ct with
                        | None => Err E_INVALID_HYBRID
                        | Some ss => Ok (if g =? G_MLKEM then ss ++ shared2 else shared2 ++ ss)  (* 628 / 647 *)
                        end
                    | Err c => Err c | Panic c => Panic c
                    end
                end
              else Ok shared
          | Err c => Err c | Panic c => Panic c
          end
    end.

  (* ---- the peer: a compliant server that selected the client's share for group g
          (handshake_server_tls13.go:220-275; the draft-00 hybrid in the order of its draft).
          b = its ECDH key, r = its encapsulation randomness. Returns (server share, its secret). ---- *)
  Definition server_flight (g : N) (cdata : bytes) (b : priv) (r : bytes) : option (bytes * bytes) :=
    if g =? G_MLKEM then
      let '(ct, ss) := kem_encap (firstn EK_SIZE cdata) r in
      match dh 29 b (skipn EK_SIZE cdata) with Some s => Some (ct ++ pub 29 b, ss ++ s) | None => None end
    else if g =? G_KYBER then
      let '(ct, ss) := kem_encap (skipn X_SIZE cdata) r in
      match dh 29 b (firstn X_SIZE cdata) with Some s => Some (pub 29 b ++ ct, s ++ ss) | None => None end
    else
      match dh g b cdata with Some s => Some (pub g b, s) | None => None end.
End KS.

Arguments mkEK {priv}. Arguments ek_curve {priv}. Arguments ek_key {priv}.
Arguments mkKeys {priv dkey}. Arguments k_ecdhe {priv dkey}. Arguments k_mlkem {priv dkey}.
Arguments k_mlkem_ecdhe {priv dkey}. Arguments k_extra {priv dkey}. Arguments no_keys {priv dkey}.
Arguments mkSt {priv dkey}. Arguments s_pos {priv dkey}. Arguments s_keys {priv dkey}.
Arguments s_pref {priv dkey}. Arguments s_log {priv dkey}.
Arguments mkApplied {priv dkey}. Arguments a_random {priv dkey}. Arguments a_sid {priv dkey}.
Arguments a_shares {priv dkey}. Arguments a_keys {priv dkey}. Arguments a_log {priv dkey}. Arguments a_end {priv dkey}.

(* ---- importing a captured hello (Fingerprinter / ClientHelloSpec.FromRaw): u_tls_extensions.go:1268-1295
        KeyShareExtension.Write. A GREASE entry becomes the placeholder and keeps its data, every other entry loses its
        key_exchange: it is generated per connection by ApplyPreset. ---- *)
Definition GREASE_PLACEHOLDER : N := 2570.
Definition import_share (k : kshare) : kshare :=
  if is_grease (ks_group k) then mkKS GREASE_PLACEHOLDER (ks_data k) else mkKS (ks_group k) [].
Definition import_shares (wire : list kshare) : list kshare := map import_share wire.

(* a share the loop generates a key for *)
Definition generated (k : kshare) : bool := negb (is_grease (ks_group k)) && negb (1 <? lenN (ks_data k)).

(* ---- a toy instance of the crypto variables that satisfies every law of Proofs/KeyShareP.v
        (commutative "DH" = product of scalars, length-checked; "KEM" whose ciphertext carries the
        secret). Not cryptography: it shows the laws are consistent, runs the model for the
        correspondence (shapes do not depend on the instance) and carries the refutation witness. ---- *)
Definition pad (n : nat) (l : bytes) : bytes := firstn n (l ++ repeat 0 n).
Definition toy_scalar (l : bytes) : N := fold_left (fun a b => (a * 256 + b) mod 65521) l 1.
Definition toy_pub (g : N) (k : N) : bytes := pad (N.to_nat (share_size g)) [k / 256; k mod 256].
Definition toy_dh (g : N) (k : N) (peer : bytes) : option bytes :=
  if lenN peer =? share_size g then
    match peer with a :: b :: _ => Some [g; (k * (a * 256 + b)) mod 65521] | _ => None end
  else None.
Definition toy_gen (rnd : N -> N) (g : N) (p : N) : N * N :=
  (* a curve-dependent number of bytes, one more when the byte at the cursor is odd (MaybeReadByte) *)
  let extra := if N.odd (rnd p) then 1 else 0 in
  let n := (if g =? 29 then 32 else if g =? 23 then 32 else if g =? 24 then 48 else 66) + extra in
  (toy_scalar (map (fun i => rnd (p + extra + N.of_nat i)) (seq 0 4)) mod 65521, n).
Definition toy_kem_new (seed : bytes) : bytes := pad 8 seed.
Definition toy_kem_ek (d : bytes) : bytes := pad EK_SIZE d.
Definition toy_kem_encap (ek r : bytes) : bytes * bytes := (pad CT_SIZE (pad 32 r), pad 32 r).
Definition toy_kem_decap (d ct : bytes) : option bytes := Some (firstn 32 ct).

Definition toy_apply (rnd : N -> N) := apply_preset N bytes rnd (toy_gen rnd) toy_pub toy_kem_new toy_kem_ek.
Definition toy_client := client_secret N bytes toy_dh toy_kem_decap.
Definition toy_server := server_flight N toy_pub toy_dh toy_kem_encap.

(* ---- shapes: what the runner can observe of the retained keys and the wire shares ---- *)
Record kshape := mkShape {
  sh_ecdhe : N;            (* curve of KeyShareKeys.Ecdhe, 0 = nil *)
  sh_extra : list N;       (* curves of KeyShareKeys.ExtraEcdhe *)
  sh_mlkem : bool;         (* KeyShareKeys.Mlkem != nil *)
  sh_mlkem_ecdhe : N       (* curve of KeyShareKeys.MlkemEcdhe, 0 = nil *)
}.
Definition curve_of {priv} (o : option (ekey priv)) : N := match o with Some e => ek_curve e | None => 0 end.
Definition shape_of {priv dkey} (ks : keys priv dkey) : kshape :=
  mkShape (curve_of (k_ecdhe ks)) (map ek_curve (k_extra ks))
          (match k_mlkem ks with Some _ => true | None => false end) (curve_of (k_mlkem_ecdhe ks)).
Definition shape_eqb (a b : kshape) : bool :=
  (sh_ecdhe a =? sh_ecdhe b) && list_eqN (sh_extra a) (sh_extra b)
  && Bool.eqb (sh_mlkem a) (sh_mlkem b) && (sh_mlkem_ecdhe a =? sh_mlkem_ecdhe b).

(* does the client end with the server's secret when the server selects wire share number i? (toy crypto) *)
Definition toy_agree (fixed : bool) (a : applied N bytes) (i : nat) (b : N) (r : bytes) : bool :=
  match nth_error (a_shares a) i with
  | None => false
  | Some k =>
      match toy_server (ks_group k) (ks_data k) b r with
      | None => false
      | Some (sdata, ssec) =>
          match toy_client fixed true (a_keys a) (ks_group k) sdata with
          | Ok s => bytes_eqb s ssec
          | _ => false
          end
      end
  end.

(* ---- the order of Config.Rand reads, as a matcher over an observed read log ----
   An observed read is (length, tag): tag 1 = the bytes became hello.random, 2 = session id,
   10+i = the bytes are the private scalar behind wire share i, 50+i = the ML-KEM seed of wire share i,
   0 = not identified (discarded session id, GREASE bytes, MaybeReadByte, rejected candidates). *)
Definition scalar_len (g : N) : N := if g =? 29 then 32 else if g =? 23 then 32 else if g =? 24 then 48 else if g =? 25 then 66 else 0.

Fixpoint skip_unknown (fuel : nat) (l : list (N * N)) : list (N * N) :=
  match fuel, l with
  | S f, (_, 0) :: tl => skip_unknown f tl
  | _, _ => l
  end.

Fixpoint match_keys (i : nat) (shares : list kshare) (l : list (N * N)) : bool :=
  match shares with
  | [] => match l with [] => true | _ => false end
  | k :: tl =>
      if negb (generated k) then match_keys (S i) tl l
      else
        let g := if hybrid (ks_group k) then 29 else ks_group k in
        match skip_unknown 64 l with
        | (n, t) :: l1 =>
            (n =? scalar_len g) && (t =? 10 + N.of_nat i)
            && (if hybrid (ks_group k) then
                  match l1 with
                  | (n2, t2) :: l2 => (n2 =? 64) && (t2 =? 50 + N.of_nat i) && match_keys (S i) tl l2
                  | [] => false
                  end
                else match_keys (S i) tl l1)
        | [] => false
        end
  end.

Definition match_reads (quic : bool) (shares : list kshare) (l : list (N * N)) : bool :=
  if quic then
    match l with
    | (32, 1) :: (10, 0) :: tl => match_keys 0 shares tl
    | _ => false
    end
  else
    match l with
    | (32, 1) :: (32, 0) :: (10, 0) :: (32, 2) :: tl => match_keys 0 shares tl
    | _ => false
    end.

(* the model's own log rendered as such a read list (used to state that match_reads accepts it) *)
Definition tag_of (l : dlabel) : N :=
  match l with DRandom => 1 | DSid => 2 | DKey i => 10 + N.of_nat i | DSeed i => 50 + N.of_nat i | _ => 0 end.
